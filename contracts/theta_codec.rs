use vstd::prelude::*;
use std::io;
use std::io::Cursor;
use std::io::Read;
verus! {
global size_of usize == 8;

// =====================================================================================================================
// Byte codecs: interpreted on both sides, the round trips are lemmas (no axiom)
// =====================================================================================================================
spec fn le16_bytes(n: u16) -> Seq<u8> { seq![(n & 0xff) as u8, ((n >> 8) & 0xff) as u8] }
spec fn le32_bytes(n: u32) -> Seq<u8> { seq![(n & 0xff) as u8, ((n >> 8) & 0xff) as u8, ((n >> 16) & 0xff) as u8, ((n >> 24) & 0xff) as u8] }
spec fn le64_bytes(n: u64) -> Seq<u8> { le32_bytes((n & 0xffff_ffff) as u32) + le32_bytes((n >> 32) as u32) }
spec fn be16_bytes(n: u16) -> Seq<u8> { seq![((n >> 8) & 0xff) as u8, (n & 0xff) as u8] }
spec fn be32_bytes(n: u32) -> Seq<u8> { seq![((n >> 24) & 0xff) as u8, ((n >> 16) & 0xff) as u8, ((n >> 8) & 0xff) as u8, (n & 0xff) as u8] }
spec fn le16_val(b: Seq<u8>) -> u16 { (b[0] as u16) | ((b[1] as u16) << 8) }
spec fn le32_val(b: Seq<u8>) -> u32 { (b[0] as u32) | ((b[1] as u32) << 8) | ((b[2] as u32) << 16) | ((b[3] as u32) << 24) }
spec fn le64_val(b: Seq<u8>) -> u64 { (le32_val(b.subrange(0, 4)) as u64) | ((le32_val(b.subrange(4, 8)) as u64) << 32) }

proof fn lemma_le16_roundtrip(n: u16) ensures le16_val(le16_bytes(n)) == n, le16_bytes(n).len() == 2 {
    let b0 = (n & 0xff) as u8; let b1 = ((n >> 8) & 0xff) as u8;
    assert((b0 as u16) | ((b1 as u16) << 8) == n) by (bit_vector) requires b0 == (n & 0xff) as u8, b1 == ((n >> 8) & 0xff) as u8;
}
proof fn lemma_le32_roundtrip(n: u32) ensures le32_val(le32_bytes(n)) == n, le32_bytes(n).len() == 4 {
    let b0 = (n & 0xff) as u8; let b1 = ((n >> 8) & 0xff) as u8; let b2 = ((n >> 16) & 0xff) as u8; let b3 = ((n >> 24) & 0xff) as u8;
    assert((b0 as u32) | ((b1 as u32) << 8) | ((b2 as u32) << 16) | ((b3 as u32) << 24) == n) by (bit_vector)
      requires b0 == (n & 0xff) as u8, b1 == ((n >> 8) & 0xff) as u8, b2 == ((n >> 16) & 0xff) as u8, b3 == ((n >> 24) & 0xff) as u8;
}
proof fn lemma_le64_roundtrip(n: u64) ensures le64_val(le64_bytes(n)) == n, le64_bytes(n).len() == 8 {
    let lo = (n & 0xffff_ffff) as u32; let hi = (n >> 32) as u32;
    lemma_le32_roundtrip(lo); lemma_le32_roundtrip(hi);
    assert(le64_bytes(n).subrange(0, 4) =~= le32_bytes(lo));
    assert(le64_bytes(n).subrange(4, 8) =~= le32_bytes(hi));
    assert((lo as u64) | ((hi as u64) << 32) == n) by (bit_vector) requires lo == (n & 0xffff_ffff) as u32, hi == (n >> 32) as u32;
}

// list codecs: n little-endian u64
spec fn enc_u64s(s: Seq<u64>) -> Seq<u8> decreases s.len() { if s.len() == 0 { Seq::empty() } else { enc_u64s(s.drop_last()) + le64_bytes(s.last()) } }
spec fn dec_u64s(b: Seq<u8>, n: nat) -> Seq<u64> { Seq::new(n, |i: int| le64_val(b.subrange(8 * i, 8 * i + 8))) }

proof fn lemma_enc_u64s_len(s: Seq<u64>) ensures enc_u64s(s).len() == 8 * s.len() decreases s.len() {
    if s.len() > 0 { lemma_enc_u64s_len(s.drop_last()); lemma_le64_roundtrip(s.last()); }
}
// decode inverts encode, whatever follows the list
proof fn lemma_dec_enc_u64s(s: Seq<u64>, tail: Seq<u8>) ensures dec_u64s(enc_u64s(s) + tail, s.len()) =~= s decreases s.len() {
    lemma_enc_u64s_len(s);
    if s.len() > 0 {
        let p = s.drop_last(); let lb = le64_bytes(s.last());
        lemma_enc_u64s_len(p); lemma_le64_roundtrip(s.last());
        lemma_dec_enc_u64s(p, lb + tail);
        assert(enc_u64s(s) + tail =~= enc_u64s(p) + (lb + tail));
        let b = enc_u64s(s) + tail;
        assert forall|i: int| 0 <= i < s.len() implies #[trigger] dec_u64s(b, s.len())[i] == s[i] by {
            if i < p.len() {
                assert(dec_u64s(enc_u64s(p) + (lb + tail), p.len())[i] == p[i]);
            } else {
                assert(b.subrange(8 * i, 8 * i + 8) =~= lb);
            }
        }
    }
}

// =====================================================================================================================
// Bit-packed values (serial version 4).  Interpreted on both sides as well: lemma_unpack_pack is proved, not assumed.
// What IS assumed (contracts of theta/bit_pack.rs below) is that the real pack/unpack functions compute packed()/unpacked();
// those contracts are proved on the real code by the Kani harnesses kani/theta_bitpack.rs (bp_*), every width 1..=63.
// =====================================================================================================================
// ---- the reference bit stream (DESIGN.md Appendix A: "deltas packed MSB-first, blocks of 8 values in entryBits bytes, tail bit-packed")
// stream bit k is bit 7 - k%8 of byte k/8; value i of width w occupies stream bits i*w .. (i+1)*w, most significant bit first
spec fn bit_of(x: u64, p: int) -> bool { 0 <= p < 64 && (x >> (p as u64)) & 1 == 1 }
spec fn vals_bit(v: Seq<u64>, w: int, k: int) -> bool { 0 <= k < v.len() * w && bit_of(v[k / w], w - 1 - k % w) }
spec fn b2u(b: bool) -> u8 { if b { 1 } else { 0 } }
spec fn byte_of_bits(b0: bool, b1: bool, b2: bool, b3: bool, b4: bool, b5: bool, b6: bool, b7: bool) -> u8 {
    (b2u(b0) << 7) | (b2u(b1) << 6) | (b2u(b2) << 5) | (b2u(b3) << 4) | (b2u(b4) << 3) | (b2u(b5) << 2) | (b2u(b6) << 1) | b2u(b7)
}
spec fn packed_byte(v: Seq<u64>, w: int, b: int) -> u8 {
    byte_of_bits(vals_bit(v, w, 8 * b), vals_bit(v, w, 8 * b + 1), vals_bit(v, w, 8 * b + 2), vals_bit(v, w, 8 * b + 3),
                 vals_bit(v, w, 8 * b + 4), vals_bit(v, w, 8 * b + 5), vals_bit(v, w, 8 * b + 6), vals_bit(v, w, 8 * b + 7))
}
// n values of w bits -> ceil(n*w/8) bytes, the unused low bits of the last byte are 0
spec fn packed_len(n: int, w: int) -> int { (n * w + 7) / 8 }
spec fn packed(v: Seq<u64>, w: int) -> Seq<u8> { Seq::new(packed_len(v.len() as int, w) as nat, |b: int| packed_byte(v, w, b)) }
// reading: the value made of the w stream bits from position p
spec fn bytes_bit(b: Seq<u8>, k: int) -> bool { 0 <= k < 8 * b.len() && (b[k / 8] >> ((7 - k % 8) as u8)) & 1 == 1 }
spec fn bytes_bit_at(b: Seq<u8>, p: int, j: int) -> bool { bytes_bit(b, p + j) }
#[verifier::opaque]
spec fn stream_val(b: Seq<u8>, p: int, w: int) -> u64 decreases w { if w <= 0 { 0 } else { (2 * stream_val(b, p, w - 1) + b2u(bytes_bit(b, p + w - 1))) as u64 } }
spec fn unpacked(b: Seq<u8>, w: int, n: nat) -> Seq<u64> { Seq::new(n, |i: int| stream_val(b, i * w, w)) }
spec fn fits(v: Seq<u64>, w: int) -> bool { forall|i: int| 0 <= i < v.len() ==> #[trigger] v[i] >> (w as u64) == 0 }

proof fn lemma_byte_of_bits(b0: bool, b1: bool, b2: bool, b3: bool, b4: bool, b5: bool, b6: bool, b7: bool)
  ensures ({ let x = byte_of_bits(b0, b1, b2, b3, b4, b5, b6, b7);
    &&& ((x >> 7u8) & 1 == 1) == b0 &&& ((x >> 6u8) & 1 == 1) == b1 &&& ((x >> 5u8) & 1 == 1) == b2 &&& ((x >> 4u8) & 1 == 1) == b3
    &&& ((x >> 3u8) & 1 == 1) == b4 &&& ((x >> 2u8) & 1 == 1) == b5 &&& ((x >> 1u8) & 1 == 1) == b6 &&& ((x >> 0u8) & 1 == 1) == b7 })
{
    let x0 = b2u(b0); let x1 = b2u(b1); let x2 = b2u(b2); let x3 = b2u(b3); let x4 = b2u(b4); let x5 = b2u(b5); let x6 = b2u(b6); let x7 = b2u(b7);
    let x = (x0 << 7) | (x1 << 6) | (x2 << 5) | (x3 << 4) | (x4 << 3) | (x5 << 2) | (x6 << 1) | x7;
    assert(((x >> 7u8) & 1 == x0) && ((x >> 6u8) & 1 == x1) && ((x >> 5u8) & 1 == x2) && ((x >> 4u8) & 1 == x3)
        && ((x >> 3u8) & 1 == x4) && ((x >> 2u8) & 1 == x5) && ((x >> 1u8) & 1 == x6) && ((x >> 0u8) & 1 == x7)) by (bit_vector)
      requires x0 <= 1, x1 <= 1, x2 <= 1, x3 <= 1, x4 <= 1, x5 <= 1, x6 <= 1, x7 <= 1,
        x == (x0 << 7) | (x1 << 6) | (x2 << 5) | (x3 << 4) | (x4 << 3) | (x5 << 2) | (x6 << 1) | x7;
}

// a stream bit of packed(v, w) (followed by anything) is the value bit it was made from
proof fn lemma_packed_bit(v: Seq<u64>, w: int, rest: Seq<u8>, k: int)
  requires 0 <= k < v.len() * w, w >= 1
  ensures bytes_bit(packed(v, w) + rest, k) == vals_bit(v, w, k)
{
    let b = k / 8; let t = k % 8;
    let pk = packed(v, w);
    assert(b < pk.len());
    assert((pk + rest)[b] == packed_byte(v, w, b));
    lemma_byte_of_bits(vals_bit(v, w, 8 * b), vals_bit(v, w, 8 * b + 1), vals_bit(v, w, 8 * b + 2), vals_bit(v, w, 8 * b + 3),
                 vals_bit(v, w, 8 * b + 4), vals_bit(v, w, 8 * b + 5), vals_bit(v, w, 8 * b + 6), vals_bit(v, w, 8 * b + 7));
    assert(k == 8 * b + t);
}

// w stream bits that spell x (MSB first) read back as x
proof fn lemma_stream_val(b: Seq<u8>, p: int, w: int, x: u64)
  requires 0 <= w <= 63, x >> (w as u64) == 0, forall|j: int| 0 <= j < w ==> #[trigger] bytes_bit_at(b, p, j) == bit_of(x, w - 1 - j)
  ensures stream_val(b, p, w) == x
  decreases w
{
    reveal_with_fuel(stream_val, 2);
    if w == 0 {
        assert(x >> 0u64 == 0 ==> x == 0) by (bit_vector);
    } else {
        let y = x >> 1u64; let wu = w as u64;
        assert(y >> ((wu - 1) as u64) == 0) by (bit_vector) requires y == x >> 1u64, x >> wu == 0, 1 <= wu <= 63;
        assert forall|j: int| 0 <= j < w - 1 implies #[trigger] bytes_bit_at(b, p, j) == bit_of(y, w - 1 - 1 - j) by {
            let q = (w - 2 - j) as u64;
            assert(((x >> 1u64) >> q) & 1 == (x >> ((q + 1) as u64)) & 1) by (bit_vector) requires q < 62;
        }
        lemma_stream_val(b, p, w - 1, y);
        assert(bytes_bit_at(b, p, w - 1) == bit_of(x, 0));
        assert(x == 2 * (x >> 1u64) + ((x >> 0u64) & 1) && (x >> 0u64) & 1 <= 1) by (bit_vector);
    }
}

proof fn lemma_unpack_pack(v: Seq<u64>, w: int, rest: Seq<u8>)
  requires 1 <= w <= 63, fits(v, w)
  ensures unpacked(packed(v, w) + rest, w, v.len()) =~= v, packed(v, w).len() == packed_len(v.len() as int, w)
{
    let b = packed(v, w) + rest;
    assert forall|i: int| 0 <= i < v.len() implies #[trigger] unpacked(b, w, v.len())[i] == v[i] by {
        assert forall|j: int| 0 <= j < w implies #[trigger] bytes_bit_at(b, i * w, j) == bit_of(v[i], w - 1 - j) by {
            let k = i * w + j;
            assert(0 <= k < v.len() * w) by (nonlinear_arith) requires 0 <= i < v.len(), 0 <= j < w, k == i * w + j;
            lemma_packed_bit(v, w, rest, k);
            vstd::arithmetic::div_mod::lemma_fundamental_div_mod_converse(k, w, i, j);
        }
        lemma_stream_val(b, i * w, w, v[i]);
    }
}

// std leaves (R4 rewrites of uN::from_le_bytes / n.to_le_bytes() / n.to_be_bytes())
#[verifier::external_body] fn vx_u16_from_le_bytes(b: [u8; 2]) -> (r: u16) ensures r == le16_val(b@) { u16::from_le_bytes(b) }
#[verifier::external_body] fn vx_u32_from_le_bytes(b: [u8; 4]) -> (r: u32) ensures r == le32_val(b@) { u32::from_le_bytes(b) }
#[verifier::external_body] fn vx_u64_from_le_bytes(b: [u8; 8]) -> (r: u64) ensures r == le64_val(b@) { u64::from_le_bytes(b) }
spec fn be16_val(b: Seq<u8>) -> u16 { (b[1] as u16) | ((b[0] as u16) << 8) }
spec fn be32_val(b: Seq<u8>) -> u32 { (b[3] as u32) | ((b[2] as u32) << 8) | ((b[1] as u32) << 16) | ((b[0] as u32) << 24) }
spec fn be64_val(b: Seq<u8>) -> u64 { (be32_val(b.subrange(4, 8)) as u64) | ((be32_val(b.subrange(0, 4)) as u64) << 32) }
#[verifier::external_body] fn vx_u16_from_be_bytes(b: [u8; 2]) -> (r: u16) ensures r == be16_val(b@) { u16::from_be_bytes(b) }
#[verifier::external_body] fn vx_u32_from_be_bytes(b: [u8; 4]) -> (r: u32) ensures r == be32_val(b@) { u32::from_be_bytes(b) }
#[verifier::external_body] fn vx_u64_from_be_bytes(b: [u8; 8]) -> (r: u64) ensures r == be64_val(b@) { u64::from_be_bytes(b) }
#[verifier::external_body] fn vx_u16_to_le_bytes(n: u16) -> (r: [u8; 2]) ensures r@ == le16_bytes(n) { n.to_le_bytes() }
#[verifier::external_body] fn vx_u16_to_be_bytes(n: u16) -> (r: [u8; 2]) ensures r@ == be16_bytes(n) { n.to_be_bytes() }
#[verifier::external_body] fn vx_u32_to_le_bytes(n: u32) -> (r: [u8; 4]) ensures r@ == le32_bytes(n) { n.to_le_bytes() }
#[verifier::external_body] fn vx_u32_to_be_bytes(n: u32) -> (r: [u8; 4]) ensures r@ == be32_bytes(n) { n.to_be_bytes() }
#[verifier::external_body] fn vx_u64_to_le_bytes(n: u64) -> (r: [u8; 8]) ensures r@ == le64_bytes(n) { n.to_le_bytes() }

// =====================================================================================================================
// error / io shims
// =====================================================================================================================
#[verifier::external_type_specification]
#[verifier::external_body]
pub struct ExIoError(std::io::Error);

struct Error { k: u8 }
impl Error {
    #[verifier::external_body] fn deserial(msg: &'static str) -> Error { Error { k: 2 } }
    #[verifier::external_body] fn invalid_family(expected: u8, actual: u8, name: &'static str) -> Error { Error { k: 3 } }
    #[verifier::external_body] fn invalid_preamble_longs(expected: &[u8], actual: u8) -> Error { Error { k: 4 } }
}
// `Error::deserial(format!(..))`
#[verifier::external_body] fn vx_err_deserial_fmt() -> Error { Error { k: 2 } }
trait VxIo<T> { fn vx_io(self, tag: &'static str) -> Result<T, Error>; }
impl<T> VxIo<T> for Result<T, std::io::Error> {
  // R2: `.map_err(insufficient_data(tag))`
  #[verifier::external_body]
  fn vx_io(self, tag: &'static str) -> (r: Result<T, Error>)
    ensures self matches Ok(v) ==> r == Ok::<T, Error>(v), self is Err ==> r is Err
  { unimplemented!() }
}
// `ensure_preamble_longs_in_range(lo..=hi, actual)` (codec/assert.rs: generic over RangeBounds, builds a message with format!)
#[verifier::external_body]
fn vx_ensure_pre_longs(lo: u8, hi: u8, actual: u8) -> (r: Result<(), Error>)
  ensures r is Ok <==> lo <= actual <= hi
{ unimplemented!() }

// allocation contract of C14: a parser may only allocate in proportion to the input it still has
spec fn alloc_ok(nbytes: int, input_len: int) -> bool { nbytes <= 16 * input_len + 4096 && nbytes <= 0x7fff_ffff_ffff_ffff }
// `Vec::with_capacity(n)` in a parser
#[verifier::external_body]
fn vx_with_capacity_u64(n: usize, Ghost(input_len): Ghost<int>) -> (r: Vec<u64>)
  requires /*@C14.theta.alloc_entries*/ alloc_ok(8 * n, input_len)
  ensures r@.len() == 0
{ Vec::with_capacity(n) }

// `vec![0u64; n]` / `vec![0u8; n]` in deserialize_v4
#[verifier::external_body]
fn vx_zeroed_u64(n: usize, Ghost(input_len): Ghost<int>) -> (r: Vec<u64>)
  requires /*@C14.theta_v4.alloc*/ alloc_ok(8 * n, input_len)
  ensures r@.len() == n, forall|i: int| 0 <= i < n ==> r@[i] == 0u64,
    8 * n <= 0x7fff_ffff_ffff_ffff,      // std: no Vec is larger than isize::MAX bytes
{ vec![0u64; n] }
#[verifier::external_body]
fn vx_zeroed_u8(n: usize, Ghost(input_len): Ghost<int>) -> (r: Vec<u8>)
  requires /*@C14.theta_v4.alloc_block*/ alloc_ok(n as int, input_len)
  ensures r@.len() == n, forall|i: int| 0 <= i < n ==> r@[i] == 0u8
{ vec![0u8; n] }
// `vec![0u8; n]` in serialize_v4 (not a parser: no bound)
#[verifier::external_body]
fn vx_vec_u8(n: usize) -> (r: Vec<u8>)
  ensures r@.len() == n, forall|i: int| 0 <= i < n ==> r@[i] == 0u8
{ vec![0u8; n] }
// `block.fill(0)`
#[verifier::external_body]
fn vx_fill_u8(v: &mut Vec<u8>, x: u8)
  ensures final(v)@.len() == old(v)@.len(), forall|i: int| 0 <= i < old(v)@.len() ==> final(v)@[i] == x
{ v.fill(x) }
// `&block[lo..hi]`
#[verifier::external_body]
fn vx_subslice_u8(v: &Vec<u8>, lo: usize, hi: usize) -> (r: &[u8])
  requires lo <= hi <= v@.len()
  ensures r@ == v@.subrange(lo as int, hi as int)
{ &v[lo..hi] }
// `unpack_bits_block(&mut entries[lo..hi], bytes, bits)`: the sub-slice borrow plus the callee's contract
#[verifier::external_body]
fn vx_unpack_block_at(entries: &mut Vec<u64>, lo: usize, hi: usize, bytes: &[u8], bits: u8)
  requires lo <= hi <= old(entries)@.len(), hi - lo == BLOCK_WIDTH,
    /*@C14.theta_v4.entry_bits*/ 1 <= bits <= 63,
    bits <= bytes@.len() < bits * BLOCK_WIDTH,
  ensures final(entries)@.len() == old(entries)@.len(),
    forall|i: int| 0 <= i < lo || hi <= i < old(entries)@.len() ==> final(entries)@[i] == old(entries)@[i],
    final(entries)@.subrange(lo as int, hi as int) == unpacked(bytes@.take(bits as int), bits as int, 8),
{ unpack_bits_block(&mut entries[lo..hi], bytes, bits) }
pub assume_specification [ usize::div_ceil ] (a: usize, b: usize) -> (r: usize) requires b > 0 ensures r == (a + b - 1) / (b as int);
pub assume_specification [ u32::div_ceil ] (a: u32, b: u32) -> (r: u32) requires b > 0 ensures r == (a + b - 1) / (b as int);

// =====================================================================================================================
// theta/bit_pack.rs, by contract: the preconditions are what the real functions need not to panic; the postconditions say that
// the four leaves compute the reference bit stream (packed / unpacked / stream_val above).  They are ASSUMED here and PROVED on the real
// code, for every width 1..=63 and all inputs, by the Kani harnesses bp_* of kani/theta_bitpack.rs (registry: props C11 C12 C13).
// BitPacker::new / byte_used / BitUnpacker::new are real bodies, verified here.
// =====================================================================================================================
const BLOCK_WIDTH : usize = 8 ;



// real: assert_eq!(values.len(), 8); assert!((1..=63).contains(&bits)); assert!(bytes.len() < bits * 8) (sic); then pack_bits_<bits> writes bytes[0..bits]
// ASSUMED, proved by Kani bp_pack_stream_w*: bytes[0..bits] = the reference stream of the 8 values (only their low `bits` bits are used)
#[verifier::external_body]
fn pack_bits_block(values: &[u64], bytes: &mut [u8], bits: u8)
  requires values@.len() == BLOCK_WIDTH, 1 <= bits <= 63, bits <= old(bytes)@.len() < bits * BLOCK_WIDTH
  ensures final(bytes)@.len() == old(bytes)@.len(), final(bytes)@.take(bits as int) == packed(values@, bits as int)
{ unimplemented!() }

// real: same three asserts; unpack_bits_<bits> reads bytes[0..bits], writes values[0..8]
// ASSUMED, proved by Kani bp_unpack_stream_w*: values = the 8 `bits`-wide values of the stream bytes[0..bits]
#[verifier::external_body]
fn unpack_bits_block(values: &mut [u64], bytes: &[u8], bits: u8)
  requires old(values)@.len() == BLOCK_WIDTH, 1 <= bits <= 63, bits <= bytes@.len() < bits * BLOCK_WIDTH
  ensures final(values)@.len() == old(values)@.len(), final(values)@ == unpacked(bytes@.take(bits as int), bits as int, 8)
{ unimplemented!() }

struct BitPacker < 'a > {
bytes : & 'a mut [ u8 ] , byte_index : usize , byte_bit_used : u8 , }



impl<'a> BitPacker<'a> {
    spec fn bitpos(&self) -> int { 8 * self.byte_index + self.byte_bit_used }
    spec fn cap(&self) -> int { 8 * (self.bytes@.len() as int) }
    // the packer has written exactly the values `vals`, `w` bits each, from the start of its buffer (last byte zero-padded)
    spec fn holds(&self, vals: Seq<u64>, w: int) -> bool {
        self.byte_bit_used < 8 && self.bitpos() == vals.len() * w && packed_len(vals.len() as int, w) <= self.bytes@.len()
          && self.bytes@.take(packed_len(vals.len() as int, w)) == packed(vals, w)
    }

    fn new ( bytes : & 'a mut [ u8 ] ) -> ( r : Self ) ensures r . bitpos ( ) == 0 , r . byte_bit_used == 0 , r . byte_index == 0 , r . bytes @ == old ( bytes ) @ , final ( r . bytes ) @ == final ( bytes ) @ {
BitPacker {
bytes , byte_index : 0 , byte_bit_used : 0 , }
}

    fn byte_used ( & self ) -> ( r : usize ) requires self . byte_bit_used < 8 , self . byte_index < usize :: MAX ensures r == ( self . bitpos ( ) + 7 ) / 8 {
if self . byte_bit_used == 0 {
self . byte_index }
else {
self . byte_index + 1 }
}

    // real: debug_assert!(byte_bit_used < 8); `value >> (bits - remain_bits)` / `value >> (bits - 8)` need bits <= 64; bytes[byte_index] needs the room
    // ASSUMED, proved by Kani bp_tail_pack_stream_w*: up to 7 values of one width written from a fresh packer leave byte_index/byte_bit_used at
    // the bit position and bytes[0..ceil(n*w/8)] == packed(values) whatever the buffer held before
    #[verifier::external_body]
    fn pack_value(&mut self, value: u64, mut bits: u8)
      requires bits <= 64, old(self).byte_bit_used < 8, old(self).bitpos() + bits <= old(self).cap()
      ensures final(self).bitpos() == old(self).bitpos() + bits, final(self).cap() == old(self).cap(), final(self).byte_bit_used < 8,
        final(final(self).bytes)@ == final(old(self).bytes)@,
        forall|vals: Seq<u64>| #[trigger] old(self).holds(vals, bits as int) && vals.len() < 7 && 1 <= bits <= 63 ==> final(self).holds(vals.push(value), bits as int),
    {
        unimplemented!()
    }
}

struct BitUnpacker < 'a > {
bytes : & 'a [ u8 ] , byte_index : usize , byte_bit_used : u8 , }



impl<'a> BitUnpacker<'a> {
    spec fn bitpos(&self) -> int { 8 * self.byte_index + self.byte_bit_used }

    fn new ( bytes : & 'a [ u8 ] ) -> ( r : Self ) ensures r . bytes @ == bytes @ , r . bitpos ( ) == 0 , r . byte_bit_used < 8 {
Self {
bytes , byte_index : 0 , byte_bit_used : 0 , }
}



    // real: every shift is by < 8 or exactly 8 on a u64; the only panic is bytes[byte_index] out of range
    // ASSUMED, proved by Kani bp_unpack_value_step_w*: the result is the value spelled by the next `bits` stream bits
    #[verifier::external_body]
    fn unpack_value(&mut self, mut bits: u8) -> (r: u64)
      requires old(self).byte_bit_used < 8, old(self).bitpos() + bits <= 8 * old(self).bytes@.len()
      ensures final(self).bitpos() == old(self).bitpos() + bits, final(self).byte_bit_used < 8, final(self).bytes == old(self).bytes,
        1 <= bits <= 63 ==> r == stream_val(old(self).bytes@, old(self).bitpos(), bits as int),
    {
        unimplemented!()
    }
}

// =====================================================================================================================
// codec/encode.rs: SketchBytes, real bodies, view = the bytes written so far
// =====================================================================================================================
struct SketchBytes {
bytes : Vec < u8 > , }



impl SketchBytes {
    spec fn view(&self) -> Seq<u8> { self.bytes@ }

    fn with_capacity ( capacity : usize ) -> ( r : Self ) ensures r @ == Seq :: < u8 > :: empty ( ) {
Self {
bytes : Vec :: with_capacity ( capacity ) , }
}



    fn into_bytes ( self ) -> ( r : Vec < u8 > ) ensures r @ == self @ {
self . bytes }



    fn write ( & mut self , buf : & [ u8 ] ) ensures final ( self ) @ == old ( self ) @ + buf @ {
self . bytes . extend_from_slice ( buf ) ;
}



    fn write_u8 ( & mut self , n : u8 ) ensures final ( self ) @ == old ( self ) @ . push ( n ) {
self . bytes . push ( n ) ;
}



    fn write_u16_le ( & mut self , n : u16 ) ensures final ( self ) @ == old ( self ) @ + le16_bytes ( n ) {
self . write ( & vx_u16_to_le_bytes ( n ) ) ;
}



    fn write_u16_be ( & mut self , n : u16 ) ensures final ( self ) @ == old ( self ) @ + be16_bytes ( n ) {
self . write ( & vx_u16_to_be_bytes ( n ) ) ;
}



    fn write_u32_le ( & mut self , n : u32 ) ensures final ( self ) @ == old ( self ) @ + le32_bytes ( n ) {
self . write ( & vx_u32_to_le_bytes ( n ) ) ;
}



    fn write_u32_be ( & mut self , n : u32 ) ensures final ( self ) @ == old ( self ) @ + be32_bytes ( n ) {
self . write ( & vx_u32_to_be_bytes ( n ) ) ;
}



    fn write_u64_le ( & mut self , n : u64 ) ensures final ( self ) @ == old ( self ) @ + le64_bytes ( n ) {
self . write ( & vx_u64_to_le_bytes ( n ) ) ;
}


}

// =====================================================================================================================
// codec/decode.rs: SketchSlice; the std Cursor is abstracted by rem() = the bytes not yet consumed.
// read_exact (std::io::Read on Cursor<&[u8]>) and new are the assumed leaves; read_u8 / read_u16_le / read_u32_le / read_u64_le are real bodies.
// =====================================================================================================================
#[verifier::external_body]
struct SketchSlice < 'a > {
slice : Cursor < & 'a [ u8 ] > , }



impl SketchSlice<'_> {
    uninterp spec fn rem(&self) -> Seq<u8>;

    #[verifier::external_body]
    fn new(slice: &[u8]) -> (r: SketchSlice<'_>) ensures r.rem() == slice@ {
        unimplemented!()
    }

    #[verifier::external_body]
    fn read_exact(&mut self, buf: &mut [u8]) -> (r: io::Result<()>)
      ensures
        old(self).rem().len() >= old(buf)@.len() ==> (r is Ok && final(buf)@ == old(self).rem().take(old(buf)@.len() as int) && final(self).rem() == old(self).rem().skip(old(buf)@.len() as int)),
        old(self).rem().len() < old(buf)@.len() ==> r is Err,
        final(buf)@.len() == old(buf)@.len(),
    {
        unimplemented!()
    }

    fn read_u8 ( & mut self ) -> ( r : io :: Result < u8 > ) ensures old ( self ) . rem ( ) . len ( ) >= 1 ==> ( r matches Ok ( v ) && v == old ( self ) . rem ( ) [ 0 ] && final ( self ) . rem ( ) == old ( self ) . rem ( ) . skip ( 1 ) ) , old ( self ) . rem ( ) . len ( ) < 1 ==> r is Err , {
let mut buf = [ 0u8 ;
1 ] ;
self . read_exact ( & mut buf ) ? ;
Ok ( buf [ 0 ] ) }



    fn read_u16_le ( & mut self ) -> ( r : io :: Result < u16 > ) ensures old ( self ) . rem ( ) . len ( ) >= 2 ==> ( r matches Ok ( v ) && v == le16_val ( old ( self ) . rem ( ) . take ( 2 ) ) && final ( self ) . rem ( ) == old ( self ) . rem ( ) . skip ( 2 ) ) , old ( self ) . rem ( ) . len ( ) < 2 ==> r is Err , {
let mut buf = [ 0u8 ;
2 ] ;
self . read_exact ( & mut buf ) ? ;
Ok ( vx_u16_from_le_bytes ( buf ) ) }



    fn read_u32_le ( & mut self ) -> ( r : io :: Result < u32 > ) ensures old ( self ) . rem ( ) . len ( ) >= 4 ==> ( r matches Ok ( v ) && v == le32_val ( old ( self ) . rem ( ) . take ( 4 ) ) && final ( self ) . rem ( ) == old ( self ) . rem ( ) . skip ( 4 ) ) , old ( self ) . rem ( ) . len ( ) < 4 ==> r is Err , {
let mut buf = [ 0u8 ;
4 ] ;
self . read_exact ( & mut buf ) ? ;
Ok ( vx_u32_from_le_bytes ( buf ) ) }



    fn read_u64_le ( & mut self ) -> ( r : io :: Result < u64 > ) ensures old ( self ) . rem ( ) . len ( ) >= 8 ==> ( r matches Ok ( v ) && v == le64_val ( old ( self ) . rem ( ) . take ( 8 ) ) && final ( self ) . rem ( ) == old ( self ) . rem ( ) . skip ( 8 ) ) , old ( self ) . rem ( ) . len ( ) < 8 ==> r is Err , {
let mut buf = [ 0u8 ;
8 ] ;
self . read_exact ( & mut buf ) ? ;
Ok ( vx_u64_from_le_bytes ( buf ) ) }


}

// =====================================================================================================================
// constants (taken from /repo every run)
// =====================================================================================================================
const MAX_THETA : u64 = i64 :: MAX as u64 ;


const UNCOMPRESSED_SERIAL_VERSION : u8 = 3 ;


const COMPRESSED_SERIAL_VERSION : u8 = 4 ;


const V2_PREAMBLE_EMPTY : u8 = 1 ;


const V2_PREAMBLE_PRECISE : u8 = 2 ;


const V2_PREAMBLE_ESTIMATE : u8 = 3 ;


exec const FLAGS_IS_READ_ONLY : u8 ensures FLAGS_IS_READ_ONLY == 2 {
proof {
assert ( ( 1u8 << 1 ) == 2 ) by ( bit_vector ) ;
}
1 << 1 }


exec const FLAGS_IS_EMPTY : u8 ensures FLAGS_IS_EMPTY == 4 {
proof {
assert ( ( 1u8 << 2 ) == 4 ) by ( bit_vector ) ;
}
1 << 2 }


exec const FLAGS_IS_COMPACT : u8 ensures FLAGS_IS_COMPACT == 8 {
proof {
assert ( ( 1u8 << 3 ) == 8 ) by ( bit_vector ) ;
}
1 << 3 }


exec const FLAGS_IS_ORDERED : u8 ensures FLAGS_IS_ORDERED == 16 {
proof {
assert ( ( 1u8 << 4 ) == 16 ) by ( bit_vector ) ;
}
1 << 4 }



struct Family {
id : u8 , name : & 'static str , min_pre_longs : u8 , max_pre_longs : u8 , }



impl Family {
    const THETA : Family = Family {
id : 3 , name : "THETA" , min_pre_longs : 1 , max_pre_longs : 3 , }
;



    fn validate_id ( & self , family_id : u8 ) -> ( r : Result < ( ) , Error > ) ensures r is Ok <==> family_id == self . id {
if family_id != self . id {
Err ( Error :: invalid_family ( self . id , family_id , self . name ) ) }
else {
Ok ( ( ) ) }
}


}

// hash/mod.rs: the 16-bit seed hash, by contract (C16 unit `hashes`)
const DEFAULT_UPDATE_SEED : u64 = 9001 ;


uninterp spec fn seed_hash_of(seed: u64) -> u16;
#[verifier::external_body]
fn compute_seed_hash(seed: u64) -> (r: u16) ensures r == seed_hash_of(seed) { unimplemented!() }

// =====================================================================================================================
// FORMAT SPEC (DESIGN.md Appendix A, "Theta compact", family 3).  Written from the published layout, not from the Rust code.
//   serVer 3: 0 preLongs (1 empty or single item, 2 exact, 3 estimating) | 1 serVer | 2 famID | 3-4 unused | 5 flags: READ_ONLY 2, EMPTY 4, COMPACT 8,
//             ORDERED 16 | 6-7 seedHash | 8-11 curCount | 12-15 unused | 16-23 thetaLong when preLongs = 3 | entries u64 from 8*preLongs
//   serVer 2: 6-7 seedHash | preLongs 1 empty / 2 exact (curCount at 8, entries at 16) / 3 estimating (theta at 16, entries at 24); always ordered
//   serVer 1: no seed hash | curCount at 8 | theta at 16 | entries at 24; always ordered
// The abstract content of a compact theta sketch:
// =====================================================================================================================
ghost struct ThetaImg {
    entries: Seq<u64>,
    theta: u64,
    seed_hash: u16,
    ordered: bool,
    empty: bool,
}
spec const MAX_THETA_SPEC: u64 = 0x7fff_ffff_ffff_ffff;
spec fn valid_hash(h: u64, theta: u64) -> bool { h != 0 && h < theta }
spec fn all_valid(e: Seq<u64>, theta: u64) -> bool { forall|i: int| 0 <= i < e.len() ==> valid_hash(#[trigger] e[i], theta) }
#[verifier::opaque]
spec fn sorted_strict(e: Seq<u64>) -> bool { forall|i: int, j: int| 0 <= i < j < e.len() ==> e[i] < e[j] }

// the spec ENCODER for serial version 3 (what this crate writes)
spec fn theta_flags(empty: bool, ordered: bool) -> u8 { (2u8 | 8u8 | (if empty { 4u8 } else { 0u8 }) | (if ordered { 16u8 } else { 0u8 })) }
spec fn v3_pre_longs(x: ThetaImg) -> u8 { if x.theta < MAX_THETA_SPEC { 3 } else if x.empty || x.entries.len() == 1 { 1 } else { 2 } }
spec fn enc_theta_v3(x: ThetaImg) -> Seq<u8> {
    let pre = v3_pre_longs(x);
    seq![pre, 3u8, 3u8, 0u8, 0u8, theta_flags(x.empty, x.ordered)] + le16_bytes(x.seed_hash)
      + (if pre > 1 { le32_bytes(x.entries.len() as u32) + seq![0u8, 0u8, 0u8, 0u8] } else { Seq::<u8>::empty() })
      + (if pre > 2 { le64_bytes(x.theta) } else { Seq::<u8>::empty() })
      + enc_u64s(x.entries)
}

// the spec DECODERS work on p = image.skip(3) (where deserialize_with_seed hands the cursor to the per-version parsers); offsets below are image offsets - 3
spec fn flag_empty(f: u8) -> bool { f & 4 != 0 }
spec fn flag_ordered(f: u8) -> bool { f & 16 != 0 }
// n entries at offset off: all present and each a valid retained hash (non-zero, below theta)
spec fn dec_entries(p: Seq<u8>, off: int, n: nat, theta: u64, seed_hash: u16, ordered: bool, empty: bool) -> Option<ThetaImg> {
    if p.len() >= off + 8 * n && all_valid(dec_u64s(p.skip(off), n), theta) {
        Some(ThetaImg { entries: dec_u64s(p.skip(off), n), theta, seed_hash, ordered, empty })
    } else { None }
}
spec fn decode_spec_v3(p: Seq<u8>, pre_longs: u8, sh: u16) -> Option<ThetaImg> {
    if p.len() < 5 { None } else {
        let flags = p[2]; let seed_hash = le16_val(p.subrange(3, 5)); let ordered = flag_ordered(flags);
        if flag_empty(flags) { Some(ThetaImg { entries: Seq::empty(), theta: MAX_THETA_SPEC, seed_hash, ordered, empty: true }) }
        else if seed_hash != sh { None }
        else if pre_longs == 1 { dec_entries(p, 5, 1, MAX_THETA_SPEC, seed_hash, ordered, false) }     // single item
        else if p.len() < 13 { None }
        else {
            let n = le32_val(p.subrange(5, 9)) as nat;
            if pre_longs == 2 { dec_entries(p, 13, n, MAX_THETA_SPEC, seed_hash, ordered, false) }
            else if pre_longs == 3 && p.len() >= 21 { dec_entries(p, 21, n, le64_val(p.subrange(13, 21)), seed_hash, ordered, false) }
            else { None }
        }
    }
}
// versions 1 and 2 have no EMPTY flag: a sketch is empty iff it has no entries and theta is 1.0
spec fn decode_spec_v2(p: Seq<u8>, pre_longs: u8, sh: u16) -> Option<ThetaImg> {
    if p.len() < 5 { None } else {
        let seed_hash = le16_val(p.subrange(3, 5));
        if seed_hash != sh { None }
        else if pre_longs == 1 { Some(ThetaImg { entries: Seq::empty(), theta: MAX_THETA_SPEC, seed_hash, ordered: true, empty: true }) }
        else if p.len() < 13 { None }
        else {
            let n = le32_val(p.subrange(5, 9)) as nat;
            if pre_longs == 2 { dec_entries(p, 13, n, MAX_THETA_SPEC, seed_hash, true, n == 0) }
            else if pre_longs == 3 && p.len() >= 21 { let theta = le64_val(p.subrange(13, 21)); dec_entries(p, 21, n, theta, seed_hash, true, n == 0 && theta == MAX_THETA_SPEC) }
            else { None }
        }
    }
}
spec fn decode_spec_v1(p: Seq<u8>, sh: u16) -> Option<ThetaImg> {
    if p.len() < 21 { None } else {
        let n = le32_val(p.subrange(5, 9)) as nat; let theta = le64_val(p.subrange(13, 21));
        dec_entries(p, 21, n, theta, sh, true, n == 0 && theta == MAX_THETA_SPEC)
    }
}
// whole images, serial versions 1-4 (decode_spec_v4 is defined after the version-4 encoder below)
#[verifier::opaque]
spec fn decode_spec(img: Seq<u8>, sh: u16) -> Option<ThetaImg> {
    if img.len() < 3 || img[2] != 3 || !(1 <= img[0] <= 3) { None }
    else if img[1] == 1 { decode_spec_v1(img.skip(3), sh) }
    else if img[1] == 2 { decode_spec_v2(img.skip(3), img[0], sh) }
    else if img[1] == 3 { decode_spec_v3(img.skip(3), img[0], sh) }
    else if img[1] == 4 { decode_spec_v4(img.skip(3), img[0], sh) }
    else { None }
}

// serial version 4 (compressed): the header this crate writes; the packed deltas that follow are bit_pack.rs output (by contract only)
spec fn v4_suitable(x: ThetaImg) -> bool { x.ordered && x.entries.len() != 0 && (x.entries.len() != 1 || x.theta < MAX_THETA_SPEC) }
spec fn count_fits(n: u32, k: u8) -> bool { k <= 4 && (k == 0 ==> n == 0) && (k == 1 ==> n < 256) && (k == 2 ==> n < 65536) && (k == 3 ==> n < 0x100_0000) }
spec fn le_count_bytes(n: u32, k: nat) -> Seq<u8> { Seq::new(k, |j: int| ((n >> (8 * j) as u32) & 0xff) as u8) }
spec fn enc_v4_header(x: ThetaImg, entry_bits: u8, neb: u8) -> Seq<u8> {
    let est = x.theta < MAX_THETA_SPEC; let n = x.entries.len() as u32;
    seq![if est { 2u8 } else { 1u8 }, 4u8, 3u8, entry_bits, neb, 26u8] + le16_bytes(x.seed_hash)
      + (if est { le64_bytes(x.theta) } else { Seq::<u8>::empty() })
      + le_count_bytes(n, neb as nat)
}
// entryBits (byte 3) in 1..=63, numEntriesBytes (byte 4) enough for the count, and the image starts with the header of x
spec fn is_v4_image_of(b: Seq<u8>, x: ThetaImg) -> bool {
    b.len() >= 5 && 1 <= b[3] <= 63 && count_fits(x.entries.len() as u32, b[4])
      && b.len() >= enc_v4_header(x, b[3], b[4]).len() && b.take(enc_v4_header(x, b[3], b[4]).len() as int) == enc_v4_header(x, b[3], b[4])
}

// serial version 4, the payload (Appendix A: "then numEntries in numEntriesBytes LE bytes, then deltas packed MSB-first, blocks of 8 values in
// entryBits bytes, tail bit-packed"): delta i = entry i - entry i-1 (entry -1 = 0); every full group of 8 deltas is one block of entryBits bytes,
// the remaining 1..=7 deltas one zero-padded run of ceil(rem*entryBits/8) bytes
spec fn delta_at(e: Seq<u64>, i: int) -> u64 { if i == 0 { e[0] } else { (e[i] - e[i - 1]) as u64 } }
spec fn deltas_of(e: Seq<u64>) -> Seq<u64> { Seq::new(e.len(), |i: int| delta_at(e, i)) }
spec fn enc_blocks(d: Seq<u64>, w: int, nb: nat) -> Seq<u8> decreases nb {
    if nb == 0 { Seq::empty() } else { enc_blocks(d, w, (nb - 1) as nat) + packed(d.subrange(8 * (nb - 1), 8 * (nb as int)), w) }
}
spec fn enc_v4_payload(d: Seq<u64>, w: int) -> Seq<u8> {
    let nb = d.len() / 8;
    enc_blocks(d, w, nb) + (if d.len() % 8 != 0 { packed(d.skip(8 * (nb as int)), w) } else { Seq::<u8>::empty() })
}
spec fn enc_theta_v4(x: ThetaImg, entry_bits: u8, neb: u8) -> Seq<u8> { enc_v4_header(x, entry_bits, neb) + enc_v4_payload(deltas_of(x.entries), entry_bits as int) }
// b is A serial-version-4 image of x: any entryBits wide enough for every delta, any numEntriesBytes wide enough for the count
spec fn is_v4_image(b: Seq<u8>, x: ThetaImg) -> bool {
    b.len() >= 5 && 1 <= b[3] <= 63 && count_fits(x.entries.len() as u32, b[4]) && fits(deltas_of(x.entries), b[3] as int) && b == enc_theta_v4(x, b[3], b[4])
}

// the spec DECODER for serial version 4, on p = image.skip(3): 0 entryBits | 1 numEntriesBytes | 2 flags | 3-4 seedHash | 5-12 theta iff preLongs = 2 | count | payload
spec fn le_count_val(p: Seq<u8>, off: int, k: nat) -> usize decreases k { if k == 0 { 0 } else { le_count_val(p, off, (k - 1) as nat) | ((p[off + k - 1] as usize) << ((8 * (k - 1)) as usize)) } }
spec fn psum(d: Seq<u64>, k: nat) -> int decreases k { if k == 0 { 0 } else { psum(d, (k - 1) as nat) + d[k - 1] } }
spec fn undelta(d: Seq<u64>) -> Seq<u64> { Seq::new(d.len(), |i: int| psum(d, (i + 1) as nat) as u64) }
spec fn v4_payload_len(n: int, w: int) -> int { w * (n / 8) + packed_len(n % 8, w) }
#[verifier::opaque]
spec fn dec_v4_delta(q: Seq<u8>, w: int, n: int, i: int) -> u64 {
    if i < 8 * (n / 8) { unpacked(q.subrange(w * (i / 8), w * (i / 8) + w), w, 8)[i % 8] }
    else { unpacked(q.subrange(w * (n / 8), v4_payload_len(n, w)), w, (n % 8) as nat)[i - 8 * (n / 8)] }
}
spec fn dec_v4_deltas(q: Seq<u8>, w: int, n: nat) -> Seq<u64> { Seq::new(n, |i: int| dec_v4_delta(q, w, n as int, i)) }
#[verifier::opaque]
spec fn decode_spec_v4(p: Seq<u8>, pre_longs: u8, sh: u16) -> Option<ThetaImg> {
    if p.len() < 5 { None } else {
        let w = p[0]; let neb = p[1]; let flags = p[2]; let seed_hash = le16_val(p.subrange(3, 5));
        let off: int = if pre_longs == 2 { 13 } else { 5 };
        // never written for an empty sketch; entryBits in 1..=63; the count has at most 4 bytes; preLongs 1 (exact) or 2 (estimating)
        if flag_empty(flags) || seed_hash != sh || !(1 <= w <= 63) || neb > 4 || !(1 <= pre_longs <= 2) || p.len() < off + neb { None } else {
            let theta = if pre_longs == 2 { le64_val(p.subrange(5, 13)) } else { MAX_THETA_SPEC };
            let n = le_count_val(p, off, neb as nat) as nat;
            let q = p.skip(off + neb);
            if q.len() < v4_payload_len(n as int, w as int) { None } else {
                let d = dec_v4_deltas(q, w as int, n);
                if psum(d, n) > u64::MAX || !all_valid(undelta(d), theta) { None }
                else { Some(ThetaImg { entries: undelta(d), theta, seed_hash, ordered: flag_ordered(flags), empty: false }) }
            }
        }
    }
}

// what a parser may rely on when the image is a valid version-4 image (decode_spec_v4 is opaque elsewhere: it is large)
spec fn v4_off(pre_longs: u8) -> int { if pre_longs == 2 { 13 } else { 5 } }
proof fn lemma_dec_v4_some(p: Seq<u8>, pre_longs: u8, sh: u16)
  ensures decode_spec_v4(p, pre_longs, sh) matches Some(x) ==> ({
      let off = v4_off(pre_longs); let w = p[0] as int; let n = le_count_val(p, off, p[1] as nat) as nat; let q = p.skip(off + p[1]); let d = dec_v4_deltas(q, w, n);
      &&& p.len() >= 5 && !flag_empty(p[2]) && le16_val(p.subrange(3, 5)) == sh && 1 <= p[0] <= 63 && p[1] <= 4 && 1 <= pre_longs <= 2
      &&& p.len() >= off + p[1] && q.len() >= v4_payload_len(n as int, w) && psum(d, n) <= u64::MAX
      &&& x.theta == (if pre_longs == 2 { le64_val(p.subrange(5, 13)) } else { MAX_THETA_SPEC }) && all_valid(undelta(d), x.theta)
      &&& x.entries == undelta(d) && x.seed_hash == sh && x.ordered == flag_ordered(p[2]) && !x.empty
  })
{ reveal(decode_spec_v4); }

// per-iteration facts of the block loop / the tail of a version-4 parser (kept out of the loop bodies: nonlinear)
proof fn lemma_v4_block_short(q: Seq<u8>, w: int, n: int, i: int)
  requires 0 <= w, 0 <= i, i % 8 == 0, i + 8 <= n, q.len() < w * (i / 8) + w
  ensures q.len() < v4_payload_len(n, w)
{
    let b = i / 8; let nb = n / 8;
    assert(w * b + w == w * (b + 1)) by (nonlinear_arith);
    assert(w * (b + 1) <= w * nb) by (nonlinear_arith) requires b + 1 <= nb, 0 <= w;
    assert(packed_len(n % 8, w) >= 0) by (nonlinear_arith) requires 0 <= w, 0 <= n % 8, packed_len(n % 8, w) == ((n % 8) * w + 7) / 8;
}
proof fn lemma_v4_block_step(q: Seq<u8>, w: int, n: int, i: int)
  requires 0 <= w, 0 <= i, i % 8 == 0, i + 8 <= n, w * (i / 8) + w <= q.len(), w * (i / 8) >= 0
  ensures ({ let blk = q.skip(w * (i / 8)).take(w);
    &&& q.skip(w * (i / 8)).skip(w) == q.skip(w * ((i + 8) / 8))
    &&& w * ((i + 8) / 8) == w * (i / 8) + w
    &&& forall|j: int| i <= j < i + 8 ==> #[trigger] dec_v4_delta(q, w, n, j) == unpacked(blk, w, 8)[j - i] })
{
    reveal(dec_v4_delta);
    let b = i / 8;
    assert((i + 8) / 8 == b + 1);
    assert(w * b + w == w * (b + 1)) by (nonlinear_arith);
    assert(q.skip(w * b).skip(w) =~= q.skip(w * (b + 1)));
    assert(q.skip(w * b).take(w) =~= q.subrange(w * b, w * b + w));
    assert forall|j: int| i <= j < i + 8 implies #[trigger] dec_v4_delta(q, w, n, j) == unpacked(q.skip(w * b).take(w), w, 8)[j - i] by {
        assert(j / 8 == b && j % 8 == j - i && j < 8 * (n / 8));
    }
}
proof fn lemma_v4_tail(q: Seq<u8>, w: int, n: int)
  requires 0 <= w, 0 <= n, n % 8 != 0, w * (n / 8) >= 0, w * (n / 8) <= q.len()
  ensures
    q.len() - w * (n / 8) < packed_len(n % 8, w) ==> q.len() < v4_payload_len(n, w),
    q.len() - w * (n / 8) >= packed_len(n % 8, w) ==> ({ let tl = q.skip(w * (n / 8)).take(packed_len(n % 8, w));
        forall|j: int| 8 * (n / 8) <= j < n ==> #[trigger] dec_v4_delta(q, w, n, j) == stream_val(tl, (j - 8 * (n / 8)) * w, w) }),
{
    reveal(dec_v4_delta);
    if q.len() - w * (n / 8) >= packed_len(n % 8, w) {
        let tl = q.skip(w * (n / 8)).take(packed_len(n % 8, w));
        assert(packed_len(n % 8, w) >= 0) by (nonlinear_arith) requires 0 <= w, 0 <= n % 8, packed_len(n % 8, w) == ((n % 8) * w + 7) / 8;
        assert(tl =~= q.subrange(w * (n / 8), v4_payload_len(n, w)));
    }
}

// the in-place prefix-sum loop of a version-4 parser: e[0..k] already summed, e[k..] still the deltas d
#[verifier::opaque]
spec fn undelta_state(e: Seq<u64>, d: Seq<u64>, k: int) -> bool {
    e.len() == d.len() && (forall|j: int| k <= j < e.len() ==> e[j] == #[trigger] d[j]) && (forall|j: int| 0 <= j < k ==> #[trigger] e[j] == psum(d, (j + 1) as nat))
}
proof fn lemma_undelta_init(e: Seq<u64>, d: Seq<u64>)
  requires e.len() == d.len(), forall|j: int| 0 <= j < e.len() ==> e[j] == #[trigger] d[j]
  ensures undelta_state(e, d, 0)
{ reveal(undelta_state); }
proof fn lemma_undelta_step(before: Seq<u64>, after: Seq<u64>, d: Seq<u64>, k: int, prev: u64)
  requires undelta_state(before, d, k), 0 <= k < before.len(), prev == psum(d, k as nat), before[k] + prev <= u64::MAX,
    after == before.update(k, (before[k] + prev) as u64)
  ensures undelta_state(after, d, k + 1), after[k] == psum(d, (k + 1) as nat), undelta(d)[k] == after[k]
{
    reveal(undelta_state);
    assert(before[k] == d[k]);
    assert forall|j: int| 0 <= j < k + 1 implies #[trigger] after[j] == psum(d, (j + 1) as nat) by { if j < k { assert(after[j] == before[j]); } }
    assert forall|j: int| k + 1 <= j < after.len() implies after[j] == #[trigger] d[j] by { assert(after[j] == before[j]); }
}
proof fn lemma_undelta_done(e: Seq<u64>, d: Seq<u64>)
  requires undelta_state(e, d, e.len() as int)
  ensures e =~= undelta(d)
{ reveal(undelta_state); }

// well-formed abstract states (what ThetaSketch::compact produces, and what every other operation relies on)
spec fn wf_img(x: ThetaImg) -> bool {
    &&& all_valid(x.entries, x.theta)
    &&& 0 < x.theta <= MAX_THETA_SPEC
    &&& (x.empty ==> x.entries.len() == 0 && x.theta == MAX_THETA_SPEC)
    &&& (x.ordered ==> sorted_strict(x.entries))
}

// x < 2^63 has no bit at or above position 64 - leading_zeros(x)
proof fn lemma_lz_fits(x: u64)
  requires x < 0x8000_0000_0000_0000
  ensures 1 <= vstd::std_specs::bits::u64_leading_zeros(x) <= 64, x >> ((64 - vstd::std_specs::bits::u64_leading_zeros(x)) as u64) == 0
{
    vstd::std_specs::bits::axiom_u64_leading_zeros(x);
    assert(x < 0x8000_0000_0000_0000u64 ==> (x >> 63u64) & 1u64 == 0u64) by (bit_vector);
    let r = (64 - vstd::std_specs::bits::u64_leading_zeros(x)) as u64;
    let y = x >> r;
    if y != 0 {
        vstd::std_specs::bits::axiom_u64_leading_zeros(y);
        let t = (63 - vstd::std_specs::bits::u64_leading_zeros(y)) as u64;
        assert((y >> t) & 1u64 == 1u64);
        assert(r + t < 64 && (x >> ((r + t) as u64)) & 1u64 == 1u64) by (bit_vector) requires y == x >> r, (y >> t) & 1u64 == 1u64, r <= 63, t <= 63;
        let j = (r + t) as u64;
        assert((x >> j) & 1u64 == 0u64);
    }
}
proof fn lemma_mul_le(a: int, b: int, c: int) requires 0 <= a <= b, 0 <= c ensures a * c <= b * c { assert(a * c <= b * c) by (nonlinear_arith) requires 0 <= a <= b, 0 <= c; }
proof fn lemma_sorted_small(e: Seq<u64>) requires e.len() <= 1 ensures sorted_strict(e) { reveal(sorted_strict); }
// `flags |= BIT` on the small values a flag byte goes through, as arithmetic (so the order of the |= statements does not matter)
proof fn lemma_flag_or()
  ensures
    forall|a: u8| #![trigger a | 2u8] a < 32 ==> (a | 2u8) == (if (a / 2) % 2 == 0 { (a + 2) as u8 } else { a }),
    forall|a: u8| #![trigger a | 4u8] a < 32 ==> (a | 4u8) == (if (a / 4) % 2 == 0 { (a + 4) as u8 } else { a }),
    forall|a: u8| #![trigger a | 8u8] a < 32 ==> (a | 8u8) == (if (a / 8) % 2 == 0 { (a + 8) as u8 } else { a }),
    forall|a: u8| #![trigger a | 16u8] a < 32 ==> (a | 16u8) == (if (a / 16) % 2 == 0 { (a + 16) as u8 } else { a }),
{
    assert(forall|a: u8| #![trigger a | 2u8] a < 32 ==> (a | 2u8) == (if (a / 2) % 2 == 0 { (a + 2) as u8 } else { a })) by (bit_vector);
    assert(forall|a: u8| #![trigger a | 4u8] a < 32 ==> (a | 4u8) == (if (a / 4) % 2 == 0 { (a + 4) as u8 } else { a })) by (bit_vector);
    assert(forall|a: u8| #![trigger a | 8u8] a < 32 ==> (a | 8u8) == (if (a / 8) % 2 == 0 { (a + 8) as u8 } else { a })) by (bit_vector);
    assert(forall|a: u8| #![trigger a | 16u8] a < 32 ==> (a | 16u8) == (if (a / 16) % 2 == 0 { (a + 16) as u8 } else { a })) by (bit_vector);
}
proof fn lemma_flags_value(e: bool, o: bool) ensures theta_flags(e, o) == 10 + (if e { 4int } else { 0 }) + (if o { 16int } else { 0 }) {
    let f = theta_flags(e, o);
    assert(f == 10 + (if e { 4u8 } else { 0u8 }) + (if o { 16u8 } else { 0u8 })) by (bit_vector) requires f == (2u8 | 8u8 | (if e { 4u8 } else { 0u8 }) | (if o { 16u8 } else { 0u8 }));
}
proof fn lemma_flags(e: bool, o: bool) ensures flag_empty(theta_flags(e, o)) == e, flag_ordered(theta_flags(e, o)) == o {
    let f = theta_flags(e, o);
    assert(f == 10 || f == 14 || f == 26 || f == 30) by (bit_vector) requires f == (2u8 | 8u8 | (if e { 4u8 } else { 0u8 }) | (if o { 16u8 } else { 0u8 }));
    assert(f == (2u8 | 8u8 | (if e { 4u8 } else { 0u8 }) | (if o { 16u8 } else { 0u8 })) ==> ((f & 4 != 0) == e) && ((f & 16 != 0) == o)) by (bit_vector);
}

// C11 at spec level: the v3 spec decoder inverts the v3 spec encoder on every well-formed state
#[verifier::spinoff_prover]
proof fn lemma_theta_v3_roundtrip(x: ThetaImg, sh: u16)
  requires wf_img(x), x.entries.len() <= 0x0fff_ffff, x.empty || x.seed_hash == sh,
  ensures /*@C11.theta.v3*/ decode_spec(enc_theta_v3(x), sh) == Some(x),
    enc_theta_v3(x).len() == 8 * v3_pre_longs(x) + 8 * x.entries.len(),
{
    reveal(decode_spec);
    let img = enc_theta_v3(x); let p = img.skip(3); let pre = v3_pre_longs(x); let n = x.entries.len();
    lemma_le16_roundtrip(x.seed_hash); lemma_le32_roundtrip(n as u32); lemma_le64_roundtrip(x.theta);
    lemma_enc_u64s_len(x.entries); lemma_flags(x.empty, x.ordered);
    lemma_dec_enc_u64s(x.entries, Seq::empty());
    assert(enc_u64s(x.entries) + Seq::<u8>::empty() =~= enc_u64s(x.entries));
    assert(img[0] == pre && img[1] == 3 && img[2] == 3);
    assert(p[2] == theta_flags(x.empty, x.ordered));
    assert(p.subrange(3, 5) =~= le16_bytes(x.seed_hash));
    if x.empty {
        assert(x.entries =~= Seq::<u64>::empty());
    } else if pre == 1 {
        assert(p.skip(5) =~= enc_u64s(x.entries));
        assert(x.theta == MAX_THETA_SPEC);
    } else {
        assert(p.subrange(5, 9) =~= le32_bytes(n as u32));
        if pre == 2 {
            assert(p.skip(13) =~= enc_u64s(x.entries));
        } else {
            assert(p.subrange(13, 21) =~= le64_bytes(x.theta));
            assert(p.skip(21) =~= enc_u64s(x.entries));
        }
    }
}

// ---------------------------------------------------------------------------------------------------------------------
// C11 for serial version 4 at spec level
// ---------------------------------------------------------------------------------------------------------------------
proof fn lemma_packed_block_len(v: Seq<u64>, w: int) requires v.len() == 8, 0 <= w ensures packed(v, w).len() == w {
    assert(packed_len(8, w) == w);
}
proof fn lemma_enc_blocks_len(d: Seq<u64>, w: int, nb: nat)
  requires 0 <= w, 8 * nb <= d.len()
  ensures enc_blocks(d, w, nb).len() == w * nb
  decreases nb
{
    if nb > 0 {
        lemma_enc_blocks_len(d, w, (nb - 1) as nat);
        lemma_packed_block_len(d.subrange(8 * (nb - 1), 8 * (nb as int)), w);
        assert(w * (nb - 1) + w == w * nb) by (nonlinear_arith);
    } else {
        assert(w * 0 == 0);
    }
}
proof fn lemma_enc_blocks_sub(d: Seq<u64>, w: int, nb: nat, b: int)
  requires 0 <= w, 8 * nb <= d.len(), 0 <= b < nb
  ensures w * b >= 0, w * b + w <= enc_blocks(d, w, nb).len(), enc_blocks(d, w, nb).subrange(w * b, w * b + w) == packed(d.subrange(8 * b, 8 * b + 8), w)
  decreases nb
{
    lemma_enc_blocks_len(d, w, nb);
    lemma_enc_blocks_len(d, w, (nb - 1) as nat);
    let last = packed(d.subrange(8 * (nb - 1), 8 * (nb as int)), w);
    lemma_packed_block_len(d.subrange(8 * (nb - 1), 8 * (nb as int)), w);
    assert(w * (nb - 1) + w == w * nb) by (nonlinear_arith);
    assert(w * b >= 0 && w * b + w <= w * nb) by (nonlinear_arith) requires 0 <= w, 0 <= b < nb;
    if b == nb - 1 {
        assert(enc_blocks(d, w, nb).subrange(w * b, w * b + w) =~= last);
    } else {
        lemma_enc_blocks_sub(d, w, (nb - 1) as nat, b);
        assert(w * b + w <= w * (nb - 1)) by (nonlinear_arith) requires 0 <= w, 0 <= b < nb - 1;
        assert(enc_blocks(d, w, nb).subrange(w * b, w * b + w) =~= enc_blocks(d, w, (nb - 1) as nat).subrange(w * b, w * b + w));
    }
}
proof fn lemma_fits_sub(d: Seq<u64>, w: int, lo: int, hi: int) requires fits(d, w), 0 <= lo <= hi <= d.len() ensures fits(d.subrange(lo, hi), w) {
    assert forall|i: int| 0 <= i < hi - lo implies #[trigger] d.subrange(lo, hi)[i] >> (w as u64) == 0 by { assert(d[lo + i] >> (w as u64) == 0); }
}
// the payload decoder inverts the payload encoder
proof fn lemma_dec_enc_payload(d: Seq<u64>, w: int)
  requires 1 <= w <= 63, fits(d, w)
  ensures enc_v4_payload(d, w).len() == v4_payload_len(d.len() as int, w), dec_v4_deltas(enc_v4_payload(d, w), w, d.len()) =~= d
{
    reveal(dec_v4_delta);
    let n = d.len() as int; let nb = n / 8; let q = enc_v4_payload(d, w);
    let blocks = enc_blocks(d, w, nb as nat);
    let tl = if n % 8 != 0 { packed(d.skip(8 * nb), w) } else { Seq::<u8>::empty() };
    lemma_enc_blocks_len(d, w, nb as nat);
    assert(packed_len(0, w) == 0);
    assert(tl.len() == packed_len(n % 8, w));
    assert(q =~= blocks + tl);
    assert forall|j: int| 0 <= j < n implies #[trigger] dec_v4_deltas(q, w, n as nat)[j] == d[j] by {
        if j < 8 * nb {
            let b = j / 8;
            lemma_enc_blocks_sub(d, w, nb as nat, b);
            let blk = d.subrange(8 * b, 8 * b + 8);
            assert(q.subrange(w * b, w * b + w) =~= blocks.subrange(w * b, w * b + w));
            lemma_fits_sub(d, w, 8 * b, 8 * b + 8);
            lemma_unpack_pack(blk, w, Seq::empty());
            assert(packed(blk, w) + Seq::<u8>::empty() =~= packed(blk, w));
            assert(blk[j % 8] == d[j]);
        } else {
            let rest = d.skip(8 * nb);
            assert(q.subrange(w * nb, v4_payload_len(n, w)) =~= tl);
            lemma_fits_sub(d, w, 8 * nb, n);
            assert(d.subrange(8 * nb, n) =~= rest);
            lemma_unpack_pack(rest, w, Seq::empty());
            assert(packed(rest, w) + Seq::<u8>::empty() =~= packed(rest, w));
            assert(rest[j - 8 * nb] == d[j]);
        }
    }
}
// prefix sums of the deltas of a sorted list give the list back
proof fn lemma_psum_deltas(e: Seq<u64>, k: nat)
  requires sorted_strict(e), k <= e.len()
  ensures psum(deltas_of(e), k) == (if k == 0 { 0 } else { e[k - 1] as int })
  decreases k
{
    reveal(sorted_strict);
    if k > 0 {
        lemma_psum_deltas(e, (k - 1) as nat);
        assert(deltas_of(e)[k - 1] == delta_at(e, k - 1));
    }
}
proof fn lemma_le_count_roundtrip(p: Seq<u8>, off: int, n: u32, neb: u8)
  requires count_fits(n, neb), 0 <= off, off + neb <= p.len(), p.subrange(off, off + neb) == le_count_bytes(n, neb as nat)
  ensures le_count_val(p, off, neb as nat) == n
{
    reveal_with_fuel(le_count_val, 5);
    let s = le_count_bytes(n, neb as nat);
    let b0 = ((n >> 0u32) & 0xff) as u8; let b1 = ((n >> 8u32) & 0xff) as u8; let b2 = ((n >> 16u32) & 0xff) as u8; let b3 = ((n >> 24u32) & 0xff) as u8;
    let sub = p.subrange(off, off + neb);
    assert(neb >= 1 ==> p[off + 0] == sub[0] && s[0] == b0);
    assert(neb >= 2 ==> p[off + 1] == sub[1] && s[1] == b1);
    assert(neb >= 3 ==> p[off + 2] == sub[2] && s[2] == b2);
    assert(neb >= 4 ==> p[off + 3] == sub[3] && s[3] == b3);
    assert(n < 256 ==> (0usize | ((b0 as usize) << 0usize)) == n as usize) by (bit_vector) requires b0 == ((n >> 0u32) & 0xff) as u8;
    assert(n < 65536 ==> ((0usize | ((b0 as usize) << 0usize)) | ((b1 as usize) << 8usize)) == n as usize) by (bit_vector)
      requires b0 == ((n >> 0u32) & 0xff) as u8, b1 == ((n >> 8u32) & 0xff) as u8;
    assert(n < 0x100_0000 ==> (((0usize | ((b0 as usize) << 0usize)) | ((b1 as usize) << 8usize)) | ((b2 as usize) << 16usize)) == n as usize) by (bit_vector)
      requires b0 == ((n >> 0u32) & 0xff) as u8, b1 == ((n >> 8u32) & 0xff) as u8, b2 == ((n >> 16u32) & 0xff) as u8;
    assert(((((0usize | ((b0 as usize) << 0usize)) | ((b1 as usize) << 8usize)) | ((b2 as usize) << 16usize)) | ((b3 as usize) << 24usize)) == n as usize) by (bit_vector)
      requires b0 == ((n >> 0u32) & 0xff) as u8, b1 == ((n >> 8u32) & 0xff) as u8, b2 == ((n >> 16u32) & 0xff) as u8, b3 == ((n >> 24u32) & 0xff) as u8;
}
// C11 at spec level: every serial-version-4 image of a well-formed, compressible state decodes to that state
#[verifier::spinoff_prover]
proof fn lemma_theta_v4_roundtrip(b: Seq<u8>, x: ThetaImg, sh: u16)
  requires wf_img(x), v4_suitable(x), x.entries.len() <= 0x0fff_ffff, x.seed_hash == sh, is_v4_image(b, x),
  ensures /*@C11.theta.v4*/ decode_spec(b, sh) == Some(x),
{
    reveal(decode_spec); reveal(decode_spec_v4);
    let w = b[3]; let neb = b[4]; let n = x.entries.len(); let est = x.theta < MAX_THETA_SPEC;
    let d = deltas_of(x.entries);
    let hdr = enc_v4_header(x, w, neb); let pay = enc_v4_payload(d, w as int);
    let p = b.skip(3);
    let pre: u8 = if est { 2 } else { 1 };
    let off: int = if est { 13 } else { 5 };
    lemma_le16_roundtrip(x.seed_hash); lemma_le64_roundtrip(x.theta);
    assert(le_count_bytes(n as u32, neb as nat).len() == neb);
    assert(hdr.len() == 3 + off + neb);
    assert(b[0] == pre && b[1] == 4 && b[2] == 3);
    assert(p[0] == w && p[1] == neb && p[2] == 26u8);
    assert(flag_ordered(26u8) && !flag_empty(26u8)) by { assert(26u8 & 16 != 0 && 26u8 & 4 == 0) by (bit_vector); }
    assert(p.subrange(3, 5) =~= le16_bytes(x.seed_hash));
    if est { assert(p.subrange(5, 13) =~= le64_bytes(x.theta)); }
    assert(p.subrange(off, off + neb) =~= le_count_bytes(n as u32, neb as nat));
    lemma_le_count_roundtrip(p, off, n as u32, neb);
    assert(p.skip(off + neb) =~= pay);
    lemma_dec_enc_payload(d, w as int);
    lemma_psum_deltas(x.entries, n);
    assert(undelta(d) =~= x.entries) by {
        assert forall|i: int| 0 <= i < n implies #[trigger] undelta(d)[i] == x.entries[i] by { lemma_psum_deltas(x.entries, (i + 1) as nat); }
    }
}

// =====================================================================================================================
// theta/sketch.rs
// =====================================================================================================================
struct CompactThetaSketch {
entries : Vec < u64 > , theta : u64 , seed_hash : u16 , ordered : bool , empty : bool , }



impl CompactThetaSketch {
    spec fn img(&self) -> ThetaImg { ThetaImg { entries: self.entries@, theta: self.theta, seed_hash: self.seed_hash, ordered: self.ordered, empty: self.empty } }
    spec fn wf(&self) -> bool { wf_img(self.img()) }

    fn theta64 ( & self ) -> ( r : u64 ) ensures r == self . theta {
self . theta }



    fn is_empty ( & self ) -> ( r : bool ) ensures r == self . empty {
self . empty }



    fn is_estimation_mode ( & self ) -> ( r : bool ) ensures r == ( self . theta < MAX_THETA_SPEC ) {
self . theta < MAX_THETA }



    fn is_ordered ( & self ) -> ( r : bool ) ensures r == self . ordered {
self . ordered }



    fn preamble_longs ( & self , compressed : bool ) -> ( r : u8 ) ensures ! compressed ==> r == v3_pre_longs ( self . img ( ) ) , compressed ==> r == ( if self . theta < MAX_THETA_SPEC {
2u8 }
else {
1u8 }
) , {
if compressed {
if self . is_estimation_mode ( ) {
2 }
else {
1 }
}
else {
if self . is_estimation_mode ( ) {
3 }
else {
if self . is_empty ( ) || self . entries . len ( ) == 1 {
1 }
else {
2 }
}
}
}



    #[verifier::spinoff_prover]   // fresh z3 per function: the shared prover slows down badly after the expected failures
    fn serialize ( & self ) -> ( r : Vec < u8 > ) requires self . entries @ . len ( ) <= 0x0fff_ffff ensures
/*@C12.theta.v3*/ r @ == enc_theta_v3 ( self . img ( ) ) {
let mut bytes = SketchBytes :: with_capacity ( 64 + self . entries . len ( ) * 8 ) ;
let pre_longs = self . preamble_longs ( false ) ;
bytes . write_u8 ( pre_longs ) ;
bytes . write_u8 ( UNCOMPRESSED_SERIAL_VERSION ) ;
bytes . write_u8 ( Family :: THETA . id ) ;
bytes . write_u16_be ( 0 ) ;
let mut flags = 0u8 ;
flags |= FLAGS_IS_READ_ONLY ;
flags |= FLAGS_IS_COMPACT ;
if self . is_empty ( ) {
flags |= FLAGS_IS_EMPTY ;
}
if self . is_ordered ( ) {
flags |= FLAGS_IS_ORDERED ;
}
bytes . write_u8 ( flags ) ;
bytes . write_u16_le ( self . seed_hash ) ;
if pre_longs > 1 {
bytes . write_u32_le ( self . entries . len ( ) as u32 ) ;
bytes . write_u32_be ( 0 ) ;
}
if self . is_estimation_mode ( ) {
bytes . write_u64_le ( self . theta64 ( ) ) ;
}
let ghost head = bytes @ ;
proof {
assert ( be16_bytes ( 0 ) =~= seq! [ 0u8 , 0u8 ] ) by {
assert ( ( ( 0u16 >> 8 ) & 0xff ) as u8 == 0u8 && ( 0u16 & 0xff ) as u8 == 0u8 ) by ( bit_vector ) ;
}
assert ( be32_bytes ( 0 ) =~= seq! [ 0u8 , 0u8 , 0u8 , 0u8 ] ) by {
assert ( ( ( 0u32 >> 24 ) & 0xff ) as u8 == 0u8 && ( ( 0u32 >> 16 ) & 0xff ) as u8 == 0u8 && ( ( 0u32 >> 8 ) & 0xff ) as u8 == 0u8 && ( 0u32 & 0xff ) as u8 == 0u8 ) by ( bit_vector ) ;
}
let e = self . empty ;
let o = self . ordered ;
lemma_flag_or ( ) ;
lemma_flags_value ( e , o ) ;
assert ( flags == theta_flags ( e , o ) ) ;
assert ( enc_u64s ( self . entries @ . take ( 0 ) ) =~= Seq :: < u8 > :: empty ( ) ) ;
}
let mut vx_i1 = 0 ;
while vx_i1 < self . entries . len ( ) invariant 0 <= vx_i1 <= self . entries @ . len ( ) , bytes @ == head + enc_u64s ( self . entries @ . take ( vx_i1 as int ) ) , decreases self . entries @ . len ( ) - vx_i1 {
let hash = & self . entries [ vx_i1 ] ;
bytes . write_u64_le ( * hash ) ;
proof {
let a = self . entries @ . take ( vx_i1 + 1 ) ;
assert ( a . drop_last ( ) =~= self . entries @ . take ( vx_i1 as int ) ) ;
assert ( a . last ( ) == self . entries @ [ vx_i1 as int ] ) ;
}
vx_i1 += 1 ;
}
proof {
assert ( self . entries @ . take ( self . entries @ . len ( ) as int ) =~= self . entries @ ) ;
}
bytes . into_bytes ( ) }



    fn serialize_compressed ( & self ) -> ( r : Vec < u8 > ) requires self . wf ( ) , self . entries @ . len ( ) <= 0x0fff_ffff ensures
/*@C12.theta.compressed_fallback*/ ! v4_suitable ( self . img ( ) ) ==> r @ == enc_theta_v3 ( self . img ( ) ) ,
/*@C12.theta.compressed_header*/ v4_suitable ( self . img ( ) ) ==> is_v4_image_of ( r @ , self . img ( ) ) ,
/*@C12.theta.compressed_payload*/ v4_suitable ( self . img ( ) ) ==> is_v4_image ( r @ , self . img ( ) ) , {
if self . is_suitable_for_compression ( ) {
self . serialize_v4 ( ) }
else {
self . serialize ( ) }
}



    fn is_suitable_for_compression ( & self ) -> ( r : bool ) ensures r == v4_suitable ( self . img ( ) ) {
self . ordered && ! self . entries . is_empty ( ) && ( self . entries . len ( ) != 1 || self . is_estimation_mode ( ) ) }



    #[verifier::spinoff_prover]   // fresh z3 per function: the shared prover slows down badly after the expected failures
    fn serialize_v4 ( & self ) -> ( r : Vec < u8 > ) requires self . wf ( ) , v4_suitable ( self . img ( ) ) , self . entries @ . len ( ) <= 0x0fff_ffff ensures
/*@C12.theta.v4_header*/ is_v4_image_of ( r @ , self . img ( ) ) ,
/*@C12.theta.v4_payload*/ is_v4_image ( r @ , self . img ( ) ) , {
let pre_longs = self . preamble_longs ( true ) ;
let entry_bits = Self :: compute_entry_bits ( & self . entries ) ;
let num_entries_bytes = Self :: num_entries_bytes ( self . entries . len ( ) ) ;
proof {
assert ( entry_bits as usize * self . entries @ . len ( ) <= 63 * 0x0fff_ffff ) by ( nonlinear_arith ) requires entry_bits <= 63 , self . entries @ . len ( ) <= 0x0fff_ffff ;
}
let compressed_bits = entry_bits as usize * self . entries . len ( ) ;
let compressed_bytes = compressed_bits . div_ceil ( 8 ) ;
let out_bytes = ( pre_longs as usize * 8 ) + ( num_entries_bytes as usize ) + compressed_bytes ;
let mut bytes = SketchBytes :: with_capacity ( out_bytes ) ;
bytes . write_u8 ( pre_longs ) ;
bytes . write_u8 ( COMPRESSED_SERIAL_VERSION ) ;
bytes . write_u8 ( Family :: THETA . id ) ;
bytes . write_u8 ( entry_bits ) ;
bytes . write_u8 ( num_entries_bytes ) ;
let mut flags = 0u8 ;
flags |= FLAGS_IS_READ_ONLY ;
flags |= FLAGS_IS_COMPACT ;
flags |= FLAGS_IS_ORDERED ;
bytes . write_u8 ( flags ) ;
bytes . write_u16_le ( self . seed_hash ) ;
if self . is_estimation_mode ( ) {
bytes . write_u64_le ( self . theta ) ;
}
proof {
lemma_flag_or ( ) ;
assert ( flags == 26u8 ) ;
}
let ghost head = bytes @ ;
let ghost n0 = self . entries @ . len ( ) as u32 ;
proof {
assert ( n0 >> 0u32 == n0 ) by ( bit_vector ) ;
assert ( le_count_bytes ( n0 , 0 ) =~= Seq :: < u8 > :: empty ( ) ) ;
}
let mut n = self . entries . len ( ) as u32 ;
for vx_u1 in 0 .. num_entries_bytes invariant num_entries_bytes <= 4 , n == n0 >> ( 8 * vx_u1 as u32 ) , bytes @ == head + le_count_bytes ( n0 , vx_u1 as nat ) , {
bytes . write_u8 ( ( n & 0xff ) as u8 ) ;
proof {
let j = vx_u1 as u32 ;
let g_n = n ;
assert ( g_n >> 8 == g_n / 256 && g_n & 0xff == g_n % 256 ) by ( bit_vector ) ;
assert ( j < 4 ==> ( ( n0 >> ( 8 * j ) ) >> 8 ) == n0 >> ( 8 * ( j + 1 ) as u32 ) ) by ( bit_vector ) ;
assert ( le_count_bytes ( n0 , vx_u1 as nat + 1 ) =~= le_count_bytes ( n0 , vx_u1 as nat ) . push ( ( ( n0 >> ( 8 * j ) ) & 0xff ) as u8 ) ) ;
}
n >>= 8 ;
}
let ghost hdr = bytes @ ;
let ghost d = deltas_of ( self . entries @ ) ;
let ghost w = entry_bits as int ;
let mut previous = 0u64 ;
let mut i = 0usize ;
let mut block = vx_vec_u8 ( entry_bits as usize ) ;
proof {
reveal ( sorted_strict ) ;
assert ( hdr + enc_blocks ( d , w , 0 ) =~= hdr ) ;
}
while i + BLOCK_WIDTH <= self . entries . len ( ) invariant i <= self . entries @ . len ( ) , i % 8 == 0 , d == deltas_of ( self . entries @ ) , w == entry_bits as int ,
/*@C12.theta.v4_payload*/ bytes @ == hdr + enc_blocks ( d , w , ( i / 8 ) as nat ) , self . entries @ . len ( ) <= 0x0fff_ffff , block @ . len ( ) == entry_bits , 1 <= entry_bits <= 63 || self . entries @ . len ( ) == 0 , previous == ( if i == 0 {
0u64 }
else {
self . entries @ [ i - 1 ] }
) , sorted_strict ( self . entries @ ) , bytes @ . len ( ) >= hdr . len ( ) , bytes @ . take ( hdr . len ( ) as int ) == hdr , decreases self . entries @ . len ( ) - i {
let mut deltas = [ 0u64 ;
BLOCK_WIDTH ] ;
for j in 0 .. BLOCK_WIDTH invariant i + BLOCK_WIDTH <= self . entries @ . len ( ) , self . entries @ . len ( ) <= 0x0fff_ffff , deltas @ . len ( ) == 8 , sorted_strict ( self . entries @ ) , d == deltas_of ( self . entries @ ) , 
/*@C12.theta.v4_payload*/ forall | t : int | 0 <= t < j ==> deltas @ [ t ] == # [ trigger ] d [ i + t ] , previous == ( if i + j == 0 {
0u64 }
else {
self . entries @ [ i + j - 1 ] }
) , {
proof {
reveal ( sorted_strict ) ;
}
let entry = self . entries [ i + j ] ;
deltas [ j ] = entry - previous ;
previous = entry ;
}
vx_fill_u8 ( & mut block , 0 ) ;
pack_bits_block ( & deltas , & mut block , entry_bits ) ;
let ghost before = bytes @ ;
bytes . write ( & block ) ;
proof {
assert ( ( before + block @ ) . take ( hdr . len ( ) as int ) =~= before . take ( hdr . len ( ) as int ) ) ;
assert ( 8 * ( i / 8 ) == i ) ;
assert forall | t : int | 0 <= t < 8 implies deltas @ [ t ] == d . subrange ( i as int , i + 8 ) [ t ] by {
assert ( deltas @ [ t ] == d [ i + t ] ) ;
}
assert ( deltas @ =~= d . subrange ( 8 * ( i / 8 ) as int , 8 * ( i / 8 + 1 ) as int ) ) ;
assert ( block @ . take ( w ) =~= block @ ) ;
assert ( ( i + 8 ) / 8 == i / 8 + 1 ) ;
assert ( hdr + enc_blocks ( d , w , ( i / 8 ) as nat ) + block @ =~= hdr + ( enc_blocks ( d , w , ( i / 8 ) as nat ) + block @ ) ) ;
}
i += BLOCK_WIDTH ;
}
if i < self . entries . len ( ) {
let mut block = vx_vec_u8 ( entry_bits as usize ) ;
let mut packer = BitPacker :: new ( & mut block ) ;
let ghost i0 = i ;
let ghost fin = final ( packer . bytes ) @ ;
proof {
assert ( d . subrange ( i0 as int , i0 as int ) . len ( ) * w == 0 ) by ( nonlinear_arith ) requires d . subrange ( i0 as int , i0 as int ) . len ( ) == 0 ;
assert ( packer . bytes @ . take ( 0 ) =~= packed ( d . subrange ( i0 as int , i0 as int ) , w ) ) ;
}
while i < self . entries . len ( ) invariant i0 <= i <= self . entries @ . len ( ) , self . entries @ . len ( ) - i0 < 8 , 1 <= entry_bits <= 63 , packer . cap ( ) == 8 * entry_bits , packer . bitpos ( ) == ( i - i0 ) * entry_bits , packer . byte_bit_used < 8 , d == deltas_of ( self . entries @ ) , w == entry_bits as int , final ( packer . bytes ) @ == fin ,
/*@C12.theta.v4_payload*/ packer . holds ( d . subrange ( i0 as int , i as int ) , w ) , previous == ( if i == 0 {
0u64 }
else {
self . entries @ [ i - 1 ] }
) , sorted_strict ( self . entries @ ) , decreases self . entries @ . len ( ) - i {
proof {
reveal ( sorted_strict ) ;
lemma_mul_le ( i - i0 + 1 , 8 , entry_bits as int ) ;
assert ( ( i - i0 + 1 ) * entry_bits == ( i - i0 ) * entry_bits + entry_bits ) by ( nonlinear_arith ) ;
}
let delta = self . entries [ i ] - previous ;
previous = self . entries [ i ] ;
packer . pack_value ( delta , entry_bits ) ;
proof {
assert ( d . subrange ( i0 as int , i as int ) . push ( d [ i as int ] ) =~= d . subrange ( i0 as int , i + 1 ) ) ;
}
i += 1 ;
}
let bytes_used = packer . byte_used ( ) ;
proof {
lemma_mul_le ( i - i0 , 8 , entry_bits as int ) ;
}
let ghost before = bytes @ ;
bytes . write ( vx_subslice_u8 ( & block , 0 , bytes_used ) ) ;
proof {
assert ( ( before + block @ . subrange ( 0 , bytes_used as int ) ) . take ( hdr . len ( ) as int ) =~= before . take ( hdr . len ( ) as int ) ) ;
assert ( d . subrange ( i0 as int , i as int ) =~= d . skip ( i0 as int ) ) ;
assert ( block @ . subrange ( 0 , bytes_used as int ) =~= block @ . take ( bytes_used as int ) ) ;
assert ( i0 == 8 * ( d . len ( ) / 8 ) && d . len ( ) % 8 != 0 ) ;
assert (
/*@C12.theta.v4_payload*/ bytes @ =~= hdr + enc_v4_payload ( d , w ) ) ;
}
}
else {
proof {
assert ( i == 8 * ( d . len ( ) / 8 ) && d . len ( ) % 8 == 0 ) ;
assert (
/*@C12.theta.v4_payload*/ bytes @ =~= hdr + enc_v4_payload ( d , w ) ) ;
}
}
proof {
let x = self . img ( ) ;
let b = bytes @ ;
assert ( hdr =~= enc_v4_header ( x , entry_bits , num_entries_bytes ) ) ;
assert ( b . take ( hdr . len ( ) as int ) [ 3 ] == b [ 3 ] && b . take ( hdr . len ( ) as int ) [ 4 ] == b [ 4 ] ) ;
assert ( hdr [ 3 ] == entry_bits && hdr [ 4 ] == num_entries_bytes ) ;
}
bytes . into_bytes ( ) }



    fn compute_entry_bits ( entries : & [ u64 ] ) -> ( r : u8 ) requires sorted_strict ( entries @ ) , forall | i : int | 0 <= i < entries @ . len ( ) ==> 0 < # [ trigger ] entries @ [ i ] < 0x8000_0000_0000_0000 , ensures r <= 63 , entries @ . len ( ) > 0 ==> 1 <= r ,
/*@C12.theta.v4_entry_bits*/ fits ( deltas_of ( entries @ ) , r as int ) , {
let mut previous = 0u64 ;
let mut ored = 0u64 ;
let mut vx_i1 = 0 ;
while vx_i1 < entries . len ( ) invariant vx_i1 <= entries @ . len ( ) , previous == ( if vx_i1 == 0 {
0u64 }
else {
entries @ [ vx_i1 - 1 ] }
) , ored < 0x8000_0000_0000_0000 , vx_i1 > 0 ==> ored >= 1 , sorted_strict ( entries @ ) , forall | j : int | 0 <= j < vx_i1 ==> ( # [ trigger ] delta_at ( entries @ , j ) ) | ored == ored , forall | i : int | 0 <= i < entries @ . len ( ) ==> 0 < # [ trigger ] entries @ [ i ] < 0x8000_0000_0000_0000 , decreases entries @ . len ( ) - vx_i1 {
let entry = entries [ vx_i1 ] ;
proof {
reveal ( sorted_strict ) ;
let g_d = delta_at ( entries @ , vx_i1 as int ) ;
assert ( g_d == entry - previous ) ;
assert ( ored < 0x8000_0000_0000_0000u64 && g_d < 0x8000_0000_0000_0000u64 ==> ( ored | g_d ) < 0x8000_0000_0000_0000u64 && ( ored | g_d ) >= g_d ) by ( bit_vector ) ;
assert ( g_d | ( ored | g_d ) == ( ored | g_d ) && ored | g_d == g_d | ored ) by ( bit_vector ) ;
assert forall | j : int | 0 <= j < vx_i1 implies ( # [ trigger ] delta_at ( entries @ , j ) ) | ( ored | g_d ) == ( ored | g_d ) by {
let x = delta_at ( entries @ , j ) ;
assert ( x | ored == ored ==> x | ( ored | g_d ) == ( ored | g_d ) ) by ( bit_vector ) ;
}
}
let delta = entry - previous ;
ored |= delta ;
previous = entry ;
vx_i1 += 1 ;
}
proof {
vstd :: std_specs :: bits :: axiom_u64_leading_zeros ( ored ) ;
assert ( ored < 0x8000_0000_0000_0000u64 ==> ( ored >> 63u64 ) & 1u64 == 0u64 ) by ( bit_vector ) ;
lemma_lz_fits ( ored ) ;
let rr = ( 64 - vstd :: std_specs :: bits :: u64_leading_zeros ( ored ) ) as u64 ;
assert forall | j : int | 0 <= j < entries @ . len ( ) implies # [ trigger ] deltas_of ( entries @ ) [ j ] >> rr == 0 by {
let x = delta_at ( entries @ , j ) ;
assert ( x | ored == ored && ored >> rr == 0 ==> x >> rr == 0 ) by ( bit_vector ) ;
}
}
( 64 - ored . leading_zeros ( ) ) as u8 }



    fn num_entries_bytes ( num_entries : usize ) -> ( r : u8 ) ensures r <= 4 , count_fits ( num_entries as u32 , r ) , {
let n = num_entries as u32 ;
let bits = u32 :: BITS - n . leading_zeros ( ) ;
proof {
vstd :: std_specs :: bits :: axiom_u32_leading_zeros ( n ) ;
assert ( bits <= 32 && n >> bits == 0 ==> ( bits == 0 ==> n == 0 ) && ( bits <= 8 ==> n < 256 ) && ( bits <= 16 ==> n < 65536 ) && ( bits <= 24 ==> n < 0x100_0000 ) ) by ( bit_vector ) ;
}
bits . div_ceil ( 8 ) as u8 }



    #[verifier::spinoff_prover]   // fresh z3 per function: the shared prover slows down badly after the expected failures
    fn read_entries ( cursor : & mut SketchSlice < '_ > , num_entries : usize , theta : u64 , ) -> ( r : Result < Vec < u64 > , Error > ) ensures
/*@C13.theta.entries*/ r matches Ok ( v ) ==> old ( cursor ) . rem ( ) . len ( ) >= 8 * num_entries && v @ == dec_u64s ( old ( cursor ) . rem ( ) , num_entries as nat ) && final ( cursor ) . rem ( ) == old ( cursor ) . rem ( ) . skip ( 8 * num_entries as int ) ,
/*@C14.theta.entries_valid*/ r matches Ok ( v ) ==> all_valid ( v @ , theta ) ,
/*@C13.theta.entries_complete*/ ( old ( cursor ) . rem ( ) . len ( ) >= 8 * num_entries && all_valid ( dec_u64s ( old ( cursor ) . rem ( ) , num_entries as nat ) , theta ) ) ==> r is Ok , {
let ghost r0 = cursor . rem ( ) ;
let mut entries = vx_with_capacity_u64 ( num_entries , Ghost ( cursor . rem ( ) . len ( ) as int ) ) ;
for vx_u1 in 0 .. num_entries invariant entries @ . len ( ) == vx_u1 , r0 . len ( ) >= 8 * vx_u1 , r0 == old ( cursor ) . rem ( ) , cursor . rem ( ) == r0 . skip ( 8 * vx_u1 as int ) , forall | i : int | 0 <= i < vx_u1 ==> entries @ [ i ] == le64_val ( r0 . subrange ( 8 * i , 8 * i + 8 ) ) && valid_hash ( # [ trigger ] entries @ [ i ] , theta ) , {
proof {
if r0 . len ( ) >= 8 * num_entries {
assert ( cursor . rem ( ) . len ( ) >= 8 ) ;
}
}
let hash = cursor . read_u64_le ( ) . vx_io ( "entries" ) ? ;
proof {
assert ( hash == le64_val ( r0 . subrange ( 8 * vx_u1 , 8 * vx_u1 + 8 ) ) ) by {
assert ( r0 . skip ( 8 * vx_u1 as int ) . take ( 8 ) =~= r0 . subrange ( 8 * vx_u1 , 8 * vx_u1 + 8 ) ) ;
}
assert ( dec_u64s ( r0 , num_entries as nat ) [ vx_u1 as int ] == hash ) ;
assert ( r0 . skip ( 8 * vx_u1 as int ) . skip ( 8 ) =~= r0 . skip ( 8 * ( vx_u1 + 1 ) as int ) ) ;
}
if hash == 0 || hash >= theta {
proof {
assert ( ! valid_hash ( dec_u64s ( r0 , num_entries as nat ) [ vx_u1 as int ] , theta ) ) ;
}
return Err ( Error :: deserial ( "corrupted: invalid retained hash value" ) ) ;
}
entries . push ( hash ) ;
}
proof {
assert ( entries @ =~= dec_u64s ( r0 , num_entries as nat ) ) ;
}
Ok ( entries ) }


    fn deserialize ( bytes : & [ u8 ] ) -> ( r : Result < Self , Error > ) ensures
/*@C13.theta.deserialize*/ decode_spec ( bytes @ , seed_hash_of ( DEFAULT_UPDATE_SEED ) ) matches Some ( x ) ==> ( r matches Ok ( s ) && s . img ( ) == x ) ,
/*@C14.theta.deserialize_total*/ r matches Ok ( s ) ==> all_valid ( s . entries @ , s . theta ) ,
/*@C14.theta.v1_theta_range*/ ( bytes @ . len ( ) >= 3 && bytes @ [ 1 ] == 1 ) ==> ( r matches Ok ( s ) ==> 0 < s . theta <= MAX_THETA_SPEC ) ,
/*@C14.theta.v1_sorted*/ ( bytes @ . len ( ) >= 3 && bytes @ [ 1 ] == 1 ) ==> ( r matches Ok ( s ) ==> ( s . ordered ==> sorted_strict ( s . entries @ ) ) ) ,
/*@C14.theta.v2_theta_range*/ ( bytes @ . len ( ) >= 3 && bytes @ [ 1 ] == 2 ) ==> ( r matches Ok ( s ) ==> 0 < s . theta <= MAX_THETA_SPEC ) ,
/*@C14.theta.v2_sorted*/ ( bytes @ . len ( ) >= 3 && bytes @ [ 1 ] == 2 ) ==> ( r matches Ok ( s ) ==> ( s . ordered ==> sorted_strict ( s . entries @ ) ) ) ,
/*@C14.theta.v3_theta_range*/ ( bytes @ . len ( ) >= 3 && bytes @ [ 1 ] == 3 ) ==> ( r matches Ok ( s ) ==> 0 < s . theta <= MAX_THETA_SPEC ) ,
/*@C14.theta.v3_sorted*/ ( bytes @ . len ( ) >= 3 && bytes @ [ 1 ] == 3 ) ==> ( r matches Ok ( s ) ==> ( s . ordered ==> sorted_strict ( s . entries @ ) ) ) ,
/*@C14.theta_v4.theta_range*/ ( bytes @ . len ( ) >= 3 && bytes @ [ 1 ] == 4 ) ==> ( r matches Ok ( s ) ==> 0 < s . theta <= MAX_THETA_SPEC ) ,
/*@C14.theta_v4.sorted*/ ( bytes @ . len ( ) >= 3 && bytes @ [ 1 ] == 4 ) ==> ( r matches Ok ( s ) ==> ( s . ordered ==> sorted_strict ( s . entries @ ) ) ) ,
/*@C14.theta_v4.empty_consistent*/ ( bytes @ . len ( ) >= 3 && bytes @ [ 1 ] == 4 ) ==> ( r matches Ok ( s ) ==> ( s . empty ==> s . entries @ . len ( ) == 0 && s . theta == MAX_THETA_SPEC ) ) , {
Self :: deserialize_with_seed ( bytes , DEFAULT_UPDATE_SEED ) }


    fn deserialize_with_seed ( bytes : & [ u8 ] , seed : u64 ) -> ( r : Result < Self , Error > ) ensures
/*@C13.theta.dispatch*/ decode_spec ( bytes @ , seed_hash_of ( seed ) ) matches Some ( x ) ==> ( r matches Ok ( s ) && s . img ( ) == x ) ,
/*@C13.theta.dispatch_sound*/ r matches Ok ( s ) ==> bytes @ . len ( ) >= 3 && ( bytes @ [ 1 ] == 4 || decode_spec ( bytes @ , seed_hash_of ( seed ) ) == Some ( s . img ( ) ) ) ,
/*@C14.theta.total*/ r matches Ok ( s ) ==> all_valid ( s . entries @ , s . theta ) , {
proof {
reveal ( decode_spec ) ;
}
let mut cursor = SketchSlice :: new ( bytes ) ;
let pre_longs = cursor . read_u8 ( ) . vx_io ( "preamble_longs" ) ? ;
let ser_ver = cursor . read_u8 ( ) . vx_io ( "serial_version" ) ? ;
let family_id = cursor . read_u8 ( ) . vx_io ( "family_id" ) ? ;
Family :: THETA . validate_id ( family_id ) ? ;
vx_ensure_pre_longs ( Family :: THETA . min_pre_longs , Family :: THETA . max_pre_longs , pre_longs , ) ? ;
proof {
assert ( bytes @ . skip ( 1 ) . skip ( 1 ) . skip ( 1 ) =~= bytes @ . skip ( 3 ) ) ;
}
let ghost p0 = cursor . rem ( ) ;
match ser_ver {
1 => Self :: deserialize_v1 ( cursor , seed ) , 2 => Self :: deserialize_v2 ( pre_longs , cursor , seed ) , 3 => Self :: deserialize_v3 ( pre_longs , cursor , seed ) , 4 => Self :: deserialize_v4 ( pre_longs , cursor , seed , Ghost ( p0 ) ) , _ => Err ( vx_err_deserial_fmt ( ) ) , }
}



    #[verifier::spinoff_prover]   // fresh z3 per function: the shared prover slows down badly after the expected failures
    fn deserialize_v1 ( mut cursor : SketchSlice < '_ > , expected_seed : u64 ) -> ( r : Result < Self , Error > ) ensures
/*@C13.theta.v1*/ decode_spec_v1 ( cursor . rem ( ) , seed_hash_of ( expected_seed ) ) matches Some ( x ) ==> ( r matches Ok ( s ) && s . img ( ) == x ) ,
/*@C13.theta.v1_sound*/ r matches Ok ( s ) ==> decode_spec_v1 ( cursor . rem ( ) , seed_hash_of ( expected_seed ) ) == Some ( s . img ( ) ) ,
/*@C14.theta.v1_total*/ r matches Ok ( s ) ==> all_valid ( s . entries @ , s . theta ) && ( s . empty ==> s . entries @ . len ( ) == 0 && s . theta == MAX_THETA_SPEC ) , {
let ghost p = cursor . rem ( ) ;
let seed_hash = compute_seed_hash ( expected_seed ) ;
cursor . read_u8 ( ) . vx_io ( "<unused>" ) ? ;
cursor . read_u32_le ( ) . vx_io ( "<unused_u32_0>" ) ? ;
let num_entries = cursor . read_u32_le ( ) . vx_io ( "num_entries" ) ? as usize ;
cursor . read_u32_le ( ) . vx_io ( "<unused_u32_1>" ) ? ;
let theta = cursor . read_u64_le ( ) . vx_io ( "theta_long" ) ? ;
proof {
assert ( p . skip ( 1 ) . skip ( 4 ) . take ( 4 ) =~= p . subrange ( 5 , 9 ) ) ;
assert ( p . skip ( 1 ) . skip ( 4 ) . skip ( 4 ) . skip ( 4 ) . take ( 8 ) =~= p . subrange ( 13 , 21 ) ) ;
assert ( p . skip ( 1 ) . skip ( 4 ) . skip ( 4 ) . skip ( 4 ) . skip ( 8 ) =~= p . skip ( 21 ) ) ;
}
let empty = num_entries == 0 && theta == MAX_THETA ;
if empty {
proof {
assert ( dec_u64s ( p . skip ( 21 ) , 0 ) =~= Seq :: < u64 > :: empty ( ) ) ;
lemma_sorted_small ( Seq :: < u64 > :: empty ( ) ) ;
}
return Ok ( Self {
entries : vec! [ ] , theta , seed_hash , ordered : true , empty : true , }
) ;
}
let entries = Self :: read_entries ( & mut cursor , num_entries , theta ) ? ;
Ok ( Self {
entries , theta , seed_hash , ordered : true , empty : false , }
) }



    #[verifier::spinoff_prover]   // fresh z3 per function: the shared prover slows down badly after the expected failures
    fn deserialize_v2 ( pre_longs : u8 , mut cursor : SketchSlice < '_ > , expected_seed : u64 , ) -> ( r : Result < Self , Error > ) ensures
/*@C13.theta.v2*/ decode_spec_v2 ( cursor . rem ( ) , pre_longs , seed_hash_of ( expected_seed ) ) matches Some ( x ) ==> ( r matches Ok ( s ) && s . img ( ) == x ) ,
/*@C13.theta.v2_sound*/ r matches Ok ( s ) ==> decode_spec_v2 ( cursor . rem ( ) , pre_longs , seed_hash_of ( expected_seed ) ) == Some ( s . img ( ) ) ,
/*@C14.theta.v2_total*/ r matches Ok ( s ) ==> all_valid ( s . entries @ , s . theta ) && ( s . empty ==> s . entries @ . len ( ) == 0 && s . theta == MAX_THETA_SPEC ) , {
let ghost p = cursor . rem ( ) ;
cursor . read_u8 ( ) . vx_io ( "<unused>" ) ? ;
cursor . read_u16_le ( ) . vx_io ( "<unused_u16>" ) ? ;
let seed_hash = cursor . read_u16_le ( ) . vx_io ( "seed_hash" ) ? ;
proof {
assert ( p . skip ( 1 ) . skip ( 2 ) . take ( 2 ) =~= p . subrange ( 3 , 5 ) ) ;
assert ( p . skip ( 1 ) . skip ( 2 ) . skip ( 2 ) =~= p . skip ( 5 ) ) ;
}
let expected_seed_hash = compute_seed_hash ( expected_seed ) ;
if seed_hash != expected_seed_hash {
return Err ( vx_err_deserial_fmt ( ) ) ;
}
proof {
lemma_sorted_small ( Seq :: < u64 > :: empty ( ) ) ;
}
match pre_longs {
V2_PREAMBLE_EMPTY => Ok ( Self {
entries : vec! [ ] , theta : MAX_THETA , seed_hash , ordered : true , empty : true , }
) , V2_PREAMBLE_PRECISE => {
let num_entries = cursor . read_u32_le ( ) . vx_io ( "num_entries" ) ? as usize ;
cursor . read_u32_le ( ) . vx_io ( "<unused_u32>" ) ? ;
proof {
assert ( p . skip ( 5 ) . take ( 4 ) =~= p . subrange ( 5 , 9 ) ) ;
assert ( p . skip ( 5 ) . skip ( 4 ) . skip ( 4 ) =~= p . skip ( 13 ) ) ;
}
let entries = Self :: read_entries ( & mut cursor , num_entries , MAX_THETA ) ? ;
Ok ( Self {
empty : entries . is_empty ( ) , entries , theta : MAX_THETA , seed_hash , ordered : true , }
) }
V2_PREAMBLE_ESTIMATE => {
let num_entries = cursor . read_u32_le ( ) . vx_io ( "num_entries" ) ? as usize ;
cursor . read_u32_le ( ) . vx_io ( "<unused_u32>" ) ? ;
let theta = cursor . read_u64_le ( ) . vx_io ( "theta_long" ) ? ;
proof {
assert ( p . skip ( 5 ) . take ( 4 ) =~= p . subrange ( 5 , 9 ) ) ;
assert ( p . skip ( 5 ) . skip ( 4 ) . skip ( 4 ) . take ( 8 ) =~= p . subrange ( 13 , 21 ) ) ;
assert ( p . skip ( 5 ) . skip ( 4 ) . skip ( 4 ) . skip ( 8 ) =~= p . skip ( 21 ) ) ;
}
let empty = ( num_entries == 0 ) && ( theta == MAX_THETA ) ;
let entries = Self :: read_entries ( & mut cursor , num_entries , theta ) ? ;
Ok ( Self {
entries , theta , seed_hash , ordered : true , empty , }
) }
_ => Err ( Error :: invalid_preamble_longs ( & [ 1 , 2 , 3 ] , pre_longs ) ) , }
}



    #[verifier::spinoff_prover]   // fresh z3 per function: the shared prover slows down badly after the expected failures
    fn deserialize_v3 ( pre_longs : u8 , mut cursor : SketchSlice < '_ > , expected_seed : u64 , ) -> ( r : Result < Self , Error > ) requires 1 <= pre_longs <= 3 , ensures
/*@C13.theta.v3*/ decode_spec_v3 ( cursor . rem ( ) , pre_longs , seed_hash_of ( expected_seed ) ) matches Some ( x ) ==> ( r matches Ok ( s ) && s . img ( ) == x ) ,
/*@C13.theta.v3_sound*/ r matches Ok ( s ) ==> decode_spec_v3 ( cursor . rem ( ) , pre_longs , seed_hash_of ( expected_seed ) ) == Some ( s . img ( ) ) ,
/*@C14.theta.v3_total*/ r matches Ok ( s ) ==> all_valid ( s . entries @ , s . theta ) && ( s . empty ==> s . entries @ . len ( ) == 0 && s . theta == MAX_THETA_SPEC ) , {
let ghost p = cursor . rem ( ) ;
cursor . read_u16_le ( ) . vx_io ( "<unused_u32>" ) ? ;
let flags = cursor . read_u8 ( ) . vx_io ( "flags" ) ? ;
let seed_hash = cursor . read_u16_le ( ) . vx_io ( "seed_hash" ) ? ;
proof {
assert ( p . skip ( 2 ) . skip ( 1 ) . take ( 2 ) =~= p . subrange ( 3 , 5 ) ) ;
assert ( p . skip ( 2 ) . skip ( 1 ) . skip ( 2 ) =~= p . skip ( 5 ) ) ;
}
let empty = ( flags & FLAGS_IS_EMPTY ) != 0 ;
let mut theta = MAX_THETA ;
let num_entries ;
let mut entries = vec! [ ] ;
if ! empty {
let expected_seed_hash = compute_seed_hash ( expected_seed ) ;
if seed_hash != expected_seed_hash {
return Err ( vx_err_deserial_fmt ( ) ) ;
}
if pre_longs == 1 {
num_entries = 1 ;
}
else {
num_entries = cursor . read_u32_le ( ) . vx_io ( "num_entries" ) ? ;
cursor . read_u32_le ( ) . vx_io ( "<unused_u32>" ) ? ;
proof {
assert ( p . skip ( 5 ) . take ( 4 ) =~= p . subrange ( 5 , 9 ) ) ;
assert ( p . skip ( 5 ) . skip ( 4 ) . skip ( 4 ) =~= p . skip ( 13 ) ) ;
}
if pre_longs > 2 {
theta = cursor . read_u64_le ( ) . vx_io ( "theta_long" ) ? ;
proof {
assert ( p . skip ( 13 ) . take ( 8 ) =~= p . subrange ( 13 , 21 ) ) ;
assert ( p . skip ( 13 ) . skip ( 8 ) =~= p . skip ( 21 ) ) ;
}
}
}
entries = Self :: read_entries ( & mut cursor , num_entries as usize , theta ) ? ;
}
proof {
if entries @ . len ( ) <= 1 {
lemma_sorted_small ( entries @ ) ;
}
}
let ordered = ( flags & FLAGS_IS_ORDERED ) != 0 ;
Ok ( Self {
entries , theta , seed_hash , ordered , empty , }
) }


    #[verifier::spinoff_prover]   // fresh z3 per function: the shared prover slows down badly after the expected failures
    // Ghost(p): the bytes of the cursor handed in; a by-value `mut` parameter has no old(), and the loops (verified in isolation) must name it
    fn deserialize_v4 ( pre_longs : u8 , mut cursor : SketchSlice < '_ > , expected_seed : u64 , Ghost ( p ) : Ghost < Seq < u8 > > , ) -> ( r : Result < Self , Error > ) requires p == cursor . rem ( ) , ensures
/*@C13.theta.v4_payload*/ decode_spec_v4 ( p , pre_longs , seed_hash_of ( expected_seed ) ) matches Some ( x ) ==> ( r matches Ok ( s ) && s . img ( ) == x ) ,
/*@C14.theta_v4.total*/ r matches Ok ( s ) ==> all_valid ( s . entries @ , s . theta ) , {
let ghost spec = decode_spec_v4 ( p , pre_longs , seed_hash_of ( expected_seed ) ) ;
proof {
lemma_dec_v4_some ( p , pre_longs , seed_hash_of ( expected_seed ) ) ;
}
let entry_bits = cursor . read_u8 ( ) . vx_io ( "entry_bits" ) ? ;
let num_entries_bytes = cursor . read_u8 ( ) . vx_io ( "num_entries" ) ? ;
let flags = cursor . read_u8 ( ) . vx_io ( "flags" ) ? ;
let seed_hash = cursor . read_u16_le ( ) . vx_io ( "seed_hash" ) ? ;
proof {
assert ( p . skip ( 1 ) . skip ( 1 ) . skip ( 1 ) . take ( 2 ) =~= p . subrange ( 3 , 5 ) ) ;
assert ( p . skip ( 1 ) . skip ( 1 ) . skip ( 1 ) . skip ( 2 ) =~= p . skip ( 5 ) ) ;
}
let empty = ( flags & FLAGS_IS_EMPTY ) != 0 ;
if ! empty {
let expected_seed_hash = compute_seed_hash ( expected_seed ) ;
if seed_hash != expected_seed_hash {
return Err ( vx_err_deserial_fmt ( ) ) ;
}
}
let theta = if pre_longs > 1 {
cursor . read_u64_le ( ) . vx_io ( "theta_long" ) ? }
else {
MAX_THETA }
;
let ghost off : int = if pre_longs > 1 { 13 } else { 5 } ;
proof {
if pre_longs > 1 {
assert ( p . skip ( 5 ) . take ( 8 ) =~= p . subrange ( 5 , 13 ) ) ;
assert ( p . skip ( 5 ) . skip ( 8 ) =~= p . skip ( 13 ) ) ;
}
}
let mut num_entries = 0usize ;
for i in 0 .. num_entries_bytes invariant p . len ( ) >= off + i , cursor . rem ( ) == p . skip ( off + i ) , off == ( if pre_longs > 1 { 13int } else { 5int } ) , spec == decode_spec_v4 ( p , pre_longs , seed_hash_of ( expected_seed ) ) , spec is Some ==> 1 <= pre_longs <= 2 && p . len ( ) >= 5 && num_entries_bytes == p [ 1 ] && p . len ( ) >= off + num_entries_bytes ,
/*@C13.theta.v4_payload*/ num_entries == le_count_val ( p , off , i as nat ) , {
let entry_count_byte = cursor . read_u8 ( ) . vx_io ( "num_entries_byte" ) ? ;
assert (
/*@C14.theta_v4.shift*/ i < 8 ) ;
assert ( i < 8 ==> ( ( i as usize ) << 3 ) < 64 ) by ( bit_vector ) ;
proof {
assert ( i < 8 ==> ( ( i as usize ) << 3 ) == ( 8 * i ) as usize ) by ( bit_vector ) ;
assert ( p . skip ( off + i ) . skip ( 1 ) =~= p . skip ( off + i + 1 ) ) ;
}
num_entries |= ( entry_count_byte as usize ) << ( ( i as usize ) << 3 ) ;
}
let ghost q = p . skip ( off + num_entries_bytes ) ;
let ghost w = entry_bits as int ;
let ghost okw = 1 <= entry_bits <= 63 ;
let ghost d = dec_v4_deltas ( q , w , num_entries as nat ) ;
let mut i = 0usize ;
let mut entries = vx_zeroed_u64 ( num_entries , Ghost ( cursor . rem ( ) . len ( ) as int ) ) ;
proof {
assert ( w * 0 == 0 ) ;
assert ( q . skip ( 0 ) =~= q ) ;
}
while i + BLOCK_WIDTH <= num_entries invariant entries @ . len ( ) == num_entries , i <= num_entries , i % 8 == 0 , 8 * num_entries <= 0x7fff_ffff_ffff_ffff , w == entry_bits as int , okw == ( 1 <= entry_bits <= 63 ) , d == dec_v4_deltas ( q , w , num_entries as nat ) , spec == decode_spec_v4 ( p , pre_longs , seed_hash_of ( expected_seed ) ) , spec is Some ==> okw && q == p . skip ( off + num_entries_bytes ) && p . len ( ) >= off + num_entries_bytes && q . len ( ) >= v4_payload_len ( num_entries as int , w ) && num_entries == le_count_val ( p , off , num_entries_bytes as nat ) && off == ( if pre_longs == 2 { 13int } else { 5int } ) && p . len ( ) >= 5 && entry_bits == p [ 0 ] && num_entries_bytes == p [ 1 ] , w * ( i / 8 ) <= q . len ( ) , cursor . rem ( ) == q . skip ( w * ( i / 8 ) ) ,
/*@C13.theta.v4_payload*/ okw ==> forall | j : int | 0 <= j < i ==> entries @ [ j ] == # [ trigger ] d [ j ] , decreases num_entries - i {
proof {
if cursor . rem ( ) . len ( ) < w {
lemma_v4_block_short ( q , w , num_entries as int , i as int ) ;
}
else {
lemma_v4_block_step ( q , w , num_entries as int , i as int ) ;
}
}
let mut block = vx_zeroed_u8 ( entry_bits as usize , Ghost ( cursor . rem ( ) . len ( ) as int ) ) ;
cursor . read_exact ( & mut block ) . vx_io ( "delta_block" ) ? ;
let ghost before = entries @ ;
vx_unpack_block_at ( & mut entries , i , i + BLOCK_WIDTH , & block , entry_bits ) ;
proof {
assert ( block @ . take ( w ) =~= block @ ) ;
if okw {
assert forall | j : int | 0 <= j < i + 8 implies entries @ [ j ] == # [ trigger ] d [ j ] by {
if j >= i {
assert ( entries @ [ j ] == entries @ . subrange ( i as int , i + 8 ) [ j - i ] ) ;
assert ( d [ j ] == dec_v4_delta ( q , w , num_entries as int , j ) ) ;
}
else {
assert ( entries @ [ j ] == before [ j ] ) ;
}
}
}
}
i += BLOCK_WIDTH ;
}
if i < num_entries {
let rem = num_entries - i ;
proof {
assert ( rem * ( entry_bits as usize ) <= 7 * 255 ) by ( nonlinear_arith ) requires rem <= 7 , entry_bits <= 255 ;
assert (
/*@C13.theta.v4_payload*/ i == 8 * ( num_entries / 8 ) && rem == num_entries % 8 ) ;
assert ( rem * w == rem * ( entry_bits as usize ) ) ;
}
let bytes_needed = ( rem * entry_bits as usize ) . div_ceil ( 8 ) ;
let mut tail = vx_zeroed_u8 ( bytes_needed , Ghost ( cursor . rem ( ) . len ( ) as int ) ) ;
proof {
assert ( bytes_needed == packed_len ( rem as int , w ) ) ;
lemma_v4_tail ( q , w , num_entries as int ) ;
}
cursor . read_exact ( & mut tail ) . vx_io ( "delta_tail" ) ? ;
let mut unpacker = BitUnpacker :: new ( & tail ) ;
let mut vx_k = i ;
while vx_k < num_entries invariant i <= vx_k <= num_entries , entries @ . len ( ) == num_entries , rem == num_entries - i , rem < 8 , i == 8 * ( num_entries / 8 ) , rem == num_entries % 8 , unpacker . byte_bit_used < 8 , unpacker . bitpos ( ) == ( vx_k - i ) * entry_bits , unpacker . bytes @ . len ( ) == bytes_needed , 8 * bytes_needed >= rem * entry_bits , w == entry_bits as int , okw == ( 1 <= entry_bits <= 63 ) , d == dec_v4_deltas ( q , w , num_entries as nat ) , forall | j : int | 8 * ( num_entries / 8 ) <= j < num_entries ==> # [ trigger ] dec_v4_delta ( q , w , num_entries as int , j ) == stream_val ( unpacker . bytes @ , ( j - 8 * ( num_entries / 8 ) ) * w , w ) ,
/*@C13.theta.v4_payload*/ okw ==> forall | j : int | 0 <= j < vx_k ==> entries @ [ j ] == # [ trigger ] d [ j ] , decreases num_entries - vx_k {
proof {
lemma_mul_le ( vx_k - i + 1 , rem as int , entry_bits as int ) ;
assert ( ( vx_k - i + 1 ) * entry_bits == ( vx_k - i ) * entry_bits + entry_bits ) by ( nonlinear_arith ) ;
}
let ghost before = entries @ ;
entries [ vx_k ] = unpacker . unpack_value ( entry_bits ) ;
proof {
if okw {
let t = vx_k - i ;
assert ( d [ vx_k as int ] == dec_v4_delta ( q , w , num_entries as int , vx_k as int ) ) ;
assert forall | j : int | 0 <= j < vx_k + 1 implies entries @ [ j ] == # [ trigger ] d [ j ] by {
if j < vx_k {
assert ( entries @ [ j ] == before [ j ] ) ;
}
}
}
}
vx_k += 1 ;
}
}
proof {
if okw {
lemma_undelta_init ( entries @ , d ) ;
}
}
let mut previous = 0 ;
let mut vx_i2 = 0 ;
while vx_i2 < entries . len ( ) invariant vx_i2 <= entries @ . len ( ) , entries @ . len ( ) == num_entries , forall | j : int | 0 <= j < vx_i2 ==> valid_hash ( # [ trigger ] entries @ [ j ] , theta ) , spec == decode_spec_v4 ( p , pre_longs , seed_hash_of ( expected_seed ) ) , spec is Some ==> okw && all_valid ( undelta ( d ) , theta ) , d . len ( ) == num_entries ,
/*@C13.theta.v4_payload*/ okw ==> previous == psum ( d , vx_i2 as nat ) && undelta_state ( entries @ , d , vx_i2 as int ) , decreases entries @ . len ( ) - vx_i2 {
let ghost before = entries @ ;
let e = & mut entries [ vx_i2 ] ;
assert (
/*@C14.theta_v4.delta_overflow*/ * e + previous <= u64 :: MAX ) ;
proof {
if okw {
lemma_undelta_step ( before , before . update ( vx_i2 as int , ( before [ vx_i2 as int ] + previous ) as u64 ) , d , vx_i2 as int , previous ) ;
}
}
* e += previous ;
previous = * e ;
if * e == 0 || * e >= theta {
return Err ( Error :: deserial ( "corrupted: invalid retained hash value" ) ) ;
}
proof {
assert (
/*@C13.theta.v4_payload*/ entries @ =~= before . update ( vx_i2 as int , previous ) ) ;
}
vx_i2 += 1 ;
}
let ordered = ( flags & FLAGS_IS_ORDERED ) != 0 ;
proof {
if okw {
lemma_undelta_done ( entries @ , d ) ;
}
}
Ok ( Self {
entries , theta , seed_hash , ordered , empty , }
) }


}
// =====================================================================================================================
// C11 over the contracts: a verified client that serializes (v3) and parses the image back.  Not real code; it exists so that
// Verus composes C12 (serialize), lemma L (lemma_theta_v3_roundtrip) and C13 (deserialize_with_seed).
// =====================================================================================================================
fn c11_roundtrip_theta(a: &CompactThetaSketch, seed: u64) -> (b: CompactThetaSketch)
  requires a.wf(), a.entries@.len() <= 0x0fff_ffff, a.empty || a.seed_hash == seed_hash_of(seed),
  ensures /*@C11.theta.v3_roundtrip*/ b.img() == a.img(),
{
    let img = a.serialize();
    proof { lemma_theta_v3_roundtrip(a.img(), seed_hash_of(seed)); }
    match CompactThetaSketch::deserialize_with_seed(img.as_slice(), seed) {
        Ok(b) => b,
        Err(_) => { proof { assert(false); } c11_unreachable() }
    }
}
#[verifier::external_body] fn c11_unreachable() -> CompactThetaSketch requires false { unreachable!() }
// the same through serialize_compressed: serial version 4 when the sketch is ordered and worth compressing, version 3 otherwise
fn c11_roundtrip_theta_compressed(a: &CompactThetaSketch, seed: u64) -> (b: CompactThetaSketch)
  requires a.wf(), a.entries@.len() <= 0x0fff_ffff, a.seed_hash == seed_hash_of(seed),
  ensures /*@C11.theta.v4_roundtrip*/ b.img() == a.img(),
{
    let img = a.serialize_compressed();
    proof {
        if v4_suitable(a.img()) { lemma_theta_v4_roundtrip(img@, a.img(), seed_hash_of(seed)); }
        else { lemma_theta_v3_roundtrip(a.img(), seed_hash_of(seed)); }
    }
    match CompactThetaSketch::deserialize_with_seed(img.as_slice(), seed) {
        Ok(b) => b,
        Err(_) => { proof { assert(false); } c11_unreachable() }
    }
}
}
fn main(){}
