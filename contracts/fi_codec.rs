use vstd::prelude::*;
use vstd::std_specs::cmp::*;
use vstd::arithmetic::power2::*;
use std::hash::Hash;
use std::io;
use std::io::Cursor;
use std::io::Read;
verus! {
global size_of usize == 8;

// =====================================================================================================================
// Little-endian byte codecs (same definitions as units hll_codec8 / td_codec)
// =====================================================================================================================
spec fn le16_bytes(n: u16) -> Seq<u8> { seq![(n & 0xff) as u8, ((n >> 8) & 0xff) as u8] }
spec fn le32_bytes(n: u32) -> Seq<u8> { seq![(n & 0xff) as u8, ((n >> 8) & 0xff) as u8, ((n >> 16) & 0xff) as u8, ((n >> 24) & 0xff) as u8] }
spec fn le64_bytes(n: u64) -> Seq<u8> { le32_bytes((n & 0xffff_ffff) as u32) + le32_bytes((n >> 32) as u32) }
spec fn le16_val(b: Seq<u8>) -> u16 { (b[0] as u16) | ((b[1] as u16) << 8) }
spec fn le32_val(b: Seq<u8>) -> u32 { (b[0] as u32) | ((b[1] as u32) << 8) | ((b[2] as u32) << 16) | ((b[3] as u32) << 24) }
spec fn le64_val(b: Seq<u8>) -> u64 { (le32_val(b.subrange(0, 4)) as u64) | ((le32_val(b.subrange(4, 8)) as u64) << 32) }
proof fn lemma_le32_roundtrip(n: u32) ensures le32_val(le32_bytes(n)) == n, le32_bytes(n).len() == 4 {
    let b0 = (n & 0xff) as u8; let b1 = ((n >> 8) & 0xff) as u8; let b2 = ((n >> 16) & 0xff) as u8; let b3 = ((n >> 24) & 0xff) as u8;
    assert((b0 as u32) | ((b1 as u32) << 8) | ((b2 as u32) << 16) | ((b3 as u32) << 24) == n) by (bit_vector)
      requires b0 == (n & 0xff) as u8, b1 == ((n >> 8) & 0xff) as u8, b2 == ((n >> 16) & 0xff) as u8, b3 == ((n >> 24) & 0xff) as u8;
}
proof fn lemma_le64_roundtrip(n: u64) ensures le64_val(le64_bytes(n)) == n, le64_bytes(n).len() == 8 {
    let lo = (n & 0xffff_ffff) as u32; let hi = (n >> 32) as u32;
    lemma_le32_roundtrip(lo); lemma_le32_roundtrip(hi);
    assert(le64_bytes(n).subrange(0, 4) =~= le32_bytes(lo));
    assert(le64_bytes(n).subrange(4, 8) =~= le32_bytes(hi));
    assert((lo as u64) | ((hi as u64) << 32) == n) by (bit_vector) requires lo == (n & 0xffff_ffff) as u32, hi == (n >> 32) as u32;
}
#[verifier::external_body] fn vx_u16_from_le_bytes(b: [u8; 2]) -> (r: u16) ensures r == le16_val(b@) { u16::from_le_bytes(b) }
#[verifier::external_body] fn vx_u32_from_le_bytes(b: [u8; 4]) -> (r: u32) ensures r == le32_val(b@) { u32::from_le_bytes(b) }
#[verifier::external_body] fn vx_u64_from_le_bytes(b: [u8; 8]) -> (r: u64) ensures r == le64_val(b@) { u64::from_le_bytes(b) }
#[verifier::external_body] fn vx_u16_to_le_bytes(n: u16) -> (r: [u8; 2]) ensures r@ == le16_bytes(n) { n.to_le_bytes() }
#[verifier::external_body] fn vx_u32_to_le_bytes(n: u32) -> (r: [u8; 4]) ensures r@ == le32_bytes(n) { n.to_le_bytes() }
#[verifier::external_body] fn vx_u64_to_le_bytes(n: u64) -> (r: [u8; 8]) ensures r@ == le64_bytes(n) { n.to_le_bytes() }
pub assume_specification<T: std::cmp::PartialEq> [ <[T]>::contains ] (s: &[T], x: &T) -> (r: bool) ensures r == s@.contains(*x);

// list codecs (same as theta_codec / hll_codec_coupons)
spec fn enc_u64s(s: Seq<u64>) -> Seq<u8> decreases s.len() { if s.len() == 0 { Seq::empty() } else { enc_u64s(s.drop_last()) + le64_bytes(s.last()) } }
spec fn dec_u64_at(p: Seq<u8>, i: int) -> u64 { le64_val(p.subrange(8 * i, 8 * i + 8)) }
spec fn dec_u64s(p: Seq<u8>, n: int) -> Seq<u64> { Seq::new(n as nat, |i: int| dec_u64_at(p, i)) }
proof fn lemma_enc_u64s_len(s: Seq<u64>) ensures enc_u64s(s).len() == 8 * s.len() decreases s.len() {
    if s.len() > 0 { lemma_enc_u64s_len(s.drop_last()); lemma_le64_roundtrip(s.last()); }
}
proof fn lemma_dec_enc_u64s(s: Seq<u64>, tail: Seq<u8>, i: int)
  requires 0 <= i < s.len()
  ensures dec_u64_at(enc_u64s(s) + tail, i) == s[i]
  decreases s.len()
{
    lemma_enc_u64s_len(s); lemma_enc_u64s_len(s.drop_last()); lemma_le64_roundtrip(s.last());
    let e = enc_u64s(s) + tail;
    if i == s.len() - 1 {
        assert(e.subrange(8 * i, 8 * i + 8) =~= le64_bytes(s.last()));
    } else {
        lemma_dec_enc_u64s(s.drop_last(), le64_bytes(s.last()) + tail, i);
        assert(enc_u64s(s.drop_last()) + (le64_bytes(s.last()) + tail) =~= e);
    }
}
proof fn lemma_enc_u64s_at(s: Seq<u64>, pre: Seq<u8>, tail: Seq<u8>, i: int)
  requires 0 <= i < s.len()
  ensures ({ let e = pre + enc_u64s(s) + tail; let o = pre.len() + 8 * i; e.subrange(o, o + 8) == le64_bytes(s[i]) })
  decreases s.len()
{
    lemma_enc_u64s_len(s); lemma_enc_u64s_len(s.drop_last()); lemma_le64_roundtrip(s.last());
    let e = pre + enc_u64s(s) + tail; let o = pre.len() + 8 * i;
    if i == s.len() - 1 {
        assert(e.subrange(o, o + 8) =~= le64_bytes(s.last()));
    } else {
        let t2 = le64_bytes(s.last()) + tail;
        lemma_enc_u64s_at(s.drop_last(), pre, t2, i);
        assert(pre + enc_u64s(s.drop_last()) + t2 =~= e);
    }
}
proof fn lemma_skip_take(b: Seq<u8>, off: int, n: int)
  requires 0 <= off, 0 <= n, off + n <= b.len()
  ensures b.skip(off).take(n) == b.subrange(off, off + n), b.skip(off).skip(n) == b.skip(off + n), b.skip(off).len() == b.len() - off
{
    assert(b.skip(off).take(n) =~= b.subrange(off, off + n));
    assert(b.skip(off).skip(n) =~= b.skip(off + n));
}

// the item codec is a parameter of serialize_inner / deserialize_inner (function pointers): an uninterpreted list codec
// (the LIST codec is the fold of an uninterpreted ITEM codec: enc_item = the bytes `serialize_value` appends for one item, dec_item = the
// item `deserialize_value` reads from the head of the remaining bytes and the number of bytes it consumes; None = it fails)
pub uninterp spec fn enc_item<T>(x: T) -> Seq<u8>;
pub uninterp spec fn dec_item<T>(rem: Seq<u8>) -> Option<(T, int)>;
pub open spec fn enc_items<T>(items: Seq<T>) -> Seq<u8> decreases items.len() {
    if items.len() == 0 { Seq::empty() } else { enc_items(items.drop_last()) + enc_item(items.last()) }
}
pub open spec fn dec_items<T>(rem: Seq<u8>, n: int) -> Option<Seq<T>> decreases n {
    if n <= 0 { Some(Seq::empty()) } else {
        match dec_item::<T>(rem) {
            None => None,
            Some((x, k)) => match dec_items::<T>(rem.skip(k), n - 1) { None => None, Some(t) => Some(seq![x] + t) },
        }
    }
}
// the law a (writer, reader) pair of item codecs obeys: reading n items back from what the writer produced for n items
spec fn item_codec_law<T>() -> bool { forall|s: Seq<T>| #[trigger] dec_items::<T>(enc_items(s), s.len() as int) == Some(s) }

// =====================================================================================================================
// error / io shims
// =====================================================================================================================
#[verifier::external_type_specification]
#[verifier::external_body]
pub struct ExIoError(std::io::Error);

struct Error { k: u8 }
impl Error {
    #[verifier::external_body] fn deserial(msg: impl Into<String>) -> Error { Error { k: 2 } }
    #[verifier::external_body] fn invalid_family(expected: u8, actual: u8, name: &'static str) -> Error { Error { k: 3 } }
    #[verifier::external_body] fn invalid_preamble_longs(expected: &[u8], actual: u8) -> Error { Error { k: 4 } }
}
trait VxIo<T> { fn vx_io(self, tag: &'static str) -> Result<T, Error>; }
impl<T> VxIo<T> for Result<T, std::io::Error> {
  // R2: `.map_err(insufficient_data(tag))` and `.map_err(|_| Error::insufficient_data(format!(..)))`
  #[verifier::external_body]
  fn vx_io(self, tag: &'static str) -> (r: Result<T, Error>)
    ensures self matches Ok(v) ==> r == Ok::<T, Error>(v), self is Err ==> r is Err
  { unimplemented!() }
}
// R7c: `key.clone()` of an item whose Clone is structural (assumption, like Eq/Hash)
#[verifier::external_body]
fn vx_clone<T: Clone>(x: &T) -> (r: T) ensures r == *x { x.clone() }

// C14 allocation contract (R8): bounded by the input length plus the largest map a VALIDATED lg_max (<= 40 is not enough; the
// counters read so far bound it): n counters of 8 bytes must come out of the image
#[verifier::external_body]
fn vx_alloc_raw_u64s(n: usize, input_len: usize) -> (r: Vec<u64>)
  requires /*@C14.fi.alloc_bounded*/ n * 8 <= 16 * input_len
  ensures r@.len() == 0
{ Vec::with_capacity(n) }
// Obligations that FAIL on the current /repo sit in thin verified shims around the offending call (not in the parser): the failure is a
// quick definite one in a tiny context, and the parser verifies cleanly under the stated assumption.  When the parser is repaired
// (the field validated before the call) the `requires` moves back to the call site.
// `Vec::with_capacity(active_items)` in deserialize_inner: active_items is an unvalidated u32 of the image
fn vx_alloc_u64s(n: usize, input_len: usize) -> (r: Vec<u64>)
  ensures r@.len() == 0
{ vx_alloc_raw_u64s(n, input_len) }

// =====================================================================================================================
// codec/encode.rs, codec/decode.rs (real bodies; same contracts as in unit hll_codec8)
// =====================================================================================================================
struct SketchBytes {
    bytes: Vec<u8>,
}

impl SketchBytes {
    spec fn view(&self) -> Seq<u8> { self.bytes@ }

    fn with_capacity(capacity: usize) -> (r: Self) ensures r@ == Seq::<u8>::empty() {
        Self {
            bytes: Vec::with_capacity(capacity),
        }
    }

    fn into_bytes(self) -> (r: Vec<u8>) ensures r@ == self@ {
        self.bytes
    }

    fn write(&mut self, buf: &[u8]) ensures final(self)@ == old(self)@ + buf@ {
        self.bytes.extend_from_slice(buf);
    }

    fn write_u8(&mut self, n: u8) ensures final(self)@ == old(self)@.push(n) {
        self.bytes.push(n);
    }

    fn write_u16_le(&mut self, n: u16) ensures final(self)@ == old(self)@ + le16_bytes(n) {
        self.write(&vx_u16_to_le_bytes(n));
    }

    fn write_u32_le(&mut self, n: u32) ensures final(self)@ == old(self)@ + le32_bytes(n) {
        self.write(&vx_u32_to_le_bytes(n));
    }

    fn write_u64_le(&mut self, n: u64) ensures final(self)@ == old(self)@ + le64_bytes(n) {
        self.write(&vx_u64_to_le_bytes(n));
    }
}

#[verifier::external_body]
struct SketchSlice<'a> {
    slice: Cursor<&'a [u8]>,
}

impl SketchSlice<'_> {
    // the std Cursor is abstracted by the bytes it was created over and the read position (no Seq::skip/take chains: the parsers
    // reason about plain offsets)
    uninterp spec fn data(&self) -> Seq<u8>;
    uninterp spec fn pos(&self) -> int;
    spec fn inv(&self) -> bool { 0 <= self.pos() <= self.data().len() }
    spec fn rem(&self) -> Seq<u8> { self.data().skip(self.pos()) }
    // a read of n bytes: succeeds iff they are there, then returns bytes [pos, pos+n) and advances
    spec fn reads(pre: Self, post: Self, n: int) -> bool { post.data() == pre.data() && post.inv() && post.pos() == pre.pos() + n }
    spec fn fails(pre: Self, post: Self) -> bool { post.data() == pre.data() && post.inv() }

    #[verifier::external_body]
    fn new(slice: &[u8]) -> (r: SketchSlice<'_>) ensures r.data() == slice@, r.pos() == 0, r.inv() {
        unimplemented!()
    }

    #[verifier::external_body]
    fn read_exact(&mut self, buf: &mut [u8]) -> (r: io::Result<()>)
      requires old(self).inv()
      ensures
        old(self).pos() + old(buf)@.len() <= old(self).data().len() ==> (r is Ok && final(buf)@ == old(self).data().subrange(old(self).pos(), old(self).pos() + old(buf)@.len()) && Self::reads(*old(self), *final(self), old(buf)@.len() as int)),
        old(self).pos() + old(buf)@.len() > old(self).data().len() ==> r is Err && Self::fails(*old(self), *final(self)),
        final(buf)@.len() == old(buf)@.len(),
    {
        unimplemented!()
    }

    fn read_u8(&mut self) -> (r: io::Result<u8>)
      requires old(self).inv()
      ensures
        old(self).pos() + 1 <= old(self).data().len() ==> (r matches Ok(v) && v == old(self).data()[old(self).pos()] && Self::reads(*old(self), *final(self), 1)),
        old(self).pos() + 1 > old(self).data().len() ==> r is Err && Self::fails(*old(self), *final(self)),
    {
        let mut buf = [0u8; 1];
        self.read_exact(&mut buf)?;
        Ok(buf[0])
    }

    fn read_u16_le(&mut self) -> (r: io::Result<u16>)
      requires old(self).inv()
      ensures
        old(self).pos() + 2 <= old(self).data().len() ==> (r matches Ok(v) && v == le16_val(old(self).data().subrange(old(self).pos(), old(self).pos() + 2)) && Self::reads(*old(self), *final(self), 2)),
        old(self).pos() + 2 > old(self).data().len() ==> r is Err && Self::fails(*old(self), *final(self)),
    {
        let mut buf = [0u8; 2];
        self.read_exact(&mut buf)?;
        Ok(vx_u16_from_le_bytes(buf))
    }

    fn read_u32_le(&mut self) -> (r: io::Result<u32>)
      requires old(self).inv()
      ensures
        old(self).pos() + 4 <= old(self).data().len() ==> (r matches Ok(v) && v == le32_val(old(self).data().subrange(old(self).pos(), old(self).pos() + 4)) && Self::reads(*old(self), *final(self), 4)),
        old(self).pos() + 4 > old(self).data().len() ==> r is Err && Self::fails(*old(self), *final(self)),
    {
        let mut buf = [0u8; 4];
        self.read_exact(&mut buf)?;
        Ok(vx_u32_from_le_bytes(buf))
    }

    fn read_u64_le(&mut self) -> (r: io::Result<u64>)
      requires old(self).inv()
      ensures
        old(self).pos() + 8 <= old(self).data().len() ==> (r matches Ok(v) && v == le64_val(old(self).data().subrange(old(self).pos(), old(self).pos() + 8)) && Self::reads(*old(self), *final(self), 8)),
        old(self).pos() + 8 > old(self).data().len() ==> r is Err && Self::fails(*old(self), *final(self)),
    {
        let mut buf = [0u8; 8];
        self.read_exact(&mut buf)?;
        Ok(vx_u64_from_le_bytes(buf))
    }
}

// codec/assert.rs, codec/family.rs
fn ensure_serial_version_is(expected: u8, actual: u8) -> (r: Result<(), Error>)
  ensures r is Ok <==> expected == actual
{
    if expected == actual {
        Ok(())
    } else {
        Err(Error::deserial(format!(
            "unsupported serial version: expected {expected}, got {actual}"
        )))
    }
}

fn ensure_preamble_longs_in(expected: &[u8], actual: u8) -> (r: Result<(), Error>)
  ensures r is Ok <==> expected@.contains(actual)
{
    if expected.contains(&actual) {
        Ok(())
    } else {
        Err(Error::invalid_preamble_longs(expected, actual))
    }
}

struct Family {
    id: u8,
    name: &'static str,
    min_pre_longs: u8,
    max_pre_longs: u8,
}

impl Family {
    const FREQUENCY: Family = Family {
        id: 10,
        name: "FREQUENCY",
        min_pre_longs: 1,
        max_pre_longs: 4,
    };

    fn validate_id(&self, family_id: u8) -> (r: Result<(), Error>)
      ensures r is Ok <==> family_id == self.id
    {
        if family_id != self.id {
            Err(Error::invalid_family(self.id, family_id, self.name))
        } else {
            Ok(())
        }
    }
}

// frequencies/serialization.rs
const SERIAL_VERSION: u8 = 1;
const PREAMBLE_LONGS_EMPTY: u8 = 1;
const PREAMBLE_LONGS_NONEMPTY: u8 = 4;
const EMPTY_FLAG_MASK: u8 = 5;

// =====================================================================================================================
// the map, at the level the codec needs: active slots in table order, and the key -> counter function
// =====================================================================================================================
#[verifier::reject_recursive_types(T)]
struct ReversePurgeItemHashMap<T> {
    lg_length: u8,
    load_threshold: usize,
    keys: Vec<Option<T>>,
    values: Vec<u64>,
    states: Vec<u16>,
    num_active: usize,
}

spec fn eq_law<T: Eq>() -> bool { <T as PartialEqSpec>::obeys_eq_spec() && forall|a: T, b: T| #[trigger] a.eq_spec(&b) == (a == b) }
// counters / keys of the active slots among the first n, in table order
spec fn act_vals(vs: Seq<u64>, st: Seq<u16>, n: int) -> Seq<u64> decreases n {
    if n <= 0 { Seq::empty() } else if st[n - 1] > 0 { act_vals(vs, st, n - 1).push(vs[n - 1]) } else { act_vals(vs, st, n - 1) }
}
spec fn act_keys<T>(ks: Seq<Option<T>>, st: Seq<u16>, n: int) -> Seq<T> decreases n {
    if n <= 0 { Seq::empty() } else if st[n - 1] > 0 { act_keys(ks, st, n - 1).push(ks[n - 1]->0) } else { act_keys(ks, st, n - 1) }
}
proof fn lemma_act_len<T>(ks: Seq<Option<T>>, vs: Seq<u64>, st: Seq<u16>, n: int)
  requires 0 <= n
  ensures act_vals(vs, st, n).len() == act_keys(ks, st, n).len(), act_vals(vs, st, n).len() <= n,
    act_vals(vs, st, n).len() == 0 ==> forall|p: int| 0 <= p < n ==> st[p] == 0,
  decreases n
{
    if n > 0 { lemma_act_len(ks, vs, st, n - 1); }
}
// the counter the rows (keys[i], vals[i]) give to k
spec fn rows_val<T>(keys: Seq<T>, vals: Seq<u64>, k: T) -> int decreases keys.len() {
    if keys.len() == 0 { 0 } else { rows_val(keys.drop_last(), vals.drop_last(), k) + (if keys.last() == k { vals.last() as int } else { 0 }) }
}
spec fn fholds<T>(ks: Seq<Option<T>>, st: Seq<u16>, k: T) -> bool { exists|i: int| 0 <= i < st.len() && st[i] > 0 && ks[i] == Some(k) }
spec fn fidx<T>(ks: Seq<Option<T>>, st: Seq<u16>, k: T) -> int { choose|i: int| 0 <= i < st.len() && st[i] > 0 && ks[i] == Some(k) }
spec fn fval<T>(ks: Seq<Option<T>>, vs: Seq<u64>, st: Seq<u16>, k: T) -> u64 { if fholds(ks, st, k) { vs[fidx(ks, st, k)] } else { 0 } }
spec fn fdistinct<T>(ks: Seq<Option<T>>, st: Seq<u16>) -> bool {
    forall|p: int, q: int| 0 <= p < st.len() && 0 <= q < st.len() && p != q && st[p] > 0 && st[q] > 0 ==> ks[p] != ks[q]
}

impl<T> ReversePurgeItemHashMap<T> {
    // the part of the map invariant of unit fi_map the codec relies on
    spec fn mwf(&self) -> bool {
        &&& 1 <= self.lg_length <= 40 && self.keys@.len() == pow2(self.lg_length as nat) && self.values@.len() == self.keys@.len() && self.states@.len() == self.keys@.len()
        &&& forall|p: int| 0 <= p < self.states@.len() && self.states@[p] > 0 ==> (#[trigger] self.keys@[p]) is Some
        &&& fdistinct(self.keys@, self.states@)
        &&& self.num_active == act_vals(self.values@, self.states@, self.states@.len() as int).len()
    }
    spec fn val(&self, k: T) -> u64 { fval(self.keys@, self.values@, self.states@, k) }
    spec fn holds(&self, k: T) -> bool { fholds(self.keys@, self.states@, k) }
    spec fn avals(&self) -> Seq<u64> { act_vals(self.values@, self.states@, self.states@.len() as int) }
    spec fn akeys(&self) -> Seq<T> { act_keys(self.keys@, self.states@, self.states@.len() as int) }

    fn lg_length(&self) -> (r: u8) ensures r == self.lg_length {
        self.lg_length
    }

    fn num_active(&self) -> (r: usize) ensures r == self.num_active {
        self.num_active
    }

    fn active_keys(&self) -> (r: Vec<T>)
    where
        T: Clone,
      requires self.mwf()
      ensures /*@C12.fi.rows_in_table_order*/ r@ == self.akeys()
    {
        proof { lemma_act_len(self.keys@, self.values@, self.states@, self.states@.len() as int); }
        if self.num_active == 0 {
            return vec![];
        }
        let mut keys = Vec::with_capacity(self.num_active);
        for i in 0..self.keys.len()
          invariant self.mwf(), keys@ == act_keys(self.keys@, self.states@, i as int)
        {
            if self.states[i] > 0 {
                if let Some(key) = self.keys[i].as_ref() {
                    keys.push(vx_clone(key));
                }
            }
        }
        keys
    }

    fn active_values(&self) -> (r: Vec<u64>)
      requires self.mwf()
      ensures /*@C12.fi.rows_in_table_order*/ r@ == self.avals()
    {
        proof { lemma_act_len(self.keys@, self.values@, self.states@, self.states@.len() as int); }
        if self.num_active == 0 {
            return vec![];
        }
        let mut values = Vec::with_capacity(self.num_active);
        for i in 0..self.values.len()
          invariant self.mwf(), values@ == act_vals(self.values@, self.states@, i as int)
        {
            if self.states[i] > 0 {
                values.push(self.values[i]);
            }
        }
        values
    }
}


// std iterator leaf of deserialize_inner: `items.into_iter().zip(values)` yields the pairs (items[i], values[i]) in order
spec fn zip_seq<T>(a: Seq<T>, b: Seq<u64>) -> Seq<(T, u64)> { Seq::new(if a.len() <= b.len() { a.len() } else { b.len() }, |i: int| (a[i], b[i])) }
#[verifier::external_body]
#[verifier::reject_recursive_types(T)]
struct VxZip<T> { it: std::iter::Zip<std::vec::IntoIter<T>, std::vec::IntoIter<u64>> }
impl<T> VxZip<T> {
    uninterp spec fn all(&self) -> Seq<(T, u64)>;     // every pair the iterator was created over
    uninterp spec fn idx(&self) -> int;               // how many have been yielded
    #[verifier::external_body]
    fn next(&mut self) -> (r: Option<(T, u64)>)
      requires 0 <= old(self).idx() <= old(self).all().len()
      ensures final(self).all() == old(self).all(),
        old(self).idx() == old(self).all().len() ==> r is None && final(self).idx() == old(self).idx(),
        old(self).idx() < old(self).all().len() ==> r == Some(old(self).all()[old(self).idx()]) && final(self).idx() == old(self).idx() + 1,
    { self.it.next() }
}
#[verifier::external_body]
fn vx_zip<T>(items: Vec<T>, values: Vec<u64>) -> (r: VxZip<T>)
  ensures r.all() == zip_seq(items@, values@), r.idx() == 0
{ VxZip { it: items.into_iter().zip(values) } }

proof fn lemma_rows_val_absent<T>(keys: Seq<T>, vals: Seq<u64>, k: T)
  requires !keys.contains(k), keys.len() == vals.len()
  ensures rows_val(keys, vals, k) == 0
  decreases keys.len()
{
    if keys.len() > 0 {
        assert(keys[keys.len() - 1] != k);
        assert forall|x: T| keys.drop_last().contains(x) implies keys.contains(x) by {
            let i = choose|i: int| 0 <= i < keys.drop_last().len() && keys.drop_last()[i] == x; assert(keys[i] == x);
        }
        lemma_rows_val_absent(keys.drop_last(), vals.drop_last(), k);
    }
}
proof fn lemma_rows_val_step<T>(keys: Seq<T>, vals: Seq<u64>, j: int, k: T)
  requires 0 <= j < keys.len(), keys.len() == vals.len()
  ensures rows_val(keys.take(j + 1), vals.take(j + 1), k) == rows_val(keys.take(j), vals.take(j), k) + (if keys[j] == k { vals[j] as int } else { 0 })
{
    assert(keys.take(j + 1).drop_last() =~= keys.take(j));
    assert(vals.take(j + 1).drop_last() =~= vals.take(j));
}
proof fn lemma_sum_step(vals: Seq<u64>, j: int)
  requires 0 <= j < vals.len()
  ensures sum_u64(vals.take(j + 1)) == sum_u64(vals.take(j)) + vals[j], sum_u64(vals.take(j)) >= 0
  decreases j
{
    assert(vals.take(j + 1).drop_last() =~= vals.take(j));
    if j > 0 { lemma_sum_step(vals, j - 1); }
}
proof fn lemma_sum_nonneg(s: Seq<u64>) ensures sum_u64(s) >= 0 decreases s.len() { if s.len() > 0 { lemma_sum_nonneg(s.drop_last()); } }
// positive counters: a zero sum means no counter at all
proof fn lemma_sum_pos(s: Seq<u64>) requires vals_pos(s) ensures s.len() > 0 ==> sum_u64(s) > 0 {
    reveal(vals_pos);
    if s.len() > 0 { lemma_sum_nonneg(s.drop_last()); assert(s.last() == s[s.len() - 1]); }
}
proof fn lemma_sum_mono(vals: Seq<u64>, j: int)
  requires 0 <= j <= vals.len()
  ensures sum_u64(vals.take(j)) <= sum_u64(vals)
  decreases vals.len() - j
{
    if j < vals.len() { lemma_sum_step(vals, j); lemma_sum_mono(vals, j + 1); } else { assert(vals.take(j) =~= vals); }
}
proof fn lemma_take_contains<T>(keys: Seq<T>, j: int, k: T)
  requires 0 <= j < keys.len()
  ensures keys.take(j + 1).contains(k) == (keys.take(j).contains(k) || keys[j] == k), distinct(keys) ==> !keys.take(j).contains(keys[j])
{
    reveal(distinct);
    let a = keys.take(j); let a1 = keys.take(j + 1);
    if a1.contains(k) {
        let i = choose|i: int| 0 <= i < a1.len() && a1[i] == k;
        if i < j { assert(a[i] == k); }
    }
    if a.contains(k) {
        let i = choose|i: int| 0 <= i < a.len() && a[i] == k; assert(a1[i] == k);
    }
    if keys[j] == k { assert(a1[j] == k); }
    if distinct(keys) && a.contains(keys[j]) {
        let i = choose|i: int| 0 <= i < a.len() && a[i] == keys[j]; assert(keys[i] == keys[j]);
    }
}

// what `update_with_count` does to the map while it has room (no resize, no purge): counter(item) += count
spec fn upd_exact<T>(m0: ReversePurgeItemHashMap<T>, m1: ReversePurgeItemHashMap<T>, item: T, count: u64) -> bool {
    &&& m1.lg_length == m0.lg_length
    &&& forall|k: T| m1.holds(k) == (m0.holds(k) || k == item)
    &&& forall|k: T| m1.val(k) == (if k == item { (m0.val(k) + count) as u64 } else { m0.val(k) })
    &&& m1.num_active == m0.num_active + (if m0.holds(item) { 0int } else { 1int })
}
// the state of deserialize_inner's reload loop after j rows
#[verifier::opaque]
spec fn loaded<T>(m: ReversePurgeItemHashMap<T>, sw: u64, off: u64, ks: Seq<T>, vs: Seq<u64>, j: int, lg: u8) -> bool {
    &&& m.lg_length == lg && off == 0 && m.num_active == j && sw == sum_u64(vs.take(j))
    &&& forall|k: T| m.holds(k) == ks.take(j).contains(k)
    &&& forall|k: T| m.val(k) == rows_val(ks.take(j), vs.take(j), k)
}
proof fn lemma_loaded_init<T>(m: ReversePurgeItemHashMap<T>, ks: Seq<T>, vs: Seq<u64>, lg: u8)
  requires m.lg_length == lg, m.num_active == 0, forall|k: T| !m.holds(k)
  ensures loaded(m, 0, 0, ks, vs, 0, lg)
{
    reveal(loaded);
    assert(vs.take(0) =~= Seq::<u64>::empty());
    assert(ks.take(0) =~= Seq::<T>::empty());
    assert(sum_u64(vs.take(0)) == 0);
    assert forall|k: T| m.holds(k) == ks.take(0).contains(k) by { }
    assert forall|k: T| m.val(k) == rows_val(ks.take(0), vs.take(0), k) by { assert(!m.holds(k)); }
}
proof fn lemma_loaded_step<T>(m0: ReversePurgeItemHashMap<T>, sw0: u64, m1: ReversePurgeItemHashMap<T>, ks: Seq<T>, vs: Seq<u64>, j: int, lg: u8, cap: int)
  requires loaded(m0, sw0, 0, ks, vs, j, lg), 0 <= j < ks.len(), ks.len() == vs.len(), distinct(ks), vals_pos(vs), ks.len() <= cap, sum_u64(vs) <= u64::MAX,
  ensures
    // the preconditions of the exact update hold ...
    !m0.holds(ks[j]), m0.num_active < cap, vs[j] > 0, sw0 + vs[j] == sum_u64(vs.take(j + 1)), sum_u64(vs.take(j + 1)) <= sum_u64(vs),
    // ... and it re-establishes the loop state
    upd_exact(m0, m1, ks[j], vs[j]) ==> loaded(m1, (sw0 + vs[j]) as u64, 0, ks, vs, j + 1, lg),
{
    reveal(loaded); reveal(vals_pos);
    lemma_sum_step(vs, j); lemma_sum_mono(vs, j + 1);
    lemma_take_contains(ks, j, ks[j]);
    lemma_rows_val_absent(ks.take(j), vs.take(j), ks[j]);
    if upd_exact(m0, m1, ks[j], vs[j]) {
        assert forall|k: T| m1.holds(k) == ks.take(j + 1).contains(k) by { lemma_take_contains(ks, j, k); }
        assert(m0.val(ks[j]) == 0);
        assert forall|k: T| m1.val(k) == rows_val(ks.take(j + 1), vs.take(j + 1), k) by { lemma_rows_val_step(ks, vs, j, k); }
        assert(m1.num_active == j + 1);
        assert((sw0 + vs[j]) as u64 == sum_u64(vs.take(j + 1)));
    }
}
proof fn lemma_loaded_final<T>(m: ReversePurgeItemHashMap<T>, sw: u64, off: u64, ks: Seq<T>, vs: Seq<u64>, lg: u8)
  requires loaded(m, sw, off, ks, vs, ks.len() as int, lg), ks.len() == vs.len()
  ensures off == 0, m.lg_length == lg, m.num_active == ks.len(), sw == sum_u64(vs), forall|k: T| m.holds(k) == ks.contains(k), forall|k: T| m.val(k) == rows_val(ks, vs, k)
{
    reveal(loaded);
    assert(ks.take(ks.len() as int) =~= ks); assert(vs.take(vs.len() as int) =~= vs);
}

const LG_MIN_MAP_SIZE: u8 = 3;

#[verifier::reject_recursive_types(T)]
struct FrequentItemsSketch<T> {
    lg_max_map_size: u8,
    cur_map_cap: usize,
    offset: u64,
    stream_weight: u64,
    sample_size: usize,
    hash_map: ReversePurgeItemHashMap<T>,
}

// =====================================================================================================================
// FORMAT SPEC (DESIGN.md Appendix A, "Frequent items"), family 10, serVer 1.  Written from the published layout.
//   0 preLongs (1 empty, 4) | 1 serVer=1 | 2 famID=10 | 3 lgMaxMapSize | 4 lgCurMapSize | 5 flags: EMPTY = bit 2, readers also
//   accept bit 0; Java's EMPTY_FLAG_MASK = 5 sets both (recorded correction of Appendix A) | 6-7 unused
//   8 activeItems u32 | 12 unused | 16 streamWeight u64 | 24 offset u64 | 32 activeItems u64 counters | then the items
//   An EMPTY image is preLongs = 1 long = 8 bytes; it denotes the sketch that never saw weight (stream weight 0).  A sketch whose last
//   purge emptied the map is a preLongs = 4 image with activeItems = 0 (it still has a stream weight and an offset).
// =====================================================================================================================
ghost struct FiImg<T> {
    lg_max: u8,
    lg_cur: u8,
    sw: u64,            // stream weight
    off: u64,           // offset (maximum error)
    vals: Seq<u64>,     // counters, row i belongs to keys[i]
    keys: Seq<T>,
}
spec fn enc_fi_empty(lg_max: u8, lg_cur: u8) -> Seq<u8> { seq![1u8, 1u8, 10u8, lg_max, lg_cur, 5u8, 0u8, 0u8] }
spec fn enc_fi_nonempty<T>(v: FiImg<T>) -> Seq<u8> {
    seq![4u8, 1u8, 10u8, v.lg_max, v.lg_cur, 0u8, 0u8, 0u8] + le32_bytes(v.vals.len() as u32) + le32_bytes(0) + le64_bytes(v.sw) + le64_bytes(v.off)
      + enc_u64s(v.vals) + enc_items(v.keys)
}
// spec decoder
spec fn hdr_pre(b: Seq<u8>) -> u8 { b[0] & 0x3f }
spec fn hdr_empty(b: Seq<u8>) -> bool { b[5] & 5 != 0 }
spec fn hdr_n(b: Seq<u8>) -> int { le32_val(b.subrange(8, 12)) as int }
spec fn hdr_sw(b: Seq<u8>) -> u64 { le64_val(b.subrange(16, 24)) }
spec fn hdr_off(b: Seq<u8>) -> u64 { le64_val(b.subrange(24, 32)) }
spec fn dec_val_at(b: Seq<u8>, i: int) -> u64 { le64_val(b.subrange(32 + 8 * i, 40 + 8 * i)) }
spec fn dec_vals_n(b: Seq<u8>, n: int) -> Seq<u64> { Seq::new(n as nat, |i: int| dec_val_at(b, i)) }
spec fn dec_vals(b: Seq<u8>) -> Seq<u64> { dec_vals_n(b, hdr_n(b)) }
spec fn dec_keys<T>(b: Seq<u8>) -> Option<Seq<T>> { dec_items::<T>(b.skip(32 + 8 * hdr_n(b)), hdr_n(b)) }
spec fn lgmax3(l: u8) -> u8 { if l >= 3 { l } else { 3 } }
spec fn cap_of_lg(l: u8) -> int { (pow2(l as nat) * 3 / 4) as int }
#[verifier::opaque] spec fn distinct<T>(s: Seq<T>) -> bool { forall|i: int, j: int| 0 <= i < j < s.len() ==> s[i] != s[j] }
#[verifier::opaque] spec fn vals_pos(s: Seq<u64>) -> bool { forall|i: int| 0 <= i < s.len() ==> #[trigger] s[i] > 0 }
spec fn sum_u64(s: Seq<u64>) -> int decreases s.len() { if s.len() == 0 { 0 } else { sum_u64(s.drop_last()) + s.last() } }
spec fn fi_hdr_ok(b: Seq<u8>) -> bool { b.len() >= 8 && b[1] == 1 && b[2] == 10 && b[4] <= b[3] <= 40 }
// a valid image: what a conforming writer emits for a sketch state
spec fn valid_fi_image<T>(b: Seq<u8>) -> bool {
    &&& fi_hdr_ok(b)
    &&& hdr_empty(b) ==> hdr_pre(b) == 1
    &&& !hdr_empty(b) ==> {
        &&& hdr_pre(b) == 4 && b.len() >= 32 + 8 * hdr_n(b)
        &&& dec_keys::<T>(b) matches Some(ks) && ks.len() == hdr_n(b) && distinct(ks)
        &&& vals_pos(dec_vals(b))
        &&& hdr_n(b) <= cap_of_lg(lgmax3(b[4]))
        &&& sum_u64(dec_vals(b)) + hdr_off(b) <= hdr_sw(b)
    }
}

impl<T: Eq + Hash> FrequentItemsSketch<T> {
    // the part of the sketch invariant (unit fi_sketch) the codec relies on / must establish
    // the sketch invariant of unit fi_sketch (C07: probe runs, positive counters, weights, sample size ...): abstract here; established by
    // with_lg_map_sizes and kept by update_with_count (both PROVED in fi_sketch, which also proves that it implies cwf())
    uninterp spec fn wf(&self) -> bool;
    spec fn cwf(&self) -> bool {
        &&& eq_law::<T>() && self.hash_map.mwf()
        &&& 3 <= self.hash_map.lg_length <= self.lg_max_map_size <= 40
        &&& self.cur_map_cap == cap_of_lg(self.hash_map.lg_length)
        &&& self.hash_map.num_active <= self.cur_map_cap
    }
    // counters plus offset never exceed the stream weight (so `get + offset`, `stream_weight += count` cannot overflow while the
    // total fits): the clause of fi_sketch::wf the parser has to validate
    spec fn wf_weights(&self) -> bool { sum_u64(self.hash_map.avals()) + self.offset <= self.stream_weight }
    spec fn view(&self) -> FiImg<T> {
        FiImg { lg_max: self.lg_max_map_size, lg_cur: self.hash_map.lg_length, sw: self.stream_weight, off: self.offset, vals: self.hash_map.avals(), keys: self.hash_map.akeys() }
    }

    fn is_empty(&self) -> (r: bool) ensures r == (self.hash_map.num_active == 0) {
        self.hash_map.num_active() == 0
    }

    fn num_active_items(&self) -> (r: usize) ensures r == self.hash_map.num_active {
        self.hash_map.num_active()
    }

    // by contract (unit fi_sketch verifies the body against the C07 model; this is the codec-level restatement)
    #[verifier::external_body]
    fn with_lg_map_sizes(lg_max_map_size: u8, lg_cur_map_size: u8) -> (r: Self)
      requires eq_law::<T>(), /*@C14.fi.lg_range*/ lg_max_map_size <= 40, lg_cur_map_size <= lg_max_map_size || lg_cur_map_size <= LG_MIN_MAP_SIZE,
      ensures r.wf(), r.cwf(), r.lg_max_map_size == lgmax3(lg_max_map_size), r.hash_map.lg_length == lgmax3(lg_cur_map_size), r.hash_map.num_active == 0,
        r.stream_weight == 0, r.offset == 0, forall|k: T| !r.hash_map.holds(k),
    { unimplemented!() }

    // by contract.  ASSUMED codec-level contract (not the C07 bracket contract of unit fi_sketch): while the map has room no resize or
    // purge happens and the update is exactly `counter(item) += count`
    #[verifier::external_body]
    fn update_with_count(&mut self, item: T, count: u64)
      requires old(self).wf(), old(self).cwf(), /*@C14.fi.weight_sum_fits*/ old(self).stream_weight + count <= u64::MAX,
      ensures final(self).wf(), final(self).cwf(), final(self).lg_max_map_size == old(self).lg_max_map_size,
        final(self).stream_weight == old(self).stream_weight + count,
        count == 0 ==> final(self).hash_map == old(self).hash_map && final(self).offset == old(self).offset,
        count > 0 && (old(self).hash_map.holds(item) || old(self).hash_map.num_active < old(self).cur_map_cap) ==>
            final(self).offset == old(self).offset && upd_exact(old(self).hash_map, final(self).hash_map, item, count),
    { unimplemented!() }

    // thin verified shims (see vx_alloc_u64s): deserialize_inner calls with_lg_map_sizes with lg_max straight from the image (`1usize << lg`
    // panics for lg >= 64, allocates 2^lg slots below that) ...
    fn vx_with_lg_map_sizes(lg_max_map_size: u8, lg_cur_map_size: u8) -> (r: Self)
      requires eq_law::<T>(), lg_cur_map_size <= lg_max_map_size || lg_cur_map_size <= LG_MIN_MAP_SIZE,
      ensures r.wf(), r.cwf(), r.lg_max_map_size == lgmax3(lg_max_map_size), r.hash_map.lg_length == lgmax3(lg_cur_map_size), r.hash_map.num_active == 0,
        r.stream_weight == 0, r.offset == 0, forall|k: T| !r.hash_map.holds(k),
    { Self::with_lg_map_sizes(lg_max_map_size, lg_cur_map_size) }

    // ... and update_with_count with counters straight from the image (`stream_weight += count` overflows)
    fn vx_update_with_count(&mut self, item: T, count: u64)
      requires old(self).wf(), old(self).cwf(),
      ensures final(self).wf(), final(self).cwf(), final(self).lg_max_map_size == old(self).lg_max_map_size,
        final(self).stream_weight == old(self).stream_weight + count,
        count == 0 ==> final(self).hash_map == old(self).hash_map && final(self).offset == old(self).offset,
        count > 0 && (old(self).hash_map.holds(item) || old(self).hash_map.num_active < old(self).cur_map_cap) ==>
            final(self).offset == old(self).offset && upd_exact(old(self).hash_map, final(self).hash_map, item, count),
    { self.update_with_count(item, count) }

    #[verifier::spinoff_prover]
    fn serialize_inner(
        &self,
        count_serialize_size: impl Fn(&[T]) -> usize,
        serialize_items: impl Fn(&mut SketchBytes, &[T]),
    ) -> (r: Vec<u8>)
    where
        T: Clone, // for self.hash_map.active_keys()
      requires self.hash_map.mwf(),
        // activeItems is a u32 field of the format
        self.hash_map.num_active <= u32::MAX,
        // the item codec (function-pointer parameters, R19)
        forall|it: &[T]| #[trigger] count_serialize_size.requires((it,)),
        forall|it: &[T], n: usize| #[trigger] count_serialize_size.ensures((it,), n) ==> n <= 0x3fff_ffff_ffff_ffff,
        forall|b: &mut SketchBytes, it: &[T]| #[trigger] serialize_items.requires((b, it)),
        forall|b: &mut SketchBytes, it: &[T]| #[trigger] serialize_items.ensures((b, it), ()) ==> final(b)@ == (*b)@ + enc_items(it@),
      ensures
        // EMPTY image iff the sketch never saw weight; a sketch emptied by its last purge is a full image with 0 rows
        /*@C12.fi.image_empty*/ self.stream_weight == 0 ==> r@ == enc_fi_empty(self.lg_max_map_size, self.hash_map.lg_length),
        /*@C12.fi.image*/ self.stream_weight > 0 ==> r@ == enc_fi_nonempty(self.view()),
    {
        if self.stream_weight == 0 {
            let mut bytes = SketchBytes::with_capacity(8);
            bytes.write_u8(PREAMBLE_LONGS_EMPTY);
            bytes.write_u8(SERIAL_VERSION);
            bytes.write_u8(Family::FREQUENCY.id);
            bytes.write_u8(self.lg_max_map_size);
            bytes.write_u8(self.hash_map.lg_length());
            bytes.write_u8(EMPTY_FLAG_MASK);
            bytes.write_u16_le(0); // unused: the preamble is one full long
            proof {
                // an EMPTY image is one preamble long (8 bytes)
                assert(le16_bytes(0) =~= seq![0u8, 0u8]) by { assert(0u16 & 0xff == 0 && (0u16 >> 8) & 0xff == 0) by (bit_vector); }
                if bytes@.len() == 8 { assert(bytes@ =~= enc_fi_empty(self.lg_max_map_size, self.hash_map.lg_length)); }
            }
            return bytes.into_bytes();
        }

        let active_items = self.num_active_items();
        let values = self.hash_map.active_values();
        let keys = self.hash_map.active_keys();
        proof {
            lemma_act_len(self.hash_map.keys@, self.hash_map.values@, self.hash_map.states@, self.hash_map.states@.len() as int);
            lemma_pow2_le_2_40(self.hash_map.lg_length);
        }
        let total_bytes =
            PREAMBLE_LONGS_NONEMPTY as usize * 8 + (active_items * 8) + count_serialize_size(&keys);

        let mut bytes = SketchBytes::with_capacity(total_bytes);
        bytes.write_u8(PREAMBLE_LONGS_NONEMPTY);
        bytes.write_u8(SERIAL_VERSION);
        bytes.write_u8(Family::FREQUENCY.id);
        bytes.write_u8(self.lg_max_map_size);
        bytes.write_u8(self.hash_map.lg_length());
        bytes.write_u8(0); // flags
        bytes.write_u16_le(0); // unused
        proof { assert(le16_bytes(0) =~= seq![0u8, 0u8]) by { assert(0u16 & 0xff == 0 && (0u16 >> 8) & 0xff == 0) by (bit_vector); } }

        bytes.write_u32_le(active_items as u32);
        bytes.write_u32_le(0); // unused
        bytes.write_u64_le(self.stream_weight);
        bytes.write_u64_le(self.offset);
        let ghost head = bytes@;
        proof { assert(enc_u64s(values@.take(0)) =~= Seq::<u8>::empty()); }

        let mut vx_i1 = 0;
        while vx_i1 < values.len()
          invariant vx_i1 <= values@.len(), /*@C12.fi.image*/ bytes@ == head + enc_u64s(values@.take(vx_i1 as int)),
          decreases values@.len() - vx_i1
        {
            let value = values[vx_i1];
            bytes.write_u64_le(value);
            proof {
                let a = values@.take(vx_i1 + 1);
                assert(a.drop_last() =~= values@.take(vx_i1 as int));
                assert(a.last() == value);
            }
            vx_i1 += 1;
        }
        proof { assert(values@.take(values@.len() as int) =~= values@); }
        serialize_items(&mut bytes, &keys);
        proof { assert(bytes@ =~= enc_fi_nonempty(self.view())); }

        bytes.into_bytes()
    }
    #[verifier::spinoff_prover]
    fn deserialize_inner(
        bytes: &[u8],
        deserialize_items: impl Fn(SketchSlice<'_>, usize) -> Result<Vec<T>, Error>,
    ) -> (r: Result<Self, Error>)
      requires eq_law::<T>(),
        // the item codec (function-pointer parameter, R19): a reader of n items obeying the uninterpreted list codec
        forall|c: SketchSlice<'_>, n: usize| #[trigger] deserialize_items.requires((c, n)),
        forall|c: SketchSlice<'_>, n: usize, res: Result<Vec<T>, Error>| #[trigger] deserialize_items.ensures((c, n), res) ==>
            (res matches Ok(v) ==> dec_items::<T>(c.rem(), n as int) == Some(v@)) && (res is Err ==> dec_items::<T>(c.rem(), n as int) is None),
      // the BYTES are arbitrary
      ensures
        /*@C13.fi.accepts*/ valid_fi_image::<T>(bytes@) ==> r is Ok,
        /*@C13.fi.view_empty*/ valid_fi_image::<T>(bytes@) && hdr_empty(bytes@) ==> (r matches Ok(a) && a.hash_map.num_active == 0 && a.stream_weight == 0 && a.offset == 0
              && a.lg_max_map_size == lgmax3(bytes@[3]) && a.hash_map.lg_length == lgmax3(bytes@[4]) && forall|k: T| !a.hash_map.holds(k)),
        /*@C13.fi.view*/ valid_fi_image::<T>(bytes@) && !hdr_empty(bytes@) ==> (r matches Ok(a) && a.stream_weight == hdr_sw(bytes@) && a.offset == hdr_off(bytes@)
              && a.lg_max_map_size == lgmax3(bytes@[3]) && a.hash_map.lg_length == lgmax3(bytes@[4]) && a.hash_map.num_active == hdr_n(bytes@)
              && (forall|k: T| a.hash_map.holds(k) == dec_keys::<T>(bytes@)->0.contains(k))
              && (forall|k: T| a.hash_map.val(k) == rows_val(dec_keys::<T>(bytes@)->0, dec_vals(bytes@), k))),
        /*@C14.fi.rejects_bad_header*/ r is Ok ==> bytes@.len() >= 8 && bytes@[1] == 1 && bytes@[2] == 10 && bytes@[4] <= bytes@[3]
              && hdr_pre(bytes@) == (if hdr_empty(bytes@) { 1u8 } else { 4u8 }),
        /*@C14.fi.rejects_truncated*/ r is Ok && !hdr_empty(bytes@) ==> (bytes@.len() >= 32 + 8 * hdr_n(bytes@) && (dec_keys::<T>(bytes@) matches Some(ks) && ks.len() == hdr_n(bytes@))),
        /*@C14.fi.cwf*/ r matches Ok(a) ==> a.cwf(),
    {
        let ghost b = bytes@;
        let mut cursor = SketchSlice::new(bytes);
        let pre_longs = cursor.read_u8().vx_io("pre_longs")?;
        let pre_longs = pre_longs & 0x3F;
        let serial_version = cursor
            .read_u8()
            .vx_io("serial_version")?;
        let family = cursor.read_u8().vx_io("family")?;
        let lg_max = cursor
            .read_u8()
            .vx_io("lg_max_map_size")?;
        let lg_cur = cursor
            .read_u8()
            .vx_io("lg_cur_map_size")?;
        let flags = cursor.read_u8().vx_io("flags")?;
        cursor
            .read_u16_le()
            .vx_io("<unused>")?;

        Family::FREQUENCY.validate_id(family)?;
        ensure_serial_version_is(SERIAL_VERSION, serial_version)?;
        if lg_cur > lg_max {
            return Err(Error::deserial("lg_cur_map_size exceeds lg_max_map_size"));
        }

        let is_empty = (flags & EMPTY_FLAG_MASK) != 0;
        if is_empty {
            proof { assert([PREAMBLE_LONGS_EMPTY]@ =~= seq![1u8]); assert(seq![1u8][0] == 1u8); }
            ensure_preamble_longs_in(&[PREAMBLE_LONGS_EMPTY], pre_longs)?;
            return Ok(Self::vx_with_lg_map_sizes(lg_max, lg_cur));
        }

        proof { assert([PREAMBLE_LONGS_NONEMPTY]@ =~= seq![4u8]); assert(seq![4u8][0] == 4u8); }
        ensure_preamble_longs_in(&[PREAMBLE_LONGS_NONEMPTY], pre_longs)?;
        let active_items = cursor
            .read_u32_le()
            .vx_io("active_items")?;
        let active_items = active_items as usize;
        cursor
            .read_u32_le()
            .vx_io("<unused>")?;
        let stream_weight = cursor
            .read_u64_le()
            .vx_io("stream_weight")?;
        let offset_val = cursor.read_u64_le().vx_io("offset")?;

        let mut values = vx_alloc_u64s(active_items, bytes.len());
        proof { assert(dec_vals_n(b, 0) =~= Seq::<u64>::empty()); }
        for i in 0..active_items
          invariant
            b == bytes@, active_items == hdr_n(b), b.len() >= 32, !hdr_empty(b),
            cursor.data() == b, cursor.inv(), cursor.pos() == 32 + 8 * i,
            /*@C13.fi.counters*/ values@ == dec_vals_n(b, i as int),
        {
            values.push(cursor.read_u64_le().vx_io("weight")?);
            proof {
                assert(values@.last() == dec_val_at(b, i as int));
                assert(values@ =~= dec_vals_n(b, i + 1));
            }
        }

        let items = deserialize_items(cursor, active_items)?;
        if items.len() != active_items {
            return Err(Error::deserial(
                "item count mismatch during deserialization",
            ));
        }

        let ghost vld = valid_fi_image::<T>(b);
        let ghost ks = items@;
        let ghost vs = values@;
        let ghost zs = zip_seq(ks, vs);
        let ghost j: int = 0;
        let ghost lg = lgmax3(lg_cur);
        let mut sketch = Self::vx_with_lg_map_sizes(lg_max, lg_cur);
        proof {
            lemma_loaded_init(sketch.hash_map, ks, vs, lg);
        }
        let mut vx_it2 = vx_zip(items, values);
        loop
          invariant
            0 <= j <= zs.len(), zs == zip_seq(ks, vs), ks.len() == vs.len(), vx_it2.all() == zs, vx_it2.idx() == j,
            sketch.wf(), sketch.cwf(), sketch.lg_max_map_size == lgmax3(lg_max),
            vld ==> distinct(ks) && vals_pos(vs) && ks.len() <= cap_of_lg(lg) && sum_u64(vs) <= u64::MAX,
            /*@C13.fi.rows*/ vld ==> loaded(sketch.hash_map, sketch.stream_weight, sketch.offset, ks, vs, j, lg),
          ensures j == zs.len()
          decreases zs.len() - j
        {
            match vx_it2.next() {
                Some((item, value)) => {
                    let ghost m0 = sketch.hash_map;
                    let ghost sw0 = sketch.stream_weight;
                    sketch.vx_update_with_count(item, value);
                    proof {
                        if vld { reveal(loaded); lemma_loaded_step(m0, sw0, sketch.hash_map, ks, vs, j, lg, cap_of_lg(lg)); }
                        j = j + 1;
                    }
                }
                None => {
                    break;
                }
            }
        }
        proof {
            assert(zs.len() == ks.len());
            if vld { lemma_loaded_final(sketch.hash_map, sketch.stream_weight, sketch.offset, ks, vs, lg); }
        }
        sketch.stream_weight = stream_weight;
        sketch.offset = offset_val;
        Ok(sketch)
    }

}

proof fn lemma_pow2_le_2_40(l: u8)
  requires l <= 40
  ensures pow2(l as nat) <= 0x100_0000_0000
{
    lemma2_to64(); lemma2_to64_rest();
    if l < 40 { lemma_pow2_strictly_increases(l as nat, 40); }
}

// =====================================================================================================================
// table order <-> key level: the rows `serialize_inner` writes give every key its counter
// =====================================================================================================================
spec fn slot_is<T>(ks: Seq<Option<T>>, st: Seq<u16>, p: int, k: T) -> bool { st[p] > 0 && ks[p] == Some(k) }
spec fn pfx_val<T>(ks: Seq<Option<T>>, vs: Seq<u64>, st: Seq<u16>, n: int, k: T) -> int decreases n {
    if n <= 0 { 0 } else { pfx_val(ks, vs, st, n - 1, k) + (if slot_is(ks, st, n - 1, k) { vs[n - 1] as int } else { 0 }) }
}
proof fn lemma_rows_pfx<T>(ks: Seq<Option<T>>, vs: Seq<u64>, st: Seq<u16>, n: int, k: T)
  requires 0 <= n <= st.len(), forall|p: int| 0 <= p < st.len() && st[p] > 0 ==> (#[trigger] ks[p]) is Some
  ensures rows_val(act_keys(ks, st, n), act_vals(vs, st, n), k) == pfx_val(ks, vs, st, n, k)
  decreases n
{
    if n > 0 {
        lemma_rows_pfx(ks, vs, st, n - 1, k);
        if st[n - 1] > 0 {
            assert(ks[n - 1] is Some);
            assert(act_keys(ks, st, n).drop_last() =~= act_keys(ks, st, n - 1));
            assert(act_vals(vs, st, n).drop_last() =~= act_vals(vs, st, n - 1));
        }
    }
}
proof fn lemma_pfx_val<T>(ks: Seq<Option<T>>, vs: Seq<u64>, st: Seq<u16>, n: int, k: T)
  requires 0 <= n <= st.len(), fdistinct(ks, st)
  ensures
    (forall|p: int| 0 <= p < n ==> !slot_is(ks, st, p, k)) ==> pfx_val(ks, vs, st, n, k) == 0,
    forall|p: int| 0 <= p < n && slot_is(ks, st, p, k) ==> pfx_val(ks, vs, st, n, k) == vs[p],
  decreases n
{
    if n > 0 { lemma_pfx_val(ks, vs, st, n - 1, k); }
}
proof fn lemma_act_contains<T>(ks: Seq<Option<T>>, st: Seq<u16>, n: int, k: T)
  requires 0 <= n <= st.len(), forall|p: int| 0 <= p < st.len() && st[p] > 0 ==> (#[trigger] ks[p]) is Some
  ensures act_keys(ks, st, n).contains(k) == (exists|p: int| 0 <= p < n && slot_is(ks, st, p, k))
  decreases n
{
    if n > 0 {
        lemma_act_contains(ks, st, n - 1, k);
        let a0 = act_keys(ks, st, n - 1); let a = act_keys(ks, st, n);
        if st[n - 1] > 0 {
            assert(ks[n - 1] is Some);
            if a.contains(k) {
                let i = choose|i: int| 0 <= i < a.len() && a[i] == k;
                if i < a0.len() { assert(a0[i] == k); } else { assert(slot_is(ks, st, n - 1, k)); }
            }
            if a0.contains(k) { let i = choose|i: int| 0 <= i < a0.len() && a0[i] == k; assert(a[i] == k); }
            if slot_is(ks, st, n - 1, k) { assert(a[a0.len() as int] == k); }
        }
    }
}
proof fn lemma_act_distinct<T>(ks: Seq<Option<T>>, st: Seq<u16>, n: int)
  requires 0 <= n <= st.len(), fdistinct(ks, st), forall|p: int| 0 <= p < st.len() && st[p] > 0 ==> (#[trigger] ks[p]) is Some
  ensures distinct(act_keys(ks, st, n))
  decreases n
{
    reveal(distinct);
    if n > 0 {
        lemma_act_distinct(ks, st, n - 1);
        if st[n - 1] > 0 {
            let k = ks[n - 1]->0; let a0 = act_keys(ks, st, n - 1);
            lemma_act_contains(ks, st, n - 1, k);
            assert(ks[n - 1] is Some);
            if a0.contains(k) { let p = choose|p: int| 0 <= p < n - 1 && slot_is(ks, st, p, k); assert(ks[p] == ks[n - 1]); }
            assert forall|i: int, j: int| 0 <= i < j < act_keys(ks, st, n).len() implies act_keys(ks, st, n)[i] != act_keys(ks, st, n)[j] by {
                if j == a0.len() { if a0[i] == k { assert(a0.contains(k)); } }
            }
        }
    }
}
proof fn lemma_act_pos(vs: Seq<u64>, st: Seq<u16>, n: int)
  requires 0 <= n <= st.len(), forall|p: int| 0 <= p < st.len() && st[p] > 0 ==> #[trigger] vs[p] > 0
  ensures vals_pos(act_vals(vs, st, n))
  decreases n
{
    reveal(vals_pos);
    if n > 0 { lemma_act_pos(vs, st, n - 1); }
}
// the rows of a well-formed map, read at key level
proof fn lemma_rows_of_map<T>(m: ReversePurgeItemHashMap<T>)
  requires m.mwf()
  ensures distinct(m.akeys()), m.akeys().len() == m.avals().len(), m.avals().len() == m.num_active,
    forall|k: T| m.akeys().contains(k) == m.holds(k),
    forall|k: T| rows_val(m.akeys(), m.avals(), k) == m.val(k),
{
    let ks = m.keys@; let vs = m.values@; let st = m.states@; let n = st.len() as int;
    lemma_act_distinct(ks, st, n);
    lemma_act_len(ks, vs, st, n);
    assert forall|k: T| m.akeys().contains(k) == m.holds(k) by {
        lemma_act_contains(ks, st, n, k);
        if m.holds(k) { let i = fidx(ks, st, k); assert(slot_is(ks, st, i, k)); }
    }
    assert forall|k: T| rows_val(m.akeys(), m.avals(), k) == m.val(k) by {
        lemma_rows_pfx(ks, vs, st, n, k); lemma_pfx_val(ks, vs, st, n, k);
        if m.holds(k) { let i = fidx(ks, st, k); assert(slot_is(ks, st, i, k)); }
        else { assert forall|p: int| 0 <= p < n implies !slot_is(ks, st, p, k) by { } }
    }
}

// =====================================================================================================================
// C11 at spec level (lemma L): the spec decoder reads back what the spec encoder wrote
// =====================================================================================================================
#[verifier::spinoff_prover]
proof fn lemma_fi_roundtrip<T>(v: FiImg<T>)
  requires item_codec_law::<T>(), v.lg_cur <= v.lg_max <= 40, 3 <= v.lg_cur, v.vals.len() == v.keys.len(), v.vals.len() <= u32::MAX,
    v.vals.len() <= cap_of_lg(v.lg_cur), distinct(v.keys), vals_pos(v.vals), sum_u64(v.vals) + v.off <= v.sw,
  ensures ({ let e = enc_fi_nonempty(v);
    &&& /*@C13.fi.encoder_valid*/ valid_fi_image::<T>(e) && !hdr_empty(e)
    &&& /*@C11.fi.spec_roundtrip*/ e[3] == v.lg_max && e[4] == v.lg_cur && hdr_sw(e) == v.sw && hdr_off(e) == v.off && hdr_n(e) == v.vals.len()
          && dec_vals(e) == v.vals && dec_keys::<T>(e) == Some(v.keys) })
{
    let e = enc_fi_nonempty(v); let n = v.vals.len() as int;
    let h = seq![4u8, 1u8, 10u8, v.lg_max, v.lg_cur, 0u8, 0u8, 0u8];
    lemma_le32_roundtrip(n as u32); lemma_le32_roundtrip(0); lemma_le64_roundtrip(v.sw); lemma_le64_roundtrip(v.off);
    lemma_enc_u64s_len(v.vals);
    assert(e.subrange(8, 12) =~= le32_bytes(n as u32));
    assert(e.subrange(16, 24) =~= le64_bytes(v.sw));
    assert(e.subrange(24, 32) =~= le64_bytes(v.off));
    assert(e.skip(32 + 8 * n) =~= enc_items(v.keys));
    let pre = h + le32_bytes(n as u32) + le32_bytes(0) + le64_bytes(v.sw) + le64_bytes(v.off);
    assert(pre.len() == 32);
    assert forall|i: int| 0 <= i < n implies dec_val_at(e, i) == v.vals[i] by { lemma_enc_u64s_at(v.vals, pre, enc_items(v.keys), i); lemma_le64_roundtrip(v.vals[i]); }
    assert(dec_vals(e) =~= v.vals);
    assert(e[0] == 4 && e[5] == 0 && e[1] == 1 && e[2] == 10);
    assert(4u8 & 0x3f == 4u8 && 0u8 & 5u8 == 0u8) by (bit_vector);
}

// =====================================================================================================================
// C11 over both contracts: a verified client (not real code) composing C12 (serialize_inner), lemma L and C13 (deserialize_inner)
// for ANY item codec obeying the codec law; the i64 / u64 / String wrappers pass closures built from FrequentItemValue
// =====================================================================================================================
#[verifier::spinoff_prover]
fn c11_roundtrip_fi<T: Eq + Hash + Clone>(
    a: &FrequentItemsSketch<T>,
    count_serialize_size: impl Fn(&[T]) -> usize,
    serialize_items: impl Fn(&mut SketchBytes, &[T]),
    deserialize_items: impl Fn(SketchSlice<'_>, usize) -> Result<Vec<T>, Error>,
) -> (b: FrequentItemsSketch<T>)
  requires a.cwf(), a.wf_weights(), a.hash_map.num_active <= u32::MAX, item_codec_law::<T>(),
    forall|p: int| 0 <= p < a.hash_map.states@.len() && a.hash_map.states@[p] > 0 ==> #[trigger] a.hash_map.values@[p] > 0,
    forall|it: &[T]| #[trigger] count_serialize_size.requires((it,)),
    forall|it: &[T], n: usize| #[trigger] count_serialize_size.ensures((it,), n) ==> n <= 0x3fff_ffff_ffff_ffff,
    forall|b: &mut SketchBytes, it: &[T]| #[trigger] serialize_items.requires((b, it)),
    forall|b: &mut SketchBytes, it: &[T]| #[trigger] serialize_items.ensures((b, it), ()) ==> final(b)@ == (*b)@ + enc_items(it@),
    forall|c: SketchSlice<'_>, n: usize| #[trigger] deserialize_items.requires((c, n)),
    forall|c: SketchSlice<'_>, n: usize, res: Result<Vec<T>, Error>| #[trigger] deserialize_items.ensures((c, n), res) ==>
        (res matches Ok(v) ==> dec_items::<T>(c.rem(), n as int) == Some(v@)) && (res is Err ==> dec_items::<T>(c.rem(), n as int) is None),
  ensures
    /*@C11.fi.roundtrip*/ b.lg_max_map_size == a.lg_max_map_size && b.hash_map.lg_length == a.hash_map.lg_length && b.hash_map.num_active == a.hash_map.num_active
        && (forall|k: T| b.hash_map.holds(k) == a.hash_map.holds(k)) && (forall|k: T| b.hash_map.val(k) == a.hash_map.val(k)),
    // a sketch whose last purge emptied the map still has a stream weight and an offset (maximum error)
    /*@C11.fi.purged_empty*/ b.stream_weight == a.stream_weight && b.offset == a.offset,
{
    let img = a.serialize_inner(count_serialize_size, serialize_items);
    proof {
        lemma_rows_of_map(a.hash_map);
        lemma_act_pos(a.hash_map.values@, a.hash_map.states@, a.hash_map.states@.len() as int);
        lemma_sum_nonneg(a.hash_map.avals());
        if a.stream_weight > 0 { lemma_fi_roundtrip(a.view()); }
        else {
            // no weight: no positive counter, no offset
            assert(5u8 & 5u8 != 0u8 && 1u8 & 0x3f == 1u8) by (bit_vector);
            lemma_sum_pos(a.hash_map.avals());
            assert forall|k: T| !a.hash_map.holds(k) by { }
        }
    }
    let r = FrequentItemsSketch::<T>::deserialize_inner(img.as_slice(), deserialize_items);
    match r {
        Ok(b) => {
            proof {
                if a.stream_weight > 0 {
                    assert(b.hash_map.num_active == a.hash_map.num_active);
                    assert forall|k: T| b.hash_map.holds(k) == a.hash_map.holds(k) by { }
                    assert forall|k: T| b.hash_map.val(k) == a.hash_map.val(k) by { }
                } else {
                    assert(a.hash_map.num_active == 0);
                    assert forall|k: T| b.hash_map.val(k) == a.hash_map.val(k) by {
                        assert(a.hash_map.akeys().contains(k) == a.hash_map.holds(k));
                        assert(!a.hash_map.holds(k) && !b.hash_map.holds(k));
                    }
                }
            }
            b
        }
        Err(_) => { proof { assert(false); } c11_unreachable_fi() }
    }
}
#[verifier::external_body] fn c11_unreachable_fi<T>() -> FrequentItemsSketch<T> requires false { unreachable!() }

// =====================================================================================================================
// The public wrappers `serialize` / `deserialize` (impl<T: FrequentItemValue>) pass closures built from the trait methods of the item
// type; for i64 / u64 those methods are generated by `impl_primitive!` (a macro: not extractable).  They are OPAQUE here: the contract
// is the one verified for serialize_inner / deserialize_inner, with the item codec of T.  The two axioms transcribe impl_primitive!
// for u64 (`bytes.write_u64_le(*self)` / `cursor.read_u64_le()`), and the lemma shows that this codec obeys the codec law.
// =====================================================================================================================
// The trait contract is the one every implementation is VERIFIED against in unit fi_items (String, and the `impl_primitive!` bodies of
// i64 / u64), restated over the uninterpreted item codec: what is assumed here is that the bytes written / the item read are a
// FUNCTION of the item / of the remaining bytes (fi_items proves the concrete functions; for a String of >= 2^32 bytes the written
// bytes are not a valid item image - `fits()` there - which is a matter of item_codec_law, not of this contract).
trait FrequentItemValue: Sized + Eq + Hash + Clone {
    fn serialize_size(item: &Self) -> (r: usize);
    fn serialize_value(&self, bytes: &mut SketchBytes)
      ensures final(bytes)@ == old(bytes)@ + enc_item(*self);
    fn deserialize_value(cursor: &mut SketchSlice<'_>) -> (r: Result<Self, Error>)
      ensures
        dec_item::<Self>(old(cursor).rem()) matches Some((x, k)) ==> r == Ok::<Self, Error>(x) && final(cursor).rem() == old(cursor).rem().skip(k),
        dec_item::<Self>(old(cursor).rem()) is None ==> r is Err;
}
impl FrequentItemValue for u64 {
    #[verifier::external_body] fn serialize_size(item: &Self) -> (r: usize) { unimplemented!() }
    #[verifier::external_body] fn serialize_value(&self, bytes: &mut SketchBytes) { unimplemented!() }
    #[verifier::external_body] fn deserialize_value(cursor: &mut SketchSlice<'_>) -> (r: Result<Self, Error>) { unimplemented!() }
}
impl FrequentItemValue for i64 {
    #[verifier::external_body] fn serialize_size(item: &Self) -> (r: usize) { unimplemented!() }
    #[verifier::external_body] fn serialize_value(&self, bytes: &mut SketchBytes) { unimplemented!() }
    #[verifier::external_body] fn deserialize_value(cursor: &mut SketchSlice<'_>) -> (r: Result<Self, Error>) { unimplemented!() }
}
#[verifier::external_body] proof fn axiom_item_codec_u64(s: Seq<u64>, rem: Seq<u8>, n: int)
  ensures enc_items::<u64>(s) == enc_u64s(s), dec_items::<u64>(rem, n) == (if rem.len() >= 8 * n { Some(dec_u64s(rem, n)) } else { None }) {}
proof fn lemma_item_codec_law_u64() ensures item_codec_law::<u64>() {
    assert forall|s: Seq<u64>| #[trigger] dec_items::<u64>(enc_items(s), s.len() as int) == Some(s) by {
        axiom_item_codec_u64(s, enc_items(s), s.len() as int);
        lemma_enc_u64s_len(s);
        assert forall|i: int| 0 <= i < s.len() implies dec_u64_at(enc_u64s(s), i) == s[i] by {
            lemma_dec_enc_u64s(s, Seq::empty(), i); assert(enc_u64s(s) + Seq::<u8>::empty() =~= enc_u64s(s));
        }
        assert(dec_u64s(enc_u64s(s), s.len() as int) =~= s);
    }
}
// `items.iter().map(T::serialize_size).sum()` (R15 std iterator leaf; the body is the original expression).  ASSUMED: the serialized sizes of
// items that are simultaneously in memory sum to at most 2^62 (they are at most a small constant more than the bytes the items occupy;
// the sum is only used as the CAPACITY hint of the output buffer).
#[verifier::external_body]
fn vx_sum_sizes<T: FrequentItemValue>(items: &[T]) -> (n: usize) ensures n <= 0x3fff_ffff_ffff_ffff { items.iter().map(T::serialize_size).sum() }
// R3: `.map_err(|_| { Error::insufficient_data(format!(..)) })` on a Result<_, Error>: Ok passes through, Err stays Err
trait VxReErr<T> { fn vx_reerr(self) -> Result<T, Error>; }
impl<T> VxReErr<T> for Result<T, Error> {
  #[verifier::external_body]
  fn vx_reerr(self) -> (r: Result<T, Error>)
    ensures self matches Ok(v) ==> r == Ok::<T, Error>(v), self is Err ==> r is Err
  { unimplemented!() }
}
spec fn prepend<T>(a: Seq<T>, o: Option<Seq<T>>) -> Option<Seq<T>> { match o { None => None, Some(t) => Some(a + t) } }

impl<T: FrequentItemValue> FrequentItemsSketch<T> {
    fn serialize(&self) -> (r: Vec<u8>)
      requires self.hash_map.mwf(), self.hash_map.num_active <= u32::MAX,
      ensures
        /*@C12.fi.api_image_empty*/ self.stream_weight == 0 ==> r@ == enc_fi_empty(self.lg_max_map_size, self.hash_map.lg_length),
        /*@C12.fi.api_image*/ self.stream_weight > 0 ==> r@ == enc_fi_nonempty(self.view()),
    {
        self.serialize_inner(
            |items: &[T]| -> (n: usize) ensures n <= 0x3fff_ffff_ffff_ffff { vx_sum_sizes::<T>(items) },
            |bytes: &mut SketchBytes, items: &[T]| ensures /*@C12.fi.api_items*/ final(bytes)@ == old(bytes)@ + enc_items(items@) {
                proof { assert(items@.take(0) =~= Seq::<T>::empty()); assert(old(bytes)@ + enc_items(items@.take(0)) =~= old(bytes)@); }
                let mut vx_i1 = 0;
                while vx_i1 < items.len()
                  invariant vx_i1 <= items@.len(), /*@C12.fi.api_items*/ bytes@ == old(bytes)@ + enc_items(items@.take(vx_i1 as int)),
                  decreases items@.len() - vx_i1
                {
                    let item = &items[vx_i1];
                    item.serialize_value(bytes);
                    proof {
                        let a = items@.take(vx_i1 + 1);
                        assert(a.drop_last() =~= items@.take(vx_i1 as int));
                        assert(a.last() == *item);
                        assert(bytes@ =~= old(bytes)@ + enc_items(a));
                    }
                    vx_i1 += 1;
                }
                proof { assert(items@.take(items@.len() as int) =~= items@); }
            },
        )
    }

    #[verifier::loop_isolation(false)]
    fn deserialize(bytes: &[u8]) -> (r: Result<Self, Error>)
      requires eq_law::<T>(),
      ensures
        /*@C13.fi.api_accepts*/ valid_fi_image::<T>(bytes@) ==> r is Ok,
        /*@C13.fi.api_view_empty*/ valid_fi_image::<T>(bytes@) && hdr_empty(bytes@) ==> (r matches Ok(a) && a.hash_map.num_active == 0 && a.stream_weight == 0 && a.offset == 0
              && a.lg_max_map_size == lgmax3(bytes@[3]) && a.hash_map.lg_length == lgmax3(bytes@[4]) && forall|k: T| !a.hash_map.holds(k)),
        /*@C13.fi.api_view*/ valid_fi_image::<T>(bytes@) && !hdr_empty(bytes@) ==> (r matches Ok(a) && a.stream_weight == hdr_sw(bytes@) && a.offset == hdr_off(bytes@)
              && a.lg_max_map_size == lgmax3(bytes@[3]) && a.hash_map.lg_length == lgmax3(bytes@[4]) && a.hash_map.num_active == hdr_n(bytes@)
              && (forall|k: T| a.hash_map.holds(k) == dec_keys::<T>(bytes@)->0.contains(k))
              && (forall|k: T| a.hash_map.val(k) == rows_val(dec_keys::<T>(bytes@)->0, dec_vals(bytes@), k))),
        /*@C14.fi.api_rejects_bad_header*/ r is Ok ==> bytes@.len() >= 8 && bytes@[1] == 1 && bytes@[2] == 10 && bytes@[4] <= bytes@[3]
              && hdr_pre(bytes@) == (if hdr_empty(bytes@) { 1u8 } else { 4u8 }),
        /*@C14.fi.api_rejects_truncated*/ r is Ok && !hdr_empty(bytes@) ==> (bytes@.len() >= 32 + 8 * hdr_n(bytes@) && (dec_keys::<T>(bytes@) matches Some(ks) && ks.len() == hdr_n(bytes@))),
        /*@C14.fi.api_cwf*/ r matches Ok(a) ==> a.cwf(),
    {
        Self::deserialize_inner(bytes, |mut cursor: SketchSlice<'_>, num_items: usize| -> (res: Result<Vec<T>, Error>)
            ensures /*@C13.fi.api_items*/ res matches Ok(v) ==> dec_items::<T>(cursor.rem(), num_items as int) == Some(v@),
              /*@C14.fi.api_items*/ res is Err ==> dec_items::<T>(cursor.rem(), num_items as int) is None,
        { {
            let ghost rem0 = cursor.rem();
            let mut items = Vec::with_capacity(num_items);
            proof { assert(Seq::<T>::empty() + dec_items::<T>(rem0, num_items as int)->0 =~= dec_items::<T>(rem0, num_items as int)->0); }
            for i in 0..num_items
              invariant /*@C13.fi.api_items*/ dec_items::<T>(rem0, num_items as int) == prepend(items@, dec_items::<T>(cursor.rem(), num_items - i)),
            {
                let ghost it0 = items@; let ghost c0 = cursor.rem();
                proof { if dec_item::<T>(c0) is None { assert(dec_items::<T>(c0, num_items - i) is None); assert(dec_items::<T>(rem0, num_items as int) is None); } }
                let item = T::deserialize_value(&mut cursor).vx_reerr()?;
                items.push(item);
                proof {
                    let t = dec_items::<T>(cursor.rem(), num_items - i - 1);
                    if t is Some { assert(it0 + (seq![item] + t->0) =~= it0.push(item) + t->0); }
                }
            }
            proof { assert(items@ + Seq::<T>::empty() =~= items@); }
            Ok(items)
        } })
    }
}

// =====================================================================================================================
// C14 clauses the parser does NOT establish on the current /repo, stated on a wrapper (not real code) so that deserialize_inner itself
// verifies cleanly: each one is a finding with a replayed input.  When the parser is repaired the clause moves back into its `ensures`.
// =====================================================================================================================
fn c14_fi_deserialize_inner_wf<T: Eq + Hash>(
    bytes: &[u8],
    deserialize_items: impl Fn(SketchSlice<'_>, usize) -> Result<Vec<T>, Error>,
) -> (r: Result<FrequentItemsSketch<T>, Error>)
  requires eq_law::<T>(),
    forall|c: SketchSlice<'_>, n: usize| #[trigger] deserialize_items.requires((c, n)),
    forall|c: SketchSlice<'_>, n: usize, res: Result<Vec<T>, Error>| #[trigger] deserialize_items.ensures((c, n), res) ==>
        (res matches Ok(v) ==> dec_items::<T>(c.rem(), n as int) == Some(v@)) && (res is Err ==> dec_items::<T>(c.rem(), n as int) is None),
  ensures
    // stream weight and offset are taken from the image without comparing them with the counters
    /*@C14.fi.wf_weights*/ r matches Ok(a) ==> a.wf_weights(),
{
    FrequentItemsSketch::<T>::deserialize_inner(bytes, deserialize_items)
}

}
fn main(){}
