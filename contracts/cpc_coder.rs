use vstd::prelude::*;
use vstd::iset::*;
use vstd::std_specs::cmp::OrdSpec;
use vstd::arithmetic::power2::*;
use vstd::std_specs::bits::*;
use std::cmp::Ordering;
verus! {
global size_of usize == 8;

// =====================================================================================================================
// Unit cpc_coder: the FM85 entropy coder of cpc/compression.rs (encoder AND decoder) against an abstract bit-stream view.
//   C12 (layout): what the encoder leaves in the output words IS the concatenation of the code words of the tables (+ zero padding);
//   C13 (decode): what the decoder returns IS the spec decoder applied to the bit stream of the words, for every stream that "fits";
//   C11 (round trip): spec decoder o spec encoder = identity (lemmas), given the per-symbol prefix-code facts of the real tables,
//                     which are contracts of the statics, discharged by the complete Kani harnesses of kani/leaves_cpc_coder.rs.
// A stream is a Seq<bool>, least significant bit of each 32-bit word first (definitions and the four bit-buffer leaves are VERBATIM
// those of contracts/cpc_codec.rs, re-verified here on the real bodies).
// =====================================================================================================================
spec fn bit64(x: u64, i: int) -> bool { (x >> (i as u64)) & 1 == 1 }
spec fn bit32(x: u32, i: int) -> bool { (x >> (i as u32)) & 1 == 1 }
spec fn buf_bits(b: u64, n: int) -> Seq<bool> { Seq::new(n as nat, |i: int| bit64(b, i)) }
spec fn word_bits(w: u32) -> Seq<bool> { Seq::new(32, |i: int| bit32(w, i)) }
spec fn words_bits(ws: Seq<u32>) -> Seq<bool> decreases ws.len() { if ws.len() == 0 { Seq::empty() } else { words_bits(ws.drop_last()) + word_bits(ws.last()) } }
spec fn zeros(n: int) -> Seq<bool> { Seq::new(n as nat, |i: int| false) }
// no garbage above the low n bits
spec fn buf_clean(b: u64, n: int) -> bool { 0 <= n <= 64 && (n < 64 ==> (b >> (n as u64)) == 0) }
// writer: the bits emitted so far = the flushed words ++ the low bufbits bits of bitbuf
spec fn wstream(words: Seq<u32>, idx: int, bitbuf: u64, bufbits: int) -> Seq<bool> { words_bits(words.take(idx)) + buf_bits(bitbuf, bufbits) }
// reader: the bits still to be read = the low bufbits bits of bitbuf ++ the unread words
spec fn rstream(words: Seq<u32>, idx: int, bitbuf: u64, bufbits: int) -> Seq<bool> { buf_bits(bitbuf, bufbits) + words_bits(words.skip(idx)) }
// unary code of v: v zeros then a one
spec fn unary(v: int) -> Seq<bool> { zeros(v).push(true) }
// position of the first one (the length when there is none)
spec fn first_one(s: Seq<bool>) -> int decreases s.len() { if s.len() == 0 { 0 } else if s[0] { 0 } else { 1 + first_one(s.skip(1)) } }

proof fn lemma_words_bits_len(ws: Seq<u32>) ensures words_bits(ws).len() == 32 * ws.len() decreases ws.len() {
    if ws.len() > 0 { lemma_words_bits_len(ws.drop_last()); }
}
proof fn lemma_words_bits_concat(a: Seq<u32>, b: Seq<u32>) ensures words_bits(a + b) == words_bits(a) + words_bits(b) decreases b.len() {
    if b.len() == 0 { assert(a + b =~= a); assert(words_bits(a) + words_bits(b) =~= words_bits(a)); }
    else {
        assert((a + b).drop_last() =~= a + b.drop_last());
        lemma_words_bits_concat(a, b.drop_last());
        assert(words_bits(a) + words_bits(b.drop_last()) + word_bits(b.last()) =~= words_bits(a) + (words_bits(b.drop_last()) + word_bits(b.last())));
    }
}
proof fn lemma_words_bits_one(w: u32) ensures words_bits(seq![w]) == word_bits(w) {
    reveal_with_fuel(words_bits, 2);
    assert(seq![w].drop_last() =~= Seq::<u32>::empty());
    assert(words_bits(seq![w]) =~= word_bits(w));
}
// the low 32 bits of the buffer leave as one word
proof fn lemma_buf_split(b: u64, n: int)
  requires 32 <= n <= 64
  ensures buf_bits(b, n) == word_bits((b & 0xffffffff) as u32) + buf_bits(b >> 32, n - 32)
{
    let lo = (b & 0xffffffff) as u32;
    assert forall|i: int| 0 <= i < n implies buf_bits(b, n)[i] == (word_bits(lo) + buf_bits(b >> 32, n - 32))[i] by {
        let iu = i as u64;
        if i < 32 {
            assert(iu < 32 ==> ((((b & 0xffffffff) as u32) >> (iu as u32)) & 1 == 1) == ((b >> iu) & 1 == 1)) by (bit_vector);
        } else {
            let ju = (i - 32) as u64;
            assert(32 <= iu < 64 && ju == iu - 32 ==> (((b >> 32) >> ju) & 1 == 1) == ((b >> iu) & 1 == 1)) by (bit_vector);
        }
    }
    assert(buf_bits(b, n) =~= word_bits(lo) + buf_bits(b >> 32, n - 32));
}
// a word enters above the low n bits of a clean buffer
proof fn lemma_buf_join(b: u64, n: int, w: u32)
  requires buf_clean(b, n), n <= 32
  ensures buf_bits(b | ((w as u64) << (n as u64)), n + 32) == buf_bits(b, n) + word_bits(w), buf_clean(b | ((w as u64) << (n as u64)), n + 32)
{
    let nu = n as u64; let b2 = b | ((w as u64) << nu);
    assert forall|i: int| 0 <= i < n + 32 implies buf_bits(b2, n + 32)[i] == (buf_bits(b, n) + word_bits(w))[i] by {
        let iu = i as u64;
        if i < n {
            assert(nu <= 32 && iu < nu ==> (((b | ((w as u64) << nu)) >> iu) & 1 == 1) == ((b >> iu) & 1 == 1)) by (bit_vector);
        } else {
            let ju = (i - n) as u32;
            assert(nu <= 32 && (b >> nu) == 0 && nu <= iu < nu + 32 && ju == (iu - nu) as u32 ==> (((b | ((w as u64) << nu)) >> iu) & 1 == 1) == ((w >> ju) & 1 == 1)) by (bit_vector);
        }
    }
    assert(buf_bits(b2, n + 32) =~= buf_bits(b, n) + word_bits(w));
    if n + 32 < 64 { let mu = (n + 32) as u64; assert(nu <= 32 && (b >> nu) == 0 && mu == nu + 32 && mu < 64 ==> ((b | ((w as u64) << nu)) >> mu) == 0) by (bit_vector); }
}
// consuming the low m bits
proof fn lemma_buf_shift(b: u64, n: int, m: int)
  requires buf_clean(b, n), 0 <= m <= n, m < 64
  ensures buf_bits(b >> (m as u64), n - m) == buf_bits(b, n).skip(m), buf_clean(b >> (m as u64), n - m)
{
    let mu = m as u64;
    assert forall|i: int| 0 <= i < n - m implies buf_bits(b >> mu, n - m)[i] == buf_bits(b, n).skip(m)[i] by {
        let iu = i as u64; let ku = (i + m) as u64;
        assert(mu < 64 && ku < 64 && ku == iu + mu ==> (((b >> mu) >> iu) & 1 == 1) == ((b >> ku) & 1 == 1)) by (bit_vector);
    }
    assert(buf_bits(b >> mu, n - m) =~= buf_bits(b, n).skip(m));
    if n - m < 64 {
        let ru = (n - m) as u64; let nu = n as u64;
        if n < 64 { assert(mu < 64 && nu < 64 && ru == nu - mu && (b >> nu) == 0 ==> ((b >> mu) >> ru) == 0) by (bit_vector); }
        else { assert(mu < 64 && ru == 64 - mu && mu > 0 ==> ((b >> mu) >> ru) == 0) by (bit_vector); }
    }
}
// zeros above a clean buffer are already there
proof fn lemma_buf_zeros(b: u64, n: int, z: int)
  requires buf_clean(b, n), 0 <= z, n + z <= 64
  ensures buf_bits(b, n + z) == buf_bits(b, n) + zeros(z), buf_clean(b, n + z)
{
    let nu = n as u64;
    assert forall|i: int| 0 <= i < n + z implies buf_bits(b, n + z)[i] == (buf_bits(b, n) + zeros(z))[i] by {
        let iu = i as u64;
        if i >= n { assert(nu <= iu < 64 && (b >> nu) == 0 ==> !((b >> iu) & 1 == 1)) by (bit_vector); }
    }
    assert(buf_bits(b, n + z) =~= buf_bits(b, n) + zeros(z));
    if n + z < 64 { let mu = (n + z) as u64; assert(nu <= mu < 64 && (b >> nu) == 0 ==> (b >> mu) == 0) by (bit_vector); }
}
// a one enters r places above a clean buffer
proof fn lemma_buf_unary(b: u64, n: int, r: u64)
  requires buf_clean(b, n), n <= 31, r <= 15
  ensures buf_bits(b | ((1u64 << r) << (n as u64)), n + r + 1) == buf_bits(b, n) + unary(r as int), buf_clean(b | ((1u64 << r) << (n as u64)), n + r + 1)
{
    let nu = n as u64; let b2 = b | ((1u64 << r) << nu);
    assert forall|i: int| 0 <= i < n + r + 1 implies buf_bits(b2, n + r + 1)[i] == (buf_bits(b, n) + unary(r as int))[i] by {
        let iu = i as u64;
        assert(nu <= 31 && r <= 15 && (b >> nu) == 0 && iu <= nu + r ==> (((b | ((1u64 << r) << nu)) >> iu) & 1 == 1) == (if iu < nu { (b >> iu) & 1 == 1 } else { iu == nu + r })) by (bit_vector);
    }
    assert(buf_bits(b2, n + r + 1) =~= buf_bits(b, n) + unary(r as int));
    let mu = (n + r + 1) as u64;
    assert(nu <= 31 && r <= 15 && (b >> nu) == 0 && mu == nu + r + 1 ==> ((b | ((1u64 << r) << nu)) >> mu) == 0) by (bit_vector);
}
proof fn lemma_first_one_at(s: Seq<bool>, j: int)
  requires 0 <= j < s.len(), s[j], forall|i: int| 0 <= i < j ==> !s[i]
  ensures first_one(s) == j
  decreases j
{
    if j > 0 { lemma_first_one_at(s.skip(1), j - 1); }
}
proof fn lemma_first_one_skip(s: Seq<bool>, j: int)
  requires 0 <= j <= s.len(), forall|i: int| 0 <= i < j ==> !s[i]
  ensures first_one(s) == j + first_one(s.skip(j))
  decreases j
{
    if j > 0 { lemma_first_one_skip(s.skip(1), j - 1); assert(s.skip(1).skip(j - 1) =~= s.skip(j)); } else { assert(s.skip(0) =~= s); }
}
proof fn lemma_first_one_bound(s: Seq<bool>) ensures 0 <= first_one(s) <= s.len() decreases s.len() { if s.len() > 0 { lemma_first_one_bound(s.skip(1)); } }

fn maybe_flush_bitbuf ( bitbuf : & mut u64 , bufbits : & mut u8 , word : & mut [ u32 ] , word_index : & mut usize , ) requires * old ( bufbits ) >= 32 ==> * old ( word_index ) < old ( word ) @ . len ( ) , buf_clean ( * old ( bitbuf ) , * old ( bufbits ) as int ) , ensures
/*@C12.cpc.bits.flush*/ wstream ( final ( word ) @ , * final ( word_index ) as int , * final ( bitbuf ) , * final ( bufbits ) as int ) == wstream ( old ( word ) @ , * old ( word_index ) as int , * old ( bitbuf ) , * old ( bufbits ) as int ) , final ( word ) @ . len ( ) == old ( word ) @ . len ( ) , * old ( bufbits ) >= 32 ==> * final ( bufbits ) == * old ( bufbits ) - 32 && * final ( word_index ) == * old ( word_index ) + 1 , * old ( bufbits ) < 32 ==> * final ( bufbits ) == * old ( bufbits ) && * final ( word_index ) == * old ( word_index ) && * final ( bitbuf ) == * old ( bitbuf ) && final ( word ) @ == old ( word ) @ , buf_clean ( * final ( bitbuf ) , * final ( bufbits ) as int ) , {
if * bufbits >= 32 {
proof {
lemma_buf_split ( * bitbuf , * bufbits as int ) ;
lemma_buf_shift ( * bitbuf , * bufbits as int , 32 ) ;
}
word [ * word_index ] = ( * bitbuf & 0xffffffff ) as u32 ;
* word_index += 1 ;
* bitbuf >>= 32 ;
* bufbits -= 32 ;
proof {
let i0 = * old ( word_index ) as int ;
let lo = ( * old ( bitbuf ) & 0xffffffff ) as u32 ;
assert ( word @ . take ( i0 + 1 ) . drop_last ( ) =~= old ( word ) @ . take ( i0 ) ) ;
assert ( word @ . take ( i0 + 1 ) . last ( ) == lo ) ;
assert ( wstream ( word @ , i0 + 1 , * bitbuf , * bufbits as int ) =~= wstream ( old ( word ) @ , i0 , * old ( bitbuf ) , * old ( bufbits ) as int ) ) ;
}
}
}




fn maybe_fill_bitbuf ( bitbuf : & mut u64 , bufbits : & mut u8 , words : & [ u32 ] , word_index : & mut usize , minbits : u8 , ) requires
/*@C14.cpc.bits.fill_in_bounds*/ * old ( bufbits ) < minbits ==> * old ( word_index ) < words @ . len ( ) , minbits <= 32 , buf_clean ( * old ( bitbuf ) , * old ( bufbits ) as int ) , ensures
/*@C13.cpc.bits.fill*/ rstream ( words @ , * final ( word_index ) as int , * final ( bitbuf ) , * final ( bufbits ) as int ) == rstream ( words @ , * old ( word_index ) as int , * old ( bitbuf ) , * old ( bufbits ) as int ) , * final ( bufbits ) >= minbits , * old ( bufbits ) < minbits ==> * final ( bufbits ) == * old ( bufbits ) + 32 && * final ( word_index ) == * old ( word_index ) + 1 , * old ( bufbits ) >= minbits ==> * final ( bufbits ) == * old ( bufbits ) && * final ( word_index ) == * old ( word_index ) && * final ( bitbuf ) == * old ( bitbuf ) , buf_clean ( * final ( bitbuf ) , * final ( bufbits ) as int ) , {
if * bufbits < minbits {
proof {
let i0 = * word_index as int ;
let w = words @ [ i0 ] ;
lemma_buf_join ( * bitbuf , * bufbits as int , w ) ;
assert ( words @ . skip ( i0 ) =~= seq! [ w ] + words @ . skip ( i0 + 1 ) ) ;
lemma_words_bits_concat ( seq! [ w ] , words @ . skip ( i0 + 1 ) ) ;
lemma_words_bits_one ( w ) ;
let n = * bufbits as u64 ;
let nu = * bufbits ;
assert ( ( w as u64 ) << n == ( w as u64 ) << nu ) by ( bit_vector ) requires n == nu as u64 ;
}
* bitbuf |= ( words [ * word_index ] as u64 ) << * bufbits ;
* word_index += 1 ;
* bufbits += 32 ;
proof {
let i0 = * old ( word_index ) as int ;
let w = words @ [ i0 ] ;
assert ( rstream ( words @ , i0 + 1 , * bitbuf , * bufbits as int ) =~= rstream ( words @ , i0 , * old ( bitbuf ) , * old ( bufbits ) as int ) ) ;
}
}
}




fn write_unary ( compressed_words : & mut [ u32 ] , next_word_index : & mut usize , bitbuf : & mut u64 , bufbits : & mut u8 , value : u64 , ) requires * old ( bufbits ) <= 31 , buf_clean ( * old ( bitbuf ) , * old ( bufbits ) as int ) , 32 * * old ( next_word_index ) + * old ( bufbits ) + value + 1 <= 32 * old ( compressed_words ) @ . len ( ) + 31 , ensures
/*@C12.cpc.bits.write_unary*/ wstream ( final ( compressed_words ) @ , * final ( next_word_index ) as int , * final ( bitbuf ) , * final ( bufbits ) as int ) == wstream ( old ( compressed_words ) @ , * old ( next_word_index ) as int , * old ( bitbuf ) , * old ( bufbits ) as int ) + unary ( value as int ) , final ( compressed_words ) @ . len ( ) == old ( compressed_words ) @ . len ( ) , * final ( bufbits ) <= 31 , buf_clean ( * final ( bitbuf ) , * final ( bufbits ) as int ) , 32 * * final ( next_word_index ) + * final ( bufbits ) == 32 * * old ( next_word_index ) + * old ( bufbits ) + value + 1 , {
assert! ( * bufbits <= 31 ) ;
let ghost s0 = wstream ( compressed_words @ , * next_word_index as int , * bitbuf , * bufbits as int ) ;
let ghost len = compressed_words @ . len ( ) ;
let ghost t0 = 32 * * next_word_index + * bufbits ;
let mut remaining = value ;
proof {
assert ( s0 + zeros ( 0 ) =~= s0 ) ;
}
while remaining >= 16 invariant remaining <= value , compressed_words @ . len ( ) == len , * bufbits <= 31 , buf_clean ( * bitbuf , * bufbits as int ) , wstream ( compressed_words @ , * next_word_index as int , * bitbuf , * bufbits as int ) == s0 + zeros ( value - remaining ) , 32 * * next_word_index + * bufbits == t0 + ( value - remaining ) , t0 + value + 1 <= 32 * len + 31 , decreases remaining {
remaining -= 16 ;
proof {
lemma_buf_zeros ( * bitbuf , * bufbits as int , 16 ) ;
let w = words_bits ( compressed_words @ . take ( * next_word_index as int ) ) ;
assert ( w + ( buf_bits ( * bitbuf , * bufbits as int ) + zeros ( 16 ) ) =~= ( w + buf_bits ( * bitbuf , * bufbits as int ) ) + zeros ( 16 ) ) ;
assert ( s0 + zeros ( value - remaining - 16 ) + zeros ( 16 ) =~= s0 + zeros ( value - remaining ) ) ;
}
* bufbits += 16 ;
maybe_flush_bitbuf ( bitbuf , bufbits , compressed_words , next_word_index ) ;
}
proof {
lemma_buf_unary ( * bitbuf , * bufbits as int , remaining ) ;
let n = * bufbits as u64 ;
let nu = * bufbits ;
assert ( ( ( 1u64 << remaining ) << n ) == ( ( 1u64 << remaining ) << nu ) ) by ( bit_vector ) requires n == nu as u64 ;
assert ( remaining <= 15 ==> ( 1u64 << remaining ) <= 0x8000 ) by ( bit_vector ) ;
let w = words_bits ( compressed_words @ . take ( * next_word_index as int ) ) ;
assert ( w + ( buf_bits ( * bitbuf , * bufbits as int ) + unary ( remaining as int ) ) =~= ( w + buf_bits ( * bitbuf , * bufbits as int ) ) + unary ( remaining as int ) ) ;
assert ( s0 + zeros ( value - remaining ) + unary ( remaining as int ) =~= s0 + unary ( value as int ) ) ;
}
let the_unary_code = 1 << remaining ;
* bitbuf |= the_unary_code << * bufbits ;
* bufbits += ( remaining + 1 ) as u8 ;
maybe_flush_bitbuf ( bitbuf , bufbits , compressed_words , next_word_index ) ;
}




fn read_unary ( compressed_words : & [ u32 ] , next_word_index : & mut usize , bitbuf : & mut u64 , bufbits : & mut u8 , ) -> ( r : u64 ) requires buf_clean ( * old ( bitbuf ) , * old ( bufbits ) as int ) , * old ( bufbits ) <= 63 ,
/*@C14.cpc.bits.unary_terminates*/ first_one ( rstream ( compressed_words @ , * old ( next_word_index ) as int , * old ( bitbuf ) , * old ( bufbits ) as int ) ) + 8 <= rstream ( compressed_words @ , * old ( next_word_index ) as int , * old ( bitbuf ) , * old ( bufbits ) as int ) . len ( ) , * old ( next_word_index ) <= compressed_words @ . len ( ) <= 0x3ff_ffff_ffff_ffff , ensures
/*@C13.cpc.bits.read_unary*/ r == first_one ( rstream ( compressed_words @ , * old ( next_word_index ) as int , * old ( bitbuf ) , * old ( bufbits ) as int ) ) ,
/*@C13.cpc.bits.read_unary_rest*/ rstream ( compressed_words @ , * final ( next_word_index ) as int , * final ( bitbuf ) , * final ( bufbits ) as int ) == rstream ( compressed_words @ , * old ( next_word_index ) as int , * old ( bitbuf ) , * old ( bufbits ) as int ) . skip ( r + 1 ) , buf_clean ( * final ( bitbuf ) , * final ( bufbits ) as int ) , * final ( bufbits ) <= 63 , * final ( next_word_index ) <= compressed_words @ . len ( ) , {
let ghost rs0 = rstream ( compressed_words @ , * next_word_index as int , * bitbuf , * bufbits as int ) ;
let mut subtotal = 0u64 ;
proof {
assert ( rs0 . skip ( 0 ) =~= rs0 ) ;
lemma_first_one_bound ( rs0 ) ;
lemma_words_bits_len ( compressed_words @ . skip ( * next_word_index as int ) ) ;
}
loop invariant buf_clean ( * bitbuf , * bufbits as int ) , * bufbits <= 63 , * next_word_index <= compressed_words @ . len ( ) <= 0x3ff_ffff_ffff_ffff , rstream ( compressed_words @ , * next_word_index as int , * bitbuf , * bufbits as int ) == rs0 . skip ( subtotal as int ) , subtotal <= first_one ( rs0 ) , first_one ( rs0 ) == subtotal + first_one ( rs0 . skip ( subtotal as int ) ) , first_one ( rs0 ) + 8 <= rs0 . len ( ) , rs0 . len ( ) <= 64 + 32 * compressed_words @ . len ( ) , rs0 == rstream ( compressed_words @ , * old ( next_word_index ) as int , * old ( bitbuf ) , * old ( bufbits ) as int ) , decreases rs0 . len ( ) - subtotal {
let ghost cur = rs0 . skip ( subtotal as int ) ;
proof {
lemma_words_bits_len ( compressed_words @ . skip ( * next_word_index as int ) ) ;
}
maybe_fill_bitbuf ( bitbuf , bufbits , compressed_words , next_word_index , 8 ) ;
let peek8 = * bitbuf & 0xff ;
let trailing_zeros = peek8 . trailing_zeros ( ) as u8 ;
proof {
axiom_u64_trailing_zeros ( peek8 ) ;
let b = * bitbuf ;
let tz = u64_trailing_zeros ( peek8 ) ;
assert ( ( b & 0xff ) == 0 ==> forall | j : u64 | j < 8 ==> ! ( # [ trigger ] ( b >> j ) & 1 == 1 ) ) by ( bit_vector ) ;
assert ( forall | j : u64 | j < 8 ==> ( # [ trigger ] ( ( b & 0xff ) >> j ) & 1 == 1 ) == ( ( b >> j ) & 1 == 1 ) ) by ( bit_vector ) ;
assert ( ( b & 0xff ) != 0 ==> ( b & 0xff ) < 256 ) by ( bit_vector ) ;
if tz < 64 {
let t = tz as u64 ;
assert ( ( b & 0xff ) < 256 && ( ( b & 0xff ) >> t ) & 1 == 1 ==> t < 8 ) by ( bit_vector ) ;
}
lemma_words_bits_len ( compressed_words @ . skip ( * next_word_index as int ) ) ;
if trailing_zeros < 8 {
let t = trailing_zeros as int ;
assert ( cur [ t ] ) by {
assert ( cur [ t ] == bit64 ( b , t ) ) ;
assert ( ( ( peek8 >> ( t as u64 ) ) & 1 == 1 ) == ( ( b >> ( t as u64 ) ) & 1 == 1 ) ) ;
}
assert forall | i : int | 0 <= i < t implies ! cur [ i ] by {
let iu = i as u64 ;
assert ( cur [ i ] == bit64 ( b , i ) ) ;
assert ( ( peek8 >> iu ) & 1u64 == 0u64 ) ;
assert ( ( ( peek8 >> iu ) & 1 == 1 ) == ( ( b >> iu ) & 1 == 1 ) ) ;
}
lemma_first_one_at ( cur , t ) ;
lemma_buf_shift ( b , * bufbits as int , t + 1 ) ;
let sh = ( 1 + trailing_zeros ) as u8 ;
let sh64 = ( t + 1 ) as u64 ;
assert ( ( b >> sh ) == ( b >> sh64 ) ) by ( bit_vector ) requires sh64 == sh as u64 ;
}
else {
assert forall | i : int | 0 <= i < 8 implies ! cur [ i ] by {
let iu = i as u64 ;
assert ( cur [ i ] == bit64 ( b , i ) ) ;
assert ( ! ( ( b >> iu ) & 1 == 1 ) ) ;
}
lemma_first_one_skip ( cur , 8 ) ;
assert ( cur . skip ( 8 ) =~= rs0 . skip ( subtotal as int + 8 ) ) ;
lemma_buf_shift ( b , * bufbits as int , 8 ) ;
lemma_first_one_bound ( cur . skip ( 8 ) ) ;
}
}
if trailing_zeros < 8 {
* bufbits -= 1 + trailing_zeros ;
* bitbuf >>= 1 + trailing_zeros ;
proof {
let t = trailing_zeros as int ;
assert ( rstream ( compressed_words @ , * next_word_index as int , * bitbuf , * bufbits as int ) =~= cur . skip ( t + 1 ) ) ;
assert ( cur . skip ( t + 1 ) =~= rs0 . skip ( subtotal as int + t + 1 ) ) ;
}
return subtotal + trailing_zeros as u64 ;
}
subtotal += 8 ;
* bufbits -= 8 ;
* bitbuf >>= 8 ;
proof {
assert ( rstream ( compressed_words @ , * next_word_index as int , * bitbuf , * bufbits as int ) =~= cur . skip ( 8 ) ) ;
}
}
}




// C11 for the unary code: what write_unary appends is what read_unary consumes, and it returns the value
proof fn lemma_unary_roundtrip(v: int, rest: Seq<bool>)
  requires 0 <= v
  ensures /*@C11.cpc.unary*/ first_one(unary(v) + rest) == v, (unary(v) + rest).skip(v + 1) == rest
{
    let s = unary(v) + rest;
    assert(s[v]);
    lemma_first_one_at(s, v);
    assert(s.skip(v + 1) =~= rest);
}


// =====================================================================================================================
// Code tables.   encoding entry = (code_length << 12) | code_value      (code_value = the low code_length bits, LSB first)
//                decoding entry = (code_length << 8)  | symbol          (indexed by the next 12 bits of the stream)
// =====================================================================================================================
spec fn enc_len(e: u16) -> int { (e >> 12) as int }
spec fn enc_val(e: u16) -> u64 { (e & 0xfff) as u64 }
spec fn enc_entry_ok(e: u16) -> bool { 1 <= (e >> 12) <= 12 && ((e & 0xfff) >> (e >> 12)) == 0 }
spec fn enc_table_ok(t: Seq<u16>, nsym: int) -> bool { t.len() == nsym && forall|b: int| 0 <= b < nsym ==> enc_entry_ok(#[trigger] t[b]) }
spec fn dec_entry_ok(e: u16) -> bool { 1 <= (e >> 8) <= 12 }
spec fn dec_table_ok(t: Seq<u16>) -> bool { t.len() == 4096 && forall|i: int| 0 <= i < 4096 ==> dec_entry_ok(#[trigger] t[i]) }
// the code word of an encoding entry as a bit sequence
spec fn code_bits(e: u16) -> Seq<bool> { buf_bits(enc_val(e), enc_len(e)) }
// THE PER-SYMBOL PREFIX-CODE FACT, in exactly the form the Kani leaves check it on the real tables (kani/leaves_cpc_coder.rs):
// every 12-bit peek whose low `len` bits are the code of symbol b decodes to (len, b), whatever the remaining 12 - len bits are
spec fn peek_matches(e: u16, peek: u16) -> bool { (peek & (((1u16 << (e >> 12)) - 1) as u16)) == (e & 0xfff) }
spec fn prefix_ok(enc: Seq<u16>, dec: Seq<u16>, nsym: int) -> bool {
    &&& enc.len() == nsym && dec.len() == 4096 && nsym <= 256
    &&& forall|b: int, peek: u16| 0 <= b < nsym && peek < 4096 && #[trigger] peek_matches(enc[b], peek) ==> dec[peek as int] == (((enc[b] >> 12) << 8) | (b as u16))
}

// ---------- the byte stream: spec encoder, spec decoder ----------
spec fn enc_bytes(enc: Seq<u16>, bytes: Seq<u8>) -> Seq<bool> decreases bytes.len() {
    if bytes.len() == 0 { Seq::empty() } else { enc_bytes(enc, bytes.drop_last()) + code_bits(enc[bytes.last() as int]) }
}
#[verifier::opaque]
spec fn ors12(c0: bool, c1: bool, c2: bool, c3: bool, c4: bool, c5: bool, c6: bool, c7: bool, c8: bool, c9: bool, c10: bool, c11: bool) -> u64 { (if c0 { 1u64 } else { 0 }) | (if c1 { 2u64 } else { 0 }) | (if c2 { 4u64 } else { 0 }) | (if c3 { 8u64 } else { 0 }) | (if c4 { 16u64 } else { 0 }) | (if c5 { 32u64 } else { 0 }) | (if c6 { 64u64 } else { 0 }) | (if c7 { 128u64 } else { 0 }) | (if c8 { 256u64 } else { 0 }) | (if c9 { 512u64 } else { 0 }) | (if c10 { 1024u64 } else { 0 }) | (if c11 { 2048u64 } else { 0 }) }
// the next 12 bits of a stream as a table index (what `bitbuf & 0xfff` is after a fill)
spec fn peek12(s: Seq<bool>) -> u64 { ors12(s[0], s[1], s[2], s[3], s[4], s[5], s[6], s[7], s[8], s[9], s[10], s[11]) }
spec fn dec_bytes(dec: Seq<u16>, s: Seq<bool>, n: int) -> Seq<u8> decreases n {
    if n <= 0 { Seq::empty() } else { let e = dec[peek12(s) as int]; seq![(e & 0xff) as u8] + dec_bytes(dec, s.skip((e >> 8) as int), n - 1) }
}
// the decoder's 12-bit peek never runs past the end of the stream
spec fn dec_bytes_fits(dec: Seq<u16>, s: Seq<bool>, n: int) -> bool decreases n {
    n <= 0 || (s.len() >= 12 && dec_bytes_fits(dec, s.skip((dec[peek12(s) as int] >> 8) as int), n - 1))
}

proof fn lemma_peek12_lt(s: Seq<bool>) ensures peek12(s) < 4096 {
    reveal(ors12);
    let (c0, c1, c2, c3, c4, c5, c6, c7, c8, c9, c10, c11) = (s[0], s[1], s[2], s[3], s[4], s[5], s[6], s[7], s[8], s[9], s[10], s[11]);
    assert(((if c0 { 1u64 } else { 0 }) | (if c1 { 2u64 } else { 0 }) | (if c2 { 4u64 } else { 0 }) | (if c3 { 8u64 } else { 0 }) | (if c4 { 16u64 } else { 0 }) | (if c5 { 32u64 } else { 0 })
        | (if c6 { 64u64 } else { 0 }) | (if c7 { 128u64 } else { 0 }) | (if c8 { 256u64 } else { 0 }) | (if c9 { 512u64 } else { 0 }) | (if c10 { 1024u64 } else { 0 }) | (if c11 { 2048u64 } else { 0 })) < 4096) by (bit_vector);
}
// the exec peek `bitbuf & 0xfff` is peek12 of any stream whose first 12 bits are the low 12 bits of the buffer
// ---------- bridges between the two spellings of a mask / shift by a power of two: a behaviour-preserving edit may write `x % 0x1000` for
// `x & 0xfff`, `x / 64` for `x >> 6`, ...; the per-value lemmas below state their facts for BOTH spellings (benign/B6_7) ----------
proof fn lemma_bridge_u64(x: u64) ensures x % 0x1000 == x & 0xfff, x % 256 == x & 0xff, x % 0x1_0000_0000 == x & 0xffffffff, x / 0x1_0000_0000 == x >> 32, x / 256 == x >> 8 {
    assert(x % 0x1000 == x & 0xfff && x % 256 == x & 0xff && x % 0x1_0000_0000 == x & 0xffffffff && x / 0x1_0000_0000 == x >> 32 && x / 256 == x >> 8) by (bit_vector);
}
proof fn lemma_bridge_u32(x: u32) ensures x % 64 == x & 63, x / 64 == x >> 6 {
    assert(x % 64 == x & 63 && x / 64 == x >> 6) by (bit_vector);
}
proof fn lemma_bridge_u16(e: u16) ensures e % 0x1000 == e & 0xfff, e / 0x1000 == e >> 12, e % 256 == e & 0xff, e / 256 == e >> 8 {
    assert(e % 0x1000 == e & 0xfff && e / 0x1000 == e >> 12 && e % 256 == e & 0xff && e / 256 == e >> 8) by (bit_vector);
}
proof fn lemma_bridge_u8(c: u8) ensures c % 64 == c & 63 {
    assert(c % 64 == c & 63) by (bit_vector);
}
proof fn lemma_peek12_of_buf(b: u64, s: Seq<bool>)
  requires s.len() >= 12, forall|i: int| 0 <= i < 12 ==> (#[trigger] s[i]) == bit64(b, i)
  ensures (b & 0xfff) == peek12(s), (b & 0xfff) < 4096, (b % 0x1000) == (b & 0xfff)
{
    lemma_bridge_u64(b);
    reveal(ors12);
    let (c0, c1, c2, c3, c4, c5, c6, c7, c8, c9, c10, c11) = (s[0], s[1], s[2], s[3], s[4], s[5], s[6], s[7], s[8], s[9], s[10], s[11]);
    assert(c0 == bit64(b, 0) && c1 == bit64(b, 1) && c2 == bit64(b, 2) && c3 == bit64(b, 3) && c4 == bit64(b, 4) && c5 == bit64(b, 5));
    assert(c6 == bit64(b, 6) && c7 == bit64(b, 7) && c8 == bit64(b, 8) && c9 == bit64(b, 9) && c10 == bit64(b, 10) && c11 == bit64(b, 11));
    assert((b & 0xfff) == ((if c0 { 1u64 } else { 0 }) | (if c1 { 2u64 } else { 0 }) | (if c2 { 4u64 } else { 0 }) | (if c3 { 8u64 } else { 0 }) | (if c4 { 16u64 } else { 0 }) | (if c5 { 32u64 } else { 0 })
        | (if c6 { 64u64 } else { 0 }) | (if c7 { 128u64 } else { 0 }) | (if c8 { 256u64 } else { 0 }) | (if c9 { 512u64 } else { 0 }) | (if c10 { 1024u64 } else { 0 }) | (if c11 { 2048u64 } else { 0 }))
        && (b & 0xfff) < 4096) by (bit_vector)
      requires c0 == ((b >> 0u64) & 1 == 1), c1 == ((b >> 1u64) & 1 == 1), c2 == ((b >> 2u64) & 1 == 1), c3 == ((b >> 3u64) & 1 == 1), c4 == ((b >> 4u64) & 1 == 1), c5 == ((b >> 5u64) & 1 == 1),
        c6 == ((b >> 6u64) & 1 == 1), c7 == ((b >> 7u64) & 1 == 1), c8 == ((b >> 8u64) & 1 == 1), c9 == ((b >> 9u64) & 1 == 1), c10 == ((b >> 10u64) & 1 == 1), c11 == ((b >> 11u64) & 1 == 1);
}
proof fn lemma_match_bv(e: u16, v: u64, l: int, c0: bool, c1: bool, c2: bool, c3: bool, c4: bool, c5: bool, c6: bool, c7: bool, c8: bool, c9: bool, c10: bool, c11: bool)
  requires enc_entry_ok(e), v == enc_val(e), l == enc_len(e),
    0 < l ==> c0 == bit64(v, 0),
    1 < l ==> c1 == bit64(v, 1),
    2 < l ==> c2 == bit64(v, 2),
    3 < l ==> c3 == bit64(v, 3),
    4 < l ==> c4 == bit64(v, 4),
    5 < l ==> c5 == bit64(v, 5),
    6 < l ==> c6 == bit64(v, 6),
    7 < l ==> c7 == bit64(v, 7),
    8 < l ==> c8 == bit64(v, 8),
    9 < l ==> c9 == bit64(v, 9),
    10 < l ==> c10 == bit64(v, 10),
    11 < l ==> c11 == bit64(v, 11),
  ensures peek_matches(e, ors12(c0, c1, c2, c3, c4, c5, c6, c7, c8, c9, c10, c11) as u16)
{
    reveal(ors12);
    let p = ors12(c0, c1, c2, c3, c4, c5, c6, c7, c8, c9, c10, c11); let lu = e >> 12;
    if lu == 1 {
        assert(c0 == bit64(v, 0));
        assert(((p as u16) & (((1u16 << lu) - 1) as u16)) == (e & 0xfff)) by (bit_vector)
          requires p == ((if c0 { 1u64 } else { 0 }) | (if c1 { 2u64 } else { 0 }) | (if c2 { 4u64 } else { 0 }) | (if c3 { 8u64 } else { 0 }) | (if c4 { 16u64 } else { 0 }) | (if c5 { 32u64 } else { 0 }) | (if c6 { 64u64 } else { 0 }) | (if c7 { 128u64 } else { 0 }) | (if c8 { 256u64 } else { 0 }) | (if c9 { 512u64 } else { 0 }) | (if c10 { 1024u64 } else { 0 }) | (if c11 { 2048u64 } else { 0 })),
            lu == 1, lu == e >> 12, ((e & 0xfff) >> lu) == 0, v == (e & 0xfff) as u64, c0 == ((v >> 0u64) & 1 == 1);
    }
    if lu == 2 {
        assert(c0 == bit64(v, 0)); assert(c1 == bit64(v, 1));
        assert(((p as u16) & (((1u16 << lu) - 1) as u16)) == (e & 0xfff)) by (bit_vector)
          requires p == ((if c0 { 1u64 } else { 0 }) | (if c1 { 2u64 } else { 0 }) | (if c2 { 4u64 } else { 0 }) | (if c3 { 8u64 } else { 0 }) | (if c4 { 16u64 } else { 0 }) | (if c5 { 32u64 } else { 0 }) | (if c6 { 64u64 } else { 0 }) | (if c7 { 128u64 } else { 0 }) | (if c8 { 256u64 } else { 0 }) | (if c9 { 512u64 } else { 0 }) | (if c10 { 1024u64 } else { 0 }) | (if c11 { 2048u64 } else { 0 })),
            lu == 2, lu == e >> 12, ((e & 0xfff) >> lu) == 0, v == (e & 0xfff) as u64, c0 == ((v >> 0u64) & 1 == 1), c1 == ((v >> 1u64) & 1 == 1);
    }
    if lu == 3 {
        assert(c0 == bit64(v, 0)); assert(c1 == bit64(v, 1)); assert(c2 == bit64(v, 2));
        assert(((p as u16) & (((1u16 << lu) - 1) as u16)) == (e & 0xfff)) by (bit_vector)
          requires p == ((if c0 { 1u64 } else { 0 }) | (if c1 { 2u64 } else { 0 }) | (if c2 { 4u64 } else { 0 }) | (if c3 { 8u64 } else { 0 }) | (if c4 { 16u64 } else { 0 }) | (if c5 { 32u64 } else { 0 }) | (if c6 { 64u64 } else { 0 }) | (if c7 { 128u64 } else { 0 }) | (if c8 { 256u64 } else { 0 }) | (if c9 { 512u64 } else { 0 }) | (if c10 { 1024u64 } else { 0 }) | (if c11 { 2048u64 } else { 0 })),
            lu == 3, lu == e >> 12, ((e & 0xfff) >> lu) == 0, v == (e & 0xfff) as u64, c0 == ((v >> 0u64) & 1 == 1), c1 == ((v >> 1u64) & 1 == 1), c2 == ((v >> 2u64) & 1 == 1);
    }
    if lu == 4 {
        assert(c0 == bit64(v, 0)); assert(c1 == bit64(v, 1)); assert(c2 == bit64(v, 2)); assert(c3 == bit64(v, 3));
        assert(((p as u16) & (((1u16 << lu) - 1) as u16)) == (e & 0xfff)) by (bit_vector)
          requires p == ((if c0 { 1u64 } else { 0 }) | (if c1 { 2u64 } else { 0 }) | (if c2 { 4u64 } else { 0 }) | (if c3 { 8u64 } else { 0 }) | (if c4 { 16u64 } else { 0 }) | (if c5 { 32u64 } else { 0 }) | (if c6 { 64u64 } else { 0 }) | (if c7 { 128u64 } else { 0 }) | (if c8 { 256u64 } else { 0 }) | (if c9 { 512u64 } else { 0 }) | (if c10 { 1024u64 } else { 0 }) | (if c11 { 2048u64 } else { 0 })),
            lu == 4, lu == e >> 12, ((e & 0xfff) >> lu) == 0, v == (e & 0xfff) as u64, c0 == ((v >> 0u64) & 1 == 1), c1 == ((v >> 1u64) & 1 == 1), c2 == ((v >> 2u64) & 1 == 1), c3 == ((v >> 3u64) & 1 == 1);
    }
    if lu == 5 {
        assert(c0 == bit64(v, 0)); assert(c1 == bit64(v, 1)); assert(c2 == bit64(v, 2)); assert(c3 == bit64(v, 3)); assert(c4 == bit64(v, 4));
        assert(((p as u16) & (((1u16 << lu) - 1) as u16)) == (e & 0xfff)) by (bit_vector)
          requires p == ((if c0 { 1u64 } else { 0 }) | (if c1 { 2u64 } else { 0 }) | (if c2 { 4u64 } else { 0 }) | (if c3 { 8u64 } else { 0 }) | (if c4 { 16u64 } else { 0 }) | (if c5 { 32u64 } else { 0 }) | (if c6 { 64u64 } else { 0 }) | (if c7 { 128u64 } else { 0 }) | (if c8 { 256u64 } else { 0 }) | (if c9 { 512u64 } else { 0 }) | (if c10 { 1024u64 } else { 0 }) | (if c11 { 2048u64 } else { 0 })),
            lu == 5, lu == e >> 12, ((e & 0xfff) >> lu) == 0, v == (e & 0xfff) as u64, c0 == ((v >> 0u64) & 1 == 1), c1 == ((v >> 1u64) & 1 == 1), c2 == ((v >> 2u64) & 1 == 1), c3 == ((v >> 3u64) & 1 == 1), c4 == ((v >> 4u64) & 1 == 1);
    }
    if lu == 6 {
        assert(c0 == bit64(v, 0)); assert(c1 == bit64(v, 1)); assert(c2 == bit64(v, 2)); assert(c3 == bit64(v, 3)); assert(c4 == bit64(v, 4)); assert(c5 == bit64(v, 5));
        assert(((p as u16) & (((1u16 << lu) - 1) as u16)) == (e & 0xfff)) by (bit_vector)
          requires p == ((if c0 { 1u64 } else { 0 }) | (if c1 { 2u64 } else { 0 }) | (if c2 { 4u64 } else { 0 }) | (if c3 { 8u64 } else { 0 }) | (if c4 { 16u64 } else { 0 }) | (if c5 { 32u64 } else { 0 }) | (if c6 { 64u64 } else { 0 }) | (if c7 { 128u64 } else { 0 }) | (if c8 { 256u64 } else { 0 }) | (if c9 { 512u64 } else { 0 }) | (if c10 { 1024u64 } else { 0 }) | (if c11 { 2048u64 } else { 0 })),
            lu == 6, lu == e >> 12, ((e & 0xfff) >> lu) == 0, v == (e & 0xfff) as u64, c0 == ((v >> 0u64) & 1 == 1), c1 == ((v >> 1u64) & 1 == 1), c2 == ((v >> 2u64) & 1 == 1), c3 == ((v >> 3u64) & 1 == 1), c4 == ((v >> 4u64) & 1 == 1), c5 == ((v >> 5u64) & 1 == 1);
    }
    if lu == 7 {
        assert(c0 == bit64(v, 0)); assert(c1 == bit64(v, 1)); assert(c2 == bit64(v, 2)); assert(c3 == bit64(v, 3)); assert(c4 == bit64(v, 4)); assert(c5 == bit64(v, 5)); assert(c6 == bit64(v, 6));
        assert(((p as u16) & (((1u16 << lu) - 1) as u16)) == (e & 0xfff)) by (bit_vector)
          requires p == ((if c0 { 1u64 } else { 0 }) | (if c1 { 2u64 } else { 0 }) | (if c2 { 4u64 } else { 0 }) | (if c3 { 8u64 } else { 0 }) | (if c4 { 16u64 } else { 0 }) | (if c5 { 32u64 } else { 0 }) | (if c6 { 64u64 } else { 0 }) | (if c7 { 128u64 } else { 0 }) | (if c8 { 256u64 } else { 0 }) | (if c9 { 512u64 } else { 0 }) | (if c10 { 1024u64 } else { 0 }) | (if c11 { 2048u64 } else { 0 })),
            lu == 7, lu == e >> 12, ((e & 0xfff) >> lu) == 0, v == (e & 0xfff) as u64, c0 == ((v >> 0u64) & 1 == 1), c1 == ((v >> 1u64) & 1 == 1), c2 == ((v >> 2u64) & 1 == 1), c3 == ((v >> 3u64) & 1 == 1), c4 == ((v >> 4u64) & 1 == 1), c5 == ((v >> 5u64) & 1 == 1), c6 == ((v >> 6u64) & 1 == 1);
    }
    if lu == 8 {
        assert(c0 == bit64(v, 0)); assert(c1 == bit64(v, 1)); assert(c2 == bit64(v, 2)); assert(c3 == bit64(v, 3)); assert(c4 == bit64(v, 4)); assert(c5 == bit64(v, 5)); assert(c6 == bit64(v, 6)); assert(c7 == bit64(v, 7));
        assert(((p as u16) & (((1u16 << lu) - 1) as u16)) == (e & 0xfff)) by (bit_vector)
          requires p == ((if c0 { 1u64 } else { 0 }) | (if c1 { 2u64 } else { 0 }) | (if c2 { 4u64 } else { 0 }) | (if c3 { 8u64 } else { 0 }) | (if c4 { 16u64 } else { 0 }) | (if c5 { 32u64 } else { 0 }) | (if c6 { 64u64 } else { 0 }) | (if c7 { 128u64 } else { 0 }) | (if c8 { 256u64 } else { 0 }) | (if c9 { 512u64 } else { 0 }) | (if c10 { 1024u64 } else { 0 }) | (if c11 { 2048u64 } else { 0 })),
            lu == 8, lu == e >> 12, ((e & 0xfff) >> lu) == 0, v == (e & 0xfff) as u64, c0 == ((v >> 0u64) & 1 == 1), c1 == ((v >> 1u64) & 1 == 1), c2 == ((v >> 2u64) & 1 == 1), c3 == ((v >> 3u64) & 1 == 1), c4 == ((v >> 4u64) & 1 == 1), c5 == ((v >> 5u64) & 1 == 1), c6 == ((v >> 6u64) & 1 == 1), c7 == ((v >> 7u64) & 1 == 1);
    }
    if lu == 9 {
        assert(c0 == bit64(v, 0)); assert(c1 == bit64(v, 1)); assert(c2 == bit64(v, 2)); assert(c3 == bit64(v, 3)); assert(c4 == bit64(v, 4)); assert(c5 == bit64(v, 5)); assert(c6 == bit64(v, 6)); assert(c7 == bit64(v, 7)); assert(c8 == bit64(v, 8));
        assert(((p as u16) & (((1u16 << lu) - 1) as u16)) == (e & 0xfff)) by (bit_vector)
          requires p == ((if c0 { 1u64 } else { 0 }) | (if c1 { 2u64 } else { 0 }) | (if c2 { 4u64 } else { 0 }) | (if c3 { 8u64 } else { 0 }) | (if c4 { 16u64 } else { 0 }) | (if c5 { 32u64 } else { 0 }) | (if c6 { 64u64 } else { 0 }) | (if c7 { 128u64 } else { 0 }) | (if c8 { 256u64 } else { 0 }) | (if c9 { 512u64 } else { 0 }) | (if c10 { 1024u64 } else { 0 }) | (if c11 { 2048u64 } else { 0 })),
            lu == 9, lu == e >> 12, ((e & 0xfff) >> lu) == 0, v == (e & 0xfff) as u64, c0 == ((v >> 0u64) & 1 == 1), c1 == ((v >> 1u64) & 1 == 1), c2 == ((v >> 2u64) & 1 == 1), c3 == ((v >> 3u64) & 1 == 1), c4 == ((v >> 4u64) & 1 == 1), c5 == ((v >> 5u64) & 1 == 1), c6 == ((v >> 6u64) & 1 == 1), c7 == ((v >> 7u64) & 1 == 1), c8 == ((v >> 8u64) & 1 == 1);
    }
    if lu == 10 {
        assert(c0 == bit64(v, 0)); assert(c1 == bit64(v, 1)); assert(c2 == bit64(v, 2)); assert(c3 == bit64(v, 3)); assert(c4 == bit64(v, 4)); assert(c5 == bit64(v, 5)); assert(c6 == bit64(v, 6)); assert(c7 == bit64(v, 7)); assert(c8 == bit64(v, 8)); assert(c9 == bit64(v, 9));
        assert(((p as u16) & (((1u16 << lu) - 1) as u16)) == (e & 0xfff)) by (bit_vector)
          requires p == ((if c0 { 1u64 } else { 0 }) | (if c1 { 2u64 } else { 0 }) | (if c2 { 4u64 } else { 0 }) | (if c3 { 8u64 } else { 0 }) | (if c4 { 16u64 } else { 0 }) | (if c5 { 32u64 } else { 0 }) | (if c6 { 64u64 } else { 0 }) | (if c7 { 128u64 } else { 0 }) | (if c8 { 256u64 } else { 0 }) | (if c9 { 512u64 } else { 0 }) | (if c10 { 1024u64 } else { 0 }) | (if c11 { 2048u64 } else { 0 })),
            lu == 10, lu == e >> 12, ((e & 0xfff) >> lu) == 0, v == (e & 0xfff) as u64, c0 == ((v >> 0u64) & 1 == 1), c1 == ((v >> 1u64) & 1 == 1), c2 == ((v >> 2u64) & 1 == 1), c3 == ((v >> 3u64) & 1 == 1), c4 == ((v >> 4u64) & 1 == 1), c5 == ((v >> 5u64) & 1 == 1), c6 == ((v >> 6u64) & 1 == 1), c7 == ((v >> 7u64) & 1 == 1), c8 == ((v >> 8u64) & 1 == 1), c9 == ((v >> 9u64) & 1 == 1);
    }
    if lu == 11 {
        assert(c0 == bit64(v, 0)); assert(c1 == bit64(v, 1)); assert(c2 == bit64(v, 2)); assert(c3 == bit64(v, 3)); assert(c4 == bit64(v, 4)); assert(c5 == bit64(v, 5)); assert(c6 == bit64(v, 6)); assert(c7 == bit64(v, 7)); assert(c8 == bit64(v, 8)); assert(c9 == bit64(v, 9)); assert(c10 == bit64(v, 10));
        assert(((p as u16) & (((1u16 << lu) - 1) as u16)) == (e & 0xfff)) by (bit_vector)
          requires p == ((if c0 { 1u64 } else { 0 }) | (if c1 { 2u64 } else { 0 }) | (if c2 { 4u64 } else { 0 }) | (if c3 { 8u64 } else { 0 }) | (if c4 { 16u64 } else { 0 }) | (if c5 { 32u64 } else { 0 }) | (if c6 { 64u64 } else { 0 }) | (if c7 { 128u64 } else { 0 }) | (if c8 { 256u64 } else { 0 }) | (if c9 { 512u64 } else { 0 }) | (if c10 { 1024u64 } else { 0 }) | (if c11 { 2048u64 } else { 0 })),
            lu == 11, lu == e >> 12, ((e & 0xfff) >> lu) == 0, v == (e & 0xfff) as u64, c0 == ((v >> 0u64) & 1 == 1), c1 == ((v >> 1u64) & 1 == 1), c2 == ((v >> 2u64) & 1 == 1), c3 == ((v >> 3u64) & 1 == 1), c4 == ((v >> 4u64) & 1 == 1), c5 == ((v >> 5u64) & 1 == 1), c6 == ((v >> 6u64) & 1 == 1), c7 == ((v >> 7u64) & 1 == 1), c8 == ((v >> 8u64) & 1 == 1), c9 == ((v >> 9u64) & 1 == 1), c10 == ((v >> 10u64) & 1 == 1);
    }
    if lu == 12 {
        assert(c0 == bit64(v, 0)); assert(c1 == bit64(v, 1)); assert(c2 == bit64(v, 2)); assert(c3 == bit64(v, 3)); assert(c4 == bit64(v, 4)); assert(c5 == bit64(v, 5)); assert(c6 == bit64(v, 6)); assert(c7 == bit64(v, 7)); assert(c8 == bit64(v, 8)); assert(c9 == bit64(v, 9)); assert(c10 == bit64(v, 10)); assert(c11 == bit64(v, 11));
        assert(((p as u16) & (((1u16 << lu) - 1) as u16)) == (e & 0xfff)) by (bit_vector)
          requires p == ((if c0 { 1u64 } else { 0 }) | (if c1 { 2u64 } else { 0 }) | (if c2 { 4u64 } else { 0 }) | (if c3 { 8u64 } else { 0 }) | (if c4 { 16u64 } else { 0 }) | (if c5 { 32u64 } else { 0 }) | (if c6 { 64u64 } else { 0 }) | (if c7 { 128u64 } else { 0 }) | (if c8 { 256u64 } else { 0 }) | (if c9 { 512u64 } else { 0 }) | (if c10 { 1024u64 } else { 0 }) | (if c11 { 2048u64 } else { 0 })),
            lu == 12, lu == e >> 12, ((e & 0xfff) >> lu) == 0, v == (e & 0xfff) as u64, c0 == ((v >> 0u64) & 1 == 1), c1 == ((v >> 1u64) & 1 == 1), c2 == ((v >> 2u64) & 1 == 1), c3 == ((v >> 3u64) & 1 == 1), c4 == ((v >> 4u64) & 1 == 1), c5 == ((v >> 5u64) & 1 == 1), c6 == ((v >> 6u64) & 1 == 1), c7 == ((v >> 7u64) & 1 == 1), c8 == ((v >> 8u64) & 1 == 1), c9 == ((v >> 9u64) & 1 == 1), c10 == ((v >> 10u64) & 1 == 1), c11 == ((v >> 11u64) & 1 == 1);
    }
}
// a stream that starts with the code word of entry e (followed by anything) has a 12-bit peek that matches e
proof fn lemma_peek12_matches(e: u16, s: Seq<bool>)
  requires enc_entry_ok(e), s.len() >= 12, forall|i: int| 0 <= i < enc_len(e) ==> (#[trigger] s[i]) == bit64(enc_val(e), i)
  ensures peek_matches(e, peek12(s) as u16)
{
    lemma_match_bv(e, enc_val(e), enc_len(e), s[0], s[1], s[2], s[3], s[4], s[5], s[6], s[7], s[8], s[9], s[10], s[11]);
}
// v enters above the low n bits of a clean buffer (the `bitbuf |= code_val << bufbits` of both encoders)
proof fn lemma_buf_append(b: u64, n: int, v: u64, m: int)
  requires buf_clean(b, n), buf_clean(v, m), n + m <= 64, n < 64
  ensures buf_bits(b | (v << (n as u64)), n + m) == buf_bits(b, n) + buf_bits(v, m), buf_clean(b | (v << (n as u64)), n + m)
{
    let nu = n as u64; let mu = m as u64; let b2 = b | (v << nu);
    assert forall|i: int| 0 <= i < n + m implies buf_bits(b2, n + m)[i] == (buf_bits(b, n) + buf_bits(v, m))[i] by {
        let iu = i as u64;
        if i < n {
            assert(nu < 64 && iu < nu ==> (((b | (v << nu)) >> iu) & 1 == 1) == ((b >> iu) & 1 == 1)) by (bit_vector);
        } else {
            let ju = (i - n) as u64;
            assert(nu < 64 && (b >> nu) == 0 && nu <= iu < 64 && ju == iu - nu ==> (((b | (v << nu)) >> iu) & 1 == 1) == ((v >> ju) & 1 == 1)) by (bit_vector);
        }
    }
    assert(buf_bits(b2, n + m) =~= buf_bits(b, n) + buf_bits(v, m));
    if n + m < 64 {
        let tu = (n + m) as u64;
        if m < 64 { assert(nu < 64 && mu < 64 && tu == nu + mu && tu < 64 && (b >> nu) == 0 && (v >> mu) == 0 ==> ((b | (v << nu)) >> tu) == 0) by (bit_vector); }
    }
}
proof fn lemma_enc_entry(e: u16) requires enc_entry_ok(e)
  ensures ((e >> 12) as u8) == enc_len(e), 1 <= enc_len(e) <= 12, buf_clean(enc_val(e), enc_len(e)), code_bits(e).len() == enc_len(e), ((e & 0xfff) as u64) == enc_val(e),
    e % 0x1000 == e & 0xfff, e / 0x1000 == e >> 12
{
    lemma_bridge_u16(e);
    let l = e >> 12; let v = (e & 0xfff) as u64; let lu = enc_len(e) as u64;
    assert((v >> lu) == 0) by (bit_vector) requires v == (e & 0xfff) as u64, lu == (e >> 12) as u64, ((e & 0xfff) >> (e >> 12)) == 0;
}
proof fn lemma_dec_entry(e: u16) requires dec_entry_ok(e) ensures ((e >> 8) as u8) == (e >> 8), 1 <= ((e >> 8) as u8) <= 12, (e & 0xff) < 256, e % 256 == e & 0xff, e / 256 == e >> 8 {
    lemma_bridge_u16(e);
    assert((e & 0xff) < 256) by (bit_vector);
}
proof fn lemma_enc_bytes_push(enc: Seq<u16>, bytes: Seq<u8>, i: int) requires 0 <= i < bytes.len()
  ensures enc_bytes(enc, bytes.take(i + 1)) == enc_bytes(enc, bytes.take(i)) + code_bits(enc[bytes[i] as int])
{
    assert(bytes.take(i + 1).drop_last() =~= bytes.take(i));
}
proof fn lemma_enc_bytes_len(enc: Seq<u16>, bytes: Seq<u8>) requires enc_table_ok(enc, 256)
  ensures bytes.len() <= enc_bytes(enc, bytes).len() <= 12 * bytes.len() decreases bytes.len()
{
    if bytes.len() > 0 { lemma_enc_bytes_len(enc, bytes.drop_last()); lemma_enc_entry(enc[bytes.last() as int]); }
}
proof fn lemma_enc_bytes_head(enc: Seq<u16>, bytes: Seq<u8>) requires bytes.len() > 0
  ensures enc_bytes(enc, bytes) == code_bits(enc[bytes[0] as int]) + enc_bytes(enc, bytes.skip(1)) decreases bytes.len()
{
    if bytes.len() == 1 {
        assert(bytes.drop_last() =~= Seq::<u8>::empty()); assert(bytes.skip(1) =~= Seq::<u8>::empty());
        assert(enc_bytes(enc, bytes) =~= code_bits(enc[bytes[0] as int]) + enc_bytes(enc, bytes.skip(1)));
    } else {
        lemma_enc_bytes_head(enc, bytes.drop_last());
        assert(bytes.drop_last().skip(1) =~= bytes.skip(1).drop_last());
        assert(bytes.skip(1).last() == bytes.last());
        assert(enc_bytes(enc, bytes) =~= code_bits(enc[bytes[0] as int]) + enc_bytes(enc, bytes.skip(1)));
    }
}

// C11 for the window bytes at spec level: the spec decoder inverts the spec encoder, for ANY pair of tables with the prefix-code fact
// and ANY following bits `rest` of at least 11 bits (the encoder's padding)
proof fn lemma_bytes_roundtrip(enc: Seq<u16>, dec: Seq<u16>, bytes: Seq<u8>, rest: Seq<bool>)
  requires enc_table_ok(enc, 256), prefix_ok(enc, dec, 256), rest.len() >= 11
  ensures /*@C11.cpc.coder_bytes_roundtrip*/ dec_bytes(dec, enc_bytes(enc, bytes) + rest, bytes.len() as int) == bytes,
    /*@C11.cpc.coder_bytes_fits*/ dec_bytes_fits(dec, enc_bytes(enc, bytes) + rest, bytes.len() as int)
  decreases bytes.len()
{
    let s = enc_bytes(enc, bytes) + rest;
    if bytes.len() > 0 {
        let b = bytes[0]; let e = enc[b as int];
        lemma_enc_entry(e);
        lemma_enc_bytes_head(enc, bytes);
        let tail = enc_bytes(enc, bytes.skip(1)) + rest;
        assert(s =~= code_bits(e) + tail);
        assert forall|i: int| 0 <= i < enc_len(e) implies (#[trigger] s[i]) == bit64(enc_val(e), i) by { assert(s[i] == code_bits(e)[i]); }
        lemma_peek12_matches(e, s); lemma_peek12_lt(s);
        let p = peek12(s) as u16;
        assert(peek_matches(enc[b as int], p));
        let d = dec[p as int];
        assert(d == (((e >> 12) << 8) | (b as u16)));
        let bb = b as u16;
        assert((d >> 8) == (e >> 12) && ((d & 0xff) as u8) == b) by (bit_vector) requires d == (((e >> 12) << 8) | bb), bb == b as u16, 1 <= (e >> 12) <= 12;
        assert(s.skip(enc_len(e)) =~= tail);
        lemma_bytes_roundtrip(enc, dec, bytes.skip(1), rest);
        assert(dec_bytes(dec, s, bytes.len() as int) =~= seq![b] + bytes.skip(1));
        assert(seq![b] + bytes.skip(1) =~= bytes);
    } else {
        assert(dec_bytes(dec, s, 0) =~= bytes);
    }
}

struct CompressedState {
table_data : Vec < u32 > , table_data_words : usize , table_num_entries : u32 , window_data : Vec < u32 > , window_data_words : usize , }



proof fn lemma_zeros_add(a: int, b: int) requires a >= 0, b >= 0 ensures zeros(a) + zeros(b) == zeros(a + b) { assert(zeros(a) + zeros(b) =~= zeros(a + b)); }
proof fn lemma_take_push_bits(ws: Seq<u32>, i: int) requires 0 <= i < ws.len()
  ensures words_bits(ws.take(i + 1)) == words_bits(ws.take(i)) + word_bits(ws[i])
{
    assert(ws.take(i + 1).drop_last() =~= ws.take(i));
}

// the final flush of both encoders: the pending bits leave as one word, zero-filled
proof fn lemma_last_word(wd_before: Seq<u32>, wd_after: Seq<u32>, i0: int, bitbuf: u64, bufbits: int, s: Seq<bool>)
  requires wstream(wd_before, i0, bitbuf, bufbits) == s, 0 < bufbits < 32, buf_clean(bitbuf, bufbits), 0 <= i0 < wd_before.len(),
    wd_after == wd_before.update(i0, (bitbuf & 0xffffffff) as u32)
  ensures words_bits(wd_after.take(i0 + 1)) == s + zeros(32 - bufbits), words_bits(wd_after.take(i0 + 1)).len() == 32 * (i0 + 1)
{
    lemma_buf_zeros(bitbuf, bufbits, 32 - bufbits);
    lemma_buf_split(bitbuf, 32);
    assert(buf_bits(bitbuf >> 32, 0) =~= Seq::<bool>::empty());
    lemma_take_push_bits(wd_after, i0);
    assert(wd_after.take(i0) =~= wd_before.take(i0));
    let w = words_bits(wd_after.take(i0));
    assert(w + (buf_bits(bitbuf, bufbits) + zeros(32 - bufbits)) =~= (w + buf_bits(bitbuf, bufbits)) + zeros(32 - bufbits));
    lemma_words_bits_len(wd_after.take(i0 + 1));
}
proof fn lemma_no_last_word(wd: Seq<u32>, i0: int, bitbuf: u64, s: Seq<bool>)
  requires wstream(wd, i0, bitbuf, 0) == s, 0 <= i0 <= wd.len()
  ensures words_bits(wd.take(i0)) == s, words_bits(wd.take(i0)).len() == 32 * i0
{
    assert(buf_bits(bitbuf, 0) =~= Seq::<bool>::empty());
    let w = words_bits(wd.take(i0));
    assert(w + buf_bits(bitbuf, 0) =~= w);
    lemma_words_bits_len(wd.take(i0));
}
// the padding: bufbits += pad without touching bitbuf appends pad zero bits
proof fn lemma_pad(wd: Seq<u32>, i0: int, bitbuf: u64, bufbits: int, pad: int, s: Seq<bool>)
  requires wstream(wd, i0, bitbuf, bufbits) == s, buf_clean(bitbuf, bufbits), 0 <= pad, bufbits + pad <= 64
  ensures wstream(wd, i0, bitbuf, bufbits + pad) == s + zeros(pad), buf_clean(bitbuf, bufbits + pad)
{
    lemma_buf_zeros(bitbuf, bufbits, pad);
    let w = words_bits(wd.take(i0));
    assert(w + (buf_bits(bitbuf, bufbits) + zeros(pad)) =~= (w + buf_bits(bitbuf, bufbits)) + zeros(pad));
}

// `bitbuf |= v << bufbits; bufbits += m` appends the low m bits of v to the stream written so far
proof fn lemma_append_stream(wd: Seq<u32>, i0: int, bitbuf: u64, bufbits: u8, v: u64, m: int, s: Seq<bool>)
  requires wstream(wd, i0, bitbuf, bufbits as int) == s, buf_clean(bitbuf, bufbits as int), buf_clean(v, m), bufbits + m <= 64, bufbits < 64, 0 <= i0 <= wd.len()
  ensures wstream(wd, i0, bitbuf | (v << bufbits), bufbits + m) == s + buf_bits(v, m), buf_clean(bitbuf | (v << bufbits), bufbits + m),
    s.len() == 32 * i0 + bufbits, (s + buf_bits(v, m)).len() == 32 * i0 + bufbits + m
{
    lemma_buf_append(bitbuf, bufbits as int, v, m);
    let bn = bufbits as u64;
    assert((v << bn) == (v << bufbits)) by (bit_vector) requires bn == bufbits as u64;
    let w = words_bits(wd.take(i0));
    assert(w + (buf_bits(bitbuf, bufbits as int) + buf_bits(v, m)) =~= (w + buf_bits(bitbuf, bufbits as int)) + buf_bits(v, m));
    lemma_words_bits_len(wd.take(i0));
}

impl CompressedState {
    // Huffman encoder of the window bytes.  encoding_table is one row of ENCODING_TABLES_FOR_HIGH_ENTROPY_BYTE.
    fn low_level_compress_bytes ( & mut self , byte_array : & [ u8 ] , num_bytes_to_encode : u32 , encoding_table : & [ u16 ] , ) -> ( r : usize ) requires byte_array @ . len ( ) >= num_bytes_to_encode , enc_table_ok ( encoding_table @ , 256 ) , 12 * num_bytes_to_encode + 11 <= 32 * old ( self ) . window_data @ . len ( ) , ensures final ( self ) . window_data @ . len ( ) == old ( self ) . window_data @ . len ( ) , final ( self ) . table_data == old ( self ) . table_data , final ( self ) . table_data_words == old ( self ) . table_data_words , final ( self ) . table_num_entries == old ( self ) . table_num_entries , final ( self ) . window_data_words == old ( self ) . window_data_words , r <= final ( self ) . window_data @ . len ( ) ,
/*@C12.cpc.coder_bytes_stream*/ words_bits ( final ( self ) . window_data @ . take ( r as int ) ) == enc_bytes ( encoding_table @ , byte_array @ . take ( num_bytes_to_encode as int ) ) + zeros ( 32 * r - enc_bytes ( encoding_table @ , byte_array @ . take ( num_bytes_to_encode as int ) ) . len ( ) ) ,
/*@C12.cpc.coder_bytes_padding*/ 32 * r >= enc_bytes ( encoding_table @ , byte_array @ . take ( num_bytes_to_encode as int ) ) . len ( ) + 11 ,
/*@C12.cpc.coder_bytes_words,C18.cpc.coder_bytes_words*/ r == ( enc_bytes ( encoding_table @ , byte_array @ . take ( num_bytes_to_encode as int ) ) . len ( ) + 11 + 31 ) / 32 , {
let mut bitbuf = 0 ;
let mut bufbits = 0 ;
let mut next_word_index = 0 ;
let ghost enc = encoding_table @ ;
let ghost bytes = byte_array @ ;
let ghost wlen = self . window_data @ . len ( ) ;
proof {
assert ( bytes . take ( 0 ) =~= Seq :: < u8 > :: empty ( ) ) ;
assert ( 0u64 >> 0u64 == 0 ) by ( bit_vector ) ;
assert ( wstream ( self . window_data @ , 0 , 0 , 0 ) =~= Seq :: < bool > :: empty ( ) ) ;
}
for byte_index in 0 .. num_bytes_to_encode invariant bytes == byte_array @ , enc == encoding_table @ , bytes . len ( ) >= num_bytes_to_encode , enc_table_ok ( enc , 256 ) , self . window_data @ . len ( ) == wlen , 12 * num_bytes_to_encode + 11 <= 32 * wlen , self . table_data == old ( self ) . table_data , self . table_data_words == old ( self ) . table_data_words , self . table_num_entries == old ( self ) . table_num_entries , self . window_data_words == old ( self ) . window_data_words , bufbits <= 31 , buf_clean ( bitbuf , bufbits as int ) , next_word_index <= wlen ,
/*@C12.cpc.coder_bytes_stream*/ wstream ( self . window_data @ , next_word_index as int , bitbuf , bufbits as int ) == enc_bytes ( enc , bytes . take ( byte_index as int ) ) , 32 * ( next_word_index as int ) + ( bufbits as int ) == enc_bytes ( enc , bytes . take ( byte_index as int ) ) . len ( ) , {
let code_info = encoding_table [ byte_array [ byte_index as usize ] as usize ] ;
proof {
lemma_enc_entry ( code_info ) ;
lemma_enc_bytes_push ( enc , bytes , byte_index as int ) ;
lemma_enc_bytes_len ( enc , bytes . take ( byte_index as int ) ) ;
lemma_enc_bytes_len ( enc , bytes . take ( byte_index + 1 ) ) ;
lemma_append_stream ( self . window_data @ , next_word_index as int , bitbuf , bufbits , enc_val ( code_info ) , enc_len ( code_info ) , enc_bytes ( enc , bytes . take ( byte_index as int ) ) ) ;
}
let code_val = ( code_info & 0xfff ) as u64 ;
let code_len = ( code_info >> 12 ) as u8 ;
bitbuf |= code_val << bufbits ;
bufbits += code_len ;
maybe_flush_bitbuf ( & mut bitbuf , & mut bufbits , & mut self . window_data , & mut next_word_index , ) ;
proof {
lemma_words_bits_len ( self . window_data @ . take ( next_word_index as int ) ) ;
}
}
let ghost stream = enc_bytes ( enc , bytes . take ( num_bytes_to_encode as int ) ) ;
proof {
lemma_enc_bytes_len ( enc , bytes . take ( num_bytes_to_encode as int ) ) ;
lemma_pad ( self . window_data @ , next_word_index as int , bitbuf , bufbits as int , 11 , stream ) ;
}
bufbits += 11 ;
maybe_flush_bitbuf ( & mut bitbuf , & mut bufbits , & mut self . window_data , & mut next_word_index , ) ;
proof {
lemma_words_bits_len ( self . window_data @ . take ( next_word_index as int ) ) ;
}
if bufbits > 0 {
debug_assert! ( bufbits < 32 ) ;
let ghost wd_before = self . window_data @ ;
self . window_data [ next_word_index ] = ( bitbuf & 0xffffffff ) as u32 ;
proof {
lemma_last_word ( wd_before , self . window_data @ , next_word_index as int , bitbuf , bufbits as int , stream + zeros ( 11 ) ) ;
lemma_zeros_add ( 11 , 32 - bufbits ) ;
assert ( stream + zeros ( 11 ) + zeros ( 32 - bufbits ) =~= stream + zeros ( 11 + 32 - bufbits ) ) ;
}
next_word_index += 1 ;
}
else {
proof {
lemma_no_last_word ( self . window_data @ , next_word_index as int , bitbuf , stream + zeros ( 11 ) ) ;
}
}
next_word_index }


}

// Huffman decoder of the window bytes.  decoding_table is one row of DECODING_TABLES_FOR_HIGH_ENTROPY_BYTE.
fn low_level_uncompress_bytes ( byte_array : & mut [ u8 ] , num_bytes_to_decode : u32 , compressed_words : & [ u32 ] , num_compressed_words : usize , decoding_table : & [ u16 ] , ) requires old ( byte_array ) @ . len ( ) >= num_bytes_to_decode , compressed_words @ . len ( ) == num_compressed_words , dec_table_ok ( decoding_table @ ) ,
/*@C13.cpc.coder_bytes_stream_fits*/ dec_bytes_fits ( decoding_table @ , words_bits ( compressed_words @ ) , num_bytes_to_decode as int ) , ensures final ( byte_array ) @ . len ( ) == old ( byte_array ) @ . len ( ) ,
/*@C13.cpc.coder_bytes_decoded*/ final ( byte_array ) @ . take ( num_bytes_to_decode as int ) == dec_bytes ( decoding_table @ , words_bits ( compressed_words @ ) , num_bytes_to_decode as int ) ,
/*@C13.cpc.coder_bytes_rest_untouched*/ final ( byte_array ) @ . skip ( num_bytes_to_decode as int ) == old ( byte_array ) @ . skip ( num_bytes_to_decode as int ) , {
let mut word_index = 0 ;
let mut bitbuf = 0 ;
let mut bufbits = 0 ;
let ghost dec = decoding_table @ ;
let ghost words = compressed_words @ ;
let ghost rs0 = words_bits ( words ) ;
let ghost n = num_bytes_to_decode as int ;
proof {
assert ( 0u64 >> 0u64 == 0 ) by ( bit_vector ) ;
assert ( words . skip ( 0 ) =~= words ) ;
assert ( rstream ( words , 0 , 0 , 0 ) =~= rs0 ) ;
assert ( byte_array @ . take ( 0 ) =~= Seq :: < u8 > :: empty ( ) ) ;
assert ( Seq :: < u8 > :: empty ( ) + dec_bytes ( dec , rs0 , n ) =~= dec_bytes ( dec , rs0 , n ) ) ;
}
for byte_index in 0 .. num_bytes_to_decode invariant byte_array @ . len ( ) == old ( byte_array ) @ . len ( ) , old ( byte_array ) @ . len ( ) >= num_bytes_to_decode , words == compressed_words @ , dec == decoding_table @ , n == num_bytes_to_decode , rs0 == words_bits ( words ) , compressed_words @ . len ( ) == num_compressed_words , dec_table_ok ( dec ) , bufbits <= 43 , buf_clean ( bitbuf , bufbits as int ) , word_index <= words . len ( ) ,
/*@C13.cpc.coder_bytes_decoded*/ dec_bytes ( dec , rs0 , n ) == byte_array @ . take ( byte_index as int ) + dec_bytes ( dec , rstream ( words , word_index as int , bitbuf , bufbits as int ) , n - byte_index ) ,
/*@C13.cpc.coder_bytes_stream_fits*/ dec_bytes_fits ( dec , rstream ( words , word_index as int , bitbuf , bufbits as int ) , n - byte_index ) , byte_array @ . skip ( n ) == old ( byte_array ) @ . skip ( n ) , {
let ghost cur = rstream ( words , word_index as int , bitbuf , bufbits as int ) ;
proof {
lemma_words_bits_len ( words . skip ( word_index as int ) ) ;
}
maybe_fill_bitbuf ( & mut bitbuf , & mut bufbits , compressed_words , & mut word_index , 12 , ) ;
let peek12 = bitbuf & 0xfff ;
proof {
assert forall | i : int | 0 <= i < 12 implies # [ trigger ] cur [ i ] == bit64 ( bitbuf , i ) by {
assert ( cur [ i ] == buf_bits ( bitbuf , bufbits as int ) [ i ] ) ;
}
lemma_peek12_of_buf ( bitbuf , cur ) ;
}
let lookup = decoding_table [ peek12 as usize ] ;
proof {
lemma_dec_entry ( lookup ) ;
}
let code_word_length = ( lookup >> 8 ) as u8 ;
let decoded_byte = ( lookup & 0xff ) as u8 ;
byte_array [ byte_index as usize ] = decoded_byte ;
proof {
lemma_buf_shift ( bitbuf , bufbits as int , code_word_length as int ) ;
let sh = code_word_length ;
let sh64 = code_word_length as u64 ;
assert ( ( bitbuf >> sh ) == ( bitbuf >> sh64 ) ) by ( bit_vector ) requires sh64 == sh as u64 ;
}
bitbuf >>= code_word_length ;
bufbits -= code_word_length ;
proof {
let l = code_word_length as int ;
assert ( rstream ( words , word_index as int , bitbuf , bufbits as int ) =~= cur . skip ( l ) ) ;
let prev = byte_array @ . take ( byte_index as int ) ;
assert ( byte_array @ . take ( byte_index + 1 ) =~= prev + seq! [ decoded_byte ] ) ;
assert ( dec_bytes ( dec , cur , n - byte_index ) == seq! [ decoded_byte ] + dec_bytes ( dec , cur . skip ( l ) , n - byte_index - 1 ) ) ;
assert ( prev + ( seq! [ decoded_byte ] + dec_bytes ( dec , cur . skip ( l ) , n - byte_index - 1 ) ) =~= ( prev + seq! [ decoded_byte ] ) + dec_bytes ( dec , cur . skip ( l ) , n - byte_index - 1 ) ) ;
}
}
proof {
let cur = rstream ( words , word_index as int , bitbuf , bufbits as int ) ;
assert ( dec_bytes ( dec , cur , 0 ) =~= Seq :: < u8 > :: empty ( ) ) ;
assert ( byte_array @ . take ( n ) + Seq :: < u8 > :: empty ( ) =~= byte_array @ . take ( n ) ) ;
}
debug_assert! ( word_index <= num_compressed_words ) ;
}



// =====================================================================================================================
// cpc/compression_data.rs: the tables BY CONTRACT.  The real statics (65 + 4096 + 22*256 + 22*4096 + 2*16*56 entries) are not given to
// the solver; each is declared with its real type (so every index is checked against the real LENGTH) and equals an uninterpreted
// constant; what the proofs use about the constants is the single axiom below, every clause of which is checked on the REAL tables by
// a complete (full-domain, loop-free) Kani harness of kani/leaves_cpc_coder.rs:
//   leaf_cpc_coder_llu65_inverse + leaf_cpc_coder_llu65_dec_entries (65-symbol code), leaf_cpc_coder_byte_tables_inverse (22 byte tables),
//   leaf_cpc_coder_column_perms_inverse (16 permutations).  The initializers vx_* only NAME the constants (r == sp_*()): no content is assumed there.
// =====================================================================================================================
uninterp spec fn sp_llu_enc() -> [u16; 65];
uninterp spec fn sp_llu_dec() -> [u16; 4096];
uninterp spec fn sp_byte_enc() -> [[u16; 256]; 22];
uninterp spec fn sp_byte_dec() -> [[u16; 4096]; 22];
uninterp spec fn sp_perm_enc() -> [[u8; 56]; 16];
uninterp spec fn sp_perm_dec() -> [[u8; 56]; 16];
#[verifier::external_body]
const fn vx_llu_encoding_table() -> (r: [u16; 65]) ensures r == sp_llu_enc() { [0x1000; 65] }
#[verifier::external_body]
const fn vx_llu_decoding_table() -> (r: [u16; 4096]) ensures r == sp_llu_dec() { [0x0100; 4096] }
#[verifier::external_body]
const fn vx_byte_encoding_tables() -> (r: [[u16; 256]; 22]) ensures r == sp_byte_enc() { [[0x1000; 256]; 22] }
#[verifier::external_body]
const fn vx_byte_decoding_tables() -> (r: [[u16; 4096]; 22]) ensures r == sp_byte_dec() { [[0x0100; 4096]; 22] }
#[verifier::external_body]
const fn vx_column_permutations_for_encoding() -> (r: [[u8; 56]; 16]) ensures r == sp_perm_enc() { [[0; 56]; 16] }
#[verifier::external_body]
const fn vx_column_permutations_for_decoding() -> (r: [[u8; 56]; 16]) ensures r == sp_perm_dec() { [[0; 56]; 16] }
exec static LENGTH_LIMITED_UNARY_ENCODING_TABLE65: [u16; 65] ensures LENGTH_LIMITED_UNARY_ENCODING_TABLE65 == sp_llu_enc() { vx_llu_encoding_table() }
exec static LENGTH_LIMITED_UNARY_DECODING_TABLE65: [u16; 4096] ensures LENGTH_LIMITED_UNARY_DECODING_TABLE65 == sp_llu_dec() { vx_llu_decoding_table() }
exec static ENCODING_TABLES_FOR_HIGH_ENTROPY_BYTE: [[u16; 256]; 22] ensures ENCODING_TABLES_FOR_HIGH_ENTROPY_BYTE == sp_byte_enc() { vx_byte_encoding_tables() }
exec static DECODING_TABLES_FOR_HIGH_ENTROPY_BYTE: [[u16; 4096]; 22] ensures DECODING_TABLES_FOR_HIGH_ENTROPY_BYTE == sp_byte_dec() { vx_byte_decoding_tables() }
exec static COLUMN_PERMUTATIONS_FOR_ENCODING: [[u8; 56]; 16] ensures COLUMN_PERMUTATIONS_FOR_ENCODING == sp_perm_enc() { vx_column_permutations_for_encoding() }
exec static COLUMN_PERMUTATIONS_FOR_DECODING: [[u8; 56]; 16] ensures COLUMN_PERMUTATIONS_FOR_DECODING == sp_perm_dec() { vx_column_permutations_for_decoding() }

spec fn llu_enc() -> Seq<u16> { sp_llu_enc()@ }
spec fn llu_dec() -> Seq<u16> { sp_llu_dec()@ }
spec fn llu_syms_ok(t: Seq<u16>) -> bool { forall|i: int| 0 <= i < 4096 ==> (#[trigger] t[i] & 0xff) <= 64 }
#[verifier::opaque]
spec fn perms_inverse(e: [[u8; 56]; 16], d: [[u8; 56]; 16]) -> bool {
    forall|p: int, c: int| #![trigger e@[p]@[c]] #![trigger d@[p]@[c]] 0 <= p < 16 && 0 <= c < 56 ==> e@[p]@[c] < 56 && d@[p]@[e@[p]@[c] as int] == c && d@[p]@[c] < 56 && e@[p]@[d@[p]@[c] as int] == c
}
#[verifier::external_body]
proof fn axiom_cpc_tables_inverse()
  ensures
    enc_table_ok(llu_enc(), 65), dec_table_ok(llu_dec()), llu_syms_ok(llu_dec()), prefix_ok(llu_enc(), llu_dec(), 65),
    forall|p: int| 0 <= p < 22 ==> enc_table_ok(#[trigger] sp_byte_enc()@[p]@, 256),
    forall|p: int| 0 <= p < 22 ==> dec_table_ok(#[trigger] sp_byte_dec()@[p]@),
    forall|p: int| 0 <= p < 22 ==> prefix_ok(#[trigger] sp_byte_enc()@[p]@, sp_byte_dec()@[p]@, 256),
    perms_inverse(sp_perm_enc(), sp_perm_dec()),
{}

// =====================================================================================================================
// The pair stream.  pairs = (row << 6) | col, strictly ascending.  For each pair:
//     x_delta  : code word of LENGTH_LIMITED_UNARY_ENCODING_TABLE65          (column delta within a row; column itself in a new row)
//     y_delta  : Golomb code with num_base_bits low bits = unary(y_delta >> num_base_bits) ++ the low num_base_bits bits
// =====================================================================================================================
// strictly ascending (two-index form: instantiations create no new index terms)
spec fn pairs_ascending(pairs: Seq<u32>) -> bool { forall|i: int, j: int| #![trigger pairs[i], pairs[j]] 0 <= i < j < pairs.len() ==> pairs[i] < pairs[j] }
spec fn prev_row(pairs: Seq<u32>, i: int) -> u32 { if i <= 0 { 0 } else { pairs[i - 1] >> 6 } }
spec fn prev_col(pairs: Seq<u32>, i: int) -> u32 { if i <= 0 { 0 } else { ((pairs[i - 1] & 63) + 1) as u32 } }
spec fn y_delta_of(pairs: Seq<u32>, i: int) -> u32 { ((pairs[i] >> 6) - prev_row(pairs, i)) as u32 }
spec fn x_delta_of(pairs: Seq<u32>, i: int) -> u32 { ((pairs[i] & 63) - (if (pairs[i] >> 6) != prev_row(pairs, i) { 0 } else { prev_col(pairs, i) as int })) as u32 }
spec fn lo_mask(nbb: int) -> u64 { ((1u64 << (nbb as u64)) - 1) as u64 }
spec fn golomb_bits(y: u64, nbb: int) -> Seq<bool> { unary((y >> (nbb as u64)) as int) + buf_bits(y & lo_mask(nbb), nbb) }
spec fn pair_code(llu: Seq<u16>, nbb: int, pairs: Seq<u32>, i: int) -> Seq<bool> {
    code_bits(llu[x_delta_of(pairs, i) as int]) + golomb_bits(y_delta_of(pairs, i) as u64, nbb)
}
// the stream of the first n pairs (matches the encoder loop) and of the pairs from i on (matches the decoder)
spec fn enc_pairs(llu: Seq<u16>, nbb: int, pairs: Seq<u32>, n: int) -> Seq<bool> decreases n {
    if n <= 0 { Seq::empty() } else { enc_pairs(llu, nbb, pairs, n - 1) + pair_code(llu, nbb, pairs, n - 1) }
}
spec fn enc_pairs_from(llu: Seq<u16>, nbb: int, pairs: Seq<u32>, i: int) -> Seq<bool> decreases pairs.len() - i {
    if i >= pairs.len() { Seq::empty() } else { pair_code(llu, nbb, pairs, i) + enc_pairs_from(llu, nbb, pairs, i + 1) }
}
spec fn pad_bits(nbb: int) -> int { if nbb >= 10 { 0 } else { 10 - nbb } }
// upper bound on the stream length used by safe_length_for_compressed_pair_buf
spec fn pairs_bits_bound(nbb: int, n: int, last_row: u32) -> int { 12 * n + n * (1 + nbb) + ((last_row as u64) >> (nbb as u64)) }

// the value of the first n bits of a stream (what `bitbuf & golomb_lo_mask` is)
spec fn bits_val(s: Seq<bool>, n: int) -> u64 decreases n { if n <= 0 { 0 } else { bits_val(s, n - 1) | (if s[n - 1] { 1u64 << ((n - 1) as u64) } else { 0 }) } }

// the spec decoder of the pair stream: state = (predicted row, predicted column)
spec fn dec_pair_x(dec: Seq<u16>, s: Seq<bool>) -> u16 { dec[peek12(s) as int] }
spec fn dec_pair_s1(dec: Seq<u16>, s: Seq<bool>) -> Seq<bool> { s.skip((dec_pair_x(dec, s) >> 8) as int) }
spec fn dec_pair_s2(dec: Seq<u16>, s: Seq<bool>) -> Seq<bool> { dec_pair_s1(dec, s).skip(first_one(dec_pair_s1(dec, s)) + 1) }
spec fn dec_pair_y(dec: Seq<u16>, nbb: int, s: Seq<bool>) -> u32 {
    ((((first_one(dec_pair_s1(dec, s)) as u64) << (nbb as u64)) | bits_val(dec_pair_s2(dec, s), nbb)) as u32)
}
spec fn dec_pair_row(dec: Seq<u16>, nbb: int, s: Seq<bool>, prow: u32) -> int { prow + dec_pair_y(dec, nbb, s) }
spec fn dec_pair_col(dec: Seq<u16>, nbb: int, s: Seq<bool>, pcol: u8) -> int { (if dec_pair_y(dec, nbb, s) > 0 { 0 } else { pcol as int }) + ((dec_pair_x(dec, s) & 0xff) as u8) }
spec fn dec_pair_rest(dec: Seq<u16>, nbb: int, s: Seq<bool>) -> Seq<bool> { dec_pair_s2(dec, s).skip(nbb) }
// every peek / unary scan / base-bits read of one pair stays inside the stream, and the row / column arithmetic does not overflow
spec fn dec_pair_fits(dec: Seq<u16>, nbb: int, s: Seq<bool>, prow: u32, pcol: u8) -> bool {
    &&& s.len() >= 12
    &&& first_one(dec_pair_s1(dec, s)) + 8 <= dec_pair_s1(dec, s).len()
    &&& dec_pair_s2(dec, s).len() >= nbb
    &&& dec_pair_row(dec, nbb, s, prow) <= u32::MAX
    &&& dec_pair_col(dec, nbb, s, pcol) < 255
}
#[verifier::opaque]
spec fn dec_pairs(dec: Seq<u16>, nbb: int, s: Seq<bool>, n: int, prow: u32, pcol: u8) -> Seq<u32> decreases n {
    if n <= 0 { Seq::empty() } else {
        let row = dec_pair_row(dec, nbb, s, prow) as u32; let col = dec_pair_col(dec, nbb, s, pcol) as u8;
        seq![(row << 6) | (col as u32)] + dec_pairs(dec, nbb, dec_pair_rest(dec, nbb, s), n - 1, row, (col + 1) as u8)
    }
}
#[verifier::opaque]
spec fn dec_pairs_fits(dec: Seq<u16>, nbb: int, s: Seq<bool>, n: int, prow: u32, pcol: u8) -> bool decreases n {
    n <= 0 || (dec_pair_fits(dec, nbb, s, prow, pcol)
        && dec_pairs_fits(dec, nbb, dec_pair_rest(dec, nbb, s), n - 1, dec_pair_row(dec, nbb, s, prow) as u32, (dec_pair_col(dec, nbb, s, pcol) as u8 + 1) as u8))
}

proof fn lemma_ascending_lt(pairs: Seq<u32>, i: int, j: int) requires pairs_ascending(pairs), 0 <= i < j < pairs.len() ensures pairs[i] < pairs[j] {}
// ascending pairs give non-negative deltas (the two assert!s of the encoder), columns < 64, and rows that grow
proof fn lemma_deltas(pairs: Seq<u32>, i: int) requires pairs_ascending(pairs), 0 <= i < pairs.len()
  ensures prev_row(pairs, i) <= (pairs[i] >> 6), (pairs[i] >> 6) == prev_row(pairs, i) ==> prev_col(pairs, i) <= (pairs[i] & 63),
    (pairs[i] & 63) <= 63, prev_col(pairs, i) <= 64, x_delta_of(pairs, i) <= 63,
    y_delta_of(pairs, i) == (pairs[i] >> 6) - prev_row(pairs, i),
    x_delta_of(pairs, i) == (pairs[i] & 63) - (if (pairs[i] >> 6) != prev_row(pairs, i) { 0 } else { prev_col(pairs, i) as int }),
    pairs[i] % 64 == pairs[i] & 63, pairs[i] / 64 == pairs[i] >> 6,
{
    let b = pairs[i];
    lemma_bridge_u32(b);
    assert((b & 63) <= 63) by (bit_vector);
    if i > 0 {
        let a = pairs[i - 1];
        assert(pairs[i - 1] < pairs[i]);
        assert(a < b ==> (a >> 6) <= (b >> 6) && ((a >> 6) == (b >> 6) ==> (a & 63) < (b & 63)) && (a & 63) <= 63) by (bit_vector);
    }
}
proof fn lemma_bits_val_of_buf(b: u64, s: Seq<bool>, n: int)
  requires 0 <= n <= 63, s.len() >= n, forall|i: int| 0 <= i < n ==> (#[trigger] s[i]) == bit64(b, i)
  ensures bits_val(s, n) == b & lo_mask(n)
  decreases n
{
    if n > 0 {
        lemma_bits_val_of_buf(b, s, n - 1);
        let m = (n - 1) as u64; let nu = n as u64;
        assert(s[n - 1] == bit64(b, n - 1));
        let c = s[n - 1];
        assert(((b & (((1u64 << m) - 1) as u64)) | (if c { 1u64 << m } else { 0 })) == (b & (((1u64 << nu) - 1) as u64))) by (bit_vector)
          requires nu == m + 1, nu <= 63, c == ((b >> m) & 1 == 1);
    } else {
        assert((b & (((1u64 << 0u64) - 1) as u64)) == 0) by (bit_vector);
    }
}
proof fn lemma_enc_pairs_split(llu: Seq<u16>, nbb: int, pairs: Seq<u32>, i: int) requires 0 <= i <= pairs.len()
  ensures enc_pairs(llu, nbb, pairs, pairs.len() as int) == enc_pairs(llu, nbb, pairs, i) + enc_pairs_from(llu, nbb, pairs, i)
  decreases pairs.len() - i
{
    if i < pairs.len() {
        lemma_enc_pairs_split(llu, nbb, pairs, i + 1);
        assert(enc_pairs(llu, nbb, pairs, i) + pair_code(llu, nbb, pairs, i) + enc_pairs_from(llu, nbb, pairs, i + 1)
            =~= enc_pairs(llu, nbb, pairs, i) + (pair_code(llu, nbb, pairs, i) + enc_pairs_from(llu, nbb, pairs, i + 1)));
    } else {
        assert(enc_pairs(llu, nbb, pairs, i) + enc_pairs_from(llu, nbb, pairs, i) =~= enc_pairs(llu, nbb, pairs, i));
    }
}

proof fn lemma_dec_pairs_step(dec: Seq<u16>, nbb: int, s: Seq<bool>, n: int, prow: u32, pcol: u8)
  requires n > 0
  ensures ({ let row = dec_pair_row(dec, nbb, s, prow) as u32; let col = dec_pair_col(dec, nbb, s, pcol) as u8; let rest = dec_pair_rest(dec, nbb, s);
      &&& dec_pairs_fits(dec, nbb, s, n, prow, pcol) == (dec_pair_fits(dec, nbb, s, prow, pcol) && dec_pairs_fits(dec, nbb, rest, n - 1, row, (col + 1) as u8))
      &&& dec_pairs(dec, nbb, s, n, prow, pcol) == seq![(row << 6) | (col as u32)] + dec_pairs(dec, nbb, rest, n - 1, row, (col + 1) as u8) })
{
    reveal(dec_pairs); reveal(dec_pairs_fits);
}
proof fn lemma_dec_pairs_zero(dec: Seq<u16>, nbb: int, s: Seq<bool>, prow: u32, pcol: u8)
  ensures dec_pairs(dec, nbb, s, 0, prow, pcol) == Seq::<u32>::empty(), dec_pairs_fits(dec, nbb, s, 0, prow, pcol)
{
    reveal(dec_pairs); reveal(dec_pairs_fits);
}

proof fn lemma_golomb_parts(y: u32, nbb: u8)
  requires nbb <= 30
  ensures ({ let yu = y as u64; let n = nbb as u64; let mask = (((1u64 << n) - 1) as u64);
      &&& (((1i32 << nbb) - 1) as u64) == mask && (1i32 << nbb) >= 1 && (1i32 << nbb) - 1 <= i32::MAX
      &&& (yu >> nbb) == (yu >> n)
      &&& buf_clean(yu & mask, nbb as int)
      &&& ((((yu >> n) << n) | (yu & mask)) as u32) == y
      &&& (yu >> n) <= 0xffff_ffff })
{
    let yu = y as u64; let n = nbb as u64; let mask = (((1u64 << n) - 1) as u64);
    assert((1i32 << nbb) >= 1 && (1i32 << nbb) <= 0x4000_0000 && ((sub(1i32 << nbb, 1)) as u64) == sub(1u64 << n, 1)) by (bit_vector) requires nbb <= 30, n == nbb as u64;
    assert((yu >> nbb) == (yu >> n)) by (bit_vector) requires n == nbb as u64;
    assert(((yu & sub(1u64 << n, 1)) >> n) == 0 && (1u64 << n) >= 1) by (bit_vector) requires n <= 30;
    assert(((((yu >> n) << n) | (yu & sub(1u64 << n, 1))) as u32) == y && (yu >> n) <= 0xffff_ffff) by (bit_vector) requires n <= 30, yu == y as u64;
}
proof fn lemma_shr_add(a: u32, d: u32, nbb: int) requires 0 <= nbb <= 30, a + d <= u32::MAX
  ensures ((a as u64) >> (nbb as u64)) + ((d as u64) >> (nbb as u64)) <= (((a + d) as u64) >> (nbb as u64))
{
    let x = a as u64; let y = d as u64; let n = nbb as u64;
    assert(add(x >> n, y >> n) <= (add(x, y) >> n)) by (bit_vector) requires x <= 0xffff_ffff, y <= 0xffff_ffff, n <= 30;
    assert((x >> n) <= 0xffff_ffff && (y >> n) <= 0xffff_ffff) by (bit_vector) requires x <= 0xffff_ffff, y <= 0xffff_ffff;
}
proof fn lemma_shr_mono(a: u32, b: u32, nbb: int) requires 0 <= nbb <= 30, a <= b
  ensures ((a as u64) >> (nbb as u64)) <= ((b as u64) >> (nbb as u64))
{
    let x = a as u64; let y = b as u64; let n = nbb as u64;
    assert((x >> n) <= (y >> n)) by (bit_vector) requires x <= y;
}
proof fn lemma_unary_len(v: int) requires v >= 0 ensures unary(v).len() == v + 1 {}

impl CompressedState {
    // Golomb / length-limited-unary encoder of the (row, column) pairs.
    fn low_level_compress_pairs ( & mut self , pairs : & [ u32 ] , num_base_bits : u8 ) -> ( r : usize ) requires
/*@C17.cpc.coder_pairs_sorted*/ pairs_ascending ( pairs @ ) , num_base_bits <= 30 , pairs @ . len ( ) <= 0xffff_ffff , pairs_bits_bound ( num_base_bits as int , pairs @ . len ( ) as int , prev_row ( pairs @ , pairs @ . len ( ) as int ) ) + pad_bits ( num_base_bits as int ) <= 32 * old ( self ) . table_data @ . len ( ) , ensures final ( self ) . table_data @ . len ( ) == old ( self ) . table_data @ . len ( ) , final ( self ) . window_data == old ( self ) . window_data , final ( self ) . table_data_words == old ( self ) . table_data_words , final ( self ) . table_num_entries == old ( self ) . table_num_entries , final ( self ) . window_data_words == old ( self ) . window_data_words , r <= final ( self ) . table_data @ . len ( ) ,
/*@C12.cpc.coder_pairs_stream*/ words_bits ( final ( self ) . table_data @ . take ( r as int ) ) == enc_pairs ( llu_enc ( ) , num_base_bits as int , pairs @ , pairs @ . len ( ) as int ) + zeros ( 32 * r - enc_pairs ( llu_enc ( ) , num_base_bits as int , pairs @ , pairs @ . len ( ) as int ) . len ( ) ) ,
/*@C12.cpc.coder_pairs_padding*/ 32 * r >= enc_pairs ( llu_enc ( ) , num_base_bits as int , pairs @ , pairs @ . len ( ) as int ) . len ( ) + pad_bits ( num_base_bits as int ) ,
/*@C12.cpc.coder_pairs_words,C18.cpc.coder_pairs_words*/ r == ( enc_pairs ( llu_enc ( ) , num_base_bits as int , pairs @ , pairs @ . len ( ) as int ) . len ( ) + pad_bits ( num_base_bits as int ) + 31 ) / 32 , {
let mut bitbuf = 0 ;
let mut bufbits = 0 ;
let mut next_word_index = 0 ;
proof {
lemma_golomb_parts ( 0 , num_base_bits ) ;
}
let golomb_lo_mask = ( ( 1 << num_base_bits ) - 1 ) as u64 ;
let mut predicted_row_index = 0 ;
let mut predicted_col_index = 0 ;
let ghost ps = pairs @ ;
let ghost n = pairs @ . len ( ) as int ;
let ghost nbb = num_base_bits as int ;
let ghost wlen = self . table_data @ . len ( ) ;
let ghost last_row = prev_row ( ps , n ) ;
proof {
axiom_cpc_tables_inverse ( ) ;
assert ( 0u64 >> 0u64 == 0 ) by ( bit_vector ) ;
assert ( wstream ( self . table_data @ , 0 , 0 , 0 ) =~= Seq :: < bool > :: empty ( ) ) ;
let nb64 = nbb as u64 ;
assert ( ( 0u64 >> nb64 ) == 0 ) by ( bit_vector ) ;
}
for pair_index in 0 .. pairs . len ( ) invariant ps == pairs @ , n == ps . len ( ) , nbb == num_base_bits , nbb <= 30 , n <= 0xffff_ffff , pairs_ascending ( ps ) , last_row == prev_row ( ps , n ) , self . table_data @ . len ( ) == wlen , pairs_bits_bound ( nbb , n , last_row ) + pad_bits ( nbb ) <= 32 * wlen , self . window_data == old ( self ) . window_data , self . table_data_words == old ( self ) . table_data_words , self . table_num_entries == old ( self ) . table_num_entries , self . window_data_words == old ( self ) . window_data_words , golomb_lo_mask == lo_mask ( nbb ) , enc_table_ok ( llu_enc ( ) , 65 ) , bufbits <= 31 , buf_clean ( bitbuf , bufbits as int ) , next_word_index <= wlen ,
/*@C12.cpc.coder_pairs_stream*/ predicted_row_index == prev_row ( ps , pair_index as int ) && predicted_col_index == prev_col ( ps , pair_index as int ) ,
/*@C12.cpc.coder_pairs_stream*/ wstream ( self . table_data @ , next_word_index as int , bitbuf , bufbits as int ) == enc_pairs ( llu_enc ( ) , nbb , ps , pair_index as int ) , 32 * ( next_word_index as int ) + ( bufbits as int ) == enc_pairs ( llu_enc ( ) , nbb , ps , pair_index as int ) . len ( ) , enc_pairs ( llu_enc ( ) , nbb , ps , pair_index as int ) . len ( ) <= pairs_bits_bound ( nbb , pair_index as int , prev_row ( ps , pair_index as int ) ) , {
let ghost i = pair_index as int ;
let ghost s_before = enc_pairs ( llu_enc ( ) , nbb , ps , i ) ;
let row_col = pairs [ pair_index ] ;
let row_index = row_col >> 6 ;
let col_index = row_col & 63 ;
proof {
lemma_deltas ( ps , i ) ;
if i + 1 < n {
lemma_ascending_lt ( ps , i , n - 1 ) ;
let a = ps [ i ] ;
let b = ps [ n - 1 ] ;
assert ( a < b ==> ( a >> 6 ) <= ( b >> 6 ) ) by ( bit_vector ) ;
}
lemma_shr_mono ( row_index , last_row , nbb ) ;
lemma_shr_add ( prev_row ( ps , i ) , y_delta_of ( ps , i ) , nbb ) ;
assert ( ( i + 1 ) * ( 1 + nbb ) == i * ( 1 + nbb ) + ( 1 + nbb ) ) by ( nonlinear_arith ) ;
assert ( i * ( 1 + nbb ) <= n * ( 1 + nbb ) ) by ( nonlinear_arith ) requires 0 <= i <= n , nbb >= 0 ;
assert ( ( i + 1 ) * ( 1 + nbb ) <= n * ( 1 + nbb ) ) by ( nonlinear_arith ) requires 0 <= i + 1 <= n , nbb >= 0 ;
}
if row_index != predicted_row_index {
predicted_col_index = 0 ;
}
assert! ( row_index >= predicted_row_index ) ;
assert! ( col_index >= predicted_col_index ) ;
let y_delta = row_index - predicted_row_index ;
let x_delta = col_index - predicted_col_index ;
predicted_row_index = row_index ;
predicted_col_index = col_index + 1 ;
let code_info = LENGTH_LIMITED_UNARY_ENCODING_TABLE65 [ x_delta as usize ] ;
proof {
assert (
/*@C12.cpc.coder_pairs_stream*/ code_info == llu_enc ( ) [ x_delta as int ] ) ;
lemma_enc_entry ( code_info ) ;
lemma_append_stream ( self . table_data @ , next_word_index as int , bitbuf , bufbits , enc_val ( code_info ) , enc_len ( code_info ) , s_before ) ;
lemma_golomb_parts ( y_delta , num_base_bits ) ;
}
let code_val = ( code_info & 0xfff ) as u64 ;
let code_len = ( code_info >> 12 ) as u8 ;
bitbuf |= code_val << bufbits ;
bufbits += code_len ;
maybe_flush_bitbuf ( & mut bitbuf , & mut bufbits , & mut self . table_data , & mut next_word_index , ) ;
let ghost s1 = s_before + code_bits ( code_info ) ;
proof {
lemma_words_bits_len ( self . table_data @ . take ( next_word_index as int ) ) ;
assert ( wstream ( self . table_data @ , next_word_index as int , bitbuf , bufbits as int ) == s1 ) ;
}
let golomb_lo = ( y_delta as u64 ) & golomb_lo_mask ;
let golomb_hi = ( y_delta as u64 ) >> num_base_bits ;
write_unary ( & mut self . table_data , & mut next_word_index , & mut bitbuf , & mut bufbits , golomb_hi , ) ;
let ghost s2 = s1 + unary ( golomb_hi as int ) ;
proof {
lemma_unary_len ( golomb_hi as int ) ;
lemma_words_bits_len ( self . table_data @ . take ( next_word_index as int ) ) ;
lemma_append_stream ( self . table_data @ , next_word_index as int , bitbuf , bufbits , golomb_lo , nbb , s2 ) ;
}
bitbuf |= golomb_lo << bufbits ;
bufbits += num_base_bits ;
maybe_flush_bitbuf ( & mut bitbuf , & mut bufbits , & mut self . table_data , & mut next_word_index , ) ;
proof {
lemma_words_bits_len ( self . table_data @ . take ( next_word_index as int ) ) ;
let yu = y_delta as u64 ;
assert ( golomb_bits ( yu , nbb ) == unary ( golomb_hi as int ) + buf_bits ( golomb_lo , nbb ) ) ;
assert ( s2 + buf_bits ( golomb_lo , nbb ) =~= s_before + ( code_bits ( code_info ) + golomb_bits ( yu , nbb ) ) ) ;
assert ( pair_code ( llu_enc ( ) , nbb , ps , i ) == code_bits ( code_info ) + golomb_bits ( yu , nbb ) ) ;
}
}
let ghost stream = enc_pairs ( llu_enc ( ) , nbb , ps , n ) ;
let padding = 10u8 . saturating_sub ( num_base_bits ) ;
proof {
lemma_pad ( self . table_data @ , next_word_index as int , bitbuf , bufbits as int , padding as int , stream ) ;
}
bufbits += padding ;
maybe_flush_bitbuf ( & mut bitbuf , & mut bufbits , & mut self . table_data , & mut next_word_index , ) ;
proof {
lemma_words_bits_len ( self . table_data @ . take ( next_word_index as int ) ) ;
}
if bufbits > 0 {
assert! ( bufbits < 32 ) ;
let ghost wd_before = self . table_data @ ;
self . table_data [ next_word_index ] = ( bitbuf & 0xffffffff ) as u32 ;
proof {
lemma_last_word ( wd_before , self . table_data @ , next_word_index as int , bitbuf , bufbits as int , stream + zeros ( padding as int ) ) ;
lemma_zeros_add ( padding as int , 32 - bufbits ) ;
assert ( stream + zeros ( padding as int ) + zeros ( 32 - bufbits ) =~= stream + zeros ( padding + 32 - bufbits ) ) ;
assert ( next_word_index < self . table_data . len ( ) ) ;
}
next_word_index += 1 ;
}
else {
proof {
lemma_no_last_word ( self . table_data @ , next_word_index as int , bitbuf , stream + zeros ( padding as int ) ) ;
}
}
next_word_index }


}

proof fn lemma_llu_entry(e: u16) requires dec_entry_ok(e), (e & 0xff) <= 64 ensures ((e >> 8) as u8) == (e >> 8), 1 <= ((e >> 8) as u8) <= 12, ((e & 0xff) as u8) == (e & 0xff), ((e & 0xff) as u8) <= 64, e % 256 == e & 0xff, e / 256 == e >> 8 { lemma_bridge_u16(e); }
proof fn lemma_shift_u8(b: u64, sh: u8) ensures (b >> sh) == (b >> (sh as u64)), (b << sh) == (b << (sh as u64)) {
    let s64 = sh as u64;
    assert((b >> sh) == (b >> s64) && (b << sh) == (b << s64)) by (bit_vector) requires s64 == sh as u64;
}

// Golomb / length-limited-unary decoder of the (row, column) pairs.
fn low_level_uncompress_pairs ( pairs : & mut [ u32 ] , num_pairs_to_decode : u32 , num_base_bits : u8 , compressed_words : & [ u32 ] , num_compressed_words : usize , ) requires old ( pairs ) @ . len ( ) >= num_pairs_to_decode , num_base_bits <= 31 , compressed_words @ . len ( ) == num_compressed_words , num_compressed_words <= 0xffff_ffff ,
/*@C13.cpc.coder_pairs_stream_fits*/ dec_pairs_fits ( llu_dec ( ) , num_base_bits as int , words_bits ( compressed_words @ ) , num_pairs_to_decode as int , 0 , 0 ) , ensures final ( pairs ) @ . len ( ) == old ( pairs ) @ . len ( ) ,
/*@C13.cpc.coder_pairs_decoded*/ final ( pairs ) @ . take ( num_pairs_to_decode as int ) == dec_pairs ( llu_dec ( ) , num_base_bits as int , words_bits ( compressed_words @ ) , num_pairs_to_decode as int , 0 , 0 ) ,
/*@C13.cpc.coder_pairs_rest_untouched*/ final ( pairs ) @ . skip ( num_pairs_to_decode as int ) == old ( pairs ) @ . skip ( num_pairs_to_decode as int ) , {
let mut word_index = 0 ;
let mut bitbuf = 0 ;
let mut bufbits = 0 ;
proof {
assert ( num_base_bits <= 31 ==> ( 1u64 << num_base_bits ) >= 1 ) by ( bit_vector ) ;
}
let golomb_lo_mask = ( 1 << num_base_bits ) - 1 ;
let mut predicted_row_index = 0u32 ;
let mut predicted_col_index = 0u8 ;
let ghost dec = llu_dec ( ) ;
let ghost words = compressed_words @ ;
let ghost rs0 = words_bits ( words ) ;
let ghost n = num_pairs_to_decode as int ;
let ghost nbb = num_base_bits as int ;
proof {
axiom_cpc_tables_inverse ( ) ;
assert ( 0u64 >> 0u64 == 0 ) by ( bit_vector ) ;
assert ( words . skip ( 0 ) =~= words ) ;
assert ( rstream ( words , 0 , 0 , 0 ) =~= rs0 ) ;
assert ( pairs @ . take ( 0 ) =~= Seq :: < u32 > :: empty ( ) ) ;
assert ( Seq :: < u32 > :: empty ( ) + dec_pairs ( dec , nbb , rs0 , n , 0 , 0 ) =~= dec_pairs ( dec , nbb , rs0 , n , 0 , 0 ) ) ;
lemma_shift_u8 ( 1u64 , num_base_bits ) ;
}
for pair_index in 0 .. num_pairs_to_decode invariant pairs @ . len ( ) == old ( pairs ) @ . len ( ) , old ( pairs ) @ . len ( ) >= num_pairs_to_decode , num_base_bits <= 31 , words == compressed_words @ , dec == llu_dec ( ) , n == num_pairs_to_decode , nbb == num_base_bits , rs0 == words_bits ( words ) , compressed_words @ . len ( ) == num_compressed_words , num_compressed_words <= 0xffff_ffff , dec_table_ok ( dec ) , llu_syms_ok ( dec ) , golomb_lo_mask == lo_mask ( nbb ) , bufbits <= 63 , buf_clean ( bitbuf , bufbits as int ) , word_index <= words . len ( ) ,
/*@C13.cpc.coder_pairs_decoded*/ dec_pairs ( dec , nbb , rs0 , n , 0 , 0 ) == pairs @ . take ( pair_index as int ) + dec_pairs ( dec , nbb , rstream ( words , word_index as int , bitbuf , bufbits as int ) , n - pair_index , predicted_row_index , predicted_col_index ) ,
/*@C13.cpc.coder_pairs_stream_fits*/ dec_pairs_fits ( dec , nbb , rstream ( words , word_index as int , bitbuf , bufbits as int ) , n - pair_index , predicted_row_index , predicted_col_index ) , pairs @ . skip ( n ) == old ( pairs ) @ . skip ( n ) , {
let ghost cur = rstream ( words , word_index as int , bitbuf , bufbits as int ) ;
let ghost prow = predicted_row_index ;
let ghost pcol = predicted_col_index ;
proof {
lemma_words_bits_len ( words . skip ( word_index as int ) ) ;
lemma_dec_pairs_step ( dec , nbb , cur , n - pair_index , prow , pcol ) ;
assert ( dec_pair_fits ( dec , nbb , cur , prow , pcol ) ) ;
}
maybe_fill_bitbuf ( & mut bitbuf , & mut bufbits , compressed_words , & mut word_index , 12 , ) ;
let peek12 = bitbuf & 0xfff ;
proof {
assert forall | i : int | 0 <= i < 12 implies ( # [ trigger ] cur [ i ] ) == bit64 ( bitbuf , i ) by {
assert ( cur [ i ] == buf_bits ( bitbuf , bufbits as int ) [ i ] ) ;
}
lemma_peek12_of_buf ( bitbuf , cur ) ;
}
let lookup = LENGTH_LIMITED_UNARY_DECODING_TABLE65 [ peek12 as usize ] ;
proof {
assert ( lookup == dec [ peek12 as int ] ) ;
assert ( ( dec [ peek12 as int ] & 0xff ) <= 64 ) ;
lemma_llu_entry ( lookup ) ;
assert ( lookup == dec_pair_x ( dec , cur ) ) ;
}
let code_word_length = ( lookup >> 8 ) as u8 ;
let x_delta = ( lookup & 0xff ) as u8 ;
proof {
lemma_buf_shift ( bitbuf , bufbits as int , code_word_length as int ) ;
lemma_shift_u8 ( bitbuf , code_word_length ) ;
}
bitbuf >>= code_word_length ;
bufbits -= code_word_length ;
let ghost s1 = dec_pair_s1 ( dec , cur ) ;
proof {
assert ( rstream ( words , word_index as int , bitbuf , bufbits as int ) =~= cur . skip ( code_word_length as int ) ) ;
lemma_words_bits_len ( words . skip ( word_index as int ) ) ;
}
let golomb_hi = read_unary ( compressed_words , & mut word_index , & mut bitbuf , & mut bufbits ) ;
let ghost s2 = dec_pair_s2 ( dec , cur ) ;
proof {
assert ( rstream ( words , word_index as int , bitbuf , bufbits as int ) == s2 ) ;
lemma_words_bits_len ( words . skip ( word_index as int ) ) ;
}
maybe_fill_bitbuf ( & mut bitbuf , & mut bufbits , compressed_words , & mut word_index , num_base_bits , ) ;
proof {
assert forall | i : int | 0 <= i < nbb implies ( # [ trigger ] s2 [ i ] ) == bit64 ( bitbuf , i ) by {
assert ( s2 [ i ] == buf_bits ( bitbuf , bufbits as int ) [ i ] ) ;
}
lemma_bits_val_of_buf ( bitbuf , s2 , nbb ) ;
lemma_buf_shift ( bitbuf , bufbits as int , nbb ) ;
lemma_shift_u8 ( bitbuf , num_base_bits ) ;
lemma_shift_u8 ( golomb_hi , num_base_bits ) ;
}
let golomb_lo = bitbuf & golomb_lo_mask ;
bitbuf >>= num_base_bits ;
bufbits -= num_base_bits ;
let y_delta = ( ( golomb_hi << num_base_bits ) | golomb_lo ) as u32 ;
proof {
assert ( rstream ( words , word_index as int , bitbuf , bufbits as int ) =~= s2 . skip ( nbb ) ) ;
assert ( y_delta == dec_pair_y ( dec , nbb , cur ) ) ;
}
if y_delta > 0 {
predicted_col_index = 0 ;
}
let row_index = predicted_row_index + y_delta ;
let col_index = predicted_col_index + x_delta ;
let row_col = ( row_index << 6 ) | ( col_index as u32 ) ;
let ghost pairs_before = pairs @ ;
pairs [ pair_index as usize ] = row_col ;
predicted_row_index = row_index ;
predicted_col_index = col_index + 1 ;
proof {
assert ( row_index == dec_pair_row ( dec , nbb , cur , prow ) ) ;
assert ( x_delta == ( ( dec_pair_x ( dec , cur ) & 0xff ) as u8 ) ) ;
assert ( col_index == dec_pair_col ( dec , nbb , cur , pcol ) ) ;
assert ( rstream ( words , word_index as int , bitbuf , bufbits as int ) == dec_pair_rest ( dec , nbb , cur ) ) ;
}
proof {
let rest = dec_pair_rest ( dec , nbb , cur ) ;
let prev = pairs @ . take ( pair_index as int ) ;
assert ( pairs @ . take ( pair_index + 1 ) =~= prev + seq! [ row_col ] ) ;
assert ( dec_pairs ( dec , nbb , cur , n - pair_index , prow , pcol ) == seq! [ row_col ] + dec_pairs ( dec , nbb , rest , n - pair_index - 1 , row_index , ( col_index + 1 ) as u8 ) ) ;
assert ( prev + ( seq! [ row_col ] + dec_pairs ( dec , nbb , rest , n - pair_index - 1 , row_index , ( col_index + 1 ) as u8 ) ) =~= ( prev + seq! [ row_col ] ) + dec_pairs ( dec , nbb , rest , n - pair_index - 1 , row_index , ( col_index + 1 ) as u8 ) ) ;
assert ( dec_pairs_fits ( dec , nbb , rest , n - pair_index - 1 , row_index , ( col_index + 1 ) as u8 ) ) ;
assert ( pairs @ . skip ( n ) =~= pairs_before . skip ( n ) ) ;
}
}
proof {
let cur = rstream ( words , word_index as int , bitbuf , bufbits as int ) ;
lemma_dec_pairs_zero ( dec , nbb , cur , predicted_row_index , predicted_col_index ) ;
assert ( pairs @ . take ( n ) + Seq :: < u32 > :: empty ( ) =~= pairs @ . take ( n ) ) ;
}
debug_assert! ( word_index <= num_compressed_words ) ;
}



proof fn lemma_pair_recompose(p: u32) ensures (((p >> 6) << 6) | (p & 63)) == p, (p & 63) <= 63 {
    assert((((p >> 6) << 6) | (p & 63)) == p && (p & 63) <= 63) by (bit_vector);
}
proof fn lemma_lo_idem(y: u64, nbb: int) requires 0 <= nbb <= 30 ensures ((y & lo_mask(nbb)) & lo_mask(nbb)) == (y & lo_mask(nbb)) {
    let n = nbb as u64;
    assert(((y & sub(1u64 << n, 1)) & sub(1u64 << n, 1)) == (y & sub(1u64 << n, 1)) && (1u64 << n) >= 1) by (bit_vector) requires n <= 30;
}
proof fn lemma_skip_cons(a: Seq<u32>, i: int) requires 0 <= i < a.len() ensures seq![a[i]] + a.skip(i + 1) == a.skip(i) { assert(seq![a[i]] + a.skip(i + 1) =~= a.skip(i)); }

// C11 for the pairs at spec level: the spec decoder started in the state after pair i - 1 inverts the spec encoder of pairs i.. ,
// for ANY pair of tables with the prefix-code fact and ANY following bits `rest` of at least max(0, 10 - num_base_bits) bits
proof fn lemma_pairs_roundtrip_from(enc: Seq<u16>, dec: Seq<u16>, nbb: int, pairs: Seq<u32>, i: int, rest: Seq<bool>)
  requires enc_table_ok(enc, 65), prefix_ok(enc, dec, 65), pairs_ascending(pairs), 0 <= nbb <= 30, rest.len() >= pad_bits(nbb), 0 <= i <= pairs.len()
  ensures
    /*@C11.cpc.coder_pairs_roundtrip*/ dec_pairs(dec, nbb, enc_pairs_from(enc, nbb, pairs, i) + rest, pairs.len() - i, prev_row(pairs, i), prev_col(pairs, i) as u8) == pairs.skip(i),
    /*@C11.cpc.coder_pairs_fits*/ dec_pairs_fits(dec, nbb, enc_pairs_from(enc, nbb, pairs, i) + rest, pairs.len() - i, prev_row(pairs, i), prev_col(pairs, i) as u8),
  decreases pairs.len() - i
{
    let n = pairs.len() as int;
    let s = enc_pairs_from(enc, nbb, pairs, i) + rest;
    let prow = prev_row(pairs, i); let pcol = prev_col(pairs, i) as u8;
    if i < n {
        lemma_deltas(pairs, i);
        let p = pairs[i];
        let x = x_delta_of(pairs, i); let y = y_delta_of(pairs, i); let yu = y as u64;
        let e = enc[x as int];
        lemma_enc_entry(e);
        lemma_golomb_parts(y, nbb as u8);
        let hi = (yu >> (nbb as u64)); let lo = yu & lo_mask(nbb);
        let lo_bits = buf_bits(lo, nbb);
        let tail = enc_pairs_from(enc, nbb, pairs, i + 1) + rest;
        lemma_unary_len(hi as int);
        assert(s =~= code_bits(e) + (unary(hi as int) + (lo_bits + tail)));
        // x code
        assert forall|k: int| 0 <= k < enc_len(e) implies (#[trigger] s[k]) == bit64(enc_val(e), k) by { assert(s[k] == code_bits(e)[k]); }
        lemma_peek12_matches(e, s); lemma_peek12_lt(s);
        let pk = peek12(s) as u16;
        assert(peek_matches(enc[x as int], pk));
        let d = dec[pk as int];
        let xx = x as u16;
        assert(d == (((e >> 12) << 8) | xx));
        assert((d >> 8) == (e >> 12) && ((d & 0xff) as u8) == xx) by (bit_vector) requires d == (((e >> 12) << 8) | xx), xx <= 63, 1 <= (e >> 12) <= 12;
        assert(d == dec_pair_x(dec, s));
        // unary
        let s1 = dec_pair_s1(dec, s);
        assert(s1 =~= unary(hi as int) + (lo_bits + tail));
        lemma_unary_roundtrip(hi as int, lo_bits + tail);
        let s2 = dec_pair_s2(dec, s);
        assert(s2 =~= lo_bits + tail);
        // base bits
        assert forall|k: int| 0 <= k < nbb implies (#[trigger] s2[k]) == bit64(lo, k) by { assert(s2[k] == lo_bits[k]); }
        lemma_bits_val_of_buf(lo, s2, nbb);
        lemma_lo_idem(yu, nbb);
        assert(dec_pair_y(dec, nbb, s) == y);
        // row, column
        lemma_pair_recompose(p);
        let row = dec_pair_row(dec, nbb, s, prow); let col = dec_pair_col(dec, nbb, s, pcol);
        assert(row == (p >> 6));
        assert(col == (p & 63));
        assert(dec_pair_rest(dec, nbb, s) =~= tail);
        assert(dec_pair_fits(dec, nbb, s, prow, pcol));
        lemma_dec_pairs_step(dec, nbb, s, n - i, prow, pcol);
        lemma_pairs_roundtrip_from(enc, dec, nbb, pairs, i + 1, rest);
        assert(prev_row(pairs, i + 1) == row as u32);
        assert(prev_col(pairs, i + 1) as u8 == ((col as u8) + 1) as u8);
        let rowu = row as u32; let colu = col as u8;
        assert(((rowu << 6) | (colu as u32)) == p);
        assert(dec_pairs(dec, nbb, tail, n - i - 1, rowu, (colu + 1) as u8) == pairs.skip(i + 1));
        assert(dec_pairs(dec, nbb, s, n - i, prow, pcol) == seq![p] + pairs.skip(i + 1));
        assert(dec_pairs_fits(dec, nbb, tail, n - i - 1, rowu, (colu + 1) as u8));
        lemma_skip_cons(pairs, i);
    } else {
        lemma_dec_pairs_zero(dec, nbb, s, prow, pcol);
        assert(pairs.skip(i) =~= Seq::<u32>::empty());
    }
}

// ---------- sizing / parameter helpers: contracts and proofs VERBATIM from contracts/cpc_codec.rs and contracts/cpc_decode.rs ----------
proof fn lemma_pow2_increases(a: nat, b: nat) requires a <= b ensures pow2(a) <= pow2(b) { if a < b { lemma_pow2_strictly_increases(a, b); } }
fn divide_longs_rounding_up ( x : usize , y : usize ) -> ( r : usize ) requires y != 0 ensures r == ( x + y - 1 ) / ( y as int ) {
debug_assert! ( y != 0 ) ;
let quotient = x / y ;
proof {
let q = ( x as int ) / ( y as int ) ;
vstd :: arithmetic :: div_mod :: lemma_fundamental_div_mod ( x as int , y as int ) ;
assert ( q * y <= x ) by ( nonlinear_arith ) requires x == y * q + ( x as int ) % ( y as int ) , ( x as int ) % ( y as int ) >= 0 ;
assert ( 0 <= q ) by ( nonlinear_arith ) requires q == ( x as int ) / ( y as int ) , x >= 0 , y > 0 ;
let m = ( x as int ) % ( y as int ) ;
if m == 0 {
assert ( ( x + y - 1 ) / ( y as int ) == q ) by ( nonlinear_arith ) requires x == y * q , y > 0 ;
}
else {
assert ( ( x + y - 1 ) / ( y as int ) == q + 1 ) by ( nonlinear_arith ) requires x == y * q + m , 0 < m < y ;
assert ( q * y != x ) by ( nonlinear_arith ) requires x == y * q + m , 0 < m ;
assert ( q + 1 <= usize :: MAX ) by ( nonlinear_arith ) requires q * y <= x , y >= 1 , x == y * q + m , 0 < m , m < y , x <= usize :: MAX ;
}
}
if quotient * y == x {
quotient }
else {
quotient + 1 }
}




fn safe_length_for_compressed_window_buf ( k : u32 ) -> ( r : usize ) requires 12 * k + 11 <= 0xffff_ffff ensures r == ( 12 * k + 11 + 31 ) / 32 {
let bits = 12 * k + 11 ;
divide_longs_rounding_up ( bits as usize , 32 ) }




fn floor_log2_of_long ( x : u64 ) -> ( r : u8 ) requires x > 0 , x <= 0x8000_0000_0000_0000 , ensures pow2 ( r as nat ) <= x < pow2 ( r as nat + 1 ) , r <= 63 {
debug_assert! ( x > 0 ) ;
let mut p = 0u8 ;
let mut y = 1u64 ;
proof {
lemma2_to64 ( ) ;
}
loop invariant p <= 63 , y == pow2 ( p as nat ) , p > 0 ==> pow2 ( ( p - 1 ) as nat ) < x , 0 < x <= 0x8000_0000_0000_0000 , decreases 64 - p {
proof {
lemma2_to64 ( ) ;
lemma2_to64_rest ( ) ;
lemma_pow2_strictly_increases ( p as nat , p as nat + 1 ) ;
if p > 0 {
lemma_pow2_strictly_increases ( ( p - 1 ) as nat , p as nat ) ;
}
}
match u64 :: cmp ( & y , & x ) {
Ordering :: Equal => return p , Ordering :: Greater => return p - 1 , Ordering :: Less => {
proof {
if p >= 63 {
assert ( pow2 ( 63 ) == 0x8000_0000_0000_0000 ) ;
assert ( false ) ;
}
lemma_pow2_unfold ( p as nat + 1 ) ;
assert ( y < 0x8000_0000_0000_0000 ==> ( y << 1 ) == y * 2 ) by ( bit_vector ) ;
if p < 62 {
lemma_pow2_strictly_increases ( p as nat + 1 , 63 ) ;
}
}
p += 1 ;
y <<= 1 ;
}
}
}
}





// floor(log2(x)) and the Golomb parameter as spec functions (encoder and decoder must choose the SAME number of base bits)
spec fn flog2(x: int) -> int decreases x { if x <= 1 { 0 } else { 1 + flog2(x / 2) } }
spec fn golomb_nbb(k: int, count: int) -> int { let q = (k - count) / count; if q <= 0 { 0 } else { flog2(q) } }
proof fn lemma_flog2_unique(x: int, r: nat) requires pow2(r) <= x < pow2(r + 1) ensures flog2(x) == r decreases r {
    lemma2_to64();
    if r == 0 { assert(pow2(1) == 2); } else {
        lemma_pow2_unfold(r); lemma_pow2_unfold(r + 1); lemma_pow2_pos((r - 1) as nat);
        assert(x >= 2);
        lemma_flog2_unique(x / 2, (r - 1) as nat);
    }
}
fn golomb_choose_number_of_base_bits ( k : u32 , count : u64 ) -> ( r : u8 ) requires count > 0 ,
/*@C17.cpc.coder_golomb_k_ge_count*/ k >= count , ensures
/*@C12.cpc.coder_golomb_base_bits*/ r == golomb_nbb ( k as int , count as int ) , r <= 31 , ( {
let q = ( k as int - count as int ) / ( count as int ) ;
if q == 0 {
r == 0 }
else {
pow2 ( r as nat ) <= q < pow2 ( r as nat + 1 ) }
}
) {
debug_assert! ( k > 0 ) ;
debug_assert! ( count > 0 ) ;
let quotient = ( ( k as u64 ) - count ) / count ;
proof {
let d = ( k as int ) - ( count as int ) ;
assert ( d / ( count as int ) <= d ) by ( nonlinear_arith ) requires d >= 0 , count >= 1 ;
assert ( 0 <= d / ( count as int ) ) by ( nonlinear_arith ) requires d >= 0 , count >= 1 ;
}
if quotient == 0 {
0 }
else {
proof {
lemma2_to64 ( ) ;
assert forall | e : nat | e >= 32 implies # [ trigger ] pow2 ( e ) >= 0x1_0000_0000 by {
lemma_pow2_increases ( 32 , e ) ;
}
assert forall | e : nat | pow2 ( e ) <= quotient < pow2 ( e + 1 ) implies # [ trigger ] pow2 ( e ) > 0 && flog2 ( quotient as int ) == e by {
lemma_flog2_unique ( quotient as int , e ) ;
lemma_pow2_pos ( e ) ;
}
}
floor_log2_of_long ( quotient ) }
}




fn safe_length_for_compressed_pair_buf ( k : u32 , num_pairs : u32 , num_base_bits : u8 ) -> ( r : usize ) requires num_base_bits < 64 ensures r == ( 12 * num_pairs + num_pairs * ( 1 + num_base_bits ) + ( k as usize >> ( num_base_bits as usize ) ) + ( if num_base_bits >= 10 {
0int }
else {
10 - num_base_bits }
) + 31 ) / 32 {
let k = k as usize ;
let num_pairs = num_pairs as usize ;
let num_base_bits = num_base_bits as usize ;
proof {
assert ( num_pairs * ( 1 + num_base_bits ) <= 0xffff_ffff * 64 ) by ( nonlinear_arith ) requires num_pairs <= 0xffff_ffff , num_base_bits < 64 ;
assert ( k <= 0xffff_ffff && num_base_bits < 64 ==> ( k >> num_base_bits ) <= 0xffff_ffff ) by ( bit_vector ) ;
}
let ybits = num_pairs * ( 1 + num_base_bits ) + ( k >> num_base_bits ) ;
let xbits = 12 * ( num_pairs ) ;
let padding = 10usize . saturating_sub ( num_base_bits ) ;
divide_longs_rounding_up ( xbits + ybits + padding , 32 ) }




proof fn lemma_k_bound(l: u8) requires 4 <= l <= 26 ensures 16 <= pow2(l as nat) <= 0x400_0000 {
    lemma2_to64(); if l < 26 { lemma_pow2_strictly_increases(l as nat, 26); } if l > 4 { lemma_pow2_strictly_increases(4, l as nat); }
}
proof fn lemma_shl64(l: u8) requires l <= 26 ensures (1u64 << l) == pow2(l as nat) {
    lemma2_to64(); if l < 26 { lemma_pow2_strictly_increases(l as nat, 26); }
    vstd::bits::lemma_u64_shl_is_mul(1, l as u64);
    assert((1u64 << (l as u64)) == (1u64 << l));
}
proof fn lemma_shl32(l: u8) requires l <= 26 ensures (1u32 << l) == pow2(l as nat), (1usize << l) == pow2(l as nat) {
    lemma2_to64(); if l < 26 { lemma_pow2_strictly_increases(l as nat, 26); }
    vstd::bits::lemma_u32_shl_is_mul(1, l as u32);
    assert((1u32 << (l as u32)) == (1u32 << l));
    vstd::bits::lemma_u64_shl_is_mul(1, l as u64);
    assert(l <= 26 ==> (1usize << l) == (1u64 << (l as u64)) as usize) by (bit_vector);
}


// ---------- cpc/compression.rs: pseudo phase (selects the decoding table [22] and the column permutation [16]) ----------
spec fn pseudo_phase_spec(lg_k: u8, c: u32) -> int {
    let k = pow2(lg_k as nat) as int; let ci = c as int;
    if 1000 * ci < 2375 * k {
        if 4 * ci < 3 * k { 16 } else if 10 * ci < 11 * k { 17 } else if 100 * ci < 132 * k { 18 } else if 3 * ci < 5 * k { 19 }
        else if 1000 * ci < 1965 * k { 20 } else if 1000 * ci < 2275 * k { 21 } else { 6 }
    } else { ((c >> ((lg_k - 4) as u32)) & 15) as int }
}
fn determine_pseudo_phase ( lg_k : u8 , num_coupons : u32 ) -> ( r : u8 ) requires 4 <= lg_k <= 26 ensures
/*@C12.cpc.coder_pseudo_phase,C13.cpc.coder_pseudo_phase,C18.cpc.coder_pseudo_phase*/ r == pseudo_phase_spec ( lg_k , num_coupons ) ,
/*@C17.cpc.coder_phase_table_index*/ r < 22 ,
/*@C17.cpc.coder_phase_perm_index*/ 1000 * ( num_coupons as int ) >= 2375 * pow2 ( lg_k as nat ) ==> r < 16 , {
proof {
lemma_shl64 ( lg_k ) ;
lemma_k_bound ( lg_k ) ;
}
let k : u64 = 1 << lg_k ;
let c = num_coupons as u64 ;
if 1000 * c < 2375 * k {
if 4 * c < 3 * k {
16 }
else if 10 * c < 11 * k {
16 + 1 }
else if 100 * c < 132 * k {
16 + 2 }
else if 3 * c < 5 * k {
16 + 3 }
else if 1000 * c < 1965 * k {
16 + 4 }
else if 1000 * c < 2275 * k {
16 + 5 }
else {
6 }
}
else {
debug_assert! ( lg_k >= 4 ) ;
let tmp = num_coupons >> ( lg_k - 4 ) ;
proof {
let s8 = ( lg_k - 4 ) as u8 ;
let s32 = ( lg_k - 4 ) as u32 ;
assert ( s8 <= 22 && s32 == s8 as u32 ==> ( num_coupons >> s8 ) == ( num_coupons >> s32 ) ) by ( bit_vector ) ;
let t = num_coupons >> s8 ;
assert ( ( t & 15 ) < 16 && t & 15 == t % 16 && t & 15 == 15 & t ) by ( bit_vector ) ;
}
( tmp & 15 ) as u8 }
}




// =====================================================================================================================
// The two halves of a compressed sketch image.  `words` = the first *_data_words words of *_data (what serialize writes and
// deserialize hands to uncompress).
// =====================================================================================================================
spec fn byte_enc(phase: int) -> Seq<u16> { sp_byte_enc()@[phase]@ }
spec fn byte_dec(phase: int) -> Seq<u16> { sp_byte_dec()@[phase]@ }
// the window half: Huffman code words of the k window bytes under the table of the pseudo phase, then at least 11 zero bits up to a word boundary
spec fn is_window_image(words: Seq<u32>, phase: int, w: Seq<u8>) -> bool {
    let st = enc_bytes(byte_enc(phase), w);
    &&& 32 * words.len() >= st.len() + 11
    &&& words_bits(words) == st + zeros(32 * words.len() - st.len())
    &&& words.len() == (st.len() + 11 + 31) / 32
}
// the table half: x/y delta codes of the ascending pairs, then at least max(0, 10 - num_base_bits) zero bits up to a word boundary
spec fn is_pairs_image(words: Seq<u32>, nbb: int, pairs: Seq<u32>) -> bool {
    let st = enc_pairs(llu_enc(), nbb, pairs, pairs.len() as int);
    &&& 32 * words.len() >= st.len() + pad_bits(nbb)
    &&& words_bits(words) == st + zeros(32 * words.len() - st.len())
    &&& words.len() == (st.len() + pad_bits(nbb) + 31) / 32
}
spec fn rows_below(pairs: Seq<u32>, k: int) -> bool { forall|i: int| 0 <= i < pairs.len() ==> (#[trigger] pairs[i] >> 6) < k }
spec fn k_of(lg_k: u8) -> int { pow2(lg_k as nat) as int }

// C11 for the window half: what uncompress_sliding_window returns on an image written by compress_sliding_window is the window
proof fn lemma_window_image_roundtrip(words: Seq<u32>, phase: int, w: Seq<u8>)
  requires 0 <= phase < 22, is_window_image(words, phase, w)
  ensures /*@C11.cpc.coder_window_roundtrip*/ dec_bytes(byte_dec(phase), words_bits(words), w.len() as int) == w,
    /*@C11.cpc.coder_window_fits*/ dec_bytes_fits(byte_dec(phase), words_bits(words), w.len() as int)
{
    axiom_cpc_tables_inverse();
    let st = enc_bytes(byte_enc(phase), w);
    lemma_bytes_roundtrip(byte_enc(phase), byte_dec(phase), w, zeros(32 * words.len() - st.len()));
}
// C11 for the table half
proof fn lemma_pairs_image_roundtrip(words: Seq<u32>, nbb: int, pairs: Seq<u32>)
  requires 0 <= nbb <= 30, pairs_ascending(pairs), is_pairs_image(words, nbb, pairs)
  ensures /*@C11.cpc.coder_table_roundtrip*/ dec_pairs(llu_dec(), nbb, words_bits(words), pairs.len() as int, 0, 0) == pairs,
    /*@C11.cpc.coder_table_fits*/ dec_pairs_fits(llu_dec(), nbb, words_bits(words), pairs.len() as int, 0, 0)
{
    axiom_cpc_tables_inverse();
    let st = enc_pairs(llu_enc(), nbb, pairs, pairs.len() as int);
    lemma_enc_pairs_split(llu_enc(), nbb, pairs, 0);
    assert(enc_pairs(llu_enc(), nbb, pairs, 0) =~= Seq::<bool>::empty());
    assert(st =~= enc_pairs_from(llu_enc(), nbb, pairs, 0));
    lemma_pairs_roundtrip_from(llu_enc(), llu_dec(), nbb, pairs, 0, zeros(32 * words.len() - st.len()));
    assert(pairs.skip(0) =~= pairs);
}

proof fn lemma_nbb_bound(k: int, np: int) requires 16 <= k <= 0x400_0000, 1 <= np ensures 0 <= golomb_nbb(k + np, np) <= 26 {
    let q = k / np;
    assert(0 <= q <= k) by (nonlinear_arith) requires q == k / np, k >= 0, np >= 1;
    lemma2_to64();
    assert(pow2(27) == 0x800_0000);
    lemma_flog2_bound(q, 26);
}
proof fn lemma_flog2_bound(x: int, r: nat) requires x < pow2(r + 1) ensures 0 <= flog2(x) <= r decreases r {
    lemma2_to64();
    if x > 1 {
        if r == 0 { assert(pow2(1) == 2); } else { lemma_pow2_unfold(r + 1); lemma_flog2_bound(x / 2, (r - 1) as nat); }
    }
}
// the table buffer length fits the u32 word-count field of the image (C18.cpc.coder_table_words_u32)
proof fn lemma_table_len_u32(nbb: int, n: int, k: u32) requires 0 <= nbb <= 26, 0 <= n <= 0x8000_0000, k <= 0x400_0000
  ensures (pairs_bits_bound(nbb, n, k) + pad_bits(nbb) + 31) / 32 <= 0xffff_ffff
{
    assert(n * (1 + nbb) <= n * 27) by (nonlinear_arith) requires 0 <= nbb <= 26, n >= 0;
    let k64 = k as u64; let s = nbb as u64;
    assert((k64 >> s) <= k64) by (bit_vector);
}
proof fn lemma_ceil32(x: int) requires x >= 0 ensures 32 * ((x + 31) / 32) >= x, 32 * ((x + 31) / 32) < x + 32 {}
proof fn lemma_shr_usize_u64(k: u32, nbb: u8) requires nbb < 64 ensures ((k as usize) >> (nbb as usize)) == ((k as u64) >> (nbb as u64)) {
    let a = k as usize; let b = k as u64; let s = nbb as usize; let t = nbb as u64;
    assert((a >> s) == (b >> t)) by (bit_vector) requires a == k as usize, b == k as u64, s == nbb as usize, t == nbb as u64;
}

impl CompressedState {
    fn compress_surprising_values ( & mut self , pairs : & [ u32 ] , lg_k : u8 ) requires 4 <= lg_k <= 26 ,
/*@C17.cpc.coder_pairs_nonempty*/ 1 <= pairs @ . len ( ) , pairs @ . len ( ) <= 0x8000_0000 ,
/*@C17.cpc.coder_pairs_sorted*/ pairs_ascending ( pairs @ ) , rows_below ( pairs @ , k_of ( lg_k ) ) , ensures
/*@C18.cpc.coder_table_words_u32*/ final ( self ) . table_data @ . len ( ) <= 0xffff_ffff , final ( self ) . window_data == old ( self ) . window_data , final ( self ) . window_data_words == old ( self ) . window_data_words , final ( self ) . table_num_entries == pairs @ . len ( ) , final ( self ) . table_data_words <= final ( self ) . table_data @ . len ( ) , final ( self ) . table_data @ . len ( ) > 0 ,
/*@C18.cpc.coder_table_buf_len*/ final ( self ) . table_data @ . len ( ) == ( pairs_bits_bound ( golomb_nbb ( k_of ( lg_k ) + pairs @ . len ( ) , pairs @ . len ( ) as int ) , pairs @ . len ( ) as int , k_of ( lg_k ) as u32 ) + pad_bits ( golomb_nbb ( k_of ( lg_k ) + pairs @ . len ( ) , pairs @ . len ( ) as int ) ) + 31 ) / 32 ,
/*@C12.cpc.coder_table_image*/ is_pairs_image ( final ( self ) . table_data @ . take ( final ( self ) . table_data_words as int ) , golomb_nbb ( k_of ( lg_k ) + pairs @ . len ( ) , pairs @ . len ( ) as int ) , pairs @ ) , {
proof {
lemma_shl32 ( lg_k ) ;
lemma_k_bound ( lg_k ) ;
lemma_nbb_bound ( k_of ( lg_k ) , pairs @ . len ( ) as int ) ;
}
let k = 1 << lg_k ;
let num_pairs = pairs . len ( ) as u32 ;
let num_base_bits = golomb_choose_number_of_base_bits ( k + num_pairs , num_pairs as u64 ) ;
let table_len = safe_length_for_compressed_pair_buf ( k , num_pairs , num_base_bits ) ;
self . table_data . resize ( table_len , 0 ) ;
proof {
let n = pairs @ . len ( ) as int ;
let nbb = num_base_bits as int ;
let last = prev_row ( pairs @ , n ) ;
assert ( last < k ) by {
assert ( last == pairs @ [ n - 1 ] >> 6 ) ;
}
lemma_shr_mono ( last , k , nbb ) ;
lemma_shr_usize_u64 ( k , num_base_bits ) ;
lemma_ceil32 ( pairs_bits_bound ( nbb , n , k ) + pad_bits ( nbb ) ) ;
lemma_table_len_u32 ( nbb , n , k ) ;
}
let compressed_surprising_values = self . low_level_compress_pairs ( pairs , num_base_bits ) ;
self . table_data_words = compressed_surprising_values ;
self . table_num_entries = num_pairs ;
proof {
lemma_words_bits_len ( self . table_data @ . take ( self . table_data_words as int ) ) ;
}
}



    fn compress_sliding_window ( & mut self , window : & [ u8 ] , lg_k : u8 , num_coupons : u32 ) requires 4 <= lg_k <= 26 , window @ . len ( ) >= k_of ( lg_k ) , ensures
/*@C18.cpc.coder_window_words_u32*/ final ( self ) . window_data @ . len ( ) <= 0xffff_ffff , final ( self ) . table_data == old ( self ) . table_data , final ( self ) . table_data_words == old ( self ) . table_data_words , final ( self ) . table_num_entries == old ( self ) . table_num_entries , final ( self ) . window_data_words <= final ( self ) . window_data @ . len ( ) , final ( self ) . window_data @ . len ( ) > 0 ,
/*@C18.cpc.coder_window_buf_len*/ final ( self ) . window_data @ . len ( ) == ( 12 * k_of ( lg_k ) + 11 + 31 ) / 32 ,
/*@C12.cpc.coder_window_image*/ is_window_image ( final ( self ) . window_data @ . take ( final ( self ) . window_data_words as int ) , pseudo_phase_spec ( lg_k , num_coupons ) , window @ . take ( k_of ( lg_k ) ) ) , {
proof {
lemma_shl32 ( lg_k ) ;
lemma_k_bound ( lg_k ) ;
axiom_cpc_tables_inverse ( ) ;
}
let k = 1 << lg_k ;
let window_buf_len = safe_length_for_compressed_window_buf ( k ) ;
self . window_data . resize ( window_buf_len , 0 ) ;
let pseudo_phase = determine_pseudo_phase ( lg_k , num_coupons ) ;
proof {
lemma_ceil32 ( 12 * k + 11 ) ;
}
let data_words = self . low_level_compress_bytes ( window , k , & ENCODING_TABLES_FOR_HIGH_ENTROPY_BYTE [ pseudo_phase as usize ] , ) ;
self . window_data_words = data_words ;
proof {
lemma_words_bits_len ( self . window_data @ . take ( self . window_data_words as int ) ) ;
}
}


}

fn uncompress_surprising_values ( data : & [ u32 ] , data_words : usize , num_pairs : u32 , lg_k : u8 , ) -> ( r : Vec < u32 > ) requires 4 <= lg_k <= 26 , data @ . len ( ) == data_words , data_words <= 0xffff_ffff ,
/*@C17.cpc.coder_pairs_nonempty*/ 1 <= num_pairs , num_pairs <= 0x8000_0000 ,
/*@C13.cpc.coder_table_stream_fits*/ dec_pairs_fits ( llu_dec ( ) , golomb_nbb ( k_of ( lg_k ) + num_pairs , num_pairs as int ) , words_bits ( data @ ) , num_pairs as int , 0 , 0 ) , ensures
/*@C13.cpc.coder_table_decoded*/ r @ == dec_pairs ( llu_dec ( ) , golomb_nbb ( k_of ( lg_k ) + num_pairs , num_pairs as int ) , words_bits ( data @ ) , num_pairs as int , 0 , 0 ) , r @ . len ( ) == num_pairs , {
proof {
lemma_shl32 ( lg_k ) ;
lemma_k_bound ( lg_k ) ;
lemma_nbb_bound ( k_of ( lg_k ) , num_pairs as int ) ;
}
let k = 1 << lg_k ;
let mut pairs = vec! [ 0 ;
num_pairs as usize ] ;
let num_base_bits = golomb_choose_number_of_base_bits ( k + num_pairs , num_pairs as u64 ) ;
low_level_uncompress_pairs ( & mut pairs , num_pairs , num_base_bits , data , data_words ) ;
proof {
assert ( pairs @ . take ( num_pairs as int ) =~= pairs @ ) ;
}
pairs }



fn uncompress_sliding_window ( data : & [ u32 ] , data_words : usize , window : & mut Vec < u8 > , lg_k : u8 , num_coupons : u32 , ) requires 4 <= lg_k <= 26 , data @ . len ( ) == data_words ,
/*@C13.cpc.coder_window_stream_fits*/ dec_bytes_fits ( byte_dec ( pseudo_phase_spec ( lg_k , num_coupons ) ) , words_bits ( data @ ) , k_of ( lg_k ) ) , ensures
/*@C13.cpc.coder_window_decoded*/ final ( window ) @ == dec_bytes ( byte_dec ( pseudo_phase_spec ( lg_k , num_coupons ) ) , words_bits ( data @ ) , k_of ( lg_k ) ) , final ( window ) @ . len ( ) == k_of ( lg_k ) , {
proof {
lemma_shl32 ( lg_k ) ;
lemma_k_bound ( lg_k ) ;
axiom_cpc_tables_inverse ( ) ;
}
let k = 1 << lg_k ;
window . resize ( k , 0 ) ;
let pseudo_phase = determine_pseudo_phase ( lg_k , num_coupons ) ;
low_level_uncompress_bytes ( window , k as u32 , data , data_words , & DECODING_TABLES_FOR_HIGH_ENTROPY_BYTE [ pseudo_phase as usize ] , ) ;
proof {
assert ( window @ . take ( k as int ) =~= window @ ) ;
}
}



// =====================================================================================================================
// The flavor level: CompressedState::{compress_*_flavor, uncompress_*_flavor} as compositions of the two halves.
// PairTable by contract (bodies proved in units cpc_pairtable / cpc_codec); the sketch enters through `coder_wf`, the part of
// CpcSketch::wf_matrix (contracts/cpc_core.rs) that the coder needs.
// =====================================================================================================================
const EMPTY: u32 = 0xffff_ffff;
struct PairTable {
lg_size : u8 , num_valid_bits : u8 , num_items : u32 , slots : Vec < u32 > , }



struct UncompressedState {
table : PairTable , window : Vec < u8 > , }



enum Flavor {
Empty , Sparse , Hybrid , Pinned , Sliding , }



struct CpcSketch {
lg_k : u8 , seed : u64 , seed_hash : u16 , first_interesting_column : u8 , num_coupons : u32 , surprising_value_table : Option < PairTable > , window_offset : u8 , sliding_window : Vec < u8 > , merge_flag : bool , kxp : f64 , hip_est_accum : f64 , }



// the REAL invariant and view of PairTable, VERBATIM from contracts/cpc_pairtable.rs / contracts/cpc_codec.rs (the units that prove the
// bodies of new / from_slots / unwrapping_get_items against it): the coder's proofs use them only through the three contracts below,
// the definitions are here so that the clauses `r.table.wf()` / `r.table.items()` that unit cpc_codec assumes of `uncompress` are the
// SAME predicates (refinement mapping for tools/linkprove.py).
spec fn probe_at(p0: int, s: int, j: int, size: int) -> int { (p0 + j * s) % size }
spec fn phome(item: u32, nvb: u8, lg: u8) -> int { (item >> ((nvb - lg) as u32)) as int }
spec fn ppos(item: u32, nvb: u8, lg: u8, j: int, size: int) -> int { probe_at(phome(item, nvb, lg), 1, j, size) }
spec fn pocc(ss: Seq<u32>) -> Set<int> { Set::range(0, ss.len() as int).filter(|i: int| ss[i] != EMPTY) }
spec fn pfull_before(ss: Seq<u32>, item: u32, nvb: u8, lg: u8, j: int) -> bool {
    forall|t: int| 0 <= t < j ==> ss[#[trigger] ppos(item, nvb, lg, t, ss.len() as int)] != EMPTY
}
spec fn preach_at(ss: Seq<u32>, nvb: u8, lg: u8, i: int) -> bool {
    exists|j: int| 0 <= j < ss.len() && i == ppos(ss[i], nvb, lg, j, ss.len() as int) && #[trigger] pfull_before(ss, ss[i], nvb, lg, j)
}
spec fn pshape(ss: Seq<u32>, nvb: u8, lg: u8) -> bool { 2 <= lg <= 26 && lg < nvb <= 32 && ss.len() == pow2(lg as nat) }
spec fn ptbl_ok(ss: Seq<u32>, nvb: u8, lg: u8) -> bool {
    &&& pshape(ss, nvb, lg)
    &&& forall|i: int| 0 <= i < ss.len() && ss[i] != EMPTY ==> (#[trigger] ss[i] as int) < pow2(nvb as nat)
    &&& forall|i: int, j: int| 0 <= i < ss.len() && 0 <= j < ss.len() && i != j && ss[i] != EMPTY ==> ss[i] != ss[j]
    &&& forall|i: int| 0 <= i < ss.len() && ss[i] != EMPTY ==> #[trigger] preach_at(ss, nvb, lg, i)
}
spec fn pholds(ss: Seq<u32>, item: u32) -> bool { exists|i: int| 0 <= i < ss.len() && ss[i] == item }

impl PairTable {
    #[verifier::opaque]
    spec fn wf(&self) -> bool {
        &&& ptbl_ok(self.slots@, self.num_valid_bits, self.lg_size)
        &&& self.num_items == pocc(self.slots@).len()
        &&& 4 * self.num_items <= 3 * self.slots@.len()
    }
    #[verifier::opaque]
    spec fn items(&self) -> ISet<u32> { ISet::new(|c: u32| c != EMPTY && pholds(self.slots@, c)) }
    // contract VERBATIM from the one PROVED in contracts/cpc_pairtable.rs (C05.pairtable.new.*)
    #[verifier::external_body]
    fn new(lg_size: u8, num_valid_bits: u8) -> (r: Self)
      requires 2 <= lg_size <= 26, lg_size + 1 <= num_valid_bits <= 32
      ensures r.lg_size == lg_size, r.num_valid_bits == num_valid_bits, r.num_items == 0, r.wf(), r.items() =~= ISet::<u32>::empty(),
    { unimplemented!() }
    // contract VERBATIM from the one PROVED in contracts/cpc_codec.rs (C14.cpc.from_slots.*)
    #[verifier::external_body]
    fn from_slots(lg_size: u8, num_items: u32, slots: Vec<u32>) -> (r: Self)
      requires 4 <= lg_size <= 26,
        num_items <= slots@.len(),
        4 * num_items <= 3 * pow2(26) && 4 * num_items <= 3 * pow2((5 + lg_size) as nat),
        forall|i: int| 0 <= i < num_items ==> slots@[i] != EMPTY && (#[trigger] slots@[i] as int) < pow2((6 + lg_size) as nat),
        forall|i: int, j: int| 0 <= i < j < num_items ==> slots@[i] != slots@[j],
      ensures r.wf(), r.num_valid_bits == 6 + lg_size, r.num_items == num_items,
        forall|x: u32| #[trigger] r.items().contains(x) <==> (exists|i: int| 0 <= i < num_items && slots@[i] == x),
    { unimplemented!() }
    // contract VERBATIM from the one PROVED in contracts/cpc_pairtable.rs (C05.pairtable.get_items.*)
    #[verifier::external_body]
    fn unwrapping_get_items(&self) -> (res: Vec<u32>)
      requires self.wf(),
      ensures res@.len() == self.num_items,
        forall|x: u32| res@.contains(x) <==> self.items().contains(x),
        res@.no_duplicates(),
    { unimplemented!() }
}

// <[u32]>::sort_unstable: permutation + ascending (same assumed specification as unit theta_sketch; checked by kani shim_sort_unstable_vec_u32, bounded)
pub assume_specification<T: Ord> [ <[T]>::sort_unstable ] (s: &mut [T])
  ensures final(s)@.to_multiset() == old(s)@.to_multiset(),
    T::obeys_cmp_spec() ==> forall|i: int, j: int| #![trigger final(s)@[i], final(s)@[j]] 0 <= i < j < final(s)@.len() ==> final(s)@[i].cmp_spec(&final(s)@[j]) != core::cmp::Ordering::Greater;

spec fn flavor_spec(lg_k: u8, c: u32) -> Flavor {
    let k = pow2(lg_k as nat) as int; let c = c as int;
    if c == 0 { Flavor::Empty } else if 32 * c < 3 * k { Flavor::Sparse } else if 2 * c < k { Flavor::Hybrid } else if 8 * c < 27 * k { Flavor::Pinned } else { Flavor::Sliding }
}
spec fn dco(lg_k: u8, c: u32) -> int { let k = pow2(lg_k as nat) as int; if 8 * (c as int) < 19 * k { 0 } else { (8 * (c as int) - 19 * k) / (8 * k) } }

// a sort keeps the set of elements and distinctness; sorted + distinct = strictly ascending
proof fn lemma_perm_set(a: Seq<u32>, b: Seq<u32>)
  requires a.to_multiset() == b.to_multiset(), b.no_duplicates()
  ensures a.no_duplicates(), a.len() == b.len(), forall|c: u32| a.contains(c) <==> b.contains(c)
{
    b.lemma_multiset_has_no_duplicates();
    a.lemma_multiset_has_no_duplicates_conv();
    a.to_multiset_ensures();
    b.to_multiset_ensures();
    assert forall|c: u32| a.contains(c) <==> b.contains(c) by {
        assert(a.contains(c) <==> a.to_multiset().count(c) > 0);
        assert(b.contains(c) <==> b.to_multiset().count(c) > 0);
    }
}
// the ascending sequence of the members of a set (unique; `exists` in the image predicates ranges over this one sequence)
spec fn sorted_items(pairs: Seq<u32>, set: ISet<u32>) -> bool { pairs_ascending(pairs) && forall|x: u32| pairs.contains(x) <==> set.contains(x) }
proof fn lemma_sorted_distinct_ascending(a: Seq<u32>)
  requires a.no_duplicates(), forall|i: int, j: int| #![trigger a[i], a[j]] 0 <= i < j < a.len() ==> a[i] <= a[j]
  ensures pairs_ascending(a)
{
    assert forall|i: int, j: int| #![trigger a[i], a[j]] 0 <= i < j < a.len() implies a[i] < a[j] by { assert(a[i] <= a[j]); assert(a[i] != a[j]); }
}
proof fn lemma_ascending_distinct(a: Seq<u32>) requires pairs_ascending(a) ensures forall|i: int, j: int| 0 <= i < j < a.len() ==> a[i] != a[j] {
    assert forall|i: int, j: int| 0 <= i < j < a.len() implies a[i] != a[j] by { lemma_ascending_lt(a, i, j); }
}

impl CpcSketch {
    spec fn k(&self) -> int { pow2(self.lg_k as nat) as int }
    // total form, VERBATIM as in contracts/cpc_core.rs / cpc_update.rs / cpc_codec.rs (equal to `table->0.items()` whenever the table is present, which coder_wf demands)
    spec fn tbl(&self) -> ISet<u32> { if self.surprising_value_table is Some { self.surprising_value_table->0.items() } else { ISet::empty() } }
    // what the coder needs of a sketch with num_coupons > 0: the clauses of CpcSketch::wf_matrix (contracts/cpc_core.rs) about the table, plus
    // the capacity bound that PairTable::wf implies (contracts/cpc_pairtable.rs: 4 * num_items <= 3 * slots.len(), slots.len() = 2^lg_size <= 2^26)
    spec fn coder_wf(&self) -> bool {
        &&& 4 <= self.lg_k <= 26
        &&& self.window_offset <= 56
        &&& (self.sliding_window@.len() == 0 || self.sliding_window@.len() == self.k())
        &&& self.surprising_value_table is Some && self.surprising_value_table->0.wf()
        &&& 4 * self.surprising_value_table->0.num_items <= 3 * 0x400_0000
        &&& (forall|x: u32| #[trigger] self.tbl().contains(x) ==> (x >> 6) < self.k() && x != EMPTY)
        &&& (self.sliding_window@.len() != 0 ==> forall|x: u32| #[trigger] self.tbl().contains(x) ==> !(self.window_offset <= (x & 63) < self.window_offset + 8))
    }

    fn lg_k ( & self ) -> ( r : u8 ) ensures r == self . lg_k {
self . lg_k }



    fn num_coupons ( & self ) -> ( r : u32 ) ensures r == self . num_coupons {
self . num_coupons }



    fn surprising_value_table ( & self ) -> ( r : & PairTable ) requires self . surprising_value_table is Some ensures * r == self . surprising_value_table -> 0 {
self . surprising_value_table . as_ref ( ) . expect ( "" ) }


}

// the table half of an image holds exactly the members of `set` (after the flavor's column transformation)
spec fn table_image_of(words: Seq<u32>, num_entries: u32, lg_k: u8, set: ISet<u32>) -> bool {
    exists|pairs: Seq<u32>| #[trigger] sorted_items(pairs, set) && pairs.len() == num_entries && pairs.len() >= 1
        && is_pairs_image(words, golomb_nbb(k_of(lg_k) + pairs.len(), pairs.len() as int), pairs)
}

impl CompressedState {
    spec fn table_words(&self) -> Seq<u32> { self.table_data@.take(self.table_data_words as int) }
    spec fn window_words(&self) -> Seq<u32> { self.window_data@.take(self.window_data_words as int) }

    fn compress_sparse_flavor ( & mut self , source : & CpcSketch ) requires source . coder_wf ( ) , source . sliding_window @ . len ( ) == 0 ,
/*@C17.cpc.coder_pairs_nonempty*/ source . surprising_value_table -> 0 . num_items >= 1 , ensures
/*@C18.cpc.coder_table_words_u32*/ final ( self ) . table_data @ . len ( ) <= 0xffff_ffff ,
/*@C12.cpc.coder_sparse_entries*/ final ( self ) . table_num_entries == source . surprising_value_table -> 0 . num_items , final ( self ) . window_data == old ( self ) . window_data , final ( self ) . window_data_words == old ( self ) . window_data_words , final ( self ) . table_data_words <= final ( self ) . table_data @ . len ( ) , final ( self ) . table_data @ . len ( ) > 0 ,
/*@C12.cpc.coder_sparse_image*/ table_image_of ( final ( self ) . table_words ( ) , final ( self ) . table_num_entries , source . lg_k , source . tbl ( ) ) , {
debug_assert! ( source . sliding_window . is_empty ( ) ) ;
let mut pairs = source . surprising_value_table ( ) . unwrapping_get_items ( ) ;
let ghost got = pairs @ ;
pairs . sort_unstable ( ) ;
proof {
lemma_perm_set ( pairs @ , got ) ;
assert forall | i : int , j : int | # ! [ trigger pairs @ [ i ] , pairs @ [ j ] ] 0 <= i < j < pairs @ . len ( ) implies pairs @ [ i ] <= pairs @ [ j ] by {
assert ( pairs @ [ i ] . cmp_spec ( & pairs @ [ j ] ) != core :: cmp :: Ordering :: Greater ) ;
}
lemma_sorted_distinct_ascending ( pairs @ ) ;
assert ( sorted_items ( pairs @ , source . tbl ( ) ) ) ;
lemma_k_bound ( source . lg_k ) ;
assert forall | i : int | 0 <= i < pairs @ . len ( ) implies ( # [ trigger ] pairs @ [ i ] >> 6 ) < k_of ( source . lg_k ) by {
assert ( pairs @ . contains ( pairs @ [ i ] ) ) ;
}
}
self . compress_surprising_values ( & pairs , source . lg_k ( ) ) ;
}


}

// ---------- decoding side ----------
impl CompressedState {
    spec fn nbb(&self, lg_k: u8) -> int { golomb_nbb(k_of(lg_k) + self.table_num_entries, self.table_num_entries as int) }
    // the pairs the spec decoder reads from the table half
    spec fn table_decoded(&self, lg_k: u8) -> Seq<u32> { dec_pairs(llu_dec(), self.nbb(lg_k), words_bits(self.table_data@), self.table_num_entries as int, 0, 0) }
    // a VALID table half: the stream fits, and the decoded pairs are distinct coupons of a 2^lg_k-row matrix (what PairTable::from_slots needs)
    spec fn table_valid(&self, lg_k: u8) -> bool {
        let n = self.table_num_entries as int; let d = self.table_decoded(lg_k);
        &&& self.table_data@.len() == self.table_data_words && self.table_data_words <= 0xffff_ffff
        &&& 1 <= n && 4 * n <= 3 * 0x400_0000 && 4 * n <= 3 * pow2((5 + lg_k) as nat)
        &&& dec_pairs_fits(llu_dec(), self.nbb(lg_k), words_bits(self.table_data@), n, 0, 0)
        // (row 2^26 - 1, column 63) IS the EMPTY marker of PairTable when lg_k = 26: excluded explicitly
        &&& forall|i: int| 0 <= i < n ==> (#[trigger] d[i] >> 6) < k_of(lg_k) && d[i] != EMPTY
        &&& forall|i: int, j: int| 0 <= i < j < n ==> d[i] != d[j]
    }
    spec fn window_decoded(&self, lg_k: u8, num_coupons: u32) -> Seq<u8> { dec_bytes(byte_dec(pseudo_phase_spec(lg_k, num_coupons)), words_bits(self.window_data@), k_of(lg_k)) }
    spec fn window_valid(&self, lg_k: u8, num_coupons: u32) -> bool {
        &&& self.window_data@.len() == self.window_data_words
        &&& dec_bytes_fits(byte_dec(pseudo_phase_spec(lg_k, num_coupons)), words_bits(self.window_data@), k_of(lg_k))
    }
}
proof fn lemma_row_range(x: u32, lg_k: u8) requires 4 <= lg_k <= 26, (x >> 6) < k_of(lg_k) ensures (x as int) < pow2((6 + lg_k) as nat) {
    lemma_k_bound(lg_k); lemma_pow2_adds(6, lg_k as nat); lemma2_to64();
    let k = k_of(lg_k) as u64; let x64 = x as u64;
    assert((x64 >> 6) < k && k <= 0x400_0000 && x64 == x as u64 ==> x64 < mul(64, k) && (x64 >> 6) == (x >> 6) as u64) by (bit_vector);
}

impl CompressedState {
    fn uncompress_sparse_flavor ( & self , lg_k : u8 ) -> ( r : UncompressedState ) requires 4 <= lg_k <= 26 , self . window_data @ . len ( ) == 0 && self . table_data @ . len ( ) > 0 ,
/*@C13.cpc.coder_table_valid*/ self . table_valid ( lg_k ) , ensures r . window @ . len ( ) == 0 , r . table . wf ( ) , r . table . num_valid_bits == 6 + lg_k , r . table . num_items == self . table_num_entries ,
/*@C13.cpc.coder_sparse_decoded*/ forall | x : u32 | # [ trigger ] r . table . items ( ) . contains ( x ) <==> self . table_decoded ( lg_k ) . contains ( x ) , {
debug_assert! ( self . window_data . is_empty ( ) ) ;
debug_assert! ( ! self . table_data . is_empty ( ) ) ;
let pairs = uncompress_surprising_values ( & self . table_data , self . table_data_words , self . table_num_entries , lg_k , ) ;
proof {
lemma2_to64 ( ) ;
assert ( pairs @ == self . table_decoded ( lg_k ) ) ;
assert forall | i : int | 0 <= i < self . table_num_entries implies pairs @ [ i ] != EMPTY && ( # [ trigger ] pairs @ [ i ] as int ) < pow2 ( ( 6 + lg_k ) as nat ) by {
assert ( ( pairs @ [ i ] >> 6 ) < k_of ( lg_k ) ) ;
lemma_row_range ( pairs @ [ i ] , lg_k ) ;
}
}
proof {
let d = pairs @ ;
assert forall | x : u32 | d . contains ( x ) <==> ( exists | i : int | 0 <= i < self . table_num_entries && pairs @ [ i ] == x ) by {
if d . contains ( x ) {
let i = choose | i : int | 0 <= i < d . len ( ) && d [ i ] == x ;
assert ( 0 <= i < self . table_num_entries && pairs @ [ i ] == x ) ;
}
}
}
UncompressedState {
table : PairTable :: from_slots ( lg_k , self . table_num_entries , pairs ) , window : vec! [ ] , }
}


}

// C11 for the table half at the level of SETS: an image of the members of `set` (rows < k) is valid and decodes to exactly that set
proof fn lemma_table_image_roundtrip(c: CompressedState, lg_k: u8, set: ISet<u32>)
  requires 4 <= lg_k <= 26, c.table_data@.len() == c.table_data_words <= 0xffff_ffff,
    table_image_of(c.table_data@, c.table_num_entries, lg_k, set),
    forall|x: u32| #[trigger] set.contains(x) ==> (x >> 6) < k_of(lg_k) && x != EMPTY,
    4 * c.table_num_entries <= 3 * 0x400_0000 && 4 * c.table_num_entries <= 3 * pow2((5 + lg_k) as nat),
  ensures /*@C11.cpc.coder_table_valid*/ c.table_valid(lg_k),
    /*@C11.cpc.coder_table_set_roundtrip*/ forall|x: u32| #[trigger] c.table_decoded(lg_k).contains(x) <==> set.contains(x),
    sorted_items(c.table_decoded(lg_k), set), c.table_decoded(lg_k).len() == c.table_num_entries,
{
    let pairs = choose|pairs: Seq<u32>| #[trigger] sorted_items(pairs, set) && pairs.len() == c.table_num_entries && pairs.len() >= 1
        && is_pairs_image(c.table_data@, golomb_nbb(k_of(lg_k) + pairs.len(), pairs.len() as int), pairs);
    lemma_k_bound(lg_k);
    lemma_nbb_bound(k_of(lg_k), pairs.len() as int);
    lemma_pairs_image_roundtrip(c.table_data@, c.nbb(lg_k), pairs);
    assert(c.table_decoded(lg_k) == pairs);
    lemma_ascending_distinct(pairs);
    assert forall|i: int| 0 <= i < pairs.len() implies (#[trigger] pairs[i] >> 6) < k_of(lg_k) && pairs[i] != EMPTY by { assert(pairs.contains(pairs[i])); }
}

// ---------- pinned flavor: window at columns 0..8, every table column >= 8 is stored minus 8 ----------
spec fn shift_cols(set: ISet<u32>) -> ISet<u32> { ISet::new(|y: u32| y + 8 <= u32::MAX && set.contains((y + 8) as u32)) }
// membership in the set a pinned table half decodes to: the decoded pairs plus 8
spec fn unshift_has(d: Seq<u32>, x: u32) -> bool { x >= 8 && d.contains((x - 8) as u32) }
proof fn lemma_minus8(p: u32) requires (p & 63) >= 8 ensures p >= 8, ((p - 8) as u32 >> 6) == (p >> 6), ((p - 8) as u32 & 63) == (p & 63) - 8, ((p - 8) as u32 & 63) < 56, (p - 8) as u32 != EMPTY, p % 64 == p & 63, p / 64 == p >> 6 {
    lemma_bridge_u32(p);
    assert((p & 63) >= 8 ==> p >= 8 && (sub(p, 8) >> 6) == (p >> 6) && (sub(p, 8) & 63) == sub(p & 63, 8) && (sub(p, 8) & 63) < 56 && (p & 63) <= 63 && sub(p, 8) != 0xffff_ffffu32) by (bit_vector);
}
proof fn lemma_plus8(p: u32) requires (p & 63) < 56 ensures p + 8 <= u32::MAX, ((p + 8) as u32 >> 6) == (p >> 6), ((p + 8) as u32 & 63) == (p & 63) + 8, p % 64 == p & 63, p / 64 == p >> 6 {
    lemma_bridge_u32(p);
    assert((p & 63) < 56 ==> p <= 0xffff_fff7 && (add(p, 8) >> 6) == (p >> 6) && (add(p, 8) & 63) == add(p & 63, 8)) by (bit_vector);
}

impl CompressedState {
    fn compress_pinned_flavor ( & mut self , source : & CpcSketch ) requires source . coder_wf ( ) , source . sliding_window @ . len ( ) == source . k ( ) , source . window_offset == 0 , ensures
/*@C18.cpc.coder_window_words_u32*/ final ( self ) . window_data @ . len ( ) <= 0xffff_ffff ,
/*@C18.cpc.coder_table_words_u32*/ source . surprising_value_table -> 0 . num_items > 0 ==> 0 < final ( self ) . table_data @ . len ( ) <= 0xffff_ffff , final ( self ) . window_data_words <= final ( self ) . window_data @ . len ( ) , final ( self ) . window_data @ . len ( ) > 0 ,
/*@C12.cpc.coder_pinned_window*/ is_window_image ( final ( self ) . window_words ( ) , pseudo_phase_spec ( source . lg_k , source . num_coupons ) , source . sliding_window @ ) , source . surprising_value_table -> 0 . num_items == 0 ==> final ( self ) . table_data == old ( self ) . table_data && final ( self ) . table_data_words == old ( self ) . table_data_words && final ( self ) . table_num_entries == old ( self ) . table_num_entries , source . surprising_value_table -> 0 . num_items > 0 ==> final ( self ) . table_data_words <= final ( self ) . table_data @ . len ( ) &&
/*@C12.cpc.coder_pinned_table*/ table_image_of ( final ( self ) . table_words ( ) , final ( self ) . table_num_entries , source . lg_k , shift_cols ( source . tbl ( ) ) ) , {
self . compress_sliding_window ( & source . sliding_window , source . lg_k ( ) , source . num_coupons ( ) ) ;
proof {
assert ( source . sliding_window @ . take ( k_of ( source . lg_k ) ) =~= source . sliding_window @ ) ;
}
let mut pairs = source . surprising_value_table ( ) . unwrapping_get_items ( ) ;
let ghost got = pairs @ ;
if ! pairs . is_empty ( ) {
proof {
assert forall | i : int | 0 <= i < got . len ( ) implies ( # [ trigger ] got [ i ] & 63 ) >= 8 by {
assert ( got . contains ( got [ i ] ) ) ;
assert ( source . tbl ( ) . contains ( got [ i ] ) ) ;
}
}
let mut vx_i1 = 0 ;
while vx_i1 < pairs . len ( ) invariant pairs @ . len ( ) == got . len ( ) , 0 <= vx_i1 <= pairs @ . len ( ) , forall | i : int | 0 <= i < got . len ( ) ==> ( # [ trigger ] got [ i ] & 63 ) >= 8 ,
/*@C12.cpc.coder_pinned_table*/ forall | i : int | 0 <= i < vx_i1 ==> # [ trigger ] pairs @ [ i ] == got [ i ] - 8 , forall | i : int | vx_i1 <= i < got . len ( ) ==> # [ trigger ] pairs @ [ i ] == got [ i ] , decreases pairs @ . len ( ) - vx_i1 {
let pair = & mut pairs [ vx_i1 ] ;
proof {
lemma_minus8 ( got [ vx_i1 as int ] ) ;
}
assert! ( * pair & 63 >= 8 ) ;
* pair -= 8 ;
vx_i1 += 1 ;
}
let ghost shifted = pairs @ ;
pairs . sort_unstable ( ) ;
proof {
let set = shift_cols ( source . tbl ( ) ) ;
assert ( shifted . no_duplicates ( ) ) by {
assert forall | i : int , j : int | 0 <= i < shifted . len ( ) && 0 <= j < shifted . len ( ) && i != j implies shifted [ i ] != shifted [ j ] by {
assert ( got [ i ] != got [ j ] ) ;
lemma_minus8 ( got [ i ] ) ;
lemma_minus8 ( got [ j ] ) ;
}
}
assert forall | y : u32 | shifted . contains ( y ) <==> set . contains ( y ) by {
if shifted . contains ( y ) {
let i = choose | i : int | 0 <= i < shifted . len ( ) && shifted [ i ] == y ;
lemma_minus8 ( got [ i ] ) ;
assert ( got . contains ( got [ i ] ) ) ;
}
if set . contains ( y ) {
let p = ( y + 8 ) as u32 ;
assert ( got . contains ( p ) ) ;
let i = choose | i : int | 0 <= i < got . len ( ) && got [ i ] == p ;
assert ( shifted [ i ] == y ) ;
}
}
lemma_perm_set ( pairs @ , shifted ) ;
assert forall | i : int , j : int | # ! [ trigger pairs @ [ i ] , pairs @ [ j ] ] 0 <= i < j < pairs @ . len ( ) implies pairs @ [ i ] <= pairs @ [ j ] by {
assert ( pairs @ [ i ] . cmp_spec ( & pairs @ [ j ] ) != core :: cmp :: Ordering :: Greater ) ;
}
lemma_sorted_distinct_ascending ( pairs @ ) ;
assert ( sorted_items ( pairs @ , set ) ) ;
lemma_k_bound ( source . lg_k ) ;
assert forall | i : int | 0 <= i < pairs @ . len ( ) implies ( # [ trigger ] pairs @ [ i ] >> 6 ) < k_of ( source . lg_k ) by {
assert ( pairs @ . contains ( pairs @ [ i ] ) ) ;
let p = ( pairs @ [ i ] + 8 ) as u32 ;
assert ( source . tbl ( ) . contains ( p ) ) ;
lemma_minus8 ( p ) ;
}
}
self . compress_surprising_values ( & pairs , source . lg_k ( ) ) ;
}
}



    fn uncompress_pinned_flavor ( & self , lg_k : u8 , num_coupons : u32 ) -> ( r : UncompressedState ) requires 4 <= lg_k <= 26 , self . window_data @ . len ( ) > 0 ,
/*@C13.cpc.coder_window_valid*/ self . window_valid ( lg_k , num_coupons ) , self . table_num_entries > 0 ==> self . table_data @ . len ( ) > 0 &&
/*@C13.cpc.coder_table_valid*/ self . table_valid ( lg_k ) &&
/*@C13.cpc.coder_pinned_cols_valid*/ ( forall | i : int | 0 <= i < self . table_num_entries ==> ( # [ trigger ] self . table_decoded ( lg_k ) [ i ] & 63 ) < 56 && self . table_decoded ( lg_k ) [ i ] + 8 != EMPTY ) , ensures r . table . wf ( ) , r . table . num_valid_bits == 6 + lg_k , r . table . num_items == self . table_num_entries ,
/*@C13.cpc.coder_pinned_window_decoded*/ r . window @ == self . window_decoded ( lg_k , num_coupons ) , self . table_num_entries == 0 ==> r . table . items ( ) =~= ISet :: < u32 > :: empty ( ) ,
/*@C13.cpc.coder_pinned_table_decoded*/ self . table_num_entries > 0 ==> forall | x : u32 | # [ trigger ] r . table . items ( ) . contains ( x ) <==> unshift_has ( self . table_decoded ( lg_k ) , x ) , {
debug_assert! ( ! self . window_data . is_empty ( ) ) ;
let mut window = vec! [ ] ;
uncompress_sliding_window ( & self . window_data , self . window_data_words , & mut window , lg_k , num_coupons , ) ;
let num_pairs = self . table_num_entries ;
let table = if num_pairs == 0 {
PairTable :: new ( 2 , lg_k + 6 ) }
else {
debug_assert! ( ! self . table_data . is_empty ( ) ) ;
let mut pairs = uncompress_surprising_values ( & self . table_data , self . table_data_words , num_pairs , lg_k , ) ;
let ghost d = pairs @ ;
proof {
assert ( d == self . table_decoded ( lg_k ) ) ;
}
for i in 0 .. num_pairs invariant pairs @ . len ( ) == num_pairs , d . len ( ) == num_pairs , forall | j : int | 0 <= j < num_pairs ==> ( # [ trigger ] d [ j ] & 63 ) < 56 ,
/*@C13.cpc.coder_pinned_table_decoded*/ forall | j : int | 0 <= j < i ==> # [ trigger ] pairs @ [ j ] == d [ j ] + 8 , forall | j : int | i <= j < num_pairs ==> # [ trigger ] pairs @ [ j ] == d [ j ] , {
let i = i as usize ;
proof {
lemma_plus8 ( d [ i as int ] ) ;
}
assert! ( ( pairs [ i ] & 63 ) < 56 ) ;
pairs [ i ] += 8 ;
}
let ghost e = pairs @ ;
proof {
lemma2_to64 ( ) ;
assert forall | j : int | 0 <= j < num_pairs implies e [ j ] != EMPTY && ( # [ trigger ] e [ j ] as int ) < pow2 ( ( 6 + lg_k ) as nat ) by {
lemma_plus8 ( d [ j ] ) ;
assert ( ( d [ j ] >> 6 ) < k_of ( lg_k ) ) ;
lemma_row_range ( e [ j ] , lg_k ) ;
}
assert forall | a : int , b : int | 0 <= a < b < num_pairs implies e [ a ] != e [ b ] by {
assert ( d [ a ] != d [ b ] ) ;
}
}
proof {
assert forall | x : u32 | # [ trigger ] unshift_has ( d , x ) <==> ( exists | i : int | 0 <= i < num_pairs && pairs @ [ i ] == x ) by {
if x >= 8 && d . contains ( ( x - 8 ) as u32 ) {
let j = choose | j : int | 0 <= j < d . len ( ) && d [ j ] == ( x - 8 ) as u32 ;
assert ( e [ j ] == x ) ;
}
if exists | i : int | 0 <= i < num_pairs && pairs @ [ i ] == x {
let j = choose | j : int | 0 <= j < num_pairs && e [ j ] == x ;
lemma_plus8 ( d [ j ] ) ;
assert ( d [ j ] == ( x - 8 ) as u32 ) ;
}
}
}
PairTable :: from_slots ( lg_k , num_pairs , pairs ) }
;
UncompressedState {
table , window }
}


}

// C11 for the pinned table half: the image of the shifted set decodes (after the + 8) to the original set
proof fn lemma_pinned_table_roundtrip(c: CompressedState, lg_k: u8, set: ISet<u32>)
  requires 4 <= lg_k <= 26, c.table_data@.len() == c.table_data_words <= 0xffff_ffff,
    table_image_of(c.table_data@, c.table_num_entries, lg_k, shift_cols(set)),
    forall|x: u32| #[trigger] set.contains(x) ==> (x >> 6) < k_of(lg_k) && x != EMPTY && (x & 63) >= 8,
    4 * c.table_num_entries <= 3 * 0x400_0000 && 4 * c.table_num_entries <= 3 * pow2((5 + lg_k) as nat),
  ensures c.table_valid(lg_k),
    forall|i: int| 0 <= i < c.table_num_entries ==> (#[trigger] c.table_decoded(lg_k)[i] & 63) < 56 && c.table_decoded(lg_k)[i] + 8 != EMPTY,
    /*@C11.cpc.coder_pinned_table_roundtrip*/ forall|x: u32| #[trigger] set.contains(x) <==> unshift_has(c.table_decoded(lg_k), x),
{
    let sh = shift_cols(set);
    assert forall|y: u32| #[trigger] sh.contains(y) implies (y >> 6) < k_of(lg_k) && y != EMPTY by { lemma_minus8((y + 8) as u32); }
    lemma_table_image_roundtrip(c, lg_k, sh);
    let d = c.table_decoded(lg_k);
    assert forall|i: int| 0 <= i < c.table_num_entries implies (#[trigger] d[i] & 63) < 56 && d[i] + 8 != EMPTY by {
        assert(d.contains(d[i])); assert(sh.contains(d[i])); lemma_minus8((d[i] + 8) as u32);
    }
    assert forall|x: u32| #[trigger] set.contains(x) <==> (x >= 8 && d.contains((x - 8) as u32)) by {
        if set.contains(x) { lemma_minus8(x); assert(sh.contains((x - 8) as u32)); }
        if x >= 8 && d.contains((x - 8) as u32) { assert(sh.contains((x - 8) as u32)); }
    }
}

// ---------- cpc/mod.rs: window offset as a function of (lg_k, C): contract and proof VERBATIM from contracts/cpc_decode.rs ----------
proof fn lemma_shl_i64(l: u8) requires l <= 29 ensures (1i64 << l) == pow2(l as nat), 1 <= pow2(l as nat) <= 0x2000_0000 {
    lemma2_to64(); if l < 29 { lemma_pow2_strictly_increases(l as nat, 29); } lemma_pow2_pos(l as nat);
    let u = l as u64;
    vstd::bits::lemma_u64_shl_is_mul(1, u);
    assert(u <= 29 ==> (1u64 << u) < 0x4000_0000u64) by (bit_vector);
    assert(l <= 29 ==> (1i64 << l) == ((1u64 << (l as u64)) as i64)) by (bit_vector);
}
proof fn lemma_shr_i64(t: i64, s: u8) requires 0 <= t, s <= 29 ensures (t >> s) == (t as int) / (pow2(s as nat) as int) {
    let u = t as u64; let su = s as u64;
    vstd::bits::lemma_u64_shr_is_div(u, su);
    assert(t >= 0 && s <= 29 ==> (t >> s) == ((t as u64) >> (s as u64)) as i64) by (bit_vector);
}
// C14: total for every (lg_k, C) the parser lets through -- no precondition on C; the value is dco when that fits u8
fn determine_correct_offset ( lg_k : u8 , num_coupons : u32 ) -> ( r : u8 ) requires 4 <= lg_k <= 26 ensures dco ( lg_k , num_coupons ) <= 255 ==> r == dco ( lg_k , num_coupons ) {
proof {
lemma_shl_i64 ( lg_k ) ;
lemma_shl_i64 ( ( lg_k + 3 ) as u8 ) ;
lemma_pow2_adds ( 3 , lg_k as nat ) ;
lemma2_to64 ( ) ;
let c = num_coupons as i64 ;
assert ( 0 <= c <= 0xffff_ffff ==> ( c << 3 ) == c * 8 ) by ( bit_vector ) ;
}
let k = 1 << lg_k ;
let tmp = ( ( num_coupons as i64 ) << 3 ) - ( 19 * k ) ;
if tmp < 0 {
0 }
else {
proof {
lemma_shr_i64 ( tmp , ( lg_k + 3 ) as u8 ) ;
}
( tmp >> ( lg_k + 3 ) ) as u8 }
}




// ---------- sliding flavor: window at columns offset..offset+8; every table column is rotated into 0..56 and permuted ----------
spec fn perm_enc(phase: int) -> Seq<u8> { sp_perm_enc()@[phase]@ }
spec fn perm_dec(phase: int) -> Seq<u8> { sp_perm_dec()@[phase]@ }
spec fn rot_col(p: u32, offset: u8) -> u8 { ((((p & 63) as u8) + 56 - offset) as u8) & 63 }
#[verifier::opaque]
spec fn slide_enc(p: u32, offset: u8, perm: Seq<u8>) -> u32 { ((p >> 6) << 6) | (perm[rot_col(p, offset) as int] as u32) }
#[verifier::opaque]
spec fn slide_dec(q: u32, offset: u8, permd: Seq<u8>) -> u32 { ((q >> 6) << 6) | ((((permd[((q & 63) as u8) as int] + (offset + 8)) as u8) & 63) as u32) }
spec fn slide_set(set: ISet<u32>, offset: u8, perm: Seq<u8>) -> ISet<u32> { ISet::new(|y: u32| exists|p: u32| #[trigger] set.contains(p) && slide_enc(p, offset, perm) == y) }
// membership in the set a sliding table half decodes to
spec fn unslide_has(d: Seq<u32>, offset: u8, permd: Seq<u8>, x: u32) -> bool { exists|i: int| 0 <= i < d.len() && slide_dec(#[trigger] d[i], offset, permd) == x }
#[verifier::opaque]
spec fn perm_pair_ok(pe: Seq<u8>, pd: Seq<u8>) -> bool {
    pe.len() == 56 && pd.len() == 56 && forall|c: int| #![trigger pe[c]] #![trigger pd[c]] 0 <= c < 56 ==> pe[c] < 56 && pd[pe[c] as int] == c && pd[c] < 56 && pe[pd[c] as int] == c
}
proof fn lemma_perm_at(pe: Seq<u8>, pd: Seq<u8>, c: int) requires perm_pair_ok(pe, pd), 0 <= c < 56
  ensures pe.len() == 56, pd.len() == 56, pe[c] < 56, pd[pe[c] as int] == c, pd[c] < 56, pe[pd[c] as int] == c
{ reveal(perm_pair_ok); }
proof fn lemma_perm_pair(phase: int) requires 0 <= phase < 16 ensures perm_pair_ok(perm_enc(phase), perm_dec(phase)) {
    reveal(perm_pair_ok); reveal(perms_inverse);
    axiom_cpc_tables_inverse();
    let pe = perm_enc(phase); let pd = perm_dec(phase);
    assert forall|c: int| #![trigger pe[c]] #![trigger pd[c]] 0 <= c < 56 implies pe[c] < 56 && pd[pe[c] as int] == c && pd[c] < 56 && pe[pd[c] as int] == c by {
        assert(sp_perm_enc()@[phase]@[c] < 56); assert(sp_perm_dec()@[phase]@[c] < 56);
    }
}
// rotation into the canonical configuration and back (the two column formulas of the encoder and the decoder)
proof fn lemma_rot(p: u32, offset: u8)
  requires offset <= 56, !(offset <= (p & 63) < offset + 8)
  ensures (p & 63) <= 63, ((p & 63) as u8) + 56 - offset >= 0, ((p & 63) as u8) + 56 <= 255, rot_col(p, offset) < 56,
    (((rot_col(p, offset) + (offset + 8)) as u8) & 63) == (p & 63),
{
    let c = (p & 63) as u8;
    assert((p & 63) <= 63) by (bit_vector);
    assert(c <= 63 && offset <= 56 && !(offset <= c && c < add(offset, 8)) ==> (sub(add(c, 56), offset) & 63) < 56 && (add(sub(add(c, 56), offset) & 63, add(offset, 8)) & 63) == c) by (bit_vector);
}
proof fn lemma_unrot(c2: u8, offset: u8)
  requires offset <= 56, c2 < 56
  ensures c2 + (offset + 8) <= 255, ({ let c = ((c2 + (offset + 8)) as u8) & 63; c <= 63 && !(offset <= c < offset + 8) && ((((c + 56) - offset) as u8) & 63) == c2 })
{
    assert(c2 < 56 && offset <= 56 ==> (add(c2, add(offset, 8)) & 63) <= 63 && !(offset <= (add(c2, add(offset, 8)) & 63) && (add(c2, add(offset, 8)) & 63) < add(offset, 8))
        && (sub(add(add(c2, add(offset, 8)) & 63, 56), offset) & 63) == c2) by (bit_vector);
}
proof fn lemma_rc_parts(row: u32, col: u8) requires col <= 63, row <= 0x3ff_ffff
  ensures (((row << 6) | (col as u32)) >> 6) == row, (((row << 6) | (col as u32)) & 63) == col, ((((row << 6) | (col as u32)) & 63) as u8) == col
{
    let c = col as u32;
    assert(c <= 63 && row <= 0x3ff_ffff ==> (((row << 6) | c) >> 6) == row && (((row << 6) | c) & 63) == c) by (bit_vector);
}
proof fn lemma_row_small(p: u32) ensures (p >> 6) <= 0x3ff_ffff, (((p >> 6) << 6) | (p & 63)) == p, (p & 63) <= 63, p % 64 == p & 63, p / 64 == p >> 6 {
    lemma_bridge_u32(p);
    assert((p >> 6) <= 0x3ff_ffff && (((p >> 6) << 6) | (p & 63)) == p && (p & 63) <= 63) by (bit_vector);
}
// the decoder's column formula inverts the encoder's on every coupon outside the window, and vice versa
proof fn lemma_slide_dec_enc(p: u32, offset: u8, pe: Seq<u8>, pd: Seq<u8>)
  requires offset <= 56, !(offset <= (p & 63) < offset + 8), perm_pair_ok(pe, pd)
  ensures slide_dec(slide_enc(p, offset, pe), offset, pd) == p, (slide_enc(p, offset, pe) >> 6) == (p >> 6), (slide_enc(p, offset, pe) & 63) < 56, slide_enc(p, offset, pe) != EMPTY
{
    reveal(slide_enc); reveal(slide_dec);
    lemma_rot(p, offset); lemma_row_small(p);
    let c2 = rot_col(p, offset); let e = pe[c2 as int];
    lemma_perm_at(pe, pd, c2 as int);
    assert(e < 56 && pd[e as int] == c2);
    lemma_rc_parts(p >> 6, e);
    let q = slide_enc(p, offset, pe);
    assert((q & 63) as u8 == e);
    assert(q != EMPTY) by { assert((0xffff_ffffu32 & 63) == 63) by (bit_vector); }
}
proof fn lemma_slide_enc_dec(q: u32, offset: u8, pe: Seq<u8>, pd: Seq<u8>)
  requires offset <= 56, (q & 63) < 56, perm_pair_ok(pe, pd)
  ensures slide_enc(slide_dec(q, offset, pd), offset, pe) == q, (slide_dec(q, offset, pd) >> 6) == (q >> 6),
    !(offset <= (slide_dec(q, offset, pd) & 63) < offset + 8)
{
    reveal(slide_enc); reveal(slide_dec);
    lemma_row_small(q);
    let e = (q & 63) as u8; let c2 = pd[e as int];
    lemma_perm_at(pe, pd, e as int);
    assert(c2 < 56 && pe[c2 as int] == e);
    lemma_unrot(c2, offset);
    let c = ((c2 + (offset + 8)) as u8) & 63;
    lemma_rc_parts(q >> 6, c);
    let p = slide_dec(q, offset, pd);
    assert((p & 63) as u8 == c);
    assert(rot_col(p, offset) == c2);
}

impl CompressedState {
    // Complicated by the existence of both a left fringe and a right fringe.
    fn compress_sliding_flavor ( & mut self , source : & CpcSketch ) requires source . coder_wf ( ) , source . sliding_window @ . len ( ) == source . k ( ) ,
/*@C17.cpc.coder_phase_perm_index*/ 1000 * ( source . num_coupons as int ) >= 2375 * source . k ( ) , ensures
/*@C18.cpc.coder_window_words_u32*/ final ( self ) . window_data @ . len ( ) <= 0xffff_ffff ,
/*@C18.cpc.coder_table_words_u32*/ source . surprising_value_table -> 0 . num_items > 0 ==> 0 < final ( self ) . table_data @ . len ( ) <= 0xffff_ffff , final ( self ) . window_data_words <= final ( self ) . window_data @ . len ( ) , final ( self ) . window_data @ . len ( ) > 0 ,
/*@C12.cpc.coder_sliding_window*/ is_window_image ( final ( self ) . window_words ( ) , pseudo_phase_spec ( source . lg_k , source . num_coupons ) , source . sliding_window @ ) , source . surprising_value_table -> 0 . num_items == 0 ==> final ( self ) . table_data == old ( self ) . table_data && final ( self ) . table_data_words == old ( self ) . table_data_words && final ( self ) . table_num_entries == old ( self ) . table_num_entries , source . surprising_value_table -> 0 . num_items > 0 ==> final ( self ) . table_data_words <= final ( self ) . table_data @ . len ( ) &&
/*@C12.cpc.coder_sliding_table*/ table_image_of ( final ( self ) . table_words ( ) , final ( self ) . table_num_entries , source . lg_k , slide_set ( source . tbl ( ) , source . window_offset , perm_enc ( pseudo_phase_spec ( source . lg_k , source . num_coupons ) ) ) ) , {
self . compress_sliding_window ( & source . sliding_window , source . lg_k ( ) , source . num_coupons ( ) ) ;
proof {
assert ( source . sliding_window @ . take ( k_of ( source . lg_k ) ) =~= source . sliding_window @ ) ;
}
let mut pairs = source . surprising_value_table ( ) . unwrapping_get_items ( ) ;
let ghost got = pairs @ ;
if ! pairs . is_empty ( ) {
let pseudo_phase = determine_pseudo_phase ( source . lg_k ( ) , source . num_coupons ( ) ) ;
let permutation = & COLUMN_PERMUTATIONS_FOR_ENCODING [ pseudo_phase as usize ] ;
let offset = source . window_offset ;
debug_assert! ( offset <= 56 ) ;
let ghost pe = perm_enc ( pseudo_phase as int ) ;
let ghost pd = perm_dec ( pseudo_phase as int ) ;
proof {
lemma_perm_pair ( pseudo_phase as int ) ;
assert (
/*@C12.cpc.coder_sliding_table*/ permutation @ == pe ) ;
assert forall | i : int | 0 <= i < got . len ( ) implies ! ( offset <= ( # [ trigger ] got [ i ] & 63 ) < offset + 8 ) by {
assert ( got . contains ( got [ i ] ) ) ;
assert ( source . tbl ( ) . contains ( got [ i ] ) ) ;
}
}
let mut vx_i1 = 0 ;
while vx_i1 < pairs . len ( ) invariant pairs @ . len ( ) == got . len ( ) , 0 <= vx_i1 <= pairs @ . len ( ) , offset <= 56 , permutation @ == pe , perm_pair_ok ( pe , pd ) , forall | i : int | 0 <= i < got . len ( ) ==> ! ( offset <= ( # [ trigger ] got [ i ] & 63 ) < offset + 8 ) ,
/*@C12.cpc.coder_sliding_table*/ forall | i : int | 0 <= i < vx_i1 ==> # [ trigger ] pairs @ [ i ] == slide_enc ( got [ i ] , offset , pe ) , forall | i : int | vx_i1 <= i < got . len ( ) ==> # [ trigger ] pairs @ [ i ] == got [ i ] , decreases pairs @ . len ( ) - vx_i1 {
let pair = & mut pairs [ vx_i1 ] ;
proof {
lemma_rot ( got [ vx_i1 as int ] , offset ) ;
reveal ( slide_enc ) ;
lemma_perm_at ( pe , pd , rot_col ( got [ vx_i1 as int ] , offset ) as int ) ;
}
let row_col = * pair ;
let row = row_col >> 6 ;
let mut col = ( row_col & 63 ) as u8 ;
col = ( col + 56 - offset ) & 63 ;
debug_assert! ( col < 56 ) ;
col = permutation [ col as usize ] ;
* pair = ( row << 6 ) | ( col as u32 ) ;
vx_i1 += 1 ;
}
let ghost moved = pairs @ ;
pairs . sort_unstable ( ) ;
proof {
let set = slide_set ( source . tbl ( ) , offset , pe ) ;
assert ( moved . no_duplicates ( ) ) by {
assert forall | i : int , j : int | 0 <= i < moved . len ( ) && 0 <= j < moved . len ( ) && i != j implies moved [ i ] != moved [ j ] by {
assert ( got [ i ] != got [ j ] ) ;
lemma_slide_dec_enc ( got [ i ] , offset , pe , pd ) ;
lemma_slide_dec_enc ( got [ j ] , offset , pe , pd ) ;
}
}
assert forall | y : u32 | moved . contains ( y ) <==> set . contains ( y ) by {
if moved . contains ( y ) {
let i = choose | i : int | 0 <= i < moved . len ( ) && moved [ i ] == y ;
assert ( got . contains ( got [ i ] ) ) ;
assert ( source . tbl ( ) . contains ( got [ i ] ) ) ;
}
if set . contains ( y ) {
let p = choose | p : u32 | # [ trigger ] source . tbl ( ) . contains ( p ) && slide_enc ( p , offset , pe ) == y ;
assert ( got . contains ( p ) ) ;
let i = choose | i : int | 0 <= i < got . len ( ) && got [ i ] == p ;
assert ( moved [ i ] == y ) ;
}
}
lemma_perm_set ( pairs @ , moved ) ;
assert forall | i : int , j : int | # ! [ trigger pairs @ [ i ] , pairs @ [ j ] ] 0 <= i < j < pairs @ . len ( ) implies pairs @ [ i ] <= pairs @ [ j ] by {
assert ( pairs @ [ i ] . cmp_spec ( & pairs @ [ j ] ) != core :: cmp :: Ordering :: Greater ) ;
}
lemma_sorted_distinct_ascending ( pairs @ ) ;
assert ( sorted_items ( pairs @ , set ) ) ;
lemma_k_bound ( source . lg_k ) ;
assert forall | i : int | 0 <= i < pairs @ . len ( ) implies ( # [ trigger ] pairs @ [ i ] >> 6 ) < k_of ( source . lg_k ) by {
assert ( pairs @ . contains ( pairs @ [ i ] ) ) ;
let p = choose | p : u32 | # [ trigger ] source . tbl ( ) . contains ( p ) && slide_enc ( p , offset , pe ) == pairs @ [ i ] ;
lemma_slide_dec_enc ( p , offset , pe , pd ) ;
}
}
self . compress_surprising_values ( & pairs , source . lg_k ( ) ) ;
}
}



    fn uncompress_sliding_flavor ( & self , lg_k : u8 , num_coupons : u32 ) -> ( r : UncompressedState ) requires 4 <= lg_k <= 26 , self . window_data @ . len ( ) > 0 ,
/*@C13.cpc.coder_window_valid*/ self . window_valid ( lg_k , num_coupons ) , self . table_num_entries > 0 ==> self . table_data @ . len ( ) > 0 &&
/*@C13.cpc.coder_table_valid*/ self . table_valid ( lg_k ) &&
/*@C17.cpc.coder_phase_perm_index*/ 1000 * ( num_coupons as int ) >= 2375 * k_of ( lg_k ) &&
/*@C13.cpc.coder_sliding_offset_valid*/ dco ( lg_k , num_coupons ) <= 56 &&
/*@C13.cpc.coder_sliding_cols_valid*/ ( forall | i : int | 0 <= i < self . table_num_entries ==> ( # [ trigger ] self . table_decoded ( lg_k ) [ i ] & 63 ) < 56 && slide_dec ( self . table_decoded ( lg_k ) [ i ] , dco ( lg_k , num_coupons ) as u8 , perm_dec ( pseudo_phase_spec ( lg_k , num_coupons ) ) ) != EMPTY ) , ensures r . table . wf ( ) , r . table . num_valid_bits == 6 + lg_k , r . table . num_items == self . table_num_entries ,
/*@C13.cpc.coder_sliding_window_decoded*/ r . window @ == self . window_decoded ( lg_k , num_coupons ) , self . table_num_entries == 0 ==> r . table . items ( ) =~= ISet :: < u32 > :: empty ( ) ,
/*@C13.cpc.coder_sliding_table_decoded*/ self . table_num_entries > 0 ==> forall | x : u32 | # [ trigger ] r . table . items ( ) . contains ( x ) <==> unslide_has ( self . table_decoded ( lg_k ) , dco ( lg_k , num_coupons ) as u8 , perm_dec ( pseudo_phase_spec ( lg_k , num_coupons ) ) , x ) , {
debug_assert! ( ! self . window_data . is_empty ( ) ) ;
let mut window = vec! [ ] ;
uncompress_sliding_window ( & self . window_data , self . window_data_words , & mut window , lg_k , num_coupons , ) ;
let num_pairs = self . table_num_entries ;
let table = if num_pairs == 0 {
PairTable :: new ( 2 , lg_k + 6 ) }
else {
debug_assert! ( ! self . table_data . is_empty ( ) ) ;
let mut pairs = uncompress_surprising_values ( & self . table_data , self . table_data_words , num_pairs , lg_k , ) ;
let ghost d = pairs @ ;
proof {
assert ( d == self . table_decoded ( lg_k ) ) ;
}
let pseudo_phase = determine_pseudo_phase ( lg_k , num_coupons ) ;
let permutation = & COLUMN_PERMUTATIONS_FOR_DECODING [ pseudo_phase as usize ] ;
let offset = determine_correct_offset ( lg_k , num_coupons ) ;
assert! ( offset <= 56 ) ;
let ghost pe = perm_enc ( pseudo_phase as int ) ;
let ghost pd = perm_dec ( pseudo_phase as int ) ;
proof {
lemma_perm_pair ( pseudo_phase as int ) ;
assert (
/*@C13.cpc.coder_sliding_table_decoded*/ permutation @ == pd ) ;
}
for i in 0 .. num_pairs invariant pairs @ . len ( ) == num_pairs , d . len ( ) == num_pairs , offset <= 56 , permutation @ == pd , perm_pair_ok ( pe , pd ) , forall | j : int | 0 <= j < num_pairs ==> ( # [ trigger ] d [ j ] & 63 ) < 56 ,
/*@C13.cpc.coder_sliding_table_decoded*/ forall | j : int | 0 <= j < i ==> # [ trigger ] pairs @ [ j ] == slide_dec ( d [ j ] , offset , pd ) , forall | j : int | i <= j < num_pairs ==> # [ trigger ] pairs @ [ j ] == d [ j ] , {
let i = i as usize ;
let row_col = pairs [ i ] ;
let row = row_col >> 6 ;
proof {
lemma_row_small ( row_col ) ;
assert ( ( d [ i as int ] & 63 ) < 56 ) ;
reveal ( slide_dec ) ;
lemma_perm_at ( pe , pd , ( row_col & 63 ) as int ) ;
}
let mut col = ( row_col & 63 ) as u8 ;
col = permutation [ col as usize ] ;
proof {
lemma_unrot ( col , offset ) ;
}
col = ( col + ( offset + 8 ) ) & 63 ;
pairs [ i ] = ( row << 6 ) | ( col as u32 ) ;
}
let ghost e = pairs @ ;
proof {
lemma2_to64 ( ) ;
assert forall | j : int | 0 <= j < num_pairs implies e [ j ] != EMPTY && ( # [ trigger ] e [ j ] as int ) < pow2 ( ( 6 + lg_k ) as nat ) by {
lemma_slide_enc_dec ( d [ j ] , offset , pe , pd ) ;
assert ( ( d [ j ] >> 6 ) < k_of ( lg_k ) ) ;
lemma_row_range ( e [ j ] , lg_k ) ;
}
assert forall | a : int , b : int | 0 <= a < b < num_pairs implies e [ a ] != e [ b ] by {
assert ( d [ a ] != d [ b ] ) ;
lemma_slide_enc_dec ( d [ a ] , offset , pe , pd ) ;
lemma_slide_enc_dec ( d [ b ] , offset , pe , pd ) ;
}
assert forall | x : u32 | # [ trigger ] unslide_has ( d , offset , pd , x ) <==> ( exists | i : int | 0 <= i < num_pairs && pairs @ [ i ] == x ) by {
if unslide_has ( d , offset , pd , x ) {
let j = choose | j : int | 0 <= j < d . len ( ) && slide_dec ( # [ trigger ] d [ j ] , offset , pd ) == x ;
assert ( e [ j ] == x ) ;
}
if exists | i : int | 0 <= i < num_pairs && pairs @ [ i ] == x {
let j = choose | j : int | 0 <= j < num_pairs && e [ j ] == x ;
assert ( slide_dec ( d [ j ] , offset , pd ) == x ) ;
}
}
}
PairTable :: from_slots ( lg_k , num_pairs , pairs ) }
;
UncompressedState {
table , window }
}


}

// C11 for the sliding table half: the image of the rotated + permuted set decodes (after the inverse permutation and rotation) to the original set
proof fn lemma_sliding_table_roundtrip(c: CompressedState, lg_k: u8, set: ISet<u32>, offset: u8, phase: int)
  requires 4 <= lg_k <= 26, c.table_data@.len() == c.table_data_words <= 0xffff_ffff, offset <= 56, 0 <= phase < 16,
    table_image_of(c.table_data@, c.table_num_entries, lg_k, slide_set(set, offset, perm_enc(phase))),
    forall|x: u32| #[trigger] set.contains(x) ==> (x >> 6) < k_of(lg_k) && x != EMPTY && !(offset <= (x & 63) < offset + 8),
    4 * c.table_num_entries <= 3 * 0x400_0000 && 4 * c.table_num_entries <= 3 * pow2((5 + lg_k) as nat),
  ensures c.table_valid(lg_k),
    forall|i: int| 0 <= i < c.table_num_entries ==> (#[trigger] c.table_decoded(lg_k)[i] & 63) < 56 && slide_dec(c.table_decoded(lg_k)[i], offset, perm_dec(phase)) != EMPTY,
    /*@C11.cpc.coder_sliding_table_roundtrip*/ forall|x: u32| #[trigger] set.contains(x) <==> unslide_has(c.table_decoded(lg_k), offset, perm_dec(phase), x),
{
    let pe = perm_enc(phase); let pd = perm_dec(phase);
    lemma_perm_pair(phase);
    let sl = slide_set(set, offset, pe);
    assert forall|y: u32| #[trigger] sl.contains(y) implies (y >> 6) < k_of(lg_k) && y != EMPTY by {
        let p = choose|p: u32| #[trigger] set.contains(p) && slide_enc(p, offset, pe) == y; lemma_slide_dec_enc(p, offset, pe, pd);
    }
    lemma_table_image_roundtrip(c, lg_k, sl);
    let d = c.table_decoded(lg_k);
    assert forall|i: int| 0 <= i < c.table_num_entries implies (#[trigger] d[i] & 63) < 56 && slide_dec(d[i], offset, pd) != EMPTY by {
        assert(d.contains(d[i])); assert(sl.contains(d[i]));
        let p = choose|p: u32| #[trigger] set.contains(p) && slide_enc(p, offset, pe) == d[i]; lemma_slide_dec_enc(p, offset, pe, pd);
    }
    assert forall|x: u32| #[trigger] set.contains(x) <==> unslide_has(d, offset, pd, x) by {
        if set.contains(x) {
            lemma_slide_dec_enc(x, offset, pe, pd); let y = slide_enc(x, offset, pe); assert(sl.contains(y)); assert(d.contains(y));
            let i = choose|i: int| 0 <= i < d.len() && d[i] == y; assert(slide_dec(d[i], offset, pd) == x);
        }
        if unslide_has(d, offset, pd, x) {
            let i = choose|i: int| 0 <= i < d.len() && slide_dec(#[trigger] d[i], offset, pd) == x;
            assert(d.contains(d[i])); assert(sl.contains(d[i]));
            let p = choose|p: u32| #[trigger] set.contains(p) && slide_enc(p, offset, pe) == d[i]; lemma_slide_dec_enc(p, offset, pe, pd);
        }
    }
}

// ---------- cpc/mod.rs: flavor as a function of (lg_k, C): contract and proof VERBATIM from contracts/cpc_decode.rs / cpc_update.rs ----------
fn determine_flavor ( lg_k : u8 , num_coupons : u32 ) -> ( r : Flavor ) requires 4 <= lg_k <= 26 ensures r == flavor_spec ( lg_k , num_coupons ) {
proof {
lemma_shl64 ( lg_k ) ;
lemma_k_bound ( lg_k ) ;
let c = num_coupons as u64 ;
assert ( c <= 0xffff_ffff ==> ( c << 1 ) == c * 2 && ( c << 3 ) == c * 8 && ( c << 5 ) == c * 32 ) by ( bit_vector ) ;
}
let k : u64 = 1 << lg_k ;
let c2 = ( num_coupons as u64 ) << 1 ;
let c8 = ( num_coupons as u64 ) << 3 ;
let c32 = ( num_coupons as u64 ) << 5 ;
if num_coupons == 0 {
Flavor :: Empty }
else if c32 < ( 3 * k ) {
Flavor :: Sparse }
else if c2 < k {
Flavor :: Hybrid }
else if c8 < ( 27 * k ) {
Flavor :: Pinned }
else {
Flavor :: Sliding }
}




impl CpcSketch {
    fn flavor ( & self ) -> ( r : Flavor ) requires 4 <= self . lg_k <= 26 ensures r == flavor_spec ( self . lg_k , self . num_coupons ) {
determine_flavor ( self . lg_k , self . num_coupons ) }


}

// ---------- hybrid flavor: no window half; the window bits (columns 0..8) travel as pairs in the table half ----------
spec fn bit8(x: u8, c: int) -> bool { (x >> (c as u8)) & 1 == 1 }
spec fn wbit(w: Seq<u8>, row: int, col: int) -> bool { bit8(w[row], col) }
spec fn rc(row: int, col: int) -> u32 { ((row as u32) << 6) | (col as u32) }
spec fn win_pairs(w: Seq<u8>) -> ISet<u32> { ISet::new(|x: u32| (x & 63) < 8 && (x >> 6) < w.len() && bit8(w[(x >> 6) as int], (x & 63) as int)) }
spec fn hybrid_set(tbl: ISet<u32>, w: Seq<u8>) -> ISet<u32> { ISet::new(|x: u32| tbl.contains(x) || win_pairs(w).contains(x)) }

proof fn lemma_set_bit8(b: u8, c: u32, c2: int) requires c < 8, 0 <= c2 < 8
  ensures bit8(b | (1u8 << c), c2) == (bit8(b, c2) || c2 == c)
{
    let d = c2 as u8;
    assert(c < 8 && d < 8 ==> ((((b | (1u8 << c)) >> d) & 1 == 1) == (((b >> d) & 1 == 1) || d == c))) by (bit_vector);
}
proof fn lemma_rc_of(x: u32) ensures rc((x >> 6) as int, (x & 63) as int) == x, (x & 63) <= 63, (x >> 6) <= 0x3ff_ffff, x % 64 == x & 63, x / 64 == x >> 6 {
    lemma_bridge_u32(x);
    assert((((x >> 6) << 6) | (x & 63)) == x && (x & 63) <= 63 && (x >> 6) <= 0x3ff_ffff) by (bit_vector);
}
proof fn lemma_rc_parts2(row: int, col: int) requires 0 <= row <= 0x3ff_ffff, 0 <= col <= 63 ensures (rc(row, col) >> 6) == row, (rc(row, col) & 63) == col {
    let r = row as u32; let c = col as u32;
    assert(c <= 63 && r <= 0x3ff_ffff ==> (((r << 6) | c) >> 6) == r && (((r << 6) | c) & 63) == c) by (bit_vector);
}

impl CompressedState {
    // own solver instance: the last step (from_slots' membership clause against the d/src bookkeeping) is sensitive to the context of the
    // other 290 functions; it verifies in isolation (`--verify-function`) in every configuration tried
    #[verifier::spinoff_prover]
    fn uncompress_hybrid_flavor ( & self , lg_k : u8 ) -> ( r : UncompressedState ) requires 4 <= lg_k <= 26 , self . window_data @ . len ( ) == 0 && self . table_data @ . len ( ) > 0 ,
/*@C13.cpc.coder_table_valid*/ self . table_valid ( lg_k ) , ensures r . table . wf ( ) , r . table . num_valid_bits == 6 + lg_k , r . window @ . len ( ) == k_of ( lg_k ) ,
/*@C13.cpc.coder_hybrid_window_decoded*/ forall | row : int , col : int | 0 <= row < k_of ( lg_k ) && 0 <= col < 8 ==> ( # [ trigger ] wbit ( r . window @ , row , col ) <==> self . table_decoded ( lg_k ) . contains ( rc ( row , col ) ) ) ,
/*@C13.cpc.coder_hybrid_table_decoded*/ forall | x : u32 | # [ trigger ] r . table . items ( ) . contains ( x ) <==> ( self . table_decoded ( lg_k ) . contains ( x ) && ( x & 63 ) >= 8 ) , {
debug_assert! ( self . window_data . is_empty ( ) ) ;
debug_assert! ( ! self . table_data . is_empty ( ) ) ;
let mut pairs = uncompress_surprising_values ( & self . table_data , self . table_data_words , self . table_num_entries , lg_k , ) ;
let ghost d = pairs @ ;
proof {
assert ( d == self . table_decoded ( lg_k ) ) ;
}
proof {
lemma_shl32 ( lg_k ) ;
lemma_k_bound ( lg_k ) ;
}
let k = 1 << lg_k ;
let mut window = vec! [ 0u8 ;
k ] ;
let mut next_true_pair = 0 ;
let ghost mut src : Seq < int > = Seq :: empty ( ) ;
proof {
assert forall | row : int , col : int | 0 <= row < window @ . len ( ) && 0 <= col < 8 implies ! # [ trigger ] wbit ( window @ , row , col ) by {
let c = col as u8 ;
assert ( c < 8 ==> ! ( ( 0u8 >> c ) & 1 == 1 ) ) by ( bit_vector ) ;
}
}
for i in 0 .. self . table_num_entries invariant d . len ( ) == self . table_num_entries , window @ . len ( ) == k , k == k_of ( lg_k ) , 4 <= lg_k <= 26 , k <= 0x400_0000 , forall | t : int | 0 <= t < d . len ( ) ==> ( # [ trigger ] d [ t ] >> 6 ) < k_of ( lg_k ) && d [ t ] != EMPTY , pairs @ . len ( ) == d . len ( ) && src . len ( ) == next_true_pair && 0 <= next_true_pair <= i <= d . len ( ) , forall | j : int | i <= j < d . len ( ) ==> # [ trigger ] pairs @ [ j ] == d [ j ] ,
/*@C13.cpc.coder_hybrid_split*/ forall | j : int | 0 <= j < next_true_pair ==> 0 <= # [ trigger ] src [ j ] < i && pairs @ [ j ] == d [ src [ j ] ] && ( d [ src [ j ] ] & 63 ) >= 8 , forall | a : int , b : int | 0 <= a < b < next_true_pair ==> # [ trigger ] src [ a ] < # [ trigger ] src [ b ] , forall | t : int | 0 <= t < i && ( # [ trigger ] d [ t ] & 63 ) >= 8 ==> exists | j : int | 0 <= j < next_true_pair && # [ trigger ] src [ j ] == t ,
/*@C13.cpc.coder_hybrid_split*/ forall | row : int , col : int | 0 <= row < window @ . len ( ) && 0 <= col < 8 ==> ( # [ trigger ] wbit ( window @ , row , col ) <==> exists | t : int | 0 <= t < i && # [ trigger ] d [ t ] == rc ( row , col ) ) , {
let row_col = pairs [ i as usize ] ;
assert! ( row_col != u32 :: MAX ) ;
let col = row_col & 63 ;
proof {
lemma_rc_of ( row_col ) ;
}
if col < 8 {
let row = row_col >> 6 ;
let ghost w0 = window @ ;
let ghost w1 = w0 . update ( row as int , w0 [ row as int ] | ( 1u8 << col ) ) ;
proof {
assert forall | r2 : int , c2 : int | 0 <= r2 < w1 . len ( ) && 0 <= c2 < 8 implies ( # [ trigger ] wbit ( w1 , r2 , c2 ) <==> exists | t : int | 0 <= t < i + 1 && # [ trigger ] d [ t ] == rc ( r2 , c2 ) ) by {
if r2 == row {
lemma_set_bit8 ( w0 [ r2 ] , col , c2 ) ;
}
lemma_rc_parts2 ( r2 , c2 ) ;
if exists | t : int | 0 <= t < i + 1 && # [ trigger ] d [ t ] == rc ( r2 , c2 ) {
let t = choose | t : int | 0 <= t < i + 1 && # [ trigger ] d [ t ] == rc ( r2 , c2 ) ;
if t < i {
assert ( wbit ( w0 , r2 , c2 ) ) ;
}
}
if wbit ( w0 , r2 , c2 ) {
let t = choose | t : int | 0 <= t < i && # [ trigger ] d [ t ] == rc ( r2 , c2 ) ;
assert ( 0 <= t < i + 1 && d [ t ] == rc ( r2 , c2 ) ) ;
}
if r2 == row && c2 == col {
assert ( d [ i as int ] == rc ( r2 , c2 ) ) ;
}
}
}
window [ row as usize ] |= 1 << col ;
}
else {
pairs [ next_true_pair as usize ] = row_col ;
proof {
assert forall | r2 : int , c2 : int | 0 <= r2 < window @ . len ( ) && 0 <= c2 < 8 implies ( # [ trigger ] wbit ( window @ , r2 , c2 ) <==> exists | t : int | 0 <= t < i + 1 && # [ trigger ] d [ t ] == rc ( r2 , c2 ) ) by {
lemma_rc_parts2 ( r2 , c2 ) ;
if wbit ( window @ , r2 , c2 ) {
let t = choose | t : int | 0 <= t < i && # [ trigger ] d [ t ] == rc ( r2 , c2 ) ;
assert ( 0 <= t < i + 1 && d [ t ] == rc ( r2 , c2 ) ) ;
}
if exists | t : int | 0 <= t < i + 1 && # [ trigger ] d [ t ] == rc ( r2 , c2 ) {
let t = choose | t : int | 0 <= t < i + 1 && # [ trigger ] d [ t ] == rc ( r2 , c2 ) ;
assert ( t < i ) ;
}
}
let src0 = src ;
src = src0 . push ( i as int ) ;
assert forall | t : int | 0 <= t < i + 1 && ( # [ trigger ] d [ t ] & 63 ) >= 8 implies exists | j : int | 0 <= j < next_true_pair + 1 && # [ trigger ] src [ j ] == t by {
if t == i {
assert ( src [ next_true_pair as int ] == t ) ;
}
else {
let j = choose | j : int | 0 <= j < next_true_pair && # [ trigger ] src0 [ j ] == t ;
assert ( src [ j ] == t ) ;
}
}
}
next_true_pair += 1 ;
}
}
proof {
let n = self . table_num_entries as int ;
let ntp = next_true_pair as int ;
lemma2_to64 ( ) ;
assert forall | j : int | 0 <= j < ntp implies pairs @ [ j ] != EMPTY && ( # [ trigger ] pairs @ [ j ] as int ) < pow2 ( ( 6 + lg_k ) as nat ) by {
assert ( pairs @ [ j ] == d [ src [ j ] ] ) ;
lemma_row_range ( pairs @ [ j ] , lg_k ) ;
}
assert forall | a : int , b : int | 0 <= a < b < ntp implies pairs @ [ a ] != pairs @ [ b ] by {
assert ( src [ a ] < src [ b ] ) ;
assert ( d [ src [ a ] ] != d [ src [ b ] ] ) ;
}
assert forall | x : u32 | ( # [ trigger ] d . contains ( x ) && ( x & 63 ) >= 8 ) <==> ( exists | j : int | 0 <= j < ntp && pairs @ [ j ] == x ) by {
if d . contains ( x ) && ( x & 63 ) >= 8 {
let t = choose | t : int | 0 <= t < d . len ( ) && d [ t ] == x ;
let j = choose | j : int | 0 <= j < ntp && # [ trigger ] src [ j ] == t ;
assert ( pairs @ [ j ] == x ) ;
}
if exists | j : int | 0 <= j < ntp && pairs @ [ j ] == x {
let j = choose | j : int | 0 <= j < ntp && pairs @ [ j ] == x ;
assert ( d [ src [ j ] ] == x ) ;
}
}
assert forall | row : int , col : int | 0 <= row < k_of ( lg_k ) && 0 <= col < 8 implies ( # [ trigger ] wbit ( window @ , row , col ) <==> d . contains ( rc ( row , col ) ) ) by {
if d . contains ( rc ( row , col ) ) {
let t = choose | t : int | 0 <= t < d . len ( ) && d [ t ] == rc ( row , col ) ;
assert ( 0 <= t < n && d [ t ] == rc ( row , col ) ) ;
}
}
}
UncompressedState {
table : PairTable :: from_slots ( lg_k , next_true_pair , pairs ) , window , }
}


}

// ---------- hybrid flavor, encoder side: the window bits are read out as pairs (ascending) and merged with the sorted table pairs ----------
// pairs of the set bits of one window byte with column >= c, ascending
spec fn byte_pairs(row: int, b: u8, c: int) -> Seq<u32> decreases 8 - c {
    if c >= 8 || c < 0 { Seq::empty() } else { (if bit8(b, c) { seq![rc(row, c)] } else { Seq::<u32>::empty() }) + byte_pairs(row, b, c + 1) }
}
// the window pairs of rows 0..rows, in the order the encoder reads them
spec fn win_seq(w: Seq<u8>, rows: int) -> Seq<u32> decreases rows { if rows <= 0 { Seq::empty() } else { win_seq(w, rows - 1) + byte_pairs(rows - 1, w[rows - 1], 0) } }
// number of window bits (the coupons a hybrid sketch keeps in the window rather than in the table)
spec fn win_count(w: Seq<u8>, rows: int) -> int { win_seq(w, rows).len() as int }

proof fn lemma_byte_pairs_skip(row: int, b: u8, c: int, t: int)
  requires 0 <= c <= t <= 8, forall|j: int| c <= j < t ==> !bit8(b, j)
  ensures byte_pairs(row, b, c) == byte_pairs(row, b, t)
  decreases t - c
{
    if c < t { lemma_byte_pairs_skip(row, b, c + 1, t); assert(Seq::<u32>::empty() + byte_pairs(row, b, c + 1) =~= byte_pairs(row, b, c + 1)); }
}
proof fn lemma_byte_pairs_mem(row: int, b: u8, c: int, x: u32)
  requires 0 <= c <= 8
  ensures byte_pairs(row, b, c).contains(x) <==> exists|col: int| c <= col < 8 && bit8(b, col) && x == #[trigger] rc(row, col)
  decreases 8 - c
{
    if c < 8 {
        lemma_byte_pairs_mem(row, b, c + 1, x);
        let head = if bit8(b, c) { seq![rc(row, c)] } else { Seq::<u32>::empty() };
        let rest = byte_pairs(row, b, c + 1);
        assert(byte_pairs(row, b, c) == head + rest);
        if (head + rest).contains(x) {
            let i = choose|i: int| 0 <= i < (head + rest).len() && (head + rest)[i] == x;
            if i < head.len() { assert(x == rc(row, c)); } else { assert(rest[i - head.len()] == x); assert(rest.contains(x)); }
        }
        if exists|col: int| c <= col < 8 && bit8(b, col) && x == #[trigger] rc(row, col) {
            let col = choose|col: int| c <= col < 8 && bit8(b, col) && x == #[trigger] rc(row, col);
            if col == c { assert((head + rest)[0] == x); } else { assert(rest.contains(x)); let i = choose|i: int| 0 <= i < rest.len() && rest[i] == x; assert((head + rest)[head.len() + i] == x); }
        }
    }
}
proof fn lemma_rc_lt(row: int, c1: int, c2: int) requires 0 <= row <= 0x3ff_ffff, 0 <= c1 < c2 <= 63 ensures rc(row, c1) < rc(row, c2) {
    let r = row as u32; let a = c1 as u32; let b = c2 as u32;
    assert(r <= 0x3ff_ffff && a < b && b <= 63 ==> ((r << 6) | a) < ((r << 6) | b)) by (bit_vector);
}
proof fn lemma_row_lt(a: u32, b: u32) requires (a >> 6) < (b >> 6) ensures a < b { assert((a >> 6) < (b >> 6) ==> a < b) by (bit_vector); }
proof fn lemma_concat_ascending(a: Seq<u32>, b: Seq<u32>)
  requires pairs_ascending(a), pairs_ascending(b), a.len() > 0 && b.len() > 0 ==> a.last() < b[0]
  ensures pairs_ascending(a + b)
{
    let s = a + b;
    assert forall|i: int, j: int| #![trigger s[i], s[j]] 0 <= i < j < s.len() implies s[i] < s[j] by {
        if j < a.len() { assert(a[i] < a[j]); }
        else if i >= a.len() { assert(b[i - a.len()] < b[j - a.len()]); }
        else {
            if i < a.len() - 1 { assert(a[i] < a[a.len() - 1]); }
            if j > a.len() { assert(b[0] < b[j - a.len()]); }
            assert(s[i] == a[i] && s[j] == b[j - a.len()]);
        }
    }
}
proof fn lemma_byte_pairs_ascending(row: int, b: u8, c: int)
  requires 0 <= c <= 8, 0 <= row <= 0x3ff_ffff
  ensures pairs_ascending(byte_pairs(row, b, c))
  decreases 8 - c
{
    if c < 8 {
        lemma_byte_pairs_ascending(row, b, c + 1);
        let head = if bit8(b, c) { seq![rc(row, c)] } else { Seq::<u32>::empty() };
        let rest = byte_pairs(row, b, c + 1);
        if head.len() > 0 && rest.len() > 0 {
            assert(rest.contains(rest[0]));
            lemma_byte_pairs_mem(row, b, c + 1, rest[0]);
            let col = choose|col: int| c + 1 <= col < 8 && bit8(b, col) && rest[0] == #[trigger] rc(row, col);
            lemma_rc_lt(row, c, col);
        }
        lemma_concat_ascending(head, rest);
    }
}
// membership in win_seq = membership in win_pairs (restricted to the rows read so far)
proof fn lemma_win_seq_mem(w: Seq<u8>, rows: int, x: u32)
  requires 0 <= rows <= w.len() <= 0x400_0000
  ensures win_seq(w, rows).contains(x) <==> ((x & 63) < 8 && (x >> 6) < rows && bit8(w[(x >> 6) as int], (x & 63) as int))
  decreases rows
{
    lemma_rc_of(x);
    if rows > 0 {
        lemma_win_seq_mem(w, rows - 1, x);
        let a = win_seq(w, rows - 1); let b = byte_pairs(rows - 1, w[rows - 1], 0);
        lemma_byte_pairs_mem(rows - 1, w[rows - 1], 0, x);
        if (a + b).contains(x) {
            let i = choose|i: int| 0 <= i < (a + b).len() && (a + b)[i] == x;
            if i < a.len() { assert(a[i] == x); assert(a.contains(x)); } else { assert(b[i - a.len()] == x); assert(b.contains(x));
                let col = choose|col: int| 0 <= col < 8 && bit8(w[rows - 1], col) && x == #[trigger] rc(rows - 1, col); lemma_rc_parts2(rows - 1, col); }
        }
        if (x & 63) < 8 && (x >> 6) < rows && bit8(w[(x >> 6) as int], (x & 63) as int) {
            if (x >> 6) < rows - 1 { assert(a.contains(x)); let i = choose|i: int| 0 <= i < a.len() && a[i] == x; assert((a + b)[i] == x); }
            else { assert(x == rc(rows - 1, (x & 63) as int)); assert(b.contains(x)); let i = choose|i: int| 0 <= i < b.len() && b[i] == x; assert((a + b)[a.len() + i] == x); }
        }
    }
}
proof fn lemma_win_seq_ascending(w: Seq<u8>, rows: int)
  requires 0 <= rows <= w.len() <= 0x400_0000
  ensures pairs_ascending(win_seq(w, rows))
  decreases rows
{
    if rows > 0 {
        lemma_win_seq_ascending(w, rows - 1);
        let a = win_seq(w, rows - 1); let b = byte_pairs(rows - 1, w[rows - 1], 0);
        lemma_byte_pairs_ascending(rows - 1, w[rows - 1], 0);
        if a.len() > 0 && b.len() > 0 {
            assert(a.contains(a.last())); lemma_win_seq_mem(w, rows - 1, a.last());
            assert(b.contains(b[0])); lemma_byte_pairs_mem(rows - 1, w[rows - 1], 0, b[0]);
            let col = choose|col: int| 0 <= col < 8 && bit8(w[rows - 1], col) && b[0] == #[trigger] rc(rows - 1, col); lemma_rc_parts2(rows - 1, col);
            lemma_row_lt(a.last(), b[0]);
        }
        lemma_concat_ascending(a, b);
    }
}
proof fn lemma_win_seq_len_mono(w: Seq<u8>, a: int, b: int) requires a <= b ensures win_seq(w, a).len() <= win_seq(w, b).len() decreases b - a {
    if a < b { lemma_win_seq_len_mono(w, a, b - 1); if b <= 0 { assert(win_seq(w, a).len() == 0); } }
}
// one step of the inner bit loop
proof fn lemma_erase_bit(byte: u8, b0: u8, c: int, t: u32)
  requires 0 <= c <= 8, forall|col: int| 0 <= col < 8 ==> #[trigger] bit8(byte, col) == (col >= c && bit8(b0, col)),
    t < 8, bit8(byte, t as int), forall|j: int| 0 <= j < t ==> !bit8(byte, j)
  ensures c <= t, bit8(b0, t as int), forall|j: int| c <= j < t ==> !bit8(b0, j),
    (byte ^ (1u8 << t)) < byte,
    forall|col: int| 0 <= col < 8 ==> #[trigger] bit8(byte ^ (1u8 << t), col) == (col >= t + 1 && bit8(b0, col)),
{
    assert(bit8(byte, t as int) == (t >= c && bit8(b0, t as int)));
    assert forall|j: int| c <= j < t implies !bit8(b0, j) by { assert(!bit8(byte, j)); }
    assert forall|col: int| 0 <= col < 8 implies #[trigger] bit8(byte ^ (1u8 << t), col) == (col >= t + 1 && bit8(b0, col)) by {
        assert(bit8(byte, col) == (col >= c && bit8(b0, col)));
        let d = col as u8;
        assert(t < 8 && d < 8 ==> ((((byte ^ (1u8 << t)) >> d) & 1 == 1) == ((((byte >> d) & 1 == 1)) != (d as u32 == t)))) by (bit_vector);
        if col < t { assert(!bit8(byte, col)); }
    }
    let tt = t as u8;
    assert(tt < 8 && ((byte >> tt) & 1 == 1) ==> (byte ^ (1u8 << tt)) < byte) by (bit_vector);
    assert((1u8 << t) == (1u8 << tt)) by (bit_vector) requires tt == t as u8, t < 8;
}
proof fn lemma_byte_zero(b: u8) requires b == 0 ensures forall|col: int| 0 <= col < 8 ==> !bit8(b, col) {
    assert forall|col: int| 0 <= col < 8 implies !bit8(b, col) by { let d = col as u8; assert(d < 8 ==> !((0u8 >> d) & 1 == 1)) by (bit_vector); }
}
proof fn lemma_rc_usize(row: usize, col: u32) requires row <= 0x3ff_ffff, col < 8 ensures (((row << 6) as u32) | col) == rc(row as int, col as int) {
    let r = row as u32;
    assert(((row << 6) as u32) == (r << 6)) by (bit_vector) requires r == row as u32, row <= 0x3ff_ffff;
}
// table pairs (columns >= 8) and window pairs (columns < 8) never coincide
proof fn lemma_cols_differ(a: u32, b: u32) requires (a & 63) >= 8, (b & 63) < 8 ensures a != b {}

// the merged prefix: strictly ascending, holding exactly the first t table pairs and the first wi window pairs
#[verifier::opaque]
spec fn merged(m: Seq<u32>, tp: Seq<u32>, t: int, ws: Seq<u32>, wi: int) -> bool {
    pairs_ascending(m) && forall|x: u32| m.contains(x) <==> (tp.take(t).contains(x) || ws.take(wi).contains(x))
}
proof fn lemma_merge_start(m: Seq<u32>, tp: Seq<u32>, ws: Seq<u32>) requires m.len() == 0 ensures merged(m, tp, 0, ws, 0) {
    reveal(merged);
    assert(tp.take(0) =~= Seq::<u32>::empty()); assert(ws.take(0) =~= Seq::<u32>::empty());
}
// one step of the two-way merge: the merged prefix stays strictly ascending and holds exactly the consumed elements
proof fn lemma_merge_step(m0: Seq<u32>, m1: Seq<u32>, e: u32, tp: Seq<u32>, t: int, ws: Seq<u32>, wi: int, from_table: bool)
  requires merged(m0, tp, t, ws, wi), m1 == m0.push(e), m0.len() > 0 ==> m0.last() < e,
    0 <= t <= tp.len(), 0 <= wi <= ws.len(),
    from_table ==> t < tp.len() && e == tp[t], !from_table ==> wi < ws.len() && e == ws[wi],
  ensures merged(m1, tp, if from_table { t + 1 } else { t }, ws, if from_table { wi } else { wi + 1 }),
{
    reveal(merged);
    assert forall|i: int, j: int| #![trigger m1[i], m1[j]] 0 <= i < j < m1.len() implies m1[i] < m1[j] by {
        if j < m0.len() { assert(m0[i] < m0[j]); } else if i < m0.len() - 1 { assert(m0[i] < m0[m0.len() - 1]); }
    }
    let t1 = if from_table { t + 1 } else { t }; let w1 = if from_table { wi } else { wi + 1 };
    assert forall|x: u32| m1.contains(x) <==> (tp.take(t1).contains(x) || ws.take(w1).contains(x)) by {
        if from_table { assert(tp.take(t1) =~= tp.take(t).push(e)); } else { assert(ws.take(w1) =~= ws.take(wi).push(e)); }
        lemma_push_contains(m0, e, x); lemma_push_contains(tp.take(t), e, x); lemma_push_contains(ws.take(wi), e, x);
    }
}
// the result of the merge is the ascending sequence of the hybrid set, every row below k
proof fn lemma_merge_final(all: Seq<u32>, tp: Seq<u32>, ws: Seq<u32>, tbl: ISet<u32>, w: Seq<u8>, lg_k: u8)
  requires merged(all, tp, tp.len() as int, ws, ws.len() as int), forall|x: u32| tp.contains(x) <==> tbl.contains(x),
    4 <= lg_k <= 26, w.len() == k_of(lg_k), ws == win_seq(w, w.len() as int), forall|x: u32| #[trigger] tbl.contains(x) ==> (x >> 6) < k_of(lg_k),
  ensures sorted_items(all, hybrid_set(tbl, w)), rows_below(all, k_of(lg_k))
{
    reveal(merged);
    lemma_k_bound(lg_k);
    let k = w.len() as int;
    assert(tp.take(tp.len() as int) =~= tp); assert(ws.take(ws.len() as int) =~= ws);
    let hs = hybrid_set(tbl, w);
    assert forall|x: u32| all.contains(x) <==> hs.contains(x) by { lemma_win_seq_mem(w, k, x); lemma_rc_of(x); }
    assert forall|i: int| 0 <= i < all.len() implies (#[trigger] all[i] >> 6) < k_of(lg_k) by {
        let x = all[i]; assert(all.contains(x)); lemma_win_seq_mem(w, k, x);
    }
}
// table pairs have columns >= 8 (the window is at offset 0), window pairs columns < 8
proof fn lemma_hybrid_cols(tp: Seq<u32>, tbl: ISet<u32>, ws: Seq<u32>, w: Seq<u8>)
  requires forall|x: u32| tp.contains(x) <==> tbl.contains(x), forall|x: u32| #[trigger] tbl.contains(x) ==> !(0 <= (x & 63) < 0 + 8),
    w.len() <= 0x400_0000, ws == win_seq(w, w.len() as int)
  ensures forall|i: int| 0 <= i < tp.len() ==> (#[trigger] tp[i] & 63) >= 8, forall|i: int| 0 <= i < ws.len() ==> (#[trigger] ws[i] & 63) < 8
{
    assert forall|i: int| 0 <= i < tp.len() implies (#[trigger] tp[i] & 63) >= 8 by { assert(tp.contains(tp[i])); assert(tbl.contains(tp[i])); assert(!(0 <= (tp[i] & 63) < 0 + 8)); }
    assert forall|i: int| 0 <= i < ws.len() implies (#[trigger] ws[i] & 63) < 8 by { assert(ws.contains(ws[i])); lemma_win_seq_mem(w, w.len() as int, ws[i]); }
}
proof fn lemma_push_contains(a: Seq<u32>, e: u32, x: u32) ensures a.push(e).contains(x) <==> (a.contains(x) || x == e) {
    let b = a.push(e);
    if b.contains(x) { let i = choose|i: int| 0 <= i < b.len() && b[i] == x; if i < a.len() { assert(a[i] == x); } }
    if a.contains(x) { let i = choose|i: int| 0 <= i < a.len() && a[i] == x; assert(b[i] == x); }
    if x == e { assert(b[a.len() as int] == x); }
}

// static facts of the merge: both inputs strictly ascending, table columns >= 8, window columns < 8
#[verifier::opaque]
spec fn merge_pre(tp: Seq<u32>, ws: Seq<u32>) -> bool {
    &&& pairs_ascending(tp) && pairs_ascending(ws)
    &&& forall|i: int| 0 <= i < tp.len() ==> (#[trigger] tp[i] & 63) >= 8
    &&& forall|i: int| 0 <= i < ws.len() ==> (#[trigger] ws[i] & 63) < 8
}
// state of the in-place merge: a[0..f) merged, a[wi..) still the unread window pairs, f = t + (wi - npt), merged prefix below both heads
#[verifier::opaque]
spec fn merge_inv(a: Seq<u32>, tp: Seq<u32>, ws: Seq<u32>, t: int, wi: int, f: int) -> bool {
    let npt = tp.len() as int;
    &&& a.len() == npt + ws.len() && 0 <= t <= npt && npt <= wi <= a.len() && f == t + (wi - npt)
    &&& forall|j: int| wi <= j < a.len() ==> #[trigger] a[j] == ws[j - npt]
    &&& merged(a.take(f), tp, t, ws, wi - npt)
    &&& (f > 0 && t < npt ==> a[f - 1] < tp[t])
    &&& (f > 0 && wi < a.len() ==> a[f - 1] < ws[wi - npt])
}
proof fn lemma_merge_inv_init(a: Seq<u32>, tp: Seq<u32>, ws: Seq<u32>)
  requires a.len() == tp.len() + ws.len(), a.subrange(tp.len() as int, a.len() as int) == ws
  ensures merge_inv(a, tp, ws, 0, tp.len() as int, 0)
{
    reveal(merge_inv);
    let npt = tp.len() as int;
    assert forall|j: int| npt <= j < a.len() implies #[trigger] a[j] == ws[j - npt] by { assert(a.subrange(npt, a.len() as int)[j - npt] == a[j]); }
    lemma_merge_start(a.take(0), tp, ws);
}
proof fn lemma_merge_bounds(a: Seq<u32>, tp: Seq<u32>, ws: Seq<u32>, t: int, wi: int, f: int)
  requires merge_inv(a, tp, ws, t, wi, f)
  ensures a.len() == tp.len() + ws.len(), 0 <= t <= tp.len(), tp.len() <= wi <= a.len(), f == t + (wi - tp.len()), f < a.len() && t >= tp.len() ==> wi < a.len()
{ reveal(merge_inv); }
proof fn lemma_merge_take_table(a0: Seq<u32>, a1: Seq<u32>, tp: Seq<u32>, ws: Seq<u32>, t: int, wi: int, f: int)
  requires merge_pre(tp, ws), merge_inv(a0, tp, ws, t, wi, f), t < tp.len(), wi >= a0.len() || tp[t] <= a0[wi], a1 == a0.update(f, tp[t])
  ensures merge_inv(a1, tp, ws, t + 1, wi, f + 1)
{
    reveal(merge_inv); reveal(merge_pre);
    let npt = tp.len() as int; let e = tp[t];
    assert(f < wi);
    assert(a1.take(f + 1) =~= a0.take(f).push(e));
    if wi < a0.len() { assert(a0[wi] == ws[wi - npt]); lemma_cols_differ(e, ws[wi - npt]); }
    lemma_merge_step(a0.take(f), a1.take(f + 1), e, tp, t, ws, wi - npt, true);
    if t + 1 < npt { assert(tp[t] < tp[t + 1]); }
    assert forall|j: int| wi <= j < a1.len() implies #[trigger] a1[j] == ws[j - npt] by { assert(a0[j] == ws[j - npt]); }
}
proof fn lemma_merge_take_window(a0: Seq<u32>, a1: Seq<u32>, tp: Seq<u32>, ws: Seq<u32>, t: int, wi: int, f: int)
  requires merge_pre(tp, ws), merge_inv(a0, tp, ws, t, wi, f), f < a0.len(), !(t < tp.len() && (wi >= a0.len() || tp[t] <= a0[wi])), wi < a0.len() ==> a1 == a0.update(f, a0[wi])
  ensures wi < a0.len(), merge_inv(a1, tp, ws, t, wi + 1, f + 1)
{
    reveal(merge_inv); reveal(merge_pre);
    let npt = tp.len() as int;
    assert(wi < a0.len());
    let e = ws[wi - npt];
    assert(a0[wi] == e);
    assert(a1.take(f + 1) =~= a0.take(f).push(e));
    lemma_merge_step(a0.take(f), a1.take(f + 1), e, tp, t, ws, wi - npt, false);
    if wi + 1 < a0.len() { assert(ws[wi - npt] < ws[wi - npt + 1]); }
    assert forall|j: int| wi + 1 <= j < a1.len() implies #[trigger] a1[j] == ws[j - npt] by { assert(a0[j] == ws[j - npt]); }
}
proof fn lemma_merge_done(a: Seq<u32>, tp: Seq<u32>, ws: Seq<u32>, t: int, wi: int)
  requires merge_inv(a, tp, ws, t, wi, a.len() as int)
  ensures merged(a, tp, tp.len() as int, ws, ws.len() as int)
{
    reveal(merge_inv);
    assert(a.take(a.len() as int) =~= a);
}
proof fn lemma_merge_pre(tp: Seq<u32>, tbl: ISet<u32>, ws: Seq<u32>, w: Seq<u8>)
  requires pairs_ascending(tp), forall|x: u32| tp.contains(x) <==> tbl.contains(x), forall|x: u32| #[trigger] tbl.contains(x) ==> !(0 <= (x & 63) < 0 + 8),
    w.len() <= 0x400_0000, ws == win_seq(w, w.len() as int)
  ensures merge_pre(tp, ws)
{
    reveal(merge_pre);
    lemma_hybrid_cols(tp, tbl, ws, w);
    lemma_win_seq_ascending(w, w.len() as int);
}

impl CompressedState {
    fn compress_hybrid_flavor ( & mut self , source : & CpcSketch ) requires source . coder_wf ( ) , source . sliding_window @ . len ( ) == source . k ( ) , source . window_offset == 0 , 1 <= source . num_coupons , 2 * source . num_coupons < source . k ( ) ,
/*@C17.cpc.coder_hybrid_count*/ source . num_coupons == source . surprising_value_table -> 0 . num_items + win_count ( source . sliding_window @ , source . k ( ) ) , ensures
/*@C18.cpc.coder_table_words_u32*/ final ( self ) . table_data @ . len ( ) <= 0xffff_ffff ,
/*@C12.cpc.coder_hybrid_entries*/ final ( self ) . table_num_entries == source . num_coupons , final ( self ) . window_data == old ( self ) . window_data , final ( self ) . window_data_words == old ( self ) . window_data_words , final ( self ) . table_data_words <= final ( self ) . table_data @ . len ( ) , final ( self ) . table_data @ . len ( ) > 0 ,
/*@C12.cpc.coder_hybrid_image*/ table_image_of ( final ( self ) . table_words ( ) , final ( self ) . table_num_entries , source . lg_k , hybrid_set ( source . tbl ( ) , source . sliding_window @ ) ) , {
debug_assert! ( ! source . sliding_window . is_empty ( ) ) ;
debug_assert! ( source . window_offset == 0 ) ;
proof {
lemma_shl32 ( source . lg_k ) ;
lemma_k_bound ( source . lg_k ) ;
}
let k = 1 << source . lg_k ( ) ;
let mut pairs = source . surprising_value_table ( ) . unwrapping_get_items ( ) ;
let ghost got = pairs @ ;
pairs . sort_unstable ( ) ;
let ghost w = source . sliding_window @ ;
let ghost tbl = source . tbl ( ) ;
let ghost tp = pairs @ ;
let ghost ws = win_seq ( w , k as int ) ;
proof {
lemma_perm_set ( tp , got ) ;
assert forall | i : int , j : int | # ! [ trigger tp [ i ] , tp [ j ] ] 0 <= i < j < tp . len ( ) implies tp [ i ] <= tp [ j ] by {
assert ( tp [ i ] . cmp_spec ( & tp [ j ] ) != core :: cmp :: Ordering :: Greater ) ;
}
lemma_sorted_distinct_ascending ( tp ) ;
}
let num_pairs_from_table = pairs . len ( ) ;
let num_pairs_from_window = ( source . num_coupons ( ) as usize ) - num_pairs_from_table ;
let all_pairs_len = num_pairs_from_table + num_pairs_from_window ;
let mut all_pairs = vec! [ 0 ;
all_pairs_len ] ;
{
let mut idx = num_pairs_from_table ;
proof {
assert ( all_pairs @ . subrange ( num_pairs_from_table as int , idx as int ) =~= win_seq ( w , 0 ) ) ;
}
for row_index in 0 .. k invariant all_pairs @ . len ( ) == all_pairs_len , k == w . len ( ) , k <= 0x400_0000 , w == source . sliding_window @ , ws == win_seq ( w , k as int ) , all_pairs_len == num_pairs_from_table + ws . len ( ) , num_pairs_from_table <= idx <= all_pairs_len ,
/*@C12.cpc.coder_hybrid_window_pairs*/ all_pairs @ . subrange ( num_pairs_from_table as int , idx as int ) == win_seq ( w , row_index as int ) , {
let mut byte = source . sliding_window [ row_index ] ;
let ghost b0 = byte ;
let ghost mut c : int = 0 ;
proof {
lemma_win_seq_len_mono ( w , row_index + 1 , k as int ) ;
}
while byte != 0 invariant all_pairs @ . len ( ) == all_pairs_len , k == w . len ( ) , k <= 0x400_0000 , row_index < k , b0 == w [ row_index as int ] , all_pairs_len == num_pairs_from_table + ws . len ( ) , win_seq ( w , row_index + 1 ) . len ( ) <= ws . len ( ) , num_pairs_from_table <= idx <= all_pairs_len , 0 <= c <= 8 , forall | col : int | 0 <= col < 8 ==> # [ trigger ] bit8 ( byte , col ) == ( col >= c && bit8 ( b0 , col ) ) , all_pairs @ . subrange ( num_pairs_from_table as int , idx as int ) + byte_pairs ( row_index as int , b0 , c ) == win_seq ( w , row_index + 1 ) , decreases byte {
let col_index = byte . trailing_zeros ( ) ;
proof {
axiom_u8_trailing_zeros ( byte ) ;
let tz = u8_trailing_zeros ( byte ) ;
assert ( col_index < 8 && bit8 ( byte , col_index as int ) && forall | j : int | 0 <= j < col_index ==> ! bit8 ( byte , j ) ) by {
assert ( tz < 8 ) ;
let t8 = tz as u8 ;
assert ( ( byte >> t8 ) & 1u8 == 1u8 ) ;
assert forall | j : int | 0 <= j < col_index implies ! bit8 ( byte , j ) by {
let j8 = j as u8 ;
assert ( ( byte >> j8 ) & 1u8 == 0u8 ) ;
}
}
lemma_erase_bit ( byte , b0 , c , col_index ) ;
lemma_byte_pairs_skip ( row_index as int , b0 , c , col_index as int ) ;
lemma_rc_usize ( row_index , col_index ) ;
let pre = all_pairs @ . subrange ( num_pairs_from_table as int , idx as int ) ;
let rest = byte_pairs ( row_index as int , b0 , col_index + 1 ) ;
assert ( byte_pairs ( row_index as int , b0 , col_index as int ) == seq! [ rc ( row_index as int , col_index as int ) ] + rest ) ;
assert ( pre + ( seq! [ rc ( row_index as int , col_index as int ) ] + rest ) =~= pre . push ( rc ( row_index as int , col_index as int ) ) + rest ) ;
assert ( ( pre + byte_pairs ( row_index as int , b0 , c ) ) . len ( ) == pre . len ( ) + 1 + rest . len ( ) ) ;
}
let ghost a_before = all_pairs @ ;
byte ^= 1 << col_index ;
all_pairs [ idx ] = ( ( row_index << 6 ) as u32 ) | col_index ;
proof {
assert ( all_pairs @ . subrange ( num_pairs_from_table as int , idx + 1 ) =~= a_before . subrange ( num_pairs_from_table as int , idx as int ) . push ( rc ( row_index as int , col_index as int ) ) ) ;
c = col_index + 1 ;
}
idx += 1 ;
}
proof {
lemma_byte_zero ( byte ) ;
assert forall | j : int | c <= j < 8 implies ! bit8 ( b0 , j ) by {
assert ( bit8 ( byte , j ) == ( j >= c && bit8 ( b0 , j ) ) ) ;
}
lemma_byte_pairs_skip ( row_index as int , b0 , c , 8 ) ;
assert ( byte_pairs ( row_index as int , b0 , 8 ) =~= Seq :: < u32 > :: empty ( ) ) ;
assert ( all_pairs @ . subrange ( num_pairs_from_table as int , idx as int ) + Seq :: < u32 > :: empty ( ) =~= all_pairs @ . subrange ( num_pairs_from_table as int , idx as int ) ) ;
}
}
assert! ( idx == all_pairs_len ) ;
}
{
let mut final_idx = 0 ;
let mut table_idx = 0 ;
let mut window_idx = num_pairs_from_table ;
proof {
lemma_merge_inv_init ( all_pairs @ , tp , ws ) ;
lemma_merge_pre ( tp , tbl , ws , w ) ;
}
while final_idx < all_pairs_len invariant all_pairs @ . len ( ) == all_pairs_len , pairs @ == tp , tp . len ( ) == num_pairs_from_table , all_pairs_len == tp . len ( ) + ws . len ( ) , merge_pre ( tp , ws ) , table_idx <= num_pairs_from_table , num_pairs_from_table <= window_idx <= all_pairs_len , final_idx <= all_pairs_len ,
/*@C12.cpc.coder_hybrid_merge*/ merge_inv ( all_pairs @ , tp , ws , table_idx as int , window_idx as int , final_idx as int ) , decreases all_pairs_len - final_idx {
let ghost a0 = all_pairs @ ;
proof {
lemma_merge_bounds ( a0 , tp , ws , table_idx as int , window_idx as int , final_idx as int ) ;
}
if table_idx < num_pairs_from_table && ( window_idx >= all_pairs_len || pairs [ table_idx ] <= all_pairs [ window_idx ] ) {
all_pairs [ final_idx ] = pairs [ table_idx ] ;
proof {
lemma_merge_take_table ( a0 , all_pairs @ , tp , ws , table_idx as int , window_idx as int , final_idx as int ) ;
}
table_idx += 1 ;
}
else {
proof {
lemma_merge_take_window ( a0 , a0 . update ( final_idx as int , a0 [ window_idx as int ] ) , tp , ws , table_idx as int , window_idx as int , final_idx as int ) ;
}
all_pairs [ final_idx ] = all_pairs [ window_idx ] ;
window_idx += 1 ;
}
final_idx += 1 ;
}
proof {
lemma_merge_done ( all_pairs @ , tp , ws , table_idx as int , window_idx as int ) ;
lemma_merge_final ( all_pairs @ , tp , ws , tbl , w , source . lg_k ) ;
}
}
self . compress_surprising_values ( & all_pairs , source . lg_k ( ) ) ;
}


}

// =====================================================================================================================
// The two entry points.
// =====================================================================================================================
impl CpcSketch {
    // what `compress` needs of the sketch, per flavor: clauses of CpcSketch::wf (contracts/cpc_core.rs, cpc_update.rs)
    spec fn compress_wf(&self) -> bool {
        let fl = flavor_spec(self.lg_k, self.num_coupons);
        &&& 4 <= self.lg_k <= 26
        &&& !(fl is Empty) ==> self.coder_wf()
        &&& fl is Sparse ==> self.sliding_window@.len() == 0 && self.surprising_value_table->0.num_items >= 1
        &&& (fl is Hybrid || fl is Pinned) ==> self.sliding_window@.len() == self.k() && self.window_offset == 0
        // CpcSketch::wf_count (unit cpc_update): every coupon is in the table or in the window
        &&& fl is Hybrid ==> self.num_coupons == self.surprising_value_table->0.num_items + win_count(self.sliding_window@, self.k())
        &&& fl is Sliding ==> self.sliding_window@.len() == self.k()
    }
}
spec fn cs_is_default(c: CompressedState) -> bool {
    c.table_data@.len() == 0 && c.table_data_words == 0 && c.table_num_entries == 0 && c.window_data@.len() == 0 && c.window_data_words == 0
}
// the SHAPE of what `compress` leaves (its debug_asserts and the buffer discipline): flags fit the flavor, the used-word counts fit the
// u32 fields of the image.  This is what unit cpc_codec's `serialize` needs of `compress` besides compress_image.
spec fn coder_shape(fl: Flavor, c: CompressedState) -> bool {
    &&& c.table_data_words <= c.table_data@.len() && c.window_data_words <= c.window_data@.len()
    &&& c.table_data_words <= 0xffff_ffff && c.window_data_words <= 0xffff_ffff
    &&& fl is Empty ==> cs_is_default(c)
    &&& (fl is Sparse || fl is Hybrid) ==> c.window_data@.len() == 0 && c.table_data@.len() > 0
    &&& (fl is Pinned || fl is Sliding) ==> c.window_data@.len() > 0 && (c.table_num_entries > 0 ==> c.table_data@.len() > 0)
}
// C12 for the coder: what `compress` leaves in a default CompressedState, per flavor
spec fn compress_image(c: CompressedState, s: CpcSketch) -> bool {
    let fl = flavor_spec(s.lg_k, s.num_coupons); let phase = pseudo_phase_spec(s.lg_k, s.num_coupons); let n_tbl = s.surprising_value_table->0.num_items;
    &&& c.table_data_words <= c.table_data@.len() && c.window_data_words <= c.window_data@.len()
    &&& fl is Empty ==> cs_is_default(c)
    &&& (fl is Sparse || fl is Hybrid) ==> c.window_data@.len() == 0 && c.window_data_words == 0
    &&& fl is Sparse ==> table_image_of(c.table_words(), c.table_num_entries, s.lg_k, s.tbl())
    &&& fl is Hybrid ==> table_image_of(c.table_words(), c.table_num_entries, s.lg_k, hybrid_set(s.tbl(), s.sliding_window@))
    &&& (fl is Pinned || fl is Sliding) ==> is_window_image(c.window_words(), phase, s.sliding_window@)
    &&& (fl is Pinned || fl is Sliding) && n_tbl == 0 ==> c.table_data@.len() == 0 && c.table_data_words == 0 && c.table_num_entries == 0
    &&& fl is Pinned && n_tbl > 0 ==> table_image_of(c.table_words(), c.table_num_entries, s.lg_k, shift_cols(s.tbl()))
    &&& fl is Sliding && n_tbl > 0 ==> table_image_of(c.table_words(), c.table_num_entries, s.lg_k, slide_set(s.tbl(), s.window_offset, perm_enc(phase)))
}
// a VALID compressed state for (lg_k, C): what `uncompress` needs, per flavor
spec fn image_valid(c: CompressedState, lg_k: u8, nc: u32) -> bool {
    let fl = flavor_spec(lg_k, nc); let n = c.table_num_entries;
    &&& 4 <= lg_k <= 26
    &&& (fl is Sparse || fl is Hybrid) ==> c.window_data@.len() == 0 && c.table_data@.len() > 0 && c.table_valid(lg_k)
    &&& (fl is Pinned || fl is Sliding) ==> c.window_data@.len() > 0 && c.window_valid(lg_k, nc) && (n > 0 ==> c.table_data@.len() > 0 && c.table_valid(lg_k))
    &&& fl is Pinned && n > 0 ==> (forall|i: int| 0 <= i < n ==> (#[trigger] c.table_decoded(lg_k)[i] & 63) < 56 && c.table_decoded(lg_k)[i] + 8 != EMPTY)
    &&& fl is Sliding && n > 0 ==> dco(lg_k, nc) <= 56 && (forall|i: int| 0 <= i < n ==> (#[trigger] c.table_decoded(lg_k)[i] & 63) < 56
            && slide_dec(c.table_decoded(lg_k)[i], dco(lg_k, nc) as u8, perm_dec(pseudo_phase_spec(lg_k, nc))) != EMPTY)
}
// C13 for the coder: what `uncompress` returns for a valid compressed state, per flavor
spec fn decoded_as(r: UncompressedState, c: CompressedState, lg_k: u8, nc: u32) -> bool {
    let fl = flavor_spec(lg_k, nc); let n = c.table_num_entries; let d = c.table_decoded(lg_k);
    &&& r.table.wf() && r.table.num_valid_bits == 6 + lg_k
    &&& (fl is Empty || fl is Sparse) ==> r.window@.len() == 0
    &&& fl is Empty ==> r.table.items() =~= ISet::<u32>::empty()
    &&& fl is Sparse ==> forall|x: u32| #[trigger] r.table.items().contains(x) <==> d.contains(x)
    &&& fl is Hybrid ==> r.window@.len() == k_of(lg_k)
          && (forall|row: int, col: int| 0 <= row < k_of(lg_k) && 0 <= col < 8 ==> (#[trigger] wbit(r.window@, row, col) <==> d.contains(rc(row, col))))
          && (forall|x: u32| #[trigger] r.table.items().contains(x) <==> (d.contains(x) && (x & 63) >= 8))
    &&& (fl is Pinned || fl is Sliding) ==> r.window@ == c.window_decoded(lg_k, nc)
    &&& (fl is Pinned || fl is Sliding) && n == 0 ==> r.table.items() =~= ISet::<u32>::empty()
    &&& fl is Pinned && n > 0 ==> forall|x: u32| #[trigger] r.table.items().contains(x) <==> unshift_has(d, x)
    &&& fl is Sliding && n > 0 ==> forall|x: u32| #[trigger] r.table.items().contains(x) <==> unslide_has(d, dco(lg_k, nc) as u8, perm_dec(pseudo_phase_spec(lg_k, nc)), x)
}

// ---------- the SHAPE of a decoded state (what unit cpc_codec's parser needs of `uncompress` besides decoded_as) ----------
proof fn lemma_dec_pairs_len(dec: Seq<u16>, nbb: int, s: Seq<bool>, n: int, prow: u32, pcol: u8)
  requires n >= 0 ensures dec_pairs(dec, nbb, s, n, prow, pcol).len() == n decreases n
{
    if n == 0 { lemma_dec_pairs_zero(dec, nbb, s, prow, pcol); }
    else {
        lemma_dec_pairs_step(dec, nbb, s, n, prow, pcol);
        let row = dec_pair_row(dec, nbb, s, prow) as u32; let col = dec_pair_col(dec, nbb, s, pcol) as u8;
        lemma_dec_pairs_len(dec, nbb, dec_pair_rest(dec, nbb, s), n - 1, row, (col + 1) as u8);
    }
}
proof fn lemma_dec_bytes_len(dec: Seq<u16>, s: Seq<bool>, n: int) requires n >= 0 ensures dec_bytes(dec, s, n).len() == n decreases n {
    if n > 0 { let e = dec[peek12(s) as int]; lemma_dec_bytes_len(dec, s.skip((e >> 8) as int), n - 1); }
}
// below the sliding flavor the window has not moved
proof fn lemma_dco_small(lg_k: u8, c: u32) requires 4 <= lg_k <= 26 ensures 8 * (c as int) < 27 * pow2(lg_k as nat) ==> dco(lg_k, c) == 0 {
    lemma_k_bound(lg_k);
    let k = pow2(lg_k as nat) as int; let t = 8 * (c as int) - 19 * k;
    if 8 * (c as int) < 27 * k && t >= 0 { assert(t / (8 * k) == 0) by (nonlinear_arith) requires 0 <= t < 8 * k, k > 0; }
}
// no decoded table entry lies inside the window columns [offset, offset + 8): hybrid keeps columns >= 8 (offset 0), pinned adds 8 to a
// column < 56 (offset 0), sliding rotates a canonical column < 56 by offset + 8
proof fn lemma_decoded_cols(r: UncompressedState, c: CompressedState, lg_k: u8, nc: u32)
  requires image_valid(c, lg_k, nc), decoded_as(r, c, lg_k, nc), r.window@.len() != 0, dco(lg_k, nc) <= 56
  ensures forall|x: u32| r.table.items().contains(x) ==> !(dco(lg_k, nc) <= (x & 63) < dco(lg_k, nc) + 8)
{
    let fl = flavor_spec(lg_k, nc); let n = c.table_num_entries as int; let d = c.table_decoded(lg_k); let off = dco(lg_k, nc);
    lemma_k_bound(lg_k); lemma_dco_small(lg_k, nc); lemma_phase_range(lg_k, nc);
    lemma_dec_pairs_len(llu_dec(), c.nbb(lg_k), words_bits(c.table_data@), n, 0, 0);
    assert(d.len() == n);
    assert forall|x: u32| r.table.items().contains(x) implies !(off <= (x & 63) < off + 8) by {
        if fl is Hybrid {
            assert(off == 0); assert(d.contains(x) && (x & 63) >= 8);
        } else if fl is Pinned {
            assert(off == 0);
            if n > 0 {
                assert(unshift_has(d, x));
                let y = (x - 8) as u32;
                let i = choose|i: int| 0 <= i < d.len() && d[i] == y;
                assert((d[i] & 63) < 56);
                lemma_plus8(y);
            }
        } else if fl is Sliding {
            if n > 0 {
                let phase = pseudo_phase_spec(lg_k, nc); let pe = perm_enc(phase); let pd = perm_dec(phase); let o8 = off as u8;
                assert(unslide_has(d, o8, pd, x));
                let i = choose|i: int| 0 <= i < d.len() && slide_dec(#[trigger] d[i], o8, pd) == x;
                let q = d[i];
                assert((q & 63) < 56);
                reveal(slide_dec);
                lemma_perm_pair(phase);
                lemma_row_small(q);
                lemma_perm_at(pe, pd, (q & 63) as int);
                let c2 = pd[((q & 63) as u8) as int];
                lemma_unrot(c2, o8);
                let col = ((c2 + (o8 + 8)) as u8) & 63;
                lemma_rc_parts(q >> 6, col);
                assert((x & 63) == col);
            }
        }
    }
}

impl CompressedState {
    fn compress ( & mut self , source : & CpcSketch ) requires cs_is_default ( * old ( self ) ) , source . compress_wf ( ) , ensures
/*@C12.cpc.coder_compress_image*/ compress_image ( * final ( self ) , * source ) ,
/*@C12.cpc.coder_compress_shape*/ coder_shape ( flavor_spec ( source . lg_k , source . num_coupons ) , * final ( self ) ) ,
/*@C12.cpc.coder_compress_entries*/ flavor_spec ( source . lg_k , source . num_coupons ) is Sparse ==> final ( self ) . table_num_entries == source . surprising_value_table -> 0 . num_items ,
/*@C12.cpc.coder_compress_entries*/ flavor_spec ( source . lg_k , source . num_coupons ) is Hybrid ==> final ( self ) . table_num_entries == source . num_coupons , {
proof {
lemma_k_bound ( source . lg_k ) ;
}
match source . flavor ( ) {
Flavor :: Empty => {
}
Flavor :: Sparse => {
self . compress_sparse_flavor ( source ) ;
debug_assert! ( self . window_data . is_empty ( ) ) ;
debug_assert! ( ! self . table_data . is_empty ( ) ) ;
}
Flavor :: Hybrid => {
self . compress_hybrid_flavor ( source ) ;
debug_assert! ( self . window_data . is_empty ( ) ) ;
debug_assert! ( ! self . table_data . is_empty ( ) ) ;
}
Flavor :: Pinned => {
self . compress_pinned_flavor ( source ) ;
debug_assert! ( ! self . window_data . is_empty ( ) ) ;
}
Flavor :: Sliding => {
self . compress_sliding_flavor ( source ) ;
debug_assert! ( ! self . window_data . is_empty ( ) ) ;
}
}
}



    fn uncompress ( & self , lg_k : u8 , num_coupons : u32 ) -> ( r : UncompressedState ) requires
/*@C13.cpc.coder_image_valid*/ image_valid ( * self , lg_k , num_coupons ) , ensures
/*@C13.cpc.coder_uncompress_decoded*/ decoded_as ( r , * self , lg_k , num_coupons ) ,
/*@C13.cpc.coder_uncompress_window_len*/ r . window @ . len ( ) == ( if flavor_spec ( lg_k , num_coupons ) is Empty || flavor_spec ( lg_k , num_coupons ) is Sparse {
0 }
else {
pow2 ( lg_k as nat ) as int }
) ,
/*@C13.cpc.coder_uncompress_counts*/ flavor_spec ( lg_k , num_coupons ) is Empty ==> r . table . num_items == 0 ,
/*@C13.cpc.coder_uncompress_counts*/ flavor_spec ( lg_k , num_coupons ) is Sparse ==> r . table . num_items == self . table_num_entries ,
/*@C13.cpc.coder_uncompress_table_cols*/ dco ( lg_k , num_coupons ) <= 56 && r . window @ . len ( ) != 0 ==> forall | x : u32 | r . table . items ( ) . contains ( x ) ==> ! ( dco ( lg_k , num_coupons ) <= ( x & 63 ) < dco ( lg_k , num_coupons ) + 8 ) , {
proof {
lemma_k_bound ( lg_k ) ;
lemma_dec_bytes_len ( byte_dec ( pseudo_phase_spec ( lg_k , num_coupons ) ) , words_bits ( self . window_data @ ) , k_of ( lg_k ) ) ;
assert forall | r : UncompressedState | # [ trigger ] decoded_as ( r , * self , lg_k , num_coupons ) && r . window @ . len ( ) != 0 && dco ( lg_k , num_coupons ) <= 56 implies ( forall | x : u32 | r . table . items ( ) . contains ( x ) ==> ! ( dco ( lg_k , num_coupons ) <= ( x & 63 ) < dco ( lg_k , num_coupons ) + 8 ) ) by {
lemma_decoded_cols ( r , * self , lg_k , num_coupons ) ;
}
}
match determine_flavor ( lg_k , num_coupons ) {
Flavor :: Empty => UncompressedState {
table : PairTable :: new ( 2 , lg_k + 6 ) , window : vec! [ ] , }
, Flavor :: Sparse => self . uncompress_sparse_flavor ( lg_k ) , Flavor :: Hybrid => self . uncompress_hybrid_flavor ( lg_k ) , Flavor :: Pinned => self . uncompress_pinned_flavor ( lg_k , num_coupons ) , Flavor :: Sliding => self . uncompress_sliding_flavor ( lg_k , num_coupons ) , }
}


}

// =====================================================================================================================
// C11 for the coder as a whole: uncompress o (transport of the used words) o compress = identity on (table, window).
//   c  = the CompressedState `compress` filled from sketch s          (compress_image: postcondition of the verified `compress`)
//   c2 = what CpcSketch::deserialize hands to `uncompress`: the first *_words words of each half, same counts  (framing: unit cpc_codec)
//   r  = any result satisfying the postcondition of `uncompress` on c2
// Premises about the sketch beyond compress_wf are clauses of CpcSketch::wf / PairTable::wf proved in units cpc_core / cpc_update / cpc_pairtable.
// =====================================================================================================================
spec fn transported(c: CompressedState, c2: CompressedState) -> bool {
    &&& c2.table_data@ == c.table_words() && c2.table_data_words == c.table_data_words && c2.table_num_entries == c.table_num_entries
    &&& c2.window_data@ == c.window_words() && c2.window_data_words == c.window_data_words
    &&& c.table_data_words <= c.table_data@.len() && c.window_data_words <= c.window_data@.len()
    &&& c2.table_data_words <= 0xffff_ffff && c2.window_data_words <= 0xffff_ffff
}
proof fn lemma_byte_ext(a: u8, b: u8) requires forall|c: int| 0 <= c < 8 ==> bit8(a, c) == bit8(b, c) ensures a == b {
    assert(bit8(a, 0) == bit8(b, 0)); assert(bit8(a, 1) == bit8(b, 1)); assert(bit8(a, 2) == bit8(b, 2)); assert(bit8(a, 3) == bit8(b, 3));
    assert(bit8(a, 4) == bit8(b, 4)); assert(bit8(a, 5) == bit8(b, 5)); assert(bit8(a, 6) == bit8(b, 6)); assert(bit8(a, 7) == bit8(b, 7));
    assert(a == b) by (bit_vector) requires
        ((a >> 0u8) & 1 == 1) == ((b >> 0u8) & 1 == 1), ((a >> 1u8) & 1 == 1) == ((b >> 1u8) & 1 == 1), ((a >> 2u8) & 1 == 1) == ((b >> 2u8) & 1 == 1), ((a >> 3u8) & 1 == 1) == ((b >> 3u8) & 1 == 1),
        ((a >> 4u8) & 1 == 1) == ((b >> 4u8) & 1 == 1), ((a >> 5u8) & 1 == 1) == ((b >> 5u8) & 1 == 1), ((a >> 6u8) & 1 == 1) == ((b >> 6u8) & 1 == 1), ((a >> 7u8) & 1 == 1) == ((b >> 7u8) & 1 == 1);
}
proof fn lemma_phase_range(lg_k: u8, c: u32) requires 4 <= lg_k <= 26 ensures 0 <= pseudo_phase_spec(lg_k, c) < 22, 1000 * (c as int) >= 2375 * pow2(lg_k as nat) ==> pseudo_phase_spec(lg_k, c) < 16 {
    let s = (lg_k - 4) as u32;
    assert(((c >> s) & 15) < 16) by (bit_vector);
}
proof fn lemma_image_nonempty(words: Seq<u32>, nbb: int, pairs: Seq<u32>) requires is_pairs_image(words, nbb, pairs), pairs.len() >= 1, 0 <= nbb ensures words.len() >= 1 {
    let st = enc_pairs(llu_enc(), nbb, pairs, pairs.len() as int);
    let n = pairs.len() as int;
    // the Golomb part of the last pair alone has at least one bit
    let y = y_delta_of(pairs, n - 1) as u64;
    lemma_unary_len((y >> (nbb as u64)) as int);
    assert(golomb_bits(y, nbb).len() >= 1);
    assert(st.len() >= 1);
}

proof fn lemma_coder_roundtrip(s: CpcSketch, c: CompressedState, c2: CompressedState, r: UncompressedState)
  requires s.compress_wf(), compress_image(c, s), transported(c, c2),
    // the decoder's table capacity (PairTable::from_slots: C14.cpc.from_slots.fits of unit cpc_codec)
    4 * c.table_num_entries <= 3 * 0x400_0000 && 4 * c.table_num_entries <= 3 * pow2((5 + s.lg_k) as nat),
    // CpcSketch::wf_offset (unit cpc_core): the window offset is the function of (lg_k, C) that the decoder recomputes
    flavor_spec(s.lg_k, s.num_coupons) is Sliding ==> s.window_offset == dco(s.lg_k, s.num_coupons),
    // PairTable::wf (unit cpc_pairtable): no items counted = no items held
    !(flavor_spec(s.lg_k, s.num_coupons) is Empty) && s.surprising_value_table->0.num_items == 0 ==> s.tbl() =~= ISet::<u32>::empty(),
  ensures
    /*@C11.cpc.coder_image_valid*/ image_valid(c2, s.lg_k, s.num_coupons),
    /*@C11.cpc.coder_roundtrip_table*/ decoded_as(r, c2, s.lg_k, s.num_coupons) && !(flavor_spec(s.lg_k, s.num_coupons) is Empty) ==> r.table.items() =~= s.tbl(),
    /*@C11.cpc.coder_roundtrip_window*/ decoded_as(r, c2, s.lg_k, s.num_coupons) && !(flavor_spec(s.lg_k, s.num_coupons) is Empty) ==> r.window@ =~= s.sliding_window@,
    decoded_as(r, c2, s.lg_k, s.num_coupons) && flavor_spec(s.lg_k, s.num_coupons) is Empty ==> r.window@.len() == 0 && r.table.items() =~= ISet::<u32>::empty(),
{
    let lg_k = s.lg_k; let nc = s.num_coupons; let fl = flavor_spec(lg_k, nc); let k = k_of(lg_k);
    let phase = pseudo_phase_spec(lg_k, nc); let w = s.sliding_window@; let tbl = s.tbl();
    lemma_k_bound(lg_k); lemma_phase_range(lg_k, nc);
    lemma_words_bits_len(c2.table_data@); lemma_words_bits_len(c2.window_data@);
    if fl is Sparse {
        lemma_table_image_roundtrip(c2, lg_k, tbl);
        let pairs = choose|pairs: Seq<u32>| #[trigger] sorted_items(pairs, tbl) && pairs.len() == c2.table_num_entries && pairs.len() >= 1
            && is_pairs_image(c2.table_data@, golomb_nbb(k_of(lg_k) + pairs.len(), pairs.len() as int), pairs);
        lemma_nbb_bound(k, pairs.len() as int);
        lemma_image_nonempty(c2.table_data@, golomb_nbb(k + pairs.len(), pairs.len() as int), pairs);
        if decoded_as(r, c2, lg_k, nc) {
            assert forall|x: u32| r.table.items().contains(x) <==> tbl.contains(x) by { assert(c2.table_decoded(lg_k).contains(x) <==> tbl.contains(x)); }
        }
    } else if fl is Hybrid {
        let hs = hybrid_set(tbl, w);
        assert forall|x: u32| #[trigger] hs.contains(x) implies (x >> 6) < k && x != EMPTY by {
            if !tbl.contains(x) { assert(win_pairs(w).contains(x)); assert((x & 63) < 8 ==> x != 0xffff_ffffu32) by (bit_vector); }
        }
        lemma_table_image_roundtrip(c2, lg_k, hs);
        let pairs = choose|pairs: Seq<u32>| #[trigger] sorted_items(pairs, hs) && pairs.len() == c2.table_num_entries && pairs.len() >= 1
            && is_pairs_image(c2.table_data@, golomb_nbb(k_of(lg_k) + pairs.len(), pairs.len() as int), pairs);
        lemma_nbb_bound(k, pairs.len() as int);
        lemma_image_nonempty(c2.table_data@, golomb_nbb(k + pairs.len(), pairs.len() as int), pairs);
        if decoded_as(r, c2, lg_k, nc) {
            let d = c2.table_decoded(lg_k);
            assert forall|x: u32| r.table.items().contains(x) <==> tbl.contains(x) by {
                assert(d.contains(x) <==> hs.contains(x));
                if tbl.contains(x) { assert(!(0 <= (x & 63) < 0 + 8)); }
            }
            assert forall|row: int| 0 <= row < k implies r.window@[row] == w[row] by {
                assert forall|col: int| 0 <= col < 8 implies bit8(r.window@[row], col) == bit8(w[row], col) by {
                    let x = rc(row, col); lemma_rc_parts2(row, col);
                    assert(wbit(r.window@, row, col) <==> d.contains(x));
                    assert(d.contains(x) <==> hs.contains(x));
                    if tbl.contains(x) { assert(!(0 <= (x & 63) < 0 + 8)); }
                    assert(win_pairs(w).contains(x) <==> bit8(w[row], col));
                }
                lemma_byte_ext(r.window@[row], w[row]);
            }
        }
    } else if fl is Pinned || fl is Sliding {
        lemma_window_image_roundtrip(c2.window_data@, phase, w);
        assert(c2.window_data@.len() > 0);
        let n_tbl = s.surprising_value_table->0.num_items;
        if n_tbl > 0 {
            if fl is Pinned {
                assert forall|x: u32| #[trigger] tbl.contains(x) implies (x & 63) >= 8 by { assert(!(0 <= (x & 63) < 0 + 8)); assert((x & 63) >= 0) by (bit_vector); }
                lemma_pinned_table_roundtrip(c2, lg_k, tbl);
                let sh = shift_cols(tbl);
                let pairs = choose|pairs: Seq<u32>| #[trigger] sorted_items(pairs, sh) && pairs.len() == c2.table_num_entries && pairs.len() >= 1
                    && is_pairs_image(c2.table_data@, golomb_nbb(k_of(lg_k) + pairs.len(), pairs.len() as int), pairs);
                lemma_nbb_bound(k, pairs.len() as int);
                lemma_image_nonempty(c2.table_data@, golomb_nbb(k + pairs.len(), pairs.len() as int), pairs);
            } else {
                lemma_sliding_table_roundtrip(c2, lg_k, tbl, s.window_offset, phase);
                let sl = slide_set(tbl, s.window_offset, perm_enc(phase));
                let pairs = choose|pairs: Seq<u32>| #[trigger] sorted_items(pairs, sl) && pairs.len() == c2.table_num_entries && pairs.len() >= 1
                    && is_pairs_image(c2.table_data@, golomb_nbb(k_of(lg_k) + pairs.len(), pairs.len() as int), pairs);
                lemma_nbb_bound(k, pairs.len() as int);
                lemma_image_nonempty(c2.table_data@, golomb_nbb(k + pairs.len(), pairs.len() as int), pairs);
            }
        }
    }
}
}
fn main(){}
