use vstd::prelude::*;
use vstd::seq_lib::*;
use vstd::std_specs::cmp::*;
use vstd::iset::*;
use vstd::arithmetic::power2::*;
use std::hash::Hash;
verus! {
global size_of usize == 8;
// =====================================================================================================================
// C04 / C01 at the sketch level: theta/sketch.rs non-codec methods.  The hash table is used BY CONTRACT: the specs and
// the contracts of its methods below are copied from contracts/theta_table.rs, where the real bodies are verified.
// =====================================================================================================================

// ---------------- float model (same vocabulary as contracts/theta_bounds.rs) ----------------
pub uninterp spec fn fnan(x: f64) -> bool;
pub uninterp spec fn fle(a: f64, b: f64) -> bool;        // IEEE `a <= b`
pub uninterp spec fn u64_to_f64(n: u64) -> f64;          // n as f64
pub uninterp spec fn fdiv(a: f64, b: f64) -> f64;        // a / b
pub uninterp spec fn theta_ok(t: f64) -> bool;           // 0 < t <= 1
pub uninterp spec fn fzero() -> f64;                     // 0.0
pub uninterp spec fn fone() -> f64;                      // 1.0
// theta as a fraction: t as f64 / MAX_THETA as f64
spec fn theta_frac(t: u64) -> f64 { fdiv(u64_to_f64(t), u64_to_f64(MAX_THETA)) }

// KX float leaves (each a closed fact about IEEE doubles, to be discharged by a Kani harness)
// Discharged by kani/leaves_theta_float.rs (appended to theta/hash_table.rs): leaf_theta_frac_ok, leaf_theta_frac_one, leaf_theta_div_one,
// leaf_theta_zero, leaf_theta_zero_div, leaf_theta_fle_refl, leaf_theta_usize_as_f64 (shim vx_usize_as_f64) - 7/7 SUCCESSFUL, complete, < 1 s each.
// (t as f64) / (2^63-1 as f64) lies in (0, 1] for 1 <= t <= 2^63-1
#[verifier::external_body] proof fn leaf_theta_frac_ok(t: u64)
  requires 0 < t <= MAX_THETA ensures theta_ok(theta_frac(t)), !fnan(theta_frac(t)) {}
// x / x == 1.0 for x = MAX_THETA as f64
#[verifier::external_body] proof fn leaf_theta_frac_one()
  ensures theta_frac(MAX_THETA) == fone() {}
// (n as f64) / 1.0 is n as f64, bit for bit
#[verifier::external_body] proof fn leaf_div_one(n: u64)
  ensures fdiv(u64_to_f64(n), fone()) == u64_to_f64(n) {}
// 0u64 as f64 is the literal 0.0
#[verifier::external_body] proof fn leaf_zero()
  ensures u64_to_f64(0) == fzero() {}
// 0.0 / t is 0.0 for 0 < t <= 1
#[verifier::external_body] proof fn leaf_zero_div(t: f64)
  requires theta_ok(t) ensures fdiv(fzero(), t) == fzero() {}
// n as f64 is not NaN, so it is <= itself
#[verifier::external_body] proof fn leaf_fle_refl(n: u64)
  ensures fle(u64_to_f64(n), u64_to_f64(n)) {}

// shims: the body IS the replaced expression
#[verifier::external_body] fn vx_usize_as_f64(n: usize) -> (r: f64) ensures r == u64_to_f64(n as u64) { n as f64 }
#[verifier::external_body] fn vx_fdiv(a: f64, b: f64) -> (r: f64) ensures r == fdiv(a, b) { a / b }
#[verifier::external_body] fn vx_fzero() -> (r: f64) ensures r == fzero() { 0.0 }
#[verifier::external_body] fn vx_theta_frac(t: u64) -> (r: f64) ensures r == theta_frac(t) { t as f64 / MAX_THETA as f64 }

enum NumStdDev {
One = 1 , Two = 2 , Three = 3 , }



#[derive(Debug)]
struct Error { k: u8 }

// ---------------- common/binomial_bounds.rs by contract: the clauses proved in contracts/theta_bounds.rs ----------------
#[verifier::external_body]
fn lower_bound(num_samples: u64, theta: f64, num_std_dev: NumStdDev) -> (r: Result<f64, Error>)
  ensures !fnan(theta) ==> (r matches Ok(lb) ==> fle(lb, fdiv(u64_to_f64(num_samples), theta))),
          theta_ok(theta) ==> r is Ok,
{ unimplemented!() }
#[verifier::external_body]
fn upper_bound(num_samples: u64, theta: f64, num_std_dev: NumStdDev, no_data_seen: bool) -> (r: Result<f64, Error>)
  ensures (!no_data_seen && !fnan(theta)) ==> (r matches Ok(ub) ==> fle(fdiv(u64_to_f64(num_samples), theta), ub)),
          no_data_seen ==> r == Ok::<f64, Error>(fzero()),
          (no_data_seen || theta_ok(theta)) ==> r is Ok,
{ unimplemented!() }

// ---------------- theta/hash_table.rs: specs copied from contracts/theta_table.rs ----------------
const MAX_THETA : u64 = i64 :: MAX as u64 ;



spec fn probe_at(p0: int, s: int, j: int, size: int) -> int { (p0 + j * s) % size }
spec fn occ64(es: Seq<u64>) -> Set<int> { Set::range(0, es.len() as int).filter(|i: int| es[i] != 0) }
spec fn stride_spec(key: u64, lg_size: u8) -> int { (2 * ((key >> (lg_size as u64)) & 127) + 1) as int }
spec fn home(key: u64, len: int) -> int { ((key as usize) & ((len - 1) as usize)) as int }
spec fn zero_free(es: Seq<u64>, key: u64, n: u8, j: int) -> bool {
    forall|t: int| 0 <= t < j ==> es[#[trigger] probe_at(home(key, es.len() as int), stride_spec(key, n), t, es.len() as int)] != 0
}
spec fn no_dup(es: Seq<u64>) -> bool {
    forall|i: int, j: int| 0 <= i < es.len() && 0 <= j < es.len() && i != j && es[i] != 0 ==> es[i] != es[j]
}
spec fn reach_at(es: Seq<u64>, n: u8, i: int) -> bool {
    exists|j: int| 0 <= j < es.len() && i == probe_at(home(es[i], es.len() as int), stride_spec(es[i], n), j, es.len() as int) && #[trigger] zero_free(es, es[i], n, j)
}
spec fn reach(es: Seq<u64>, n: u8) -> bool {
    forall|i: int| 0 <= i < es.len() && es[i] != 0 ==> #[trigger] reach_at(es, n, i)
}
spec fn tbl_ok(es: Seq<u64>, n: u8) -> bool {
    n < 32 && es.len() == pow2(n as nat) && no_dup(es) && reach(es, n)
}
spec fn holds(es: Seq<u64>, key: u64) -> bool { exists|i: int| 0 <= i < es.len() && es[i] == key }

spec fn vals(es: Seq<u64>) -> ISet<u64> { ISet::new(|c: u64| c != 0 && holds(es, c)) }
spec fn cap_spec(lg_cur: u8, lg_nom: u8) -> int {
    if lg_cur <= lg_nom { pow2(lg_cur as nat) as int / 2 } else { pow2(lg_cur as nat) as int * 15 / 16 }
}
spec fn nonzero_seq(es: Seq<u64>) -> Seq<u64> { es.filter(|e: u64| e != 0) }
proof fn lemma_filter_facts(es: Seq<u64>)
  requires no_dup(es)
  ensures
    forall|a: int| 0 <= a < nonzero_seq(es).len() ==> nonzero_seq(es)[a] != 0 && holds(es, #[trigger] nonzero_seq(es)[a]),
    forall|c: u64| c != 0 && holds(es, c) ==> nonzero_seq(es).contains(c),
    nonzero_seq(es).no_duplicates(),
{
    let p = |e: u64| e != 0;
    let f = es.filter(p);
    assert forall|a: int| 0 <= a < f.len() implies f[a] != 0 && holds(es, #[trigger] f[a]) by {
        es.lemma_filter_pred(p, a);
        es.lemma_filter_contains_rev(p, f[a]);
    }
    assert forall|c: u64| c != 0 && holds(es, c) implies f.contains(c) by {
        let i = choose|i: int| 0 <= i < es.len() && es[i] == c;
        es.lemma_filter_contains(p, i);
    }
    lemma_filter_nodup(es);
}
proof fn lemma_filter_nodup(es: Seq<u64>)
  requires no_dup(es)
  ensures nonzero_seq(es).no_duplicates()
  decreases es.len()
{
    let p = |e: u64| e != 0;
    reveal(Seq::filter);
    if es.len() > 0 {
        let d = es.drop_last();
        assert(no_dup(d));
        lemma_filter_nodup(d);
        let sub = d.filter(p);
        if p(es.last()) {
            assert(es.filter(p) =~= sub.push(es.last()));
            assert(!sub.contains(es.last())) by {
                if sub.contains(es.last()) {
                    d.lemma_filter_contains_rev(p, es.last());
                    let i = choose|i: int| 0 <= i < d.len() && d[i] == es.last();
                    assert(es[i] == es[es.len() - 1]);
                }
            }
            assert(sub.push(es.last()).no_duplicates()) by {
                assert forall|a: int, b: int| 0 <= a < sub.len() + 1 && 0 <= b < sub.len() + 1 && a != b implies sub.push(es.last())[a] != sub.push(es.last())[b] by {
                    if a == sub.len() { assert(sub.contains(sub[b])); }
                    else if b == sub.len() { assert(sub.contains(sub[a])); }
                }
            }
        } else {
            assert(es.filter(p) =~= sub);
        }
    }
}

proof fn lemma_filter_len_occ(es: Seq<u64>)
  ensures nonzero_seq(es).len() == occ64(es).len()
  decreases es.len()
{
    let p = |e: u64| e != 0;
    reveal(Seq::filter);
    if es.len() == 0 {
        assert(occ64(es) =~= Set::<int>::empty());
    } else {
        let d = es.drop_last();
        lemma_filter_len_occ(d);
        let n = es.len() - 1;
        if p(es.last()) {
            assert(es.filter(p) =~= d.filter(p).push(es.last()));
            assert(occ64(es) =~= occ64(d).insert(n));
            assert(!occ64(d).contains(n));
        } else {
            assert(es.filter(p) =~= d.filter(p));
            assert(occ64(es) =~= occ64(d));
        }
    }
}
spec fn ssm_spec(lg_target: u8, lg_min: u8, lg_rf: u8) -> u8 {
    if lg_target <= lg_min { lg_min } else if lg_rf == 0 { lg_target } else { (((lg_target - lg_min) % (lg_rf as int)) + lg_min) as u8 }
}
spec fn init_lg(lg_nom: u8, rf: ResizeFactor) -> u8 { ssm_spec((lg_nom + 1) as u8, 5, rf.lg()) }
spec fn same_config(a: ThetaHashTable, b: ThetaHashTable) -> bool {
    a.lg_nom_size == b.lg_nom_size && a.lg_max_size == b.lg_max_size && a.resize_factor == b.resize_factor
    && a.sampling_probability == b.sampling_probability && a.hash_seed == b.hash_seed
}
// 15/16 of 2k
spec fn max_load(lg_nom: u8) -> int { pow2((lg_nom + 1) as nat) as int * 15 / 16 }

uninterp spec fn theta0_spec(p: f32) -> u64;
uninterp spec fn hash_spec<T>(seed: u64, v: T) -> u64;
uninterp spec fn seed_hash_spec(seed: u64) -> u16;

#[derive(Clone, Copy)]
enum ResizeFactor { X1, X2, X4, X8 }
impl ResizeFactor {
    fn lg_value ( self ) -> ( r : u8 ) ensures r == self . lg ( ) {
match self {
ResizeFactor :: X1 => 0 , ResizeFactor :: X2 => 1 , ResizeFactor :: X4 => 2 , ResizeFactor :: X8 => 3 , }
}

    spec fn lg(self) -> u8 { match self { ResizeFactor::X1 => 0u8, ResizeFactor::X2 => 1u8, ResizeFactor::X4 => 2u8, ResizeFactor::X8 => 3u8 } }
}
struct ThetaHashTable {
lg_cur_size : u8 , lg_nom_size : u8 , lg_max_size : u8 , resize_factor : ResizeFactor , sampling_probability : f32 , hash_seed : u64 , theta : u64 , entries : Vec < u64 > , num_entries : usize , }





impl ThetaHashTable {
    spec fn wf(&self) -> bool {
        &&& 5 <= self.lg_cur_size <= self.lg_max_size
        &&& self.lg_max_size == self.lg_nom_size + 1
        &&& self.lg_max_size <= 27
        &&& tbl_ok(self.entries@, self.lg_cur_size)
        &&& self.num_entries == occ64(self.entries@).len()
        &&& self.num_entries <= cap_spec(self.lg_cur_size, self.lg_nom_size)
        &&& forall|i: int| 0 <= i < self.entries@.len() ==> self.entries@[i] < self.theta || self.entries@[i] == 0
        &&& (self.lg_cur_size <= self.lg_nom_size ==> self.resize_factor.lg() > 0)
        &&& self.theta <= MAX_THETA
    }
    // the state `new` builds and `reset` restores
    spec fn is_initial(&self) -> bool {
        &&& self.lg_cur_size == init_lg(self.lg_nom_size, self.resize_factor)
        &&& self.lg_max_size == self.lg_nom_size + 1
        &&& self.entries@.len() == pow2(self.lg_cur_size as nat)
        &&& (forall|i: int| 0 <= i < self.entries@.len() ==> self.entries@[i] == 0)
        &&& self.num_entries == 0
        &&& self.theta == theta0_spec(self.sampling_probability)
    }


    // ---- contracts of the table methods (verified on the real bodies in unit theta_table) ----
    #[verifier::external_body]
    fn hash_and_screen<T: Hash>(&mut self, value: T) -> (r: u64)
      ensures *final(self) == *old(self),
        r == (if (hash_spec(old(self).hash_seed, value) >> 1) < old(self).theta { hash_spec(old(self).hash_seed, value) >> 1 } else { 0 }),
        r != 0 ==> r < old(self).theta,
    { unimplemented!() }

    #[verifier::external_body]
    fn try_insert(&mut self, hash: u64) -> (r: bool)
      requires old(self).wf(), hash < old(self).theta
      ensures final(self).wf(), same_config(*final(self), *old(self)), 0 < final(self).theta <= old(self).theta,
        hash == 0 ==> !r && final(self).entries@ == old(self).entries@ && final(self).theta == old(self).theta && final(self).num_entries == old(self).num_entries,
        hash != 0 ==> r == !holds(old(self).entries@, hash),
        hash != 0 ==> vals(final(self).entries@) == vals(old(self).entries@).insert(hash).filter(|c: u64| c < final(self).theta),
        final(self).num_entries <= max_load(final(self).lg_nom_size),
    { unimplemented!() }

    #[verifier::external_body]
    fn trim(&mut self)
      requires old(self).wf()
      ensures final(self).wf(), same_config(*final(self), *old(self)),
        final(self).theta <= old(self).theta && (old(self).theta > 0 ==> final(self).theta > 0),
        vals(final(self).entries@) == vals(old(self).entries@).filter(|c: u64| c < final(self).theta),
        final(self).num_entries == (if old(self).num_entries <= pow2(old(self).lg_nom_size as nat) { old(self).num_entries as int } else { pow2(old(self).lg_nom_size as nat) as int }),
        final(self).num_entries <= pow2(final(self).lg_nom_size as nat),
        old(self).num_entries <= pow2(old(self).lg_nom_size as nat) ==> final(self).entries@ == old(self).entries@ && final(self).theta == old(self).theta,
    { unimplemented!() }

    #[verifier::external_body]
    fn reset(&mut self)
      requires old(self).wf()
      ensures final(self).wf(), same_config(*final(self), *old(self)), final(self).is_initial(),
        forall|c: u64| !vals(final(self).entries@).contains(c),
    { unimplemented!() }

    #[verifier::external_body]
    fn num_entries(&self) -> (r: usize)
      ensures r == self.num_entries, self.wf() ==> r <= max_load(self.lg_nom_size),
    { unimplemented!() }

    #[verifier::external_body]
    fn theta(&self) -> (r: u64) ensures r == self.theta { unimplemented!() }

    #[verifier::external_body]
    fn is_empty(&self) -> (r: bool)
      ensures r == (self.num_entries == 0), self.wf() ==> (r <==> forall|c: u64| !vals(self.entries@).contains(c)),
    { unimplemented!() }

    #[verifier::external_body]
    fn lg_nom_size(&self) -> (r: u8) ensures r == self.lg_nom_size { unimplemented!() }

    // entries.iter().copied().filter(|&e| e != 0): iterator leaf; ASSUMED to yield the non-zero slots in slot order
    #[verifier::external_body]
    fn iter(&self) -> (r: impl Iterator<Item = u64> + '_) ensures iter_items(r) == nonzero_seq(self.entries@) { self.entries.iter().copied().filter(|e: &u64| *e != 0) }

    // compute_seed_hash(self.hash_seed): a hash leaf (C16)
    #[verifier::external_body]
    fn seed_hash(&self) -> (r: u16) ensures r == seed_hash_spec(self.hash_seed) { unimplemented!() }
}

// the sequence an iterator will yield (iterators are leaves here)
pub uninterp spec fn iter_items<I>(it: I) -> Seq<u64>;
// common/mod.rs canonical_double (float leaf: NaN -> 0x7ff8000000000000, -0.0 -> +0.0, else to_bits): opaque
pub uninterp spec fn canon_spec(v: f64) -> u64;
#[verifier::external_body]
fn canonical_double(value: f64) -> (r: u64) ensures r == canon_spec(value) { unimplemented!() }
// `value as f64` for an f32 (R15 float leaf)
pub uninterp spec fn f32_to_f64(v: f32) -> f64;
#[verifier::external_body]
fn vx_f32_as_f64(value: f32) -> (r: f64) ensures r == f32_to_f64(value) { value as f64 }

const DEFAULT_LG_K : u8 = 12 ;

const DEFAULT_UPDATE_SEED : u64 = 9001 ;

struct ThetaSketchBuilder {
lg_k : u8 , resize_factor : ResizeFactor , sampling_probability : f32 , seed : u64 , }

const MIN_LG_K : u8 = 5 ;

const MAX_LG_K : u8 = 26 ;

// R12b: a DOCUMENTED panic ("# Panics: if lg_k is not in range [5, 26]" / "if p is not in range (0.0, 1.0]") is modelled as 'returns only
// if the condition holds': the condition is a tagged POSTCONDITION (`*_validated`) instead of a precondition, so weakening or removing
// the check is noticed.  Body = the original statement.
#[verifier::external_body] fn vx_documented_panic(c: bool) ensures c { assert!(c); }
// the documented range of sampling_probability, (0.0, 1.0] (f32 comparisons stay uninterpreted: R15 float leaf)
pub uninterp spec fn p_ok(p: f32) -> bool;
#[verifier::external_body]
fn vx_p_in_range(probability: f32) -> (r: bool) ensures r == p_ok(probability) { (0.0..=1.0).contains(&probability) && probability > 0.0 }
// R21: the setters take `mut self`; `self.f = v; self` is the functional update (verified here, not assumed)
fn vx_with_lg_k(b: ThetaSketchBuilder, lg_k: u8) -> (r: ThetaSketchBuilder)
  ensures r.lg_k == lg_k, r.resize_factor == b.resize_factor, r.sampling_probability == b.sampling_probability, r.seed == b.seed
{ let mut b = b; b.lg_k = lg_k; b }
fn vx_with_sampling_probability(b: ThetaSketchBuilder, probability: f32) -> (r: ThetaSketchBuilder)
  ensures r.lg_k == b.lg_k, r.resize_factor == b.resize_factor, r.sampling_probability == probability, r.seed == b.seed
{ let mut b = b; b.sampling_probability = probability; b }

impl ThetaSketchBuilder {
    // the documented defaults (closed: the ensures of a trait method must be visible to every caller)
    pub closed spec fn is_default(&self) -> bool {
        self.lg_k == 12 && self.resize_factor is X8 && self.sampling_probability == 1.0f32 && self.seed == 9001
    }

    fn lg_k ( self , lg_k : u8 ) -> ( r : Self ) ensures
/*@C04.builder.lg_k_validated*/ 5 <= lg_k <= 26 ,
/*@C04.builder.lg_k_set*/ r . lg_k == lg_k && r . resize_factor == self . resize_factor && r . sampling_probability == self . sampling_probability && r . seed == self . seed , {
vx_documented_panic ( ( MIN_LG_K ..= MAX_LG_K ) . contains ( & lg_k ) ) ;
assert ( /*@C04.builder.lg_k_validated*/ 5 <= lg_k <= 26 ) ;
vx_with_lg_k ( self , lg_k ) }


    fn sampling_probability ( self , probability : f32 ) -> ( r : Self ) ensures
/*@C04.builder.sampling_probability_validated*/ p_ok ( probability ) ,
/*@C04.builder.sampling_probability_set*/ r . lg_k == self . lg_k && r . resize_factor == self . resize_factor && r . sampling_probability == probability && r . seed == self . seed , {
vx_documented_panic ( vx_p_in_range ( probability ) ) ;
vx_with_sampling_probability ( self , probability ) }

}
impl Default for ThetaSketchBuilder {
    fn default ( ) -> ( r : Self ) ensures
/*@C04.builder_defaults*/ r . is_default ( ) {
Self {
lg_k : DEFAULT_LG_K , resize_factor : ResizeFactor :: X8 , sampling_probability : 1.0 , seed : DEFAULT_UPDATE_SEED , }
}

}


// `self.iter().collect()`: ThetaSketch::iter = table.iter() = entries.iter().copied().filter(|&e| e != 0)   (iterator leaf)
#[verifier::external_body]
fn vx_collect(s: &ThetaSketch) -> (r: Vec<u64>)
  ensures r@ == nonzero_seq(s.table.entries@)
{ unimplemented!() /* s.iter().collect() */ }

pub assume_specification<T: Ord> [ <[T]>::sort_unstable ] (s: &mut [T])
  ensures final(s)@.to_multiset() == old(s)@.to_multiset(),
    T::obeys_cmp_spec() ==> forall|i: int, j: int| #![trigger final(s)@[i], final(s)@[j]] 0 <= i < j < final(s)@.len() ==> final(s)@[i].cmp_spec(&final(s)@[j]) != core::cmp::Ordering::Greater;

// ---------------- sketch-level views ----------------
spec fn sorted_strict(s: Seq<u64>) -> bool { forall|i: int, j: int| 0 <= i < j < s.len() ==> s[i] < s[j] }
// KMV: the retained set is exactly the offered non-zero hashes below theta
spec fn kmv(offered: ISet<u64>, es: Seq<u64>, theta: u64) -> bool {
    forall|c: u64| vals(es).contains(c) <==> (offered.contains(c) && c != 0 && c < theta)
}
// a sort keeps the set of elements and distinctness
proof fn lemma_perm_set(a: Seq<u64>, b: Seq<u64>)
  requires a.to_multiset() == b.to_multiset(), b.no_duplicates()
  ensures a.no_duplicates(), a.len() == b.len(), forall|c: u64| a.contains(c) <==> b.contains(c)
{
    b.lemma_multiset_has_no_duplicates();
    a.lemma_multiset_has_no_duplicates_conv();
    a.to_multiset_ensures();
    b.to_multiset_ensures();
    assert forall|c: u64| a.contains(c) <==> b.contains(c) by {
        assert(a.contains(c) <==> a.to_multiset().count(c) > 0);
        assert(b.contains(c) <==> b.to_multiset().count(c) > 0);
    }
}

struct ThetaSketch {
table : ThetaHashTable , }



struct CompactThetaSketch {
entries : Vec < u64 > , theta : u64 , seed_hash : u16 , ordered : bool , empty : bool , }



impl ThetaSketch {
    // table invariant + "theta in (0,1]" (ThetaSketchBuilder asserts sampling_probability in (0,1]; see report: p = 1e-20 gives theta 0)
    spec fn wf(&self) -> bool {
        &&& self.table.wf()
        &&& 0 < self.table.theta
        &&& 0 < theta0_spec(self.table.sampling_probability)
    }
    spec fn n64(&self) -> u64 { self.table.num_entries as u64 }
    spec fn est_spec(&self) -> f64 {
        if self.table.num_entries == 0 { fzero() } else { fdiv(u64_to_f64(self.n64()), theta_frac(self.table.theta)) }
    }

    fn update < T : Hash > ( & mut self , value : T ) requires old ( self ) . wf ( ) ensures final ( self ) . wf ( ) , same_config ( final ( self ) . table , old ( self ) . table ) ,
/*@C04.update.theta*/ final ( self ) . table . theta <= old ( self ) . table . theta ,
/*@C04.update.kmv*/ forall | offered : ISet < u64 > | kmv ( offered , old ( self ) . table . entries @ , old ( self ) . table . theta ) ==> # [ trigger ] kmv ( offered . insert ( hash_spec ( old ( self ) . table . hash_seed , value ) >> 1 ) , final ( self ) . table . entries @ , final ( self ) . table . theta ) ,
/*@C18.theta.load*/ final ( self ) . table . num_entries <= max_load ( final ( self ) . table . lg_nom_size ) , {
let ghost h63 = hash_spec ( self . table . hash_seed , value ) >> 1 ;
let ghost es0 = self . table . entries @ ;
let ghost th0 = self . table . theta ;
proof {
lemma_cap_le_max_load ( self . table . lg_cur_size , self . table . lg_nom_size ) ;
}
let hash = self . table . hash_and_screen ( value ) ;
if hash != 0 {
self . table . try_insert ( hash ) ;
}
proof {
let es1 = self . table . entries @ ;
let th1 = self . table . theta ;
assert forall | offered : ISet < u64 > | kmv ( offered , es0 , th0 ) implies # [ trigger ] kmv ( offered . insert ( h63 ) , es1 , th1 ) by {
assert forall | c : u64 | vals ( es1 ) . contains ( c ) <==> ( offered . insert ( h63 ) . contains ( c ) && c != 0 && c < th1 ) by {
if hash != 0 {
assert ( vals ( es1 ) . contains ( c ) <==> vals ( es0 ) . insert ( hash ) . filter ( | c : u64 | c < th1 ) . contains ( c ) ) ;
}
else {
assert ( vals ( es0 ) . contains ( c ) ==> c < th0 ) by {
if vals ( es0 ) . contains ( c ) {
let i = choose | i : int | 0 <= i < es0 . len ( ) && es0 [ i ] == c ;
}
}
}
}
}
}
}



    fn builder ( ) -> ( r : ThetaSketchBuilder ) ensures
/*@C04.builder_defaults*/ r . is_default ( ) {
ThetaSketchBuilder :: default ( ) }


    // wrappers: update of the canonical bit pattern
    fn update_f64 ( & mut self , value : f64 ) requires old ( self ) . wf ( ) ensures final ( self ) . wf ( ) , same_config ( final ( self ) . table , old ( self ) . table ) ,
/*@C04.update.theta*/ final ( self ) . table . theta <= old ( self ) . table . theta ,
/*@C04.update_f64.canonical*/ forall | offered : ISet < u64 > | kmv ( offered , old ( self ) . table . entries @ , old ( self ) . table . theta ) ==> # [ trigger ] kmv ( offered . insert ( hash_spec ( old ( self ) . table . hash_seed , canon_spec ( value ) ) >> 1 ) , final ( self ) . table . entries @ , final ( self ) . table . theta ) ,
/*@C18.theta.load*/ final ( self ) . table . num_entries <= max_load ( final ( self ) . table . lg_nom_size ) , {
let canonical = canonical_double ( value ) ;
self . update ( canonical ) ;
}


    fn update_f32 ( & mut self , value : f32 ) requires old ( self ) . wf ( ) ensures final ( self ) . wf ( ) , same_config ( final ( self ) . table , old ( self ) . table ) ,
/*@C04.update.theta*/ final ( self ) . table . theta <= old ( self ) . table . theta ,
/*@C04.update_f32.widened*/ forall | offered : ISet < u64 > | kmv ( offered , old ( self ) . table . entries @ , old ( self ) . table . theta ) ==> # [ trigger ] kmv ( offered . insert ( hash_spec ( old ( self ) . table . hash_seed , canon_spec ( f32_to_f64 ( value ) ) ) >> 1 ) , final ( self ) . table . entries @ , final ( self ) . table . theta ) ,
/*@C18.theta.load*/ final ( self ) . table . num_entries <= max_load ( final ( self ) . table . lg_nom_size ) , {
self . update_f64 ( vx_f32_as_f64 ( value ) ) ;
}


    fn iter ( & self ) -> ( r : impl Iterator < Item = u64 > + '_ ) ensures
/*@C04.iter*/ iter_items ( r ) == nonzero_seq ( self . table . entries @ ) {
self . table . iter ( ) }


    fn estimate ( & self ) -> ( r : f64 ) ensures
/*@C04.estimate*/ r == self . est_spec ( ) ,
/*@C01.theta.exact*/ self . table . theta == MAX_THETA ==> r == u64_to_f64 ( self . n64 ( ) ) , {
proof {
leaf_zero ( ) ;
leaf_theta_frac_one ( ) ;
leaf_div_one ( self . n64 ( ) ) ;
}
if self . is_empty ( ) {
return vx_fzero ( ) ;
}
let num_retained = vx_usize_as_f64 ( self . table . num_entries ( ) ) ;
let theta = vx_theta_frac ( self . table . theta ( ) ) ;
vx_fdiv ( num_retained , theta ) }



    fn theta ( & self ) -> ( r : f64 ) ensures r == theta_frac ( self . table . theta ) ,
/*@C01.theta.theta_ok*/ self . wf ( ) ==> theta_ok ( r ) , {
proof {
if self . wf ( ) {
leaf_theta_frac_ok ( self . table . theta ) ;
}
}
vx_theta_frac ( self . table . theta ( ) ) }



    fn theta64 ( & self ) -> ( r : u64 ) ensures r == self . table . theta {
self . table . theta ( ) }



    fn is_empty ( & self ) -> ( r : bool ) ensures r == ( self . table . num_entries == 0 ) ,
/*@C04.is_empty*/ self . table . wf ( ) ==> ( r <==> forall | c : u64 | ! vals ( self . table . entries @ ) . contains ( c ) ) , {
self . table . is_empty ( ) }



    fn is_estimation_mode ( & self ) -> ( r : bool ) ensures r == ( self . table . theta < MAX_THETA ) {
self . table . theta ( ) < MAX_THETA }



    fn num_retained ( & self ) -> ( r : usize ) ensures r == self . table . num_entries ,
/*@C18.theta.load*/ self . table . wf ( ) ==> r <= max_load ( self . table . lg_nom_size ) , {
self . table . num_entries ( ) }



    fn lg_k ( & self ) -> ( r : u8 ) ensures r == self . table . lg_nom_size {
self . table . lg_nom_size ( ) }



    fn trim ( & mut self ) requires old ( self ) . wf ( ) ensures final ( self ) . wf ( ) , same_config ( final ( self ) . table , old ( self ) . table ) ,
/*@C04.trim.theta*/ final ( self ) . table . theta <= old ( self ) . table . theta ,
/*@C04.trim.smallest*/ vals ( final ( self ) . table . entries @ ) == vals ( old ( self ) . table . entries @ ) . filter ( | c : u64 | c < final ( self ) . table . theta ) ,
/*@C04.trim.count*/ final ( self ) . table . num_entries == ( if old ( self ) . table . num_entries <= pow2 ( old ( self ) . table . lg_nom_size as nat ) {
old ( self ) . table . num_entries as int }
else {
pow2 ( old ( self ) . table . lg_nom_size as nat ) as int }
) ,
/*@C18.theta.load*/ final ( self ) . table . num_entries <= pow2 ( final ( self ) . table . lg_nom_size as nat ) ,
/*@C04.trim.kmv*/ forall | offered : ISet < u64 > | kmv ( offered , old ( self ) . table . entries @ , old ( self ) . table . theta ) ==> # [ trigger ] kmv ( offered , final ( self ) . table . entries @ , final ( self ) . table . theta ) , {
let ghost es0 = self . table . entries @ ;
let ghost th0 = self . table . theta ;
self . table . trim ( ) ;
proof {
let es1 = self . table . entries @ ;
let th1 = self . table . theta ;
assert forall | offered : ISet < u64 > | kmv ( offered , es0 , th0 ) implies # [ trigger ] kmv ( offered , es1 , th1 ) by {
assert forall | c : u64 | vals ( es1 ) . contains ( c ) <==> ( offered . contains ( c ) && c != 0 && c < th1 ) by {
assert ( vals ( es1 ) . contains ( c ) <==> vals ( es0 ) . filter ( | c : u64 | c < th1 ) . contains ( c ) ) ;
}
}
}
}



    fn reset ( & mut self ) requires old ( self ) . wf ( ) ensures final ( self ) . wf ( ) , same_config ( final ( self ) . table , old ( self ) . table ) ,
/*@C04.reset.initial*/ final ( self ) . table . is_initial ( ) ,
/*@C04.reset.empty*/ forall | c : u64 | ! vals ( final ( self ) . table . entries @ ) . contains ( c ) ,
/*@C04.reset.kmv*/ kmv ( ISet :: empty ( ) , final ( self ) . table . entries @ , final ( self ) . table . theta ) , {
self . table . reset ( ) ;
}



    fn compact ( & self , ordered : bool ) -> ( r : CompactThetaSketch ) requires self . wf ( ) ensures r . wf ( ) ,
/*@C04.compact.entries*/ r . entries @ . no_duplicates ( ) && r . entries @ . len ( ) == self . table . num_entries && ( forall | c : u64 | r . entries @ . contains ( c ) <==> vals ( self . table . entries @ ) . contains ( c ) ) ,
/*@C04.compact.sorted*/ r . ordered ==> sorted_strict ( r . entries @ ) ,
/*@C04.compact.ordered_flag*/ ordered ==> r . ordered ,
/*@C04.compact.empty*/ r . empty == ( self . table . num_entries == 0 ) ,
/*@C04.compact.theta*/ ! r . empty ==> r . theta == self . table . theta ,
/*@C04.compact.theta_empty*/ r . empty ==> r . theta == MAX_THETA ,
/*@C04.compact.estimate*/ r . est_spec ( ) == self . est_spec ( ) , r . seed_hash == seed_hash_spec ( self . table . hash_seed ) , {
let mut entries : Vec < u64 > = vx_collect ( self ) ;
let ghost es = self . table . entries @ ;
let ghost cs = entries @ ;
proof {
leaf_theta_frac_one ( ) ;
leaf_div_one ( self . n64 ( ) ) ;
lemma_filter_facts ( es ) ;
lemma_filter_len_occ ( es ) ;
assert forall | c : u64 | cs . contains ( c ) <==> vals ( es ) . contains ( c ) by {
if cs . contains ( c ) {
let a = choose | a : int | 0 <= a < cs . len ( ) && cs [ a ] == c ;
}
}
}
let empty = entries . is_empty ( ) ;
let theta = if empty {
MAX_THETA }
else {
self . table . theta ( ) }
;
let is_single = entries . len ( ) == 1 && theta == MAX_THETA ;
let ordered = ordered || empty || is_single ;
if ordered && entries . len ( ) > 1 {
entries . sort_unstable ( ) ;
proof {
lemma_perm_set ( entries @ , cs ) ;
assert forall | i : int , j : int | 0 <= i < j < entries @ . len ( ) implies entries @ [ i ] < entries @ [ j ] by {
assert ( OrdSpec :: cmp_spec ( & entries @ [ i ] , & entries @ [ j ] ) != core :: cmp :: Ordering :: Greater ) ;
}
}
}
proof {
assert forall | i : int | 0 <= i < entries @ . len ( ) implies entries @ [ i ] != 0 && entries @ [ i ] < theta by {
assert ( entries @ . contains ( entries @ [ i ] ) ) ;
assert ( vals ( es ) . contains ( entries @ [ i ] ) ) ;
let q = choose | q : int | 0 <= q < es . len ( ) && es [ q ] == entries @ [ i ] ;
}
}
CompactThetaSketch {
entries , theta , seed_hash : self . table . seed_hash ( ) , ordered , empty , }
}



    fn lower_bound ( & self , num_std_dev : NumStdDev ) -> ( r : f64 ) requires self . wf ( ) ensures
/*@C01.theta.bracket*/ fle ( r , self . est_spec ( ) ) ,
/*@C01.theta.exact*/ self . table . theta == MAX_THETA ==> r == u64_to_f64 ( self . n64 ( ) ) , {
proof {
leaf_zero ( ) ;
leaf_theta_frac_one ( ) ;
leaf_div_one ( self . n64 ( ) ) ;
leaf_fle_refl ( self . n64 ( ) ) ;
leaf_theta_frac_ok ( self . table . theta ) ;
leaf_zero_div ( theta_frac ( self . table . theta ) ) ;
}
if ! self . is_estimation_mode ( ) {
return vx_usize_as_f64 ( self . num_retained ( ) ) ;
}
lower_bound ( self . num_retained ( ) as u64 , self . theta ( ) , num_std_dev ) . expect ( "" ) }



    fn upper_bound ( & self , num_std_dev : NumStdDev ) -> ( r : f64 ) requires self . wf ( ) ensures
/*@C01.theta.bracket*/ fle ( self . est_spec ( ) , r ) ,
/*@C01.theta.exact*/ self . table . theta == MAX_THETA ==> r == u64_to_f64 ( self . n64 ( ) ) , {
proof {
leaf_zero ( ) ;
leaf_theta_frac_one ( ) ;
leaf_div_one ( self . n64 ( ) ) ;
leaf_fle_refl ( self . n64 ( ) ) ;
leaf_theta_frac_ok ( self . table . theta ) ;
}
if ! self . is_estimation_mode ( ) {
return vx_usize_as_f64 ( self . num_retained ( ) ) ;
}
upper_bound ( self . num_retained ( ) as u64 , self . theta ( ) , num_std_dev , self . is_empty ( ) , ) . expect ( "" ) }


}

impl CompactThetaSketch {
    // what compact() and the deserializers must establish
    spec fn wf(&self) -> bool {
        &&& 0 < self.theta <= MAX_THETA
        &&& (self.empty ==> self.entries@.len() == 0)
        &&& forall|i: int| 0 <= i < self.entries@.len() ==> self.entries@[i] != 0 && self.entries@[i] < self.theta
    }
    spec fn n64(&self) -> u64 { self.entries@.len() as u64 }
    spec fn est_spec(&self) -> f64 {
        if self.empty { fzero() } else if self.theta == MAX_THETA { u64_to_f64(self.n64()) } else { fdiv(u64_to_f64(self.n64()), theta_frac(self.theta)) }
    }

    fn estimate ( & self ) -> ( r : f64 ) ensures
/*@C04.estimate*/ r == self . est_spec ( ) ,
/*@C01.theta.exact*/ self . wf ( ) && self . theta == MAX_THETA ==> r == u64_to_f64 ( self . n64 ( ) ) , {
proof {
leaf_zero ( ) ;
}
if self . is_empty ( ) {
return vx_fzero ( ) ;
}
let num_retained = vx_usize_as_f64 ( self . num_retained ( ) ) ;
if self . theta == MAX_THETA {
return num_retained ;
}
let theta = vx_theta_frac ( self . theta ) ;
vx_fdiv ( num_retained , theta ) }



    fn theta ( & self ) -> ( r : f64 ) ensures r == theta_frac ( self . theta ) ,
/*@C01.theta.theta_ok*/ self . wf ( ) ==> theta_ok ( r ) , {
proof {
if self . wf ( ) {
leaf_theta_frac_ok ( self . theta ) ;
}
}
vx_theta_frac ( self . theta ) }



    fn theta64 ( & self ) -> ( r : u64 ) ensures r == self . theta {
self . theta }



    fn is_empty ( & self ) -> ( r : bool ) ensures r == self . empty {
self . empty }



    fn is_estimation_mode ( & self ) -> ( r : bool ) ensures r == ( self . theta < MAX_THETA ) {
self . theta < MAX_THETA }



    fn is_ordered ( & self ) -> ( r : bool ) ensures
/*@C04.compact.ordered_getter*/ r == self . ordered {
self . ordered }


    fn seed_hash ( & self ) -> ( r : u16 ) ensures
/*@C04.compact.seed_hash_getter*/ r == self . seed_hash {
self . seed_hash }


    // self.entries.iter().copied(): iterator leaf; ASSUMED to yield the entries in order
    #[verifier::external_body]
    fn iter(&self) -> (r: impl Iterator<Item = u64> + '_) ensures iter_items(r) == self.entries@ { self.entries.iter().copied() }

    fn num_retained ( & self ) -> ( r : usize ) ensures r == self . entries @ . len ( ) {
self . entries . len ( ) }



    fn lower_bound ( & self , num_std_dev : NumStdDev ) -> ( r : f64 ) requires self . wf ( ) ensures
/*@C01.theta.bracket*/ fle ( r , self . est_spec ( ) ) ,
/*@C01.theta.exact*/ self . theta == MAX_THETA ==> r == u64_to_f64 ( self . n64 ( ) ) , {
proof {
leaf_zero ( ) ;
leaf_fle_refl ( self . n64 ( ) ) ;
leaf_theta_frac_ok ( self . theta ) ;
leaf_zero_div ( theta_frac ( self . theta ) ) ;
}
if ! self . is_estimation_mode ( ) {
return vx_usize_as_f64 ( self . num_retained ( ) ) ;
}
lower_bound ( self . num_retained ( ) as u64 , self . theta ( ) , num_std_dev ) . expect ( "" ) }



    fn upper_bound ( & self , num_std_dev : NumStdDev ) -> ( r : f64 ) requires self . wf ( ) ensures
/*@C01.theta.bracket*/ fle ( self . est_spec ( ) , r ) ,
/*@C01.theta.exact*/ self . theta == MAX_THETA ==> r == u64_to_f64 ( self . n64 ( ) ) , {
proof {
leaf_zero ( ) ;
leaf_fle_refl ( self . n64 ( ) ) ;
leaf_theta_frac_ok ( self . theta ) ;
}
if ! self . is_estimation_mode ( ) {
return vx_usize_as_f64 ( self . num_retained ( ) ) ;
}
upper_bound ( self . num_retained ( ) as u64 , self . theta ( ) , num_std_dev , self . is_empty ( ) , ) . expect ( "" ) }


}

proof fn lemma_cap_le_max_load(lg_cur: u8, lg_nom: u8)
  requires 5 <= lg_cur <= lg_nom + 1, lg_nom + 1 <= 27
  ensures cap_spec(lg_cur, lg_nom) <= max_load(lg_nom), pow2(lg_nom as nat) <= max_load(lg_nom),
          lg_cur <= lg_nom ==> cap_spec(lg_cur, lg_nom) < pow2(lg_nom as nat)
{
    lemma2_to64();
    lemma_pow2_pos(lg_cur as nat);
    lemma_pow2_unfold((lg_nom + 1) as nat);
    lemma_pow2_strictly_increases(3, lg_nom as nat);
    if lg_cur <= lg_nom {
        if lg_cur < lg_nom { lemma_pow2_strictly_increases(lg_cur as nat, lg_nom as nat); }
    }
}

}
fn main(){}
