use vstd::prelude::*;
verus! {
// ---------------------------------------------------------------------------------------------
// C01, theta family: lower_bound <= estimate <= upper_bound from the real bodies of
// common/binomial_bounds.rs::{lower_bound, upper_bound}.  Floats are uninterpreted in Verus; the three
// float-order facts used are complete Kani leaves (kani/leaves_float.rs), stated here as external_body proof fns.
// ---------------------------------------------------------------------------------------------
pub uninterp spec fn fnan(x: f64) -> bool;
pub uninterp spec fn fle(a: f64, b: f64) -> bool;        // IEEE `a <= b`
pub uninterp spec fn fmin(a: f64, b: f64) -> f64;
pub uninterp spec fn fmax(a: f64, b: f64) -> f64;
pub uninterp spec fn u64_to_f64(n: u64) -> f64;
pub uninterp spec fn fdiv(a: f64, b: f64) -> f64;
pub uninterp spec fn theta_ok(t: f64) -> bool;           // 0 < t <= 1
pub uninterp spec fn fzero() -> f64;                     // 0.0
pub assume_specification [ f64::min ] (a: f64, b: f64) -> (r: f64) ensures r == fmin(a, b);
pub assume_specification [ f64::max ] (a: f64, b: f64) -> (r: f64) ensures r == fmax(a, b);

// KX leaf leaf_min_max_bracket (complete): !nan(e) ==> e.min(a.max(b)) <= e  &&  e <= e.max(b)
#[verifier::external_body] proof fn leaf_min_max_bracket(e: f64, a: f64, b: f64)
  requires !fnan(e) ensures fle(fmin(e, fmax(a, b)), e), fle(e, fmax(e, b)) {}
// KX leaves leaf_u64_as_f64_finite_nonneg + leaf_div_not_nan (complete): n as f64 is finite >= 0, and a/b is not NaN for 0 < b <= 1
#[verifier::external_body] proof fn leaf_div_not_nan(n: u64, t: f64)
  requires theta_ok(t) ensures !fnan(fdiv(u64_to_f64(n), t)) {}

// shims: the body IS the replaced expression
#[verifier::external_body] fn vx_u64_as_f64(n: u64) -> (r: f64) ensures r == u64_to_f64(n) { n as f64 }
#[verifier::external_body] fn vx_fdiv(a: f64, b: f64) -> (r: f64) ensures r == fdiv(a, b) { a / b }
// theta_ok(t) means 0 < t <= 1 (false for NaN).  For NaN the real check `theta <= 0.0 || theta > 1.0` is false as well, so the contract is
// one implication each way, the second only off NaN (KX shim_theta_out_of_range_contract, complete over every f64).
#[verifier::external_body] fn vx_theta_out_of_range(theta: f64) -> (r: bool) ensures theta_ok(theta) ==> !r, (!r && !fnan(theta)) ==> theta_ok(theta), fnan(theta) ==> !r { theta <= 0.0 || theta > 1.0 }
#[verifier::external_body] fn vx_fzero() -> (r: f64) ensures r == fzero() { 0.0 }

enum NumStdDev {
One = 1 , Two = 2 , Three = 3 , }

struct Error { k: u8 }
#[verifier::external_body] fn vx_invalid_argument() -> Error { Error { k: 0 } }

// opaque: the binomial approximations return "some f64" - the bracket must hold whatever they return
#[verifier::external_body] fn compute_approx_binomial_lower_bound(num_samples: u64, theta: f64, num_std_dev: NumStdDev) -> f64 { unimplemented!() }
#[verifier::external_body] fn compute_approx_binomial_upper_bound(num_samples: u64, theta: f64, num_std_dev: NumStdDev) -> f64 { unimplemented!() }

fn lower_bound ( num_samples : u64 , theta : f64 , num_std_dev : NumStdDev , ) -> ( r : Result < f64 , Error > ) ensures
/*@C01.theta.lb_le_est*/ ! fnan ( theta ) ==> ( r matches Ok ( lb ) ==> fle ( lb , fdiv ( u64_to_f64 ( num_samples ) , theta ) ) ) ,
/*@C01.theta.lb_rejects*/ ( ! fnan ( theta ) && ! theta_ok ( theta ) ) ==> r is Err ,
/*@C01.theta.lb_total*/ theta_ok ( theta ) ==> r is Ok , {
if vx_theta_out_of_range ( theta ) {
return Err ( vx_invalid_argument ( ) ) ;
}
let estimate = vx_fdiv ( vx_u64_as_f64 ( num_samples ) , theta ) ;
let lb = compute_approx_binomial_lower_bound ( num_samples , theta , num_std_dev ) ;
proof {
if ! fnan ( theta ) {
leaf_div_not_nan ( num_samples , theta ) ;
leaf_min_max_bracket ( estimate , u64_to_f64 ( num_samples ) , lb ) ;
}
}
Ok ( estimate . min ( ( vx_u64_as_f64 ( num_samples ) ) . max ( lb ) ) ) }


fn upper_bound ( num_samples : u64 , theta : f64 , num_std_dev : NumStdDev , no_data_seen : bool , ) -> ( r : Result < f64 , Error > ) ensures
/*@C01.theta.est_le_ub*/ ( ! no_data_seen && ! fnan ( theta ) ) ==> ( r matches Ok ( ub ) ==> fle ( fdiv ( u64_to_f64 ( num_samples ) , theta ) , ub ) ) ,
/*@C01.theta.ub_rejects*/ ( ! no_data_seen && ! fnan ( theta ) && ! theta_ok ( theta ) ) ==> r is Err ,
/*@C01.theta.ub_no_data*/ no_data_seen ==> r == Ok :: < f64 , Error > ( fzero ( ) ) ,
/*@C01.theta.ub_total*/ ( no_data_seen || theta_ok ( theta ) ) ==> r is Ok , {
if no_data_seen {
return Ok ( vx_fzero ( ) ) ;
}
if vx_theta_out_of_range ( theta ) {
return Err ( vx_invalid_argument ( ) ) ;
}
let estimate = vx_fdiv ( vx_u64_as_f64 ( num_samples ) , theta ) ;
let ub = compute_approx_binomial_upper_bound ( num_samples , theta , num_std_dev ) ;
proof {
if ! fnan ( theta ) {
leaf_div_not_nan ( num_samples , theta ) ;
leaf_min_max_bracket ( estimate , estimate , ub ) ;
}
}
Ok ( estimate . max ( ub ) ) }

}
fn main(){}
