#![feature(allocator_api)]
use vstd::prelude::*;
use vstd::iset::*;
use vstd::arithmetic::power2::*;
use vstd::std_specs::bits::*;
use std::io;
use std::io::Cursor;
use std::io::Read;
use std::cmp::Ordering;
verus! {
global size_of usize == 8;

// =====================================================================================================================
// Little-endian byte codecs: interpreted on both sides, the round trip is a lemma (no axiom); same definitions as hll_codec8
// =====================================================================================================================
spec fn le16_bytes(n: u16) -> Seq<u8> { seq![(n & 0xff) as u8, ((n >> 8) & 0xff) as u8] }
spec fn le32_bytes(n: u32) -> Seq<u8> { seq![(n & 0xff) as u8, ((n >> 8) & 0xff) as u8, ((n >> 16) & 0xff) as u8, ((n >> 24) & 0xff) as u8] }
spec fn le64_bytes(n: u64) -> Seq<u8> { le32_bytes((n & 0xffff_ffff) as u32) + le32_bytes((n >> 32) as u32) }
#[verifier::opaque] spec fn le16_val(b: Seq<u8>) -> u16 { (b[0] as u16) | ((b[1] as u16) << 8) }
#[verifier::opaque] spec fn le32_val(b: Seq<u8>) -> u32 { (b[0] as u32) | ((b[1] as u32) << 8) | ((b[2] as u32) << 16) | ((b[3] as u32) << 24) }
#[verifier::opaque] spec fn le64_val(b: Seq<u8>) -> u64 { (le32_val(b.subrange(0, 4)) as u64) | ((le32_val(b.subrange(4, 8)) as u64) << 32) }

proof fn lemma_le16_roundtrip(n: u16) ensures le16_val(le16_bytes(n)) == n, le16_bytes(n).len() == 2 {
    reveal(le16_val);
    let b0 = (n & 0xff) as u8; let b1 = ((n >> 8) & 0xff) as u8;
    assert((b0 as u16) | ((b1 as u16) << 8) == n) by (bit_vector) requires b0 == (n & 0xff) as u8, b1 == ((n >> 8) & 0xff) as u8;
}
proof fn lemma_le32_roundtrip(n: u32) ensures le32_val(le32_bytes(n)) == n, le32_bytes(n).len() == 4 {
    reveal(le32_val);
    let b0 = (n & 0xff) as u8; let b1 = ((n >> 8) & 0xff) as u8; let b2 = ((n >> 16) & 0xff) as u8; let b3 = ((n >> 24) & 0xff) as u8;
    assert((b0 as u32) | ((b1 as u32) << 8) | ((b2 as u32) << 16) | ((b3 as u32) << 24) == n) by (bit_vector)
      requires b0 == (n & 0xff) as u8, b1 == ((n >> 8) & 0xff) as u8, b2 == ((n >> 16) & 0xff) as u8, b3 == ((n >> 24) & 0xff) as u8;
}
proof fn lemma_le64_roundtrip(n: u64) ensures le64_val(le64_bytes(n)) == n, le64_bytes(n).len() == 8 {
    reveal(le64_val);
    let lo = (n & 0xffff_ffff) as u32; let hi = (n >> 32) as u32;
    lemma_le32_roundtrip(lo); lemma_le32_roundtrip(hi);
    assert(le64_bytes(n).subrange(0, 4) =~= le32_bytes(lo));
    assert(le64_bytes(n).subrange(4, 8) =~= le32_bytes(hi));
    assert((lo as u64) | ((hi as u64) << 32) == n) by (bit_vector) requires lo == (n & 0xffff_ffff) as u32, hi == (n >> 32) as u32;
}
// floats travel as their bit patterns; the only facts used are that from_bits/to_bits are inverse on bit patterns
uninterp spec fn f64_bits(x: f64) -> u64;
uninterp spec fn f64_of_bits(b: u64) -> f64;
#[verifier::external_body] proof fn axiom_f64_bits_roundtrip(b: u64) ensures f64_bits(f64_of_bits(b)) == b {}
#[verifier::external_body] proof fn axiom_f64_of_bits_roundtrip(x: f64) ensures f64_of_bits(f64_bits(x)) == x {}

// std leaves (R4 rewrites of uN::from_le_bytes / n.to_le_bytes())
#[verifier::external_body] fn vx_u16_from_le_bytes(b: [u8; 2]) -> (r: u16) ensures r == le16_val(b@) { u16::from_le_bytes(b) }
#[verifier::external_body] fn vx_u32_from_le_bytes(b: [u8; 4]) -> (r: u32) ensures r == le32_val(b@) { u32::from_le_bytes(b) }
#[verifier::external_body] fn vx_f64_from_le_bytes(b: [u8; 8]) -> (r: f64) ensures r == f64_of_bits(le64_val(b@)) { f64::from_le_bytes(b) }
#[verifier::external_body] fn vx_u16_to_le_bytes(n: u16) -> (r: [u8; 2]) ensures r@ == le16_bytes(n) { n.to_le_bytes() }
#[verifier::external_body] fn vx_u32_to_le_bytes(n: u32) -> (r: [u8; 4]) ensures r@ == le32_bytes(n) { n.to_le_bytes() }
#[verifier::external_body] fn vx_f64_to_le_bytes(n: f64) -> (r: [u8; 8]) ensures r@ == le64_bytes(f64_bits(n)) { n.to_le_bytes() }

// a list of u32 words in an image, and reading word i of a payload (same pair as the HLL coupon / theta list codecs)
spec fn enc_u32s(s: Seq<u32>) -> Seq<u8> decreases s.len() { if s.len() == 0 { Seq::empty() } else { enc_u32s(s.drop_last()) + le32_bytes(s.last()) } }
#[verifier::opaque] spec fn dec_u32_at(p: Seq<u8>, i: int) -> u32 { le32_val(p.subrange(4 * i, 4 * i + 4)) }
spec fn dec_u32s(p: Seq<u8>, n: int) -> Seq<u32> { Seq::new(n as nat, |i: int| dec_u32_at(p, i)) }
proof fn lemma_enc_u32s_len(s: Seq<u32>) ensures enc_u32s(s).len() == 4 * s.len() decreases s.len() {
    if s.len() > 0 { lemma_enc_u32s_len(s.drop_last()); lemma_le32_roundtrip(s.last()); }
}
proof fn lemma_enc_u32s_push(s: Seq<u32>, x: u32) ensures enc_u32s(s.push(x)) == enc_u32s(s) + le32_bytes(x) {
    assert(s.push(x).drop_last() =~= s);
}
proof fn lemma_dec_enc_u32s(s: Seq<u32>, tail: Seq<u8>, i: int)
  requires 0 <= i < s.len()
  ensures dec_u32_at(enc_u32s(s) + tail, i) == s[i]
  decreases s.len()
{
    reveal(dec_u32_at);
    lemma_enc_u32s_len(s); lemma_enc_u32s_len(s.drop_last()); lemma_le32_roundtrip(s.last());
    let e = enc_u32s(s) + tail;
    if i == s.len() - 1 {
        assert(e.subrange(4 * i, 4 * i + 4) =~= le32_bytes(s.last()));
    } else {
        lemma_dec_enc_u32s(s.drop_last(), le32_bytes(s.last()) + tail, i);
        assert(enc_u32s(s.drop_last()) + (le32_bytes(s.last()) + tail) =~= e);
    }
}
proof fn lemma_dec_enc_u32s_all(s: Seq<u32>, tail: Seq<u8>)
  ensures dec_u32s(enc_u32s(s) + tail, s.len() as int) == s
{
    assert forall|i: int| 0 <= i < s.len() implies #[trigger] dec_u32_at(enc_u32s(s) + tail, i) == s[i] by { lemma_dec_enc_u32s(s, tail, i); }
    assert(dec_u32s(enc_u32s(s) + tail, s.len() as int) =~= s);
}
// the cursor after `pos` bytes: reading n bytes at pos
proof fn lemma_read(b: Seq<u8>, pos: int, n: int)
  requires 0 <= pos, 0 <= n, pos + n <= b.len()
  ensures b.skip(pos).take(n) == b.subrange(pos, pos + n), b.skip(pos).skip(n) == b.skip(pos + n)
{
    assert(b.skip(pos).take(n) =~= b.subrange(pos, pos + n));
    assert(b.skip(pos).skip(n) =~= b.skip(pos + n));
}
// word i of the payload that starts at byte `base`
proof fn lemma_word_at(b: Seq<u8>, base: int, i: int)
  requires 0 <= base, 0 <= i, base + 4 * i + 4 <= b.len()
  ensures dec_u32_at(b.skip(base), i) == le32_val(b.subrange(base + 4 * i, base + 4 * i + 4))
{
    reveal(dec_u32_at);
    assert(b.skip(base).subrange(4 * i, 4 * i + 4) =~= b.subrange(base + 4 * i, base + 4 * i + 4));
}
proof fn lemma_dec_u32s_push(p: Seq<u8>, i: int)
  requires 0 <= i
  ensures dec_u32s(p, i + 1) == dec_u32s(p, i).push(dec_u32_at(p, i)), dec_u32s(p, i).len() == i
{
    assert(dec_u32s(p, i + 1) =~= dec_u32s(p, i).push(dec_u32_at(p, i)));
}

// =====================================================================================================================
// error / io shims
// =====================================================================================================================
#[verifier::external_type_specification]
#[verifier::external_body]
pub struct ExIoError(std::io::Error);

struct Error { k: u8 }
enum ErrorKind { InvalidArgument, InvalidData }
impl Error {
    // error.rs constructors: only "an Error" is known
    #[verifier::external_body] fn new(kind: ErrorKind, message: impl Into<String>) -> Self { Error { k: 1 } }
    #[verifier::external_body] fn invalid_argument(msg: impl Into<String>) -> Self { Error { k: 4 } }
    #[verifier::external_body] fn deserial(msg: impl Into<String>) -> Self { Error { k: 2 } }
    #[verifier::external_body] fn invalid_family(expected: u8, actual: u8, name: &'static str) -> Self { Error { k: 3 } }
}
trait VxIo<T> { fn vx_io(self, tag: &'static str) -> Result<T, Error>; }
impl<T> VxIo<T> for Result<T, std::io::Error> {
  // R2: `.map_err(insufficient_data(tag))`
  #[verifier::external_body]
  fn vx_io(self, tag: &'static str) -> (r: Result<T, Error>)
    ensures self matches Ok(v) ==> r == Ok::<T, Error>(v), self is Err ==> r is Err
  { unimplemented!() }
}
// codec/assert.rs (`expected.contains(&actual)` on a slice: std leaf), by contract
#[verifier::external_body]
fn ensure_preamble_longs_in(expected: &[u8], actual: u8) -> (r: Result<(), Error>)
  ensures r is Ok <==> expected@.contains(actual)
{ unimplemented!() }

// hash/mod.rs: murmur of the seed; opaque.  It PANICS when the 16-bit hash is 0 (documented): that is the precondition.
uninterp spec fn seed_hash_spec(seed: u64) -> u16;
#[verifier::external_body]
fn compute_seed_hash(seed: u64) -> (r: u16)
  requires seed_hash_spec(seed) != 0
  ensures r == seed_hash_spec(seed)
{ unimplemented!() }
const DEFAULT_UPDATE_SEED : u64 = 9001 ;


// =====================================================================================================================
// codec/encode.rs: SketchBytes, real bodies, view = the bytes written so far
// =====================================================================================================================
struct SketchBytes {
bytes : Vec < u8 > , }


impl SketchBytes {
    spec fn view(&self) -> Seq<u8> { self.bytes@ }

    fn with_capacity ( capacity : usize ) -> ( r : Self ) ensures r @ == Seq :: < u8 > :: empty ( ) {
Self {
bytes : Vec :: with_capacity ( capacity ) , }
}


    fn into_bytes ( self ) -> ( r : Vec < u8 > ) ensures r @ == self @ {
self . bytes }


    fn write ( & mut self , buf : & [ u8 ] ) ensures final ( self ) @ == old ( self ) @ + buf @ {
self . bytes . extend_from_slice ( buf ) ;
}


    fn write_u8 ( & mut self , n : u8 ) ensures final ( self ) @ == old ( self ) @ . push ( n ) {
self . bytes . push ( n ) ;
}


    fn write_u16_le ( & mut self , n : u16 ) ensures final ( self ) @ == old ( self ) @ + le16_bytes ( n ) {
self . write ( & vx_u16_to_le_bytes ( n ) ) ;
}


    fn write_u32_le ( & mut self , n : u32 ) ensures final ( self ) @ == old ( self ) @ + le32_bytes ( n ) {
self . write ( & vx_u32_to_le_bytes ( n ) ) ;
}


    fn write_f64_le ( & mut self , n : f64 ) ensures final ( self ) @ == old ( self ) @ + le64_bytes ( f64_bits ( n ) ) {
self . write ( & vx_f64_to_le_bytes ( n ) ) ;
}

}

// =====================================================================================================================
// codec/decode.rs: SketchSlice; the std Cursor is abstracted by rem() = the bytes not yet consumed.
// =====================================================================================================================
#[verifier::external_body]
struct SketchSlice < 'a > {
slice : Cursor < & 'a [ u8 ] > , }


impl SketchSlice<'_> {
    uninterp spec fn rem(&self) -> Seq<u8>;

    #[verifier::external_body]
    fn new(slice: &[u8]) -> (r: SketchSlice<'_>) ensures r.rem() == slice@ {
        unimplemented!()
    }

    #[verifier::external_body]
    fn read_exact(&mut self, buf: &mut [u8]) -> (r: io::Result<()>)
      ensures
        old(self).rem().len() >= old(buf)@.len() ==> (r is Ok && final(buf)@ == old(self).rem().take(old(buf)@.len() as int) && final(self).rem() == old(self).rem().skip(old(buf)@.len() as int)),
        old(self).rem().len() < old(buf)@.len() ==> r is Err,
        final(buf)@.len() == old(buf)@.len(),
    {
        unimplemented!()
    }

    fn read_u8 ( & mut self ) -> ( r : io :: Result < u8 > ) ensures old ( self ) . rem ( ) . len ( ) >= 1 ==> ( r matches Ok ( v ) && v == old ( self ) . rem ( ) [ 0 ] && final ( self ) . rem ( ) == old ( self ) . rem ( ) . skip ( 1 ) ) , old ( self ) . rem ( ) . len ( ) < 1 ==> r is Err , {
let mut buf = [ 0u8 ;
1 ] ;
self . read_exact ( & mut buf ) ? ;
Ok ( buf [ 0 ] ) }


    fn read_u16_le ( & mut self ) -> ( r : io :: Result < u16 > ) ensures old ( self ) . rem ( ) . len ( ) >= 2 ==> ( r matches Ok ( v ) && v == le16_val ( old ( self ) . rem ( ) . take ( 2 ) ) && final ( self ) . rem ( ) == old ( self ) . rem ( ) . skip ( 2 ) ) , old ( self ) . rem ( ) . len ( ) < 2 ==> r is Err , {
let mut buf = [ 0u8 ;
2 ] ;
self . read_exact ( & mut buf ) ? ;
Ok ( vx_u16_from_le_bytes ( buf ) ) }


    fn read_u32_le ( & mut self ) -> ( r : io :: Result < u32 > ) ensures old ( self ) . rem ( ) . len ( ) >= 4 ==> ( r matches Ok ( v ) && v == le32_val ( old ( self ) . rem ( ) . take ( 4 ) ) && final ( self ) . rem ( ) == old ( self ) . rem ( ) . skip ( 4 ) ) , old ( self ) . rem ( ) . len ( ) < 4 ==> r is Err , {
let mut buf = [ 0u8 ;
4 ] ;
self . read_exact ( & mut buf ) ? ;
Ok ( vx_u32_from_le_bytes ( buf ) ) }


    fn read_f64_le ( & mut self ) -> ( r : io :: Result < f64 > ) ensures old ( self ) . rem ( ) . len ( ) >= 8 ==> ( r matches Ok ( v ) && v == f64_of_bits ( le64_val ( old ( self ) . rem ( ) . take ( 8 ) ) ) && final ( self ) . rem ( ) == old ( self ) . rem ( ) . skip ( 8 ) ) , old ( self ) . rem ( ) . len ( ) < 8 ==> r is Err , {
let mut buf = [ 0u8 ;
8 ] ;
self . read_exact ( & mut buf ) ? ;
Ok ( vx_f64_from_le_bytes ( buf ) ) }

}

// =====================================================================================================================
// codec/family.rs, codec/assert.rs, cpc/serialization.rs, cpc/mod.rs: constants (taken from /repo every run)
// =====================================================================================================================
struct Family {
id : u8 , name : & 'static str , min_pre_longs : u8 , max_pre_longs : u8 , }


impl Family {
    const CPC : Family = Family {
id : 16 , name : "CPC" , min_pre_longs : 1 , max_pre_longs : 5 , }
;


    fn validate_id ( & self , family_id : u8 ) -> ( r : Result < ( ) , Error > ) ensures r is Ok <==> family_id == self . id {
if family_id != self . id {
Err ( Error :: invalid_family ( self . id , family_id , self . name ) ) }
else {
Ok ( ( ) ) }
}

}

fn ensure_serial_version_is ( expected : u8 , actual : u8 ) -> ( r : Result < ( ) , Error > ) ensures r is Ok <==> expected == actual {
if expected == actual {
Ok ( ( ) ) }
else {
Err ( Error :: deserial ( format! ( "unsupported serial version: expected {expected}, got {actual}" ) ) ) }
}


const SERIAL_VERSION : u8 = 1 ;

const FLAG_COMPRESSED : u8 = 1 ;

const FLAG_HAS_HIP : u8 = 2 ;

const FLAG_HAS_TABLE : u8 = 3 ;

const FLAG_HAS_WINDOW : u8 = 4 ;

const MIN_LG_K : u8 = 4 ;

const MAX_LG_K : u8 = 26 ;


// =====================================================================================================================
// FORMAT SPEC (DESIGN.md Appendix A, "CPC"; family 16, serVer 1).  Written from the published layout, not from the Rust code.
//   0 preInts | 1 serVer=1 | 2 famID=16 | 3 lgK | 4 firstInterestingColumn | 5 flags: bit1 COMPRESSED(2), bit2 HAS_HIP(4),
//   bit3 HAS_TABLE(8), bit4 HAS_WINDOW(16) | 6-7 seedHash u16
//   then, when non-empty (a non-empty sketch has a table or a window or both):
//     numCoupons u32 | [numSV u32 and, if HIP, kxp f64 + hipAccum f64 -- when BOTH table and window] | [svLengthInts u32 if table]
//     | [wLengthInts u32 if window] | [kxp f64, hipAccum f64 if HIP and not both] | window words (wLengthInts u32) | table words (svLengthInts u32)
//   preInts = 2 + the number of 4-byte fields present (an f64 counts 2).
//   numSV: "if there is no window it is the same as the number of coupons".
// =====================================================================================================================
spec fn f_compressed(b: Seq<u8>) -> bool { b[5] & 2 != 0 }
spec fn f_hip(b: Seq<u8>) -> bool { b[5] & 4 != 0 }
spec fn f_table(b: Seq<u8>) -> bool { b[5] & 8 != 0 }
spec fn f_window(b: Seq<u8>) -> bool { b[5] & 16 != 0 }
// the fields after the 8-byte header are present iff the image is that of a non-empty sketch
spec fn f_nonempty(b: Seq<u8>) -> bool { f_table(b) || f_window(b) }
spec fn f_both(b: Seq<u8>) -> bool { f_table(b) && f_window(b) }
spec fn pre_ints_spec(nonempty: bool, hip: bool, table: bool, window: bool) -> int {
    if !nonempty { 2 } else {
        2 + 1 + (if table && window { 1int } else { 0 }) + (if hip { 4int } else { 0 }) + (if table { 1int } else { 0 }) + (if window { 1int } else { 0 })
    }
}
spec fn cpc_flags(hip: bool, table: bool, window: bool) -> u8 {
    (2 + (if hip { 4int } else { 0 }) + (if table { 8int } else { 0 }) + (if window { 16int } else { 0 })) as u8
}
// byte offsets of the optional fields, as a function of the flags
spec fn off_svlen(b: Seq<u8>) -> int { 12 + (if f_both(b) { 4 + (if f_hip(b) { 16int } else { 0 }) } else { 0 }) }
spec fn off_wlen(b: Seq<u8>) -> int { off_svlen(b) + (if f_table(b) { 4int } else { 0 }) }
spec fn off_hip2(b: Seq<u8>) -> int { off_wlen(b) + (if f_window(b) { 4int } else { 0 }) }
spec fn off_kxp(b: Seq<u8>) -> int { if f_both(b) { 16 } else { off_hip2(b) } }
spec fn pre_end(b: Seq<u8>) -> int { if f_nonempty(b) { off_hip2(b) + (if f_hip(b) && !f_both(b) { 16int } else { 0 }) } else { 8 } }
spec fn hip_present(b: Seq<u8>) -> bool { f_nonempty(b) && f_hip(b) }
// field accessors
spec fn fld_seed_hash(b: Seq<u8>) -> u16 { le16_val(b.subrange(6, 8)) }
spec fn fld_num_coupons(b: Seq<u8>) -> u32 { if f_nonempty(b) { le32_val(b.subrange(8, 12)) } else { 0 } }
spec fn fld_num_sv(b: Seq<u8>) -> u32 { if f_both(b) { le32_val(b.subrange(12, 16)) } else if f_table(b) { fld_num_coupons(b) } else { 0 } }
spec fn fld_kxp_bits(b: Seq<u8>) -> u64 { if hip_present(b) { le64_val(b.subrange(off_kxp(b), off_kxp(b) + 8)) } else { 0 } }
spec fn fld_hip_bits(b: Seq<u8>) -> u64 { if hip_present(b) { le64_val(b.subrange(off_kxp(b) + 8, off_kxp(b) + 16)) } else { 0 } }
spec fn fld_sv_len(b: Seq<u8>) -> u32 { if f_table(b) { le32_val(b.subrange(off_svlen(b), off_svlen(b) + 4)) } else { 0 } }
spec fn fld_w_len(b: Seq<u8>) -> u32 { if f_window(b) { le32_val(b.subrange(off_wlen(b), off_wlen(b) + 4)) } else { 0 } }
spec fn fld_window(b: Seq<u8>) -> Seq<u32> { dec_u32s(b.skip(pre_end(b)), fld_w_len(b) as int) }
spec fn fld_table(b: Seq<u8>) -> Seq<u32> { dec_u32s(b.skip(pre_end(b) + 4 * fld_w_len(b)), fld_sv_len(b) as int) }
// validity, clause by clause
spec fn cpc_magic_ok(b: Seq<u8>) -> bool { b.len() >= 8 && b[1] == 1 && b[2] == 16 && f_compressed(b) }
spec fn cpc_pre_len_ok(b: Seq<u8>) -> bool { b.len() >= pre_end(b) }
spec fn cpc_ranges_ok(b: Seq<u8>) -> bool { 4 <= b[3] <= 26 && b[4] <= 63 }
spec fn cpc_pre_ints_ok(b: Seq<u8>) -> bool { b[0] == pre_ints_spec(f_nonempty(b), f_hip(b), f_table(b), f_window(b)) }
spec fn cpc_nonempty_ok(b: Seq<u8>) -> bool { f_nonempty(b) ==> fld_num_coupons(b) > 0 }
spec fn cpc_payload_ok(b: Seq<u8>) -> bool { b.len() >= pre_end(b) + 4 * (fld_w_len(b) + fld_sv_len(b)) }
spec fn cpc_valid(b: Seq<u8>) -> bool {
    cpc_magic_ok(b) && cpc_pre_len_ok(b) && cpc_ranges_ok(b) && cpc_pre_ints_ok(b) && cpc_nonempty_ok(b) && cpc_payload_ok(b)
}
// the abstract content of a CPC image (floats as bit patterns, the compressed words as an opaque payload)
ghost struct CpcImg {
    lg_k: u8,
    fic: u8,
    seed_hash: u16,
    has_hip: bool,
    has_table: bool,
    has_window: bool,
    num_coupons: u32,
    num_sv: u32,
    kxp: u64,
    hip: u64,
    window: Seq<u32>,
    table: Seq<u32>,
}
spec fn img_of(b: Seq<u8>) -> CpcImg {
    CpcImg { lg_k: b[3], fic: b[4], seed_hash: fld_seed_hash(b), has_hip: f_hip(b), has_table: f_table(b), has_window: f_window(b),
             num_coupons: fld_num_coupons(b), num_sv: fld_num_sv(b), kxp: fld_kxp_bits(b), hip: fld_hip_bits(b), window: fld_window(b), table: fld_table(b) }
}
// the spec DECODER (trailing bytes after the table words are not an error)
spec fn cpc_decode(b: Seq<u8>) -> Option<CpcImg> { if cpc_valid(b) { Some(img_of(b)) } else { None } }
// the spec ENCODER
spec fn img_nonempty(v: CpcImg) -> bool { v.has_table || v.has_window }
spec fn img_both(v: CpcImg) -> bool { v.has_table && v.has_window }
spec fn enc_hip(v: CpcImg) -> Seq<u8> { le64_bytes(v.kxp) + le64_bytes(v.hip) }
spec fn enc_cpc_header(v: CpcImg) -> Seq<u8> {
    seq![pre_ints_spec(img_nonempty(v), v.has_hip, v.has_table, v.has_window) as u8, 1u8, 16u8, v.lg_k, v.fic, cpc_flags(v.has_hip, v.has_table, v.has_window)] + le16_bytes(v.seed_hash)
}
spec fn fp_sv(v: CpcImg) -> Seq<u8> { if img_both(v) { le32_bytes(v.num_sv) } else { Seq::empty() } }
spec fn fp_hip1(v: CpcImg) -> Seq<u8> { if img_both(v) && v.has_hip { enc_hip(v) } else { Seq::empty() } }
spec fn fp_tl(v: CpcImg) -> Seq<u8> { if v.has_table { le32_bytes(v.table.len() as u32) } else { Seq::empty() } }
spec fn fp_wl(v: CpcImg) -> Seq<u8> { if v.has_window { le32_bytes(v.window.len() as u32) } else { Seq::empty() } }
spec fn fp_hip2(v: CpcImg) -> Seq<u8> { if v.has_hip && !img_both(v) { enc_hip(v) } else { Seq::empty() } }
spec fn enc_cpc_fields(v: CpcImg) -> Seq<u8> {
    le32_bytes(v.num_coupons) + fp_sv(v) + fp_hip1(v) + fp_tl(v) + fp_wl(v) + fp_hip2(v)
}
spec fn enc_cpc(v: CpcImg) -> Seq<u8> {
    if img_nonempty(v) { enc_cpc_header(v) + enc_cpc_fields(v) + enc_u32s(v.window) + enc_u32s(v.table) } else { enc_cpc_header(v) }
}
// the images a writer may produce: absent fields carry their default in the view
spec fn img_canon(v: CpcImg) -> bool {
    &&& 4 <= v.lg_k <= 26 && v.fic <= 63
    &&& v.table.len() <= 0xffff_ffff && v.window.len() <= 0xffff_ffff
    &&& !v.has_table ==> v.table.len() == 0
    &&& !v.has_window ==> v.window.len() == 0
    &&& img_nonempty(v) ==> v.num_coupons > 0
    &&& !img_nonempty(v) ==> v.num_coupons == 0
    &&& !img_both(v) ==> v.num_sv == (if v.has_table { v.num_coupons } else { 0 })
    &&& !(img_nonempty(v) && v.has_hip) ==> v.kxp == 0 && v.hip == 0
}

proof fn lemma_flag_bits(hip: bool, table: bool, window: bool)
  ensures ({ let f = cpc_flags(hip, table, window); (f & 2 != 0) && ((f & 4 != 0) == hip) && ((f & 8 != 0) == table) && ((f & 16 != 0) == window) })
{
    let f = cpc_flags(hip, table, window);
    assert(f == 2 || f == 6 || f == 10 || f == 14 || f == 18 || f == 22 || f == 26 || f == 30);
    assert((f == 2 || f == 6 || f == 10 || f == 14 || f == 18 || f == 22 || f == 26 || f == 30) ==>
        (f & 2 != 0) && ((f & 4 != 0) == (f == 6 || f == 14 || f == 22 || f == 30)) && ((f & 8 != 0) == (f == 10 || f == 14 || f == 26 || f == 30)) && ((f & 16 != 0) == (f >= 18))) by (bit_vector);
}

// C11 at spec level: the spec decoder inverts the spec encoder on the framing (the compressed words are an opaque payload)
// the parts common to every non-empty layout: header fields, flags, and the two word lists that follow the preamble
proof fn lemma_cpc_rt_common(v: CpcImg, f: Seq<u8>)
  requires img_canon(v), img_nonempty(v), f == enc_cpc_fields(v)
  ensures ({ let b = enc_cpc(v);
     &&& b.len() == 8 + f.len() + 4 * v.window.len() + 4 * v.table.len()
     &&& b[0] == pre_ints_spec(true, v.has_hip, v.has_table, v.has_window) && b[1] == 1 && b[2] == 16 && b[3] == v.lg_k && b[4] == v.fic
     &&& f_compressed(b) && f_hip(b) == v.has_hip && f_table(b) == v.has_table && f_window(b) == v.has_window
     &&& fld_seed_hash(b) == v.seed_hash
     &&& b.subrange(8, 8 + f.len() as int) == f
     &&& dec_u32s(b.skip(8 + f.len() as int), v.window.len() as int) == v.window
     &&& dec_u32s(b.skip(8 + f.len() as int + 4 * v.window.len() as int), v.table.len() as int) == v.table })
{
    let b = enc_cpc(v); let h = enc_cpc_header(v);
    lemma_flag_bits(v.has_hip, v.has_table, v.has_window);
    lemma_le16_roundtrip(v.seed_hash);
    lemma_enc_u32s_len(v.window); lemma_enc_u32s_len(v.table);
    assert(h.len() == 8);
    assert(b.subrange(6, 8) =~= le16_bytes(v.seed_hash));
    assert(b[5] == h[5]);
    assert(b.subrange(8, 8 + f.len() as int) =~= f);
    assert(b.skip(8 + f.len() as int) =~= enc_u32s(v.window) + enc_u32s(v.table));
    lemma_dec_enc_u32s_all(v.window, enc_u32s(v.table));
    assert(b.skip(8 + f.len() as int + 4 * v.window.len() as int) =~= enc_u32s(v.table) + Seq::<u8>::empty());
    lemma_dec_enc_u32s_all(v.table, Seq::<u8>::empty());
}
// the pieces of a concatenation, by offset
proof fn lemma_pieces6(f: Seq<u8>, p1: Seq<u8>, p2: Seq<u8>, p3: Seq<u8>, p4: Seq<u8>, p5: Seq<u8>, p6: Seq<u8>)
  requires f == p1 + p2 + p3 + p4 + p5 + p6
  ensures ({ let l1 = p1.len() as int; let l2 = l1 + p2.len(); let l3 = l2 + p3.len(); let l4 = l3 + p4.len(); let l5 = l4 + p5.len(); let l6 = l5 + p6.len();
     &&& f.len() == l6
     &&& f.subrange(0, l1) == p1 &&& f.subrange(l1, l2) == p2 &&& f.subrange(l2, l3) == p3 &&& f.subrange(l3, l4) == p4 &&& f.subrange(l4, l5) == p5 &&& f.subrange(l5, l6) == p6 })
{
    let l1 = p1.len() as int; let l2 = l1 + p2.len(); let l3 = l2 + p3.len(); let l4 = l3 + p4.len(); let l5 = l4 + p5.len(); let l6 = l5 + p6.len();
    assert(f.subrange(0, l1) =~= p1); assert(f.subrange(l1, l2) =~= p2); assert(f.subrange(l2, l3) =~= p3);
    assert(f.subrange(l3, l4) =~= p4); assert(f.subrange(l4, l5) =~= p5); assert(f.subrange(l5, l6) =~= p6);
}
proof fn lemma_sub_sub(b: Seq<u8>, f: Seq<u8>, o: int, n: int)
  requires b.len() >= 8 + f.len(), b.subrange(8, 8 + f.len() as int) == f, 0 <= o, 0 <= n, o + n <= f.len()
  ensures b.subrange(8 + o, 8 + o + n) == f.subrange(o, o + n)
{
    assert(b.subrange(8 + o, 8 + o + n) =~= b.subrange(8, 8 + f.len() as int).subrange(o, o + n));
}
proof fn lemma_hip_split(b: Seq<u8>, o: int, kxp: u64, hip: u64)
  requires 0 <= o, o + 16 <= b.len(), b.subrange(o, o + 16) == le64_bytes(kxp) + le64_bytes(hip)
  ensures le64_val(b.subrange(o, o + 8)) == kxp, le64_val(b.subrange(o + 8, o + 16)) == hip
{
    lemma_le64_roundtrip(kxp); lemma_le64_roundtrip(hip);
    assert(b.subrange(o, o + 8) =~= b.subrange(o, o + 16).subrange(0, 8));
    assert(b.subrange(o + 8, o + 16) =~= b.subrange(o, o + 16).subrange(8, 16));
    assert((le64_bytes(kxp) + le64_bytes(hip)).subrange(0, 8) =~= le64_bytes(kxp));
    assert((le64_bytes(kxp) + le64_bytes(hip)).subrange(8, 16) =~= le64_bytes(hip));
}
proof fn lemma_cpc_framing_roundtrip(v: CpcImg)
  requires img_canon(v)
  ensures /*@C11.cpc.framing*/ cpc_decode(enc_cpc(v)) == Some(v)
{
    let b = enc_cpc(v);
    if img_nonempty(v) {
        let f = enc_cpc_fields(v);
        lemma_cpc_rt_common(v, f);
        let wl = v.window.len() as u32; let tl = v.table.len() as u32;
        lemma_le32_roundtrip(v.num_coupons); lemma_le32_roundtrip(v.num_sv); lemma_le32_roundtrip(wl); lemma_le32_roundtrip(tl);
        lemma_le64_roundtrip(v.kxp); lemma_le64_roundtrip(v.hip);
        let p1 = le32_bytes(v.num_coupons);
        lemma_pieces6(f, p1, fp_sv(v), fp_hip1(v), fp_tl(v), fp_wl(v), fp_hip2(v));
        let l1 = 4int; let l2 = l1 + fp_sv(v).len(); let l3 = l2 + fp_hip1(v).len(); let l4 = l3 + fp_tl(v).len(); let l5 = l4 + fp_wl(v).len(); let l6 = l5 + fp_hip2(v).len();
        assert(pre_end(b) == 8 + f.len());
        lemma_sub_sub(b, f, 0, l1);
        lemma_sub_sub(b, f, l1, l2 - l1);
        lemma_sub_sub(b, f, l2, l3 - l2);
        lemma_sub_sub(b, f, l3, l4 - l3);
        lemma_sub_sub(b, f, l4, l5 - l4);
        lemma_sub_sub(b, f, l5, l6 - l5);
        if v.has_hip && img_both(v) { lemma_hip_split(b, 8 + l2, v.kxp, v.hip); }
        if v.has_hip && !img_both(v) { lemma_hip_split(b, 8 + l5, v.kxp, v.hip); }
        assert(fld_num_coupons(b) == v.num_coupons);
        assert(fld_num_sv(b) == v.num_sv);
        assert(fld_sv_len(b) == tl);
        assert(fld_w_len(b) == wl);
        assert(fld_kxp_bits(b) == v.kxp && fld_hip_bits(b) == v.hip);
        assert(img_of(b) == v);
    } else {
        lemma_flag_bits(v.has_hip, v.has_table, v.has_window);
        lemma_le16_roundtrip(v.seed_hash);
        assert(b.subrange(6, 8) =~= le16_bytes(v.seed_hash));
        assert(fld_window(b) =~= v.window);
        assert(fld_table(b) =~= v.table);
        assert(img_of(b) == v);
    }
}

// cpc/serialization.rs
fn make_preamble_ints ( num_coupons : u32 , has_hip : bool , has_table : bool , has_window : bool , ) -> ( r : u8 ) ensures
/*@C12.cpc.pre_ints*/ r == pre_ints_spec ( num_coupons > 0 , has_hip , has_table , has_window ) {
let mut preamble_ints = 2 ;
if num_coupons > 0 {
preamble_ints += 1 ;
if has_hip {
preamble_ints += 4 ;
}
if has_table {
preamble_ints += 1 ;
if has_window {
preamble_ints += 1 ;
}
}
if has_window {
preamble_ints += 1 ;
}
}
preamble_ints }



// =====================================================================================================================
// cpc/pair_table.rs: the table invariant (definitions VERBATIM from contracts/cpc_pairtable.rs, where lookup / must_insert /
// maybe_insert / maybe_delete / rebuild are proved against them); `new` and `must_insert` are by contract here.
// =====================================================================================================================
const UPSIZE_NUMERATOR : u32 = 3 ;

const UPSIZE_DENOMINATOR : u32 = 4 ;

const EMPTY: u32 = 0xffff_ffff;

struct PairTable {
lg_size : u8 , num_valid_bits : u8 , num_items : u32 , slots : Vec < u32 > , }


spec fn probe_at(p0: int, s: int, j: int, size: int) -> int { (p0 + j * s) % size }
spec fn phome(item: u32, nvb: u8, lg: u8) -> int { (item >> ((nvb - lg) as u32)) as int }
spec fn ppos(item: u32, nvb: u8, lg: u8, j: int, size: int) -> int { probe_at(phome(item, nvb, lg), 1, j, size) }
spec fn pocc(ss: Seq<u32>) -> Set<int> { Set::range(0, ss.len() as int).filter(|i: int| ss[i] != EMPTY) }
spec fn pfull_before(ss: Seq<u32>, item: u32, nvb: u8, lg: u8, j: int) -> bool {
    forall|t: int| 0 <= t < j ==> ss[#[trigger] ppos(item, nvb, lg, t, ss.len() as int)] != EMPTY
}
spec fn preach_at(ss: Seq<u32>, nvb: u8, lg: u8, i: int) -> bool {
    exists|j: int| 0 <= j < ss.len() && i == ppos(ss[i], nvb, lg, j, ss.len() as int) && #[trigger] pfull_before(ss, ss[i], nvb, lg, j)
}
spec fn pshape(ss: Seq<u32>, nvb: u8, lg: u8) -> bool { 2 <= lg <= 26 && lg < nvb <= 32 && ss.len() == pow2(lg as nat) }
spec fn ptbl_ok(ss: Seq<u32>, nvb: u8, lg: u8) -> bool {
    &&& pshape(ss, nvb, lg)
    &&& forall|i: int| 0 <= i < ss.len() && ss[i] != EMPTY ==> (#[trigger] ss[i] as int) < pow2(nvb as nat)
    &&& forall|i: int, j: int| 0 <= i < ss.len() && 0 <= j < ss.len() && i != j && ss[i] != EMPTY ==> ss[i] != ss[j]
    &&& forall|i: int| 0 <= i < ss.len() && ss[i] != EMPTY ==> #[trigger] preach_at(ss, nvb, lg, i)
}
spec fn pholds(ss: Seq<u32>, item: u32) -> bool { exists|i: int| 0 <= i < ss.len() && ss[i] == item }

proof fn lemma_pshl(l: u8)
  requires l < 32
  ensures (1u32 << l) == pow2(l as nat), pow2(l as nat) >= 1, l <= 26 ==> pow2(l as nat) <= 0x400_0000
{
    lemma2_to64(); lemma_pow2_pos(l as nat);
    lemma_pow2_strictly_increases(l as nat, 32);
    if l < 26 { lemma_pow2_strictly_increases(l as nat, 26); }
    vstd::bits::lemma_u32_shl_is_mul(1, l as u32);
    assert((1u32 << (l as u32)) == (1u32 << l));
}
proof fn lemma_pow2_increases(a: nat, b: nat) requires a <= b ensures pow2(a) <= pow2(b) { if a < b { lemma_pow2_strictly_increases(a, b); } }

impl PairTable {
    spec fn wf(&self) -> bool {
        &&& ptbl_ok(self.slots@, self.num_valid_bits, self.lg_size)
        &&& self.num_items == pocc(self.slots@).len()
        &&& 4 * self.num_items <= 3 * self.slots@.len()
    }
    spec fn items(&self) -> ISet<u32> { ISet::new(|c: u32| c != EMPTY && pholds(self.slots@, c)) }

    // by contract (the asserts of the real body are the precondition; `vec![u32::MAX; 1 << lg_size]`)
    #[verifier::external_body]
    fn new(lg_size: u8, num_valid_bits: u8) -> (r: Self)
      requires 2 <= lg_size <= 26, lg_size + 1 <= num_valid_bits <= 32
      ensures r.lg_size == lg_size, r.num_valid_bits == num_valid_bits, r.num_items == 0,
        r.slots@.len() == pow2(lg_size as nat), forall|i: int| 0 <= i < r.slots@.len() ==> r.slots@[i] == EMPTY,
    { unimplemented!() }

    // contract VERBATIM from the one PROVED in contracts/cpc_pairtable.rs
    #[verifier::external_body]
    fn must_insert(&mut self, item: u32)
      requires pshape(old(self).slots@, old(self).num_valid_bits, old(self).lg_size), (item as int) < pow2(old(self).num_valid_bits as nat), item != EMPTY,
        !pholds(old(self).slots@, item),
        pocc(old(self).slots@).len() < old(self).slots@.len(),   // an empty slot exists
      ensures ptbl_ok(old(self).slots@, old(self).num_valid_bits, old(self).lg_size) ==> ptbl_ok(final(self).slots@, final(self).num_valid_bits, final(self).lg_size),
        final(self).lg_size == old(self).lg_size, final(self).num_valid_bits == old(self).num_valid_bits, final(self).num_items == old(self).num_items,
        exists|idx: int| 0 <= idx < old(self).slots@.len() && old(self).slots@[idx] == EMPTY && final(self).slots@ == #[trigger] old(self).slots@.update(idx, item)
            && exists|j: int| 0 <= j < old(self).slots@.len() && idx == ppos(item, old(self).num_valid_bits, old(self).lg_size, j, old(self).slots@.len() as int) && #[trigger] pfull_before(old(self).slots@, item, old(self).num_valid_bits, old(self).lg_size, j),
    { unimplemented!() }

    // A constructor specifically tailored to be a part of FM85 decompression scheme: REACHED FROM deserialize with decoded (attacker-chosen) pairs.
    // The preconditions are what its asserts / arithmetic / indexing need; the decompressor establishes none of them for arbitrary bytes.
    fn from_slots ( lg_size : u8 , num_items : u32 , slots : Vec < u32 > ) -> ( r : Self ) requires 4 <= lg_size <= 26 ,
/*@C14.cpc.from_slots.count*/ num_items <= slots @ . len ( ) ,
/*@C14.cpc.from_slots.fits*/ 4 * num_items <= 3 * pow2 ( 26 ) && 4 * num_items <= 3 * pow2 ( ( 5 + lg_size ) as nat ) ,
/*@C14.cpc.from_slots.range*/ forall | i : int | 0 <= i < num_items ==> slots @ [ i ] != EMPTY && ( # [ trigger ] slots @ [ i ] as int ) < pow2 ( ( 6 + lg_size ) as nat ) ,
/*@C14.cpc.from_slots.distinct*/ forall | i : int , j : int | 0 <= i < j < num_items ==> slots @ [ i ] != slots @ [ j ] , ensures r . wf ( ) , r . num_valid_bits == 6 + lg_size , r . num_items == num_items , forall | x : u32 | # [ trigger ] r . items ( ) . contains ( x ) <==> ( exists | i : int | 0 <= i < num_items && slots @ [ i ] == x ) , {
let mut lg_num_slots = 2 ;
proof {
lemma2_to64 ( ) ;
lemma_pshl ( 2 ) ;
}
while UPSIZE_DENOMINATOR * num_items > ( UPSIZE_NUMERATOR * ( 1 << lg_num_slots ) ) invariant 2 <= lg_num_slots <= 26 , lg_num_slots <= 5 + lg_size , ( 1u32 << lg_num_slots ) == pow2 ( lg_num_slots as nat ) , pow2 ( 26 ) == 0x400_0000 , pow2 ( lg_num_slots as nat ) <= 0x400_0000 , 4 * num_items <= 3 * pow2 ( 26 ) && 4 * num_items <= 3 * pow2 ( ( 5 + lg_size ) as nat ) , 4 <= lg_size <= 26 , decreases 26 - lg_num_slots {
proof {
lemma_pshl ( lg_num_slots ) ;
lemma_pshl ( ( lg_num_slots + 1 ) as u8 ) ;
if lg_num_slots >= 26 {
assert ( false ) ;
}
if lg_num_slots >= 5 + lg_size {
lemma_pow2_increases ( ( 5 + lg_size ) as nat , lg_num_slots as nat ) ;
assert ( false ) ;
}
}
lg_num_slots += 1 ;
}
proof {
lemma_pshl ( lg_num_slots ) ;
}
let mut table = Self :: new ( lg_num_slots , 6 + lg_size ) ;
proof {
assert ( pocc ( table . slots @ ) =~= Set :: < int > :: empty ( ) ) ;
}
for i in 0 .. num_items invariant table . lg_size == lg_num_slots , table . num_valid_bits == 6 + lg_size , 4 <= lg_size <= 26 , ptbl_ok ( table . slots @ , table . num_valid_bits , table . lg_size ) , table . slots @ . len ( ) == pow2 ( lg_num_slots as nat ) , pocc ( table . slots @ ) . len ( ) == i , 4 * num_items <= 3 * pow2 ( lg_num_slots as nat ) , num_items <= slots @ . len ( ) , forall | i : int | 0 <= i < num_items ==> slots @ [ i ] != EMPTY && ( # [ trigger ] slots @ [ i ] as int ) < pow2 ( ( 6 + lg_size ) as nat ) , forall | i : int , j : int | 0 <= i < j < num_items ==> slots @ [ i ] != slots @ [ j ] , forall | x : u32 | x != EMPTY ==> ( # [ trigger ] pholds ( table . slots @ , x ) <==> ( exists | j : int | 0 <= j < i && slots @ [ j ] == x ) ) , {
let ghost ss0 = table . slots @ ;
let ghost item = slots @ [ i as int ] ;
proof {
if pholds ( ss0 , item ) {
let j = choose | j : int | 0 <= j < i && slots @ [ j ] == item ;
assert ( false ) ;
}
}
table . must_insert ( slots [ i as usize ] ) ;
proof {
let idx = choose | idx : int | 0 <= idx < ss0 . len ( ) && ss0 [ idx ] == EMPTY && table . slots @ == # [ trigger ] ss0 . update ( idx , item ) ;
assert ( pocc ( table . slots @ ) =~= pocc ( ss0 ) . insert ( idx ) ) ;
assert ( ! pocc ( ss0 ) . contains ( idx ) ) ;
assert forall | x : u32 | x != EMPTY implies ( # [ trigger ] pholds ( table . slots @ , x ) <==> ( exists | j : int | 0 <= j < i + 1 && slots @ [ j ] == x ) ) by {
let ss1 = table . slots @ ;
if pholds ( ss1 , x ) {
let t = choose | t : int | 0 <= t < ss1 . len ( ) && ss1 [ t ] == x ;
if t == idx {
assert ( slots @ [ i as int ] == x ) ;
}
else {
assert ( ss0 [ t ] == x ) ;
assert ( pholds ( ss0 , x ) ) ;
let j = choose | j : int | 0 <= j < i && slots @ [ j ] == x ;
assert ( 0 <= j < i + 1 && slots @ [ j ] == x ) ;
}
}
if exists | j : int | 0 <= j < i + 1 && slots @ [ j ] == x {
let j = choose | j : int | 0 <= j < i + 1 && slots @ [ j ] == x ;
if j == i {
assert ( ss1 [ idx ] == x ) ;
}
else {
assert ( pholds ( ss0 , x ) ) ;
let t = choose | t : int | 0 <= t < ss0 . len ( ) && ss0 [ t ] == x ;
assert ( t != idx ) ;
assert ( ss1 [ t ] == x ) ;
}
}
}
}
}
table . num_items = num_items ;
proof {
assert forall | x : u32 | # [ trigger ] table . items ( ) . contains ( x ) <==> ( exists | i : int | 0 <= i < num_items && slots @ [ i ] == x ) by {
if exists | i : int | 0 <= i < num_items && slots @ [ i ] == x {
let i = choose | i : int | 0 <= i < num_items && slots @ [ i ] == x ;
assert ( x != EMPTY ) ;
}
}
}
table }

}

// =====================================================================================================================
// cpc/mod.rs, cpc/sketch.rs: flavor / offset as functions of (lg_k, C); the sketch invariant wf() (definitions VERBATIM from
// contracts/cpc_update.rs, over the real PairTable invariant above)
// =====================================================================================================================
enum Flavor {
Empty , Sparse , Hybrid , Pinned , Sliding , }

spec fn flavor_spec(lg_k: u8, c: u32) -> Flavor {
    let k = pow2(lg_k as nat) as int; let c = c as int;
    if c == 0 { Flavor::Empty } else if 32 * c < 3 * k { Flavor::Sparse } else if 2 * c < k { Flavor::Hybrid } else if 8 * c < 27 * k { Flavor::Pinned } else { Flavor::Sliding }
}
spec fn dco(lg_k: u8, c: u32) -> int { let k = pow2(lg_k as nat) as int; if 8 * (c as int) < 19 * k { 0 } else { (8 * (c as int) - 19 * k) / (8 * k) } }

// real body; contract and proof as in contracts/cpc_update.rs
fn determine_correct_offset ( lg_k : u8 , num_coupons : u32 ) -> ( r : u8 ) requires 4 <= lg_k <= 26 ensures dco ( lg_k , num_coupons ) <= 255 ==> r == dco ( lg_k , num_coupons ) {
proof {
lemma_shl_i64 ( lg_k ) ;
lemma_shl_i64 ( ( lg_k + 3 ) as u8 ) ;
lemma_pow2_adds ( 3 , lg_k as nat ) ;
lemma2_to64 ( ) ;
let c = num_coupons as i64 ;
assert ( 0 <= c <= 0xffff_ffff ==> ( c << 3 ) == c * 8 ) by ( bit_vector ) ;
}
let k = 1 << lg_k ;
let tmp = ( ( num_coupons as i64 ) << 3 ) - ( 19 * k ) ;
if tmp < 0 {
0 }
else {
proof {
lemma_shr_i64 ( tmp , ( lg_k + 3 ) as u8 ) ;
}
( tmp >> ( lg_k + 3 ) ) as u8 }
}

proof fn lemma_shl_i64(l: u8) requires l <= 29 ensures (1i64 << l) == pow2(l as nat), 1 <= pow2(l as nat) <= 0x2000_0000 {
    lemma2_to64(); if l < 29 { lemma_pow2_strictly_increases(l as nat, 29); } lemma_pow2_pos(l as nat);
    let u = l as u64;
    vstd::bits::lemma_u64_shl_is_mul(1, u);
    assert(u <= 29 ==> (1u64 << u) < 0x4000_0000u64) by (bit_vector);
    assert(l <= 29 ==> (1i64 << l) == ((1u64 << (l as u64)) as i64)) by (bit_vector);
}
proof fn lemma_shr_i64(t: i64, s: u8) requires 0 <= t, s <= 29 ensures (t >> s) == (t as int) / (pow2(s as nat) as int) {
    let u = t as u64; let su = s as u64;
    vstd::bits::lemma_u64_shr_is_div(u, su);
    assert(t >= 0 && s <= 29 ==> (t >> s) == ((t as u64) >> (s as u64)) as i64) by (bit_vector);
}
proof fn lemma_k_bound(l: u8) requires 4 <= l <= 26 ensures 16 <= pow2(l as nat) <= 0x400_0000 {
    lemma2_to64(); if l < 26 { lemma_pow2_strictly_increases(l as nat, 26); } if l > 4 { lemma_pow2_strictly_increases(4, l as nat); }
}

struct CpcSketch {
lg_k : u8 , seed : u64 , seed_hash : u16 , first_interesting_column : u8 , num_coupons : u32 , surprising_value_table : Option < PairTable > , window_offset : u8 , sliding_window : Vec < u8 > , merge_flag : bool , kxp : f64 , hip_est_accum : f64 , }


spec fn rc(row: int, col: int) -> u32 { ((row as u32) << 6) | (col as u32) }
spec fn bit8(x: u8, c: int) -> bool { (x >> (c as u8)) & 1 == 1 }

// cpc/compression.rs: the compressed state; its view
struct CompressedState {
table_data : Vec < u32 > , table_data_words : usize , table_num_entries : u32 , window_data : Vec < u32 > , window_data_words : usize , }

struct UncompressedState {
table : PairTable , window : Vec < u8 > , }

ghost struct CsView { table: Seq<u32>, table_words: int, num_entries: u32, window: Seq<u32>, window_words: int }
spec fn cs_default() -> CsView { CsView { table: Seq::empty(), table_words: 0, num_entries: 0, window: Seq::empty(), window_words: 0 } }
// =====================================================================================================================
// REFINEMENT MAPPING to unit cpc_coder (which verifies the real bodies of `compress` / `uncompress` and of everything below them).
// This unit used to speak about the entropy coder through two uninterpreted functions `compressed_of(sketch)` and
// `uncompressed_of(state, lg_k, C)`.  They are replaced by the coder's own INTERPRETED predicates
//     compress_image(c, s)        what `compress` leaves in a default CompressedState (C12 of the coder)
//     image_valid(c, lg_k, C)     what `uncompress` needs of a compressed state      (C13 precondition of the coder)
//     decoded_as(r, c, lg_k, C)   what `uncompress` returns for a valid state        (C13 of the coder)
//     coder_shape(fl, c)          flags / word counts of what `compress` leaves
// The block below is the spec closure of these predicates, VERBATIM from contracts/cpc_coder.rs (same names, same tokens, so that
// tools/linkcheck.py / tools/linkprove.py identify the definitions; only `CpcSketch::tbl` differs: this unit uses the total form of
// cpc_core / cpc_update, equal to the coder's whenever the table is present, which coder_wf demands).
// =====================================================================================================================
spec fn enc_len(e: u16) -> int { (e >> 12) as int }
spec fn enc_val(e: u16) -> u64 { (e & 0xfff) as u64 }
spec fn code_bits(e: u16) -> Seq<bool> { buf_bits(enc_val(e), enc_len(e)) }
spec fn enc_bytes(enc: Seq<u16>, bytes: Seq<u8>) -> Seq<bool> decreases bytes.len() {
    if bytes.len() == 0 { Seq::empty() } else { enc_bytes(enc, bytes.drop_last()) + code_bits(enc[bytes.last() as int]) }
}
#[verifier::opaque]
spec fn ors12(c0: bool, c1: bool, c2: bool, c3: bool, c4: bool, c5: bool, c6: bool, c7: bool, c8: bool, c9: bool, c10: bool, c11: bool) -> u64 { (if c0 { 1u64 } else { 0 }) | (if c1 { 2u64 } else { 0 }) | (if c2 { 4u64 } else { 0 }) | (if c3 { 8u64 } else { 0 }) | (if c4 { 16u64 } else { 0 }) | (if c5 { 32u64 } else { 0 }) | (if c6 { 64u64 } else { 0 }) | (if c7 { 128u64 } else { 0 }) | (if c8 { 256u64 } else { 0 }) | (if c9 { 512u64 } else { 0 }) | (if c10 { 1024u64 } else { 0 }) | (if c11 { 2048u64 } else { 0 }) }
spec fn peek12(s: Seq<bool>) -> u64 { ors12(s[0], s[1], s[2], s[3], s[4], s[5], s[6], s[7], s[8], s[9], s[10], s[11]) }
spec fn dec_bytes(dec: Seq<u16>, s: Seq<bool>, n: int) -> Seq<u8> decreases n {
    if n <= 0 { Seq::empty() } else { let e = dec[peek12(s) as int]; seq![(e & 0xff) as u8] + dec_bytes(dec, s.skip((e >> 8) as int), n - 1) }
}
spec fn dec_bytes_fits(dec: Seq<u16>, s: Seq<bool>, n: int) -> bool decreases n {
    n <= 0 || (s.len() >= 12 && dec_bytes_fits(dec, s.skip((dec[peek12(s) as int] >> 8) as int), n - 1))
}
uninterp spec fn sp_llu_enc() -> [u16; 65];
uninterp spec fn sp_llu_dec() -> [u16; 4096];
uninterp spec fn sp_byte_enc() -> [[u16; 256]; 22];
uninterp spec fn sp_byte_dec() -> [[u16; 4096]; 22];
uninterp spec fn sp_perm_enc() -> [[u8; 56]; 16];
uninterp spec fn sp_perm_dec() -> [[u8; 56]; 16];
spec fn llu_enc() -> Seq<u16> { sp_llu_enc()@ }
spec fn llu_dec() -> Seq<u16> { sp_llu_dec()@ }
spec fn pairs_ascending(pairs: Seq<u32>) -> bool { forall|i: int, j: int| #![trigger pairs[i], pairs[j]] 0 <= i < j < pairs.len() ==> pairs[i] < pairs[j] }
spec fn prev_row(pairs: Seq<u32>, i: int) -> u32 { if i <= 0 { 0 } else { pairs[i - 1] >> 6 } }
spec fn prev_col(pairs: Seq<u32>, i: int) -> u32 { if i <= 0 { 0 } else { ((pairs[i - 1] & 63) + 1) as u32 } }
spec fn y_delta_of(pairs: Seq<u32>, i: int) -> u32 { ((pairs[i] >> 6) - prev_row(pairs, i)) as u32 }
spec fn x_delta_of(pairs: Seq<u32>, i: int) -> u32 { ((pairs[i] & 63) - (if (pairs[i] >> 6) != prev_row(pairs, i) { 0 } else { prev_col(pairs, i) as int })) as u32 }
spec fn lo_mask(nbb: int) -> u64 { ((1u64 << (nbb as u64)) - 1) as u64 }
spec fn golomb_bits(y: u64, nbb: int) -> Seq<bool> { unary((y >> (nbb as u64)) as int) + buf_bits(y & lo_mask(nbb), nbb) }
spec fn pair_code(llu: Seq<u16>, nbb: int, pairs: Seq<u32>, i: int) -> Seq<bool> {
    code_bits(llu[x_delta_of(pairs, i) as int]) + golomb_bits(y_delta_of(pairs, i) as u64, nbb)
}
spec fn enc_pairs(llu: Seq<u16>, nbb: int, pairs: Seq<u32>, n: int) -> Seq<bool> decreases n {
    if n <= 0 { Seq::empty() } else { enc_pairs(llu, nbb, pairs, n - 1) + pair_code(llu, nbb, pairs, n - 1) }
}
spec fn pad_bits(nbb: int) -> int { if nbb >= 10 { 0 } else { 10 - nbb } }
spec fn bits_val(s: Seq<bool>, n: int) -> u64 decreases n { if n <= 0 { 0 } else { bits_val(s, n - 1) | (if s[n - 1] { 1u64 << ((n - 1) as u64) } else { 0 }) } }
spec fn dec_pair_x(dec: Seq<u16>, s: Seq<bool>) -> u16 { dec[peek12(s) as int] }
spec fn dec_pair_s1(dec: Seq<u16>, s: Seq<bool>) -> Seq<bool> { s.skip((dec_pair_x(dec, s) >> 8) as int) }
spec fn dec_pair_s2(dec: Seq<u16>, s: Seq<bool>) -> Seq<bool> { dec_pair_s1(dec, s).skip(first_one(dec_pair_s1(dec, s)) + 1) }
spec fn dec_pair_y(dec: Seq<u16>, nbb: int, s: Seq<bool>) -> u32 {
    ((((first_one(dec_pair_s1(dec, s)) as u64) << (nbb as u64)) | bits_val(dec_pair_s2(dec, s), nbb)) as u32)
}
spec fn dec_pair_row(dec: Seq<u16>, nbb: int, s: Seq<bool>, prow: u32) -> int { prow + dec_pair_y(dec, nbb, s) }
spec fn dec_pair_col(dec: Seq<u16>, nbb: int, s: Seq<bool>, pcol: u8) -> int { (if dec_pair_y(dec, nbb, s) > 0 { 0 } else { pcol as int }) + ((dec_pair_x(dec, s) & 0xff) as u8) }
spec fn dec_pair_rest(dec: Seq<u16>, nbb: int, s: Seq<bool>) -> Seq<bool> { dec_pair_s2(dec, s).skip(nbb) }
spec fn dec_pair_fits(dec: Seq<u16>, nbb: int, s: Seq<bool>, prow: u32, pcol: u8) -> bool {
    &&& s.len() >= 12
    &&& first_one(dec_pair_s1(dec, s)) + 8 <= dec_pair_s1(dec, s).len()
    &&& dec_pair_s2(dec, s).len() >= nbb
    &&& dec_pair_row(dec, nbb, s, prow) <= u32::MAX
    &&& dec_pair_col(dec, nbb, s, pcol) < 255
}
#[verifier::opaque]
spec fn dec_pairs(dec: Seq<u16>, nbb: int, s: Seq<bool>, n: int, prow: u32, pcol: u8) -> Seq<u32> decreases n {
    if n <= 0 { Seq::empty() } else {
        let row = dec_pair_row(dec, nbb, s, prow) as u32; let col = dec_pair_col(dec, nbb, s, pcol) as u8;
        seq![(row << 6) | (col as u32)] + dec_pairs(dec, nbb, dec_pair_rest(dec, nbb, s), n - 1, row, (col + 1) as u8)
    }
}
#[verifier::opaque]
spec fn dec_pairs_fits(dec: Seq<u16>, nbb: int, s: Seq<bool>, n: int, prow: u32, pcol: u8) -> bool decreases n {
    n <= 0 || (dec_pair_fits(dec, nbb, s, prow, pcol)
        && dec_pairs_fits(dec, nbb, dec_pair_rest(dec, nbb, s), n - 1, dec_pair_row(dec, nbb, s, prow) as u32, (dec_pair_col(dec, nbb, s, pcol) as u8 + 1) as u8))
}
spec fn flog2(x: int) -> int decreases x { if x <= 1 { 0 } else { 1 + flog2(x / 2) } }
spec fn golomb_nbb(k: int, count: int) -> int { let q = (k - count) / count; if q <= 0 { 0 } else { flog2(q) } }
spec fn pseudo_phase_spec(lg_k: u8, c: u32) -> int {
    let k = pow2(lg_k as nat) as int; let ci = c as int;
    if 1000 * ci < 2375 * k {
        if 4 * ci < 3 * k { 16 } else if 10 * ci < 11 * k { 17 } else if 100 * ci < 132 * k { 18 } else if 3 * ci < 5 * k { 19 }
        else if 1000 * ci < 1965 * k { 20 } else if 1000 * ci < 2275 * k { 21 } else { 6 }
    } else { ((c >> ((lg_k - 4) as u32)) & 15) as int }
}
spec fn byte_enc(phase: int) -> Seq<u16> { sp_byte_enc()@[phase]@ }
spec fn byte_dec(phase: int) -> Seq<u16> { sp_byte_dec()@[phase]@ }
spec fn is_window_image(words: Seq<u32>, phase: int, w: Seq<u8>) -> bool {
    let st = enc_bytes(byte_enc(phase), w);
    &&& 32 * words.len() >= st.len() + 11
    &&& words_bits(words) == st + zeros(32 * words.len() - st.len())
    &&& words.len() == (st.len() + 11 + 31) / 32
}
spec fn is_pairs_image(words: Seq<u32>, nbb: int, pairs: Seq<u32>) -> bool {
    let st = enc_pairs(llu_enc(), nbb, pairs, pairs.len() as int);
    &&& 32 * words.len() >= st.len() + pad_bits(nbb)
    &&& words_bits(words) == st + zeros(32 * words.len() - st.len())
    &&& words.len() == (st.len() + pad_bits(nbb) + 31) / 32
}
spec fn k_of(lg_k: u8) -> int { pow2(lg_k as nat) as int }
spec fn sorted_items(pairs: Seq<u32>, set: ISet<u32>) -> bool { pairs_ascending(pairs) && forall|x: u32| pairs.contains(x) <==> set.contains(x) }
spec fn table_image_of(words: Seq<u32>, num_entries: u32, lg_k: u8, set: ISet<u32>) -> bool {
    exists|pairs: Seq<u32>| #[trigger] sorted_items(pairs, set) && pairs.len() == num_entries && pairs.len() >= 1
        && is_pairs_image(words, golomb_nbb(k_of(lg_k) + pairs.len(), pairs.len() as int), pairs)
}
spec fn shift_cols(set: ISet<u32>) -> ISet<u32> { ISet::new(|y: u32| y + 8 <= u32::MAX && set.contains((y + 8) as u32)) }
spec fn unshift_has(d: Seq<u32>, x: u32) -> bool { x >= 8 && d.contains((x - 8) as u32) }
spec fn perm_enc(phase: int) -> Seq<u8> { sp_perm_enc()@[phase]@ }
spec fn perm_dec(phase: int) -> Seq<u8> { sp_perm_dec()@[phase]@ }
spec fn rot_col(p: u32, offset: u8) -> u8 { ((((p & 63) as u8) + 56 - offset) as u8) & 63 }
#[verifier::opaque]
spec fn slide_enc(p: u32, offset: u8, perm: Seq<u8>) -> u32 { ((p >> 6) << 6) | (perm[rot_col(p, offset) as int] as u32) }
#[verifier::opaque]
spec fn slide_dec(q: u32, offset: u8, permd: Seq<u8>) -> u32 { ((q >> 6) << 6) | ((((permd[((q & 63) as u8) as int] + (offset + 8)) as u8) & 63) as u32) }
spec fn slide_set(set: ISet<u32>, offset: u8, perm: Seq<u8>) -> ISet<u32> { ISet::new(|y: u32| exists|p: u32| #[trigger] set.contains(p) && slide_enc(p, offset, perm) == y) }
spec fn unslide_has(d: Seq<u32>, offset: u8, permd: Seq<u8>, x: u32) -> bool { exists|i: int| 0 <= i < d.len() && slide_dec(#[trigger] d[i], offset, permd) == x }
spec fn wbit(w: Seq<u8>, row: int, col: int) -> bool { bit8(w[row], col) }
spec fn win_pairs(w: Seq<u8>) -> ISet<u32> { ISet::new(|x: u32| (x & 63) < 8 && (x >> 6) < w.len() && bit8(w[(x >> 6) as int], (x & 63) as int)) }
spec fn hybrid_set(tbl: ISet<u32>, w: Seq<u8>) -> ISet<u32> { ISet::new(|x: u32| tbl.contains(x) || win_pairs(w).contains(x)) }
spec fn byte_pairs(row: int, b: u8, c: int) -> Seq<u32> decreases 8 - c {
    if c >= 8 || c < 0 { Seq::empty() } else { (if bit8(b, c) { seq![rc(row, c)] } else { Seq::<u32>::empty() }) + byte_pairs(row, b, c + 1) }
}
spec fn win_seq(w: Seq<u8>, rows: int) -> Seq<u32> decreases rows { if rows <= 0 { Seq::empty() } else { win_seq(w, rows - 1) + byte_pairs(rows - 1, w[rows - 1], 0) } }
spec fn win_count(w: Seq<u8>, rows: int) -> int { win_seq(w, rows).len() as int }
spec fn cs_is_default(c: CompressedState) -> bool {
    c.table_data@.len() == 0 && c.table_data_words == 0 && c.table_num_entries == 0 && c.window_data@.len() == 0 && c.window_data_words == 0
}
spec fn compress_image(c: CompressedState, s: CpcSketch) -> bool {
    let fl = flavor_spec(s.lg_k, s.num_coupons); let phase = pseudo_phase_spec(s.lg_k, s.num_coupons); let n_tbl = s.surprising_value_table->0.num_items;
    &&& c.table_data_words <= c.table_data@.len() && c.window_data_words <= c.window_data@.len()
    &&& fl is Empty ==> cs_is_default(c)
    &&& (fl is Sparse || fl is Hybrid) ==> c.window_data@.len() == 0 && c.window_data_words == 0
    &&& fl is Sparse ==> table_image_of(c.table_words(), c.table_num_entries, s.lg_k, s.tbl())
    &&& fl is Hybrid ==> table_image_of(c.table_words(), c.table_num_entries, s.lg_k, hybrid_set(s.tbl(), s.sliding_window@))
    &&& (fl is Pinned || fl is Sliding) ==> is_window_image(c.window_words(), phase, s.sliding_window@)
    &&& (fl is Pinned || fl is Sliding) && n_tbl == 0 ==> c.table_data@.len() == 0 && c.table_data_words == 0 && c.table_num_entries == 0
    &&& fl is Pinned && n_tbl > 0 ==> table_image_of(c.table_words(), c.table_num_entries, s.lg_k, shift_cols(s.tbl()))
    &&& fl is Sliding && n_tbl > 0 ==> table_image_of(c.table_words(), c.table_num_entries, s.lg_k, slide_set(s.tbl(), s.window_offset, perm_enc(phase)))
}
spec fn image_valid(c: CompressedState, lg_k: u8, nc: u32) -> bool {
    let fl = flavor_spec(lg_k, nc); let n = c.table_num_entries;
    &&& 4 <= lg_k <= 26
    &&& (fl is Sparse || fl is Hybrid) ==> c.window_data@.len() == 0 && c.table_data@.len() > 0 && c.table_valid(lg_k)
    &&& (fl is Pinned || fl is Sliding) ==> c.window_data@.len() > 0 && c.window_valid(lg_k, nc) && (n > 0 ==> c.table_data@.len() > 0 && c.table_valid(lg_k))
    &&& fl is Pinned && n > 0 ==> (forall|i: int| 0 <= i < n ==> (#[trigger] c.table_decoded(lg_k)[i] & 63) < 56 && c.table_decoded(lg_k)[i] + 8 != EMPTY)
    &&& fl is Sliding && n > 0 ==> dco(lg_k, nc) <= 56 && (forall|i: int| 0 <= i < n ==> (#[trigger] c.table_decoded(lg_k)[i] & 63) < 56
            && slide_dec(c.table_decoded(lg_k)[i], dco(lg_k, nc) as u8, perm_dec(pseudo_phase_spec(lg_k, nc))) != EMPTY)
}
spec fn decoded_as(r: UncompressedState, c: CompressedState, lg_k: u8, nc: u32) -> bool {
    let fl = flavor_spec(lg_k, nc); let n = c.table_num_entries; let d = c.table_decoded(lg_k);
    &&& r.table.wf() && r.table.num_valid_bits == 6 + lg_k
    &&& (fl is Empty || fl is Sparse) ==> r.window@.len() == 0
    &&& fl is Empty ==> r.table.items() =~= ISet::<u32>::empty()
    &&& fl is Sparse ==> forall|x: u32| #[trigger] r.table.items().contains(x) <==> d.contains(x)
    &&& fl is Hybrid ==> r.window@.len() == k_of(lg_k)
          && (forall|row: int, col: int| 0 <= row < k_of(lg_k) && 0 <= col < 8 ==> (#[trigger] wbit(r.window@, row, col) <==> d.contains(rc(row, col))))
          && (forall|x: u32| #[trigger] r.table.items().contains(x) <==> (d.contains(x) && (x & 63) >= 8))
    &&& (fl is Pinned || fl is Sliding) ==> r.window@ == c.window_decoded(lg_k, nc)
    &&& (fl is Pinned || fl is Sliding) && n == 0 ==> r.table.items() =~= ISet::<u32>::empty()
    &&& fl is Pinned && n > 0 ==> forall|x: u32| #[trigger] r.table.items().contains(x) <==> unshift_has(d, x)
    &&& fl is Sliding && n > 0 ==> forall|x: u32| #[trigger] r.table.items().contains(x) <==> unslide_has(d, dco(lg_k, nc) as u8, perm_dec(pseudo_phase_spec(lg_k, nc)), x)
}
spec fn transported(c: CompressedState, c2: CompressedState) -> bool {
    &&& c2.table_data@ == c.table_words() && c2.table_data_words == c.table_data_words && c2.table_num_entries == c.table_num_entries
    &&& c2.window_data@ == c.window_words() && c2.window_data_words == c.window_data_words
    &&& c.table_data_words <= c.table_data@.len() && c.window_data_words <= c.window_data@.len()
    &&& c2.table_data_words <= 0xffff_ffff && c2.window_data_words <= 0xffff_ffff
}
impl CpcSketch {
    spec fn coder_wf(&self) -> bool {
        &&& 4 <= self.lg_k <= 26
        &&& self.window_offset <= 56
        &&& (self.sliding_window@.len() == 0 || self.sliding_window@.len() == self.k())
        &&& self.surprising_value_table is Some && self.surprising_value_table->0.wf()
        &&& 4 * self.surprising_value_table->0.num_items <= 3 * 0x400_0000
        &&& (forall|x: u32| #[trigger] self.tbl().contains(x) ==> (x >> 6) < self.k() && x != EMPTY)
        &&& (self.sliding_window@.len() != 0 ==> forall|x: u32| #[trigger] self.tbl().contains(x) ==> !(self.window_offset <= (x & 63) < self.window_offset + 8))
    }
    spec fn compress_wf(&self) -> bool {
        let fl = flavor_spec(self.lg_k, self.num_coupons);
        &&& 4 <= self.lg_k <= 26
        &&& !(fl is Empty) ==> self.coder_wf()
        &&& fl is Sparse ==> self.sliding_window@.len() == 0 && self.surprising_value_table->0.num_items >= 1
        &&& (fl is Hybrid || fl is Pinned) ==> self.sliding_window@.len() == self.k() && self.window_offset == 0
        // CpcSketch::wf_count (unit cpc_update): every coupon is in the table or in the window
        &&& fl is Hybrid ==> self.num_coupons == self.surprising_value_table->0.num_items + win_count(self.sliding_window@, self.k())
        &&& fl is Sliding ==> self.sliding_window@.len() == self.k()
    }
}
impl CompressedState {
    spec fn table_words(&self) -> Seq<u32> { self.table_data@.take(self.table_data_words as int) }
    spec fn window_words(&self) -> Seq<u32> { self.window_data@.take(self.window_data_words as int) }
    spec fn nbb(&self, lg_k: u8) -> int { golomb_nbb(k_of(lg_k) + self.table_num_entries, self.table_num_entries as int) }
    spec fn table_decoded(&self, lg_k: u8) -> Seq<u32> { dec_pairs(llu_dec(), self.nbb(lg_k), words_bits(self.table_data@), self.table_num_entries as int, 0, 0) }
    spec fn table_valid(&self, lg_k: u8) -> bool {
        let n = self.table_num_entries as int; let d = self.table_decoded(lg_k);
        &&& self.table_data@.len() == self.table_data_words && self.table_data_words <= 0xffff_ffff
        &&& 1 <= n && 4 * n <= 3 * 0x400_0000 && 4 * n <= 3 * pow2((5 + lg_k) as nat)
        &&& dec_pairs_fits(llu_dec(), self.nbb(lg_k), words_bits(self.table_data@), n, 0, 0)
        // (row 2^26 - 1, column 63) IS the EMPTY marker of PairTable when lg_k = 26: excluded explicitly
        &&& forall|i: int| 0 <= i < n ==> (#[trigger] d[i] >> 6) < k_of(lg_k) && d[i] != EMPTY
        &&& forall|i: int, j: int| 0 <= i < j < n ==> d[i] != d[j]
    }
    spec fn window_decoded(&self, lg_k: u8, num_coupons: u32) -> Seq<u8> { dec_bytes(byte_dec(pseudo_phase_spec(lg_k, num_coupons)), words_bits(self.window_data@), k_of(lg_k)) }
    spec fn window_valid(&self, lg_k: u8, num_coupons: u32) -> bool {
        &&& self.window_data@.len() == self.window_data_words
        &&& dec_bytes_fits(byte_dec(pseudo_phase_spec(lg_k, num_coupons)), words_bits(self.window_data@), k_of(lg_k))
    }
}

// the SHAPE of what `compress` leaves (VERBATIM from contracts/cpc_coder.rs)
spec fn coder_shape(fl: Flavor, c: CompressedState) -> bool {
    &&& c.table_data_words <= c.table_data@.len() && c.window_data_words <= c.window_data@.len()
    &&& c.table_data_words <= 0xffff_ffff && c.window_data_words <= 0xffff_ffff
    &&& fl is Empty ==> cs_is_default(c)
    &&& (fl is Sparse || fl is Hybrid) ==> c.window_data@.len() == 0 && c.table_data@.len() > 0
    &&& (fl is Pinned || fl is Sliding) ==> c.window_data@.len() > 0 && (c.table_num_entries > 0 ==> c.table_data@.len() > 0)
}
// C11 for the coder as a whole, PROVED in unit cpc_coder (contracts/cpc_coder.rs, `lemma_coder_roundtrip`: statement VERBATIM, body there).
// Imported here as an axiom about the shared vocabulary; it is the only fact about the CONTENT of the compressed words this unit uses.
#[verifier::external_body]
proof fn lemma_coder_roundtrip(s: CpcSketch, c: CompressedState, c2: CompressedState, r: UncompressedState)
  requires s.compress_wf(), compress_image(c, s), transported(c, c2),
    // the decoder's table capacity (PairTable::from_slots: C14.cpc.from_slots.fits of unit cpc_codec)
    4 * c.table_num_entries <= 3 * 0x400_0000 && 4 * c.table_num_entries <= 3 * pow2((5 + s.lg_k) as nat),
    // CpcSketch::wf_offset (unit cpc_core): the window offset is the function of (lg_k, C) that the decoder recomputes
    flavor_spec(s.lg_k, s.num_coupons) is Sliding ==> s.window_offset == dco(s.lg_k, s.num_coupons),
    // PairTable::wf (unit cpc_pairtable): no items counted = no items held
    !(flavor_spec(s.lg_k, s.num_coupons) is Empty) && s.surprising_value_table->0.num_items == 0 ==> s.tbl() =~= ISet::<u32>::empty(),
  ensures
    /*@C11.cpc.coder_image_valid*/ image_valid(c2, s.lg_k, s.num_coupons),
    /*@C11.cpc.coder_roundtrip_table*/ decoded_as(r, c2, s.lg_k, s.num_coupons) && !(flavor_spec(s.lg_k, s.num_coupons) is Empty) ==> r.table.items() =~= s.tbl(),
    /*@C11.cpc.coder_roundtrip_window*/ decoded_as(r, c2, s.lg_k, s.num_coupons) && !(flavor_spec(s.lg_k, s.num_coupons) is Empty) ==> r.window@ =~= s.sliding_window@,
    decoded_as(r, c2, s.lg_k, s.num_coupons) && flavor_spec(s.lg_k, s.num_coupons) is Empty ==> r.window@.len() == 0 && r.table.items() =~= ISet::<u32>::empty(),
{
}
// the state a parsed image hands to the decompressor
spec fn cs_of(b: Seq<u8>) -> CsView {
    CsView { table: fld_table(b), table_words: fld_sv_len(b) as int, num_entries: fld_num_sv(b), window: fld_window(b), window_words: fld_w_len(b) as int }
}
// What the decompressor needs from the PARSER in order not to panic / over-allocate (read off its body), clause by clause:
// debug_assert!s of uncompress_*_flavor; in release `words[0]` of an empty vec is read
spec fn cs_flavor_ok(fl: Flavor, c: CsView) -> bool {
    &&& (fl is Sparse || fl is Hybrid) ==> c.window.len() == 0 && c.table.len() > 0
    &&& (fl is Pinned || fl is Sliding) ==> c.window.len() > 0 && (c.num_entries > 0 ==> c.table.len() > 0)
}
// `k + num_pairs` (u32) in uncompress_surprising_values
spec fn cs_pairs_u32_ok(fl: Flavor, c: CsView, lg_k: u8) -> bool { !(fl is Empty) ==> pow2(lg_k as nat) + c.num_entries <= 0xffff_ffff }
// `vec![0; num_pairs]` and the decode loop are driven by table_num_entries; every pair consumes at least 2 bits of table_data
spec fn cs_alloc_pairs_ok(fl: Flavor, c: CsView) -> bool { !(fl is Empty) ==> 2 * c.num_entries <= 32 * c.table_words }
// `window.resize(k, 0)` and the decode loop: every window byte consumes at least 1 bit of window_data (`words[*word_index]` is unchecked)
spec fn cs_window_bits_ok(fl: Flavor, c: CsView, lg_k: u8) -> bool { (fl is Pinned || fl is Sliding) ==> pow2(lg_k as nat) <= 32 * c.window_words }
// `assert!(offset <= 56)` in uncompress_sliding_flavor
spec fn cs_offset_ok(fl: Flavor, c: CsView, lg_k: u8, num_coupons: u32) -> bool { fl is Sliding && c.num_entries > 0 ==> dco(lg_k, num_coupons) <= 56 }
#[verifier::opaque]
spec fn uncompress_pre(c: CsView, lg_k: u8, num_coupons: u32) -> bool {
    let fl = flavor_spec(lg_k, num_coupons);
    cs_flavor_ok(fl, c) && cs_pairs_u32_ok(fl, c, lg_k) && cs_alloc_pairs_ok(fl, c) && cs_window_bits_ok(fl, c, lg_k) && cs_offset_ok(fl, c, lg_k, num_coupons)
}

impl CompressedState {
    spec fn cview(&self) -> CsView {
        CsView { table: self.table_data@, table_words: self.table_data_words as int, num_entries: self.table_num_entries, window: self.window_data@, window_words: self.window_data_words as int }
    }
    // #[derive(Default)]
    #[verifier::external_body]
    fn default() -> (r: Self) ensures r.cview() == cs_default() { unimplemented!() }

    // OPAQUE here (FM85 entropy coder); contract VERBATIM from the one PROVED in contracts/cpc_coder.rs
    #[verifier::external_body]
    fn compress(&mut self, source: &CpcSketch)
      requires cs_is_default(*old(self)),
        /*@C12.cpc.compress_wf*/ source.compress_wf(),
      ensures compress_image(*final(self), *source),
        coder_shape(flavor_spec(source.lg_k, source.num_coupons), *final(self)),
        flavor_spec(source.lg_k, source.num_coupons) is Sparse ==> final(self).table_num_entries == source.surprising_value_table->0.num_items,
        flavor_spec(source.lg_k, source.num_coupons) is Hybrid ==> final(self).table_num_entries == source.num_coupons,
    { unimplemented!() }

    // OPAQUE here (FM85 entropy decoder).  The preconditions are what its body needs from the PARSER not to panic / over-allocate; the
    // postconditions are VERBATIM the ones PROVED in contracts/cpc_coder.rs (C13.cpc.coder_uncompress_*).
    #[verifier::external_body]
    fn uncompress(&self, lg_k: u8, num_coupons: u32) -> (r: UncompressedState)
      requires
        4 <= lg_k <= 26,
        /*@C14.cpc.uncompress.words*/ self.table_data@.len() == self.table_data_words && self.table_data_words <= 0xffff_ffff,
        /*@C14.cpc.uncompress.words*/ self.window_data@.len() == self.window_data_words && self.window_data_words <= 0xffff_ffff,
        /*@C14.cpc.uncompress.pre*/ uncompress_pre(self.cview(), lg_k, num_coupons),
        // what unit cpc_coder's PROOF of the decoder needs: the words are a valid image for (lg_k, C) - the streams fit and decode to
        // distinct coupons of a 2^lg_k-row matrix.  The parser establishes none of it (same known finding as uncompress_pre).
        /*@C14.cpc.uncompress.pre*/ image_valid(*self, lg_k, num_coupons),
      ensures
        decoded_as(r, *self, lg_k, num_coupons),
        r.table.wf(), r.table.num_valid_bits == 6 + lg_k,
        r.window@.len() == (if flavor_spec(lg_k, num_coupons) is Empty || flavor_spec(lg_k, num_coupons) is Sparse { 0 } else { pow2(lg_k as nat) as int }),
        flavor_spec(lg_k, num_coupons) is Empty ==> r.table.num_items == 0,
        flavor_spec(lg_k, num_coupons) is Sparse ==> r.table.num_items == self.table_num_entries,
        // pinned: `+= 8` after `assert!(col < 56)`; sliding: permutation into [0,56) then rotation by offset + 8; hybrid: columns < 8 go to the window
        dco(lg_k, num_coupons) <= 56 && r.window@.len() != 0 ==> forall|x: u32| r.table.items().contains(x) ==> !(dco(lg_k, num_coupons) <= (x & 63) < dco(lg_k, num_coupons) + 8),
    { unimplemented!() }
}

// what `compress` leaves for sketch s: the postcondition of `compress` (PROVED in unit cpc_coder), as one predicate
spec fn serialized_state(s: CpcSketch, c: CompressedState) -> bool {
    let fl = flavor_spec(s.lg_k, s.num_coupons);
    &&& compress_image(c, s) && coder_shape(fl, c)
    &&& fl is Sparse ==> c.table_num_entries == s.surprising_value_table->0.num_items
    &&& fl is Hybrid ==> c.table_num_entries == s.num_coupons
}

// OPAQUE (Golomb / length-limited-unary pair decoder).  Only the length of the result is assumed; the preconditions are what its body needs.
#[verifier::external_body]
fn uncompress_surprising_values(
    data: &[u32],
    data_words: usize,
    num_pairs: u32,
    lg_k: u8,
) -> (r: Vec<u32>)
  requires 4 <= lg_k <= 26,
    /*@C14.cpc.usv.words*/ data@.len() == data_words, data_words <= 0xffff_ffff,
    /*@C14.cpc.usv.pairs_u32*/ pow2(lg_k as nat) + num_pairs <= 0xffff_ffff,
    /*@C14.cpc.usv.alloc_pairs*/ 2 * num_pairs <= 32 * data@.len(),
  ensures r@.len() == num_pairs
{ unimplemented!() }

impl CompressedState {
    // the sparse arm of `uncompress`, real body: REACHED FROM deserialize; nothing is known of `self` but what the parser established (cs_of(bytes))
    fn uncompress_sparse_flavor ( & self , lg_k : u8 ) -> ( r : UncompressedState ) requires 4 <= lg_k <= 26 ,
/*@C14.cpc.sparse.flags*/ self . window_data @ . len ( ) == 0 && self . table_data @ . len ( ) > 0 ,
/*@C14.cpc.sparse.words*/ self . table_data @ . len ( ) == self . table_data_words && self . table_data_words <= 0xffff_ffff , ensures r . window @ . len ( ) == 0 , r . table . wf ( ) , r . table . num_valid_bits == 6 + lg_k , r . table . num_items == self . table_num_entries {
debug_assert! ( self . window_data . is_empty ( ) ) ;
debug_assert! ( ! self . table_data . is_empty ( ) ) ;
let pairs = uncompress_surprising_values ( & self . table_data , self . table_data_words , self . table_num_entries , lg_k , ) ;
UncompressedState {
table : PairTable :: from_slots ( lg_k , self . table_num_entries , pairs ) , window : vec! [ ] , }
}

}

impl CpcSketch {
    spec fn k(&self) -> int { pow2(self.lg_k as nat) as int }
    spec fn tbl(&self) -> ISet<u32> { if self.surprising_value_table is Some { self.surprising_value_table->0.items() } else { ISet::empty() } }
    spec fn mbit(&self, row: int, col: int) -> bool {
        let off = self.window_offset as int;
        if self.sliding_window@.len() != 0 && off <= col < off + 8 { bit8(self.sliding_window@[row], col - off) }
        else if col < off { !self.tbl().contains(rc(row, col)) }
        else { self.tbl().contains(rc(row, col)) }
    }
    // wf_matrix of cpc_update, clause by clause
    spec fn wf_lgk(&self) -> bool { 4 <= self.lg_k <= 26 }
    spec fn wf_offset(&self) -> bool { self.window_offset <= 56 }
    spec fn wf_window_len(&self) -> bool { self.sliding_window@.len() == 0 || self.sliding_window@.len() == self.k() }
    spec fn wf_table(&self) -> bool { self.num_coupons != 0 ==> self.surprising_value_table is Some && self.surprising_value_table->0.wf() }
    spec fn wf_rows(&self) -> bool { self.num_coupons != 0 ==> forall|x: u32| #[trigger] self.tbl().contains(x) ==> (x >> 6) < self.k() }
    spec fn wf_window_cols(&self) -> bool {
        self.num_coupons != 0 && self.sliding_window@.len() != 0 ==> forall|x: u32| self.tbl().contains(x) ==> !(self.window_offset <= (x & 63) < self.window_offset + 8)
    }
    spec fn wf_empty(&self) -> bool {
        self.num_coupons == 0 ==> self.window_offset == 0 && self.sliding_window@.len() == 0 && (self.surprising_value_table is Some ==> self.tbl() =~= ISet::empty())
    }
    spec fn wf_matrix(&self) -> bool {
        self.wf_lgk() && self.wf_offset() && self.wf_window_len() && self.wf_table() && self.wf_rows() && self.wf_window_cols() && self.wf_empty()
    }
    spec fn tbl_nvb_ok(&self) -> bool { self.surprising_value_table is Some && self.surprising_value_table->0.num_valid_bits == 6 + self.lg_k }
    spec fn windowed(&self) -> bool { self.sliding_window@.len() != 0 }
    spec fn fic_ok(&self) -> bool {
        &&& self.first_interesting_column <= self.window_offset
        &&& forall|r: int, c: int| 0 <= r < self.k() && 0 <= c < self.first_interesting_column ==> self.mbit(r, c)
    }
    spec fn thresholds(&self) -> bool {
        let c = self.num_coupons as int; let k = self.k(); let off = self.window_offset as int;
        &&& !self.windowed() ==> off == 0 && 32 * c < 3 * k
        &&& self.windowed() ==> 32 * c >= 3 * k && 8 * c < (27 + 8 * off) * k && (off > 0 ==> 8 * c >= (27 + 8 * (off - 1)) * k)
    }
    spec fn wf_nvb(&self) -> bool { self.num_coupons != 0 ==> self.tbl_nvb_ok() }
    spec fn wf_sparse_count(&self) -> bool { self.num_coupons != 0 && !self.windowed() ==> self.surprising_value_table->0.num_items == self.num_coupons }
    spec fn wf(&self) -> bool { self.wf_matrix() && self.fic_ok() && self.thresholds() && self.wf_nvb() && self.wf_sparse_count() }

    // what the codec needs of a sketch: configuration ranges and the seed hash (with_seed asserts both)
    spec fn wf_codec(&self) -> bool {
        4 <= self.lg_k <= 26 && self.first_interesting_column <= 63 && self.seed_hash == seed_hash_spec(self.seed) && seed_hash_spec(self.seed) != 0
    }
    // the image view of a sketch, given its compressed payload
    spec fn img(&self, c: CsView) -> CpcImg {
        let has_table = c.table.len() > 0; let has_window = c.window.len() > 0; let ne = has_table || has_window; let hip = !self.merge_flag;
        CpcImg { lg_k: self.lg_k, fic: self.first_interesting_column, seed_hash: self.seed_hash, has_hip: hip, has_table, has_window,
                 num_coupons: self.num_coupons,
                 num_sv: if has_table && has_window { c.num_entries } else if has_table { self.num_coupons } else { 0 },
                 kxp: if ne && hip { f64_bits(self.kxp) } else { 0 }, hip: if ne && hip { f64_bits(self.hip_est_accum) } else { 0 },
                 window: c.window.take(c.window_words), table: c.table.take(c.table_words) }
    }

    fn is_empty ( & self ) -> ( r : bool ) ensures r == ( self . num_coupons == 0 ) {
self . num_coupons == 0 }


    fn write_hip ( & self , bytes : & mut SketchBytes ) ensures final ( bytes ) @ == old ( bytes ) @ + ( le64_bytes ( f64_bits ( self . kxp ) ) + le64_bytes ( f64_bits ( self . hip_est_accum ) ) ) {
bytes . write_f64_le ( self . kxp ) ;
bytes . write_f64_le ( self . hip_est_accum ) ;
proof {
assert ( bytes @ =~= old ( bytes ) @ + ( le64_bytes ( f64_bits ( self . kxp ) ) + le64_bytes ( f64_bits ( self . hip_est_accum ) ) ) ) ;
}
}


    fn serialize ( & self ) -> ( r : Vec < u8 > ) requires self . wf_codec ( ) ,
/*@C12.cpc.compress_wf*/ self . compress_wf ( ) , ensures
/*@C12.cpc.preamble*/ exists | c : CompressedState | # [ trigger ] serialized_state ( * self , c ) && r @ == enc_cpc ( self . img ( c . cview ( ) ) ) ,
/*@C11.cpc.serialize_decodes*/ exists | c : CompressedState | # [ trigger ] serialized_state ( * self , c ) && r @ == enc_cpc ( self . img ( c . cview ( ) ) ) && cpc_decode ( r @ ) == Some ( self . img ( c . cview ( ) ) ) , {
let mut bytes = SketchBytes :: with_capacity ( 256 ) ;
let mut compressed = CompressedState :: default ( ) ;
compressed . compress ( self ) ;
let ghost c = compressed . cview ( ) ;
let ghost v = self . img ( c ) ;
proof {
lemma_k_bound ( self . lg_k ) ;
}
let has_hip = ! self . merge_flag ;
let has_table = ! compressed . table_data . is_empty ( ) ;
let has_window = ! compressed . window_data . is_empty ( ) ;
let preamble_ints = make_preamble_ints ( self . num_coupons , has_hip , has_table , has_window ) ;
bytes . write_u8 ( preamble_ints ) ;
bytes . write_u8 ( SERIAL_VERSION ) ;
bytes . write_u8 ( Family :: CPC . id ) ;
bytes . write_u8 ( self . lg_k ) ;
bytes . write_u8 ( self . first_interesting_column ) ;
proof {
let h : u8 = if has_hip {
1 }
else {
0 }
;
let t : u8 = if has_table {
1 }
else {
0 }
;
let w : u8 = if has_window {
1 }
else {
0 }
;
assert ( h <= 1 && t <= 1 && w <= 1 ==> ( ( 1u8 << 1u8 ) | ( h << 2u8 ) | ( t << 3u8 ) | ( w << 4u8 ) ) == 2 + 4 * h + 8 * t + 16 * w ) by ( bit_vector ) ;
}
let flags = ( 1 << FLAG_COMPRESSED ) | ( if has_hip {
1 }
else {
0 }
<< FLAG_HAS_HIP ) | ( if has_table {
1 }
else {
0 }
<< FLAG_HAS_TABLE ) | ( if has_window {
1 }
else {
0 }
<< FLAG_HAS_WINDOW ) ;
bytes . write_u8 ( flags ) ;
debug_assert! ( self . seed_hash == compute_seed_hash ( self . seed ) ) ;
bytes . write_u16_le ( self . seed_hash ) ;
proof {
assert ( bytes @ =~= enc_cpc_header ( v ) ) ;
}
let ghost h = bytes @ ;
if ! self . is_empty ( ) {
bytes . write_u32_le ( self . num_coupons ) ;
if has_table && has_window {
bytes . write_u32_le ( compressed . table_num_entries ) ;
if has_hip {
self . write_hip ( & mut bytes ) ;
}
}
proof {
assert ( bytes @ =~= h + ( le32_bytes ( v . num_coupons ) + fp_sv ( v ) + fp_hip1 ( v ) ) ) ;
}
if has_table {
debug_assert! ( compressed . table_data_words <= u32 :: MAX as usize ) ;
bytes . write_u32_le ( compressed . table_data_words as u32 ) ;
}
if has_window {
debug_assert! ( compressed . window_data_words <= u32 :: MAX as usize ) ;
bytes . write_u32_le ( compressed . window_data_words as u32 ) ;
}
if has_hip && ! ( has_table && has_window ) {
self . write_hip ( & mut bytes ) ;
}
proof {
assert ( bytes @ =~= h + enc_cpc_fields ( v ) ) ;
}
let ghost hf = bytes @ ;
if has_window {
for i in 0 .. compressed . window_data_words invariant compressed . cview ( ) == c , c . window_words <= c . window . len ( ) , bytes @ == hf + enc_u32s ( c . window . take ( i as int ) ) , {
bytes . write_u32_le ( compressed . window_data [ i ] ) ;
proof {
assert ( c . window . take ( i as int + 1 ) =~= c . window . take ( i as int ) . push ( c . window [ i as int ] ) ) ;
lemma_enc_u32s_push ( c . window . take ( i as int ) , c . window [ i as int ] ) ;
assert ( bytes @ =~= hf + enc_u32s ( c . window . take ( i as int + 1 ) ) ) ;
}
}
}
else {
proof {
assert ( c . window . take ( 0 ) =~= Seq :: < u32 > :: empty ( ) ) ;
assert ( hf + enc_u32s ( Seq :: < u32 > :: empty ( ) ) =~= hf ) ;
}
}
let ghost hfw = bytes @ ;
if has_table {
for i in 0 .. compressed . table_data_words invariant compressed . cview ( ) == c , c . table_words <= c . table . len ( ) , bytes @ == hfw + enc_u32s ( c . table . take ( i as int ) ) , {
bytes . write_u32_le ( compressed . table_data [ i ] ) ;
proof {
assert ( c . table . take ( i as int + 1 ) =~= c . table . take ( i as int ) . push ( c . table [ i as int ] ) ) ;
lemma_enc_u32s_push ( c . table . take ( i as int ) , c . table [ i as int ] ) ;
assert ( bytes @ =~= hfw + enc_u32s ( c . table . take ( i as int + 1 ) ) ) ;
}
}
}
else {
proof {
assert ( c . table . take ( 0 ) =~= Seq :: < u32 > :: empty ( ) ) ;
assert ( hfw + enc_u32s ( Seq :: < u32 > :: empty ( ) ) =~= hfw ) ;
}
}
proof {
assert ( bytes @ =~= enc_cpc ( v ) ) ;
}
}
proof {
assert ( bytes @ == enc_cpc ( v ) ) ;
assert ( img_canon ( v ) ) ;
lemma_cpc_framing_roundtrip ( v ) ;
assert ( serialized_state ( * self , compressed ) ) ;
}
bytes . into_bytes ( ) }

}


// =====================================================================================================================
// Readers.  cpc_header_spec is what BOTH readers are shown to compute from the preamble; it differs from the format spec only in
// the preInts test, which the code keys on numCoupons > 0 (make_preamble_ints) while the field layout is keyed on the flags.
// =====================================================================================================================
spec fn cpc_pre_ints_as_checked(b: Seq<u8>) -> bool { b[0] == pre_ints_spec(fld_num_coupons(b) > 0, f_hip(b), f_table(b), f_window(b)) }
spec fn cpc_hdr_ok(b: Seq<u8>) -> bool { cpc_magic_ok(b) && cpc_pre_len_ok(b) && cpc_ranges_ok(b) && cpc_pre_ints_as_checked(b) }
ghost struct CpcHdr { lg_k: u8, merge_flag: bool, num_coupons: u32, hip_est_accum: f64 }
spec fn hip_value(b: Seq<u8>) -> f64 { if hip_present(b) { f64_of_bits(fld_hip_bits(b)) } else { 0.0f64 } }
// kxp as read from the image (0.0 when the image carries no HIP fields) ...
spec fn kxp_read(b: Seq<u8>) -> f64 { if hip_present(b) { f64_of_bits(fld_kxp_bits(b)) } else { 0.0f64 } }
// ... and as delivered: an image without table and window fields stores no kxp, the reader restores the value of a fresh sketch
uninterp spec fn kxp_fresh(lg_k: u8) -> f64;      // (1 << lg_k) as f64
spec fn kxp_value(b: Seq<u8>) -> f64 { if f_nonempty(b) { kxp_read(b) } else { kxp_fresh(b[3]) } }
// R15 float leaf: `(1u64 << lg_k) as f64` (shim body is the original expression)
#[verifier::external_body]
fn vx_kxp_fresh(lg_k: u8) -> (r: f64) requires lg_k < 64 ensures r == kxp_fresh(lg_k) { (1u64 << lg_k) as f64 }
spec fn cpc_header_spec(b: Seq<u8>) -> Option<CpcHdr> {
    if cpc_hdr_ok(b) { Some(CpcHdr { lg_k: b[3], merge_flag: !f_hip(b), num_coupons: fld_num_coupons(b), hip_est_accum: hip_value(b) }) } else { None }
}
// the images the full parser accepts (given that the decompressor's preconditions are met)
spec fn cpc_accepts(b: Seq<u8>, seed: u64) -> bool { cpc_hdr_ok(b) && cpc_payload_ok(b) && fld_seed_hash(b) == seed_hash_spec(seed) }

proof fn lemma_flag_masks()
  ensures (1u8 << 1u8) == 2u8, (1u8 << 2u8) == 4u8, (1u8 << 3u8) == 8u8, (1u8 << 4u8) == 16u8
{
    assert((1u8 << 1u8) == 2u8 && (1u8 << 2u8) == 4u8 && (1u8 << 3u8) == 8u8 && (1u8 << 4u8) == 16u8) by (bit_vector);
}

impl CpcSketch {
    spec fn hdr(&self) -> CpcHdr { CpcHdr { lg_k: self.lg_k, merge_flag: self.merge_flag, num_coupons: self.num_coupons, hip_est_accum: self.hip_est_accum } }

    fn deserialize ( bytes : & [ u8 ] ) -> ( r : Result < Self , Error > ) requires seed_hash_spec ( DEFAULT_UPDATE_SEED ) != 0 ensures
/*@C13.cpc.default_seed*/ r matches Ok ( s ) ==> s . seed == DEFAULT_UPDATE_SEED && cpc_header_spec ( bytes @ ) == Some ( s . hdr ( ) ) , {
Self :: deserialize_with_seed ( bytes , DEFAULT_UPDATE_SEED ) }


    fn deserialize_with_seed ( bytes : & [ u8 ] , seed : u64 ) -> ( r : Result < Self , Error > ) requires seed_hash_spec ( seed ) != 0 ensures
/*@C14.cpc.rejects_magic*/ r is Ok ==> cpc_magic_ok ( bytes @ ) ,
/*@C14.cpc.rejects_truncated*/ r is Ok ==> cpc_pre_len_ok ( bytes @ ) && cpc_payload_ok ( bytes @ ) ,
/*@C14.cpc.rejects_ranges*/ r is Ok ==> cpc_ranges_ok ( bytes @ ) ,
/*@C14.cpc.rejects_seed*/ r is Ok ==> fld_seed_hash ( bytes @ ) == seed_hash_spec ( seed ) ,
/*@C13.cpc.pre_ints_as_checked*/ r is Ok ==> cpc_pre_ints_as_checked ( bytes @ ) ,
/*@C13.cpc.decodes*/ r is Ok && cpc_nonempty_ok ( bytes @ ) ==> cpc_decode ( bytes @ ) is Some ,
/*@C13.cpc.fields*/ r matches Ok ( s ) ==> s . lg_k == bytes @ [ 3 ] && s . first_interesting_column == bytes @ [ 4 ] && s . seed_hash == fld_seed_hash ( bytes @ ) && s . seed == seed && s . num_coupons == fld_num_coupons ( bytes @ ) && s . merge_flag == ! f_hip ( bytes @ ) ,
/*@C13.cpc.hip*/ r matches Ok ( s ) ==> s . kxp == kxp_value ( bytes @ ) && s . hip_est_accum == hip_value ( bytes @ ) ,
/*@C13.cpc.hip_bits*/ r matches Ok ( s ) ==> hip_present ( bytes @ ) ==> f64_bits ( s . kxp ) == fld_kxp_bits ( bytes @ ) && f64_bits ( s . hip_est_accum ) == fld_hip_bits ( bytes @ ) ,
/*@C13.cpc.payload*/ r matches Ok ( s ) ==> s . surprising_value_table is Some && ( exists | c : CompressedState , u : UncompressedState | c . cview ( ) == cs_of ( bytes @ ) && # [ trigger ] decoded_as ( u , c , s . lg_k , s . num_coupons ) && s . surprising_value_table -> 0 == u . table && s . sliding_window == u . window ) ,
/*@C13.cpc.header_spec*/ r matches Ok ( s ) ==> cpc_header_spec ( bytes @ ) == Some ( s . hdr ( ) ) ,
/*@C13.cpc.accepts*/ cpc_accepts ( bytes @ , seed ) ==> r is Ok ,
/*@C13.cpc.delivers*/ r matches Ok ( s ) ==> deser_delivers ( bytes @ , seed , s ) ,
/*@C14.cpc.wf.lgk*/ r matches Ok ( s ) ==> s . wf_lgk ( ) ,
/*@C14.cpc.wf.window_len*/ r matches Ok ( s ) ==> s . wf_window_len ( ) ,
/*@C14.cpc.wf.table*/ r matches Ok ( s ) ==> s . wf_table ( ) ,
/*@C14.cpc.wf.rows*/ r matches Ok ( s ) ==> s . wf_rows ( ) ,
/*@C14.cpc.wf.empty*/ r matches Ok ( s ) ==> s . wf_empty ( ) ,
/*@C14.cpc.wf.nvb*/ r matches Ok ( s ) ==> s . wf_nvb ( ) ,
/*@C14.cpc.wf.windowed*/ r matches Ok ( s ) ==> ( s . windowed ( ) <==> 32 * ( s . num_coupons as int ) >= 3 * s . k ( ) ) ,
/*@C13.cpc.offset*/ r matches Ok ( s ) ==> ( dco ( s . lg_k , s . num_coupons ) <= 255 ==> s . window_offset == dco ( s . lg_k , s . num_coupons ) ) ,
/*@C13.cpc.sparse_entries*/ r matches Ok ( s ) ==> ( flavor_spec ( s . lg_k , s . num_coupons ) is Sparse ==> s . surprising_value_table -> 0 . num_items == fld_num_sv ( bytes @ ) ) ,
/*@C13.cpc.window_cols*/ r matches Ok ( s ) ==> ( dco ( s . lg_k , s . num_coupons ) <= 56 ==> s . wf_window_cols ( ) ) , {
let ghost b = bytes @ ;
let ghost mut pos : int = 0 ;
proof {
lemma_flag_masks ( ) ;
}
let mut cursor = SketchSlice :: new ( bytes ) ;
let preamble_ints = cursor . read_u8 ( ) . vx_io ( "preamble_ints" ) ? ;
proof {
lemma_read ( b , pos , 1 ) ;
pos = pos + 1 ;
}
let serial_version = cursor . read_u8 ( ) . vx_io ( "serial_version" ) ? ;
proof {
lemma_read ( b , pos , 1 ) ;
pos = pos + 1 ;
}
let family_id = cursor . read_u8 ( ) . vx_io ( "family_id" ) ? ;
proof {
lemma_read ( b , pos , 1 ) ;
pos = pos + 1 ;
}
Family :: CPC . validate_id ( family_id ) ? ;
ensure_serial_version_is ( SERIAL_VERSION , serial_version ) ? ;
let lg_k = cursor . read_u8 ( ) . vx_io ( "lg_k" ) ? ;
proof {
lemma_read ( b , pos , 1 ) ;
pos = pos + 1 ;
}
let first_interesting_column = cursor . read_u8 ( ) . vx_io ( "first_interesting_column" ) ? ;
proof {
lemma_read ( b , pos , 1 ) ;
pos = pos + 1 ;
}
let flags = cursor . read_u8 ( ) . vx_io ( "flags" ) ? ;
proof {
lemma_read ( b , pos , 1 ) ;
pos = pos + 1 ;
}
let seed_hash = cursor . read_u16_le ( ) . vx_io ( "seed_hash" ) ? ;
proof {
lemma_read ( b , pos , 2 ) ;
pos = pos + 2 ;
}
let is_compressed = flags & ( 1 << FLAG_COMPRESSED ) != 0 ;
if ! is_compressed {
return Err ( Error :: new ( ErrorKind :: InvalidData , "only compressed sketches are supported" , ) ) ;
}
let has_hip = flags & ( 1 << FLAG_HAS_HIP ) != 0 ;
let has_table = flags & ( 1 << FLAG_HAS_TABLE ) != 0 ;
let has_window = flags & ( 1 << FLAG_HAS_WINDOW ) != 0 ;
proof {
assert ( has_hip == f_hip ( b ) && has_table == f_table ( b ) && has_window == f_window ( b ) && f_compressed ( b ) ) ;
}
let mut compressed = CompressedState :: default ( ) ;
let mut num_coupons = 0 ;
let mut kxp = 0.0 ;
let mut hip_est_accum = 0.0 ;
if has_table || has_window {
num_coupons = cursor . read_u32_le ( ) . vx_io ( "num_coupons" ) ? ;
proof {
lemma_read ( b , pos , 4 ) ;
pos = pos + 4 ;
}
if has_table && has_window {
compressed . table_num_entries = cursor . read_u32_le ( ) . vx_io ( "table_num_entries" ) ? ;
proof {
lemma_read ( b , pos , 4 ) ;
pos = pos + 4 ;
}
if has_hip {
kxp = cursor . read_f64_le ( ) . vx_io ( "kxp" ) ? ;
proof {
lemma_read ( b , pos , 8 ) ;
pos = pos + 8 ;
}
hip_est_accum = cursor . read_f64_le ( ) . vx_io ( "hip_est_accum" ) ? ;
proof {
lemma_read ( b , pos , 8 ) ;
pos = pos + 8 ;
}
}
}
proof {
assert ( pos == off_svlen ( b ) ) ;
}
if has_table {
compressed . table_data_words = cursor . read_u32_le ( ) . vx_io ( "table_data_words" ) ? as usize ;
proof {
lemma_read ( b , pos , 4 ) ;
pos = pos + 4 ;
}
}
if has_window {
compressed . window_data_words = cursor . read_u32_le ( ) . vx_io ( "window_data_words" ) ? as usize ;
proof {
lemma_read ( b , pos , 4 ) ;
pos = pos + 4 ;
}
}
proof {
assert ( pos == off_hip2 ( b ) ) ;
}
if has_hip && ! ( has_table && has_window ) {
kxp = cursor . read_f64_le ( ) . vx_io ( "kxp" ) ? ;
proof {
lemma_read ( b , pos , 8 ) ;
pos = pos + 8 ;
}
hip_est_accum = cursor . read_f64_le ( ) . vx_io ( "hip_est_accum" ) ? ;
proof {
lemma_read ( b , pos , 8 ) ;
pos = pos + 8 ;
}
}
proof {
assert ( pos == pre_end ( b ) ) ;
assert ( compressed . window_data_words == fld_w_len ( b ) && compressed . table_data_words == fld_sv_len ( b ) ) ;
assert ( kxp == kxp_read ( b ) && hip_est_accum == hip_value ( b ) ) ;
}
let ghost pe = pos ;
let ghost ww = compressed . window_data_words as int ;
let ghost tw = compressed . table_data_words as int ;
let ghost c0 = compressed ;
if has_window {
for vx_u1 in 0 .. compressed . window_data_words invariant b == bytes @ , pe == pre_end ( b ) , ww == fld_w_len ( b ) , tw == fld_sv_len ( b ) , 0 <= pe , pe + 4 * vx_u1 <= b . len ( ) , cursor . rem ( ) == b . skip ( pe + 4 * vx_u1 ) , compressed . window_data_words == ww , compressed . table_data_words == tw , compressed . table_num_entries == c0 . table_num_entries , compressed . table_data @ == c0 . table_data @ ,
/*@C14.cpc.alloc_words*/ compressed . window_data @ . len ( ) == vx_u1 , compressed . window_data @ == dec_u32s ( b . skip ( pe ) , vx_u1 as int ) , {
let word = cursor . read_u32_le ( ) . vx_io ( "window_data" ) ? ;
proof {
lemma_read ( b , pe + 4 * vx_u1 , 4 ) ;
lemma_word_at ( b , pe , vx_u1 as int ) ;
lemma_dec_u32s_push ( b . skip ( pe ) , vx_u1 as int ) ;
}
compressed . window_data . push ( word ) ;
}
proof {
pos = pe + 4 * ww ;
}
}
proof {
assert ( compressed . window_data @ =~= fld_window ( b ) ) ;
}
let ghost pw = pos ;
if has_table {
for vx_u2 in 0 .. compressed . table_data_words invariant b == bytes @ , pe == pre_end ( b ) , ww == fld_w_len ( b ) , tw == fld_sv_len ( b ) , pw == pe + 4 * ww , 0 <= pw , pw + 4 * vx_u2 <= b . len ( ) , cursor . rem ( ) == b . skip ( pw + 4 * vx_u2 ) , compressed . window_data_words == ww , compressed . table_data_words == tw , compressed . table_num_entries == c0 . table_num_entries , compressed . window_data @ == fld_window ( b ) ,
/*@C14.cpc.alloc_words*/ compressed . table_data @ . len ( ) == vx_u2 , compressed . table_data @ == dec_u32s ( b . skip ( pw ) , vx_u2 as int ) , {
let word = cursor . read_u32_le ( ) . vx_io ( "table_data" ) ? ;
proof {
lemma_read ( b , pw + 4 * vx_u2 , 4 ) ;
lemma_word_at ( b , pw , vx_u2 as int ) ;
lemma_dec_u32s_push ( b . skip ( pw ) , vx_u2 as int ) ;
}
compressed . table_data . push ( word ) ;
}
proof {
pos = pw + 4 * tw ;
}
}
proof {
assert ( compressed . table_data @ =~= fld_table ( b ) ) ;
}
if ! has_window {
compressed . table_num_entries = num_coupons ;
}
}
else {
proof {
assert ( compressed . window_data @ =~= fld_window ( b ) ) ;
assert ( compressed . table_data @ =~= fld_table ( b ) ) ;
}
}
proof {
assert ( compressed . cview ( ) == cs_of ( b ) ) ;
assert (
/*@C14.cpc.alloc_words*/ 4 * ( compressed . window_data @ . len ( ) + compressed . table_data @ . len ( ) ) <= b . len ( ) ) ;
}
let expected_preamble_ints = make_preamble_ints ( num_coupons , has_hip , has_table , has_window ) ;
ensure_preamble_longs_in ( & [ expected_preamble_ints ] , preamble_ints ) ? ;
if seed_hash != compute_seed_hash ( seed ) {
return Err ( Error :: new ( ErrorKind :: InvalidData , format! ( "seed hash mismatch: expected {}, got {}" , compute_seed_hash ( seed ) , seed_hash ) , ) ) ;
}
if ! ( MIN_LG_K ..= MAX_LG_K ) . contains ( & lg_k ) {
return Err ( Error :: invalid_argument ( format! ( "lg_k out of range; got {}" , lg_k ) ) ) ;
}
if first_interesting_column > 63 {
return Err ( Error :: invalid_argument ( format! ( "first_interesting_column out of range; got {}" , first_interesting_column ) ) ) ;
}
proof {
lemma_k_bound ( lg_k ) ;
if hip_present ( b ) {
axiom_f64_bits_roundtrip ( fld_kxp_bits ( b ) ) ;
axiom_f64_bits_roundtrip ( fld_hip_bits ( b ) ) ;
}
}
let uncompressed = compressed . uncompress ( lg_k , num_coupons ) ;
proof {
lemma_table_rows ( uncompressed . table , lg_k ) ;
lemma_dco_small ( lg_k , num_coupons ) ;
assert ( compressed . cview ( ) == cs_of ( bytes @ ) && decoded_as ( uncompressed , compressed , lg_k , num_coupons ) ) ;
}
Ok ( CpcSketch {
lg_k , seed , seed_hash , first_interesting_column , num_coupons , surprising_value_table : Some ( uncompressed . table ) , window_offset : determine_correct_offset ( lg_k , num_coupons ) , sliding_window : uncompressed . window , merge_flag : ! has_hip , kxp : if has_table || has_window {
kxp }
else {
vx_kxp_fresh ( lg_k ) }
, hip_est_accum , }
) }

}

// a well-formed table of 6 + lg_k valid bits only holds rows below k
proof fn lemma_table_rows(t: PairTable, lg_k: u8)
  requires t.wf(), t.num_valid_bits == 6 + lg_k, 4 <= lg_k <= 26
  ensures forall|x: u32| #[trigger] t.items().contains(x) ==> (x >> 6) < pow2(lg_k as nat),
    t.num_items == 0 ==> t.items() =~= ISet::<u32>::empty(),
{
    lemma_k_bound(lg_k); lemma2_to64(); lemma_pow2_adds(6, lg_k as nat);
    let ss = t.slots@;
    assert forall|x: u32| #[trigger] t.items().contains(x) implies (x >> 6) < pow2(lg_k as nat) by {
        let i = choose|i: int| 0 <= i < ss.len() && ss[i] == x;
        assert((ss[i] as int) < pow2((6 + lg_k) as nat));
        let kk = pow2(lg_k as nat) as u32;
        assert(kk <= 0x400_0000 && (x as u64) < 64 * (kk as u64) ==> (x >> 6) < kk) by (bit_vector);
    }
    if t.num_items == 0 {
        assert forall|x: u32| !t.items().contains(x) by {
            if t.items().contains(x) {
                let i = choose|i: int| 0 <= i < ss.len() && ss[i] == x;
                assert(pocc(ss).contains(i));
                assert(pocc(ss).len() != 0) by { if pocc(ss).len() == 0 { pocc(ss).lemma_len0_is_empty(); } }
            }
        }
    }
}
// below the sliding flavor the window has not moved
proof fn lemma_dco_small(lg_k: u8, c: u32)
  requires 4 <= lg_k <= 26
  ensures 8 * (c as int) < 27 * pow2(lg_k as nat) ==> dco(lg_k, c) == 0
{
    lemma_k_bound(lg_k);
    let k = pow2(lg_k as nat) as int; let t = 8 * (c as int) - 19 * k;
    if 8 * (c as int) < 27 * k && t >= 0 {
        assert(t / (8 * k) == 0) by (nonlinear_arith) requires 0 <= t < 8 * k, k > 0;
    }
}

// =====================================================================================================================
// C11 END TO END: deserialize(serialize(s)) holds the same window and the same table SET as s (the slot order of the rebuilt
// table differs; the image does not carry it).  Spec-level composition of
//   - this unit's contracts: `serialize` (C11.cpc.serialize_decodes: the bytes are the framing of a state `compress` left),
//     `deserialize_with_seed` (C13.cpc.fields, C13.cpc.payload: the sketch holds what the decoder makes of the parsed state cs_of(b)),
//   - the coder's round trip `lemma_coder_roundtrip` (proved in unit cpc_coder) across the transport of the used words.
// The premises beyond the two postconditions are clauses of CpcSketch::wf (units cpc_core / cpc_update: offset, sparse count) and of
// PairTable::wf (no items counted = none held), and the decoder's table capacity for the written pair count.
// It also shows that for every image `serialize` writes, the call of `uncompress` in `deserialize_with_seed` MEETS the coder's
// precondition image_valid (C14.cpc.uncompress.pre fails for arbitrary bytes only).
// =====================================================================================================================
proof fn lemma_cpc_roundtrip(s: CpcSketch, b: Seq<u8>, t: CpcSketch)
  requires
    s.wf_codec(), s.compress_wf(),
    // b = s.serialize()                                                        (C11.cpc.serialize_decodes)
    exists|c: CompressedState| #[trigger] serialized_state(s, c) && b == enc_cpc(s.img(c.cview())) && cpc_decode(b) == Some(s.img(c.cview()))
        && 4 * c.table_num_entries <= 3 * 0x400_0000 && 4 * c.table_num_entries <= 3 * pow2((5 + s.lg_k) as nat),
    // Ok(t) = CpcSketch::deserialize_with_seed(b, seed)                        (C13.cpc.fields, C13.cpc.payload)
    t.lg_k == b[3] && t.num_coupons == fld_num_coupons(b),
    t.surprising_value_table is Some,
    exists|c2: CompressedState, u: UncompressedState| c2.cview() == cs_of(b) && #[trigger] decoded_as(u, c2, t.lg_k, t.num_coupons)
        && t.surprising_value_table->0 == u.table && t.sliding_window == u.window,
    // clauses of CpcSketch::wf / PairTable::wf (the premises of lemma_coder_roundtrip, and the sparse count that stands for numSV in a table-only image)
    flavor_spec(s.lg_k, s.num_coupons) is Sliding ==> s.window_offset == dco(s.lg_k, s.num_coupons),
    !(flavor_spec(s.lg_k, s.num_coupons) is Empty) && s.surprising_value_table->0.num_items == 0 ==> s.tbl() =~= ISet::<u32>::empty(),
    s.wf_sparse_count(),
  ensures
    /*@C11.cpc.roundtrip*/ t.lg_k == s.lg_k && t.num_coupons == s.num_coupons,
    /*@C11.cpc.roundtrip*/ !(flavor_spec(s.lg_k, s.num_coupons) is Empty) ==> t.tbl() =~= s.tbl() && t.sliding_window@ =~= s.sliding_window@,
    /*@C11.cpc.roundtrip*/ flavor_spec(s.lg_k, s.num_coupons) is Empty ==> t.tbl() =~= ISet::<u32>::empty() && t.sliding_window@.len() == 0,
    /*@C11.cpc.roundtrip_valid*/ forall|c2: CompressedState| c2.cview() == cs_of(b) ==> #[trigger] image_valid(c2, s.lg_k, s.num_coupons),
{
    let c = choose|c: CompressedState| #[trigger] serialized_state(s, c) && b == enc_cpc(s.img(c.cview())) && cpc_decode(b) == Some(s.img(c.cview()))
        && 4 * c.table_num_entries <= 3 * 0x400_0000 && 4 * c.table_num_entries <= 3 * pow2((5 + s.lg_k) as nat);
    let v = s.img(c.cview());
    let fl = flavor_spec(s.lg_k, s.num_coupons);
    assert(cpc_valid(b) && img_of(b) == v);
    assert(b[3] == s.lg_k && fld_num_coupons(b) == s.num_coupons);
    // the parsed state is the transport of the used words of c, for ANY CompressedState with that view
    assert forall|c2: CompressedState| c2.cview() == cs_of(b) implies transported(c, c2) by {
        assert(c2.table_data@ == fld_table(b) && c2.window_data@ == fld_window(b));
        assert(fld_table(b) == c.table_words() && fld_window(b) == c.window_words());
        assert(fld_table(b).len() == fld_sv_len(b) && fld_window(b).len() == fld_w_len(b));
        assert(c.table_words().len() == c.table_data_words && c.window_words().len() == c.window_data_words);
        assert(c2.table_num_entries == fld_num_sv(b) && fld_num_sv(b) == v.num_sv);
        assert(v.num_sv == c.table_num_entries);
    }
    assert forall|c2: CompressedState| c2.cview() == cs_of(b) implies #[trigger] image_valid(c2, s.lg_k, s.num_coupons) by {
        let u0: UncompressedState = arbitrary();
        lemma_coder_roundtrip(s, c, c2, u0);
    }
    let (c2, u) = choose|c2: CompressedState, u: UncompressedState| c2.cview() == cs_of(b) && #[trigger] decoded_as(u, c2, t.lg_k, t.num_coupons)
        && t.surprising_value_table->0 == u.table && t.sliding_window == u.window;
    lemma_coder_roundtrip(s, c, c2, u);
}

// =====================================================================================================================
// cpc/wrapper.rs
// =====================================================================================================================
struct CpcWrapper {
lg_k : u8 , merge_flag : bool , num_coupons : u32 , hip_est_accum : f64 , }


impl CpcWrapper {
    spec fn hdr(&self) -> CpcHdr { CpcHdr { lg_k: self.lg_k, merge_flag: self.merge_flag, num_coupons: self.num_coupons, hip_est_accum: self.hip_est_accum } }

    fn new ( bytes : & [ u8 ] ) -> ( r : Result < Self , Error > ) ensures
/*@C13.cpc.wrapper.accepts*/
/*@C14.cpc.wrapper.rejects*/ r is Ok <==> cpc_header_spec ( bytes @ ) is Some ,
/*@C13.cpc.wrapper.fields*/ r matches Ok ( w ) ==> cpc_header_spec ( bytes @ ) == Some ( w . hdr ( ) ) , {
let ghost b = bytes @ ;
let ghost mut pos : int = 0 ;
proof {
lemma_flag_masks ( ) ;
}
let mut cursor = SketchSlice :: new ( bytes ) ;
let preamble_ints = cursor . read_u8 ( ) . vx_io ( "preamble_ints" ) ? ;
proof {
lemma_read ( b , pos , 1 ) ;
pos = pos + 1 ;
}
let serial_version = cursor . read_u8 ( ) . vx_io ( "serial_version" ) ? ;
proof {
lemma_read ( b , pos , 1 ) ;
pos = pos + 1 ;
}
let family_id = cursor . read_u8 ( ) . vx_io ( "family_id" ) ? ;
proof {
lemma_read ( b , pos , 1 ) ;
pos = pos + 1 ;
}
Family :: CPC . validate_id ( family_id ) ? ;
ensure_serial_version_is ( SERIAL_VERSION , serial_version ) ? ;
let lg_k = cursor . read_u8 ( ) . vx_io ( "lg_k" ) ? ;
proof {
lemma_read ( b , pos , 1 ) ;
pos = pos + 1 ;
}
let first_interesting_column = cursor . read_u8 ( ) . vx_io ( "first_interesting_column" ) ? ;
proof {
lemma_read ( b , pos , 1 ) ;
pos = pos + 1 ;
}
if ! ( MIN_LG_K ..= MAX_LG_K ) . contains ( & lg_k ) {
return Err ( Error :: invalid_argument ( format! ( "lg_k out of range; got {}" , lg_k ) ) ) ;
}
if first_interesting_column > 63 {
return Err ( Error :: invalid_argument ( format! ( "first_interesting_column out of range; got {}" , first_interesting_column ) ) ) ;
}
let flags = cursor . read_u8 ( ) . vx_io ( "flags" ) ? ;
proof {
lemma_read ( b , pos , 1 ) ;
pos = pos + 1 ;
}
let is_compressed = flags & ( 1 << FLAG_COMPRESSED ) != 0 ;
if ! is_compressed {
return Err ( Error :: new ( ErrorKind :: InvalidData , "only compressed sketches are supported" , ) ) ;
}
let has_hip = flags & ( 1 << FLAG_HAS_HIP ) != 0 ;
let has_table = flags & ( 1 << FLAG_HAS_TABLE ) != 0 ;
let has_window = flags & ( 1 << FLAG_HAS_WINDOW ) != 0 ;
proof {
assert ( has_hip == f_hip ( b ) && has_table == f_table ( b ) && has_window == f_window ( b ) && f_compressed ( b ) ) ;
}
cursor . read_u16_le ( ) . vx_io ( "seed_hash" ) ? ;
proof {
lemma_read ( b , pos , 2 ) ;
pos = pos + 2 ;
}
let mut num_coupons = 0 ;
let mut hip_est_accum = 0.0 ;
if has_table || has_window {
num_coupons = cursor . read_u32_le ( ) . vx_io ( "num_coupons" ) ? ;
proof {
lemma_read ( b , pos , 4 ) ;
pos = pos + 4 ;
}
if has_table && has_window {
cursor . read_u32_le ( ) . vx_io ( "table_num_entries" ) ? ;
proof {
lemma_read ( b , pos , 4 ) ;
pos = pos + 4 ;
}
if has_hip {
cursor . read_f64_le ( ) . vx_io ( "kxp" ) ? ;
proof {
lemma_read ( b , pos , 8 ) ;
pos = pos + 8 ;
}
hip_est_accum = cursor . read_f64_le ( ) . vx_io ( "hip_est_accum" ) ? ;
proof {
lemma_read ( b , pos , 8 ) ;
pos = pos + 8 ;
}
}
}
proof {
assert ( pos == off_svlen ( b ) ) ;
}
if has_table {
cursor . read_u32_le ( ) . vx_io ( "table_data_words" ) ? ;
proof {
lemma_read ( b , pos , 4 ) ;
pos = pos + 4 ;
}
}
if has_window {
cursor . read_u32_le ( ) . vx_io ( "window_data_words" ) ? ;
proof {
lemma_read ( b , pos , 4 ) ;
pos = pos + 4 ;
}
}
proof {
assert ( pos == off_hip2 ( b ) ) ;
}
if has_hip && ! ( has_table && has_window ) {
cursor . read_f64_le ( ) . vx_io ( "kxp" ) ? ;
proof {
lemma_read ( b , pos , 8 ) ;
pos = pos + 8 ;
}
hip_est_accum = cursor . read_f64_le ( ) . vx_io ( "hip_est_accum" ) ? ;
proof {
lemma_read ( b , pos , 8 ) ;
pos = pos + 8 ;
}
}
}
proof {
assert ( pos == pre_end ( b ) ) ;
assert ( hip_est_accum == hip_value ( b ) ) ;
}
let expected_preamble_ints = make_preamble_ints ( num_coupons , has_hip , has_table , has_window ) ;
ensure_preamble_longs_in ( & [ expected_preamble_ints ] , preamble_ints ) ? ;
Ok ( CpcWrapper {
lg_k , merge_flag : ! has_hip , num_coupons , hip_est_accum , }
) }

}

// the wrapper reads the same header as the full parser: whenever deserialize_with_seed returns Ok(s), CpcWrapper::new returns Ok(w) with the
// same lg_k, merge_flag, num_coupons, hip_est_accum (both are shown to return cpc_header_spec).  The converse fails: the wrapper ignores the
// seed hash, the word counts, the payload and whatever the decompressor rejects by panicking.
proof fn lemma_wrapper_agrees(b: Seq<u8>, s: CpcSketch, w: CpcWrapper, wr_ok: bool)
  requires cpc_header_spec(b) == Some(s.hdr()),                                // deserialize_with_seed: C13.cpc.header_spec
           wr_ok <==> cpc_header_spec(b) is Some,                              // CpcWrapper::new: C13.cpc.wrapper.accepts
           wr_ok ==> cpc_header_spec(b) == Some(w.hdr()),                      // CpcWrapper::new: C13.cpc.wrapper.fields
  ensures /*@C13.cpc.wrapper_agrees*/ wr_ok && w.lg_k == s.lg_k && w.merge_flag == s.merge_flag && w.num_coupons == s.num_coupons && w.hip_est_accum == s.hip_est_accum
{
}


// =====================================================================================================================
// OBLIGATIONS OF THE PARSER THAT ARE NOT DISCHARGED (known findings; each lemma below FAILS on the current code).
// `cpc_accepts(b, seed)` is exactly what deserialize_with_seed has checked when it calls `uncompress` (C13.cpc.accepts, C14.cpc.rejects_*,
// C13.cpc.pre_ints_as_checked), and `deser_delivers(b, seed, s)` is everything it is PROVED to deliver about an accepted sketch (C13.cpc.delivers).
// Each lemma states one conjunct of (a) the format spec, (b) the decompressor's precondition `uncompress_pre` at the real call site
// (C14.cpc.uncompress.pre), (c) the sketch invariant CpcSketch::wf() of contracts/cpc_update.rs -- that the parser does NOT establish.
// =====================================================================================================================
spec fn deser_delivers(b: Seq<u8>, seed: u64, s: CpcSketch) -> bool {
    &&& cpc_accepts(b, seed)
    &&& s.lg_k == b[3] && s.first_interesting_column == b[4] && s.num_coupons == fld_num_coupons(b) && s.seed == seed && s.seed_hash == seed_hash_spec(seed)
    &&& s.merge_flag == !f_hip(b) && s.kxp == kxp_value(b) && s.hip_est_accum == hip_value(b)
    &&& dco(s.lg_k, s.num_coupons) <= 255 ==> s.window_offset == dco(s.lg_k, s.num_coupons)
    &&& s.wf_lgk() && s.wf_window_len() && s.wf_table() && s.wf_rows() && s.wf_empty() && s.wf_nvb()
    &&& s.windowed() <==> 32 * (s.num_coupons as int) >= 3 * s.k()
    &&& dco(s.lg_k, s.num_coupons) <= 56 ==> s.wf_window_cols()
    &&& flavor_spec(s.lg_k, s.num_coupons) is Sparse ==> s.surprising_value_table->0.num_items == fld_num_sv(b)
}
// (a) the format: the fields after the header are present iff the sketch is non-empty.  Both readers accept flags HAS_TABLE / HAS_WINDOW with
//     numCoupons == 0 and preInts == 2 (make_preamble_ints keys on numCoupons, the field layout on the flags).
proof fn c13_cpc_nonempty_flags(b: Seq<u8>, seed: u64)
  requires cpc_accepts(b, seed)
  ensures /*@C13.cpc.nonempty_flags*/ cpc_nonempty_ok(b)
{
}
proof fn c13_cpc_wrapper_nonempty_flags(b: Seq<u8>)
  requires cpc_header_spec(b) is Some
  ensures /*@C13.cpc.wrapper.nonempty_flags*/ cpc_nonempty_ok(b)
{
}
// (a') C11 for the EMPTY sketch: kxp is not in the image of an empty sketch (correct per the format), so the reader must restore the value a fresh
//      sketch has (CpcSketch::with_seed: `kxp: (1 << lg_k) as f64`).  Before the fix b2cb011 it left 0.0 (after deserialize(serialize(new(lg_k)))
//      every update added k / 0.0 = inf to the HIP accumulator); now proved for every format-conformant image.
proof fn c11_cpc_empty_kxp(b: Seq<u8>, seed: u64, s: CpcSketch)
  requires deser_delivers(b, seed, s), cpc_nonempty_ok(b), s.num_coupons == 0
  ensures /*@C11.cpc.empty_kxp*/ s.kxp == kxp_fresh(s.lg_k)
{
}
// (b) the five conjuncts of uncompress_pre
proof fn c14_cpc_uncompress_flags_vs_flavor(b: Seq<u8>, seed: u64)
  requires cpc_accepts(b, seed)
  ensures /*@C14.cpc.uncompress.flags_vs_flavor*/ cs_flavor_ok(flavor_spec(b[3], fld_num_coupons(b)), cs_of(b))
{
}
proof fn c14_cpc_uncompress_pairs_u32(b: Seq<u8>, seed: u64)
  requires cpc_accepts(b, seed)
  ensures /*@C14.cpc.uncompress.pairs_u32*/ cs_pairs_u32_ok(flavor_spec(b[3], fld_num_coupons(b)), cs_of(b), b[3])
{
}
proof fn c14_cpc_uncompress_alloc_pairs(b: Seq<u8>, seed: u64)
  requires cpc_accepts(b, seed)
  ensures /*@C14.cpc.uncompress.alloc_pairs*/ cs_alloc_pairs_ok(flavor_spec(b[3], fld_num_coupons(b)), cs_of(b))
{
}
proof fn c14_cpc_uncompress_window_bits(b: Seq<u8>, seed: u64)
  requires cpc_accepts(b, seed)
  ensures /*@C14.cpc.uncompress.window_bits*/ cs_window_bits_ok(flavor_spec(b[3], fld_num_coupons(b)), cs_of(b), b[3])
{
}
proof fn c14_cpc_uncompress_offset(b: Seq<u8>, seed: u64)
  requires cpc_accepts(b, seed)
  ensures /*@C14.cpc.uncompress.offset*/ cs_offset_ok(flavor_spec(b[3], fld_num_coupons(b)), cs_of(b), b[3], fld_num_coupons(b))
{
}
// (b') PairTable::from_slots is handed the decoded pairs: all that is known of them is their number (uncompress_surprising_values), so its
//      remaining preconditions (rows below k / not the empty marker: `assert!(probe <= mask)` in lookup; no duplicates: `assert_ne!` in must_insert)
//      are not established either
proof fn c14_cpc_from_slots_range(pairs: Seq<u32>, num_items: u32, lg_k: u8)
  requires 4 <= lg_k <= 26, pairs.len() == num_items
  ensures /*@C14.cpc.from_slots.range*/ forall|i: int| 0 <= i < num_items ==> pairs[i] != EMPTY && (#[trigger] pairs[i] as int) < pow2((6 + lg_k) as nat)
{
}
proof fn c14_cpc_from_slots_distinct(pairs: Seq<u32>, num_items: u32, lg_k: u8)
  requires 4 <= lg_k <= 26, pairs.len() == num_items
  ensures /*@C14.cpc.from_slots.distinct*/ forall|i: int, j: int| 0 <= i < j < num_items ==> pairs[i] != pairs[j]
{
}
// (c) the clauses of CpcSketch::wf() that no check of the parser implies: numCoupons is unbounded (so window_offset, a u8 truncation of
//     determine_correct_offset, can exceed 56 or disagree with the thresholds), firstInterestingColumn is only checked <= 63, and the sparse item
//     count relies on the flags agreeing with the flavor
proof fn c14_cpc_wf_offset(b: Seq<u8>, seed: u64, s: CpcSketch)
  requires deser_delivers(b, seed, s)
  ensures /*@C14.cpc.wf.offset*/ s.wf_offset()
{
}
proof fn c14_cpc_wf_window_cols(b: Seq<u8>, seed: u64, s: CpcSketch)
  requires deser_delivers(b, seed, s)
  ensures /*@C14.cpc.wf.window_cols*/ s.wf_window_cols()
{
}
proof fn c14_cpc_wf_thresholds(b: Seq<u8>, seed: u64, s: CpcSketch)
  requires deser_delivers(b, seed, s)
  ensures /*@C14.cpc.wf.thresholds*/ s.thresholds()
{
}
proof fn c14_cpc_wf_fic(b: Seq<u8>, seed: u64, s: CpcSketch)
  requires deser_delivers(b, seed, s)
  ensures /*@C14.cpc.wf.fic*/ s.fic_ok()
{
}
proof fn c14_cpc_wf_sparse_count(b: Seq<u8>, seed: u64, s: CpcSketch)
  requires deser_delivers(b, seed, s)
  ensures /*@C14.cpc.wf.sparse_count*/ s.wf_sparse_count()
{
}
// ... and these are ALL the missing clauses: with numCoupons bounded so that the offset is at most 56, fic_ok and the sparse count are what remains
// (this lemma verifies)
proof fn c14_cpc_wf_complete(b: Seq<u8>, seed: u64, s: CpcSketch)
  requires deser_delivers(b, seed, s), dco(s.lg_k, s.num_coupons) <= 56, s.fic_ok(), s.wf_sparse_count()
  ensures /*@C14.cpc.wf*/ s.wf()
{
    lemma_k_bound(s.lg_k);
    let k = s.k(); let c = s.num_coupons as int; let off = s.window_offset as int;
    lemma_dco_small(s.lg_k, s.num_coupons);
    if 8 * c >= 19 * k {
        let t = 8 * c - 19 * k;
        assert(off == t / (8 * k));
        assert(off * (8 * k) <= t < (off + 1) * (8 * k)) by (nonlinear_arith) requires off == t / (8 * k), k > 0, t >= 0;
        assert((27 + 8 * off) * k == 19 * k + (off + 1) * (8 * k)) by (nonlinear_arith);
        assert(off > 0 ==> (27 + 8 * (off - 1)) * k == 19 * k + off * (8 * k)) by (nonlinear_arith);
    } else {
        assert((27 + 8 * off) * k == 27 * k) by (nonlinear_arith) requires off == 0;
    }
    assert(s.wf_offset());
    assert(s.thresholds());
    assert(s.wf_matrix());
}


// =====================================================================================================================
// cpc/compression.rs: the bit-stream leaves.  A stream is a Seq<bool>, least significant bit of each word first.
// =====================================================================================================================
spec fn bit64(x: u64, i: int) -> bool { (x >> (i as u64)) & 1 == 1 }
spec fn bit32(x: u32, i: int) -> bool { (x >> (i as u32)) & 1 == 1 }
spec fn buf_bits(b: u64, n: int) -> Seq<bool> { Seq::new(n as nat, |i: int| bit64(b, i)) }
spec fn word_bits(w: u32) -> Seq<bool> { Seq::new(32, |i: int| bit32(w, i)) }
spec fn words_bits(ws: Seq<u32>) -> Seq<bool> decreases ws.len() { if ws.len() == 0 { Seq::empty() } else { words_bits(ws.drop_last()) + word_bits(ws.last()) } }
spec fn zeros(n: int) -> Seq<bool> { Seq::new(n as nat, |i: int| false) }
// no garbage above the low n bits
spec fn buf_clean(b: u64, n: int) -> bool { 0 <= n <= 64 && (n < 64 ==> (b >> (n as u64)) == 0) }
// writer: the bits emitted so far = the flushed words ++ the low bufbits bits of bitbuf
spec fn wstream(words: Seq<u32>, idx: int, bitbuf: u64, bufbits: int) -> Seq<bool> { words_bits(words.take(idx)) + buf_bits(bitbuf, bufbits) }
// reader: the bits still to be read = the low bufbits bits of bitbuf ++ the unread words
spec fn rstream(words: Seq<u32>, idx: int, bitbuf: u64, bufbits: int) -> Seq<bool> { buf_bits(bitbuf, bufbits) + words_bits(words.skip(idx)) }
// unary code of v: v zeros then a one
spec fn unary(v: int) -> Seq<bool> { zeros(v).push(true) }
// position of the first one (the length when there is none)
spec fn first_one(s: Seq<bool>) -> int decreases s.len() { if s.len() == 0 { 0 } else if s[0] { 0 } else { 1 + first_one(s.skip(1)) } }

proof fn lemma_words_bits_len(ws: Seq<u32>) ensures words_bits(ws).len() == 32 * ws.len() decreases ws.len() {
    if ws.len() > 0 { lemma_words_bits_len(ws.drop_last()); }
}
proof fn lemma_words_bits_concat(a: Seq<u32>, b: Seq<u32>) ensures words_bits(a + b) == words_bits(a) + words_bits(b) decreases b.len() {
    if b.len() == 0 { assert(a + b =~= a); assert(words_bits(a) + words_bits(b) =~= words_bits(a)); }
    else {
        assert((a + b).drop_last() =~= a + b.drop_last());
        lemma_words_bits_concat(a, b.drop_last());
        assert(words_bits(a) + words_bits(b.drop_last()) + word_bits(b.last()) =~= words_bits(a) + (words_bits(b.drop_last()) + word_bits(b.last())));
    }
}
proof fn lemma_words_bits_one(w: u32) ensures words_bits(seq![w]) == word_bits(w) {
    reveal_with_fuel(words_bits, 2);
    assert(seq![w].drop_last() =~= Seq::<u32>::empty());
    assert(words_bits(seq![w]) =~= word_bits(w));
}
// the low 32 bits of the buffer leave as one word
proof fn lemma_buf_split(b: u64, n: int)
  requires 32 <= n <= 64
  ensures buf_bits(b, n) == word_bits((b & 0xffffffff) as u32) + buf_bits(b >> 32, n - 32)
{
    let lo = (b & 0xffffffff) as u32;
    assert forall|i: int| 0 <= i < n implies buf_bits(b, n)[i] == (word_bits(lo) + buf_bits(b >> 32, n - 32))[i] by {
        let iu = i as u64;
        if i < 32 {
            assert(iu < 32 ==> ((((b & 0xffffffff) as u32) >> (iu as u32)) & 1 == 1) == ((b >> iu) & 1 == 1)) by (bit_vector);
        } else {
            let ju = (i - 32) as u64;
            assert(32 <= iu < 64 && ju == iu - 32 ==> (((b >> 32) >> ju) & 1 == 1) == ((b >> iu) & 1 == 1)) by (bit_vector);
        }
    }
    assert(buf_bits(b, n) =~= word_bits(lo) + buf_bits(b >> 32, n - 32));
}
// a word enters above the low n bits of a clean buffer
proof fn lemma_buf_join(b: u64, n: int, w: u32)
  requires buf_clean(b, n), n <= 32
  ensures buf_bits(b | ((w as u64) << (n as u64)), n + 32) == buf_bits(b, n) + word_bits(w), buf_clean(b | ((w as u64) << (n as u64)), n + 32)
{
    let nu = n as u64; let b2 = b | ((w as u64) << nu);
    assert forall|i: int| 0 <= i < n + 32 implies buf_bits(b2, n + 32)[i] == (buf_bits(b, n) + word_bits(w))[i] by {
        let iu = i as u64;
        if i < n {
            assert(nu <= 32 && iu < nu ==> (((b | ((w as u64) << nu)) >> iu) & 1 == 1) == ((b >> iu) & 1 == 1)) by (bit_vector);
        } else {
            let ju = (i - n) as u32;
            assert(nu <= 32 && (b >> nu) == 0 && nu <= iu < nu + 32 && ju == (iu - nu) as u32 ==> (((b | ((w as u64) << nu)) >> iu) & 1 == 1) == ((w >> ju) & 1 == 1)) by (bit_vector);
        }
    }
    assert(buf_bits(b2, n + 32) =~= buf_bits(b, n) + word_bits(w));
    if n + 32 < 64 { let mu = (n + 32) as u64; assert(nu <= 32 && (b >> nu) == 0 && mu == nu + 32 && mu < 64 ==> ((b | ((w as u64) << nu)) >> mu) == 0) by (bit_vector); }
}
// consuming the low m bits
proof fn lemma_buf_shift(b: u64, n: int, m: int)
  requires buf_clean(b, n), 0 <= m <= n, m < 64
  ensures buf_bits(b >> (m as u64), n - m) == buf_bits(b, n).skip(m), buf_clean(b >> (m as u64), n - m)
{
    let mu = m as u64;
    assert forall|i: int| 0 <= i < n - m implies buf_bits(b >> mu, n - m)[i] == buf_bits(b, n).skip(m)[i] by {
        let iu = i as u64; let ku = (i + m) as u64;
        assert(mu < 64 && ku < 64 && ku == iu + mu ==> (((b >> mu) >> iu) & 1 == 1) == ((b >> ku) & 1 == 1)) by (bit_vector);
    }
    assert(buf_bits(b >> mu, n - m) =~= buf_bits(b, n).skip(m));
    if n - m < 64 {
        let ru = (n - m) as u64; let nu = n as u64;
        if n < 64 { assert(mu < 64 && nu < 64 && ru == nu - mu && (b >> nu) == 0 ==> ((b >> mu) >> ru) == 0) by (bit_vector); }
        else { assert(mu < 64 && ru == 64 - mu && mu > 0 ==> ((b >> mu) >> ru) == 0) by (bit_vector); }
    }
}
// zeros above a clean buffer are already there
proof fn lemma_buf_zeros(b: u64, n: int, z: int)
  requires buf_clean(b, n), 0 <= z, n + z <= 64
  ensures buf_bits(b, n + z) == buf_bits(b, n) + zeros(z), buf_clean(b, n + z)
{
    let nu = n as u64;
    assert forall|i: int| 0 <= i < n + z implies buf_bits(b, n + z)[i] == (buf_bits(b, n) + zeros(z))[i] by {
        let iu = i as u64;
        if i >= n { assert(nu <= iu < 64 && (b >> nu) == 0 ==> !((b >> iu) & 1 == 1)) by (bit_vector); }
    }
    assert(buf_bits(b, n + z) =~= buf_bits(b, n) + zeros(z));
    if n + z < 64 { let mu = (n + z) as u64; assert(nu <= mu < 64 && (b >> nu) == 0 ==> (b >> mu) == 0) by (bit_vector); }
}
// a one enters r places above a clean buffer
proof fn lemma_buf_unary(b: u64, n: int, r: u64)
  requires buf_clean(b, n), n <= 31, r <= 15
  ensures buf_bits(b | ((1u64 << r) << (n as u64)), n + r + 1) == buf_bits(b, n) + unary(r as int), buf_clean(b | ((1u64 << r) << (n as u64)), n + r + 1)
{
    let nu = n as u64; let b2 = b | ((1u64 << r) << nu);
    assert forall|i: int| 0 <= i < n + r + 1 implies buf_bits(b2, n + r + 1)[i] == (buf_bits(b, n) + unary(r as int))[i] by {
        let iu = i as u64;
        assert(nu <= 31 && r <= 15 && (b >> nu) == 0 && iu <= nu + r ==> (((b | ((1u64 << r) << nu)) >> iu) & 1 == 1) == (if iu < nu { (b >> iu) & 1 == 1 } else { iu == nu + r })) by (bit_vector);
    }
    assert(buf_bits(b2, n + r + 1) =~= buf_bits(b, n) + unary(r as int));
    let mu = (n + r + 1) as u64;
    assert(nu <= 31 && r <= 15 && (b >> nu) == 0 && mu == nu + r + 1 ==> ((b | ((1u64 << r) << nu)) >> mu) == 0) by (bit_vector);
}
proof fn lemma_first_one_at(s: Seq<bool>, j: int)
  requires 0 <= j < s.len(), s[j], forall|i: int| 0 <= i < j ==> !s[i]
  ensures first_one(s) == j
  decreases j
{
    if j > 0 { lemma_first_one_at(s.skip(1), j - 1); }
}
proof fn lemma_first_one_skip(s: Seq<bool>, j: int)
  requires 0 <= j <= s.len(), forall|i: int| 0 <= i < j ==> !s[i]
  ensures first_one(s) == j + first_one(s.skip(j))
  decreases j
{
    if j > 0 { lemma_first_one_skip(s.skip(1), j - 1); assert(s.skip(1).skip(j - 1) =~= s.skip(j)); } else { assert(s.skip(0) =~= s); }
}
proof fn lemma_first_one_bound(s: Seq<bool>) ensures 0 <= first_one(s) <= s.len() decreases s.len() { if s.len() > 0 { lemma_first_one_bound(s.skip(1)); } }

fn maybe_flush_bitbuf ( bitbuf : & mut u64 , bufbits : & mut u8 , word : & mut [ u32 ] , word_index : & mut usize , ) requires * old ( bufbits ) >= 32 ==> * old ( word_index ) < old ( word ) @ . len ( ) , buf_clean ( * old ( bitbuf ) , * old ( bufbits ) as int ) , ensures
/*@C12.cpc.bits.flush*/ wstream ( final ( word ) @ , * final ( word_index ) as int , * final ( bitbuf ) , * final ( bufbits ) as int ) == wstream ( old ( word ) @ , * old ( word_index ) as int , * old ( bitbuf ) , * old ( bufbits ) as int ) , final ( word ) @ . len ( ) == old ( word ) @ . len ( ) , * old ( bufbits ) >= 32 ==> * final ( bufbits ) == * old ( bufbits ) - 32 && * final ( word_index ) == * old ( word_index ) + 1 , * old ( bufbits ) < 32 ==> * final ( bufbits ) == * old ( bufbits ) && * final ( word_index ) == * old ( word_index ) && * final ( bitbuf ) == * old ( bitbuf ) && final ( word ) @ == old ( word ) @ , buf_clean ( * final ( bitbuf ) , * final ( bufbits ) as int ) , {
if * bufbits >= 32 {
proof {
lemma_buf_split ( * bitbuf , * bufbits as int ) ;
lemma_buf_shift ( * bitbuf , * bufbits as int , 32 ) ;
}
word [ * word_index ] = ( * bitbuf & 0xffffffff ) as u32 ;
* word_index += 1 ;
* bitbuf >>= 32 ;
* bufbits -= 32 ;
proof {
let i0 = * old ( word_index ) as int ;
let lo = ( * old ( bitbuf ) & 0xffffffff ) as u32 ;
assert ( word @ . take ( i0 + 1 ) . drop_last ( ) =~= old ( word ) @ . take ( i0 ) ) ;
assert ( word @ . take ( i0 + 1 ) . last ( ) == lo ) ;
assert ( wstream ( word @ , i0 + 1 , * bitbuf , * bufbits as int ) =~= wstream ( old ( word ) @ , i0 , * old ( bitbuf ) , * old ( bufbits ) as int ) ) ;
}
}
}


fn maybe_fill_bitbuf ( bitbuf : & mut u64 , bufbits : & mut u8 , words : & [ u32 ] , word_index : & mut usize , minbits : u8 , ) requires
/*@C14.cpc.bits.fill_in_bounds*/ * old ( bufbits ) < minbits ==> * old ( word_index ) < words @ . len ( ) , minbits <= 32 , buf_clean ( * old ( bitbuf ) , * old ( bufbits ) as int ) , ensures
/*@C13.cpc.bits.fill*/ rstream ( words @ , * final ( word_index ) as int , * final ( bitbuf ) , * final ( bufbits ) as int ) == rstream ( words @ , * old ( word_index ) as int , * old ( bitbuf ) , * old ( bufbits ) as int ) , * final ( bufbits ) >= minbits , * old ( bufbits ) < minbits ==> * final ( bufbits ) == * old ( bufbits ) + 32 && * final ( word_index ) == * old ( word_index ) + 1 , * old ( bufbits ) >= minbits ==> * final ( bufbits ) == * old ( bufbits ) && * final ( word_index ) == * old ( word_index ) && * final ( bitbuf ) == * old ( bitbuf ) , buf_clean ( * final ( bitbuf ) , * final ( bufbits ) as int ) , {
if * bufbits < minbits {
proof {
let i0 = * word_index as int ;
let w = words @ [ i0 ] ;
lemma_buf_join ( * bitbuf , * bufbits as int , w ) ;
assert ( words @ . skip ( i0 ) =~= seq! [ w ] + words @ . skip ( i0 + 1 ) ) ;
lemma_words_bits_concat ( seq! [ w ] , words @ . skip ( i0 + 1 ) ) ;
lemma_words_bits_one ( w ) ;
let n = * bufbits as u64 ;
let nu = * bufbits ;
assert ( ( w as u64 ) << n == ( w as u64 ) << nu ) by ( bit_vector ) requires n == nu as u64 ;
}
* bitbuf |= ( words [ * word_index ] as u64 ) << * bufbits ;
* word_index += 1 ;
* bufbits += 32 ;
proof {
let i0 = * old ( word_index ) as int ;
let w = words @ [ i0 ] ;
assert ( rstream ( words @ , i0 + 1 , * bitbuf , * bufbits as int ) =~= rstream ( words @ , i0 , * old ( bitbuf ) , * old ( bufbits ) as int ) ) ;
}
}
}


fn write_unary ( compressed_words : & mut [ u32 ] , next_word_index : & mut usize , bitbuf : & mut u64 , bufbits : & mut u8 , value : u64 , ) requires * old ( bufbits ) <= 31 , buf_clean ( * old ( bitbuf ) , * old ( bufbits ) as int ) , 32 * * old ( next_word_index ) + * old ( bufbits ) + value + 1 <= 32 * old ( compressed_words ) @ . len ( ) + 31 , ensures
/*@C12.cpc.bits.write_unary*/ wstream ( final ( compressed_words ) @ , * final ( next_word_index ) as int , * final ( bitbuf ) , * final ( bufbits ) as int ) == wstream ( old ( compressed_words ) @ , * old ( next_word_index ) as int , * old ( bitbuf ) , * old ( bufbits ) as int ) + unary ( value as int ) , final ( compressed_words ) @ . len ( ) == old ( compressed_words ) @ . len ( ) , * final ( bufbits ) <= 31 , buf_clean ( * final ( bitbuf ) , * final ( bufbits ) as int ) , 32 * * final ( next_word_index ) + * final ( bufbits ) == 32 * * old ( next_word_index ) + * old ( bufbits ) + value + 1 , {
assert! ( * bufbits <= 31 ) ;
let ghost s0 = wstream ( compressed_words @ , * next_word_index as int , * bitbuf , * bufbits as int ) ;
let ghost len = compressed_words @ . len ( ) ;
let ghost t0 = 32 * * next_word_index + * bufbits ;
let mut remaining = value ;
proof {
assert ( s0 + zeros ( 0 ) =~= s0 ) ;
}
while remaining >= 16 invariant remaining <= value , compressed_words @ . len ( ) == len , * bufbits <= 31 , buf_clean ( * bitbuf , * bufbits as int ) , wstream ( compressed_words @ , * next_word_index as int , * bitbuf , * bufbits as int ) == s0 + zeros ( value - remaining ) , 32 * * next_word_index + * bufbits == t0 + ( value - remaining ) , t0 + value + 1 <= 32 * len + 31 , decreases remaining {
remaining -= 16 ;
proof {
lemma_buf_zeros ( * bitbuf , * bufbits as int , 16 ) ;
let w = words_bits ( compressed_words @ . take ( * next_word_index as int ) ) ;
assert ( w + ( buf_bits ( * bitbuf , * bufbits as int ) + zeros ( 16 ) ) =~= ( w + buf_bits ( * bitbuf , * bufbits as int ) ) + zeros ( 16 ) ) ;
assert ( s0 + zeros ( value - remaining - 16 ) + zeros ( 16 ) =~= s0 + zeros ( value - remaining ) ) ;
}
* bufbits += 16 ;
maybe_flush_bitbuf ( bitbuf , bufbits , compressed_words , next_word_index ) ;
}
proof {
lemma_buf_unary ( * bitbuf , * bufbits as int , remaining ) ;
let n = * bufbits as u64 ;
let nu = * bufbits ;
assert ( ( ( 1u64 << remaining ) << n ) == ( ( 1u64 << remaining ) << nu ) ) by ( bit_vector ) requires n == nu as u64 ;
assert ( remaining <= 15 ==> ( 1u64 << remaining ) <= 0x8000 ) by ( bit_vector ) ;
let w = words_bits ( compressed_words @ . take ( * next_word_index as int ) ) ;
assert ( w + ( buf_bits ( * bitbuf , * bufbits as int ) + unary ( remaining as int ) ) =~= ( w + buf_bits ( * bitbuf , * bufbits as int ) ) + unary ( remaining as int ) ) ;
assert ( s0 + zeros ( value - remaining ) + unary ( remaining as int ) =~= s0 + unary ( value as int ) ) ;
}
let the_unary_code = 1 << remaining ;
* bitbuf |= the_unary_code << * bufbits ;
* bufbits += ( remaining + 1 ) as u8 ;
maybe_flush_bitbuf ( bitbuf , bufbits , compressed_words , next_word_index ) ;
}


fn read_unary ( compressed_words : & [ u32 ] , next_word_index : & mut usize , bitbuf : & mut u64 , bufbits : & mut u8 , ) -> ( r : u64 ) requires buf_clean ( * old ( bitbuf ) , * old ( bufbits ) as int ) , * old ( bufbits ) <= 63 ,
/*@C14.cpc.bits.unary_terminates*/ first_one ( rstream ( compressed_words @ , * old ( next_word_index ) as int , * old ( bitbuf ) , * old ( bufbits ) as int ) ) + 8 <= rstream ( compressed_words @ , * old ( next_word_index ) as int , * old ( bitbuf ) , * old ( bufbits ) as int ) . len ( ) , * old ( next_word_index ) <= compressed_words @ . len ( ) <= 0x3ff_ffff_ffff_ffff , ensures
/*@C13.cpc.bits.read_unary*/ r == first_one ( rstream ( compressed_words @ , * old ( next_word_index ) as int , * old ( bitbuf ) , * old ( bufbits ) as int ) ) ,
/*@C13.cpc.bits.read_unary_rest*/ rstream ( compressed_words @ , * final ( next_word_index ) as int , * final ( bitbuf ) , * final ( bufbits ) as int ) == rstream ( compressed_words @ , * old ( next_word_index ) as int , * old ( bitbuf ) , * old ( bufbits ) as int ) . skip ( r + 1 ) , buf_clean ( * final ( bitbuf ) , * final ( bufbits ) as int ) , * final ( bufbits ) <= 63 , * final ( next_word_index ) <= compressed_words @ . len ( ) , {
let ghost rs0 = rstream ( compressed_words @ , * next_word_index as int , * bitbuf , * bufbits as int ) ;
let mut subtotal = 0u64 ;
proof {
assert ( rs0 . skip ( 0 ) =~= rs0 ) ;
lemma_first_one_bound ( rs0 ) ;
lemma_words_bits_len ( compressed_words @ . skip ( * next_word_index as int ) ) ;
}
loop invariant buf_clean ( * bitbuf , * bufbits as int ) , * bufbits <= 63 , * next_word_index <= compressed_words @ . len ( ) <= 0x3ff_ffff_ffff_ffff , rstream ( compressed_words @ , * next_word_index as int , * bitbuf , * bufbits as int ) == rs0 . skip ( subtotal as int ) , subtotal <= first_one ( rs0 ) , first_one ( rs0 ) == subtotal + first_one ( rs0 . skip ( subtotal as int ) ) , first_one ( rs0 ) + 8 <= rs0 . len ( ) , rs0 . len ( ) <= 64 + 32 * compressed_words @ . len ( ) , rs0 == rstream ( compressed_words @ , * old ( next_word_index ) as int , * old ( bitbuf ) , * old ( bufbits ) as int ) , decreases rs0 . len ( ) - subtotal {
let ghost cur = rs0 . skip ( subtotal as int ) ;
proof {
lemma_words_bits_len ( compressed_words @ . skip ( * next_word_index as int ) ) ;
}
maybe_fill_bitbuf ( bitbuf , bufbits , compressed_words , next_word_index , 8 ) ;
let peek8 = * bitbuf & 0xff ;
let trailing_zeros = peek8 . trailing_zeros ( ) as u8 ;
proof {
axiom_u64_trailing_zeros ( peek8 ) ;
let b = * bitbuf ;
let tz = u64_trailing_zeros ( peek8 ) ;
assert ( ( b & 0xff ) == 0 ==> forall | j : u64 | j < 8 ==> ! ( # [ trigger ] ( b >> j ) & 1 == 1 ) ) by ( bit_vector ) ;
assert ( forall | j : u64 | j < 8 ==> ( # [ trigger ] ( ( b & 0xff ) >> j ) & 1 == 1 ) == ( ( b >> j ) & 1 == 1 ) ) by ( bit_vector ) ;
assert ( ( b & 0xff ) != 0 ==> ( b & 0xff ) < 256 ) by ( bit_vector ) ;
if tz < 64 {
let t = tz as u64 ;
assert ( ( b & 0xff ) < 256 && ( ( b & 0xff ) >> t ) & 1 == 1 ==> t < 8 ) by ( bit_vector ) ;
}
lemma_words_bits_len ( compressed_words @ . skip ( * next_word_index as int ) ) ;
if trailing_zeros < 8 {
let t = trailing_zeros as int ;
assert ( cur [ t ] ) by {
assert ( cur [ t ] == bit64 ( b , t ) ) ;
assert ( ( ( peek8 >> ( t as u64 ) ) & 1 == 1 ) == ( ( b >> ( t as u64 ) ) & 1 == 1 ) ) ;
}
assert forall | i : int | 0 <= i < t implies ! cur [ i ] by {
let iu = i as u64 ;
assert ( cur [ i ] == bit64 ( b , i ) ) ;
assert ( ( peek8 >> iu ) & 1u64 == 0u64 ) ;
assert ( ( ( peek8 >> iu ) & 1 == 1 ) == ( ( b >> iu ) & 1 == 1 ) ) ;
}
lemma_first_one_at ( cur , t ) ;
lemma_buf_shift ( b , * bufbits as int , t + 1 ) ;
let sh = ( 1 + trailing_zeros ) as u8 ;
let sh64 = ( t + 1 ) as u64 ;
assert ( ( b >> sh ) == ( b >> sh64 ) ) by ( bit_vector ) requires sh64 == sh as u64 ;
}
else {
assert forall | i : int | 0 <= i < 8 implies ! cur [ i ] by {
let iu = i as u64 ;
assert ( cur [ i ] == bit64 ( b , i ) ) ;
assert ( ! ( ( b >> iu ) & 1 == 1 ) ) ;
}
lemma_first_one_skip ( cur , 8 ) ;
assert ( cur . skip ( 8 ) =~= rs0 . skip ( subtotal as int + 8 ) ) ;
lemma_buf_shift ( b , * bufbits as int , 8 ) ;
lemma_first_one_bound ( cur . skip ( 8 ) ) ;
}
}
if trailing_zeros < 8 {
* bufbits -= 1 + trailing_zeros ;
* bitbuf >>= 1 + trailing_zeros ;
proof {
let t = trailing_zeros as int ;
assert ( rstream ( compressed_words @ , * next_word_index as int , * bitbuf , * bufbits as int ) =~= cur . skip ( t + 1 ) ) ;
assert ( cur . skip ( t + 1 ) =~= rs0 . skip ( subtotal as int + t + 1 ) ) ;
}
return subtotal + trailing_zeros as u64 ;
}
subtotal += 8 ;
* bufbits -= 8 ;
* bitbuf >>= 8 ;
proof {
assert ( rstream ( compressed_words @ , * next_word_index as int , * bitbuf , * bufbits as int ) =~= cur . skip ( 8 ) ) ;
}
}
}


// C11 for the unary code: what write_unary appends is what read_unary consumes, and it returns the value
proof fn lemma_unary_roundtrip(v: int, rest: Seq<bool>)
  requires 0 <= v
  ensures /*@C11.cpc.unary*/ first_one(unary(v) + rest) == v, (unary(v) + rest).skip(v + 1) == rest
{
    let s = unary(v) + rest;
    assert(s[v]);
    lemma_first_one_at(s, v);
    assert(s.skip(v + 1) =~= rest);
}

fn divide_longs_rounding_up ( x : usize , y : usize ) -> ( r : usize ) requires y != 0 ensures r == ( x + y - 1 ) / ( y as int ) {
debug_assert! ( y != 0 ) ;
let quotient = x / y ;
proof {
let q = ( x as int ) / ( y as int ) ;
vstd :: arithmetic :: div_mod :: lemma_fundamental_div_mod ( x as int , y as int ) ;
assert ( q * y <= x ) by ( nonlinear_arith ) requires x == y * q + ( x as int ) % ( y as int ) , ( x as int ) % ( y as int ) >= 0 ;
assert ( 0 <= q ) by ( nonlinear_arith ) requires q == ( x as int ) / ( y as int ) , x >= 0 , y > 0 ;
let m = ( x as int ) % ( y as int ) ;
if m == 0 {
assert ( ( x + y - 1 ) / ( y as int ) == q ) by ( nonlinear_arith ) requires x == y * q , y > 0 ;
}
else {
assert ( ( x + y - 1 ) / ( y as int ) == q + 1 ) by ( nonlinear_arith ) requires x == y * q + m , 0 < m < y ;
assert ( q * y != x ) by ( nonlinear_arith ) requires x == y * q + m , 0 < m ;
assert ( q + 1 <= usize :: MAX ) by ( nonlinear_arith ) requires q * y <= x , y >= 1 , x == y * q + m , 0 < m , m < y , x <= usize :: MAX ;
}
}
if quotient * y == x {
quotient }
else {
quotient + 1 }
}


fn safe_length_for_compressed_window_buf ( k : u32 ) -> ( r : usize ) requires 12 * k + 11 <= 0xffff_ffff ensures r == ( 12 * k + 11 + 31 ) / 32 {
let bits = 12 * k + 11 ;
divide_longs_rounding_up ( bits as usize , 32 ) }


fn floor_log2_of_long ( x : u64 ) -> ( r : u8 ) requires x > 0 , x <= 0x8000_0000_0000_0000 , ensures pow2 ( r as nat ) <= x < pow2 ( r as nat + 1 ) , r <= 63 {
debug_assert! ( x > 0 ) ;
let mut p = 0u8 ;
let mut y = 1u64 ;
proof {
lemma2_to64 ( ) ;
}
loop invariant p <= 63 , y == pow2 ( p as nat ) , p > 0 ==> pow2 ( ( p - 1 ) as nat ) < x , 0 < x <= 0x8000_0000_0000_0000 , decreases 64 - p {
proof {
lemma2_to64 ( ) ;
lemma2_to64_rest ( ) ;
lemma_pow2_strictly_increases ( p as nat , p as nat + 1 ) ;
if p > 0 {
lemma_pow2_strictly_increases ( ( p - 1 ) as nat , p as nat ) ;
}
}
match u64 :: cmp ( & y , & x ) {
Ordering :: Equal => return p , Ordering :: Greater => return p - 1 , Ordering :: Less => {
proof {
if p >= 63 {
assert ( pow2 ( 63 ) == 0x8000_0000_0000_0000 ) ;
assert ( false ) ;
}
lemma_pow2_unfold ( p as nat + 1 ) ;
assert ( y < 0x8000_0000_0000_0000 ==> ( y << 1 ) == y * 2 ) by ( bit_vector ) ;
if p < 62 {
lemma_pow2_strictly_increases ( p as nat + 1 , 63 ) ;
}
}
p += 1 ;
y <<= 1 ;
}
}
}
}


fn golomb_choose_number_of_base_bits ( k : u32 , count : u64 ) -> ( r : u8 ) requires count > 0 ,
/*@C14.cpc.golomb.k_ge_count*/ k >= count , ensures r <= 31 , ( {
let q = ( k as int - count as int ) / ( count as int ) ;
if q == 0 {
r == 0 }
else {
pow2 ( r as nat ) <= q < pow2 ( r as nat + 1 ) }
}
) {
debug_assert! ( k > 0 ) ;
debug_assert! ( count > 0 ) ;
let quotient = ( ( k as u64 ) - count ) / count ;
proof {
let d = ( k as int ) - ( count as int ) ;
assert ( d / ( count as int ) <= d ) by ( nonlinear_arith ) requires d >= 0 , count >= 1 ;
assert ( 0 <= d / ( count as int ) ) by ( nonlinear_arith ) requires d >= 0 , count >= 1 ;
}
if quotient == 0 {
0 }
else {
proof {
lemma2_to64 ( ) ;
assert forall | e : nat | e >= 32 implies # [ trigger ] pow2 ( e ) >= 0x1_0000_0000 by {
lemma_pow2_increases ( 32 , e ) ;
}
}
floor_log2_of_long ( quotient ) }
}


fn safe_length_for_compressed_pair_buf ( k : u32 , num_pairs : u32 , num_base_bits : u8 ) -> ( r : usize ) requires num_base_bits < 64 ensures r == ( 12 * num_pairs + num_pairs * ( 1 + num_base_bits ) + ( k as usize >> ( num_base_bits as usize ) ) + ( if num_base_bits >= 10 {
0int }
else {
10 - num_base_bits }
) + 31 ) / 32 {
let k = k as usize ;
let num_pairs = num_pairs as usize ;
let num_base_bits = num_base_bits as usize ;
proof {
assert ( num_pairs * ( 1 + num_base_bits ) <= 0xffff_ffff * 64 ) by ( nonlinear_arith ) requires num_pairs <= 0xffff_ffff , num_base_bits < 64 ;
assert ( k <= 0xffff_ffff && num_base_bits < 64 ==> ( k >> num_base_bits ) <= 0xffff_ffff ) by ( bit_vector ) ;
}
let ybits = num_pairs * ( 1 + num_base_bits ) + ( k >> num_base_bits ) ;
let xbits = 12 * ( num_pairs ) ;
let padding = 10usize . saturating_sub ( num_base_bits ) ;
divide_longs_rounding_up ( xbits + ybits + padding , 32 ) }

}
fn main(){}
