#![feature(allocator_api)]
use vstd::prelude::*;
use vstd::iset::*;
use vstd::arithmetic::power2::*;
use std::io;
use std::io::Cursor;
use std::io::Read;
use std::cmp::Ordering;
verus! {
global size_of usize == 8;

// =====================================================================================================================
// Little-endian byte codecs: interpreted on both sides, the round trip is a lemma (no axiom); same definitions as hll_codec8
// =====================================================================================================================
spec fn le16_bytes(n: u16) -> Seq<u8> { seq![(n & 0xff) as u8, ((n >> 8) & 0xff) as u8] }
spec fn le32_bytes(n: u32) -> Seq<u8> { seq![(n & 0xff) as u8, ((n >> 8) & 0xff) as u8, ((n >> 16) & 0xff) as u8, ((n >> 24) & 0xff) as u8] }
spec fn le64_bytes(n: u64) -> Seq<u8> { le32_bytes((n & 0xffff_ffff) as u32) + le32_bytes((n >> 32) as u32) }
spec fn le16_val(b: Seq<u8>) -> u16 { (b[0] as u16) | ((b[1] as u16) << 8) }
spec fn le32_val(b: Seq<u8>) -> u32 { (b[0] as u32) | ((b[1] as u32) << 8) | ((b[2] as u32) << 16) | ((b[3] as u32) << 24) }
spec fn le64_val(b: Seq<u8>) -> u64 { (le32_val(b.subrange(0, 4)) as u64) | ((le32_val(b.subrange(4, 8)) as u64) << 32) }

proof fn lemma_le16_roundtrip(n: u16) ensures le16_val(le16_bytes(n)) == n, le16_bytes(n).len() == 2 {
    let b0 = (n & 0xff) as u8; let b1 = ((n >> 8) & 0xff) as u8;
    assert((b0 as u16) | ((b1 as u16) << 8) == n) by (bit_vector) requires b0 == (n & 0xff) as u8, b1 == ((n >> 8) & 0xff) as u8;
}
proof fn lemma_le32_roundtrip(n: u32) ensures le32_val(le32_bytes(n)) == n, le32_bytes(n).len() == 4 {
    let b0 = (n & 0xff) as u8; let b1 = ((n >> 8) & 0xff) as u8; let b2 = ((n >> 16) & 0xff) as u8; let b3 = ((n >> 24) & 0xff) as u8;
    assert((b0 as u32) | ((b1 as u32) << 8) | ((b2 as u32) << 16) | ((b3 as u32) << 24) == n) by (bit_vector)
      requires b0 == (n & 0xff) as u8, b1 == ((n >> 8) & 0xff) as u8, b2 == ((n >> 16) & 0xff) as u8, b3 == ((n >> 24) & 0xff) as u8;
}
proof fn lemma_le64_roundtrip(n: u64) ensures le64_val(le64_bytes(n)) == n, le64_bytes(n).len() == 8 {
    let lo = (n & 0xffff_ffff) as u32; let hi = (n >> 32) as u32;
    lemma_le32_roundtrip(lo); lemma_le32_roundtrip(hi);
    assert(le64_bytes(n).subrange(0, 4) =~= le32_bytes(lo));
    assert(le64_bytes(n).subrange(4, 8) =~= le32_bytes(hi));
    assert((lo as u64) | ((hi as u64) << 32) == n) by (bit_vector) requires lo == (n & 0xffff_ffff) as u32, hi == (n >> 32) as u32;
}
// floats travel as their bit patterns; the only facts used are that from_bits/to_bits are inverse on bit patterns
uninterp spec fn f64_bits(x: f64) -> u64;
uninterp spec fn f64_of_bits(b: u64) -> f64;
#[verifier::external_body] proof fn axiom_f64_bits_roundtrip(b: u64) ensures f64_bits(f64_of_bits(b)) == b {}
#[verifier::external_body] proof fn axiom_f64_of_bits_roundtrip(x: f64) ensures f64_of_bits(f64_bits(x)) == x {}

// std leaves (R4 rewrites of uN::from_le_bytes / n.to_le_bytes())
#[verifier::external_body] fn vx_u16_from_le_bytes(b: [u8; 2]) -> (r: u16) ensures r == le16_val(b@) { u16::from_le_bytes(b) }
#[verifier::external_body] fn vx_u32_from_le_bytes(b: [u8; 4]) -> (r: u32) ensures r == le32_val(b@) { u32::from_le_bytes(b) }
#[verifier::external_body] fn vx_f64_from_le_bytes(b: [u8; 8]) -> (r: f64) ensures r == f64_of_bits(le64_val(b@)) { f64::from_le_bytes(b) }
#[verifier::external_body] fn vx_u16_to_le_bytes(n: u16) -> (r: [u8; 2]) ensures r@ == le16_bytes(n) { n.to_le_bytes() }
#[verifier::external_body] fn vx_u32_to_le_bytes(n: u32) -> (r: [u8; 4]) ensures r@ == le32_bytes(n) { n.to_le_bytes() }
#[verifier::external_body] fn vx_f64_to_le_bytes(n: f64) -> (r: [u8; 8]) ensures r@ == le64_bytes(f64_bits(n)) { n.to_le_bytes() }

// a list of u32 words in an image, and reading word i of a payload (same pair as the HLL coupon / theta list codecs)
spec fn enc_u32s(s: Seq<u32>) -> Seq<u8> decreases s.len() { if s.len() == 0 { Seq::empty() } else { enc_u32s(s.drop_last()) + le32_bytes(s.last()) } }
spec fn dec_u32_at(p: Seq<u8>, i: int) -> u32 { le32_val(p.subrange(4 * i, 4 * i + 4)) }
spec fn dec_u32s(p: Seq<u8>, n: int) -> Seq<u32> { Seq::new(n as nat, |i: int| dec_u32_at(p, i)) }
proof fn lemma_enc_u32s_len(s: Seq<u32>) ensures enc_u32s(s).len() == 4 * s.len() decreases s.len() {
    if s.len() > 0 { lemma_enc_u32s_len(s.drop_last()); lemma_le32_roundtrip(s.last()); }
}
proof fn lemma_enc_u32s_push(s: Seq<u32>, x: u32) ensures enc_u32s(s.push(x)) == enc_u32s(s) + le32_bytes(x) {
    assert(s.push(x).drop_last() =~= s);
}
proof fn lemma_dec_enc_u32s(s: Seq<u32>, tail: Seq<u8>, i: int)
  requires 0 <= i < s.len()
  ensures dec_u32_at(enc_u32s(s) + tail, i) == s[i]
  decreases s.len()
{
    lemma_enc_u32s_len(s); lemma_enc_u32s_len(s.drop_last()); lemma_le32_roundtrip(s.last());
    let e = enc_u32s(s) + tail;
    if i == s.len() - 1 {
        assert(e.subrange(4 * i, 4 * i + 4) =~= le32_bytes(s.last()));
    } else {
        lemma_dec_enc_u32s(s.drop_last(), le32_bytes(s.last()) + tail, i);
        assert(enc_u32s(s.drop_last()) + (le32_bytes(s.last()) + tail) =~= e);
    }
}
proof fn lemma_dec_enc_u32s_all(s: Seq<u32>, tail: Seq<u8>)
  ensures dec_u32s(enc_u32s(s) + tail, s.len() as int) == s
{
    assert forall|i: int| 0 <= i < s.len() implies dec_u32_at(enc_u32s(s) + tail, i) == s[i] by { lemma_dec_enc_u32s(s, tail, i); }
    assert(dec_u32s(enc_u32s(s) + tail, s.len() as int) =~= s);
}
// the cursor after `pos` bytes: reading n bytes at pos
proof fn lemma_read(b: Seq<u8>, pos: int, n: int)
  requires 0 <= pos, 0 <= n, pos + n <= b.len()
  ensures b.skip(pos).take(n) == b.subrange(pos, pos + n), b.skip(pos).skip(n) == b.skip(pos + n)
{
    assert(b.skip(pos).take(n) =~= b.subrange(pos, pos + n));
    assert(b.skip(pos).skip(n) =~= b.skip(pos + n));
}
// word i of the payload that starts at byte `base`
proof fn lemma_word_at(b: Seq<u8>, base: int, i: int)
  requires 0 <= base, 0 <= i, base + 4 * i + 4 <= b.len()
  ensures dec_u32_at(b.skip(base), i) == le32_val(b.subrange(base + 4 * i, base + 4 * i + 4))
{
    assert(b.skip(base).subrange(4 * i, 4 * i + 4) =~= b.subrange(base + 4 * i, base + 4 * i + 4));
}

// =====================================================================================================================
// error / io shims
// =====================================================================================================================
#[verifier::external_type_specification]
#[verifier::external_body]
pub struct ExIoError(std::io::Error);

struct Error { k: u8 }
enum ErrorKind { InvalidArgument, InvalidData }
impl Error {
    // error.rs constructors: only "an Error" is known
    #[verifier::external_body] fn new(kind: ErrorKind, message: impl Into<String>) -> Self { Error { k: 1 } }
    #[verifier::external_body] fn invalid_argument(msg: impl Into<String>) -> Self { Error { k: 4 } }
    #[verifier::external_body] fn deserial(msg: impl Into<String>) -> Self { Error { k: 2 } }
    #[verifier::external_body] fn invalid_family(expected: u8, actual: u8, name: &'static str) -> Self { Error { k: 3 } }
}
trait VxIo<T> { fn vx_io(self, tag: &'static str) -> Result<T, Error>; }
impl<T> VxIo<T> for Result<T, std::io::Error> {
  // R2: `.map_err(insufficient_data(tag))`
  #[verifier::external_body]
  fn vx_io(self, tag: &'static str) -> (r: Result<T, Error>)
    ensures self matches Ok(v) ==> r == Ok::<T, Error>(v), self is Err ==> r is Err
  { unimplemented!() }
}
// codec/assert.rs (`expected.contains(&actual)` on a slice: std leaf), by contract
#[verifier::external_body]
fn ensure_preamble_longs_in(expected: &[u8], actual: u8) -> (r: Result<(), Error>)
  ensures r is Ok <==> expected@.contains(actual)
{ unimplemented!() }

// hash/mod.rs: murmur of the seed; opaque.  It PANICS when the 16-bit hash is 0 (documented): that is the precondition.
uninterp spec fn seed_hash_spec(seed: u64) -> u16;
#[verifier::external_body]
fn compute_seed_hash(seed: u64) -> (r: u16)
  requires seed_hash_spec(seed) != 0
  ensures r == seed_hash_spec(seed)
{ unimplemented!() }
const DEFAULT_UPDATE_SEED: u64 = 9001;

// =====================================================================================================================
// codec/encode.rs: SketchBytes, real bodies, view = the bytes written so far
// =====================================================================================================================
struct SketchBytes {
    bytes: Vec<u8>,
}

impl SketchBytes {
    spec fn view(&self) -> Seq<u8> { self.bytes@ }

    fn with_capacity(capacity: usize) -> (r: Self) ensures r@ == Seq::<u8>::empty() {
        Self {
            bytes: Vec::with_capacity(capacity),
        }
    }

    fn into_bytes(self) -> (r: Vec<u8>) ensures r@ == self@ {
        self.bytes
    }

    fn write(&mut self, buf: &[u8]) ensures final(self)@ == old(self)@ + buf@ {
        self.bytes.extend_from_slice(buf);
    }

    fn write_u8(&mut self, n: u8) ensures final(self)@ == old(self)@.push(n) {
        self.bytes.push(n);
    }

    fn write_u16_le(&mut self, n: u16) ensures final(self)@ == old(self)@ + le16_bytes(n) {
        self.write(&vx_u16_to_le_bytes(n));
    }

    fn write_u32_le(&mut self, n: u32) ensures final(self)@ == old(self)@ + le32_bytes(n) {
        self.write(&vx_u32_to_le_bytes(n));
    }

    fn write_f64_le(&mut self, n: f64) ensures final(self)@ == old(self)@ + le64_bytes(f64_bits(n)) {
        self.write(&vx_f64_to_le_bytes(n));
    }
}

// =====================================================================================================================
// codec/decode.rs: SketchSlice; the std Cursor is abstracted by rem() = the bytes not yet consumed.
// =====================================================================================================================
#[verifier::external_body]
struct SketchSlice<'a> {
    slice: Cursor<&'a [u8]>,
}

impl SketchSlice<'_> {
    uninterp spec fn rem(&self) -> Seq<u8>;

    #[verifier::external_body]
    fn new(slice: &[u8]) -> (r: SketchSlice<'_>) ensures r.rem() == slice@ {
        unimplemented!()
    }

    #[verifier::external_body]
    fn read_exact(&mut self, buf: &mut [u8]) -> (r: io::Result<()>)
      ensures
        old(self).rem().len() >= old(buf)@.len() ==> (r is Ok && final(buf)@ == old(self).rem().take(old(buf)@.len() as int) && final(self).rem() == old(self).rem().skip(old(buf)@.len() as int)),
        old(self).rem().len() < old(buf)@.len() ==> r is Err,
        final(buf)@.len() == old(buf)@.len(),
    {
        unimplemented!()
    }

    fn read_u8(&mut self) -> (r: io::Result<u8>)
      ensures
        old(self).rem().len() >= 1 ==> (r matches Ok(v) && v == old(self).rem()[0] && final(self).rem() == old(self).rem().skip(1)),
        old(self).rem().len() < 1 ==> r is Err,
    {
        let mut buf = [0u8; 1];
        self.read_exact(&mut buf)?;
        Ok(buf[0])
    }

    fn read_u16_le(&mut self) -> (r: io::Result<u16>)
      ensures
        old(self).rem().len() >= 2 ==> (r matches Ok(v) && v == le16_val(old(self).rem().take(2)) && final(self).rem() == old(self).rem().skip(2)),
        old(self).rem().len() < 2 ==> r is Err,
    {
        let mut buf = [0u8; 2];
        self.read_exact(&mut buf)?;
        Ok(vx_u16_from_le_bytes(buf))
    }

    fn read_u32_le(&mut self) -> (r: io::Result<u32>)
      ensures
        old(self).rem().len() >= 4 ==> (r matches Ok(v) && v == le32_val(old(self).rem().take(4)) && final(self).rem() == old(self).rem().skip(4)),
        old(self).rem().len() < 4 ==> r is Err,
    {
        let mut buf = [0u8; 4];
        self.read_exact(&mut buf)?;
        Ok(vx_u32_from_le_bytes(buf))
    }

    fn read_f64_le(&mut self) -> (r: io::Result<f64>)
      ensures
        old(self).rem().len() >= 8 ==> (r matches Ok(v) && v == f64_of_bits(le64_val(old(self).rem().take(8))) && final(self).rem() == old(self).rem().skip(8)),
        old(self).rem().len() < 8 ==> r is Err,
    {
        let mut buf = [0u8; 8];
        self.read_exact(&mut buf)?;
        Ok(vx_f64_from_le_bytes(buf))
    }
}

// =====================================================================================================================
// codec/family.rs, codec/assert.rs, cpc/serialization.rs, cpc/mod.rs: constants (taken from /repo every run)
// =====================================================================================================================
struct Family {
    id: u8,
    name: &'static str,
    min_pre_longs: u8,
    max_pre_longs: u8,
}

impl Family {
    const CPC: Family = Family {
        id: 16,
        name: "CPC",
        min_pre_longs: 1,
        max_pre_longs: 5,
    };

    fn validate_id(&self, family_id: u8) -> (r: Result<(), Error>) ensures r is Ok <==> family_id == self.id {
        if family_id != self.id {
            Err(Error::invalid_family(self.id, family_id, self.name))
        } else {
            Ok(())
        }
    }
}

fn ensure_serial_version_is(expected: u8, actual: u8) -> (r: Result<(), Error>) ensures r is Ok <==> expected == actual {
    if expected == actual {
        Ok(())
    } else {
        Err(Error::deserial(format!(
            "unsupported serial version: expected {expected}, got {actual}"
        )))
    }
}

const SERIAL_VERSION: u8 = 1;
const FLAG_COMPRESSED: u8 = 1;
const FLAG_HAS_HIP: u8 = 2;
const FLAG_HAS_TABLE: u8 = 3;
const FLAG_HAS_WINDOW: u8 = 4;
const MIN_LG_K: u8 = 4;
const MAX_LG_K: u8 = 26;

// =====================================================================================================================
// FORMAT SPEC (DESIGN.md Appendix A, "CPC"; family 16, serVer 1).  Written from the published layout, not from the Rust code.
//   0 preInts | 1 serVer=1 | 2 famID=16 | 3 lgK | 4 firstInterestingColumn | 5 flags: bit1 COMPRESSED(2), bit2 HAS_HIP(4),
//   bit3 HAS_TABLE(8), bit4 HAS_WINDOW(16) | 6-7 seedHash u16
//   then, when non-empty (a non-empty sketch has a table or a window or both):
//     numCoupons u32 | [numSV u32 and, if HIP, kxp f64 + hipAccum f64 -- when BOTH table and window] | [svLengthInts u32 if table]
//     | [wLengthInts u32 if window] | [kxp f64, hipAccum f64 if HIP and not both] | window words (wLengthInts u32) | table words (svLengthInts u32)
//   preInts = 2 + the number of 4-byte fields present (an f64 counts 2).
//   numSV: "if there is no window it is the same as the number of coupons".
// =====================================================================================================================
spec fn f_compressed(b: Seq<u8>) -> bool { b[5] & 2 != 0 }
spec fn f_hip(b: Seq<u8>) -> bool { b[5] & 4 != 0 }
spec fn f_table(b: Seq<u8>) -> bool { b[5] & 8 != 0 }
spec fn f_window(b: Seq<u8>) -> bool { b[5] & 16 != 0 }
// the fields after the 8-byte header are present iff the image is that of a non-empty sketch
spec fn f_nonempty(b: Seq<u8>) -> bool { f_table(b) || f_window(b) }
spec fn f_both(b: Seq<u8>) -> bool { f_table(b) && f_window(b) }
spec fn pre_ints_spec(nonempty: bool, hip: bool, table: bool, window: bool) -> int {
    if !nonempty { 2 } else {
        2 + 1 + (if table && window { 1int } else { 0 }) + (if hip { 4int } else { 0 }) + (if table { 1int } else { 0 }) + (if window { 1int } else { 0 })
    }
}
spec fn cpc_flags(hip: bool, table: bool, window: bool) -> u8 {
    (2 + (if hip { 4int } else { 0 }) + (if table { 8int } else { 0 }) + (if window { 16int } else { 0 })) as u8
}
// byte offsets of the optional fields, as a function of the flags
spec fn off_svlen(b: Seq<u8>) -> int { 12 + (if f_both(b) { 4 + (if f_hip(b) { 16int } else { 0 }) } else { 0 }) }
spec fn off_wlen(b: Seq<u8>) -> int { off_svlen(b) + (if f_table(b) { 4int } else { 0 }) }
spec fn off_hip2(b: Seq<u8>) -> int { off_wlen(b) + (if f_window(b) { 4int } else { 0 }) }
spec fn off_kxp(b: Seq<u8>) -> int { if f_both(b) { 16 } else { off_hip2(b) } }
spec fn pre_end(b: Seq<u8>) -> int { if f_nonempty(b) { off_hip2(b) + (if f_hip(b) && !f_both(b) { 16int } else { 0 }) } else { 8 } }
spec fn hip_present(b: Seq<u8>) -> bool { f_nonempty(b) && f_hip(b) }
// field accessors
spec fn fld_seed_hash(b: Seq<u8>) -> u16 { le16_val(b.subrange(6, 8)) }
spec fn fld_num_coupons(b: Seq<u8>) -> u32 { if f_nonempty(b) { le32_val(b.subrange(8, 12)) } else { 0 } }
spec fn fld_num_sv(b: Seq<u8>) -> u32 { if f_both(b) { le32_val(b.subrange(12, 16)) } else if f_table(b) { fld_num_coupons(b) } else { 0 } }
spec fn fld_kxp_bits(b: Seq<u8>) -> u64 { if hip_present(b) { le64_val(b.subrange(off_kxp(b), off_kxp(b) + 8)) } else { 0 } }
spec fn fld_hip_bits(b: Seq<u8>) -> u64 { if hip_present(b) { le64_val(b.subrange(off_kxp(b) + 8, off_kxp(b) + 16)) } else { 0 } }
spec fn fld_sv_len(b: Seq<u8>) -> u32 { if f_table(b) { le32_val(b.subrange(off_svlen(b), off_svlen(b) + 4)) } else { 0 } }
spec fn fld_w_len(b: Seq<u8>) -> u32 { if f_window(b) { le32_val(b.subrange(off_wlen(b), off_wlen(b) + 4)) } else { 0 } }
spec fn fld_window(b: Seq<u8>) -> Seq<u32> { dec_u32s(b.skip(pre_end(b)), fld_w_len(b) as int) }
spec fn fld_table(b: Seq<u8>) -> Seq<u32> { dec_u32s(b.skip(pre_end(b) + 4 * fld_w_len(b)), fld_sv_len(b) as int) }
// validity, clause by clause
spec fn cpc_magic_ok(b: Seq<u8>) -> bool { b.len() >= 8 && b[1] == 1 && b[2] == 16 && f_compressed(b) }
spec fn cpc_pre_len_ok(b: Seq<u8>) -> bool { b.len() >= pre_end(b) }
spec fn cpc_ranges_ok(b: Seq<u8>) -> bool { 4 <= b[3] <= 26 && b[4] <= 63 }
spec fn cpc_pre_ints_ok(b: Seq<u8>) -> bool { b[0] == pre_ints_spec(f_nonempty(b), f_hip(b), f_table(b), f_window(b)) }
spec fn cpc_nonempty_ok(b: Seq<u8>) -> bool { f_nonempty(b) ==> fld_num_coupons(b) > 0 }
spec fn cpc_payload_ok(b: Seq<u8>) -> bool { b.len() >= pre_end(b) + 4 * (fld_w_len(b) + fld_sv_len(b)) }
spec fn cpc_valid(b: Seq<u8>) -> bool {
    cpc_magic_ok(b) && cpc_pre_len_ok(b) && cpc_ranges_ok(b) && cpc_pre_ints_ok(b) && cpc_nonempty_ok(b) && cpc_payload_ok(b)
}
// the abstract content of a CPC image (floats as bit patterns, the compressed words as an opaque payload)
ghost struct CpcImg {
    lg_k: u8,
    fic: u8,
    seed_hash: u16,
    has_hip: bool,
    has_table: bool,
    has_window: bool,
    num_coupons: u32,
    num_sv: u32,
    kxp: u64,
    hip: u64,
    window: Seq<u32>,
    table: Seq<u32>,
}
spec fn img_of(b: Seq<u8>) -> CpcImg {
    CpcImg { lg_k: b[3], fic: b[4], seed_hash: fld_seed_hash(b), has_hip: f_hip(b), has_table: f_table(b), has_window: f_window(b),
             num_coupons: fld_num_coupons(b), num_sv: fld_num_sv(b), kxp: fld_kxp_bits(b), hip: fld_hip_bits(b), window: fld_window(b), table: fld_table(b) }
}
// the spec DECODER (trailing bytes after the table words are not an error)
spec fn cpc_decode(b: Seq<u8>) -> Option<CpcImg> { if cpc_valid(b) { Some(img_of(b)) } else { None } }
// the spec ENCODER
spec fn img_nonempty(v: CpcImg) -> bool { v.has_table || v.has_window }
spec fn img_both(v: CpcImg) -> bool { v.has_table && v.has_window }
spec fn enc_hip(v: CpcImg) -> Seq<u8> { le64_bytes(v.kxp) + le64_bytes(v.hip) }
spec fn enc_cpc_header(v: CpcImg) -> Seq<u8> {
    seq![pre_ints_spec(img_nonempty(v), v.has_hip, v.has_table, v.has_window) as u8, 1u8, 16u8, v.lg_k, v.fic, cpc_flags(v.has_hip, v.has_table, v.has_window)] + le16_bytes(v.seed_hash)
}
spec fn fp_sv(v: CpcImg) -> Seq<u8> { if img_both(v) { le32_bytes(v.num_sv) } else { Seq::empty() } }
spec fn fp_hip1(v: CpcImg) -> Seq<u8> { if img_both(v) && v.has_hip { enc_hip(v) } else { Seq::empty() } }
spec fn fp_tl(v: CpcImg) -> Seq<u8> { if v.has_table { le32_bytes(v.table.len() as u32) } else { Seq::empty() } }
spec fn fp_wl(v: CpcImg) -> Seq<u8> { if v.has_window { le32_bytes(v.window.len() as u32) } else { Seq::empty() } }
spec fn fp_hip2(v: CpcImg) -> Seq<u8> { if v.has_hip && !img_both(v) { enc_hip(v) } else { Seq::empty() } }
spec fn enc_cpc_fields(v: CpcImg) -> Seq<u8> {
    le32_bytes(v.num_coupons) + fp_sv(v) + fp_hip1(v) + fp_tl(v) + fp_wl(v) + fp_hip2(v)
}
spec fn enc_cpc(v: CpcImg) -> Seq<u8> {
    if img_nonempty(v) { enc_cpc_header(v) + enc_cpc_fields(v) + enc_u32s(v.window) + enc_u32s(v.table) } else { enc_cpc_header(v) }
}
// the images a writer may produce: absent fields carry their default in the view
spec fn img_canon(v: CpcImg) -> bool {
    &&& 4 <= v.lg_k <= 26 && v.fic <= 63
    &&& v.table.len() <= 0xffff_ffff && v.window.len() <= 0xffff_ffff
    &&& !v.has_table ==> v.table.len() == 0
    &&& !v.has_window ==> v.window.len() == 0
    &&& img_nonempty(v) ==> v.num_coupons > 0
    &&& !img_nonempty(v) ==> v.num_coupons == 0
    &&& !img_both(v) ==> v.num_sv == (if v.has_table { v.num_coupons } else { 0 })
    &&& !(img_nonempty(v) && v.has_hip) ==> v.kxp == 0 && v.hip == 0
}

proof fn lemma_flag_bits(hip: bool, table: bool, window: bool)
  ensures ({ let f = cpc_flags(hip, table, window); (f & 2 != 0) && ((f & 4 != 0) == hip) && ((f & 8 != 0) == table) && ((f & 16 != 0) == window) })
{
    let f = cpc_flags(hip, table, window);
    assert(f == 2 || f == 6 || f == 10 || f == 14 || f == 18 || f == 22 || f == 26 || f == 30);
    assert((f == 2 || f == 6 || f == 10 || f == 14 || f == 18 || f == 22 || f == 26 || f == 30) ==>
        (f & 2 != 0) && ((f & 4 != 0) == (f == 6 || f == 14 || f == 22 || f == 30)) && ((f & 8 != 0) == (f == 10 || f == 14 || f == 26 || f == 30)) && ((f & 16 != 0) == (f >= 18))) by (bit_vector);
}

// C11 at spec level: the spec decoder inverts the spec encoder on the framing (the compressed words are an opaque payload)
// the parts common to every non-empty layout: header fields, flags, and the two word lists that follow the preamble
proof fn lemma_cpc_rt_common(v: CpcImg, f: Seq<u8>)
  requires img_canon(v), img_nonempty(v), f == enc_cpc_fields(v)
  ensures ({ let b = enc_cpc(v);
     &&& b.len() == 8 + f.len() + 4 * v.window.len() + 4 * v.table.len()
     &&& b[0] == pre_ints_spec(true, v.has_hip, v.has_table, v.has_window) && b[1] == 1 && b[2] == 16 && b[3] == v.lg_k && b[4] == v.fic
     &&& f_compressed(b) && f_hip(b) == v.has_hip && f_table(b) == v.has_table && f_window(b) == v.has_window
     &&& fld_seed_hash(b) == v.seed_hash
     &&& b.subrange(8, 8 + f.len() as int) == f
     &&& dec_u32s(b.skip(8 + f.len() as int), v.window.len() as int) == v.window
     &&& dec_u32s(b.skip(8 + f.len() as int + 4 * v.window.len() as int), v.table.len() as int) == v.table })
{
    let b = enc_cpc(v); let h = enc_cpc_header(v);
    lemma_flag_bits(v.has_hip, v.has_table, v.has_window);
    lemma_le16_roundtrip(v.seed_hash);
    lemma_enc_u32s_len(v.window); lemma_enc_u32s_len(v.table);
    assert(h.len() == 8);
    assert(b.subrange(6, 8) =~= le16_bytes(v.seed_hash));
    assert(b[5] == h[5]);
    assert(b.subrange(8, 8 + f.len() as int) =~= f);
    assert(b.skip(8 + f.len() as int) =~= enc_u32s(v.window) + enc_u32s(v.table));
    lemma_dec_enc_u32s_all(v.window, enc_u32s(v.table));
    assert(b.skip(8 + f.len() as int + 4 * v.window.len() as int) =~= enc_u32s(v.table) + Seq::<u8>::empty());
    lemma_dec_enc_u32s_all(v.table, Seq::<u8>::empty());
}
// the pieces of a concatenation, by offset
proof fn lemma_pieces6(f: Seq<u8>, p1: Seq<u8>, p2: Seq<u8>, p3: Seq<u8>, p4: Seq<u8>, p5: Seq<u8>, p6: Seq<u8>)
  requires f == p1 + p2 + p3 + p4 + p5 + p6
  ensures ({ let l1 = p1.len() as int; let l2 = l1 + p2.len(); let l3 = l2 + p3.len(); let l4 = l3 + p4.len(); let l5 = l4 + p5.len(); let l6 = l5 + p6.len();
     &&& f.len() == l6
     &&& f.subrange(0, l1) == p1 &&& f.subrange(l1, l2) == p2 &&& f.subrange(l2, l3) == p3 &&& f.subrange(l3, l4) == p4 &&& f.subrange(l4, l5) == p5 &&& f.subrange(l5, l6) == p6 })
{
    let l1 = p1.len() as int; let l2 = l1 + p2.len(); let l3 = l2 + p3.len(); let l4 = l3 + p4.len(); let l5 = l4 + p5.len(); let l6 = l5 + p6.len();
    assert(f.subrange(0, l1) =~= p1); assert(f.subrange(l1, l2) =~= p2); assert(f.subrange(l2, l3) =~= p3);
    assert(f.subrange(l3, l4) =~= p4); assert(f.subrange(l4, l5) =~= p5); assert(f.subrange(l5, l6) =~= p6);
}
proof fn lemma_sub_sub(b: Seq<u8>, f: Seq<u8>, o: int, n: int)
  requires b.len() >= 8 + f.len(), b.subrange(8, 8 + f.len() as int) == f, 0 <= o, 0 <= n, o + n <= f.len()
  ensures b.subrange(8 + o, 8 + o + n) == f.subrange(o, o + n)
{
    assert(b.subrange(8 + o, 8 + o + n) =~= b.subrange(8, 8 + f.len() as int).subrange(o, o + n));
}
proof fn lemma_hip_split(b: Seq<u8>, o: int, kxp: u64, hip: u64)
  requires 0 <= o, o + 16 <= b.len(), b.subrange(o, o + 16) == le64_bytes(kxp) + le64_bytes(hip)
  ensures le64_val(b.subrange(o, o + 8)) == kxp, le64_val(b.subrange(o + 8, o + 16)) == hip
{
    lemma_le64_roundtrip(kxp); lemma_le64_roundtrip(hip);
    assert(b.subrange(o, o + 8) =~= b.subrange(o, o + 16).subrange(0, 8));
    assert(b.subrange(o + 8, o + 16) =~= b.subrange(o, o + 16).subrange(8, 16));
    assert((le64_bytes(kxp) + le64_bytes(hip)).subrange(0, 8) =~= le64_bytes(kxp));
    assert((le64_bytes(kxp) + le64_bytes(hip)).subrange(8, 16) =~= le64_bytes(hip));
}
proof fn lemma_cpc_framing_roundtrip(v: CpcImg)
  requires img_canon(v)
  ensures /*@C11.cpc.framing*/ cpc_decode(enc_cpc(v)) == Some(v)
{
    let b = enc_cpc(v);
    if img_nonempty(v) {
        let f = enc_cpc_fields(v);
        lemma_cpc_rt_common(v, f);
        let wl = v.window.len() as u32; let tl = v.table.len() as u32;
        lemma_le32_roundtrip(v.num_coupons); lemma_le32_roundtrip(v.num_sv); lemma_le32_roundtrip(wl); lemma_le32_roundtrip(tl);
        lemma_le64_roundtrip(v.kxp); lemma_le64_roundtrip(v.hip);
        let p1 = le32_bytes(v.num_coupons);
        lemma_pieces6(f, p1, fp_sv(v), fp_hip1(v), fp_tl(v), fp_wl(v), fp_hip2(v));
        let l1 = 4int; let l2 = l1 + fp_sv(v).len(); let l3 = l2 + fp_hip1(v).len(); let l4 = l3 + fp_tl(v).len(); let l5 = l4 + fp_wl(v).len(); let l6 = l5 + fp_hip2(v).len();
        assert(pre_end(b) == 8 + f.len());
        lemma_sub_sub(b, f, 0, l1);
        lemma_sub_sub(b, f, l1, l2 - l1);
        lemma_sub_sub(b, f, l2, l3 - l2);
        lemma_sub_sub(b, f, l3, l4 - l3);
        lemma_sub_sub(b, f, l4, l5 - l4);
        lemma_sub_sub(b, f, l5, l6 - l5);
        if v.has_hip && img_both(v) { lemma_hip_split(b, 8 + l2, v.kxp, v.hip); }
        if v.has_hip && !img_both(v) { lemma_hip_split(b, 8 + l5, v.kxp, v.hip); }
        assert(fld_num_coupons(b) == v.num_coupons);
        assert(fld_num_sv(b) == v.num_sv);
        assert(fld_sv_len(b) == tl);
        assert(fld_w_len(b) == wl);
        assert(fld_kxp_bits(b) == v.kxp && fld_hip_bits(b) == v.hip);
        assert(img_of(b) == v);
    } else {
        lemma_flag_bits(v.has_hip, v.has_table, v.has_window);
        lemma_le16_roundtrip(v.seed_hash);
        assert(b.subrange(6, 8) =~= le16_bytes(v.seed_hash));
        assert(fld_window(b) =~= v.window);
        assert(fld_table(b) =~= v.table);
        assert(img_of(b) == v);
    }
}

// cpc/serialization.rs
fn make_preamble_ints(
    num_coupons: u32,
    has_hip: bool,
    has_table: bool,
    has_window: bool,
) -> (r: u8)
  ensures /*@C12.cpc.pre_ints*/ r == pre_ints_spec(num_coupons > 0, has_hip, has_table, has_window)
{
    let mut preamble_ints = 2;
    if num_coupons > 0 {
        preamble_ints += 1; // number of coupons
        if has_hip {
            preamble_ints += 4; // HIP
        }
        if has_table {
            preamble_ints += 1; // table data length
            // number of values (if there is no window it is the same as number of coupons)
            if has_window {
                preamble_ints += 1;
            }
        }
        if has_window {
            preamble_ints += 1; // window length
        }
    }
    preamble_ints
}

}
fn main(){}
