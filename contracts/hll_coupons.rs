#![feature(allocator_api)]
use vstd::prelude::*;
use vstd::iset::*;
use vstd::arithmetic::power2::*;
use vstd::arithmetic::div_mod::*;
use vstd::arithmetic::mul::*;
use std::hash::Hash;
verus! {
global size_of usize == 8;

// ================= probe.vx =================
// odd s, 2^n | d*s  ==>  2^n | d
proof fn lemma_odd_cancel(n: nat, s: int, d: int)
  requires s % 2 == 1, (d * s) % (pow2(n) as int) == 0
  ensures d % (pow2(n) as int) == 0
  decreases n
{
    lemma_pow2_pos(n);
    if n == 0 {
        lemma2_to64();
    } else {
        let p = pow2(n) as int;
        let q = pow2((n - 1) as nat) as int;
        lemma_pow2_pos((n - 1) as nat);
        assert(p == 2 * q) by { lemma_pow2_unfold(n); }
        let m = (d * s) / p;
        assert(d * s == p * m) by { lemma_fundamental_div_mod(d * s, p); }
        assert((d * s) % 2 == 0) by {
            assert(d * s == 2 * (q * m)) by (nonlinear_arith) requires d * s == p * m, p == 2 * q;
        }
        if d % 2 != 0 {
            let a = d / 2; let b = s / 2;
            assert(d * s == 2 * (2 * a * b + a + b) + 1) by (nonlinear_arith) requires d == 2 * a + 1, s == 2 * b + 1;
            assert(false);
        }
        let d2 = d / 2;
        assert((d2 * s) % q == 0) by {
            assert(2 * (d2 * s) == 2 * (q * m)) by (nonlinear_arith) requires d == 2 * d2, d * s == p * m, p == 2 * q;
            lemma_mod_multiples_basic(m, q);
            assert(q * m == m * q) by (nonlinear_arith);
        }
        lemma_odd_cancel((n - 1) as nat, s, d2);
        let t = d2 / q;
        assert(d2 == q * t) by { lemma_fundamental_div_mod(d2, q); }
        assert(d == p * t) by (nonlinear_arith) requires d == 2 * d2, d2 == q * t, p == 2 * q;
        lemma_mod_multiples_basic(t, p);
        assert(p * t == t * p) by (nonlinear_arith);
    }
}

spec fn probe_at(p0: int, s: int, j: int, size: int) -> int { (p0 + j * s) % size }

// the probe sequence is injective on [0, 2^n)
proof fn lemma_probe_injective(n: nat, p0: int, s: int, j1: int, j2: int)
  requires s % 2 == 1, 0 <= j1 < pow2(n), 0 <= j2 < pow2(n),
           probe_at(p0, s, j1, pow2(n) as int) == probe_at(p0, s, j2, pow2(n) as int)
  ensures j1 == j2
{
    let size = pow2(n) as int;
    lemma_pow2_pos(n);
    // (p0 + j1 s) - (p0 + j2 s) = (j1 - j2) s  is a multiple of size
    let a = p0 + j1 * s; let b = p0 + j2 * s;
    lemma_fundamental_div_mod(a, size);
    lemma_fundamental_div_mod(b, size);
    let d = j1 - j2;
    assert(a - b == d * s) by (nonlinear_arith) requires a == p0 + j1 * s, b == p0 + j2 * s, d == j1 - j2;
    let qa = a / size; let qb = b / size;
    assert(a - b == size * (qa - qb)) by (nonlinear_arith) requires a == size * qa + a % size, b == size * qb + b % size, a % size == b % size;
    lemma_mod_multiples_basic(qa - qb, size);
    assert(size * (qa - qb) == (qa - qb) * size) by (nonlinear_arith);
    assert((d * s) % size == 0);
    lemma_odd_cancel(n, s, d);
    // |d| < size and size | d  ==> d == 0
    lemma_fundamental_div_mod(d, size);
    let t = d / size;
    assert(d == size * t);
    assert(-size < d < size);
    if t == 0 { assert(size * t == 0) by (nonlinear_arith) requires t == 0; }
    if t >= 1 { assert(size * t >= size) by (nonlinear_arith) requires t >= 1, size > 0; }
    if t <= -1 { assert(size * t <= -size) by (nonlinear_arith) requires t <= -1, size > 0; }
}

// one step of the exec probe: (probe + stride) & mask  ==  probe_at(.., j+1)
proof fn lemma_probe_step(p0: int, s: int, j: int, size: int, cur: int)
  requires size > 0, cur == probe_at(p0, s, j, size)
  ensures (cur + s) % size == probe_at(p0, s, j + 1, size)
{
    let a = p0 + j * s;
    assert(p0 + (j + 1) * s == a + s) by (nonlinear_arith) requires a == p0 + j * s;
    lemma_add_mod_noop(a, s, size);
    lemma_add_mod_noop(a % size, s, size);
    lemma_mod_twice(a, size);
}

// pigeonhole: j distinct probe positions, all of them "occupied", and fewer than `size` occupied slots
// We keep a ghost set of visited positions.
proof fn lemma_visited_bound(visited: Set<int>, occupied: Set<int>, size: int)
  requires visited.subset_of(occupied)
  ensures visited.len() <= occupied.len()
{
    vstd::set_lib::lemma_len_subset(visited, occupied);
}

// ================= coupons (hll/mod.rs) =================
const KEY_BITS_26 : u32 = 26 ;

exec const KEY_MASK_26 : u32 ensures KEY_MASK_26 == 0x3ffffff {
proof {
assert ( ( 1u32 << 26u32 ) - 1 == 0x3ffffff ) by ( bit_vector ) ;
}
( 1 << KEY_BITS_26 ) - 1 }


// C16 (derived quantities): a coupon is [value: 6 bits][slot: 26 bits]
spec fn cslot(c: u32) -> u32 { c & 0x3ffffff }
spec fn cval(c: u32) -> u8 { (c >> 26) as u8 }
spec fn cpack(slot: u32, value: u8) -> u32 { (((value & 0x3f) as u32) << 26) | (slot & 0x3ffffff) }
spec fn clz64(x: u64) -> int { vstd::std_specs::bits::u64_leading_zeros(x) as int }
spec fn min_int(a: int, b: int) -> int { if a <= b { a } else { b } }
// the reference derivation: slot = low 26 bits of h0, value = min(clz(h1), 62) + 1
spec fn coupon_of(lo: u64, hi: u64) -> u32 { cpack((lo & 0x3ffffff) as u32, (min_int(clz64(hi), 62) + 1) as u8) }

proof fn lemma_pack_unpack(slot: u32, value: u8)
  ensures /*@C16.coupon_pack_inverse*/ cslot(cpack(slot, value)) == slot & 0x3ffffff, cval(cpack(slot, value)) == value & 0x3f,
    1 <= value <= 63 ==> cpack(slot, value) != 0,
{
    let v = value as u32; let s = slot;
    assert(v <= 255 ==> ((((v & 0x3f) << 26) | (s & 0x3ffffff)) & 0x3ffffff) == s & 0x3ffffff) by (bit_vector);
    assert(v <= 255 ==> ((((v & 0x3f) << 26) | (s & 0x3ffffff)) >> 26) == v & 0x3f) by (bit_vector);
    assert(1 <= v <= 63 ==> (((v & 0x3f) << 26) | (s & 0x3ffffff)) != 0) by (bit_vector);
    let w = value;
    assert(((w & 0x3f) as u32) == ((w as u32) & 0x3f)) by (bit_vector);
    assert(((w as u32) & 0x3f) as u8 == w & 0x3f) by (bit_vector);
}
proof fn lemma_unpack_pack(c: u32)
  ensures /*@C16.coupon_unpack_inverse*/ cpack(cslot(c), cval(c)) == c, cval(c) <= 63, cslot(c) <= 0x3ffffff
{
    assert((c >> 26) <= 63) by (bit_vector);
    assert((c & 0x3ffffff) <= 0x3ffffff) by (bit_vector);
    let v = (c >> 26) as u8;
    assert((((c >> 26) & 0x3f) << 26) | ((c & 0x3ffffff) & 0x3ffffff) == c) by (bit_vector);
    assert(((v & 0x3f) as u32) == ((v as u32) & 0x3f)) by (bit_vector);
}

fn get_slot ( coupon : u32 ) -> ( r : u32 ) ensures
/*@C16.coupon_slot*/ r == cslot ( coupon ) {
proof {
assert ( coupon & 0x3ffffff == coupon % 0x4000000 && coupon & 0x3ffffff == 0x3ffffff & coupon ) by ( bit_vector ) ;
}
coupon & KEY_MASK_26 }


fn get_value ( coupon : u32 ) -> ( r : u8 ) ensures
/*@C16.coupon_value*/ r == cval ( coupon ) , r <= 63 {
proof {
assert ( ( coupon >> 26 ) <= 63 ) by ( bit_vector ) ;
assert ( coupon >> 26 == coupon / 0x4000000 && ( 1u32 << 26 ) == 0x4000000 ) by ( bit_vector ) ;
}
( coupon >> KEY_BITS_26 ) as u8 }


fn pack_coupon ( slot : u32 , value : u8 ) -> ( r : u32 ) ensures
/*@C16.coupon_pack*/ value <= 63 ==> r == cpack ( slot , value ) ,
/*@C16.coupon_pack_slot*/ cslot ( r ) == slot & 0x3ffffff ,
/*@C16.coupon_pack_value*/ value <= 63 ==> cval ( r ) == value , {
proof {
lemma_pack_unpack ( slot , value ) ;
let v = value as u32 ;
let s = slot ;
assert ( v <= 255 ==> ( ( ( v << 26 ) | ( s & 0x3ffffff ) ) & 0x3ffffff ) == s & 0x3ffffff ) by ( bit_vector ) ;
let w = value ;
assert ( w <= 63 ==> w & 0x3f == w ) by ( bit_vector ) ;
assert ( ( v << 26 ) | ( s & 0x3ffffff ) == ( s & 0x3ffffff ) | ( v << 26 ) && s & 0x3ffffff == 0x3ffffff & s && s & 0x3ffffff == s % 0x4000000 ) by ( bit_vector ) ;
}
( ( value as u32 ) << KEY_BITS_26 ) | ( slot & KEY_MASK_26 ) }


// the hasher is a leaf here (its digest is the subject of the murmur unit, C16): `digest` is what finish128 returns
#[verifier::external_body]
struct MurmurHash3X64128 { _p: u8 }
uninterp spec fn murmur128<H>(v: H) -> (u64, u64);
impl MurmurHash3X64128 {
    uninterp spec fn digest(&self) -> (u64, u64);
    uninterp spec fn fresh(&self) -> bool;
    // the hasher invariant finish128 needs (unit hash_murmur: a reachable state, fewer than 16 buffered bytes, byte count fits u64)
    uninterp spec fn fed(&self) -> bool;
    #[verifier::external_body]
    fn default() -> (r: Self)
      ensures r.fresh()
    { unimplemented!() }
    #[verifier::external_body]
    fn finish128(&self) -> (r: (u64, u64))
      requires self.fed()
      ensures r == self.digest()
    { unimplemented!() }
}
// R15 shim for `v.hash(&mut hasher)`: feeding v to a fresh default-seeded hasher makes its digest murmur128(v) (definition of murmur128)
#[verifier::external_body]
fn vx_hash_into<H: Hash>(v: H, hasher: &mut MurmurHash3X64128)
  requires old(hasher).fresh()
  ensures final(hasher).digest() == murmur128(v), final(hasher).fed()   // `write` keeps the hasher invariant (proved in unit hash_murmur)
{ unimplemented!() /* v.hash(hasher) */ }

fn coupon < H : Hash > ( v : H ) -> ( r : u32 ) ensures
/*@C16.coupon_formula*/ r == coupon_of ( murmur128 ( v ) . 0 , murmur128 ( v ) . 1 ) ,
/*@C16.coupon_slot_bits*/ cslot ( r ) == ( murmur128 ( v ) . 0 & 0x3ffffff ) as u32 ,
/*@C16.coupon_value_bits*/ cval ( r ) == min_int ( clz64 ( murmur128 ( v ) . 1 ) , 62 ) + 1 ,
/*@C16.coupon_nonzero*/ r != 0 ,
/*@C16.coupon_value_range*/ 1 <= cval ( r ) <= 63 , {
let mut hasher = MurmurHash3X64128 :: default ( ) ;
vx_hash_into ( v , & mut hasher ) ;
let ( lo , hi ) = hasher . finish128 ( ) ;
let addr26 = lo as u32 & KEY_MASK_26 ;
let lz = hi . leading_zeros ( ) ;
let capped = lz . min ( 62 ) ;
let value = capped + 1 ;
proof {
let l = lo ;
assert ( ( ( l as u32 ) & 0x3ffffffu32 ) == ( l & 0x3ffffffu64 ) as u32 && ( l as u32 ) & 0x3ffffffu32 == 0x3ffffffu32 & ( l as u32 ) ) by ( bit_vector ) ;
let vv = value ;
let a = addr26 ;
assert ( 1 <= vv <= 63 ==> ( vv << 26u32 ) == ( ( ( ( vv as u8 ) & 0x3f ) as u32 ) << 26u32 ) ) by ( bit_vector ) ;
assert ( a == a & 0x3ffffff ) by ( bit_vector ) requires a == ( l as u32 ) & 0x3ffffffu32 ;
lemma_pack_unpack ( addr26 , value as u8 ) ;
let w = value as u8 ;
assert ( w <= 63 ==> w & 0x3f == w ) by ( bit_vector ) ;
assert ( ( vv << 26 ) | a == a | ( vv << 26 ) ) by ( bit_vector ) ;
}
( value << KEY_BITS_26 ) | addr26 }


// ================= coupon tables: abstract views =================
const COUPON_EMPTY : u32 = 0 ;


// the non-empty coupons of a table, in table order (what Container::iter yields)
spec fn nz(s: Seq<u32>) -> Seq<u32> decreases s.len() {
    if s.len() == 0 { Seq::empty() } else if s.last() != 0 { nz(s.drop_last()).push(s.last()) } else { nz(s.drop_last()) }
}
// the abstract view of List / HashSet: the set of coupons held
spec fn cset(cs: Seq<u32>) -> ISet<u32> { ISet::new(|c: u32| c != 0 && cs.contains(c)) }
spec fn occupied(cs: Seq<u32>) -> Set<int> { Set::range(0, cs.len() as int).filter(|i: int| cs[i] != 0) }
// no coupon is stored twice
spec fn no_dup(cs: Seq<u32>) -> bool {
    forall|i: int, j: int| 0 <= i < cs.len() && 0 <= j < cs.len() && i != j && cs[i] != 0 ==> cs[i] != cs[j]
}

proof fn lemma_occ_len(cs: Seq<u32>)
  ensures occupied(cs).len() == nz(cs).len(), nz(cs).len() <= cs.len()
  decreases cs.len()
{
    if cs.len() == 0 {
        assert(occupied(cs) =~= Set::<int>::empty());
    } else {
        let d = cs.drop_last(); let n = cs.len() as int;
        lemma_occ_len(d);
        if cs.last() != 0 {
            assert(occupied(cs) =~= occupied(d).insert(n - 1));
            assert(!occupied(d).contains(n - 1));
        } else {
            assert(occupied(cs) =~= occupied(d));
        }
    }
}
proof fn lemma_nz_contains(cs: Seq<u32>, c: u32)
  requires c != 0
  ensures nz(cs).contains(c) <==> cs.contains(c)
  decreases cs.len()
{
    if cs.len() > 0 {
        let d = cs.drop_last(); let n = cs.len() as int;
        lemma_nz_contains(d, c);
        if cs.contains(c) {
            let i = choose|i: int| 0 <= i < cs.len() && cs[i] == c;
            if i < n - 1 { assert(d[i] == c); assert(d.contains(c)); let k = choose|k: int| 0 <= k < nz(d).len() && nz(d)[k] == c; if cs.last() != 0 { assert(nz(cs)[k] == c); } }
            else { assert(nz(cs)[nz(cs).len() - 1] == c); }
        }
        if nz(cs).contains(c) {
            let k = choose|k: int| 0 <= k < nz(cs).len() && nz(cs)[k] == c;
            if cs.last() != 0 && k == nz(cs).len() - 1 { assert(cs[n - 1] == c); }
            else { assert(nz(d)[k] == c); assert(d.contains(c)); let i = choose|i: int| 0 <= i < d.len() && d[i] == c; assert(cs[i] == c); }
        }
    }
}
proof fn lemma_nz_nonzero(cs: Seq<u32>, k: int)
  requires 0 <= k < nz(cs).len()
  ensures nz(cs)[k] != 0, cs.contains(nz(cs)[k])
  decreases cs.len()
{
    if cs.len() > 0 {
        let d = cs.drop_last();
        if cs.last() != 0 && k == nz(cs).len() - 1 { assert(cs[cs.len() - 1] == nz(cs)[k]); }
        else { lemma_nz_nonzero(d, k); let i = choose|i: int| 0 <= i < d.len() && d[i] == nz(d)[k]; assert(cs[i] == nz(cs)[k]); }
    }
}
// len == |coupons|: a duplicate-free table lists every member of its view exactly once
proof fn lemma_nz_no_duplicates(cs: Seq<u32>)
  requires no_dup(cs)
  ensures nz(cs).no_duplicates()
  decreases cs.len()
{
    if cs.len() > 0 {
        let d = cs.drop_last(); let n = cs.len() as int;
        assert(no_dup(d)) by { assert forall|i: int, j: int| 0 <= i < d.len() && 0 <= j < d.len() && i != j && d[i] != 0 implies d[i] != d[j] by { assert(cs[i] != cs[j]); } }
        lemma_nz_no_duplicates(d);
        if cs.last() != 0 {
            let c = cs.last();
            lemma_nz_contains(d, c);
            if d.contains(c) { let i = choose|i: int| 0 <= i < d.len() && d[i] == c; assert(cs[i] != cs[n - 1]); }
            assert forall|a: int, b: int| 0 <= a < nz(cs).len() && 0 <= b < nz(cs).len() && a != b implies nz(cs)[a] != nz(cs)[b] by {
                let m = nz(d).len() as int;
                if a == m { assert(nz(d)[b] != c) by { if nz(d)[b] == c { assert(nz(d).contains(c)); } } }
                else if b == m { assert(nz(d)[a] != c) by { if nz(d)[a] == c { assert(nz(d).contains(c)); } } }
                else { }
            }
        }
    }
}
proof fn lemma_nz_store(cs: Seq<u32>, idx: int, c: u32)
  requires 0 <= idx < cs.len(), cs[idx] == 0, c != 0
  ensures nz(cs.update(idx, c)).len() == nz(cs).len() + 1, cset(cs.update(idx, c)) == cset(cs).insert(c)
{
    let nc = cs.update(idx, c);
    lemma_occ_len(cs); lemma_occ_len(nc);
    assert(occupied(nc) =~= occupied(cs).insert(idx));
    assert(!occupied(cs).contains(idx));
    assert forall|x: u32| #[trigger] cset(nc).contains(x) <==> cset(cs).insert(c).contains(x) by {
        if x == c { assert(nc[idx] == c); }
        else {
            if cset(cs).contains(x) { let i = choose|i: int| 0 <= i < cs.len() && cs[i] == x; assert(nc[i] == x); }
            if cset(nc).contains(x) { let i = choose|i: int| 0 <= i < nc.len() && nc[i] == x; assert(cs[i] == x); }
        }
    }
    assert(cset(nc) =~= cset(cs).insert(c));
}
proof fn lemma_cset_present(cs: Seq<u32>, idx: int)
  requires 0 <= idx < cs.len(), cs[idx] != 0
  ensures cset(cs).contains(cs[idx]), cset(cs) == cset(cs).insert(cs[idx])
{
    assert(cset(cs) =~= cset(cs).insert(cs[idx]));
}
proof fn lemma_nz_all_zero(cs: Seq<u32>)
  requires forall|i: int| 0 <= i < cs.len() ==> cs[i] == 0
  ensures nz(cs).len() == 0, cset(cs) == ISet::<u32>::empty(), no_dup(cs)
  decreases cs.len()
{
    if cs.len() > 0 { lemma_nz_all_zero(cs.drop_last()); }
    assert(cset(cs) =~= ISet::<u32>::empty());
}

pub assume_specification<T, A: core::alloc::Allocator> [ Vec::<T, A>::into_boxed_slice ] (v: Vec<T, A>) -> (r: Box<[T], A>)
  ensures r@ == v@;
proof fn lemma_shl_usize(l: usize)
  requires l <= 26
  ensures (1usize << l) == pow2(l as nat), pow2(l as nat) <= 0x4000000, pow2(l as nat) >= 1
{
    lemma2_to64();
    lemma_pow2_pos(l as nat);
    if l < 26 { lemma_pow2_strictly_increases(l as nat, 26); }
    vstd::bits::lemma_u32_shl_is_mul(1, l as u32);
    let ll = l as u32;
    assert(ll <= 26 ==> (1usize << ll) == ((1u32 << ll) as usize)) by (bit_vector);
    assert((1usize << l) == (1usize << ll));
}

// ================= hll/container.rs (accessors) =================
struct Container {
lg_size : usize , coupons : Box < [ u32 ] > , len : usize , }


impl Container {
    spec fn view(&self) -> ISet<u32> { cset(self.coupons@) }
    // the counter tells the number of coupons held
    spec fn wf_len(&self) -> bool { self.len == nz(self.coupons@).len() }

    fn new ( lg_size : usize ) -> ( r : Self ) requires lg_size <= 26 ensures r . lg_size == lg_size , r . len == 0 , r . coupons @ . len ( ) == pow2 ( lg_size as nat ) ,
/*@C02.container_init*/ r @ == ISet :: < u32 > :: empty ( ) , r . wf_len ( ) , forall | i : int | 0 <= i < r . coupons @ . len ( ) ==> r . coupons @ [ i ] == 0 , {
proof {
lemma_shl_usize ( lg_size ) ;
assert forall | c : Container | ( forall | i : int | 0 <= i < c . coupons @ . len ( ) ==> c . coupons @ [ i ] == 0 ) && c . len == 0 implies # [ trigger ] c . wf_len ( ) && c @ == ISet :: < u32 > :: empty ( ) by {
lemma_nz_all_zero ( c . coupons @ ) ;
}
}
Self {
lg_size , coupons : vec! [ COUPON_EMPTY ;
1 << lg_size ] . into_boxed_slice ( ) , len : 0 , }
}


    fn len ( & self ) -> ( r : usize ) ensures r == self . len ,
/*@C02.container_len*/ self . wf_len ( ) ==> r == nz ( self . coupons @ ) . len ( ) {
self . len }


    fn lg_size ( & self ) -> ( r : usize ) ensures r == self . lg_size {
self . lg_size }


    fn is_full ( & self ) -> ( r : bool ) ensures r == ( self . len == self . coupons @ . len ( ) ) {
self . len == self . coupons . len ( ) }


    fn is_empty ( & self ) -> ( r : bool ) ensures r == ( self . len == 0 ) ,
/*@C02.container_is_empty*/ self . wf_len ( ) ==> ( r <==> self @ == ISet :: < u32 > :: empty ( ) ) {
proof {
if self . wf_len ( ) {
if self . len == 0 {
assert forall | c : u32 | ! cset ( self . coupons @ ) . contains ( c ) by {
if c != 0 {
lemma_nz_contains ( self . coupons @ , c ) ;
}
}
assert ( self @ =~= ISet :: < u32 > :: empty ( ) ) ;
}
else {
lemma_nz_nonzero ( self . coupons @ , 0 ) ;
assert ( self @ . contains ( nz ( self . coupons @ ) [ 0 ] ) ) ;
}
}
}
self . len == 0 }


    fn capacity ( & self ) -> ( r : usize ) ensures r == self . coupons @ . len ( ) {
self . coupons . len ( ) }

}

// ================= hll/list.rs =================
struct List {
container : Container , }

// a list is filled from the front
spec fn packed(cs: Seq<u32>, n: int) -> bool {
    &&& 0 <= n <= cs.len()
    &&& forall|i: int| 0 <= i < n ==> cs[i] != 0
    &&& forall|i: int| n <= i < cs.len() ==> cs[i] == 0
}
proof fn lemma_packed_nz(cs: Seq<u32>, n: int)
  requires packed(cs, n)
  ensures nz(cs) == cs.take(n)
  decreases cs.len()
{
    if cs.len() == 0 { assert(cs.take(n) =~= Seq::<u32>::empty()); }
    else {
        let d = cs.drop_last();
        if n == cs.len() { lemma_packed_nz(d, n - 1); assert(cs.take(n) =~= d.take(n - 1).push(cs.last())); }
        else { lemma_packed_nz(d, n); assert(cs.take(n) =~= d.take(n)); }
    }
}

impl List {
    spec fn view(&self) -> ISet<u32> { cset(self.container.coupons@) }
    spec fn wf(&self) -> bool { packed(self.container.coupons@, self.container.len as int) && no_dup(self.container.coupons@) }

    fn default ( ) -> ( r : Self ) ensures
/*@C02.list_init*/ r . wf ( ) , r @ == ISet :: < u32 > :: empty ( ) , r . container . len == 0 , r . container . lg_size == 3 , r . container . coupons @ . len ( ) == 8 {
const LG_INIT_LIST_SIZE : usize = 3 ;
proof {
lemma2_to64 ( ) ;
}
Self :: new ( LG_INIT_LIST_SIZE ) }


    fn new ( lg_size : usize ) -> ( r : Self ) requires lg_size <= 26 ensures
/*@C02.list_init*/ r . wf ( ) , r @ == ISet :: < u32 > :: empty ( ) , r . container . len == 0 , r . container . lg_size == lg_size , r . container . coupons @ . len ( ) == pow2 ( lg_size as nat ) {
Self {
container : Container :: new ( lg_size ) , }
}


    fn container ( & self ) -> ( r : & Container ) ensures r == & self . container {
& self . container }


    fn update ( & mut self , coupon : u32 ) requires old ( self ) . wf ( ) , coupon != 0 ,
/*@C02.list_has_room*/ old ( self ) . container . len < old ( self ) . container . coupons @ . len ( ) , ensures
/*@C02.list_wf*/ final ( self ) . wf ( ) , final ( self ) . container . lg_size == old ( self ) . container . lg_size ,
/*@C02.list_coupons*/ final ( self ) @ == old ( self ) @ . insert ( coupon ) ,
/*@C02.list_append*/ final ( self ) . container . coupons @ == ( if old ( self ) @ . contains ( coupon ) {
old ( self ) . container . coupons @ }
else {
old ( self ) . container . coupons @ . update ( old ( self ) . container . len as int , coupon ) }
) ,
/*@C02.list_len*/ final ( self ) . container . len == old ( self ) . container . len + ( if old ( self ) @ . contains ( coupon ) {
0int }
else {
1int }
) ,
/*@C02.list_len_is_card*/ final ( self ) . container . wf_len ( ) , {
let ghost oc = self . container . coupons @ ;
let ghost n = self . container . len as int ;
let mut vx_i1 = 0 ;
while vx_i1 < self . container . coupons . len ( ) invariant_except_break self . container . coupons @ == oc , self . container . len == n , forall | i : int | 0 <= i < vx_i1 ==> oc [ i ] != coupon , invariant self . container . lg_size == old ( self ) . container . lg_size , oc == old ( self ) . container . coupons @ , n == old ( self ) . container . len , old ( self ) . wf ( ) , coupon != 0 , n < oc . len ( ) , vx_i1 <= n , ensures
/*@C02.list_wf*/ self . wf ( ) ,
/*@C02.list_coupons*/ self @ == old ( self ) @ . insert ( coupon ) ,
/*@C02.list_append*/ self . container . coupons @ == ( if old ( self ) @ . contains ( coupon ) {
oc }
else {
oc . update ( n , coupon ) }
) ,
/*@C02.list_len*/ self . container . len == n + ( if old ( self ) @ . contains ( coupon ) {
0int }
else {
1int }
) ,
/*@C02.list_len_is_card*/ self . container . wf_len ( ) , decreases oc . len ( ) - vx_i1 {
let value = & mut self . container . coupons [ vx_i1 ] ;
if * value == COUPON_EMPTY {
* value = coupon ;
self . container . len += 1 ;
proof {
assert ( vx_i1 == n ) ;
lemma_list_append ( oc , n , coupon ) ;
assert ( self . container . coupons @ =~= oc . update ( n , coupon ) ) ;
}
break ;
}
else if * value == coupon {
proof {
assert ( self . container . coupons @ =~= oc ) ;
lemma_cset_present ( oc , vx_i1 as int ) ;
lemma_packed_nz ( oc , n ) ;
}
break ;
}
proof {
assert ( self . container . coupons @ =~= oc ) ;
}
vx_i1 += 1 ;
}
}

}
proof fn lemma_list_append(cs: Seq<u32>, n: int, c: u32)
  requires packed(cs, n), no_dup(cs), n < cs.len(), c != 0, forall|i: int| 0 <= i < n ==> cs[i] != c
  ensures !cset(cs).contains(c), packed(cs.update(n, c), n + 1), no_dup(cs.update(n, c)), cset(cs.update(n, c)) == cset(cs).insert(c),
    nz(cs.update(n, c)).len() == n + 1
{
    let nc = cs.update(n, c);
    if cs.contains(c) { let i = choose|i: int| 0 <= i < cs.len() && cs[i] == c; assert(i >= n); }
    lemma_nz_store(cs, n, c);
    lemma_packed_nz(nc, n + 1);
    assert forall|i: int, j: int| 0 <= i < nc.len() && 0 <= j < nc.len() && i != j && nc[i] != 0 implies nc[i] != nc[j] by {
        if i == n { if j < n { assert(cs[j] != c); } }
        else if j == n { if i < n { assert(cs[i] != c); } }
        else { assert(cs[i] != cs[j]); }
    }
}

// ================= hll/hash_set.rs =================
struct HashSet {
container : Container , }


proof fn lemma_shl_pow2(l: u32)
  requires l < 32
  ensures (1u32 << l) == pow2(l as nat), l < 27 ==> pow2(l as nat) <= 0x4000000
{
    lemma2_to64();
    if l < 27 { lemma_pow2_strictly_increases(l as nat, 27); }
    lemma_pow2_strictly_increases(l as nat, 32);
    vstd::bits::lemma_u32_shl_is_mul(1, l);
}

// where the probe sequence of coupon c starts and how far it steps in a table of 2^lg slots
spec fn home(c: u32, lg: usize) -> int { (c as int) % (pow2(lg as nat) as int) }
spec fn stride_of(c: u32, lg: usize) -> int { (((c & 0x3ffffffu32) >> lg) | 1u32) as int }
spec fn path(cs: Seq<u32>, c: u32, lg: usize, t: int) -> int { probe_at(home(c, lg), stride_of(c, lg), t, cs.len() as int) }
// the first j slots on c's probe path are taken
spec fn zero_free(cs: Seq<u32>, c: u32, lg: usize, j: int) -> bool {
    forall|t: int| 0 <= t < j ==> cs[#[trigger] path(cs, c, lg, t)] != 0
}
// the first j slots on c's probe path do not hold c
spec fn path_clear(cs: Seq<u32>, c: u32, lg: usize, j: int) -> bool {
    forall|t: int| 0 <= t < j ==> cs[#[trigger] path(cs, c, lg, t)] != c
}
// the probe invariant: every stored coupon sits on its own probe path with no empty slot before it
spec fn reach_at(cs: Seq<u32>, lg: usize, i: int) -> bool {
    exists|j: int| 0 <= j < cs.len() && i == path(cs, cs[i], lg, j) && #[trigger] zero_free(cs, cs[i], lg, j)
}
spec fn reach(cs: Seq<u32>, lg: usize) -> bool {
    forall|i: int| 0 <= i < cs.len() && cs[i] != 0 ==> #[trigger] reach_at(cs, lg, i)
}
spec fn tbl_shape(cs: Seq<u32>, lg: usize) -> bool { lg <= 26 && cs.len() == pow2(lg as nat) }
spec fn tbl_ok(cs: Seq<u32>, lg: usize) -> bool { tbl_shape(cs, lg) && no_dup(cs) && reach(cs, lg) }

proof fn lemma_path_in_range(cs: Seq<u32>, c: u32, lg: usize, t: int)
  requires cs.len() > 0
  ensures 0 <= path(cs, c, lg, t) < cs.len()
{
    lemma_mod_bound(home(c, lg) + t * stride_of(c, lg), cs.len() as int);
}

// a coupon already stored is met by its probe sequence before any empty slot
proof fn lemma_probe_hits_existing(cs: Seq<u32>, lg: usize, c: u32, j: int)
  requires tbl_ok(cs, lg), c != 0, cs.contains(c),
    0 <= j < cs.len(), cs[path(cs, c, lg, j)] == 0,
    path_clear(cs, c, lg, j),
  ensures false
{
    let i0 = choose|i: int| 0 <= i < cs.len() && cs[i] == c;
    assert(reach_at(cs, lg, i0));
    let j0 = choose|j0: int| 0 <= j0 < cs.len() && i0 == path(cs, cs[i0], lg, j0) && zero_free(cs, cs[i0], lg, j0);
    if j0 < j {
        assert(cs[path(cs, c, lg, j0)] != c);
    } else if j0 > j {
        assert(cs[path(cs, c, lg, j)] != 0);
    } else {
    }
}

// putting a fresh coupon into the first empty slot of its path keeps the table well formed
proof fn lemma_insert_ok(cs: Seq<u32>, lg: usize, c: u32, j: int)
  requires tbl_ok(cs, lg), c != 0, !cs.contains(c),
    0 <= j < cs.len(), cs[path(cs, c, lg, j)] == 0,
    zero_free(cs, c, lg, j),
  ensures tbl_ok(cs.update(path(cs, c, lg, j), c), lg)
{
    let idx = path(cs, c, lg, j);
    lemma_path_in_range(cs, c, lg, j);
    let ns = cs.update(idx, c);
    assert(no_dup(ns)) by {
        assert forall|a: int, b: int| 0 <= a < ns.len() && 0 <= b < ns.len() && a != b && ns[a] != 0 implies ns[a] != ns[b] by {
            if a == idx { assert(cs[b] != c) by { if cs[b] == c { assert(cs.contains(c)); } } }
            else if b == idx { assert(cs[a] != c) by { if cs[a] == c { assert(cs.contains(c)); } } }
            else { assert(cs[a] != cs[b]); }
        }
    }
    assert(reach(ns, lg)) by {
        assert forall|i: int| 0 <= i < ns.len() && ns[i] != 0 implies #[trigger] reach_at(ns, lg, i) by {
            if i == idx {
                assert(zero_free(ns, c, lg, j)) by {
                    assert forall|t: int| 0 <= t < j implies ns[#[trigger] path(ns, c, lg, t)] != 0 by {
                        let p = path(cs, c, lg, t);
                        assert(cs[p] != 0);
                        lemma_path_in_range(cs, c, lg, t);
                    }
                }
                assert(ns[i] == c);
                assert(i == path(ns, ns[i], lg, j));
            } else {
                assert(reach_at(cs, lg, i));
                let ji = choose|ji: int| 0 <= ji < cs.len() && i == path(cs, cs[i], lg, ji) && zero_free(cs, cs[i], lg, ji);
                assert(zero_free(ns, ns[i], lg, ji)) by {
                    assert forall|t: int| 0 <= t < ji implies ns[#[trigger] path(ns, ns[i], lg, t)] != 0 by {
                        let p = path(cs, cs[i], lg, t);
                        assert(cs[p] != 0);
                        lemma_path_in_range(cs, cs[i], lg, t);
                    }
                }
                assert(i == path(ns, ns[i], lg, ji));
            }
        }
    }
}
proof fn lemma_tbl_empty(cs: Seq<u32>, lg: usize)
  requires tbl_shape(cs, lg), forall|i: int| 0 <= i < cs.len() ==> cs[i] == 0
  ensures tbl_ok(cs, lg)
{
}

impl HashSet {
    spec fn view(&self) -> ISet<u32> { cset(self.container.coupons@) }
    spec fn shape(&self) -> bool { tbl_shape(self.container.coupons@, self.container.lg_size) }
    // at least one empty slot: the probe loop terminates
    spec fn has_room(&self) -> bool { nz(self.container.coupons@).len() < self.container.coupons@.len() }
    spec fn wf(&self) -> bool { tbl_ok(self.container.coupons@, self.container.lg_size) && self.container.wf_len() }

    fn default ( ) -> ( r : Self ) ensures
/*@C02.set_init*/ r . wf ( ) , r @ == ISet :: < u32 > :: empty ( ) , r . container . len == 0 , r . container . lg_size == 5 , r . container . coupons @ . len ( ) == 32 {
const LG_INIT_SET_SIZE : usize = 5 ;
proof {
lemma2_to64 ( ) ;
}
Self :: new ( LG_INIT_SET_SIZE ) }


    fn new ( lg_size : usize ) -> ( r : Self ) requires lg_size <= 26 ensures
/*@C02.set_init*/ r . wf ( ) , r @ == ISet :: < u32 > :: empty ( ) , r . container . len == 0 , r . container . lg_size == lg_size , r . container . coupons @ . len ( ) == pow2 ( lg_size as nat ) {
Self {
container : Container :: new ( lg_size ) , }
}


    fn container ( & self ) -> ( r : & Container ) ensures r == & self . container {
& self . container }


    #[verifier::loop_isolation(false)]
    #[verifier::allow_complex_invariants]
    fn update ( & mut self , coupon : u32 ) requires old ( self ) . shape ( ) , old ( self ) . container . len < usize :: MAX ,
/*@C02.set_has_room*/ old ( self ) . has_room ( ) , ensures final ( self ) . shape ( ) , final ( self ) . container . lg_size == old ( self ) . container . lg_size ,
/*@C02.set_coupons*/ coupon != 0 ==> final ( self ) @ == old ( self ) @ . insert ( coupon ) , final ( self ) . container . len <= old ( self ) . container . len + 1 ,
/*@C02.set_probe_invariant*/ coupon != 0 && old ( self ) . wf ( ) ==> final ( self ) . wf ( ) ,
/*@C02.set_len*/ coupon != 0 && old ( self ) . wf ( ) ==> final ( self ) . container . len == old ( self ) . container . len + ( if old ( self ) @ . contains ( coupon ) {
0int }
else {
1int }
) ,
/*@C02.set_count*/ coupon != 0 && old ( self ) . container . wf_len ( ) ==> final ( self ) . container . wf_len ( ) ,
/*@C02.set_empty_coupon*/ coupon == 0 ==> final ( self ) . container . coupons @ == old ( self ) . container . coupons @ && final ( self ) . container . len == old ( self ) . container . len + 1 , {
proof {
lemma_shl_pow2 ( self . container . lg_size as u32 ) ;
lemma_pow2_pos ( self . container . lg_size as nat ) ;
}
let mask = ( 1 << self . container . lg_size ( ) ) - 1 ;
let mut probe = coupon & mask ;
let starting_position = probe ;
let ghost lgs = self . container . lg_size ;
let ghost lg = self . container . lg_size as nat ;
let ghost size = pow2 ( lg ) as int ;
let ghost s : int = stride_of ( coupon , lgs ) ;
let ghost p0 = probe as int ;
let ghost oc = self . container . coupons @ ;
let ghost mut j : int = 0 ;
let ghost mut visited : Set < int > = Set :: empty ( ) ;
proof {
let l = self . container . lg_size as u32 ;
let c = coupon ;
assert ( l < 27 ==> ( c & ( ( ( 1u32 << l ) - 1 ) as u32 ) ) == c % ( 1u32 << l ) ) by ( bit_vector ) ;
let x = ( ( coupon & 0x3ffffffu32 ) >> self . container . lg_size ) ;
assert ( ( x | 1 ) % 2 == 1 ) by ( bit_vector ) ;
assert ( l < 32 ==> 0 < ( ( ( c & 0x3ffffffu32 ) >> l ) | 1 ) < 0x4000000 ) by ( bit_vector ) ;
assert ( p0 == home ( coupon , lgs ) ) ;
assert ( p0 == probe_at ( p0 , s , 0 , size ) ) by {
assert ( p0 + 0 * s == p0 ) by ( nonlinear_arith ) ;
lemma_small_mod ( p0 as nat , size as nat ) ;
}
lemma_occ_len ( oc ) ;
}
loop invariant_except_break self . container . coupons @ == oc , self . container . len == old ( self ) . container . len , invariant self . container . lg_size == old ( self ) . container . lg_size , oc == old ( self ) . container . coupons @ , old ( self ) . shape ( ) , old ( self ) . has_room ( ) , old ( self ) . container . len < usize :: MAX , lgs == self . container . lg_size , lg == lgs as nat , size == pow2 ( lg ) , size == oc . len ( ) , size <= 0x4000000 , mask == size - 1 , mask == ( ( 1u32 << ( lg as u32 ) ) - 1 ) as u32 , lg < 27 , s == stride_of ( coupon , lgs ) , s % 2 == 1 , 0 < s < 0x4000000 , p0 == starting_position , 0 <= p0 < size , p0 == home ( coupon , lgs ) , 0 <= j < size , probe == path ( oc , coupon , lgs , j ) , 0 <= probe < size , forall | p : int | visited . contains ( p ) <==> exists | i : int | 0 <= i < j && p == probe_at ( p0 , s , i , size ) , visited . len ( ) == j , visited . subset_of ( occupied ( oc ) ) , occupied ( oc ) . len ( ) == nz ( oc ) . len ( ) , zero_free ( oc , coupon , lgs , j ) , path_clear ( oc , coupon , lgs , j ) , ensures self . shape ( ) ,
/*@C02.set_coupons*/ coupon != 0 ==> self @ == old ( self ) @ . insert ( coupon ) , self . container . len <= old ( self ) . container . len + 1 ,
/*@C02.set_count*/ coupon != 0 && old ( self ) . container . wf_len ( ) ==> self . container . wf_len ( ) ,
/*@C02.set_empty_coupon*/ coupon == 0 ==> self . container . coupons @ == oc && self . container . len == old ( self ) . container . len + 1 ,
/*@C02.set_probe_invariant*/ coupon != 0 && old ( self ) . wf ( ) ==> self . wf ( ) ,
/*@C02.set_len*/ coupon != 0 && old ( self ) . wf ( ) ==> self . container . len == old ( self ) . container . len + ( if old ( self ) @ . contains ( coupon ) {
0int }
else {
1int }
) , decreases size - j {
let value = & mut self . container . coupons [ probe as usize ] ;
if * value == COUPON_EMPTY {
* value = coupon ;
self . container . len += 1 ;
proof {
assert ( self . container . coupons @ =~= oc . update ( probe as int , coupon ) ) ;
if coupon != 0 {
lemma_nz_store ( oc , probe as int , coupon ) ;
}
else {
assert ( oc . update ( probe as int , coupon ) =~= oc ) ;
}
if coupon != 0 && old ( self ) . wf ( ) {
if oc . contains ( coupon ) {
lemma_probe_hits_existing ( oc , lgs , coupon , j ) ;
}
lemma_insert_ok ( oc , lgs , coupon , j ) ;
}
}
break ;
}
else if * value == coupon {
proof {
assert ( self . container . coupons @ =~= oc ) ;
lemma_cset_present ( oc , probe as int ) ;
}
break ;
}
let stride = ( ( coupon & KEY_MASK_26 ) >> self . container . lg_size ( ) ) | 1 ;
proof {
let sx = coupon & 0x3ffffffu32 ;
let sl = lg as u32 ;
assert ( sl < 32 ==> sx >> sl == sx / ( 1u32 << sl ) ) by ( bit_vector ) ;
assert ( stride as int == s ) ;
let cur = probe as int ;
assert ( self . container . coupons @ =~= oc ) ;
lemma_probe_step ( p0 , s , j , size , cur ) ;
lemma_shl_pow2 ( lg as u32 ) ;
let pr = probe ;
let st = stride ;
let l = lg as u32 ;
assert ( l < 27 && pr < ( 1u32 << l ) && st < 0x4000000 ==> ( ( pr + st ) as u32 & ( ( ( 1u32 << l ) - 1 ) as u32 ) ) == ( pr + st ) as u32 % ( 1u32 << l ) ) by ( bit_vector ) ;
assert ( occupied ( oc ) . contains ( cur ) ) ;
assert ( ! visited . contains ( cur ) ) by {
if visited . contains ( cur ) {
let i = choose | i : int | 0 <= i < j && cur == probe_at ( p0 , s , i , size ) ;
lemma_probe_injective ( lg , p0 , s , i , j ) ;
}
}
let v2 = visited . insert ( cur ) ;
assert ( v2 . len ( ) == j + 1 ) ;
assert ( v2 . subset_of ( occupied ( oc ) ) ) ;
lemma_visited_bound ( v2 , occupied ( oc ) , size ) ;
assert ( j + 1 < size ) ;
assert forall | p : int | v2 . contains ( p ) <==> exists | i : int | 0 <= i < j + 1 && p == probe_at ( p0 , s , i , size ) by {
if v2 . contains ( p ) {
if p == cur {
assert ( p == probe_at ( p0 , s , j , size ) ) ;
}
else {
let i = choose | i : int | 0 <= i < j && p == probe_at ( p0 , s , i , size ) ;
assert ( 0 <= i < j + 1 ) ;
}
}
if exists | i : int | 0 <= i < j + 1 && p == probe_at ( p0 , s , i , size ) {
let i = choose | i : int | 0 <= i < j + 1 && p == probe_at ( p0 , s , i , size ) ;
if i < j {
assert ( visited . contains ( p ) ) ;
}
}
}
visited = v2 ;
assert ( zero_free ( oc , coupon , lgs , j + 1 ) ) ;
assert ( path_clear ( oc , coupon , lgs , j + 1 ) ) ;
}
probe = ( probe + stride ) & mask ;
proof {
assert ( probe as int == probe_at ( p0 , s , j + 1 , size ) ) ;
j = j + 1 ;
if probe == starting_position {
assert ( probe_at ( p0 , s , 0 , size ) == p0 ) by {
assert ( p0 + 0 * s == p0 ) by ( nonlinear_arith ) ;
lemma_small_mod ( p0 as nat , size as nat ) ;
}
lemma_probe_injective ( lg , p0 , s , 0 , j ) ;
}
}
if probe == starting_position {
unreachable! ( ) ;
}
}
}

}
}
fn main(){}
