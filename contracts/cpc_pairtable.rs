#![feature(allocator_api)]
use vstd::prelude::*;
use vstd::iset::*;
use vstd::arithmetic::power2::*;
use vstd::arithmetic::div_mod::*;
use vstd::arithmetic::mul::*;
verus! {
global size_of usize == 8;

// ================= probe.vx =================
// odd s, 2^n | d*s  ==>  2^n | d
proof fn lemma_odd_cancel(n: nat, s: int, d: int)
  requires s % 2 == 1, (d * s) % (pow2(n) as int) == 0
  ensures d % (pow2(n) as int) == 0
  decreases n
{
    lemma_pow2_pos(n);
    if n == 0 {
        lemma2_to64();
    } else {
        let p = pow2(n) as int;
        let q = pow2((n - 1) as nat) as int;
        lemma_pow2_pos((n - 1) as nat);
        assert(p == 2 * q) by { lemma_pow2_unfold(n); }
        let m = (d * s) / p;
        assert(d * s == p * m) by { lemma_fundamental_div_mod(d * s, p); }
        assert((d * s) % 2 == 0) by {
            assert(d * s == 2 * (q * m)) by (nonlinear_arith) requires d * s == p * m, p == 2 * q;
        }
        if d % 2 != 0 {
            let a = d / 2; let b = s / 2;
            assert(d * s == 2 * (2 * a * b + a + b) + 1) by (nonlinear_arith) requires d == 2 * a + 1, s == 2 * b + 1;
            assert(false);
        }
        let d2 = d / 2;
        assert((d2 * s) % q == 0) by {
            assert(2 * (d2 * s) == 2 * (q * m)) by (nonlinear_arith) requires d == 2 * d2, d * s == p * m, p == 2 * q;
            lemma_mod_multiples_basic(m, q);
            assert(q * m == m * q) by (nonlinear_arith);
        }
        lemma_odd_cancel((n - 1) as nat, s, d2);
        let t = d2 / q;
        assert(d2 == q * t) by { lemma_fundamental_div_mod(d2, q); }
        assert(d == p * t) by (nonlinear_arith) requires d == 2 * d2, d2 == q * t, p == 2 * q;
        lemma_mod_multiples_basic(t, p);
        assert(p * t == t * p) by (nonlinear_arith);
    }
}

spec fn probe_at(p0: int, s: int, j: int, size: int) -> int { (p0 + j * s) % size }

// the probe sequence is injective on [0, 2^n)
proof fn lemma_probe_injective(n: nat, p0: int, s: int, j1: int, j2: int)
  requires s % 2 == 1, 0 <= j1 < pow2(n), 0 <= j2 < pow2(n),
           probe_at(p0, s, j1, pow2(n) as int) == probe_at(p0, s, j2, pow2(n) as int)
  ensures j1 == j2
{
    let size = pow2(n) as int;
    lemma_pow2_pos(n);
    // (p0 + j1 s) - (p0 + j2 s) = (j1 - j2) s  is a multiple of size
    let a = p0 + j1 * s; let b = p0 + j2 * s;
    lemma_fundamental_div_mod(a, size);
    lemma_fundamental_div_mod(b, size);
    let d = j1 - j2;
    assert(a - b == d * s) by (nonlinear_arith) requires a == p0 + j1 * s, b == p0 + j2 * s, d == j1 - j2;
    let qa = a / size; let qb = b / size;
    assert(a - b == size * (qa - qb)) by (nonlinear_arith) requires a == size * qa + a % size, b == size * qb + b % size, a % size == b % size;
    lemma_mod_multiples_basic(qa - qb, size);
    assert(size * (qa - qb) == (qa - qb) * size) by (nonlinear_arith);
    assert((d * s) % size == 0);
    lemma_odd_cancel(n, s, d);
    // |d| < size and size | d  ==> d == 0
    lemma_fundamental_div_mod(d, size);
    let t = d / size;
    assert(d == size * t);
    assert(-size < d < size);
    if t == 0 { assert(size * t == 0) by (nonlinear_arith) requires t == 0; }
    if t >= 1 { assert(size * t >= size) by (nonlinear_arith) requires t >= 1, size > 0; }
    if t <= -1 { assert(size * t <= -size) by (nonlinear_arith) requires t <= -1, size > 0; }
}

// one step of the exec probe: (probe + stride) & mask  ==  probe_at(.., j+1)
proof fn lemma_probe_step(p0: int, s: int, j: int, size: int, cur: int)
  requires size > 0, cur == probe_at(p0, s, j, size)
  ensures (cur + s) % size == probe_at(p0, s, j + 1, size)
{
    let a = p0 + j * s;
    assert(p0 + (j + 1) * s == a + s) by (nonlinear_arith) requires a == p0 + j * s;
    lemma_add_mod_noop(a, s, size);
    lemma_add_mod_noop(a % size, s, size);
    lemma_mod_twice(a, size);
}

// pigeonhole: j distinct probe positions, all of them "occupied", and fewer than `size` occupied slots
// We keep a ghost set of visited positions.
proof fn lemma_visited_bound(visited: Set<int>, occupied: Set<int>, size: int)
  requires visited.subset_of(occupied)
  ensures visited.len() <= occupied.len()
{
    vstd::set_lib::lemma_len_subset(visited, occupied);
}


pub assume_specification<T> [ core::mem::replace::<T> ] (dest: &mut T, src: T) -> (r: T)
  ensures r == *old(dest), *final(dest) == src;
// ================= cpc/pair_table.rs (real code + overlay) =================
const UPSIZE_NUMERATOR: u32 = 3;
const UPSIZE_DENOMINATOR: u32 = 4;
const DOWNSIZE_NUMERATOR: u32 = 1;
const DOWNSIZE_DENOMINATOR: u32 = 4;
const EMPTY: u32 = 0xffff_ffff;

struct PairTable {
    lg_size: u8,
    num_valid_bits: u8,
    num_items: u32,
    slots: Vec<u32>,
}

spec fn phome(item: u32, nvb: u8, lg: u8) -> int { (item >> ((nvb - lg) as u32)) as int }
spec fn ppos(item: u32, nvb: u8, lg: u8, j: int, size: int) -> int { probe_at(phome(item, nvb, lg), 1, j, size) }
spec fn pocc(ss: Seq<u32>) -> Set<int> { Set::range(0, ss.len() as int).filter(|i: int| ss[i] != EMPTY) }
spec fn pfull_before(ss: Seq<u32>, item: u32, nvb: u8, lg: u8, j: int) -> bool {
    forall|t: int| 0 <= t < j ==> ss[#[trigger] ppos(item, nvb, lg, t, ss.len() as int)] != EMPTY
}
spec fn pclear_before(ss: Seq<u32>, item: u32, nvb: u8, lg: u8, j: int) -> bool {
    forall|t: int| 0 <= t < j ==> ss[#[trigger] ppos(item, nvb, lg, t, ss.len() as int)] != EMPTY && ss[ppos(item, nvb, lg, t, ss.len() as int)] != item
}
spec fn preach_at(ss: Seq<u32>, nvb: u8, lg: u8, i: int) -> bool {
    exists|j: int| 0 <= j < ss.len() && i == ppos(ss[i], nvb, lg, j, ss.len() as int) && #[trigger] pfull_before(ss, ss[i], nvb, lg, j)
}
spec fn pshape(ss: Seq<u32>, nvb: u8, lg: u8) -> bool { 2 <= lg <= 26 && lg < nvb <= 32 && ss.len() == pow2(lg as nat) }
spec fn ptbl_ok(ss: Seq<u32>, nvb: u8, lg: u8) -> bool {
    &&& pshape(ss, nvb, lg)
    &&& forall|i: int| 0 <= i < ss.len() && ss[i] != EMPTY ==> (#[trigger] ss[i] as int) < pow2(nvb as nat)
    &&& forall|i: int, j: int| 0 <= i < ss.len() && 0 <= j < ss.len() && i != j && ss[i] != EMPTY ==> ss[i] != ss[j]
    &&& forall|i: int| 0 <= i < ss.len() && ss[i] != EMPTY ==> #[trigger] preach_at(ss, nvb, lg, i)
}
spec fn pholds(ss: Seq<u32>, item: u32) -> bool { exists|i: int| 0 <= i < ss.len() && ss[i] == item }

proof fn lemma_pshl(l: u8)
  requires l < 32
  ensures (1u32 << l) == pow2(l as nat), pow2(l as nat) >= 1, l <= 26 ==> pow2(l as nat) <= 0x400_0000
{
    lemma2_to64(); lemma_pow2_pos(l as nat);
    lemma_pow2_strictly_increases(l as nat, 32);
    if l < 26 { lemma_pow2_strictly_increases(l as nat, 26); }
    vstd::bits::lemma_u32_shl_is_mul(1, l as u32);
    assert((1u32 << (l as u32)) == (1u32 << l));
}
proof fn lemma_pmask(x: u32, n: u8)
  requires n < 32
  ensures (x & (((1u32 << n) - 1) as u32)) == x % (pow2(n as nat) as u32)
{
    lemma_pshl(n);
    vstd::bits::lemma_u32_low_bits_mask_is_mod(x, n as nat);
    lemma_plbm(n as nat);
}
proof fn lemma_plbm(n: nat)
  ensures vstd::bits::low_bits_mask(n) == pow2(n) - 1
  decreases n
{
    lemma2_to64(); vstd::bits::lemma_low_bits_mask_values();
    if n > 0 { lemma_plbm((n - 1) as nat); vstd::bits::lemma_low_bits_mask_unfold(n); lemma_pow2_unfold(n); }
}
// item < 2^nvb  ==>  item >> (nvb - lg) < 2^lg
proof fn lemma_home_range(item: u32, nvb: u8, lg: u8)
  requires 2 <= lg < nvb <= 32, (item as int) < pow2(nvb as nat)
  ensures 0 <= phome(item, nvb, lg) < pow2(lg as nat)
{
    let sh = (nvb - lg) as u32;
    assert(sh < 32);
    vstd::bits::lemma_u32_shr_is_div(item, sh);
    lemma_pow2_adds(sh as nat, lg as nat);
    lemma_pow2_pos(sh as nat); lemma_pow2_pos(lg as nat);
    let p = pow2(sh as nat) as int; let q = pow2(lg as nat) as int;
    assert((item as int) < p * q);
    assert((item as int) / p < q) by (nonlinear_arith) requires (item as int) < p * q, p > 0, q > 0, item >= 0;
}

impl PairTable {
    spec fn wf(&self) -> bool {
        &&& ptbl_ok(self.slots@, self.num_valid_bits, self.lg_size)
        &&& self.num_items == pocc(self.slots@).len()
        &&& 4 * self.num_items <= 3 * self.slots@.len()
    }

    fn new(lg_size: u8, num_valid_bits: u8) -> (r: Self)
      requires 2 <= lg_size <= 26, lg_size + 1 <= num_valid_bits <= 32
      ensures /*@C05.pairtable.new.slots*/ pall_empty(r.slots@, lg_size),
        r.lg_size == lg_size, r.num_valid_bits == num_valid_bits, r.num_items == 0,
        /*@C05.pairtable.new.wf*/ r.wf(),
        /*@C05.pairtable.new.empty*/ r.items() =~= ISet::<u32>::empty(),
    {
        assert!((2..=26).contains(&lg_size));
        assert!(((lg_size + 1)..=32).contains(&num_valid_bits));
        proof {
            lemma_pshl_us(lg_size);
            assert forall|ss: Seq<u32>| #[trigger] pall_empty(ss, lg_size) implies ptbl_ok(ss, num_valid_bits, lg_size) && pocc(ss).len() == 0
                && ISet::new(|c: u32| c != EMPTY && pholds(ss, c)) =~= ISet::<u32>::empty() by {
                lemma_pempty_ok(ss, num_valid_bits, lg_size); lemma_items_none(ss);
            }
        }
        Self {
            lg_size,
            num_valid_bits,
            num_items: 0,
            slots: vec![u32::MAX; 1 << lg_size],
        }
    }

    fn clear(&mut self)
      requires old(self).wf(),
      ensures /*@C05.pairtable.clear.wf*/ final(self).wf(), final(self).num_valid_bits == old(self).num_valid_bits, final(self).lg_size == old(self).lg_size,
        final(self).num_items == 0,
        /*@C05.pairtable.clear.empty*/ final(self).items() =~= ISet::<u32>::empty(),
    {
        self.slots.fill(u32::MAX);
        self.num_items = 0;
        proof { lemma_pempty_ok(self.slots@, self.num_valid_bits, self.lg_size); lemma_items_none(self.slots@); }
    }

    fn unwrapping_get_items(&self) -> (res: Vec<u32>)
      requires self.wf(),
      ensures /*@C05.pairtable.get_items.len*/ res@.len() == self.num_items,
        /*@C05.pairtable.get_items.set*/ forall|x: u32| res@.contains(x) <==> self.items().contains(x),
        /*@C05.pairtable.get_items.distinct*/ res@.no_duplicates(),
    {
        let ghost ss = self.slots@;
        let ghost n = self.num_items as int;
        let ghost nvb = self.num_valid_bits; let ghost lg = self.lg_size;
        if self.num_items == 0 {
            proof { lemma_pocc_none(ss); lemma_items_none(ss); }
            return vec![];
        }

        proof { lemma_pshl_us(self.lg_size); lemma_pow2_strictly_increases(1, self.lg_size as nat); lemma2_to64(); }
        let table_size = 1usize << self.lg_size;
        let mut result = vec![0; self.num_items as usize];
        let mut i = 0usize;
        let mut l = 0usize;
        let mut r = self.num_items as usize - 1;
        let ghost mut src: Seq<int> = Seq::new(n as nat, |k: int| 0int);

        // special rules for the region before the first empty slot
        let hi_bit = 1 << (self.num_valid_bits - 1);
        proof { assert(pocc(ss.take(0)) =~= Set::<int>::empty()); }
        while i < table_size && self.slots[i] != u32::MAX
          invariant
            ss == self.slots@, n == self.num_items, nvb == self.num_valid_bits, lg == self.lg_size, self.wf(), 1 <= n < ss.len(), table_size == ss.len(),
            hi_bit == (1u32 << ((nvb - 1) as u8)),
            i <= table_size, r < n, result@.len() == n,
            pocc(ss.take(i as int)).len() == l + (n - 1 - r), l + (n - 1 - r) == i,
            l == 0 && i > 0 ==> ss[0] != EMPTY && (ss[0] & hi_bit) != 0,
            gi_inv(ss, result@, src, i as int, l as int, r as int),
          decreases table_size - i
        {
            let item = self.slots[i];
            proof { lemma_pocc_take_step(ss, i as int); lemma_pocc_take_le(ss, i as int + 1); }
            i += 1;
            if (item & hi_bit) != 0 {
                // this item was probably wrapped, so move to end
                proof {
                    if l == 0 {
                        lemma_hi_wrapped(ss, nvb, lg);
                        if i < table_size { lemma_pocc_take_plus(ss, i as int, table_size - 1); }
                    }
                    lemma_gi_hi(ss, result@, src, i - 1, l as int, r as int);
                    src = src.update(r as int, i - 1);
                }
                result[r] = item;
                r -= 1;
            } else {
                proof { lemma_gi_lo(ss, result@, src, i - 1, l as int, r as int); src = src.update(l as int, i - 1); }
                result[l] = item;
                l += 1;
            }
        }

        // the rest of the table is processed normally
        while i < table_size
          invariant
            ss == self.slots@, n == self.num_items, 1 <= n, table_size == ss.len(),
            i <= table_size, r < n, result@.len() == n,
            pocc(ss.take(i as int)).len() == l + (n - 1 - r), n == pocc(ss).len(),
            gi_inv(ss, result@, src, i as int, l as int, r as int),
          decreases table_size - i
        {
            let item = self.slots[i];
            proof { lemma_pocc_take_step(ss, i as int); lemma_pocc_take_le(ss, i as int + 1); }
            i += 1;
            if item != u32::MAX {
                proof { lemma_gi_lo(ss, result@, src, i - 1, l as int, r as int); src = src.update(l as int, i - 1); }
                result[l] = item;
                l += 1;
            } else {
                proof { lemma_gi_skip(ss, result@, src, i - 1, l as int, r as int); }
            }
        }

        proof { assert(ss.take(ss.len() as int) =~= ss); }
        assert!(l == r + 1);
        proof { lemma_gi_final(ss, result@, src, nvb, lg, l as int, r as int); }
        result
    }

    #[verifier::loop_isolation(false)]
    #[verifier::allow_complex_invariants]
    fn lookup(&self, item: u32) -> (r: u32)
      requires pshape(self.slots@, self.num_valid_bits, self.lg_size), pocc(self.slots@).len() < self.slots@.len(), (item as int) < pow2(self.num_valid_bits as nat), item != EMPTY
      ensures r < self.slots@.len(), self.slots@[r as int] == item || self.slots@[r as int] == EMPTY,
        ptbl_ok(self.slots@, self.num_valid_bits, self.lg_size) && self.slots@[r as int] == EMPTY ==> !pholds(self.slots@, item),
        exists|j: int| 0 <= j < self.slots@.len() && r == ppos(item, self.num_valid_bits, self.lg_size, j, self.slots@.len() as int)
             && #[trigger] pclear_before(self.slots@, item, self.num_valid_bits, self.lg_size, j),
    {
        proof { lemma_pshl(self.lg_size); lemma_home_range(item, self.num_valid_bits, self.lg_size); }
        let size = 1 << self.lg_size;
        let mask = size - 1;

        let shift = self.num_valid_bits - self.lg_size;

        // extract high table size bits
        let mut probe = item >> shift;
        assert!(probe <= mask);

        let ghost ss = self.slots@;
        let ghost nvb = self.num_valid_bits; let ghost lg = self.lg_size;
        let ghost sz = pow2(lg as nat) as int;
        let ghost p0 = probe as int;
        let ghost mut j: int = 0;
        let ghost mut visited: Set<int> = Set::empty();
        proof {
            assert(p0 == phome(item, nvb, lg));
            assert(p0 == probe_at(p0, 1, 0, sz)) by { lemma_small_mod(p0 as nat, sz as nat); }
        }

        loop
          invariant_except_break
            0 <= j < sz,
          invariant
            pshape(ss, nvb, lg), pocc(ss).len() < ss.len(), ss == self.slots@, nvb == self.num_valid_bits, lg == self.lg_size, sz == pow2(lg as nat), sz == ss.len(), sz <= 0x400_0000,
            mask == sz - 1, mask == ((1u32 << lg) - 1) as u32, item != EMPTY,
            p0 == phome(item, nvb, lg), 0 <= p0 < sz,
            probe == probe_at(p0, 1, j, sz), 0 <= probe < sz, 0 <= j < sz,
            forall|p: int| visited.contains(p) <==> exists|i: int| 0 <= i < j && p == probe_at(p0, 1, i, sz),
            visited.len() == j,
            visited.subset_of(pocc(ss)),
            pclear_before(ss, item, nvb, lg, j),
          ensures
            ss[probe as int] == item || ss[probe as int] == EMPTY,
          decreases sz - j
        {
            let slot = self.slots[probe as usize];
            if slot != item && slot != u32::MAX {
                proof {
                    let cur = probe as int;
                    lemma_probe_step(p0, 1, j, sz, cur);
                    lemma_pmask((probe + 1) as u32, lg);
                    assert(pocc(ss).contains(cur));
                    assert(!visited.contains(cur)) by {
                        if visited.contains(cur) {
                            let i = choose|i: int| 0 <= i < j && cur == probe_at(p0, 1, i, sz);
                            lemma_probe_injective(lg as nat, p0, 1, i, j);
                        }
                    }
                    let v2 = visited.insert(cur);
                    lemma_visited_bound(v2, pocc(ss), sz);
                    assert forall|p: int| v2.contains(p) <==> exists|i: int| 0 <= i < j + 1 && p == probe_at(p0, 1, i, sz) by {
                        if v2.contains(p) { if p == cur { assert(p == probe_at(p0, 1, j, sz)); } else { let i = choose|i: int| 0 <= i < j && p == probe_at(p0, 1, i, sz); assert(0 <= i < j + 1); } }
                        if exists|i: int| 0 <= i < j + 1 && p == probe_at(p0, 1, i, sz) { let i = choose|i: int| 0 <= i < j + 1 && p == probe_at(p0, 1, i, sz); if i < j { assert(visited.contains(p)); } }
                    }
                    visited = v2;
                    assert(pclear_before(ss, item, nvb, lg, j + 1));
                }
                probe = (probe + 1) & mask;
                proof { assert(probe as int == probe_at(p0, 1, j + 1, sz)); j = j + 1; }
            } else {
                break;
            }
        }
        proof {
            if ptbl_ok(ss, nvb, lg) && ss[probe as int] == EMPTY && pholds(ss, item) {
                let i0 = choose|i: int| 0 <= i < ss.len() && ss[i] == item;
                assert(preach_at(ss, nvb, lg, i0));
                let j0 = choose|j0: int| 0 <= j0 < ss.len() && i0 == ppos(ss[i0], nvb, lg, j0, sz) && pfull_before(ss, ss[i0], nvb, lg, j0);
                if j0 < j { assert(ss[ppos(item, nvb, lg, j0, sz)] != item); }
                else if j0 > j { assert(ss[ppos(item, nvb, lg, j, sz)] != EMPTY); }
                assert(false);
            }
        }

        probe
    }

    spec fn items(&self) -> ISet<u32> { ISet::new(|c: u32| c != EMPTY && pholds(self.slots@, c)) }
    // one more item fits under the 3/4 load, or the table may still be doubled
    spec fn grow_ok(&self) -> bool {
        4 * (self.num_items as int + 1) <= 3 * self.slots@.len() || (self.lg_size < 26 && self.lg_size + 2 <= self.num_valid_bits)
    }

    fn must_insert(&mut self, item: u32)
      requires pshape(old(self).slots@, old(self).num_valid_bits, old(self).lg_size), (item as int) < pow2(old(self).num_valid_bits as nat), item != EMPTY,
        !pholds(old(self).slots@, item),
        pocc(old(self).slots@).len() < old(self).slots@.len(),   // an empty slot exists
      ensures ptbl_ok(old(self).slots@, old(self).num_valid_bits, old(self).lg_size) ==> ptbl_ok(final(self).slots@, final(self).num_valid_bits, final(self).lg_size),
        final(self).lg_size == old(self).lg_size, final(self).num_valid_bits == old(self).num_valid_bits, final(self).num_items == old(self).num_items,
        exists|idx: int| 0 <= idx < old(self).slots@.len() && old(self).slots@[idx] == EMPTY && final(self).slots@ == #[trigger] old(self).slots@.update(idx, item)
            && exists|j: int| 0 <= j < old(self).slots@.len() && idx == ppos(item, old(self).num_valid_bits, old(self).lg_size, j, old(self).slots@.len() as int) && #[trigger] pfull_before(old(self).slots@, item, old(self).num_valid_bits, old(self).lg_size, j),
    {
        let ghost ss0 = self.slots@;
        let index = self.lookup(item) as usize;
        assert!(self.slots[index] != item);
        assert!(self.slots[index] == u32::MAX);
        proof {
            let jw = choose|j: int| 0 <= j < ss0.len() && index == ppos(item, self.num_valid_bits, self.lg_size, j, ss0.len() as int) && pclear_before(ss0, item, self.num_valid_bits, self.lg_size, j);
            assert(pfull_before(ss0, item, self.num_valid_bits, self.lg_size, jw));
            if ptbl_ok(ss0, self.num_valid_bits, self.lg_size) { lemma_pinsert_ok(ss0, self.num_valid_bits, self.lg_size, item, index as int, jw); }
        }
        self.slots[index] = item;
        proof { assert(self.slots@ =~= ss0.update(index as int, item)); }
        // counts and resizing must be handled by the caller.
    }


    fn maybe_insert(&mut self, item: u32) -> (r: bool)
      requires old(self).wf(), (item as int) < pow2(old(self).num_valid_bits as nat), item != EMPTY,
        // the table is doubled (rebuild(lg_size + 1), which asserts lg_size + 1 <= 26 and lg_size + 2 <= num_valid_bits) exactly when the
        // new item does not fit under the 3/4 load: the weakest precondition under which the body does not panic
        /*@C17.pairtable.maybe_insert.room*/ old(self).grow_ok(),
      ensures final(self).wf(), final(self).num_valid_bits == old(self).num_valid_bits,
        r == !old(self).items().contains(item),
        final(self).items() == old(self).items().insert(item),
        /*@C05.pairtable.maybe_insert.count*/ final(self).num_items == old(self).num_items + (if r { 1u32 } else { 0u32 }),
    {
        let ghost ss0 = self.slots@;
        proof { lemma_pshl(self.lg_size); lemma_pow2_strictly_increases(1, self.lg_size as nat); lemma2_to64(); }
        let index = self.lookup(item) as usize;
        if self.slots[index] == item {
            proof { assert(pholds(ss0, item)); assert(self.items() =~= old(self).items().insert(item)); }
            return false;
        }
        assert!(self.slots[index] == u32::MAX);
        proof {
            let jw = choose|j: int| 0 <= j < ss0.len() && index == ppos(item, self.num_valid_bits, self.lg_size, j, ss0.len() as int) && pclear_before(ss0, item, self.num_valid_bits, self.lg_size, j);
            assert(pfull_before(ss0, item, self.num_valid_bits, self.lg_size, jw));
            lemma_pinsert_ok(ss0, self.num_valid_bits, self.lg_size, item, index as int, jw);
            lemma_pshl(self.lg_size);
        }
        self.slots[index] = item;
        self.num_items += 1;
        proof {
            let ss1 = self.slots@;
            assert(ss1 =~= ss0.update(index as int, item));
            assert(pocc(ss1) =~= pocc(ss0).insert(index as int));
            assert(!pocc(ss0).contains(index as int));
            lemma_items_insert(ss0, ss1, item, index as int);
        }
        while (UPSIZE_DENOMINATOR * self.num_items) > (UPSIZE_NUMERATOR * (1 << self.lg_size))
          invariant
            ptbl_ok(self.slots@, self.num_valid_bits, self.lg_size), self.num_items == pocc(self.slots@).len(), self.num_items <= self.slots@.len(),
            self.num_valid_bits == old(self).num_valid_bits, self.items() == old(self).items().insert(item),
            self.lg_size <= 26, self.lg_size + 1 <= self.num_valid_bits, self.num_items <= 0x400_0000,
            (1u32 << self.lg_size) == self.slots@.len(), self.slots@.len() <= 0x400_0000,
            self.lg_size == old(self).lg_size || 4 * self.num_items <= 3 * self.slots@.len(),
            4 * self.num_items <= 3 * self.slots@.len() + 4, self.lg_size <= old(self).lg_size + 1,
            old(self).grow_ok(), self.num_items == old(self).num_items + 1, old(self).slots@.len() == pow2(old(self).lg_size as nat),
          decreases 27 - self.lg_size
        {
            proof { lemma_pshl((self.lg_size + 1) as u8); lemma_pow2_unfold((self.lg_size + 1) as nat); lemma_pshl(self.lg_size);
                assert(self.lg_size == old(self).lg_size);
                assert(self.lg_size + 2 <= self.num_valid_bits);
                assert(self.num_items < pow2((self.lg_size + 1) as nat)); }
            self.rebuild(self.lg_size + 1);
            proof { lemma_pshl(self.lg_size); }
        }
        true
    }


    fn maybe_delete(&mut self, item: u32) -> (r: bool)
      requires old(self).wf(), (item as int) < pow2(old(self).num_valid_bits as nat), item != EMPTY,
      ensures final(self).wf(), final(self).num_valid_bits == old(self).num_valid_bits,
        r == old(self).items().contains(item),
        final(self).items() == old(self).items().remove(item),
    {
        let ghost ss0 = self.slots@;
        let ghost nvb = self.num_valid_bits; let ghost lg = self.lg_size;
        let ghost n = ss0.len() as int;
        proof { lemma_pshl(self.lg_size); lemma_pow2_strictly_increases(1, self.lg_size as nat); lemma2_to64(); }
        let index = self.lookup(item) as usize;
        if self.slots[index] == u32::MAX {
            proof { assert(self.items() =~= old(self).items().remove(item)); }
            return false;
        }
        assert!(self.slots[index] == item);
        proof {
            assert(pocc(ss0).contains(index as int));
            assert(pocc(ss0.update(index as int, EMPTY)) =~= pocc(ss0).remove(index as int));
        }
        assert!(self.num_items > 0);

        // delete the item
        self.slots[index] = u32::MAX;
        self.num_items -= 1;

        // re-insert all items between the freed slot and the next empty slot
        proof { lemma_pshl_us(lg); }
        let mask = (1 << self.lg_size) - 1;
        let mut probe = (index + 1) & mask;
        let ghost idx0 = index as int;
        let ghost e: int = lemma_first_empty_exists(ss0, nvb, lg, idx0);
        let ghost mut m: int = 0;
        let ghost mut h: int = 0;
        proof {
            lemma_pshl_us(lg);
            assert(self.slots@ =~= ss0.update(idx0, EMPTY));
            lemma_del_init(ss0, nvb, lg, idx0, e);
            lemma_small_mod(idx0 as nat, n as nat);
            assert(idx0 == dpos(idx0, 0, n));
            lemma_probe_step(idx0, 1, 0, n, idx0);
            lemma_pmask_us((index + 1) as usize, lg);
            lemma_items_delete(ss0, self.slots@, item, idx0);
        }
        let mut fetched = self.slots[probe];
        while fetched != u32::MAX
          invariant
            ptbl_ok(ss0, nvb, lg), ss0[dpos(idx0, e, n)] == EMPTY, n == ss0.len(),
            del_inv(ss0, self.slots@, nvb, lg, idx0, e, m, h),
            self.num_valid_bits == nvb, self.lg_size == lg, self.num_items == old(self).num_items - 1,
            mask == (1usize << lg) - 1, n == pow2(lg as nat), n <= 0x400_0000,
            probe == dpos(idx0, m + 1, n), 0 <= probe < n, fetched == self.slots@[probe as int],
            pocc(self.slots@).len() == pocc(ss0).len() - 1,
            self.items() == old(self).items().remove(item),
          decreases e - m
        {
            let ghost s = self.slots@;
            proof { lemma_del_progress(ss0, s, nvb, lg, idx0, e, m, h); }
            self.slots[probe] = u32::MAX;
            let ghost s1 = self.slots@;
            proof {
                assert(s1 =~= s.update(probe as int, EMPTY));
                lemma_del_pre_insert(ss0, s, nvb, lg, idx0, e, m, h);
            }
            self.must_insert(fetched);
            proof {
                let s2 = self.slots@;
                let idx = choose|idx: int| 0 <= idx < s1.len() && s1[idx] == EMPTY && s2 == #[trigger] s1.update(idx, fetched)
                    && exists|j: int| 0 <= j < s1.len() && idx == ppos(fetched, nvb, lg, j, s1.len() as int) && #[trigger] pfull_before(s1, fetched, nvb, lg, j);
                let jx = choose|j: int| 0 <= j < s1.len() && idx == ppos(fetched, nvb, lg, j, s1.len() as int) && #[trigger] pfull_before(s1, fetched, nvb, lg, j);
                lemma_del_step(ss0, s, nvb, lg, idx0, e, m, h, s2, idx, jx);
                lemma_items_moved(s, s2);
                lemma_probe_step(idx0, 1, m + 1, n, probe as int);
                lemma_pmask_us((probe + 1) as usize, lg);
                h = if idx == probe as int { h } else { m + 1 };
                m = m + 1;
            }
            probe = (probe + 1) & mask;
            fetched = self.slots[probe];
        }
        proof { lemma_del_final(ss0, self.slots@, nvb, lg, idx0, e, m, h); }

        // shrink if necessary
        while ((DOWNSIZE_DENOMINATOR * self.num_items) < (DOWNSIZE_NUMERATOR * (1 << self.lg_size)))
            && (self.lg_size > 2)
          invariant
            ptbl_ok(self.slots@, self.num_valid_bits, self.lg_size), self.num_items == pocc(self.slots@).len(),
            self.num_valid_bits == old(self).num_valid_bits, self.items() == old(self).items().remove(item),
            4 * self.num_items <= 3 * self.slots@.len(), self.num_items <= 0x400_0000,
          decreases self.lg_size
        {
            proof { lemma_pshl(self.lg_size); lemma_pshl((self.lg_size - 1) as u8); lemma_pow2_unfold(self.lg_size as nat); lemma_pow2_unfold((self.lg_size - 1) as nat); }
            self.rebuild(self.lg_size - 1);
        }

        true
    }

    fn rebuild(&mut self, lg_size: u8)
      requires ptbl_ok(old(self).slots@, old(self).num_valid_bits, old(self).lg_size), old(self).num_items == pocc(old(self).slots@).len(),
        // the three `assert!`s of the body, as preconditions (a caller that violates one panics: C17)
        /*@C17.pairtable.rebuild.lg_size_assert,C05.pairtable.rebuild.pre*/ 2 <= lg_size <= 26,
        /*@C17.pairtable.rebuild.valid_bits_assert,C05.pairtable.rebuild.pre*/ lg_size + 1 <= old(self).num_valid_bits,
        /*@C17.pairtable.rebuild.size_assert,C05.pairtable.rebuild.pre*/ old(self).num_items < pow2(lg_size as nat),
      ensures ptbl_ok(final(self).slots@, final(self).num_valid_bits, final(self).lg_size), final(self).lg_size == lg_size,
        final(self).num_valid_bits == old(self).num_valid_bits, final(self).num_items == old(self).num_items,
        final(self).num_items == pocc(final(self).slots@).len(), final(self).items() == old(self).items(),
    {
        assert!((2..=26).contains(&lg_size));
        assert!(((lg_size + 1)..=32).contains(&self.num_valid_bits));

        proof { lemma_pshl(lg_size); lemma_pshl_usize(lg_size); }
        let new_size = 1u32 << lg_size;
        assert!(new_size > self.num_items);

        let slots = std::mem::replace(&mut self.slots, vec![u32::MAX; new_size as usize]);
        self.lg_size = lg_size;
        let ghost es = slots@;
        let ghost nvb = self.num_valid_bits;
        proof {
            lemma_pempty_ok(self.slots@, nvb, lg_size);
            assert(pocc(es.take(0)) =~= Set::<int>::empty());
        }
        let mut vx_i1 = 0;
        while vx_i1 < slots.len()
          invariant
            vx_i1 <= es.len(), slots@ == es, es == old(self).slots@, ptbl_ok(es, nvb, old(self).lg_size), old(self).num_items == pocc(es).len(),
            self.num_valid_bits == nvb, self.lg_size == lg_size, self.num_items == old(self).num_items, self.num_items < pow2(lg_size as nat),
            2 <= lg_size <= 26, lg_size + 1 <= nvb,
            ptbl_ok(self.slots@, nvb, lg_size),
            pocc(self.slots@).len() == pocc(es.take(vx_i1 as int)).len(),
            forall|t: int| 0 <= t < vx_i1 && es[t] != EMPTY ==> pholds(self.slots@, #[trigger] es[t]),
            forall|p: int| 0 <= p < self.slots@.len() && self.slots@[p] != EMPTY ==> exists|t: int| 0 <= t < vx_i1 && es[t] == #[trigger] self.slots@[p],
          decreases es.len() - vx_i1
        { let slot = slots[vx_i1];
            proof { lemma_pocc_take_step(es, vx_i1 as int); lemma_pocc_take_le(es, vx_i1 as int); }
            if slot != u32::MAX {
                let ghost ns0 = self.slots@;
                proof {
                    // slot is not yet in the new table (old table has distinct items)
                    if pholds(ns0, slot) {
                        let p = choose|p: int| 0 <= p < ns0.len() && ns0[p] == slot;
                        let t = choose|t: int| 0 <= t < vx_i1 && es[t] == ns0[p];
                        assert(false);
                    }
                }
                self.must_insert(slot);
                proof { lemma_rebuild_step(es, ns0, self.slots@, vx_i1 as int); }
            } else {
                proof {
                    assert forall|p: int| 0 <= p < self.slots@.len() && self.slots@[p] != EMPTY implies exists|t: int| 0 <= t < vx_i1 + 1 && es[t] == #[trigger] self.slots@[p] by {
                        let t = choose|t: int| 0 <= t < vx_i1 && es[t] == self.slots@[p]; assert(0 <= t < vx_i1 + 1);
                    }
                }
            }
            vx_i1 += 1;
        }
        proof {
            assert(es.take(es.len() as int) =~= es);
            lemma_items_same(es, self.slots@);
        }
    }
}

proof fn lemma_ppos_range(item: u32, nvb: u8, lg: u8, t: int, size: int)
  requires size > 0
  ensures 0 <= ppos(item, nvb, lg, t, size) < size
{ lemma_mod_bound(phome(item, nvb, lg) + t * 1, size); }

proof fn lemma_pinsert_ok(ss: Seq<u32>, nvb: u8, lg: u8, item: u32, idx: int, j: int)
  requires ptbl_ok(ss, nvb, lg), item != EMPTY, (item as int) < pow2(nvb as nat), !pholds(ss, item),
    0 <= idx < ss.len(), ss[idx] == EMPTY,
    0 <= j < ss.len(), idx == ppos(item, nvb, lg, j, ss.len() as int), pfull_before(ss, item, nvb, lg, j),
  ensures ptbl_ok(ss.update(idx, item), nvb, lg)
{
    let ns = ss.update(idx, item);
    let len = ss.len() as int;
    assert forall|a: int, b: int| 0 <= a < ns.len() && 0 <= b < ns.len() && a != b && ns[a] != EMPTY implies ns[a] != ns[b] by {
        if a == idx { if ss[b] == item { assert(pholds(ss, item)); } }
        else if b == idx { if ss[a] == item { assert(pholds(ss, item)); } }
    }
    assert forall|i: int| 0 <= i < ns.len() && ns[i] != EMPTY implies #[trigger] preach_at(ns, nvb, lg, i) by {
        if i == idx {
            assert(pfull_before(ns, item, nvb, lg, j)) by {
                assert forall|t: int| 0 <= t < j implies ns[#[trigger] ppos(item, nvb, lg, t, len)] != EMPTY by {
                    assert(ss[ppos(item, nvb, lg, t, len)] != EMPTY);
                }
            }
        } else {
            assert(preach_at(ss, nvb, lg, i));
            let ji = choose|ji: int| 0 <= ji < ss.len() && i == ppos(ss[i], nvb, lg, ji, len) && pfull_before(ss, ss[i], nvb, lg, ji);
            assert(pfull_before(ns, ns[i], nvb, lg, ji)) by {
                assert forall|t: int| 0 <= t < ji implies ns[#[trigger] ppos(ns[i], nvb, lg, t, len)] != EMPTY by {
                    assert(ss[ppos(ss[i], nvb, lg, t, len)] != EMPTY);
                    lemma_ppos_range(ss[i], nvb, lg, t, len);
                }
            }
        }
    }
}

proof fn lemma_items_insert(ss0: Seq<u32>, ss1: Seq<u32>, item: u32, idx: int)
  requires 0 <= idx < ss0.len(), ss0[idx] == EMPTY, ss1 == ss0.update(idx, item), item != EMPTY
  ensures ISet::new(|c: u32| c != EMPTY && pholds(ss1, c)) =~= ISet::new(|c: u32| c != EMPTY && pholds(ss0, c)).insert(item)
{
    assert forall|c: u32| (c != EMPTY && pholds(ss1, c)) <==> ((c != EMPTY && pholds(ss0, c)) || c == item) by {
        if c == item { assert(ss1[idx] == item); }
        else {
            if c != EMPTY && pholds(ss1, c) { let i = choose|i: int| 0 <= i < ss1.len() && ss1[i] == c; assert(i != idx); assert(ss0[i] == c); }
            if c != EMPTY && pholds(ss0, c) { let i = choose|i: int| 0 <= i < ss0.len() && ss0[i] == c; assert(i != idx); assert(ss1[i] == c); }
        }
    }
}

spec fn pall_empty(ss: Seq<u32>, lg: u8) -> bool { ss.len() == pow2(lg as nat) && forall|i: int| 0 <= i < ss.len() ==> ss[i] == EMPTY }
proof fn lemma_items_none(ss: Seq<u32>)
  requires forall|i: int| 0 <= i < ss.len() ==> ss[i] == EMPTY
  ensures ISet::new(|c: u32| c != EMPTY && pholds(ss, c)) =~= ISet::<u32>::empty()
{
    assert forall|c: u32| !(c != EMPTY && pholds(ss, c)) by {
        if c != EMPTY && pholds(ss, c) { let i = choose|i: int| 0 <= i < ss.len() && ss[i] == c; assert(ss[i] == EMPTY); }
    }
}
pub assume_specification<T: Clone> [ <[T]>::fill ] (s: &mut [T], value: T)
  ensures final(s)@.len() == old(s)@.len(), forall|i: int| 0 <= i < old(s)@.len() ==> cloned::<T>(value, #[trigger] final(s)@[i]);
// ================= unwrapping_get_items =================
spec fn gfilled(k: int, l: int, r: int, n: int) -> bool { 0 <= k < n && (k < l || k > r) }
spec fn gi_inv(ss: Seq<u32>, res: Seq<u32>, src: Seq<int>, i: int, l: int, r: int) -> bool {
    let n = res.len() as int;
    &&& src.len() == n && 0 <= i <= ss.len() && 0 <= l && r < n
    &&& forall|k: int| gfilled(k, l, r, n) ==> 0 <= #[trigger] src[k] < i && ss[src[k]] != EMPTY && res[k] == ss[src[k]]
    &&& forall|k1: int, k2: int| gfilled(k1, l, r, n) && gfilled(k2, l, r, n) && k1 != k2 ==> #[trigger] src[k1] != #[trigger] src[k2]
    &&& forall|t: int| 0 <= t < i && #[trigger] ss[t] != EMPTY ==> exists|k: int| gfilled(k, l, r, n) && #[trigger] src[k] == t
}
proof fn lemma_gi_lo(ss: Seq<u32>, res: Seq<u32>, src: Seq<int>, i: int, l: int, r: int)
  requires gi_inv(ss, res, src, i, l, r), i < ss.len(), ss[i] != EMPTY, l <= r
  ensures gi_inv(ss, res.update(l, ss[i]), src.update(l, i), i + 1, l + 1, r)
{
    let n = res.len() as int; let res2 = res.update(l, ss[i]); let src2 = src.update(l, i);
    assert forall|t: int| 0 <= t < i + 1 && #[trigger] ss[t] != EMPTY implies exists|k: int| gfilled(k, l + 1, r, n) && #[trigger] src2[k] == t by {
        if t == i { assert(gfilled(l, l + 1, r, n) && src2[l] == t); }
        else { let k = choose|k: int| gfilled(k, l, r, n) && #[trigger] src[k] == t; assert(gfilled(k, l + 1, r, n) && src2[k] == t); }
    }
    assert forall|k: int| gfilled(k, l + 1, r, n) implies 0 <= #[trigger] src2[k] < i + 1 && ss[src2[k]] != EMPTY && res2[k] == ss[src2[k]] by {
        if k != l { assert(gfilled(k, l, r, n)); assert(src[k] == src2[k]); }
    }
    assert forall|k1: int, k2: int| gfilled(k1, l + 1, r, n) && gfilled(k2, l + 1, r, n) && k1 != k2 implies #[trigger] src2[k1] != #[trigger] src2[k2] by {
        if k1 != l { assert(gfilled(k1, l, r, n)); assert(src[k1] == src2[k1]); }
        if k2 != l { assert(gfilled(k2, l, r, n)); assert(src[k2] == src2[k2]); }
    }
}
proof fn lemma_gi_hi(ss: Seq<u32>, res: Seq<u32>, src: Seq<int>, i: int, l: int, r: int)
  requires gi_inv(ss, res, src, i, l, r), i < ss.len(), ss[i] != EMPTY, l <= r
  ensures gi_inv(ss, res.update(r, ss[i]), src.update(r, i), i + 1, l, r - 1)
{
    let n = res.len() as int; let res2 = res.update(r, ss[i]); let src2 = src.update(r, i);
    assert forall|t: int| 0 <= t < i + 1 && #[trigger] ss[t] != EMPTY implies exists|k: int| gfilled(k, l, r - 1, n) && #[trigger] src2[k] == t by {
        if t == i { assert(gfilled(r, l, r - 1, n) && src2[r] == t); }
        else { let k = choose|k: int| gfilled(k, l, r, n) && #[trigger] src[k] == t; assert(gfilled(k, l, r - 1, n) && src2[k] == t); }
    }
    assert forall|k: int| gfilled(k, l, r - 1, n) implies 0 <= #[trigger] src2[k] < i + 1 && ss[src2[k]] != EMPTY && res2[k] == ss[src2[k]] by {
        if k != r { assert(gfilled(k, l, r, n)); assert(src[k] == src2[k]); }
    }
    assert forall|k1: int, k2: int| gfilled(k1, l, r - 1, n) && gfilled(k2, l, r - 1, n) && k1 != k2 implies #[trigger] src2[k1] != #[trigger] src2[k2] by {
        if k1 != r { assert(gfilled(k1, l, r, n)); assert(src[k1] == src2[k1]); }
        if k2 != r { assert(gfilled(k2, l, r, n)); assert(src[k2] == src2[k2]); }
    }
}
proof fn lemma_gi_skip(ss: Seq<u32>, res: Seq<u32>, src: Seq<int>, i: int, l: int, r: int)
  requires gi_inv(ss, res, src, i, l, r), i < ss.len(), ss[i] == EMPTY
  ensures gi_inv(ss, res, src, i + 1, l, r)
{ }
proof fn lemma_gi_final(ss: Seq<u32>, res: Seq<u32>, src: Seq<int>, nvb: u8, lg: u8, l: int, r: int)
  requires gi_inv(ss, res, src, ss.len() as int, l, r), l == r + 1, ptbl_ok(ss, nvb, lg)
  ensures res.no_duplicates(), forall|x: u32| res.contains(x) <==> (x != EMPTY && pholds(ss, x))
{
    let n = res.len() as int;
    assert forall|a: int, b: int| 0 <= a < n && 0 <= b < n && a != b implies res[a] != res[b] by {
        assert(gfilled(a, l, r, n) && gfilled(b, l, r, n));
        assert(src[a] != src[b]);
        assert(ss[src[a]] != EMPTY);
    }
    assert forall|x: u32| res.contains(x) <==> (x != EMPTY && pholds(ss, x)) by {
        if res.contains(x) { let k = choose|k: int| 0 <= k < n && res[k] == x; assert(gfilled(k, l, r, n)); assert(ss[src[k]] == x); }
        if x != EMPTY && pholds(ss, x) {
            let t = choose|t: int| 0 <= t < ss.len() && ss[t] == x;
            assert(ss[t] != EMPTY);
            let k = choose|k: int| gfilled(k, l, r, n) && #[trigger] src[k] == t;
            assert(res[k] == x);
        }
    }
}
proof fn lemma_pocc_none(ss: Seq<u32>)
  requires pocc(ss).len() == 0
  ensures forall|i: int| 0 <= i < ss.len() ==> ss[i] == EMPTY
{
    assert forall|i: int| 0 <= i < ss.len() implies ss[i] == EMPTY by {
        if ss[i] != EMPTY { assert(pocc(ss).contains(i)); pocc(ss).lemma_len0_is_empty(); }
    }
}
proof fn lemma_pocc_take_plus(ss: Seq<u32>, k: int, p: int)
  requires 0 <= k <= p < ss.len(), ss[p] != EMPTY
  ensures pocc(ss.take(k)).len() + 1 <= pocc(ss).len()
{
    let a = pocc(ss.take(k)).insert(p);
    assert(!pocc(ss.take(k)).contains(p));
    assert(a.subset_of(pocc(ss)));
    vstd::set_lib::lemma_len_subset(a, pocc(ss));
}
// an item with the top valid bit set that sits in slot 0 has wrapped around, so the last slot is occupied
proof fn lemma_hi_wrapped(ss: Seq<u32>, nvb: u8, lg: u8)
  requires ptbl_ok(ss, nvb, lg), ss[0] != EMPTY, (ss[0] & (1u32 << ((nvb - 1) as u8))) != 0
  ensures ss[ss.len() - 1] != EMPTY
{
    let x = ss[0]; let n = ss.len() as int;
    lemma_pow2_pos(lg as nat);
    lemma_home_range(x, nvb, lg);
    let h = phome(x, nvb, lg);
    let s = (nvb - lg) as u32; let b = (nvb - 1) as u32;
    assert(s <= b && b < 32 && (x & (1u32 << b)) != 0 ==> (x >> s) != 0) by (bit_vector);
    assert((1u32 << b) == (1u32 << ((nvb - 1) as u8)));
    assert(h >= 1);
    assert(preach_at(ss, nvb, lg, 0));
    let j = choose|j: int| 0 <= j < ss.len() && 0 == ppos(ss[0], nvb, lg, j, n) && pfull_before(ss, ss[0], nvb, lg, j);
    lemma_fundamental_div_mod(h + j * 1, n);
    let q = (h + j * 1) / n;
    assert(h + j == n * q);
    if q <= 0 { assert(n * q <= 0) by (nonlinear_arith) requires q <= 0, n > 0; }
    if q >= 2 { assert(n * q >= 2 * n) by (nonlinear_arith) requires q >= 2, n > 0; }
    assert(q == 1);
    assert(n * q == n) by (nonlinear_arith) requires q == 1;
    assert(j >= 1);
    assert(ss[ppos(x, nvb, lg, j - 1, n)] != EMPTY);
    lemma_small_mod((n - 1) as nat, n as nat);
    assert(h + (j - 1) * 1 == n - 1);
}
proof fn lemma_pshl_usize(l: u8) requires l <= 26 ensures ((1u32 << l) as usize) == pow2(l as nat) { lemma_pshl(l); }
proof fn lemma_pempty_ok(ss: Seq<u32>, nvb: u8, lg: u8)
  requires 2 <= lg <= 26, lg < nvb <= 32, ss.len() == pow2(lg as nat), forall|i: int| 0 <= i < ss.len() ==> ss[i] == EMPTY
  ensures ptbl_ok(ss, nvb, lg), pocc(ss).len() == 0
{ assert(pocc(ss) =~= Set::<int>::empty()); }
proof fn lemma_pocc_take_step(es: Seq<u32>, i: int)
  requires 0 <= i < es.len()
  ensures pocc(es.take(i + 1)).len() == pocc(es.take(i)).len() + (if es[i] != EMPTY { 1int } else { 0int })
{
    if es[i] != EMPTY { assert(pocc(es.take(i + 1)) =~= pocc(es.take(i)).insert(i)); assert(!pocc(es.take(i)).contains(i)); }
    else { assert(pocc(es.take(i + 1)) =~= pocc(es.take(i))); }
}
proof fn lemma_pocc_take_le(es: Seq<u32>, i: int)
  requires 0 <= i <= es.len()
  ensures pocc(es.take(i)).len() <= pocc(es).len()
{ assert(pocc(es.take(i)).subset_of(pocc(es))); vstd::set_lib::lemma_len_subset(pocc(es.take(i)), pocc(es)); }
proof fn lemma_rebuild_step(es: Seq<u32>, ns0: Seq<u32>, ns1: Seq<u32>, i: int)
  requires 0 <= i < es.len(), es[i] != EMPTY, ns1.len() == ns0.len(),
    exists|idx: int| 0 <= idx < ns0.len() && ns0[idx] == EMPTY && ns1 == #[trigger] ns0.update(idx, es[i]),
    pocc(ns0).len() == pocc(es.take(i)).len(),
    forall|t: int| 0 <= t < i && es[t] != EMPTY ==> pholds(ns0, #[trigger] es[t]),
    forall|p: int| 0 <= p < ns0.len() && ns0[p] != EMPTY ==> exists|t: int| 0 <= t < i && es[t] == #[trigger] ns0[p],
  ensures
    pocc(ns1).len() == pocc(es.take(i + 1)).len(),
    forall|t: int| 0 <= t < i + 1 && es[t] != EMPTY ==> pholds(ns1, #[trigger] es[t]),
    forall|p: int| 0 <= p < ns1.len() && ns1[p] != EMPTY ==> exists|t: int| 0 <= t < i + 1 && es[t] == #[trigger] ns1[p],
{
    let idx = choose|idx: int| 0 <= idx < ns0.len() && ns0[idx] == EMPTY && ns1 == #[trigger] ns0.update(idx, es[i]);
    assert(pocc(ns1) =~= pocc(ns0).insert(idx));
    assert(!pocc(ns0).contains(idx));
    lemma_pocc_take_step(es, i);
    assert forall|t: int| 0 <= t < i + 1 && es[t] != EMPTY implies pholds(ns1, #[trigger] es[t]) by {
        if t == i { assert(ns1[idx] == es[t]); }
        else { let p = choose|p: int| 0 <= p < ns0.len() && ns0[p] == es[t]; assert(p != idx); assert(ns1[p] == es[t]); }
    }
    assert forall|p: int| 0 <= p < ns1.len() && ns1[p] != EMPTY implies exists|t: int| 0 <= t < i + 1 && es[t] == #[trigger] ns1[p] by {
        if p == idx { assert(es[i] == ns1[p]); }
        else { let t = choose|t: int| 0 <= t < i && es[t] == ns0[p]; assert(0 <= t < i + 1); }
    }
}
proof fn lemma_items_same(es: Seq<u32>, ns: Seq<u32>)
  requires forall|t: int| 0 <= t < es.len() && es[t] != EMPTY ==> pholds(ns, #[trigger] es[t]),
    forall|p: int| 0 <= p < ns.len() && ns[p] != EMPTY ==> exists|t: int| 0 <= t < es.len() && es[t] == #[trigger] ns[p],
  ensures ISet::new(|c: u32| c != EMPTY && pholds(ns, c)) =~= ISet::new(|c: u32| c != EMPTY && pholds(es, c))
{
    assert forall|c: u32| (c != EMPTY && pholds(ns, c)) <==> (c != EMPTY && pholds(es, c)) by {
        if c != EMPTY && pholds(ns, c) { let p = choose|p: int| 0 <= p < ns.len() && ns[p] == c; let t = choose|t: int| 0 <= t < es.len() && es[t] == ns[p]; assert(pholds(es, c)); }
        if c != EMPTY && pholds(es, c) { let t = choose|t: int| 0 <= t < es.len() && es[t] == c; assert(pholds(ns, es[t])); }
    }
}

// ================= deletion (re-insertion of the following cluster) =================
spec fn dpos(idx0: int, w: int, n: int) -> int { probe_at(idx0, 1, w, n) }
spec fn in_seg(i: int, idx0: int, lo: int, hi: int, n: int) -> bool { exists|t: int| lo < t < hi && i == #[trigger] dpos(idx0, t, n) }
spec fn del_inv(ss0: Seq<u32>, s: Seq<u32>, nvb: u8, lg: u8, idx0: int, e: int, m: int, h: int) -> bool {
    let n = s.len() as int;
    &&& pshape(s, nvb, lg) && ss0.len() == s.len() && 0 <= idx0 < n
    &&& forall|i: int| 0 <= i < n && s[i] != EMPTY ==> (#[trigger] s[i] as int) < pow2(nvb as nat)
    &&& forall|i: int, j: int| 0 <= i < n && 0 <= j < n && i != j && s[i] != EMPTY ==> s[i] != s[j]
    &&& 0 <= h <= m < e < n
    &&& forall|t: int| m < t < e ==> s[#[trigger] dpos(idx0, t, n)] == ss0[dpos(idx0, t, n)] && s[dpos(idx0, t, n)] != EMPTY
    &&& s[dpos(idx0, e, n)] == EMPTY
    &&& s[dpos(idx0, h, n)] == EMPTY
    &&& forall|t: int| 0 <= t <= m && t != h ==> s[#[trigger] dpos(idx0, t, n)] != EMPTY
    &&& forall|w: int| e < w < n ==> s[#[trigger] dpos(idx0, w, n)] == ss0[dpos(idx0, w, n)]
    &&& forall|i: int| 0 <= i < n && s[i] != EMPTY && !in_seg(i, idx0, m, e, n) ==> #[trigger] preach_at(s, nvb, lg, i)
}
proof fn lemma_dpos_range(idx0: int, w: int, n: int) requires n > 0 ensures 0 <= dpos(idx0, w, n) < n { lemma_mod_bound(idx0 + w * 1, n); }
proof fn lemma_dpos_surj(idx0: int, i: int, n: int) -> (w: int)
  requires 0 <= idx0 < n, 0 <= i < n
  ensures 0 <= w < n, dpos(idx0, w, n) == i
{
    if i >= idx0 { lemma_small_mod(i as nat, n as nat); i - idx0 }
    else { lemma_mod_add_multiples_vanish(i, n); lemma_small_mod(i as nat, n as nat); i - idx0 + n }
}
proof fn lemma_dpos_inj(lg: u8, idx0: int, w1: int, w2: int)
  requires 0 <= w1 < pow2(lg as nat), 0 <= w2 < pow2(lg as nat), dpos(idx0, w1, pow2(lg as nat) as int) == dpos(idx0, w2, pow2(lg as nat) as int)
  ensures w1 == w2
{ lemma_probe_injective(lg as nat, idx0, 1, w1, w2); }
proof fn lemma_shift_mod(a: int, b: int, u: int, n: int)
  requires n > 0, a % n == b % n
  ensures (a + u) % n == (b + u) % n
{ lemma_add_mod_noop(a, u, n); lemma_add_mod_noop(b, u, n); }

proof fn lemma_path_avoid(tb: Seq<u32>, nvb: u8, lg: u8, y: u32, ji: int, i: int, idx0: int, c: int, e: int)
  requires pshape(tb, nvb, lg), 0 <= c < e, tb[dpos(idx0, e, tb.len() as int)] == EMPTY, 0 <= ji,
    i == ppos(y, nvb, lg, ji, tb.len() as int), pfull_before(tb, y, nvb, lg, ji), 0 <= i < tb.len(), tb[i] != EMPTY,
    !in_seg(i, idx0, c, e, tb.len() as int), i != dpos(idx0, c, tb.len() as int),
  ensures forall|t: int| 0 <= t < ji ==> #[trigger] ppos(y, nvb, lg, t, tb.len() as int) != dpos(idx0, c, tb.len() as int)
{
    let n = tb.len() as int;
    lemma_pow2_pos(lg as nat);
    assert forall|t: int| 0 <= t < ji implies #[trigger] ppos(y, nvb, lg, t, n) != dpos(idx0, c, n) by {
        if ppos(y, nvb, lg, t, n) == dpos(idx0, c, n) {
            let hm = phome(y, nvb, lg);
            let v = c + (ji - t);
            lemma_shift_mod(hm + t * 1, idx0 + c * 1, ji - t, n);
            assert(ppos(y, nvb, lg, ji, n) == dpos(idx0, v, n));
            if v < e { assert(in_seg(i, idx0, c, e, n)); }
            else if v == e { }
            else {
                let u = e - c;
                lemma_shift_mod(hm + t * 1, idx0 + c * 1, u, n);
                assert(ppos(y, nvb, lg, t + u, n) == dpos(idx0, e, n));
                assert(tb[ppos(y, nvb, lg, t + u, n)] != EMPTY);
            }
            assert(false);
        }
    }
}

proof fn lemma_exists_empty(ss: Seq<u32>) -> (z: int)
  requires pocc(ss).len() < ss.len()
  ensures 0 <= z < ss.len(), ss[z] == EMPTY
{
    if forall|z: int| 0 <= z < ss.len() ==> ss[z] != EMPTY {
        assert(pocc(ss) =~= Set::range(0, ss.len() as int));
        vstd::set_lib::lemma_int_range(0, ss.len() as int);
        assert(false);
    }
    choose|z: int| 0 <= z < ss.len() && ss[z] == EMPTY
}
proof fn lemma_first_empty(ss: Seq<u32>, idx0: int, d: int) -> (e: int)
  requires ss.len() > 0, 1 <= d, ss[dpos(idx0, d, ss.len() as int)] == EMPTY
  ensures 1 <= e <= d, ss[dpos(idx0, e, ss.len() as int)] == EMPTY, forall|t: int| 1 <= t < e ==> ss[#[trigger] dpos(idx0, t, ss.len() as int)] != EMPTY
  decreases d
{
    let n = ss.len() as int;
    if exists|t: int| 1 <= t < d && ss[dpos(idx0, t, n)] == EMPTY {
        let t = choose|t: int| 1 <= t < d && ss[dpos(idx0, t, n)] == EMPTY;
        lemma_first_empty(ss, idx0, t)
    } else { d }
}
proof fn lemma_first_empty_exists(ss0: Seq<u32>, nvb: u8, lg: u8, idx0: int) -> (e: int)
  requires ptbl_ok(ss0, nvb, lg), pocc(ss0).len() < ss0.len(), 0 <= idx0 < ss0.len(), ss0[idx0] != EMPTY
  ensures 1 <= e < ss0.len(), ss0[dpos(idx0, e, ss0.len() as int)] == EMPTY, forall|t: int| 1 <= t < e ==> ss0[#[trigger] dpos(idx0, t, ss0.len() as int)] != EMPTY
{
    let n = ss0.len() as int;
    let z = lemma_exists_empty(ss0);
    let d = lemma_dpos_surj(idx0, z, n);
    lemma_small_mod(idx0 as nat, n as nat);
    assert(dpos(idx0, 0, n) == idx0);
    assert(d != 0);
    lemma_first_empty(ss0, idx0, d)
}

proof fn lemma_del_init(ss0: Seq<u32>, nvb: u8, lg: u8, idx0: int, e: int)
  requires ptbl_ok(ss0, nvb, lg), 0 <= idx0 < ss0.len(), ss0[idx0] != EMPTY, 1 <= e < ss0.len(),
    ss0[dpos(idx0, e, ss0.len() as int)] == EMPTY, forall|t: int| 1 <= t < e ==> ss0[#[trigger] dpos(idx0, t, ss0.len() as int)] != EMPTY
  ensures del_inv(ss0, ss0.update(idx0, EMPTY), nvb, lg, idx0, e, 0, 0)
{
    let n = ss0.len() as int;
    let s = ss0.update(idx0, EMPTY);
    lemma_small_mod(idx0 as nat, n as nat);
    assert(dpos(idx0, 0, n) == idx0);
    assert forall|t: int| 0 < t < n implies #[trigger] dpos(idx0, t, n) != idx0 && 0 <= dpos(idx0, t, n) < n by {
        lemma_dpos_range(idx0, t, n);
        if dpos(idx0, t, n) == idx0 { lemma_dpos_inj(lg, idx0, t, 0); }
    }
    assert forall|i: int| 0 <= i < n && s[i] != EMPTY && !in_seg(i, idx0, 0, e, n) implies #[trigger] preach_at(s, nvb, lg, i) by {
        assert(i != idx0);
        assert(preach_at(ss0, nvb, lg, i));
        let ji = choose|ji: int| 0 <= ji < ss0.len() && i == ppos(ss0[i], nvb, lg, ji, n) && pfull_before(ss0, ss0[i], nvb, lg, ji);
        lemma_path_avoid(ss0, nvb, lg, ss0[i], ji, i, idx0, 0, e);
        assert(pfull_before(s, s[i], nvb, lg, ji)) by {
            assert forall|t: int| 0 <= t < ji implies s[#[trigger] ppos(s[i], nvb, lg, t, n)] != EMPTY by {
                lemma_ppos_range(ss0[i], nvb, lg, t, n);
                assert(ss0[ppos(ss0[i], nvb, lg, t, n)] != EMPTY);
            }
        }
    }
}

// the loop guard `fetched != EMPTY` means the cluster is not finished
proof fn lemma_del_progress(ss0: Seq<u32>, s: Seq<u32>, nvb: u8, lg: u8, idx0: int, e: int, m: int, h: int)
  requires del_inv(ss0, s, nvb, lg, idx0, e, m, h), s[dpos(idx0, m + 1, s.len() as int)] != EMPTY
  ensures m + 1 < e
{ }
proof fn lemma_del_final(ss0: Seq<u32>, s: Seq<u32>, nvb: u8, lg: u8, idx0: int, e: int, m: int, h: int)
  requires del_inv(ss0, s, nvb, lg, idx0, e, m, h), s[dpos(idx0, m + 1, s.len() as int)] == EMPTY
  ensures ptbl_ok(s, nvb, lg)
{
    let n = s.len() as int;
    if m + 1 < e { assert(s[dpos(idx0, m + 1, n)] != EMPTY); }
    assert forall|i: int| 0 <= i < n && s[i] != EMPTY implies #[trigger] preach_at(s, nvb, lg, i) by {
        assert(!in_seg(i, idx0, m, e, n));
    }
}
// before must_insert: the fetched item is absent from the table with its slot cleared, and an empty slot exists
proof fn lemma_del_pre_insert(ss0: Seq<u32>, s: Seq<u32>, nvb: u8, lg: u8, idx0: int, e: int, m: int, h: int)
  requires del_inv(ss0, s, nvb, lg, idx0, e, m, h), m + 1 < e
  ensures ({ let p = dpos(idx0, m + 1, s.len() as int); let s1 = s.update(p, EMPTY);
     0 <= p < s.len() && s[p] != EMPTY && (s[p] as int) < pow2(nvb as nat) && !pholds(s1, s[p]) && pocc(s1).len() < s1.len() && pshape(s1, nvb, lg) })
{
    let n = s.len() as int;
    let p = dpos(idx0, m + 1, n); let s1 = s.update(p, EMPTY);
    lemma_dpos_range(idx0, m + 1, n);
    assert(s[dpos(idx0, m + 1, n)] != EMPTY);
    if pholds(s1, s[p]) { let i = choose|i: int| 0 <= i < s1.len() && s1[i] == s[p]; assert(i != p); assert(s[i] == s[p]); }
    assert(pocc(s1).subset_of(Set::range(0, n).remove(p)));
    vstd::set_lib::lemma_int_range(0, n);
    vstd::set_lib::lemma_len_subset(pocc(s1), Set::range(0, n).remove(p));
}

proof fn lemma_del_step(ss0: Seq<u32>, s: Seq<u32>, nvb: u8, lg: u8, idx0: int, e: int, m: int, h: int, s2: Seq<u32>, idx: int, jx: int)
  requires ptbl_ok(ss0, nvb, lg), ss0[dpos(idx0, e, s.len() as int)] == EMPTY,
    del_inv(ss0, s, nvb, lg, idx0, e, m, h), m + 1 < e,
    0 <= idx < s.len(), s.update(dpos(idx0, m + 1, s.len() as int), EMPTY)[idx] == EMPTY,
    s2 == s.update(dpos(idx0, m + 1, s.len() as int), EMPTY).update(idx, s[dpos(idx0, m + 1, s.len() as int)]),
    0 <= jx < s.len(), idx == ppos(s[dpos(idx0, m + 1, s.len() as int)], nvb, lg, jx, s.len() as int),
    pfull_before(s.update(dpos(idx0, m + 1, s.len() as int), EMPTY), s[dpos(idx0, m + 1, s.len() as int)], nvb, lg, jx),
  ensures
    del_inv(ss0, s2, nvb, lg, idx0, e, m + 1, if idx == dpos(idx0, m + 1, s.len() as int) { h } else { m + 1 }),
    pocc(s2).len() == pocc(s).len(),
    forall|c: u32| c != EMPTY ==> (pholds(s2, c) <==> pholds(s, c)),
{
    let n = s.len() as int;
    let p = dpos(idx0, m + 1, n);
    let x = s[p];
    let s1 = s.update(p, EMPTY);
    lemma_dpos_range(idx0, m + 1, n);
    lemma_dpos_range(idx0, h, n);
    assert(x != EMPTY && x == ss0[p]);
    assert(s1.len() == n);
    assert(pfull_before(s1, x, nvb, lg, jx));
    // injectivity facts about dpos used below
    assert forall|t1: int, t2: int| 0 <= t1 < n && 0 <= t2 < n && t1 != t2 implies #[trigger] dpos(idx0, t1, n) != #[trigger] dpos(idx0, t2, n) by {
        if dpos(idx0, t1, n) == dpos(idx0, t2, n) { lemma_dpos_inj(lg, idx0, t1, t2); }
    }
    assert forall|t: int| 0 <= t < n implies 0 <= #[trigger] dpos(idx0, t, n) < n by { lemma_dpos_range(idx0, t, n); }
    // where did x land?
    assert(idx == p || idx == dpos(idx0, h, n)) by {
        assert(preach_at(ss0, nvb, lg, p));
        let j0 = choose|j0: int| 0 <= j0 < n && p == ppos(ss0[p], nvb, lg, j0, n) && pfull_before(ss0, ss0[p], nvb, lg, j0);
        if jx > j0 { assert(s1[ppos(x, nvb, lg, j0, n)] != EMPTY); assert(false); }
        if jx < j0 {
            assert(ss0[ppos(x, nvb, lg, jx, n)] != EMPTY);
            if idx == p { lemma_probe_injective(lg as nat, phome(x, nvb, lg), 1, jx, j0); }
            let w = lemma_dpos_surj(idx0, idx, n);
            if w <= m { if w != h { assert(s[dpos(idx0, w, n)] != EMPTY); } }
            else if w == m + 1 { }
            else if w < e { assert(s[dpos(idx0, w, n)] != EMPTY); }
            else if w == e { }
            else { assert(s[dpos(idx0, w, n)] == ss0[dpos(idx0, w, n)]); }
        }
    }
    // the re-inserted item is reachable in s2
    assert(pfull_before(s2, x, nvb, lg, jx)) by {
        assert forall|t: int| 0 <= t < jx implies s2[#[trigger] ppos(x, nvb, lg, t, n)] != EMPTY by {
            lemma_ppos_range(x, nvb, lg, t, n);
            assert(s1[ppos(x, nvb, lg, t, n)] != EMPTY);
        }
    }
    assert(s2[idx] == x);
    assert(preach_at(s2, nvb, lg, idx));
    assert forall|i: int| in_seg(i, idx0, m, e, n) && !in_seg(i, idx0, m + 1, e, n) implies i == p by {
        let t = choose|t: int| m < t < e && i == dpos(idx0, t, n);
        if t != m + 1 { assert(in_seg(i, idx0, m + 1, e, n)); }
    }
    if idx == p {
        assert(s2 =~= s);
        assert forall|i: int| 0 <= i < n && s2[i] != EMPTY && !in_seg(i, idx0, m + 1, e, n) implies #[trigger] preach_at(s2, nvb, lg, i) by {
            if i != p { assert(!in_seg(i, idx0, m, e, n)); }
        }
    } else {
        let hp = dpos(idx0, h, n);
        assert(idx == hp);
        assert(pocc(s2) =~= pocc(s).remove(p).insert(idx));
        assert(pocc(s).contains(p) && !pocc(s).contains(idx));
        assert forall|c: u32| c != EMPTY implies (pholds(s2, c) <==> pholds(s, c)) by {
            if pholds(s2, c) { let i = choose|i: int| 0 <= i < s2.len() && s2[i] == c; if i == idx { assert(s[p] == c); } else { assert(i != p); assert(s[i] == c); } }
            if pholds(s, c) { let i = choose|i: int| 0 <= i < s.len() && s[i] == c; if i == p { assert(s2[idx] == c); } else { assert(i != idx); assert(s2[i] == c); } }
        }
        assert forall|i: int, j: int| 0 <= i < n && 0 <= j < n && i != j && s2[i] != EMPTY implies s2[i] != s2[j] by {
            if i == idx { if j != p { assert(s[j] != s[p]); } }
            else if j == idx { assert(i != p); assert(s[i] != s[p]); }
            else { assert(i != p); if j != p { assert(s[i] != s[j]); } }
        }
        assert forall|i: int| 0 <= i < n && s2[i] != EMPTY && !in_seg(i, idx0, m + 1, e, n) implies #[trigger] preach_at(s2, nvb, lg, i) by {
            if i != idx {
                assert(i != p);
                assert(s2[i] == s[i]);
                assert(!in_seg(i, idx0, m, e, n));
                assert(preach_at(s, nvb, lg, i));
                let ji = choose|ji: int| 0 <= ji < n && i == ppos(s[i], nvb, lg, ji, n) && pfull_before(s, s[i], nvb, lg, ji);
                lemma_path_avoid(s, nvb, lg, s[i], ji, i, idx0, m + 1, e);
                assert(pfull_before(s2, s2[i], nvb, lg, ji)) by {
                    assert forall|t: int| 0 <= t < ji implies s2[#[trigger] ppos(s2[i], nvb, lg, t, n)] != EMPTY by {
                        lemma_ppos_range(s[i], nvb, lg, t, n);
                        assert(s[ppos(s[i], nvb, lg, t, n)] != EMPTY);
                    }
                }
            }
        }
    }
}
proof fn lemma_items_moved(s: Seq<u32>, s2: Seq<u32>)
  requires forall|c: u32| c != EMPTY ==> (pholds(s2, c) <==> pholds(s, c))
  ensures ISet::new(|c: u32| c != EMPTY && pholds(s2, c)) =~= ISet::new(|c: u32| c != EMPTY && pholds(s, c))
{ }
proof fn lemma_items_delete(ss0: Seq<u32>, s: Seq<u32>, item: u32, idx: int)
  requires 0 <= idx < ss0.len(), ss0[idx] == item, item != EMPTY, s == ss0.update(idx, EMPTY),
    forall|i: int, j: int| 0 <= i < ss0.len() && 0 <= j < ss0.len() && i != j && ss0[i] != EMPTY ==> ss0[i] != ss0[j]
  ensures ISet::new(|c: u32| c != EMPTY && pholds(s, c)) =~= ISet::new(|c: u32| c != EMPTY && pholds(ss0, c)).remove(item)
{
    assert forall|c: u32| (c != EMPTY && pholds(s, c)) <==> ((c != EMPTY && pholds(ss0, c)) && c != item) by {
        if c != EMPTY && pholds(s, c) { let i = choose|i: int| 0 <= i < s.len() && s[i] == c; assert(i != idx); assert(ss0[i] == c); if c == item { assert(ss0[i] != ss0[idx]); } }
        if c != EMPTY && pholds(ss0, c) && c != item { let i = choose|i: int| 0 <= i < ss0.len() && ss0[i] == c; assert(i != idx); assert(s[i] == c); }
    }
}
proof fn lemma_pshl_us(l: u8)
  requires l <= 26
  ensures (1usize << l) == pow2(l as nat), pow2(l as nat) >= 1, pow2(l as nat) <= 0x400_0000
{
    lemma_pshl(l);
    vstd::bits::lemma_usize_shl_is_mul(1, l as usize);
    assert((1usize << (l as usize)) == (1usize << l));
}
proof fn lemma_pmask_us(x: usize, n: u8)
  requires n <= 26
  ensures (x & (((1usize << n) - 1) as usize)) == x % (pow2(n as nat) as usize)
{
    lemma_pshl_us(n);
    vstd::bits::lemma_usize_low_bits_mask_is_mod(x, n as nat);
    lemma_plbm(n as nat);
}
}
fn main(){}
