use vstd::prelude::*;
use vstd::std_specs::cmp::*;
use std::hash::Hash;
use vstd::arithmetic::power2::*;
verus! {
global size_of usize == 8;

// ================= map view: spec text copied from contracts/fi_map.rs (unit fi_map proves the contracts below) =================
const DRIFT_LIMIT : usize = 1024 ;




spec fn probe_at(p0: int, s: int, j: int, size: int) -> int { (p0 + j * s) % size }
pub uninterp spec fn hash_spec<T>(item: T) -> u64;
spec fn eq_law<T: Eq>() -> bool { <T as PartialEqSpec>::obeys_eq_spec() && forall|a: T, b: T| #[trigger] a.eq_spec(&b) == (a == b) }
spec fn fhome<T>(k: T, n: int) -> int { (hash_spec(k) as int) % n }
spec fn fpos<T>(k: T, t: int, n: int) -> int { probe_at(fhome(k, n), 1, t, n) }
spec fn focc(st: Seq<u16>) -> Set<int> { Set::range(0, st.len() as int).filter(|i: int| st[i] > 0) }
spec fn ffull_before<T>(st: Seq<u16>, k: T, j: int) -> bool {
    forall|t: int| 0 <= t < j ==> st[#[trigger] fpos(k, t, st.len() as int)] > 0
}
spec fn freach_at<T>(ks: Seq<Option<T>>, st: Seq<u16>, p: int) -> bool {
    &&& ks[p] is Some && 1 <= st[p] <= st.len()
    &&& p == fpos(ks[p]->0, st[p] - 1, st.len() as int)
    &&& ffull_before(st, ks[p]->0, st[p] - 1)
}
spec fn fshape<T>(ks: Seq<Option<T>>, vs: Seq<u64>, st: Seq<u16>, lg: u8) -> bool {
    1 <= lg <= 40 && ks.len() == pow2(lg as nat) && vs.len() == ks.len() && st.len() == ks.len()
}
spec fn fdistinct<T>(ks: Seq<Option<T>>, st: Seq<u16>) -> bool {
    forall|p: int, q: int| 0 <= p < st.len() && 0 <= q < st.len() && p != q && st[p] > 0 && st[q] > 0 ==> ks[p] != ks[q]
}
spec fn fok<T>(ks: Seq<Option<T>>, st: Seq<u16>) -> bool {
    &&& forall|p: int| 0 <= p < st.len() && st[p] > 0 ==> #[trigger] freach_at(ks, st, p)
    &&& fdistinct(ks, st)
}
spec fn fholds<T>(ks: Seq<Option<T>>, st: Seq<u16>, k: T) -> bool { exists|i: int| 0 <= i < st.len() && st[i] > 0 && ks[i] == Some(k) }
spec fn fidx<T>(ks: Seq<Option<T>>, st: Seq<u16>, k: T) -> int { choose|i: int| 0 <= i < st.len() && st[i] > 0 && ks[i] == Some(k) }
spec fn fval<T>(ks: Seq<Option<T>>, vs: Seq<u64>, st: Seq<u16>, k: T) -> u64 { if fholds(ks, st, k) { vs[fidx(ks, st, k)] } else { 0 } }
spec fn dpos(idx0: int, w: int, n: int) -> int { probe_at(idx0, 1, w, n) }
spec fn run_short_at(st: Seq<u16>, idx: int) -> bool { exists|e: int| 1 <= e < DRIFT_LIMIT - 1 && st[#[trigger] dpos(idx, e, st.len() as int)] == 0 }
spec fn runs_short(st: Seq<u16>) -> bool { forall|idx: int| 0 <= idx < st.len() ==> #[trigger] run_short_at(st, idx) }
spec fn probe_set(p0: int, s: int, m: nat, size: int) -> Set<int> decreases m {
    if m == 0 { Set::empty() } else { probe_set(p0, s, (m - 1) as nat, size).insert(probe_at(p0, s, m - 1, size)) }
}
spec fn it_steps(index: int, stride: int, n: int) -> int {
    if index >= n { 0 } else { 1 + choose|t: int| 0 <= t < n && probe_at(0, stride, t, n) == index }
}
proof fn lemma_fidx<T>(ks: Seq<Option<T>>, st: Seq<u16>, k: T, p: int)
  requires fdistinct(ks, st), 0 <= p < st.len(), st[p] > 0, ks[p] == Some(k)
  ensures fholds(ks, st, k), fidx(ks, st, k) == p
{
    let i = fidx(ks, st, k);
    if i != p { assert(ks[i] != ks[p]); }
}

// R12b: a DOCUMENTED panic ("# Panics: if max_map_size is not a power of two") is modelled as 'returns only if the condition holds':
// the condition is a tagged POSTCONDITION (`*_validated`) instead of a precondition, so weakening or removing the check is noticed.
// Body = the original statement.
#[verifier::external_body] fn vx_documented_panic(c: bool) ensures c { assert!(c); }
pub assume_specification [ usize::is_power_of_two ] (n: usize) -> (r: bool) ensures r == exists|j: nat| j < 64 && n == pow2(j);
pub assume_specification [ usize::trailing_zeros ] (n: usize) -> (r: u32) ensures forall|j: nat| j < 64 && n == pow2(j) ==> r == j;
// ================= finite sums over a set (this unit) =================
spec fn ssum<A>(s: Set<A>, f: spec_fn(A) -> nat) -> nat decreases s.len() {
    if s.len() == 0 { 0 } else { let x = s.choose(); f(x) + ssum(s.remove(x), f) }
}
proof fn lemma_ssum_remove<A>(s: Set<A>, f: spec_fn(A) -> nat, x: A)
  requires s.contains(x)
  ensures ssum(s, f) == f(x) + ssum(s.remove(x), f)
  decreases s.len()
{
    let y = s.choose();
    if y != x {
        lemma_ssum_remove(s.remove(y), f, x);
        lemma_ssum_remove(s.remove(x), f, y);
        assert(s.remove(y).remove(x) =~= s.remove(x).remove(y));
    }
}
proof fn lemma_ssum_insert<A>(s: Set<A>, f: spec_fn(A) -> nat, x: A)
  requires !s.contains(x)
  ensures ssum(s.insert(x), f) == f(x) + ssum(s, f)
{
    lemma_ssum_remove(s.insert(x), f, x);
    assert(s.insert(x).remove(x) =~= s);
}
proof fn lemma_ssum_le<A>(s: Set<A>, t: Set<A>, f: spec_fn(A) -> nat, g: spec_fn(A) -> nat)
  requires s.subset_of(t), forall|x: A| s.contains(x) ==> #[trigger] f(x) <= g(x)
  ensures ssum(s, f) <= ssum(t, g)
  decreases s.len()
{
    if s.len() > 0 {
        let x = s.choose();
        lemma_ssum_remove(t, g, x);
        lemma_ssum_le(s.remove(x), t.remove(x), f, g);
    }
}
proof fn lemma_ssum_eq<A>(s: Set<A>, f: spec_fn(A) -> nat, g: spec_fn(A) -> nat)
  requires forall|x: A| s.contains(x) ==> #[trigger] f(x) == g(x)
  ensures ssum(s, f) == ssum(s, g)
  decreases s.len()
{
    if s.len() > 0 { lemma_ssum_eq(s.remove(s.choose()), f, g); }
}

// the set of held keys and the sum of all counters (key level)
spec fn hkeys<T>(ks: Seq<Option<T>>, st: Seq<u16>) -> Set<T> { focc(st).map(|p: int| ks[p]->0) }
spec fn valf<T>(ks: Seq<Option<T>>, vs: Seq<u64>, st: Seq<u16>) -> spec_fn(T) -> nat { |k: T| fval(ks, vs, st, k) as nat }
spec fn fsum<T>(ks: Seq<Option<T>>, vs: Seq<u64>, st: Seq<u16>) -> nat { ssum(hkeys(ks, st), valf(ks, vs, st)) }
proof fn lemma_hkeys<T>(ks: Seq<Option<T>>, st: Seq<u16>)
  requires fok(ks, st)
  ensures forall|k: T| #[trigger] hkeys(ks, st).contains(k) <==> fholds(ks, st, k)
{
    assert forall|k: T| #[trigger] hkeys(ks, st).contains(k) <==> fholds(ks, st, k) by {
        if hkeys(ks, st).contains(k) {
            let p = choose|p: int| focc(st).contains(p) && k == ks[p]->0;
            assert(freach_at(ks, st, p));
            assert(ks[p] == Some(k));
        }
        if fholds(ks, st, k) {
            let p = fidx(ks, st, k);
            assert(focc(st).contains(p));
            assert(ks[p]->0 == k);
        }
    }
}

#[verifier::reject_recursive_types(T)]
struct ReversePurgeItemHashMap < T > {
lg_length : u8 , load_threshold : usize , keys : Vec < Option < T >> , values : Vec < u64 > , states : Vec < u16 > , num_active : usize , }




impl<T> ReversePurgeItemHashMap<T> {
    spec fn shape(&self) -> bool { fshape(self.keys@, self.values@, self.states@, self.lg_length) }
    spec fn wf(&self) -> bool {
        &&& self.shape() && fok(self.keys@, self.states@)
        &&& self.num_active == focc(self.states@).len() && self.num_active < self.states@.len()
    }
    spec fn val(&self, k: T) -> u64 { fval(self.keys@, self.values@, self.states@, k) }
    spec fn pos_vals(&self) -> bool { forall|p: int| 0 <= p < self.states@.len() && self.states@[p] > 0 ==> self.values@[p] > 0 }
    // this unit: key-level views
    spec fn msum(&self) -> nat { fsum(self.keys@, self.values@, self.states@) }
}

impl<T: Eq + Hash> ReversePurgeItemHashMap<T> {
    // ---- opaque: every clause below is PROVED in unit fi_map (same text) except the two marked [R17] ----
    // proved in fi_map (`new`): an empty table of the given power-of-two size
    #[verifier::external_body]
    fn new(map_size: usize) -> (r: Self)
      requires 2 <= map_size <= pow2(40),
      ensures exists|j: nat| j < 64 && map_size == pow2(j), r.wf(), r.states@.len() == map_size, r.load_threshold == map_size * 3 / 4, r.num_active == 0,
        forall|p: int| 0 <= p < r.states@.len() ==> r.states@[p] == 0,
    { unimplemented!() }

    #[verifier::external_body]
    fn get(&self, key: &T) -> (r: u64)
      requires eq_law::<T>(), self.wf(),
      ensures r == self.val(*key)
    { unimplemented!() }

    #[verifier::external_body]
    fn adjust_or_put_value(&mut self, key: T, adjust_amount: u64)
      requires eq_law::<T>(), old(self).wf(), old(self).num_active + 1 < old(self).states@.len(), old(self).val(key) + adjust_amount <= u64::MAX,
      ensures final(self).wf(), final(self).lg_length == old(self).lg_length, final(self).load_threshold == old(self).load_threshold,
        forall|k2: T| final(self).val(k2) == (if k2 == key { (old(self).val(key) + adjust_amount) as u64 } else { old(self).val(k2) }),
        forall|k2: T| fholds(final(self).keys@, final(self).states@, k2) == (fholds(old(self).keys@, old(self).states@, k2) || k2 == key),
        final(self).num_active == old(self).num_active + (if fholds(old(self).keys@, old(self).states@, key) { 0usize } else { 1usize }),
        // [R17] hash quality, NOT provable (assumption): probe runs stay shorter than DRIFT_LIMIT
        runs_short(old(self).states@) ==> runs_short(final(self).states@),
    { unimplemented!() }

    #[verifier::external_body]
    fn purge(&mut self, sample_size: usize) -> (median: u64)
      requires eq_law::<T>(), old(self).wf(), runs_short(old(self).states@), old(self).pos_vals(), old(self).num_active > 0, sample_size > 0,
      ensures final(self).wf(), runs_short(final(self).states@), final(self).pos_vals(), median > 0,
        final(self).lg_length == old(self).lg_length, final(self).load_threshold == old(self).load_threshold,
        forall|k: T| final(self).val(k) == (if old(self).val(k) > median { (old(self).val(k) - median) as u64 } else { 0u64 }),
        forall|k: T| fholds(final(self).keys@, final(self).states@, k) == (old(self).val(k) > median),
        final(self).num_active < old(self).num_active,
        // the median is one of the sampled counters (fi_map C07.purge.median_is_counter)
        exists|k: T| fholds(old(self).keys@, old(self).states@, k) && #[trigger] old(self).val(k) >= median,
    { unimplemented!() }

    #[verifier::external_body]
    fn resize(&mut self, new_size: usize)
      requires eq_law::<T>(), old(self).wf(), old(self).pos_vals(), new_size == 2 * old(self).states@.len(), old(self).lg_length < 40,
      ensures final(self).wf(), final(self).pos_vals(), final(self).states@.len() == new_size, final(self).lg_length == old(self).lg_length + 1,
        final(self).num_active == old(self).num_active,
        forall|k: T| final(self).val(k) == old(self).val(k),
        forall|k: T| fholds(final(self).keys@, final(self).states@, k) == fholds(old(self).keys@, old(self).states@, k),
        // (new_size as f64 * LOAD_FACTOR) as usize (fi_map resize, via the vx_load_threshold float leaf)
        final(self).load_threshold == new_size * 3 / 4,
        // [R17] hash quality, NOT provable (assumption)
        runs_short(old(self).states@) ==> runs_short(final(self).states@),
    { unimplemented!() }

    #[verifier::external_body]
    fn iter(&self) -> (r: ReversePurgeItemIter<'_, T>)
      requires self.wf(),
      ensures r.inv(), *r.map == *self, r.yielded() =~= Set::<int>::empty(),
    { unimplemented!() }

    // ---- real getters ----
    fn len ( & self ) -> ( r : usize ) ensures r == self . keys @ . len ( ) {
self . keys . len ( ) }




    fn lg_length ( & self ) -> ( r : u8 ) ensures r == self . lg_length {
self . lg_length }




    fn capacity ( & self ) -> ( r : usize ) ensures r == self . load_threshold {
self . load_threshold }




    fn num_active ( & self ) -> ( r : usize ) ensures r == self . num_active {
self . num_active }



}

// ================= ReversePurgeItemIter (spec text copied from contracts/fi_map.rs) =================
#[verifier::reject_recursive_types(T)]
struct ReversePurgeItemIter < 'a , T > {
map : & 'a ReversePurgeItemHashMap < T > , index : usize , count : usize , stride : usize , mask : usize , }




impl<'a, T> ReversePurgeItemIter<'a, T> {
    spec fn n(&self) -> int { self.map.states@.len() as int }
    spec fn steps(&self) -> int { it_steps(self.index as int, self.stride as int, self.n()) }
    spec fn yielded(&self) -> Set<int> { probe_set(0, self.stride as int, self.steps() as nat, self.n()).intersect(focc(self.map.states@)) }
    spec fn inv(&self) -> bool {
        &&& self.map.wf()
        &&& self.stride % 2 == 1 && 0 < self.stride < self.n() && self.mask == self.n() - 1
        &&& (self.index < self.n() || self.index as int == 0x1_0000_0000_0000_0000 - self.stride)
        &&& self.count == self.yielded().len()
    }
    // the contract of `next` proved in unit fi_map (a trait method cannot carry `requires`, so it is stated as an implication)
    pub closed spec fn next_contract(pre: Self, post: Self, r: Option<(&'a T, u64)>) -> bool {
        pre.inv() ==> {
            &&& post.inv() && post.map == pre.map && post.stride == pre.stride
            &&& r is None ==> pre.yielded() =~= focc(pre.map.states@) && post.index == pre.index && post.count == pre.count
            &&& r matches Some(kv) ==> ({
                let p = post.index as int;
                &&& 0 <= p < pre.n() && pre.map.states@[p] > 0 && pre.map.keys@[p] == Some(*kv.0) && kv.1 == pre.map.values@[p]
                &&& !pre.yielded().contains(p) && post.yielded() =~= pre.yielded().insert(p)
            })
        }
    }
}

impl<'a, T> Iterator for ReversePurgeItemIter<'a, T> {
    type Item = (&'a T, u64);

    #[verifier::external_body]
    fn next(&mut self) -> (r: Option<Self::Item>)
      ensures Self::next_contract(*old(self), *final(self), r)
    { unimplemented!() }
}

// R: `item.clone()` for a key type whose Clone is structural (assumption, like Eq/Hash)
#[verifier::external_body]
fn vx_clone<T: Clone>(x: &T) -> (r: T) ensures r == *x { x.clone() }

// ================= history model =================
spec fn truth<T>(h: Seq<(T, u64)>, x: T) -> nat decreases h.len() {
    if h.len() == 0 { 0 } else { truth(h.drop_last(), x) + (if h.last().0 == x { h.last().1 as nat } else { 0 }) }
}
spec fn total<T>(h: Seq<(T, u64)>) -> nat decreases h.len() {
    if h.len() == 0 { 0 } else { total(h.drop_last()) + h.last().1 as nat }
}
spec fn cap_of(lg: u8) -> nat { pow2(lg as nat) * 3 / 4 }

const LG_MIN_MAP_SIZE : u8 = 3 ;



const SAMPLE_SIZE : usize = 1024 ;



const LOAD_FACTOR_NUMERATOR : usize = 3 ;



const LOAD_FACTOR_DENOMINATOR : usize = 4 ;




enum ErrorType {
NoFalseNegatives , NoFalsePositives , }




struct Row < T > {
item : T , estimate : u64 , upper_bound : u64 , lower_bound : u64 , }




// result row accessors: each returns its field (C07: what frequent_items reports is what the caller reads)
impl<T> Row<T> {
    fn item ( & self ) -> ( r : & T ) ensures
/*@C07.row_item*/ * r == self . item {
& self . item }


    fn estimate ( & self ) -> ( r : u64 ) ensures
/*@C07.row_estimate*/ r == self . estimate {
self . estimate }


    fn upper_bound ( & self ) -> ( r : u64 ) ensures
/*@C07.row_upper_bound*/ r == self . upper_bound {
self . upper_bound }


    fn lower_bound ( & self ) -> ( r : u64 ) ensures
/*@C07.row_lower_bound*/ r == self . lower_bound {
self . lower_bound }

}

// R15: `rows.sort_by_key(|row| std::cmp::Reverse(row.estimate))` -- std sort leaf: a permutation, descending by estimate
#[verifier::external_body]
fn vx_sort_rows_desc<T>(rows: &mut Vec<Row<T>>)
  ensures final(rows)@.to_multiset() == old(rows)@.to_multiset(),
    forall|i: int, j: int| 0 <= i <= j < final(rows)@.len() ==> final(rows)@[i].estimate >= final(rows)@[j].estimate,
{ rows.sort_by_key(|row| std::cmp::Reverse(row.estimate)); }

#[verifier::reject_recursive_types(T)]
struct FrequentItemsSketch < T > {
lg_max_map_size : u8 , cur_map_cap : usize , offset : u64 , stream_weight : u64 , sample_size : usize , hash_map : ReversePurgeItemHashMap < T > , }




impl<T: Eq + Hash> FrequentItemsSketch<T> {
    // invariant, with `slack` extra active items allowed (1 between the insertion and maybe_resize_or_purge)
    spec fn wf_but(&self, slack: int) -> bool {
        &&& eq_law::<T>()
        &&& self.hash_map.wf() && self.hash_map.pos_vals() && runs_short(self.hash_map.states@)
        &&& 3 <= self.hash_map.lg_length <= self.lg_max_map_size <= 40
        &&& self.hash_map.load_threshold == self.hash_map.states@.len() * 3 / 4
        &&& self.cur_map_cap == self.hash_map.load_threshold
        &&& self.hash_map.num_active <= self.cur_map_cap + slack
        &&& self.sample_size > 0
        &&& self.sample_size as nat == (if cap_of(self.lg_max_map_size) < 1024 { cap_of(self.lg_max_map_size) } else { 1024 })
        &&& self.hash_map.msum() + self.offset <= self.stream_weight
    }
    spec fn wf(&self) -> bool { self.wf_but(0) }
    // the codec-level invariant (VERBATIM from contracts/fi_codec.rs); implied by wf()
    spec fn cwf(&self) -> bool {
        &&& eq_law::<T>() && self.hash_map.mwf()
        &&& 3 <= self.hash_map.lg_length <= self.lg_max_map_size <= 40
        &&& self.cur_map_cap == cap_of_lg(self.hash_map.lg_length)
        &&& self.hash_map.num_active <= self.cur_map_cap
    }
    proof fn lemma_cwf(&self)
      requires self.wf()
      ensures self.cwf()
    { lemma_mwf_of_wf(self.hash_map); }
    spec fn lb_spec(&self, x: T) -> nat { self.hash_map.val(x) as nat }
    spec fn ub_spec(&self, x: T) -> nat { (self.hash_map.val(x) + self.offset) as nat }
    // the property: the true count of every item (tracked or not) is bracketed, the total weight is exact
    spec fn models(&self, h: Seq<(T, u64)>) -> bool {
        &&& self.stream_weight == total(h)
        &&& forall|x: T| self.lb_spec(x) <= #[trigger] truth(h, x) <= self.ub_spec(x)
    }

    fn with_lg_map_sizes ( lg_max_map_size : u8 , lg_cur_map_size : u8 ) -> ( r : Self ) requires eq_law :: < T > ( ) , lg_max_map_size <= 40 , lg_cur_map_size <= lg_max_map_size || lg_cur_map_size <= LG_MIN_MAP_SIZE , ensures r . wf ( ) , r . lg_max_map_size == ( if lg_max_map_size >= LG_MIN_MAP_SIZE {
lg_max_map_size }
else {
LG_MIN_MAP_SIZE }
) ,
/*@C07.empty_model*/ r . models ( Seq :: < ( T , u64 ) > :: empty ( ) ) ,
/*@C18.fi_capacity*/ r . hash_map . num_active <= cap_of ( r . lg_max_map_size ) ,
/*@C07.purge_sample_size*/ r . sample_size as nat == ( if cap_of ( r . lg_max_map_size ) < 1024 { cap_of ( r . lg_max_map_size ) } else { 1024 } ) ,
/*@C07.new.codec_view*/ r . cwf ( ) , r . hash_map . lg_length == lgmax3 ( lg_cur_map_size ) , r . hash_map . num_active == 0 , r . stream_weight == 0 , r . offset == 0 , forall | k : T | ! r . hash_map . holds ( k ) , {
let lg_max = lg_max_map_size . max ( LG_MIN_MAP_SIZE ) ;
let lg_cur = lg_cur_map_size . max ( LG_MIN_MAP_SIZE ) ;
assert! ( lg_cur <= lg_max ) ;
proof {
lemma_shl ( lg_cur ) ;
lemma_shl ( lg_max ) ;
lemma_len_bound ( lg_cur ) ;
lemma_len_bound ( lg_max ) ;
vstd :: arithmetic :: power2 :: lemma2_to64 ( ) ;
vstd :: arithmetic :: power2 :: lemma_pow2_strictly_increases ( 1 , lg_cur as nat ) ;
if lg_cur < 40 {
vstd :: arithmetic :: power2 :: lemma_pow2_strictly_increases ( lg_cur as nat , 40 ) ;
}
}
let map = ReversePurgeItemHashMap :: new ( 1usize << lg_cur ) ;
let cur_map_cap = map . capacity ( ) ;
let max_map_cap = ( 1usize << lg_max ) * LOAD_FACTOR_NUMERATOR / LOAD_FACTOR_DENOMINATOR ;
let sample_size = SAMPLE_SIZE . min ( max_map_cap ) ;
proof {
lemma_empty_map ( map , lg_cur ) ;
lemma_mwf_of_wf ( map ) ;
}
Self {
lg_max_map_size : lg_max , cur_map_cap , offset : 0 , stream_weight : 0 , sample_size , hash_map : map , }
}




    fn new ( max_map_size : usize ) -> ( r : Self ) requires eq_law :: < T > ( ) , max_map_size <= pow2 ( 40 ) , ensures r . wf ( ) ,
/*@C07.new.pow2_validated*/ exists | j : nat | j < 64 && max_map_size == pow2 ( j ) , max_map_size == pow2 ( r . lg_max_map_size as nat ) || r . lg_max_map_size == LG_MIN_MAP_SIZE ,
/*@C07.empty_model*/ r . models ( Seq :: < ( T , u64 ) > :: empty ( ) ) , {
vx_documented_panic ( max_map_size . is_power_of_two ( ) ) ;
assert ( /*@C07.new.pow2_validated*/ exists | j : nat | j < 64 && max_map_size == pow2 ( j ) ) ;
let ghost lg = choose | j : nat | j < 64 && max_map_size == pow2 ( j ) ;
proof {
if lg > 40 {
vstd :: arithmetic :: power2 :: lemma_pow2_strictly_increases ( 40 , lg ) ;
}
}
let lg_max_map_size = max_map_size . trailing_zeros ( ) as u8 ;
Self :: with_lg_map_sizes ( lg_max_map_size , LG_MIN_MAP_SIZE ) }



    fn current_map_capacity ( & self ) -> ( r : usize ) ensures r == self . cur_map_cap , {
self . cur_map_cap }



    fn lg_max_map_size ( & self ) -> ( r : u8 ) ensures r == self . lg_max_map_size , {
self . lg_max_map_size }



    fn lg_cur_map_size ( & self ) -> ( r : u8 ) ensures r == self . hash_map . lg_length , {
self . hash_map . lg_length ( ) }



    fn update ( & mut self , item : T ) requires old ( self ) . wf ( ) , old ( self ) . stream_weight + 1 <= u64 :: MAX , ensures final ( self ) . wf ( ) ,
/*@C07.update*/ forall | h : Seq < ( T , u64 ) > | # [ trigger ] old ( self ) . models ( h ) ==> final ( self ) . models ( h . push ( ( item , 1u64 ) ) ) ,
/*@C07.update_total*/ final ( self ) . stream_weight == old ( self ) . stream_weight + 1 ,
/*@C18.fi_capacity*/ final ( self ) . hash_map . num_active <= cap_of ( final ( self ) . lg_max_map_size ) , final ( self ) . lg_max_map_size == old ( self ) . lg_max_map_size , {
self . update_with_count ( item , 1 ) ;
}



    fn reset ( & mut self ) requires old ( self ) . wf ( ) , ensures final ( self ) . wf ( ) , final ( self ) . lg_max_map_size == old ( self ) . lg_max_map_size ,
/*@C07.empty_model*/ final ( self ) . models ( Seq :: < ( T , u64 ) > :: empty ( ) ) ,
/*@C18.fi_capacity*/ final ( self ) . hash_map . num_active <= cap_of ( final ( self ) . lg_max_map_size ) , {
* self = Self :: with_lg_map_sizes ( self . lg_max_map_size , LG_MIN_MAP_SIZE ) ;
}



    fn frequent_items ( & self , error_type : ErrorType ) -> ( rows : Vec < Row < T >> ) where T : Clone , requires self . wf ( ) , ensures
/*@C07.rows_bounds*/ forall | i : int | 0 <= i < rows @ . len ( ) ==> # [ trigger ] self . row_ok ( error_type , self . offset , rows @ [ i ] ) ,
/*@C07.rows_complete*/ forall | x : T | # [ trigger ] self . selected ( error_type , self . offset , x ) ==> exists | i : int | 0 <= i < rows @ . len ( ) && # [ trigger ] rows @ [ i ] . item == x ,
/*@C07.nfp*/ error_type is NoFalsePositives ==> forall | h : Seq < ( T , u64 ) > , i : int | # [ trigger ] self . models ( h ) && 0 <= i < rows @ . len ( ) ==> truth ( h , # [ trigger ] rows @ [ i ] . item ) > self . offset ,
/*@C07.nfn*/ error_type is NoFalseNegatives ==> forall | h : Seq < ( T , u64 ) > , x : T | # [ trigger ] self . models ( h ) && # [ trigger ] truth ( h , x ) > self . offset ==> exists | i : int | 0 <= i < rows @ . len ( ) && # [ trigger ] rows @ [ i ] . item == x , {
proof {
assert ( self . thr ( self . offset ) == self . offset ) ;
}
self . frequent_items_with_threshold ( error_type , self . offset ) }



    fn is_empty ( & self ) -> ( r : bool ) ensures r == ( self . hash_map . num_active == 0 ) , {
self . hash_map . num_active ( ) == 0 }



    fn num_active_items ( & self ) -> ( r : usize ) ensures r == self . hash_map . num_active , {
self . hash_map . num_active ( ) }



    fn total_weight ( & self ) -> ( r : u64 ) ensures
/*@C07.total_weight*/ forall | h : Seq < ( T , u64 ) > | # [ trigger ] self . models ( h ) ==> r == total ( h ) , {
self . stream_weight }




    fn estimate ( & self , item : & T ) -> ( r : u64 ) requires self . wf ( ) , ensures
/*@C07.estimate_in_bounds*/ self . lb_spec ( * item ) <= r <= self . ub_spec ( * item ) , r == ( if self . hash_map . val ( * item ) > 0 {
self . ub_spec ( * item ) }
else {
0 }
) , {
proof {
lemma_val_le_sum ( self . hash_map , * item ) ;
}
let value = self . hash_map . get ( item ) ;
if value > 0 {
value + self . offset }
else {
0 }
}




    fn lower_bound ( & self , item : & T ) -> ( r : u64 ) requires self . wf ( ) , ensures
/*@C07.lb*/ forall | h : Seq < ( T , u64 ) > | # [ trigger ] self . models ( h ) ==> r <= truth ( h , * item ) , r == self . lb_spec ( * item ) , {
self . hash_map . get ( item ) }




    fn upper_bound ( & self , item : & T ) -> ( r : u64 ) requires self . wf ( ) , ensures
/*@C07.ub*/ forall | h : Seq < ( T , u64 ) > | # [ trigger ] self . models ( h ) ==> truth ( h , * item ) <= r , r == self . ub_spec ( * item ) , {
proof {
lemma_val_le_sum ( self . hash_map , * item ) ;
}
self . hash_map . get ( item ) + self . offset }




    fn maximum_error ( & self ) -> ( r : u64 ) ensures
/*@C07.width*/ forall | x : T | # [ trigger ] self . ub_spec ( x ) - self . lb_spec ( x ) == r , {
self . offset }




    fn maximum_map_capacity ( & self ) -> ( r : usize ) requires self . lg_max_map_size <= 40 , ensures r == cap_of ( self . lg_max_map_size ) , {
proof {
lemma_shl ( self . lg_max_map_size ) ;
}
( 1usize << self . lg_max_map_size ) * LOAD_FACTOR_NUMERATOR / LOAD_FACTOR_DENOMINATOR }




    fn update_with_count ( & mut self , item : T , count : u64 ) requires old ( self ) . wf ( ) , old ( self ) . stream_weight + count <= u64 :: MAX , ensures final ( self ) . wf ( ) ,
/*@C07.update*/ forall | h : Seq < ( T , u64 ) > | # [ trigger ] old ( self ) . models ( h ) ==> final ( self ) . models ( h . push ( ( item , count ) ) ) ,
/*@C07.update_total*/ final ( self ) . stream_weight == old ( self ) . stream_weight + count ,
/*@C18.fi_capacity*/ final ( self ) . hash_map . num_active <= cap_of ( final ( self ) . lg_max_map_size ) , final ( self ) . lg_max_map_size == old ( self ) . lg_max_map_size ,
/*@C07.update.codec_wf*/ final ( self ) . cwf ( ) ,
/*@C07.update.zero_is_noop*/ count == 0 ==> final ( self ) . hash_map == old ( self ) . hash_map && final ( self ) . offset == old ( self ) . offset ,
/*@C07.update.exact_with_room*/ count > 0 && ( old ( self ) . hash_map . holds ( item ) || old ( self ) . hash_map . num_active < old ( self ) . cur_map_cap ) ==> final ( self ) . offset == old ( self ) . offset && upd_exact ( old ( self ) . hash_map , final ( self ) . hash_map , item , count ) , {
if count == 0 {
proof {
self . lemma_cwf ( ) ;
assert forall | h : Seq < ( T , u64 ) > | # [ trigger ] old ( self ) . models ( h ) implies self . models ( h . push ( ( item , count ) ) ) by {
lemma_push ( h , item , count ) ;
}
lemma_cap_mono ( self . hash_map . lg_length , self . lg_max_map_size ) ;
}
return ;
}
proof {
lemma_room ( self . hash_map . lg_length ) ;
lemma_val_le_sum ( self . hash_map , item ) ;
}
assert! ( count > 0 ) ;
self . stream_weight += count ;
self . hash_map . adjust_or_put_value ( item , count ) ;
proof {
lemma_put ( old ( self ) . hash_map , self . hash_map , item , count ) ;
assert forall | h : Seq < ( T , u64 ) > | # [ trigger ] old ( self ) . models ( h ) implies self . models ( h . push ( ( item , count ) ) ) by {
lemma_push ( h , item , count ) ;
assert forall | x : T | self . lb_spec ( x ) <= # [ trigger ] truth ( h . push ( ( item , count ) ) , x ) <= self . ub_spec ( x ) by {
assert ( old ( self ) . lb_spec ( x ) <= truth ( h , x ) <= old ( self ) . ub_spec ( x ) ) ;
}
}
}
self . maybe_resize_or_purge ( ) ;
proof {
self . lemma_cwf ( ) ;
}
}




    fn merge ( & mut self , other : & Self ) where T : Clone , requires old ( self ) . wf ( ) , other . wf ( ) , old ( self ) . stream_weight + other . stream_weight <= u64 :: MAX , ensures final ( self ) . wf ( ) ,
/*@C07.merge*/ forall | h1 : Seq < ( T , u64 ) > , h2 : Seq < ( T , u64 ) > | # [ trigger ] old ( self ) . models ( h1 ) && # [ trigger ] other . models ( h2 ) ==> final ( self ) . models ( h1 + h2 ) ,
/*@C07.merge_total*/ final ( self ) . stream_weight == old ( self ) . stream_weight + other . stream_weight ,
/*@C18.fi_capacity*/ final ( self ) . hash_map . num_active <= cap_of ( final ( self ) . lg_max_map_size ) , final ( self ) . lg_max_map_size == old ( self ) . lg_max_map_size , {
if other . stream_weight == 0 {
proof {
assert forall | h1 : Seq < ( T , u64 ) > , h2 : Seq < ( T , u64 ) > | # [ trigger ] old ( self ) . models ( h1 ) && # [ trigger ] other . models ( h2 ) implies self . models ( h1 + h2 ) by {
lemma_concat ( h1 , h2 ) ;
assert forall | x : T | # [ trigger ] truth ( h2 , x ) == 0 by {
lemma_truth_le_total ( h2 , x ) ;
}
}
lemma_cap_mono ( self . hash_map . lg_length , self . lg_max_map_size ) ;
}
return ;
}
let merged_total = self . stream_weight + other . stream_weight ;
let ghost mut g : Seq < ( T , u64 ) > = Seq :: empty ( ) ;
let ghost mut seen : Set < T > = Set :: empty ( ) ;
let ghost oks = other . hash_map . keys @ ;
let ghost ovs = other . hash_map . values @ ;
let ghost ost = other . hash_map . states @ ;
proof {
lemma_cap_mono ( self . hash_map . lg_length , self . lg_max_map_size ) ;
}
let mut vx_it1 = other . hash_map . iter ( ) ;
loop invariant self . wf ( ) , other . wf ( ) , vx_it1 . inv ( ) , * vx_it1 . map == other . hash_map , self . lg_max_map_size == old ( self ) . lg_max_map_size , oks == other . hash_map . keys @ , ovs == other . hash_map . values @ , ost == other . hash_map . states @ , old ( self ) . stream_weight + other . stream_weight <= u64 :: MAX , merged_total == old ( self ) . stream_weight + other . stream_weight , self . stream_weight == old ( self ) . stream_weight + total ( g ) , iter_link ( oks , ovs , ost , vx_it1 . yielded ( ) , seen ) , total ( g ) == ssum ( seen , valf ( oks , ovs , ost ) ) , total ( g ) <= other . hash_map . msum ( ) , forall | x : T | # [ trigger ] truth ( g , x ) == ( if seen . contains ( x ) {
other . hash_map . val ( x ) as nat }
else {
0 }
) ,
/*@C07.merge*/ forall | h1 : Seq < ( T , u64 ) > | # [ trigger ] old ( self ) . models ( h1 ) ==> self . models ( h1 + g ) ,
/*@C18.fi_capacity*/ self . hash_map . num_active <= cap_of ( self . lg_max_map_size ) , ensures forall | k : T | fholds ( oks , ost , k ) ==> seen . contains ( k ) , decreases focc ( ost ) . len ( ) - vx_it1 . yielded ( ) . len ( ) {
let ghost it0 = vx_it1 ;
match vx_it1 . next ( ) {
Some ( ( item , count ) ) => {
let ghost g0 = g ;
let ghost seen0 = seen ;
let ghost pre = * self ;
proof {
lemma_iter_step ( oks , ovs , ost , it0 . yielded ( ) , seen0 , vx_it1 . index as int , * item ) ;
seen = seen0 . insert ( * item ) ;
g = g0 . push ( ( * item , count ) ) ;
lemma_push ( g0 , * item , count ) ;
}
self . update_with_count ( vx_clone ( item ) , count ) ;
proof {
assert forall | h1 : Seq < ( T , u64 ) > | # [ trigger ] old ( self ) . models ( h1 ) implies self . models ( h1 + g ) by {
assert ( pre . models ( h1 + g0 ) ) ;
assert ( ( h1 + g0 ) . push ( ( * item , count ) ) =~= h1 + g ) ;
}
}
}
None => {
proof {
lemma_iter_done ( oks , ovs , ost , it0 . yielded ( ) , seen ) ;
}
break ;
}
}
}
let ghost mid = * self ;
self . offset += other . offset ;
self . stream_weight = merged_total ;
proof {
assert ( self . hash_map == mid . hash_map ) ;
assert forall | h1 : Seq < ( T , u64 ) > , h2 : Seq < ( T , u64 ) > | # [ trigger ] old ( self ) . models ( h1 ) && # [ trigger ] other . models ( h2 ) implies self . models ( h1 + h2 ) by {
lemma_concat ( h1 , g ) ;
lemma_concat ( h1 , h2 ) ;
assert forall | x : T | self . lb_spec ( x ) <= # [ trigger ] truth ( h1 + h2 , x ) <= self . ub_spec ( x ) by {
assert ( truth ( h1 + g , x ) == truth ( h1 , x ) + truth ( g , x ) ) ;
assert ( truth ( g , x ) == other . hash_map . val ( x ) ) ;
assert ( mid . models ( h1 + g ) ) ;
assert ( mid . lb_spec ( x ) <= truth ( h1 + g , x ) <= mid . ub_spec ( x ) ) ;
assert ( truth ( h1 + h2 , x ) == truth ( h1 , x ) + truth ( h2 , x ) ) ;
assert ( other . lb_spec ( x ) <= truth ( h2 , x ) <= other . ub_spec ( x ) ) ;
}
}
}
}




    spec fn thr(&self, threshold: u64) -> u64 { if threshold >= self.offset { threshold } else { self.offset } }
    // the selection criterion of a row
    spec fn selected(&self, e: ErrorType, t: u64, x: T) -> bool {
        self.hash_map.val(x) > 0 && (match e { ErrorType::NoFalseNegatives => self.ub_spec(x) > t, ErrorType::NoFalsePositives => self.lb_spec(x) > t })
    }
    spec fn row_ok(&self, e: ErrorType, t: u64, row: Row<T>) -> bool {
        &&& self.selected(e, t, row.item)
        &&& row.lower_bound == self.lb_spec(row.item) && row.upper_bound == self.ub_spec(row.item) && row.estimate == row.upper_bound
    }

    fn frequent_items_with_threshold ( & self , error_type : ErrorType , threshold : u64 , ) -> ( rows : Vec < Row < T >> ) where T : Clone , requires self . wf ( ) , ensures
/*@C07.rows_bounds*/ forall | i : int | 0 <= i < rows @ . len ( ) ==> # [ trigger ] self . row_ok ( error_type , self . thr ( threshold ) , rows @ [ i ] ) ,
/*@C07.rows_complete*/ forall | x : T | # [ trigger ] self . selected ( error_type , self . thr ( threshold ) , x ) ==> exists | i : int | 0 <= i < rows @ . len ( ) && # [ trigger ] rows @ [ i ] . item == x ,
/*@C07.nfp*/ error_type is NoFalsePositives ==> forall | h : Seq < ( T , u64 ) > , i : int | # [ trigger ] self . models ( h ) && 0 <= i < rows @ . len ( ) ==> truth ( h , # [ trigger ] rows @ [ i ] . item ) > self . thr ( threshold ) ,
/*@C07.nfn*/ error_type is NoFalseNegatives ==> forall | h : Seq < ( T , u64 ) > , x : T | # [ trigger ] self . models ( h ) && # [ trigger ] truth ( h , x ) > self . thr ( threshold ) ==> exists | i : int | 0 <= i < rows @ . len ( ) && # [ trigger ] rows @ [ i ] . item == x , forall | i : int , j : int | 0 <= i <= j < rows @ . len ( ) ==> rows @ [ i ] . estimate >= rows @ [ j ] . estimate , {
let threshold = threshold . max ( self . offset ) ;
let mut rows = vec! [ ] ;
let ghost mut seen : Set < T > = Set :: empty ( ) ;
let ghost ks = self . hash_map . keys @ ;
let ghost vs = self . hash_map . values @ ;
let ghost st = self . hash_map . states @ ;
let mut vx_it1 = self . hash_map . iter ( ) ;
loop invariant self . wf ( ) , vx_it1 . inv ( ) , * vx_it1 . map == self . hash_map , ks == self . hash_map . keys @ , vs == self . hash_map . values @ , st == self . hash_map . states @ , iter_link ( ks , vs , st , vx_it1 . yielded ( ) , seen ) ,
/*@C07.rows_bounds*/ forall | i : int | 0 <= i < rows @ . len ( ) ==> # [ trigger ] self . row_ok ( error_type , threshold , rows @ [ i ] ) ,
/*@C07.rows_complete*/ forall | x : T | seen . contains ( x ) && # [ trigger ] self . selected ( error_type , threshold , x ) ==> exists | i : int | 0 <= i < rows @ . len ( ) && # [ trigger ] rows @ [ i ] . item == x , ensures forall | k : T | fholds ( ks , st , k ) ==> seen . contains ( k ) , decreases focc ( st ) . len ( ) - vx_it1 . yielded ( ) . len ( ) {
let ghost it0 = vx_it1 ;
match vx_it1 . next ( ) {
Some ( ( item , count ) ) => {
let ghost rows0 = rows @ ;
proof {
lemma_iter_step ( ks , vs , st , it0 . yielded ( ) , seen , vx_it1 . index as int , * item ) ;
lemma_val_le_sum ( self . hash_map , * item ) ;
}
let lower = count ;
let upper = count + self . offset ;
let include = match error_type {
ErrorType :: NoFalseNegatives => upper > threshold , ErrorType :: NoFalsePositives => lower > threshold , }
;
if include {
rows . push ( Row {
item : vx_clone ( item ) , estimate : upper , upper_bound : upper , lower_bound : lower , }
) ;
}
proof {
let ghost seen0 = seen ;
seen = seen0 . insert ( * item ) ;
assert forall | i : int | 0 <= i < rows @ . len ( ) implies # [ trigger ] self . row_ok ( error_type , threshold , rows @ [ i ] ) by {
if i < rows0 . len ( ) {
assert ( rows @ [ i ] == rows0 [ i ] ) ;
}
}
assert forall | x : T | seen . contains ( x ) && # [ trigger ] self . selected ( error_type , threshold , x ) implies exists | i : int | 0 <= i < rows @ . len ( ) && # [ trigger ] rows @ [ i ] . item == x by {
if x == * item {
assert ( rows @ [ rows @ . len ( ) - 1 ] . item == x ) ;
}
else {
let i = choose | i : int | 0 <= i < rows0 . len ( ) && # [ trigger ] rows0 [ i ] . item == x ;
assert ( rows @ [ i ] . item == x ) ;
}
}
}
}
None => {
proof {
lemma_iter_done ( ks , vs , st , it0 . yielded ( ) , seen ) ;
}
break ;
}
}
}
let ghost rows1 = rows @ ;
vx_sort_rows_desc ( & mut rows ) ;
proof {
lemma_perm_rows ( rows1 , rows @ ) ;
assert forall | i : int | 0 <= i < rows @ . len ( ) implies # [ trigger ] self . row_ok ( error_type , threshold , rows @ [ i ] ) by {
assert ( rows1 . contains ( rows @ [ i ] ) ) ;
let j = choose | j : int | 0 <= j < rows1 . len ( ) && rows1 [ j ] == rows @ [ i ] ;
assert ( self . row_ok ( error_type , threshold , rows1 [ j ] ) ) ;
}
assert forall | x : T | # [ trigger ] self . selected ( error_type , threshold , x ) implies exists | i : int | 0 <= i < rows @ . len ( ) && # [ trigger ] rows @ [ i ] . item == x by {
assert ( fholds ( ks , st , x ) ) ;
let j = choose | j : int | 0 <= j < rows1 . len ( ) && # [ trigger ] rows1 [ j ] . item == x ;
assert ( rows @ . contains ( rows1 [ j ] ) ) ;
let i = choose | i : int | 0 <= i < rows @ . len ( ) && rows @ [ i ] == rows1 [ j ] ;
assert ( rows @ [ i ] . item == x ) ;
}
if error_type is NoFalseNegatives {
assert forall | h : Seq < ( T , u64 ) > , x : T | # [ trigger ] self . models ( h ) && # [ trigger ] truth ( h , x ) > threshold implies exists | i : int | 0 <= i < rows @ . len ( ) && # [ trigger ] rows @ [ i ] . item == x by {
assert ( self . lb_spec ( x ) <= truth ( h , x ) <= self . ub_spec ( x ) ) ;
assert ( self . selected ( error_type , threshold , x ) ) ;
}
}
if error_type is NoFalsePositives {
assert forall | h : Seq < ( T , u64 ) > , i : int | # [ trigger ] self . models ( h ) && 0 <= i < rows @ . len ( ) implies truth ( h , # [ trigger ] rows @ [ i ] . item ) > threshold by {
assert ( self . row_ok ( error_type , threshold , rows @ [ i ] ) ) ;
assert ( self . lb_spec ( rows @ [ i ] . item ) <= truth ( h , rows @ [ i ] . item ) ) ;
}
}
}
rows }




    fn maybe_resize_or_purge ( & mut self ) requires old ( self ) . wf_but ( 1 ) , ensures final ( self ) . wf ( ) , final ( self ) . stream_weight == old ( self ) . stream_weight , final ( self ) . lg_max_map_size == old ( self ) . lg_max_map_size ,
/*@C18.fi_capacity*/ final ( self ) . hash_map . num_active <= cap_of ( final ( self ) . lg_max_map_size ) ,
/*@C07.purge_keeps_bracket*/ forall | h : Seq < ( T , u64 ) > | # [ trigger ] old ( self ) . models ( h ) ==> final ( self ) . models ( h ) ,
/*@C07.no_purge_with_room*/ old ( self ) . hash_map . num_active <= old ( self ) . cur_map_cap ==> * final ( self ) == * old ( self ) , {
if self . hash_map . num_active ( ) > self . cur_map_cap {
if self . hash_map . lg_length ( ) < self . lg_max_map_size {
proof {
lemma_len_bound ( self . hash_map . lg_length ) ;
}
self . hash_map . resize ( self . hash_map . len ( ) * 2 ) ;
self . cur_map_cap = self . hash_map . capacity ( ) ;
proof {
lemma_resize_room ( old ( self ) . hash_map . lg_length ) ;
lemma_cap_mono ( self . hash_map . lg_length , self . lg_max_map_size ) ;
lemma_same_sum ( old ( self ) . hash_map , self . hash_map ) ;
}
}
else {
let delta = self . hash_map . purge ( self . sample_size ) ;
proof {
lemma_purge_sum ( old ( self ) . hash_map , self . hash_map , delta ) ;
}
self . offset += delta ;
proof {
lemma_cap_mono ( self . hash_map . lg_length , self . lg_max_map_size ) ;
}
if self . hash_map . num_active ( ) > self . maximum_map_capacity ( ) {
panic! ( ) ;
}
}
}
else {
proof {
lemma_cap_mono ( self . hash_map . lg_length , self . lg_max_map_size ) ;
}
}
}



}

// ================= lemmas of this unit =================
// seen = keys of the yielded positions
spec fn iter_link<T>(ks: Seq<Option<T>>, vs: Seq<u64>, st: Seq<u16>, y: Set<int>, seen: Set<T>) -> bool {
    &&& y.subset_of(focc(st))
    &&& forall|x: T| #[trigger] seen.contains(x) <==> fholds(ks, st, x) && y.contains(fidx(ks, st, x))
}
proof fn lemma_iter_step<T>(ks: Seq<Option<T>>, vs: Seq<u64>, st: Seq<u16>, y: Set<int>, seen: Set<T>, p: int, k: T)
  requires fok(ks, st), iter_link(ks, vs, st, y, seen), 0 <= p < st.len(), st[p] > 0, ks[p] == Some(k), !y.contains(p),
  ensures !seen.contains(k), fholds(ks, st, k), fval(ks, vs, st, k) == vs[p],
    iter_link(ks, vs, st, y.insert(p), seen.insert(k)),
    ssum(seen.insert(k), valf(ks, vs, st)) == ssum(seen, valf(ks, vs, st)) + vs[p],
    ssum(seen.insert(k), valf(ks, vs, st)) <= fsum(ks, vs, st),
    y.insert(p).len() == y.len() + 1, y.insert(p).len() <= focc(st).len(),
{
    lemma_fidx(ks, st, k, p);
    assert(focc(st).contains(p));
    let y2 = y.insert(p); let s2 = seen.insert(k);
    assert forall|x: T| #[trigger] s2.contains(x) <==> fholds(ks, st, x) && y2.contains(fidx(ks, st, x)) by {
        if fholds(ks, st, x) && fidx(ks, st, x) == p { assert(ks[p] == Some(x)); }
    }
    lemma_ssum_insert(seen, valf(ks, vs, st), k);
    lemma_hkeys(ks, st);
    assert(s2.subset_of(hkeys(ks, st)));
    lemma_ssum_le(s2, hkeys(ks, st), valf(ks, vs, st), valf(ks, vs, st));
    vstd::set_lib::lemma_len_subset(y2, focc(st));
}
// a permutation has the same elements
proof fn lemma_perm_rows<A>(a: Seq<A>, b: Seq<A>)
  requires a.to_multiset() == b.to_multiset()
  ensures forall|i: int| 0 <= i < b.len() ==> a.contains(#[trigger] b[i]),
    forall|j: int| 0 <= j < a.len() ==> b.contains(#[trigger] a[j]),
{
    a.to_multiset_ensures(); b.to_multiset_ensures();
    assert forall|i: int| 0 <= i < b.len() implies a.contains(#[trigger] b[i]) by {
        assert(b.contains(b[i]));
        assert(a.to_multiset().count(b[i]) > 0);
    }
    assert forall|j: int| 0 <= j < a.len() implies b.contains(#[trigger] a[j]) by {
        assert(a.contains(a[j]));
        assert(b.to_multiset().count(a[j]) > 0);
    }
}
proof fn lemma_iter_done<T>(ks: Seq<Option<T>>, vs: Seq<u64>, st: Seq<u16>, y: Set<int>, seen: Set<T>)
  requires iter_link(ks, vs, st, y, seen), y =~= focc(st),
  ensures forall|k: T| fholds(ks, st, k) ==> seen.contains(k),
{
    assert forall|k: T| fholds(ks, st, k) implies seen.contains(k) by {
        assert(focc(st).contains(fidx(ks, st, k)));
    }
}
// a table without active slots: nothing held, sum 0, every run short, lg_length determined by the size
// ================= codec-level restatement: what unit fi_codec ASSUMES of with_lg_map_sizes / update_with_count =================
// definitions VERBATIM from contracts/fi_codec.rs (act_vals, mwf, holds, cwf, cap_of_lg, lgmax3, upd_exact); the clauses are proved below
spec fn act_vals(vs: Seq<u64>, st: Seq<u16>, n: int) -> Seq<u64> decreases n {
    if n <= 0 { Seq::empty() } else if st[n - 1] > 0 { act_vals(vs, st, n - 1).push(vs[n - 1]) } else { act_vals(vs, st, n - 1) }
}
spec fn lgmax3(l: u8) -> u8 { if l >= 3 { l } else { 3 } }
spec fn cap_of_lg(l: u8) -> int { (pow2(l as nat) * 3 / 4) as int }
impl<T> ReversePurgeItemHashMap<T> {
    // the part of the map invariant of unit fi_map the codec relies on
    spec fn mwf(&self) -> bool {
        &&& 1 <= self.lg_length <= 40 && self.keys@.len() == pow2(self.lg_length as nat) && self.values@.len() == self.keys@.len() && self.states@.len() == self.keys@.len()
        &&& forall|p: int| 0 <= p < self.states@.len() && self.states@[p] > 0 ==> (#[trigger] self.keys@[p]) is Some
        &&& fdistinct(self.keys@, self.states@)
        &&& self.num_active == act_vals(self.values@, self.states@, self.states@.len() as int).len()
    }
    spec fn holds(&self, k: T) -> bool { fholds(self.keys@, self.states@, k) }
}
// what `update_with_count` does to the map while it has room (no resize, no purge): counter(item) += count
spec fn upd_exact<T>(m0: ReversePurgeItemHashMap<T>, m1: ReversePurgeItemHashMap<T>, item: T, count: u64) -> bool {
    &&& m1.lg_length == m0.lg_length
    &&& forall|k: T| m1.holds(k) == (m0.holds(k) || k == item)
    &&& forall|k: T| m1.val(k) == (if k == item { (m0.val(k) + count) as u64 } else { m0.val(k) })
    &&& m1.num_active == m0.num_active + (if m0.holds(item) { 0int } else { 1int })
}
spec fn focc_upto(st: Seq<u16>, n: int) -> Set<int> { Set::range(0, n).filter(|i: int| st[i] > 0) }
// the active values, listed in slot order, are as many as the occupied slots
proof fn lemma_act_focc(vs: Seq<u64>, st: Seq<u16>, n: int)
  requires 0 <= n <= st.len()
  ensures act_vals(vs, st, n).len() == focc_upto(st, n).len()
  decreases n
{
    if n == 0 { assert(focc_upto(st, 0) =~= Set::<int>::empty()); }
    else {
        lemma_act_focc(vs, st, n - 1);
        if st[n - 1] > 0 { assert(focc_upto(st, n) =~= focc_upto(st, n - 1).insert(n - 1)); assert(!focc_upto(st, n - 1).contains(n - 1)); }
        else { assert(focc_upto(st, n) =~= focc_upto(st, n - 1)); }
    }
}
proof fn lemma_mwf_of_wf<T>(m: ReversePurgeItemHashMap<T>)
  requires m.wf()
  ensures m.mwf()
{
    let st = m.states@;
    lemma_act_focc(m.values@, st, st.len() as int);
    assert(focc_upto(st, st.len() as int) =~= focc(st));
    assert forall|p: int| 0 <= p < st.len() && st[p] > 0 implies (#[trigger] m.keys@[p]) is Some by { assert(freach_at(m.keys@, st, p)); }
}
proof fn lemma_empty_map<T>(m: ReversePurgeItemHashMap<T>, lg: u8)
  requires m.wf(), 3 <= lg <= 40, m.states@.len() == pow2(lg as nat), forall|p: int| 0 <= p < m.states@.len() ==> m.states@[p] == 0,
  ensures m.msum() == 0, m.pos_vals(), runs_short(m.states@), m.lg_length == lg, forall|k: T| m.val(k) == 0,
{
    let st = m.states@;
    assert(focc(st) =~= Set::<int>::empty());
    assert(hkeys(m.keys@, st) =~= Set::<T>::empty());
    if m.lg_length < lg { lemma_pow2_strictly_increases(m.lg_length as nat, lg as nat); }
    if lg < m.lg_length { lemma_pow2_strictly_increases(lg as nat, m.lg_length as nat); }
    lemma_len_bound(lg);
    assert forall|idx: int| 0 <= idx < st.len() implies #[trigger] run_short_at(st, idx) by {
        let n = st.len() as int;
        vstd::arithmetic::div_mod::lemma_mod_bound(idx + 1 * 1, n);
        assert(st[dpos(idx, 1, n)] == 0);
    }
}
proof fn lemma_val_le_sum<T>(m: ReversePurgeItemHashMap<T>, k: T)
  requires m.wf(),
  ensures m.val(k) <= m.msum(),
{
    lemma_hkeys(m.keys@, m.states@);
    if fholds(m.keys@, m.states@, k) { lemma_ssum_remove(hkeys(m.keys@, m.states@), valf(m.keys@, m.values@, m.states@), k); }
}
// adjust_or_put_value: the sum grows by the amount; positive counters stay positive
proof fn lemma_put<T>(a: ReversePurgeItemHashMap<T>, b: ReversePurgeItemHashMap<T>, key: T, amt: u64)
  requires a.wf(), b.wf(), a.pos_vals(), amt > 0, a.val(key) + amt <= u64::MAX,
    forall|k2: T| b.val(k2) == (if k2 == key { (a.val(key) + amt) as u64 } else { a.val(k2) }),
    forall|k2: T| fholds(b.keys@, b.states@, k2) == (fholds(a.keys@, a.states@, k2) || k2 == key),
  ensures b.msum() == a.msum() + amt, b.pos_vals(),
{
    let ha = hkeys(a.keys@, a.states@); let hb = hkeys(b.keys@, b.states@);
    let fa = valf(a.keys@, a.values@, a.states@); let fb = valf(b.keys@, b.values@, b.states@);
    lemma_hkeys(a.keys@, a.states@); lemma_hkeys(b.keys@, b.states@);
    assert forall|k: T| #[trigger] fa(k) == a.val(k) as nat by {}
    assert forall|k: T| #[trigger] fb(k) == b.val(k) as nat by {}
    assert(fholds(b.keys@, b.states@, key));
    assert(hb =~= ha.insert(key));
    assert(fb(key) == fa(key) + amt);
    if ha.contains(key) {
        assert(ha.insert(key) =~= ha);
        lemma_ssum_remove(ha, fa, key);
        lemma_ssum_remove(ha, fb, key);
        lemma_ssum_eq(ha.remove(key), fa, fb);
        assert(ssum(hb, fb) == ssum(ha, fa) + amt);
    } else {
        assert(fa(key) == 0);
        lemma_ssum_insert(ha, fb, key);
        lemma_ssum_eq(ha, fa, fb);
        assert(ssum(hb, fb) == ssum(ha, fa) + amt);
    }
    assert forall|p: int| 0 <= p < b.states@.len() && b.states@[p] > 0 implies b.values@[p] > 0 by {
        assert(freach_at(b.keys@, b.states@, p));
        let k = b.keys@[p]->0;
        lemma_fidx(b.keys@, b.states@, k, p);
        assert(b.values@[p] == b.val(k));
        if k != key {
            let q = fidx(a.keys@, a.states@, k);
            assert(fholds(a.keys@, a.states@, k));
            assert(a.values@[q] > 0);
            assert(a.val(k) == a.values@[q]);
        }
    }
}
proof fn lemma_same_sum<T>(a: ReversePurgeItemHashMap<T>, b: ReversePurgeItemHashMap<T>)
  requires a.wf(), b.wf(), forall|k: T| b.val(k) == a.val(k), forall|k: T| fholds(b.keys@, b.states@, k) == fholds(a.keys@, a.states@, k),
  ensures b.msum() == a.msum(),
{
    lemma_hkeys(a.keys@, a.states@); lemma_hkeys(b.keys@, b.states@);
    assert forall|k: T| #[trigger] valf(a.keys@, a.values@, a.states@)(k) == a.val(k) as nat by {}
    assert forall|k: T| #[trigger] valf(b.keys@, b.values@, b.states@)(k) == b.val(k) as nat by {}
    assert(hkeys(a.keys@, a.states@) =~= hkeys(b.keys@, b.states@));
    lemma_ssum_eq(hkeys(a.keys@, a.states@), valf(a.keys@, a.values@, a.states@), valf(b.keys@, b.values@, b.states@));
}
// purge: the counters lose at least `med` in total
proof fn lemma_purge_sum<T>(a: ReversePurgeItemHashMap<T>, b: ReversePurgeItemHashMap<T>, med: u64)
  requires a.wf(), b.wf(),
    forall|k: T| b.val(k) == (if a.val(k) > med { (a.val(k) - med) as u64 } else { 0u64 }),
    forall|k: T| fholds(b.keys@, b.states@, k) == (a.val(k) > med),
    exists|k: T| fholds(a.keys@, a.states@, k) && #[trigger] a.val(k) >= med,
  ensures b.msum() + med <= a.msum(),
{
    let ha = hkeys(a.keys@, a.states@); let hb = hkeys(b.keys@, b.states@);
    let fa = valf(a.keys@, a.values@, a.states@); let fb = valf(b.keys@, b.values@, b.states@);
    lemma_hkeys(a.keys@, a.states@); lemma_hkeys(b.keys@, b.states@);
    assert forall|k: T| #[trigger] fa(k) == a.val(k) as nat by {}
    assert forall|k: T| #[trigger] fb(k) == b.val(k) as nat by {}
    let k0 = choose|k: T| fholds(a.keys@, a.states@, k) && #[trigger] a.val(k) >= med;
    assert forall|k: T| hb.contains(k) implies ha.contains(k) by { assert(a.val(k) > med); }
    lemma_ssum_remove(ha, fa, k0);
    if hb.contains(k0) {
        lemma_ssum_remove(hb, fb, k0);
        lemma_ssum_le(hb.remove(k0), ha.remove(k0), fb, fa);
    } else {
        lemma_ssum_le(hb, ha.remove(k0), fb, fa);
    }
}

proof fn lemma_push<T>(h: Seq<(T, u64)>, item: T, count: u64)
  ensures total(h.push((item, count))) == total(h) + count,
    forall|x: T| #[trigger] truth(h.push((item, count)), x) == truth(h, x) + (if x == item { count as nat } else { 0 }),
{
    assert(h.push((item, count)).drop_last() =~= h);
}
proof fn lemma_truth_le_total<T>(h: Seq<(T, u64)>, x: T)
  ensures truth(h, x) <= total(h)
  decreases h.len()
{ if h.len() > 0 { lemma_truth_le_total(h.drop_last(), x); } }
proof fn lemma_concat<T>(a: Seq<(T, u64)>, b: Seq<(T, u64)>)
  ensures total(a + b) == total(a) + total(b), forall|x: T| #[trigger] truth(a + b, x) == truth(a, x) + truth(b, x)
  decreases b.len()
{
    if b.len() == 0 { assert(a + b =~= a); }
    else {
        lemma_concat(a, b.drop_last());
        assert((a + b).drop_last() =~= a + b.drop_last());
        assert((a + b).last() == b.last());
        assert forall|x: T| #[trigger] truth(a + b, x) == truth(a, x) + truth(b, x) by {
            assert(truth(a + b, x) == truth((a + b).drop_last(), x) + (if (a + b).last().0 == x { (a + b).last().1 as nat } else { 0 }));
            assert(truth(b, x) == truth(b.drop_last(), x) + (if b.last().0 == x { b.last().1 as nat } else { 0 }));
        }
    }
}
proof fn lemma_shl(l: u8) requires l <= 40 ensures (1usize << l) == pow2(l as nat), pow2(l as nat) <= 0x100_0000_0000, pow2(l as nat) >= 1 {
    lemma2_to64(); lemma_pow2_pos(l as nat); lemma_pow2_adds(32, 8);
    if l < 40 { lemma_pow2_strictly_increases(l as nat, 40); }
    vstd::bits::lemma_usize_shl_is_mul(1, l as usize);
    assert((1usize << (l as usize)) == (1usize << l));
}
proof fn lemma_len_bound(l: u8) requires 3 <= l <= 40 ensures 8 <= pow2(l as nat) <= 0x100_0000_0000 {
    lemma2_to64(); lemma_pow2_adds(32, 8);
    if l < 40 { lemma_pow2_strictly_increases(l as nat, 40); } if l > 3 { lemma_pow2_strictly_increases(3, l as nat); }
}
proof fn lemma_room(l: u8) requires 3 <= l <= 40 ensures pow2(l as nat) * 3 / 4 + 1 < pow2(l as nat) { lemma_len_bound(l); }
proof fn lemma_resize_room(l: u8) requires 3 <= l < 40 ensures pow2(l as nat) * 3 / 4 + 1 <= pow2((l + 1) as nat) * 3 / 4, pow2((l + 1) as nat) == 2 * pow2(l as nat) { lemma_len_bound(l); lemma_pow2_unfold((l + 1) as nat); }
proof fn lemma_cap_mono(a: u8, b: u8) requires 3 <= a <= b <= 40 ensures cap_of(a) <= cap_of(b) {
    if a < b { lemma_pow2_strictly_increases(a as nat, b as nat); }
}
}
fn main(){}
