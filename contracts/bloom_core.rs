#![feature(allocator_api)]
use vstd::prelude::*;
use vstd::iset::*;
use std::hash::Hash;
use vstd::arithmetic::div_mod::*;
use std::cmp::Ordering;
use vstd::std_specs::cmp::*;
verus! {
global size_of usize == 8;

// ================= popcount: uninterpreted + three axioms (each one is a complete Kani leaf over u64 x u6) =================
pub uninterp spec fn pc64(w: u64) -> nat;
pub assume_specification [ u64::count_ones ] (w: u64) -> (r: u32) ensures r == pc64(w), r <= 64;
#[verifier::external_body] proof fn axiom_pc_zero() ensures pc64(0) == 0 {}
#[verifier::external_body] proof fn axiom_pc_set_bit(w: u64, b: u64) requires b < 64, w & (1u64 << b) == 0 ensures pc64(w | (1u64 << b)) == pc64(w) + 1 {}
#[verifier::external_body] proof fn axiom_pc_not(w: u64) ensures pc64(!w) == 64 - pc64(w), pc64(w) <= 64 {}

// `<[T]>::fill` (std leaf): every element becomes a clone of `value`; for the integer instance used here clone is the identity
pub assume_specification<T: Clone> [ <[T]>::fill ] (s: &mut [T], value: T)
  ensures final(s)@.len() == old(s)@.len(), forall|i: int| 0 <= i < old(s)@.len() ==> cloned::<T>(value, #[trigger] final(s)@[i]);

// ================= abstract view =================
spec fn total_pc(ws: Seq<u64>) -> nat decreases ws.len() { if ws.len() == 0 { 0 } else { total_pc(ws.drop_last()) + pc64(ws.last()) } }
spec fn bit_at(ws: Seq<u64>, i: int) -> bool { (ws[i / 64] >> ((i % 64) as u64)) & 1 == 1 }
// the set of bit indices that are 1
spec fn cap_of(ws: Seq<u64>) -> int { (ws.len() * 64) as int }
spec fn bits(ws: Seq<u64>) -> ISet<int> { ISet::new(|i: int| 0 <= i < ws.len() * 64 && bit_at(ws, i)) }

// reference position of the property text: ((h0 + i*h1) >> 1) mod capacity, the sum taken modulo 2^64
spec fn pos(h0: u64, h1: u64, i: int, cap: int) -> int {
    (((h0 as int + i * (h1 as int)) % 0x1_0000_0000_0000_0000) / 2) % cap
}
// the positions of hash functions 1..=k
spec fn positions(h0: u64, h1: u64, k: int, cap: int) -> ISet<int> {
    ISet::new(|p: int| exists|i: int| 1 <= i <= k && p == #[trigger] pos(h0, h1, i, cap))
}
spec fn all_present(ws: Seq<u64>, h0: u64, h1: u64, k: int) -> bool {
    forall|i: int| 1 <= i <= k ==> bits(ws).contains(#[trigger] pos(h0, h1, i, cap_of(ws)))
}
// the two base hashes of an item (XXH64(item, seed), XXH64(item, h0)); the hashing itself is outside this unit
pub uninterp spec fn hash_pair<T>(seed: u64, item: T) -> (u64, u64);

proof fn lemma_total_update(ws: Seq<u64>, k: int, w: u64)
  requires 0 <= k < ws.len()
  ensures total_pc(ws.update(k, w)) == total_pc(ws) - pc64(ws[k]) + pc64(w)
  decreases ws.len()
{
    let n = ws.len() - 1;
    if k == n {
        assert(ws.update(k, w).drop_last() =~= ws.drop_last());
    } else {
        assert(ws.update(k, w).drop_last() =~= ws.drop_last().update(k, w));
        lemma_total_update(ws.drop_last(), k, w);
    }
}
proof fn lemma_total_le(ws: Seq<u64>)
  ensures total_pc(ws) <= 64 * ws.len()
  decreases ws.len()
{
    if ws.len() > 0 { lemma_total_le(ws.drop_last()); axiom_pc_not(ws.last()); }
}
proof fn lemma_total_not(ws0: Seq<u64>, ws1: Seq<u64>)
  requires ws0.len() == ws1.len(), forall|k: int| 0 <= k < ws0.len() ==> ws1[k] == !ws0[k]
  ensures total_pc(ws1) == 64 * ws0.len() - total_pc(ws0)
  decreases ws0.len()
{
    if ws0.len() > 0 {
        lemma_total_not(ws0.drop_last(), ws1.drop_last());
        axiom_pc_not(ws0.last());
        lemma_total_le(ws0.drop_last());
    }
}
proof fn lemma_total_take_step(ws: Seq<u64>, n: int)
  requires 0 <= n < ws.len()
  ensures total_pc(ws.take(n + 1)) == total_pc(ws.take(n)) + pc64(ws[n])
{
    assert(ws.take(n + 1).drop_last() =~= ws.take(n));
}
proof fn lemma_total_zero(ws: Seq<u64>)
  requires forall|k: int| 0 <= k < ws.len() ==> ws[k] == 0
  ensures total_pc(ws) == 0
  decreases ws.len()
{
    if ws.len() > 0 { lemma_total_zero(ws.drop_last()); axiom_pc_zero(); }
}
proof fn lemma_take_all(ws: Seq<u64>)
  ensures ws.take(ws.len() as int) == ws
{
    assert(ws.take(ws.len() as int) =~= ws);
}
// one step of the recount loops of union / intersect: word n has just been rewritten
proof fn lemma_recount_step(before: Seq<u64>, after: Seq<u64>, n: int)
  requires 0 <= n < before.len(), after.len() == before.len(), forall|k: int| 0 <= k < before.len() && k != n ==> after[k] == before[k]
  ensures total_pc(after.take(n + 1)) == total_pc(before.take(n)) + pc64(after[n]), pc64(after[n]) <= 64, total_pc(before.take(n)) <= 64 * n
{
    assert(after.take(n) =~= before.take(n));
    lemma_total_take_step(after, n);
    axiom_pc_not(after[n]);
    lemma_total_le(before.take(n));
}
proof fn lemma_bits_or(a: Seq<u64>, b: Seq<u64>, r: Seq<u64>)
  requires a.len() == b.len(), r.len() == a.len(), forall|k: int| 0 <= k < a.len() ==> r[k] == a[k] | b[k]
  ensures bits(r) =~= bits(a).union(bits(b))
{
    assert forall|i: int| bits(r).contains(i) <==> (bits(a).contains(i) || bits(b).contains(i)) by {
        if 0 <= i < a.len() * 64 {
            let x = a[i / 64]; let y = b[i / 64]; let c = (i % 64) as u64;
            assert(c < 64 ==> ((((x | y) >> c) & 1 == 1) <==> (((x >> c) & 1 == 1) || ((y >> c) & 1 == 1)))) by (bit_vector);
        }
    }
}
proof fn lemma_bits_and(a: Seq<u64>, b: Seq<u64>, r: Seq<u64>)
  requires a.len() == b.len(), r.len() == a.len(), forall|k: int| 0 <= k < a.len() ==> r[k] == a[k] & b[k]
  ensures bits(r) =~= bits(a).intersect(bits(b))
{
    assert forall|i: int| bits(r).contains(i) <==> (bits(a).contains(i) && bits(b).contains(i)) by {
        if 0 <= i < a.len() * 64 {
            let x = a[i / 64]; let y = b[i / 64]; let c = (i % 64) as u64;
            assert(c < 64 ==> ((((x & y) >> c) & 1 == 1) <==> (((x >> c) & 1 == 1) && ((y >> c) & 1 == 1)))) by (bit_vector);
        }
    }
}
proof fn lemma_bits_not(a: Seq<u64>, r: Seq<u64>)
  requires r.len() == a.len(), forall|k: int| 0 <= k < a.len() ==> r[k] == !a[k]
  ensures bits(r) =~= ISet::new(|i: int| 0 <= i < cap_of(a) && !bits(a).contains(i))
{
    assert forall|i: int| bits(r).contains(i) <==> (0 <= i < cap_of(a) && !bits(a).contains(i)) by {
        if 0 <= i < a.len() * 64 {
            let w = a[i / 64]; let c = (i % 64) as u64;
            assert(c < 64 ==> ((((!w) >> c) & 1 == 1) <==> !((w >> c) & 1 == 1))) by (bit_vector);
        }
    }
}
// a word with some bit set has a positive popcount (from the set-bit axiom)
proof fn lemma_pc_pos(w: u64, b: u64)
  requires b < 64, (w >> b) & 1 == 1
  ensures pc64(w) >= 1
{
    let w1 = w & !(1u64 << b);
    assert(b < 64 ==> (w & !(1u64 << b)) & (1u64 << b) == 0) by (bit_vector);
    assert(b < 64 && (w >> b) & 1 == 1 ==> (w & !(1u64 << b)) | (1u64 << b) == w) by (bit_vector);
    axiom_pc_set_bit(w1, b);
}
// total popcount 0  ==>  no bit is set
proof fn lemma_total_zero_empty(ws: Seq<u64>, i: int)
  requires total_pc(ws) == 0, 0 <= i < ws.len() * 64
  ensures !bit_at(ws, i)
  decreases ws.len()
{
    if i / 64 == ws.len() - 1 {
        if bit_at(ws, i) { lemma_pc_pos(ws.last(), (i % 64) as u64); }
    } else {
        lemma_total_zero_empty(ws.drop_last(), i);
    }
}
// the code's wrapping arithmetic is the reference position
proof fn lemma_pos(h0: u64, h1: u64, i: u16, cap: usize)
  requires cap > 0
  ensures ((h0.wrapping_add((i as u64).wrapping_mul(h1)) as usize) >> 1) % cap == pos(h0, h1, i as int, cap as int)
{
    let m = 0x1_0000_0000_0000_0000int;
    let p = (i as u64).wrapping_mul(h1);
    let s = h0.wrapping_add(p);
    assert(p as int == ((i as int) * (h1 as int)) % m);
    assert(s as int == (h0 as int + p as int) % m);
    lemma_add_mod_noop(h0 as int, (i as int) * (h1 as int), m);
    lemma_small_mod(h0 as nat, m as nat);
    lemma_add_mod_noop(h0 as int, p as int, m);
    lemma_mod_twice((i as int) * (h1 as int), m);
    let u = s as usize;
    assert(u >> 1 == u / 2) by (bit_vector);
}
proof fn lemma_positions_step(h0: u64, h1: u64, k: int, cap: int)
  requires k >= 1
  ensures positions(h0, h1, k, cap) =~= positions(h0, h1, k - 1, cap).insert(pos(h0, h1, k, cap))
{
    assert forall|p: int| positions(h0, h1, k, cap).contains(p) implies positions(h0, h1, k - 1, cap).insert(pos(h0, h1, k, cap)).contains(p) by {
        let i = choose|i: int| 1 <= i <= k && p == #[trigger] pos(h0, h1, i, cap);
        if i < k { assert(1 <= i <= k - 1 && p == pos(h0, h1, i, cap)); }
    }
    assert forall|p: int| positions(h0, h1, k - 1, cap).insert(pos(h0, h1, k, cap)).contains(p) implies positions(h0, h1, k, cap).contains(p) by {
        if p == pos(h0, h1, k, cap) { assert(1 <= k <= k && p == pos(h0, h1, k, cap)); }
        else {
            let i = choose|i: int| 1 <= i <= k - 1 && p == #[trigger] pos(h0, h1, i, cap);
            assert(1 <= i <= k && p == pos(h0, h1, i, cap));
        }
    }
}
proof fn lemma_pos_range(h0: u64, h1: u64, i: int, cap: int)
  requires cap > 0
  ensures 0 <= pos(h0, h1, i, cap) < cap
{
    lemma_mod_bound(((h0 as int + i * (h1 as int)) % 0x1_0000_0000_0000_0000) / 2, cap);
}
// C09 history facts over the view: what set_bits adds is found by check_bits, and stays found while bits only grow
proof fn lemma_c09_no_false_negative(ws1: Seq<u64>, ws2: Seq<u64>, h0: u64, h1: u64, k: int)
  requires ws1.len() == ws2.len(), positions(h0, h1, k, cap_of(ws1)).subset_of(bits(ws1)), bits(ws1).subset_of(bits(ws2))
  ensures /*@C09.no_false_negative*/ all_present(ws2, h0, h1, k)
{
    assert forall|i: int| 1 <= i <= k implies bits(ws2).contains(#[trigger] pos(h0, h1, i, cap_of(ws2))) by {
        assert(positions(h0, h1, k, cap_of(ws1)).contains(pos(h0, h1, i, cap_of(ws1))));
    }
}
proof fn lemma_c09_intersect_survives(a: Seq<u64>, b: Seq<u64>, r: Seq<u64>, h0: u64, h1: u64, k: int)
  requires a.len() == b.len(), b.len() == r.len(), all_present(a, h0, h1, k), all_present(b, h0, h1, k), bits(r) == bits(a).intersect(bits(b))
  ensures /*@C09.in_both_survives_intersect*/ all_present(r, h0, h1, k)
{
    assert forall|i: int| 1 <= i <= k implies bits(r).contains(#[trigger] pos(h0, h1, i, cap_of(r))) by {
        assert(bits(a).contains(pos(h0, h1, i, cap_of(a))) && bits(b).contains(pos(h0, h1, i, cap_of(b))));
    }
}

struct BloomFilter {
seed : u64 , num_hashes : u16 , num_bits_set : u64 , bit_array : Box < [ u64 ] > , }



impl BloomFilter {
    spec fn wf(&self) -> bool {
        &&& 1 <= self.bit_array@.len() <= 0x7fff_ffff
        &&& self.num_hashes >= 1
        &&& self.num_bits_set == total_pc(self.bit_array@)
    }
    spec fn view(&self) -> ISet<int> { bits(self.bit_array@) }
    spec fn cap(&self) -> int { cap_of(self.bit_array@) }
    // configuration (seed, number of hashes, array length) is the same
    spec fn same_config(&self, o: &BloomFilter) -> bool {
        self.seed == o.seed && self.num_hashes == o.num_hashes && self.bit_array@.len() == o.bit_array@.len()
    }

    #[verifier::external_body]
    fn compute_hash<T: Hash>(&self, item: &T) -> (r: (u64, u64))
      ensures r == hash_pair(self.seed, *item)
    { unimplemented!() }

    fn contains < T : Hash > ( & self , item : & T ) -> ( r : bool ) requires self . wf ( ) ensures
/*@C09.contains*/ r <==> all_present ( self . bit_array @ , hash_pair ( self . seed , * item ) . 0 , hash_pair ( self . seed , * item ) . 1 , self . num_hashes as int ) {
proof {
if self . num_bits_set == 0 {
let ( a , b ) = hash_pair ( self . seed , * item ) ;
lemma_pos_range ( a , b , 1 , self . cap ( ) ) ;
lemma_total_zero_empty ( self . bit_array @ , pos ( a , b , 1 , self . cap ( ) ) ) ;
}
}
if self . is_empty ( ) {
return false ;
}
let ( h0 , h1 ) = self . compute_hash ( item ) ;
self . check_bits ( h0 , h1 ) }



    fn contains_and_insert < T : Hash > ( & mut self , item : & T ) -> ( r : bool ) requires old ( self ) . wf ( ) ensures final ( self ) . wf ( ) ,
/*@C18.bloom_size*/ final ( self ) . same_config ( old ( self ) ) ,
/*@C09.contains_and_insert_result*/ r <==> all_present ( old ( self ) . bit_array @ , hash_pair ( old ( self ) . seed , * item ) . 0 , hash_pair ( old ( self ) . seed , * item ) . 1 , old ( self ) . num_hashes as int ) ,
/*@C09.contains_and_insert_bits*/ final ( self ) @ == old ( self ) @ . union ( positions ( hash_pair ( old ( self ) . seed , * item ) . 0 , hash_pair ( old ( self ) . seed , * item ) . 1 , old ( self ) . num_hashes as int , old ( self ) . cap ( ) ) ) , {
let ( h0 , h1 ) = self . compute_hash ( item ) ;
let was_present = self . check_bits ( h0 , h1 ) ;
self . set_bits ( h0 , h1 ) ;
was_present }



    fn insert < T : Hash > ( & mut self , item : T ) requires old ( self ) . wf ( ) ensures final ( self ) . wf ( ) ,
/*@C18.bloom_size*/ final ( self ) . same_config ( old ( self ) ) ,
/*@C09.insert_bits*/ final ( self ) @ == old ( self ) @ . union ( positions ( hash_pair ( old ( self ) . seed , item ) . 0 , hash_pair ( old ( self ) . seed , item ) . 1 , old ( self ) . num_hashes as int , old ( self ) . cap ( ) ) ) ,
/*@C09.insert_count*/ final ( self ) . num_bits_set == total_pc ( final ( self ) . bit_array @ ) ,
/*@C09.insert_then_contains*/ all_present ( final ( self ) . bit_array @ , hash_pair ( old ( self ) . seed , item ) . 0 , hash_pair ( old ( self ) . seed , item ) . 1 , old ( self ) . num_hashes as int ) , {
let ( h0 , h1 ) = self . compute_hash ( & item ) ;
self . set_bits ( h0 , h1 ) ;
proof {
assert forall | i : int | 1 <= i <= self . num_hashes implies self @ . contains ( # [ trigger ] pos ( h0 , h1 , i , self . cap ( ) ) ) by {
assert ( positions ( h0 , h1 , self . num_hashes as int , self . cap ( ) ) . contains ( pos ( h0 , h1 , i , self . cap ( ) ) ) ) ;
}
}
}



    fn reset ( & mut self ) requires old ( self ) . wf ( ) ensures final ( self ) . wf ( ) ,
/*@C18.bloom_size*/ final ( self ) . same_config ( old ( self ) ) ,
/*@C09.reset_bits*/ final ( self ) @ == ISet :: < int > :: empty ( ) ,
/*@C09.reset_count*/ final ( self ) . num_bits_set == total_pc ( final ( self ) . bit_array @ ) , final ( self ) . num_bits_set == 0 , {
proof {
assert forall | ws : Seq < u64 > | ( forall | k : int | 0 <= k < ws . len ( ) ==> ws [ k ] == 0 ) implies # [ trigger ] total_pc ( ws ) == 0 by {
lemma_total_zero ( ws ) ;
}
assert forall | ws : Seq < u64 > | ( forall | k : int | 0 <= k < ws . len ( ) ==> ws [ k ] == 0 ) implies # [ trigger ] bits ( ws ) == ISet :: < int > :: empty ( ) by {
assert forall | i : int | ! bits ( ws ) . contains ( i ) by {
if 0 <= i < ws . len ( ) * 64 {
let c = ( i % 64 ) as u64 ;
assert ( ( 0u64 >> c ) & 1 == 0 ) by ( bit_vector ) ;
}
}
assert ( bits ( ws ) =~= ISet :: < int > :: empty ( ) ) ;
}
}
self . bit_array . fill ( 0 ) ;
self . num_bits_set = 0 }



    fn union ( & mut self , other : & BloomFilter ) requires old ( self ) . wf ( ) , other . wf ( ) ensures final ( self ) . wf ( ) ,
/*@C09.union_compatible_validated*/ old ( self ) . same_config ( other ) ,
/*@C18.bloom_size*/ final ( self ) . same_config ( old ( self ) ) ,
/*@C09.union_bits*/ final ( self ) @ == old ( self ) @ . union ( other @ ) ,
/*@C09.union_count*/ final ( self ) . num_bits_set == total_pc ( final ( self ) . bit_array @ ) , {
vx_documented_panic ( self . is_compatible ( other ) ) ;
let mut num_bits_set = 0 ;
let ghost ws0 = self . bit_array @ ;
let ghost wo = other . bit_array @ ;
let mut vx_i1 = 0 ;
while vx_i1 < self . bit_array . len ( ) invariant vx_i1 <= ws0 . len ( ) , self . bit_array @ . len ( ) == ws0 . len ( ) , wo . len ( ) == ws0 . len ( ) , ws0 . len ( ) <= 0x7fff_ffff , wo == other . bit_array @ , self . seed == old ( self ) . seed , self . num_hashes == old ( self ) . num_hashes , ws0 == old ( self ) . bit_array @ , forall | k : int | 0 <= k < vx_i1 ==> self . bit_array @ [ k ] == ws0 [ k ] | wo [ k ] , forall | k : int | vx_i1 <= k < ws0 . len ( ) ==> self . bit_array @ [ k ] == ws0 [ k ] ,
/*@C09.union_count*/ num_bits_set == total_pc ( self . bit_array @ . take ( vx_i1 as int ) ) , num_bits_set <= 64 * vx_i1 , decreases ws0 . len ( ) - vx_i1 {
let ghost before = self . bit_array @ ;
let word = & mut self . bit_array [ vx_i1 ] ;
let other_word = & other . bit_array [ vx_i1 ] ;
proof {
lemma_recount_step ( before , before . update ( vx_i1 as int , before [ vx_i1 as int ] | wo [ vx_i1 as int ] ) , vx_i1 as int ) ;
}
* word |= * other_word ;
num_bits_set += word . count_ones ( ) as u64 ;
proof {
assert ( self . bit_array @ =~= before . update ( vx_i1 as int , before [ vx_i1 as int ] | wo [ vx_i1 as int ] ) ) ;
}
vx_i1 += 1 ;
}
self . num_bits_set = num_bits_set ;
proof {
lemma_take_all ( self . bit_array @ ) ;
lemma_bits_or ( ws0 , wo , self . bit_array @ ) ;
}
}



    fn intersect ( & mut self , other : & BloomFilter ) requires old ( self ) . wf ( ) , other . wf ( ) ensures final ( self ) . wf ( ) ,
/*@C09.intersect_compatible_validated*/ old ( self ) . same_config ( other ) ,
/*@C18.bloom_size*/ final ( self ) . same_config ( old ( self ) ) ,
/*@C09.intersect_bits*/ final ( self ) @ == old ( self ) @ . intersect ( other @ ) ,
/*@C09.intersect_count*/ final ( self ) . num_bits_set == total_pc ( final ( self ) . bit_array @ ) , {
vx_documented_panic ( self . is_compatible ( other ) ) ;
let mut num_bits_set = 0 ;
let ghost ws0 = self . bit_array @ ;
let ghost wo = other . bit_array @ ;
let mut vx_i1 = 0 ;
while vx_i1 < self . bit_array . len ( ) invariant vx_i1 <= ws0 . len ( ) , self . bit_array @ . len ( ) == ws0 . len ( ) , wo . len ( ) == ws0 . len ( ) , ws0 . len ( ) <= 0x7fff_ffff , wo == other . bit_array @ , self . seed == old ( self ) . seed , self . num_hashes == old ( self ) . num_hashes , ws0 == old ( self ) . bit_array @ , forall | k : int | 0 <= k < vx_i1 ==> self . bit_array @ [ k ] == ws0 [ k ] & wo [ k ] , forall | k : int | vx_i1 <= k < ws0 . len ( ) ==> self . bit_array @ [ k ] == ws0 [ k ] ,
/*@C09.intersect_count*/ num_bits_set == total_pc ( self . bit_array @ . take ( vx_i1 as int ) ) , num_bits_set <= 64 * vx_i1 , decreases ws0 . len ( ) - vx_i1 {
let ghost before = self . bit_array @ ;
let word = & mut self . bit_array [ vx_i1 ] ;
let other_word = & other . bit_array [ vx_i1 ] ;
proof {
lemma_recount_step ( before , before . update ( vx_i1 as int , before [ vx_i1 as int ] & wo [ vx_i1 as int ] ) , vx_i1 as int ) ;
}
* word &= * other_word ;
num_bits_set += word . count_ones ( ) as u64 ;
proof {
assert ( self . bit_array @ =~= before . update ( vx_i1 as int , before [ vx_i1 as int ] & wo [ vx_i1 as int ] ) ) ;
}
vx_i1 += 1 ;
}
self . num_bits_set = num_bits_set ;
proof {
lemma_take_all ( self . bit_array @ ) ;
lemma_bits_and ( ws0 , wo , self . bit_array @ ) ;
}
}



    fn invert ( & mut self ) requires old ( self ) . wf ( ) ensures final ( self ) . wf ( ) ,
/*@C18.bloom_size*/ final ( self ) . same_config ( old ( self ) ) ,
/*@C09.invert_bits*/ final ( self ) @ == ISet :: new ( | i : int | 0 <= i < old ( self ) . cap ( ) && ! old ( self ) @ . contains ( i ) ) ,
/*@C09.invert_count*/ final ( self ) . num_bits_set == total_pc ( final ( self ) . bit_array @ ) , {
let ghost ws0 = self . bit_array @ ;
proof {
lemma_total_le ( ws0 ) ;
}
let mut vx_i1 = 0 ;
while vx_i1 < self . bit_array . len ( ) invariant vx_i1 <= ws0 . len ( ) , self . bit_array @ . len ( ) == ws0 . len ( ) , old ( self ) . wf ( ) , ws0 == old ( self ) . bit_array @ , self . num_bits_set == old ( self ) . num_bits_set , self . seed == old ( self ) . seed , self . num_hashes == old ( self ) . num_hashes , forall | k : int | 0 <= k < vx_i1 ==> self . bit_array @ [ k ] == ! ws0 [ k ] , forall | k : int | vx_i1 <= k < ws0 . len ( ) ==> self . bit_array @ [ k ] == ws0 [ k ] , decreases ws0 . len ( ) - vx_i1 {
let word = & mut self . bit_array [ vx_i1 ] ;
* word = ! * word ;
vx_i1 += 1 ;
}
proof {
lemma_total_not ( ws0 , self . bit_array @ ) ;
}
self . num_bits_set = self . capacity ( ) as u64 - self . num_bits_set ;
proof {
lemma_bits_not ( ws0 , self . bit_array @ ) ;
}
}



    fn is_empty ( & self ) -> ( r : bool ) ensures r == ( self . num_bits_set == 0 ) {
self . num_bits_set == 0 }




    fn bits_used ( & self ) -> ( r : u64 ) ensures
/*@C09.bits_used*/ r == self . num_bits_set , self . wf ( ) ==> r == total_pc ( self . bit_array @ ) {
self . num_bits_set }


    fn num_hashes ( & self ) -> ( r : u16 ) ensures
/*@C09.num_hashes_getter*/ r == self . num_hashes {
self . num_hashes }


    fn seed ( & self ) -> ( r : u64 ) ensures
/*@C09.seed_getter*/ r == self . seed {
self . seed }


    fn capacity ( & self ) -> ( r : usize ) requires self . bit_array @ . len ( ) <= 0x7fff_ffff ensures
/*@C18.bloom_size*/ r == self . bit_array @ . len ( ) * 64 {
self . bit_array . len ( ) * 64 }



    fn is_compatible ( & self , other : & Self ) -> ( r : bool ) ensures
/*@C09.compatible*/ r == self . same_config ( other ) {
self . bit_array . len ( ) == other . bit_array . len ( ) && self . num_hashes == other . num_hashes && self . seed == other . seed }



    fn check_bits ( & self , h0 : u64 , h1 : u64 ) -> ( r : bool ) requires self . wf ( ) ensures
/*@C09.check_bits*/ r <==> all_present ( self . bit_array @ , h0 , h1 , self . num_hashes as int ) {
for i in 1 ..= self . num_hashes invariant self . wf ( ) ,
/*@C09.check_bits*/ all_present ( self . bit_array @ , h0 , h1 , VERUS_ghost_iter . index @ ) {
let bit_index = self . compute_bit_index ( h0 , h1 , i ) ;
if ! self . get_bit ( bit_index ) {
proof {
assert ( ! bits ( self . bit_array @ ) . contains ( pos ( h0 , h1 , i as int , cap_of ( self . bit_array @ ) ) ) ) ;
}
return false ;
}
}
true }



    fn set_bits ( & mut self , h0 : u64 , h1 : u64 ) requires old ( self ) . wf ( ) ensures final ( self ) . wf ( ) ,
/*@C18.bloom_size*/ final ( self ) . same_config ( old ( self ) ) ,
/*@C09.set_bits_exact*/ final ( self ) @ == old ( self ) @ . union ( positions ( h0 , h1 , old ( self ) . num_hashes as int , old ( self ) . cap ( ) ) ) ,
/*@C09.set_bits_count*/ final ( self ) . num_bits_set == total_pc ( final ( self ) . bit_array @ ) , {
for i in 1 ..= self . num_hashes invariant self . wf ( ) , self . same_config ( old ( self ) ) ,
/*@C09.set_bits_exact*/ self @ =~= old ( self ) @ . union ( positions ( h0 , h1 , VERUS_ghost_iter . index @ , old ( self ) . cap ( ) ) ) , {
let bit_index = self . compute_bit_index ( h0 , h1 , i ) ;
self . set_bit ( bit_index ) ;
proof {
lemma_positions_step ( h0 , h1 , i as int , old ( self ) . cap ( ) ) ;
}
}
}



    fn compute_bit_index ( & self , h0 : u64 , h1 : u64 , i : u16 ) -> ( r : usize ) requires 1 <= self . bit_array @ . len ( ) <= 0x7fff_ffff ensures
/*@C09.position_formula*/ r == pos ( h0 , h1 , i as int , self . cap ( ) ) , r < self . bit_array @ . len ( ) * 64 {
let hash = h0 . wrapping_add ( u64 :: from ( i ) . wrapping_mul ( h1 ) ) as usize ;
proof {
lemma_pos ( h0 , h1 , i , ( self . bit_array @ . len ( ) * 64 ) as usize ) ;
lemma_pos_range ( h0 , h1 , i as int , self . cap ( ) ) ;
}
( hash >> 1 ) % self . capacity ( ) }



    /// Gets the value of a single bit.
    fn get_bit ( & self , bit_index : usize ) -> ( r : bool ) requires self . bit_array @ . len ( ) <= 0x7fff_ffff , bit_index < self . bit_array @ . len ( ) * 64 ensures
/*@C09.get_bit*/ r == bits ( self . bit_array @ ) . contains ( bit_index as int ) {
let word_index = bit_index >> 6 ;
let bit_offset = bit_index & 63 ;
proof {
assert ( bit_index >> 6 == bit_index / 64 ) by ( bit_vector ) ;
assert ( bit_index & 63 == bit_index % 64 ) by ( bit_vector ) ;
}
let mask = 1u64 << bit_offset ;
proof {
let w = self . bit_array @ [ word_index as int ] ;
let b = bit_offset as u64 ;
assert ( b < 64 ==> ( ( w & ( 1u64 << b ) ) != 0 <==> ( ( w >> b ) & 1 == 1 ) ) ) by ( bit_vector ) ;
assert ( w & ( 1u64 << b ) == ( 1u64 << b ) & w ) by ( bit_vector ) ;
}
( self . bit_array [ word_index ] & mask ) != 0 }



    /// Sets a single bit and updates the count if it wasn't already set.
    fn set_bit ( & mut self , bit_index : usize ) requires old ( self ) . wf ( ) , bit_index < old ( self ) . bit_array @ . len ( ) * 64 ensures final ( self ) . wf ( ) ,
/*@C18.bloom_size*/ final ( self ) . same_config ( old ( self ) ) ,
/*@C09.set_bit*/ bits ( final ( self ) . bit_array @ ) == bits ( old ( self ) . bit_array @ ) . insert ( bit_index as int ) ,
/*@C09.set_bit_count*/ final ( self ) . num_bits_set == total_pc ( final ( self ) . bit_array @ ) , {
let word_index = bit_index >> 6 ;
let bit_offset = bit_index & 63 ;
proof {
assert ( bit_index >> 6 == bit_index / 64 ) by ( bit_vector ) ;
assert ( bit_index & 63 == bit_index % 64 ) by ( bit_vector ) ;
}
let ghost ws0 = self . bit_array @ ;
let ghost gw = ( bit_index / 64 ) as int ;
let ghost w0 = ws0 [ gw ] ;
let ghost b = ( bit_index % 64 ) as u64 ;
let ghost gm = 1u64 << b ;
proof {
assert ( w0 & ( 1u64 << b ) == ( 1u64 << b ) & w0 && w0 | ( 1u64 << b ) == ( 1u64 << b ) | w0 ) by ( bit_vector ) ;
if ( w0 & gm ) == 0 {
axiom_pc_set_bit ( w0 , b ) ;
lemma_total_update ( ws0 , gw , w0 | gm ) ;
lemma_total_le ( ws0 ) ;
}
}
let mask = 1u64 << bit_offset ;
if ( self . bit_array [ word_index ] & mask ) == 0 {
self . bit_array [ word_index ] |= mask ;
self . num_bits_set += 1 ;
}
proof {
let ws1 = self . bit_array @ ;
if ( w0 & gm ) != 0 {
assert ( b < 64 && ( w0 & ( 1u64 << b ) ) != 0 ==> ( w0 | ( 1u64 << b ) ) == w0 ) by ( bit_vector ) ;
}
assert ( ws1 =~= ws0 . update ( gw , w0 | gm ) ) ;
assert forall | i : int | bits ( ws1 ) . contains ( i ) <==> bits ( ws0 ) . insert ( bit_index as int ) . contains ( i ) by {
if 0 <= i < ws0 . len ( ) * 64 {
if i / 64 == gw {
let c = ( i % 64 ) as u64 ;
assert ( b < 64 && c < 64 ==> ( ( ( ( w0 | ( 1u64 << b ) ) >> c ) & 1 == 1 ) <==> ( ( ( w0 >> c ) & 1 == 1 ) || c == b ) ) ) by ( bit_vector ) ;
if c == b {
assert ( i == bit_index ) ;
}
}
}
}
assert ( bits ( ws1 ) =~= bits ( ws0 ) . insert ( bit_index as int ) ) ;
}
}


}

// =====================================================================================================================
// bloom/builder.rs: integer part of the construction path (C18 sizing, C09 initial state)
// =====================================================================================================================
struct Family {
id : u8 , name : & 'static str , min_pre_longs : u8 , max_pre_longs : u8 , }

impl Family {
    const BLOOMFILTER : Family = Family {
id : 21 , name : "BLOOMFILTER" , min_pre_longs : 3 , max_pre_longs : 4 , }
;

}
const DEFAULT_UPDATE_SEED : u64 = 9001 ;

const MIN_NUM_BITS : u64 = 1 ;

const MAX_NUM_BITS : u64 = ( i32 :: MAX as u64 - Family :: BLOOMFILTER . max_pre_longs as u64 ) * 64 ;

const MIN_NUM_HASHES : u16 = 1 ;

const MAX_NUM_HASHES : u16 = i16 :: MAX as u16 ;


struct BloomFilterBuilder {
num_bits : u64 , num_hashes : u16 , seed : u64 , }


pub assume_specification<T, A: std::alloc::Allocator> [ Vec::<T, A>::into_boxed_slice ] (v: Vec<T, A>) -> (r: Box<[T], A>)
  ensures r@ == v@;
pub assume_specification [ u64::div_ceil ] (a: u64, b: u64) -> (r: u64)
  requires b != 0
  ensures r == (a + b - 1) / (b as int);

// f64 comparison operators are functions of their operands (floats stay uninterpreted)
#[verifier::external_body] proof fn axiom_f64_cmp_deterministic() ensures <f64 as PartialOrdSpec>::obeys_partial_cmp_spec() {}
// the documented argument range of with_accuracy: fpp in (0.0, 1.0]
spec fn fpp_in_range(fpp: f64) -> bool {
    fpp.partial_cmp_spec(&0.0f64) == Some(Ordering::Greater) && (fpp.partial_cmp_spec(&1.0f64) == Some(Ordering::Less) || fpp.partial_cmp_spec(&1.0f64) == Some(Ordering::Equal))
}
// float leaves: the suggested sizes are formulas over f64 (ln, ceil, clamp); ASSUMED: only that the final `clamp` keeps the result
// inside the documented bounds (the formulas themselves are not under contract)
#[verifier::external_body]
fn suggest_num_bits(max_items: u64, fpp: f64) -> (r: u64)
  ensures MIN_NUM_BITS <= r <= MAX_NUM_BITS
{ unimplemented!() }
#[verifier::external_body]
fn suggest_num_hashes_from_accuracy(max_items: u64, num_bits: u64) -> (r: u16)
  ensures MIN_NUM_HASHES <= r <= MAX_NUM_HASHES
{ unimplemented!() }

// R12b: a DOCUMENTED panic (argument / partner validation promised by the API docs) is modelled as 'returns only if the condition holds':
// the condition becomes a tagged POSTCONDITION (`*_validated`) instead of a precondition, so weakening or removing the check is noticed.
// The body is the original statement.
#[verifier::external_body] fn vx_documented_panic(c: bool) ensures c { assert!(c); }

impl BloomFilterBuilder {
    // the documented argument ranges of with_size; with_accuracy produces them through the clamps
    spec fn wf(&self) -> bool {
        &&& MIN_NUM_BITS <= self.num_bits <= MAX_NUM_BITS
        &&& MIN_NUM_HASHES <= self.num_hashes <= MAX_NUM_HASHES
    }

    fn with_accuracy ( max_items : u64 , fpp : f64 ) -> ( r : Self ) ensures
/*@C18.bloom_with_accuracy_validated*/ max_items > 0 && fpp_in_range ( fpp ) ,
/*@C18.bloom_builder_ranges*/ r . wf ( ) , r . seed == DEFAULT_UPDATE_SEED {
vx_documented_panic ( max_items > 0 ) ;
proof {
axiom_f64_cmp_deterministic ( ) ;
}
vx_documented_panic ( fpp > 0.0 && fpp <= 1.0 ) ;
let num_bits = suggest_num_bits ( max_items , fpp ) ;
let num_hashes = suggest_num_hashes_from_accuracy ( max_items , num_bits ) ;
BloomFilterBuilder {
num_bits , num_hashes , seed : DEFAULT_UPDATE_SEED , }
}


    fn with_size ( num_bits : u64 , num_hashes : u16 ) -> ( r : Self ) ensures
/*@C18.bloom_with_size_validated*/ MIN_NUM_BITS <= num_bits <= MAX_NUM_BITS && MIN_NUM_HASHES <= num_hashes <= MAX_NUM_HASHES ,
/*@C18.bloom_builder_ranges*/ r . wf ( ) , r . num_bits == num_bits , r . num_hashes == num_hashes , r . seed == DEFAULT_UPDATE_SEED {
vx_documented_panic ( ( MIN_NUM_BITS ..= MAX_NUM_BITS ) . contains ( & num_bits ) ) ;
vx_documented_panic ( ( MIN_NUM_HASHES ..= MAX_NUM_HASHES ) . contains ( & num_hashes ) ) ;
BloomFilterBuilder {
num_bits , num_hashes , seed : DEFAULT_UPDATE_SEED , }
}


    fn build ( self ) -> ( r : BloomFilter ) requires self . wf ( ) ensures r . wf ( ) ,
/*@C09.build_empty*/ r @ == ISet :: < int > :: empty ( ) , r . num_bits_set == 0 ,
/*@C09.build_config*/ r . seed == self . seed , r . num_hashes == self . num_hashes ,
/*@C18.bloom_size*/ r . bit_array @ . len ( ) == ( self . num_bits + 63 ) / 64 ,
/*@C18.bloom_size*/ self . num_bits <= r . cap ( ) < self . num_bits + 64 , {
let num_hashes = self . num_hashes ;
let num_words = self . num_bits . div_ceil ( 64 ) as usize ;
let bit_array = vec! [ 0u64 ;
num_words ] . into_boxed_slice ( ) ;
proof {
let ws = bit_array @ ;
lemma_total_zero ( ws ) ;
assert forall | i : int | ! bits ( ws ) . contains ( i ) by {
if 0 <= i < ws . len ( ) * 64 {
let c = ( i % 64 ) as u64 ;
assert ( ( 0u64 >> c ) & 1 == 0 ) by ( bit_vector ) ;
}
}
assert ( bits ( ws ) =~= ISet :: < int > :: empty ( ) ) ;
}
BloomFilter {
seed : self . seed , num_hashes , num_bits_set : 0 , bit_array , }
}

}
}
fn main(){}
