#![feature(allocator_api)]
use vstd::prelude::*;
use vstd::std_specs::cmp::*;
use std::io;
use std::io::Cursor;
use std::io::Read;
verus! {
global size_of usize == 8;

// =====================================================================================================================
// Little-endian byte codecs: interpreted on both sides, the round trip is a lemma (no axiom); same definitions as hll_codec8
// =====================================================================================================================
spec fn le16_bytes(n: u16) -> Seq<u8> { seq![(n & 0xff) as u8, ((n >> 8) & 0xff) as u8] }
spec fn le32_bytes(n: u32) -> Seq<u8> { seq![(n & 0xff) as u8, ((n >> 8) & 0xff) as u8, ((n >> 16) & 0xff) as u8, ((n >> 24) & 0xff) as u8] }
spec fn le64_bytes(n: u64) -> Seq<u8> { le32_bytes((n & 0xffff_ffff) as u32) + le32_bytes((n >> 32) as u32) }
spec fn le16_val(b: Seq<u8>) -> u16 { (b[0] as u16) | ((b[1] as u16) << 8) }
spec fn le32_val(b: Seq<u8>) -> u32 { (b[0] as u32) | ((b[1] as u32) << 8) | ((b[2] as u32) << 16) | ((b[3] as u32) << 24) }
spec fn le64_val(b: Seq<u8>) -> u64 { (le32_val(b.subrange(0, 4)) as u64) | ((le32_val(b.subrange(4, 8)) as u64) << 32) }

proof fn lemma_le16_roundtrip(n: u16) ensures le16_val(le16_bytes(n)) == n, le16_bytes(n).len() == 2 {
    let b0 = (n & 0xff) as u8; let b1 = ((n >> 8) & 0xff) as u8;
    assert((b0 as u16) | ((b1 as u16) << 8) == n) by (bit_vector) requires b0 == (n & 0xff) as u8, b1 == ((n >> 8) & 0xff) as u8;
}
proof fn lemma_le32_roundtrip(n: u32) ensures le32_val(le32_bytes(n)) == n, le32_bytes(n).len() == 4 {
    let b0 = (n & 0xff) as u8; let b1 = ((n >> 8) & 0xff) as u8; let b2 = ((n >> 16) & 0xff) as u8; let b3 = ((n >> 24) & 0xff) as u8;
    assert((b0 as u32) | ((b1 as u32) << 8) | ((b2 as u32) << 16) | ((b3 as u32) << 24) == n) by (bit_vector)
      requires b0 == (n & 0xff) as u8, b1 == ((n >> 8) & 0xff) as u8, b2 == ((n >> 16) & 0xff) as u8, b3 == ((n >> 24) & 0xff) as u8;
}
proof fn lemma_le64_roundtrip(n: u64) ensures le64_val(le64_bytes(n)) == n, le64_bytes(n).len() == 8 {
    let lo = (n & 0xffff_ffff) as u32; let hi = (n >> 32) as u32;
    lemma_le32_roundtrip(lo); lemma_le32_roundtrip(hi);
    assert(le64_bytes(n).subrange(0, 4) =~= le32_bytes(lo));
    assert(le64_bytes(n).subrange(4, 8) =~= le32_bytes(hi));
    assert((lo as u64) | ((hi as u64) << 32) == n) by (bit_vector) requires lo == (n & 0xffff_ffff) as u32, hi == (n >> 32) as u32;
}

// std leaves (R4 rewrites of uN::from_le_bytes / n.to_le_bytes())
#[verifier::external_body] fn vx_u16_from_le_bytes(b: [u8; 2]) -> (r: u16) ensures r == le16_val(b@) { u16::from_le_bytes(b) }
#[verifier::external_body] fn vx_u32_from_le_bytes(b: [u8; 4]) -> (r: u32) ensures r == le32_val(b@) { u32::from_le_bytes(b) }
#[verifier::external_body] fn vx_u64_from_le_bytes(b: [u8; 8]) -> (r: u64) ensures r == le64_val(b@) { u64::from_le_bytes(b) }
#[verifier::external_body] fn vx_i64_from_le_bytes(b: [u8; 8]) -> (r: i64) ensures r == dec64(true, le64_val(b@)) { i64::from_le_bytes(b) }
#[verifier::external_body] fn vx_i64_to_le_bytes(n: i64) -> (r: [u8; 8]) ensures r@ == le64_bytes(enc64(n as int)) { n.to_le_bytes() }
#[verifier::external_body] fn vx_u16_to_le_bytes(n: u16) -> (r: [u8; 2]) ensures r@ == le16_bytes(n) { n.to_le_bytes() }
#[verifier::external_body] fn vx_u32_to_le_bytes(n: u32) -> (r: [u8; 4]) ensures r@ == le32_bytes(n) { n.to_le_bytes() }
#[verifier::external_body] fn vx_u64_to_le_bytes(n: u64) -> (r: [u8; 8]) ensures r@ == le64_bytes(n) { n.to_le_bytes() }


// =====================================================================================================================
// 64-bit counter fields: every counter type travels as 8 little-endian bytes, two's complement for the signed types
// =====================================================================================================================
spec fn enc64(v: int) -> u64 { if v >= 0 { v as u64 } else { (v + 0x1_0000_0000_0000_0000) as u64 } }
spec fn dec64(signed: bool, u: u64) -> int { if signed && u >= 0x8000_0000_0000_0000 { u - 0x1_0000_0000_0000_0000 } else { u as int } }
proof fn lemma_dec_enc64(signed: bool, v: int)
  requires signed ==> -0x8000_0000_0000_0000 <= v < 0x8000_0000_0000_0000, !signed ==> 0 <= v < 0x1_0000_0000_0000_0000
  ensures dec64(signed, enc64(v)) == v
{}
// a list of counters in an image, and reading counter i of the list that starts at offset off
spec fn enc_vals(s: Seq<int>) -> Seq<u8> decreases s.len() { if s.len() == 0 { Seq::empty() } else { enc_vals(s.drop_last()) + le64_bytes(enc64(s.last())) } }
spec fn dec_val_at(signed: bool, p: Seq<u8>, off: int, i: int) -> int { dec64(signed, le64_val(p.subrange(off + 8 * i, off + 8 * i + 8))) }
spec fn dec_vals(signed: bool, p: Seq<u8>, off: int, n: int) -> Seq<int> { Seq::new(n as nat, |i: int| dec_val_at(signed, p, off, i)) }
spec fn fits64(signed: bool, v: int) -> bool { if signed { -0x8000_0000_0000_0000 <= v < 0x8000_0000_0000_0000 } else { 0 <= v < 0x1_0000_0000_0000_0000 } }
proof fn lemma_enc_vals_len(s: Seq<int>) ensures enc_vals(s).len() == 8 * s.len() decreases s.len() {
    if s.len() > 0 { lemma_enc_vals_len(s.drop_last()); lemma_le64_roundtrip(enc64(s.last())); }
}
proof fn lemma_enc_vals_push(s: Seq<int>, x: int) ensures enc_vals(s.push(x)) == enc_vals(s) + le64_bytes(enc64(x)) {
    assert(s.push(x).drop_last() =~= s);
}
// C11 at spec level for counter lists: decoding the encoded list gives the list back, whatever precedes and follows it
proof fn lemma_dec_enc_vals(signed: bool, head: Seq<u8>, s: Seq<int>, tail: Seq<u8>, i: int)
  requires 0 <= i < s.len(), fits64(signed, s[i])
  ensures dec_val_at(signed, head + enc_vals(s) + tail, head.len() as int, i) == s[i]
  decreases s.len()
{
    lemma_enc_vals_len(s); lemma_enc_vals_len(s.drop_last()); lemma_le64_roundtrip(enc64(s.last()));
    let e = head + enc_vals(s) + tail;
    if i == s.len() - 1 {
        assert(e.subrange(head.len() + 8 * i, head.len() + 8 * i + 8) =~= le64_bytes(enc64(s.last())));
        lemma_dec_enc64(signed, s.last());
    } else {
        lemma_dec_enc_vals(signed, head, s.drop_last(), le64_bytes(enc64(s.last())) + tail, i);
        assert(head + enc_vals(s.drop_last()) + (le64_bytes(enc64(s.last())) + tail) =~= e);
    }
}
proof fn lemma_dec_enc_vals_all(signed: bool, head: Seq<u8>, s: Seq<int>, tail: Seq<u8>)
  requires forall|i: int| 0 <= i < s.len() ==> fits64(signed, #[trigger] s[i])
  ensures dec_vals(signed, head + enc_vals(s) + tail, head.len() as int, s.len() as int) == s
{
    assert forall|i: int| 0 <= i < s.len() implies dec_val_at(signed, head + enc_vals(s) + tail, head.len() as int, i) == s[i] by { lemma_dec_enc_vals(signed, head, s, tail, i); }
    assert(dec_vals(signed, head + enc_vals(s) + tail, head.len() as int, s.len() as int) =~= s);
}

// =====================================================================================================================
// error / io shims
// =====================================================================================================================
#[verifier::external_type_specification]
#[verifier::external_body]
pub struct ExIoError(std::io::Error);

struct Error { k: u8 }
impl Error {
    // error.rs constructors: only "an Error" is known
    #[verifier::external_body] fn deserial(msg: impl Into<String>) -> Self { Error { k: 2 } }
    #[verifier::external_body] fn invalid_family(expected: u8, actual: u8, name: &'static str) -> Self { Error { k: 3 } }
}
trait VxIo<T> { fn vx_io(self, tag: &'static str) -> Result<T, Error>; }
impl<T> VxIo<T> for Result<T, std::io::Error> {
  // R2: `.map_err(insufficient_data(tag))`
  #[verifier::external_body]
  fn vx_io(self, tag: &'static str) -> (r: Result<T, Error>)
    ensures self matches Ok(v) ==> r == Ok::<T, Error>(v), self is Err ==> r is Err
  { unimplemented!() }
}

// =====================================================================================================================
// countmin/value.rs as a Verus trait spec (private::Sealed dropped; add/abs/to_f64/from_f64 are not used by the functions of this unit).
// to_bytes / try_from_bytes are leaves by contract: the macro bodies `(self as i64).to_le_bytes()` / range-checked `i64::from_le_bytes`.
// =====================================================================================================================
trait CountMinValue: Copy + Ord {
    spec fn val(self) -> int;
    spec fn in_range(v: int) -> bool;
    spec fn signed() -> bool;
    const ZERO: Self;
    fn to_bytes(self) -> (r: [u8; 8])
      ensures r@ == le64_bytes(enc64(self.val()));
    fn try_from_bytes(bytes: [u8; 8]) -> (r: Result<Self, Error>)
      ensures
        Self::in_range(dec64(Self::signed(), le64_val(bytes@))) ==> (r matches Ok(v) && v.val() == dec64(Self::signed(), le64_val(bytes@))),
        !Self::in_range(dec64(Self::signed(), le64_val(bytes@))) ==> r is Err;
}
// what the sealed instances (u8..u64, i8..i64) satisfy
spec fn cm_law<T: CountMinValue>() -> bool {
    &&& <T as PartialEqSpec>::obeys_eq_spec() && forall|a: T, b: T| #[trigger] a.eq_spec(&b) == (a.val() == b.val())
    &&& T::ZERO.val() == 0 && T::in_range(0)
    &&& forall|a: T| T::in_range(#[trigger] a.val())
    &&& forall|v: int| #[trigger] T::in_range(v) ==> fits64(T::signed(), v)
}
// instances (the real macro bodies with the R4 rewrites), to show that the trait spec and the law are satisfiable
impl CountMinValue for i64 {
    spec fn val(self) -> int { self as int }
    spec fn in_range(v: int) -> bool { i64::MIN <= v <= i64::MAX }
    spec fn signed() -> bool { true }
    const ZERO: Self = 0;
    fn to_bytes(self) -> (r: [u8; 8]) { let value = self as i64; vx_i64_to_le_bytes(value) }
    fn try_from_bytes(bytes: [u8; 8]) -> (r: Result<Self, Error>) {
        let value = vx_i64_from_le_bytes(bytes);
        if value < i64::MIN as i64 || value > i64::MAX as i64 { return Err(Error::deserial("out of range")); }
        Ok(value as i64)
    }
}
impl CountMinValue for i8 {
    spec fn val(self) -> int { self as int }
    spec fn in_range(v: int) -> bool { i8::MIN <= v <= i8::MAX }
    spec fn signed() -> bool { true }
    const ZERO: Self = 0;
    fn to_bytes(self) -> (r: [u8; 8]) { let value = self as i64; vx_i64_to_le_bytes(value) }
    fn try_from_bytes(bytes: [u8; 8]) -> (r: Result<Self, Error>) {
        let value = vx_i64_from_le_bytes(bytes);
        if value < i8::MIN as i64 || value > i8::MAX as i64 { return Err(Error::deserial("out of range")); }
        Ok(value as i8)
    }
}
impl CountMinValue for u64 {
    spec fn val(self) -> int { self as int }
    spec fn in_range(v: int) -> bool { 0 <= v <= u64::MAX }
    spec fn signed() -> bool { false }
    const ZERO: Self = 0;
    fn to_bytes(self) -> (r: [u8; 8]) { let value = self as u64; vx_u64_to_le_bytes(value) }
    fn try_from_bytes(bytes: [u8; 8]) -> (r: Result<Self, Error>) {
        let value = vx_u64_from_le_bytes(bytes);
        if value > u64::MAX as u64 { return Err(Error::deserial("out of range")); }
        Ok(value as u64)
    }
}
impl CountMinValue for u16 {
    spec fn val(self) -> int { self as int }
    spec fn in_range(v: int) -> bool { 0 <= v <= u16::MAX }
    spec fn signed() -> bool { false }
    const ZERO: Self = 0;
    fn to_bytes(self) -> (r: [u8; 8]) { let value = self as u64; vx_u64_to_le_bytes(value) }
    fn try_from_bytes(bytes: [u8; 8]) -> (r: Result<Self, Error>) {
        let value = vx_u64_from_le_bytes(bytes);
        if value > u16::MAX as u64 { return Err(Error::deserial("out of range")); }
        Ok(value as u16)
    }
}
proof fn lemma_law_instances() ensures cm_law::<i64>(), cm_law::<i8>(), cm_law::<u64>(), cm_law::<u16>() {}

// hash leaves (C16): contracts define the spec functions (as in unit cm_sketch)
pub uninterp spec fn seed_hash_spec(seed: u64) -> u16;
pub uninterp spec fn seeds_spec(seed: u64, n: u8) -> Seq<u64>;
// the default seed hashes to a non-zero 16-bit value (known answer: compute_seed_hash(9001) = 0x93cc)
#[verifier::external_body] proof fn axiom_default_seed_hash() ensures seed_hash_spec(DEFAULT_UPDATE_SEED) != 0 {}

// C14 allocation contract (DESIGN.md, C14 / R8):  n * size <= 16 * input_len + CONFIG_MAX.
// Count-Min: a full image carries its counters (8 bytes each, no narrower in memory), so nothing beyond the input is granted
// (CONFIG_MAX = 0); an EMPTY image denotes numHashes * numBuckets zero counters without carrying them - that expansion is the format's
// own and is bounded by the validated table size (< 2^30 entries): CONFIG_MAX = 8 * 2^30.
spec const CM_CONFIG_MAX_EMPTY: int = 8 * 0x4000_0000int;
// `vec![T::ZERO; n]` on the parser path
#[verifier::external_body]
fn vx_alloc_vec<T: Copy>(x: T, n: usize, Ghost(budget): Ghost<(int, int)>) -> (r: Vec<T>)    // budget = (input_len, CONFIG_MAX)
  requires n * 8 <= 16 * budget.0 + budget.1
  ensures r@.len() == n, forall|i: int| 0 <= i < n ==> r@[i] == x
{ vec![x; n] }

// =====================================================================================================================
// codec/encode.rs: SketchBytes, real bodies, view = the bytes written so far
// =====================================================================================================================
struct SketchBytes {
    bytes: Vec<u8>,
}

impl SketchBytes {
    spec fn view(&self) -> Seq<u8> { self.bytes@ }

    fn with_capacity(capacity: usize) -> (r: Self) ensures r@ == Seq::<u8>::empty() {
        Self {
            bytes: Vec::with_capacity(capacity),
        }
    }

    fn into_bytes(self) -> (r: Vec<u8>) ensures r@ == self@ {
        self.bytes
    }

    fn write(&mut self, buf: &[u8]) ensures final(self)@ == old(self)@ + buf@ {
        self.bytes.extend_from_slice(buf);
    }

    fn write_u8(&mut self, n: u8) ensures final(self)@ == old(self)@.push(n) {
        self.bytes.push(n);
    }

    fn write_u16_le(&mut self, n: u16) ensures final(self)@ == old(self)@ + le16_bytes(n) {
        self.write(&vx_u16_to_le_bytes(n));
    }

    fn write_u32_le(&mut self, n: u32) ensures final(self)@ == old(self)@ + le32_bytes(n) {
        self.write(&vx_u32_to_le_bytes(n));
    }


}

// =====================================================================================================================
// codec/decode.rs: SketchSlice; the std Cursor is abstracted by (data(), pos()): the slice and the number of bytes consumed.
// A read of N bytes is Ok and advances by N iff pos + N <= len, else Err.
// read_exact (std::io::Read on Cursor<&[u8]>) is the only assumed leaf; the read_* are real bodies.
// =====================================================================================================================
#[verifier::external_body]
struct SketchSlice<'a> {
    slice: Cursor<&'a [u8]>,
}

impl SketchSlice<'_> {
    uninterp spec fn data(&self) -> Seq<u8>;
    uninterp spec fn pos(&self) -> nat;
    // the N bytes at the cursor
    spec fn at(&self, n: int) -> Seq<u8> { self.data().subrange(self.pos() as int, self.pos() + n) }
    spec fn has(&self, n: int) -> bool { self.pos() + n <= self.data().len() }
    spec fn advanced(&self, o: &Self, n: int) -> bool { self.data() == o.data() && self.pos() == o.pos() + n }

    #[verifier::external_body]
    fn new(slice: &[u8]) -> (r: SketchSlice<'_>) ensures r.data() == slice@, r.pos() == 0 {
        unimplemented!()
    }

    #[verifier::external_body]
    fn read_exact(&mut self, buf: &mut [u8]) -> (r: io::Result<()>)
      ensures
        old(self).has(old(buf)@.len() as int) ==> (r is Ok && final(buf)@ == old(self).at(old(buf)@.len() as int) && final(self).advanced(old(self), old(buf)@.len() as int)),
        !old(self).has(old(buf)@.len() as int) ==> r is Err,
        final(buf)@.len() == old(buf)@.len(),
        final(self).data() == old(self).data(),
    {
        unimplemented!()
    }

    fn read_u8(&mut self) -> (r: io::Result<u8>)
      ensures
        old(self).has(1) ==> (r matches Ok(v) && v == old(self).data()[old(self).pos() as int] && final(self).advanced(old(self), 1)),
        !old(self).has(1) ==> r is Err,
        final(self).data() == old(self).data(),
    {
        let mut buf = [0u8; 1];
        self.read_exact(&mut buf)?;
        Ok(buf[0])
    }

    fn read_u16_le(&mut self) -> (r: io::Result<u16>)
      ensures
        old(self).has(2) ==> (r matches Ok(v) && v == le16_val(old(self).at(2)) && final(self).advanced(old(self), 2)),
        !old(self).has(2) ==> r is Err,
        final(self).data() == old(self).data(),
    {
        let mut buf = [0u8; 2];
        self.read_exact(&mut buf)?;
        Ok(vx_u16_from_le_bytes(buf))
    }

    fn read_u32_le(&mut self) -> (r: io::Result<u32>)
      ensures
        old(self).has(4) ==> (r matches Ok(v) && v == le32_val(old(self).at(4)) && final(self).advanced(old(self), 4)),
        !old(self).has(4) ==> r is Err,
        final(self).data() == old(self).data(),
    {
        let mut buf = [0u8; 4];
        self.read_exact(&mut buf)?;
        Ok(vx_u32_from_le_bytes(buf))
    }


}

// =====================================================================================================================
// codec/family.rs, codec/assert.rs, hash/mod.rs, countmin/serialization.rs
// =====================================================================================================================
struct Family {
    id: u8,
    name: &'static str,
    min_pre_longs: u8,
    max_pre_longs: u8,
}

impl Family {
    const COUNTMIN: Family = Family {
        id: 18,
        name: "COUNTMIN",
        min_pre_longs: 2,
        max_pre_longs: 2,
    };

    fn validate_id(&self, family_id: u8) -> (r: Result<(), Error>) ensures r is Ok <==> family_id == self.id {
        if family_id != self.id {
            Err(Error::invalid_family(self.id, family_id, self.name))
        } else {
            Ok(())
        }
    }
}

fn ensure_serial_version_is(expected: u8, actual: u8) -> (r: Result<(), Error>) ensures r is Ok <==> expected == actual {
    if expected == actual {
        Ok(())
    } else {
        Err(Error::deserial(format!(
            "unsupported serial version: expected {expected}, got {actual}"
        )))
    }
}

// `<[u8]>::contains` (std leaf)
#[verifier::external_body]
fn ensure_preamble_longs_in(expected: &[u8], actual: u8) -> (r: Result<(), Error>) ensures r is Ok <==> expected@.contains(actual) {
    unimplemented!()
}

const DEFAULT_UPDATE_SEED: u64 = 9001;
const PREAMBLE_LONGS_SHORT: u8 = 2;
const SERIAL_VERSION: u8 = 1;
const FLAGS_IS_EMPTY: u8 = 1 << 0;
const LONG_SIZE_BYTES: usize = 8;
const MAX_TABLE_ENTRIES: usize = 1 << 30;

#[verifier::external_body]
fn compute_seed_hash(seed: u64) -> (r: u16)
  requires seed_hash_spec(seed) != 0,      // the real body asserts it
  ensures r == seed_hash_spec(seed),
{ unimplemented!() }
#[verifier::external_body]
fn make_hash_seeds(seed: u64, num_hashes: u8) -> (r: Vec<u64>)
  ensures r@ == seeds_spec(seed, num_hashes), r@.len() == num_hashes,
{ unimplemented!() }

fn entries_for_config_checked(num_hashes: u8, num_buckets: u32) -> (r: Result<usize, Error>)
  ensures
    r is Ok <==> (num_hashes >= 1 && num_buckets >= 3 && (num_hashes as int) * (num_buckets as int) < 0x4000_0000),
    r matches Ok(e) ==> e == num_hashes as int * num_buckets as int,
{
    if num_hashes == 0 {
        return Err(Error::deserial("num_hashes must be at least 1"));
    }
    if num_buckets < 3 {
        return Err(Error::deserial("num_buckets must be at least 3"));
    }
    proof {
        assert(num_hashes as int * num_buckets as int <= 255 * 0xffff_ffff) by (nonlinear_arith) requires num_hashes <= 255, num_buckets <= 0xffff_ffff;
        assert((1usize << 30) == 0x4000_0000usize) by (bit_vector);
    }
    let entries = (num_hashes as usize)
        .checked_mul(num_buckets as usize)
        .ok_or_else(|| Error::deserial("num_hashes * num_buckets overflows usize"))?;
    if entries >= MAX_TABLE_ENTRIES {
        return Err(Error::deserial(format!(
            "num_hashes * num_buckets must be < {MAX_TABLE_ENTRIES}",
        )));
    }
    Ok(entries)
}

// =====================================================================================================================
// FORMAT SPEC (DESIGN.md Appendix A, "Count-Min"; family 18, serVer 1).  Written from the published layout, not from the Rust code.
//   0 preLongs=2 | 1 serVer=1 | 2 famID=18 | 3 flags: bit0 EMPTY | 4-7 unused | 8-11 numBuckets u32 | 12 numHashes u8 | 13-14 seedHash u16
//   15 unused | 16-23 total weight | 24.. numHashes*numBuckets counters, 8 bytes each, row-major.  An EMPTY image stops at byte 16 and
//   denotes an all-zero table with total weight 0.
// =====================================================================================================================
// the abstract content of a Count-Min sketch (counter values as integers)
ghost struct CmImg {
    num_hashes: u8,
    num_buckets: u32,
    seed_hash: u16,
    total: int,
    counts: Seq<int>,
}
spec fn izeros(n: int) -> Seq<int> { Seq::new(n as nat, |i: int| 0int) }
// configurations the format can express and every implementation accepts
spec fn cm_img_ok(signed: bool, v: CmImg) -> bool {
    &&& v.num_hashes >= 1 && v.num_buckets >= 3 && (v.num_hashes as int) * (v.num_buckets as int) < 0x4000_0000
    &&& v.counts.len() == v.num_hashes as int * v.num_buckets as int
    &&& fits64(signed, v.total) && forall|i: int| 0 <= i < v.counts.len() ==> fits64(signed, #[trigger] v.counts[i])
}
spec fn cm_head(flags: u8, v: CmImg) -> Seq<u8> {
    seq![2u8, 1u8, 18u8, flags] + le32_bytes(0) + le32_bytes(v.num_buckets) + seq![v.num_hashes] + le16_bytes(v.seed_hash) + seq![0u8]
}
// the spec ENCODER, any writer.  EMPTY variant (total weight 0, all counters 0):
spec fn enc_cm_empty(v: CmImg) -> Seq<u8> { cm_head(1, v) }
spec fn enc_cm_full(v: CmImg) -> Seq<u8> { cm_head(0, v) + le64_bytes(enc64(v.total)) + enc_vals(v.counts) }
// writers (C++ count_min_sketch::serialize, this crate) emit the EMPTY form exactly when the total weight is 0
spec fn enc_cm(v: CmImg) -> Seq<u8> { if v.total == 0 { enc_cm_empty(v) } else { enc_cm_full(v) } }

// the spec DECODER: header fields ...
spec fn cm_hdr_empty(b: Seq<u8>) -> bool { b[3] & 1 != 0 }
spec fn cm_hdr_num_buckets(b: Seq<u8>) -> u32 { le32_val(b.subrange(8, 12)) }
spec fn cm_hdr_num_hashes(b: Seq<u8>) -> u8 { b[12] }
spec fn cm_hdr_seed_hash(b: Seq<u8>) -> u16 { le16_val(b.subrange(13, 15)) }
spec fn cm_hdr_entries(b: Seq<u8>) -> int { cm_hdr_num_hashes(b) as int * cm_hdr_num_buckets(b) as int }
spec fn cm_dec_total(signed: bool, b: Seq<u8>) -> int { if cm_hdr_empty(b) { 0 } else { dec64(signed, le64_val(b.subrange(16, 24))) } }
spec fn cm_dec_counts(signed: bool, b: Seq<u8>) -> Seq<int> { if cm_hdr_empty(b) { izeros(cm_hdr_entries(b)) } else { dec_vals(signed, b, 24, cm_hdr_entries(b)) } }
spec fn dec_cm(signed: bool, b: Seq<u8>) -> CmImg {
    CmImg { num_hashes: cm_hdr_num_hashes(b), num_buckets: cm_hdr_num_buckets(b), seed_hash: cm_hdr_seed_hash(b), total: cm_dec_total(signed, b), counts: cm_dec_counts(signed, b) }
}
// ... what every reader checks: the header, and that a full image carries its table
spec fn cm_header_ok(b: Seq<u8>) -> bool {
    &&& b.len() >= 16 && b[0] == 2 && b[1] == 1 && b[2] == 18
    &&& cm_hdr_num_hashes(b) >= 1 && cm_hdr_num_buckets(b) >= 3 && cm_hdr_entries(b) < 0x4000_0000
    &&& !cm_hdr_empty(b) ==> b.len() >= 24 + 8 * cm_hdr_entries(b)
}
// ... and the images a conforming writer of counter type T can produce, as seen by a reader configured with `seed`
spec fn valid_cm_image<T: CountMinValue>(b: Seq<u8>, seed: u64) -> bool {
    &&& cm_header_ok(b)
    &&& cm_hdr_seed_hash(b) == seed_hash_spec(seed)
    &&& !cm_hdr_empty(b) ==> {
          &&& T::in_range(cm_dec_total(T::signed(), b)) && cm_dec_total(T::signed(), b) != 0
          &&& forall|i: int| 0 <= i < cm_hdr_entries(b) ==> T::in_range(#[trigger] dec_val_at(T::signed(), b, 24, i))
        }
}

proof fn lemma_cm_head(flags: u8, v: CmImg, tail: Seq<u8>)
  requires flags == 0 || flags == 1
  ensures ({ let b = cm_head(flags, v) + tail;
     &&& cm_head(flags, v).len() == 16
     &&& b[0] == 2 && b[1] == 1 && b[2] == 18 && cm_hdr_empty(b) == (flags == 1)
     &&& cm_hdr_num_hashes(b) == v.num_hashes && cm_hdr_num_buckets(b) == v.num_buckets && cm_hdr_seed_hash(b) == v.seed_hash })
{
    let b = cm_head(flags, v) + tail;
    lemma_le32_roundtrip(0); lemma_le32_roundtrip(v.num_buckets); lemma_le16_roundtrip(v.seed_hash);
    assert(b.subrange(8, 12) =~= le32_bytes(v.num_buckets));
    assert(b.subrange(13, 15) =~= le16_bytes(v.seed_hash));
    assert(b[3] == flags && b[12] == v.num_hashes);
    assert(0u8 & 1 == 0 && 1u8 & 1 != 0) by (bit_vector);
}
// C11 at spec level (lemma L): the spec decoder inverts the spec encoder on both variants, and every encoded image passes the header checks
proof fn lemma_cm_roundtrip_empty(signed: bool, v: CmImg)
  requires cm_img_ok(signed, v), v.total == 0, v.counts == izeros(v.counts.len() as int)
  ensures /*@C11.cm.spec_roundtrip_empty*/ cm_header_ok(enc_cm_empty(v)) && dec_cm(signed, enc_cm_empty(v)) == v, enc_cm_empty(v).len() == 16, cm_hdr_empty(enc_cm_empty(v)),
{
    lemma_cm_head(1, v, Seq::empty());
    assert(cm_head(1, v) + Seq::<u8>::empty() =~= enc_cm_empty(v));
}
proof fn lemma_cm_roundtrip_full(signed: bool, v: CmImg)
  requires cm_img_ok(signed, v)
  ensures /*@C11.cm.spec_roundtrip_full*/ cm_header_ok(enc_cm_full(v)) && dec_cm(signed, enc_cm_full(v)) == v,
    enc_cm_full(v).len() == 24 + 8 * v.counts.len(), !cm_hdr_empty(enc_cm_full(v)),
{
    let b = enc_cm_full(v);
    let tail = le64_bytes(enc64(v.total)) + enc_vals(v.counts);
    lemma_cm_head(0, v, tail);
    assert(cm_head(0, v) + tail =~= b);
    lemma_le64_roundtrip(enc64(v.total)); lemma_enc_vals_len(v.counts); lemma_dec_enc64(signed, v.total);
    assert(b.subrange(16, 24) =~= le64_bytes(enc64(v.total)));
    let h24 = cm_head(0, v) + le64_bytes(enc64(v.total));
    assert(b =~= h24 + enc_vals(v.counts) + Seq::<u8>::empty());
    lemma_dec_enc_vals_all(signed, h24, v.counts, Seq::empty());
}

// =====================================================================================================================
// countmin/sketch.rs
// =====================================================================================================================
struct CountMinSketch<T: CountMinValue> {
    num_hashes: u8,
    num_buckets: u32,
    seed: u64,
    seed_hash: u16,
    total_weight: T,
    counts: Vec<T>,
    hash_seeds: Vec<u64>,
}

spec fn vals<T: CountMinValue>(s: Seq<T>) -> Seq<int> { Seq::new(s.len(), |i: int| s[i].val()) }

impl<T: CountMinValue> CountMinSketch<T> {
    // the invariant of unit cm_sketch, plus the seed hash
    spec fn wf(&self) -> bool {
        &&& cm_law::<T>()
        &&& self.num_buckets >= 3 && self.num_hashes >= 1
        &&& self.hash_seeds@.len() == self.num_hashes
        &&& self.hash_seeds@ == seeds_spec(self.seed, self.num_hashes)
        &&& self.counts@.len() == self.num_hashes as int * self.num_buckets as int
        &&& self.counts@.len() < 0x4000_0000
        &&& self.seed_hash == seed_hash_spec(self.seed) && self.seed_hash != 0
    }
    // total weight 0 means nothing was ever added (C08: 0 <= |counter| <= total weight)
    spec fn wf_total_zero(&self) -> bool { self.total_weight.val() == 0 ==> forall|i: int| 0 <= i < self.counts@.len() ==> #[trigger] self.counts@[i].val() == 0 }
    spec fn img(&self) -> CmImg {
        CmImg { num_hashes: self.num_hashes, num_buckets: self.num_buckets, seed_hash: self.seed_hash, total: self.total_weight.val(), counts: vals(self.counts@) }
    }

    fn is_empty(&self) -> (r: bool)
      requires cm_law::<T>(),
      ensures r == (self.total_weight.val() == 0),
    {
        self.total_weight == T::ZERO
    }

    fn serialize(&self) -> (r: Vec<u8>)
      requires self.wf(),
      ensures
        /*@C12.cm.image*/ r@ == enc_cm(self.img()),
        /*@C18.cm.size*/ r@.len() == (if self.total_weight.val() == 0 { 16 } else { 24 + 8 * (self.num_hashes as int * self.num_buckets as int) }),
    {
        let header_size = PREAMBLE_LONGS_SHORT as usize * LONG_SIZE_BYTES;
        let value_size = LONG_SIZE_BYTES;
        let payload_size = if self.is_empty() {
            0
        } else {
            value_size + (self.counts.len() * value_size)
        };
        let mut bytes = SketchBytes::with_capacity(header_size + payload_size);

        bytes.write_u8(PREAMBLE_LONGS_SHORT);
        bytes.write_u8(SERIAL_VERSION);
        bytes.write_u8(Family::COUNTMIN.id);
        proof { assert(1u8 << 0 == 1u8) by (bit_vector); }
        bytes.write_u8(if self.is_empty() { FLAGS_IS_EMPTY } else { 0 });
        bytes.write_u32_le(0); // unused

        bytes.write_u32_le(self.num_buckets);
        bytes.write_u8(self.num_hashes);
        debug_assert!(self.seed_hash == compute_seed_hash(self.seed));
        bytes.write_u16_le(self.seed_hash);
        bytes.write_u8(0);
        let ghost v = self.img();
        proof {
            assert(/*@C12.cm.image*/ bytes@ =~= cm_head(if v.total == 0 { 1u8 } else { 0u8 }, v));
            lemma_cm_head(if v.total == 0 { 1u8 } else { 0u8 }, v, Seq::empty());
        }

        if self.is_empty() {
            return bytes.into_bytes();
        }

        bytes.write(&self.total_weight.to_bytes());
        let ghost head = bytes@;
        let mut vx_i1 = 0;
        while vx_i1 < self.counts.len()
          invariant vx_i1 <= self.counts@.len(),
            /*@C12.cm.image*/ bytes@ == head + enc_vals(vals(self.counts@).take(vx_i1 as int)),
          decreases self.counts@.len() - vx_i1
        {
            let count = self.counts[vx_i1];
            bytes.write(&count.to_bytes());
            proof {
                let vs = vals(self.counts@);
                assert(vs.take(vx_i1 as int + 1) =~= vs.take(vx_i1 as int).push(count.val()));
                lemma_enc_vals_push(vs.take(vx_i1 as int), count.val());
                assert(head + enc_vals(vs.take(vx_i1 as int)) + le64_bytes(enc64(count.val())) =~= head + (enc_vals(vs.take(vx_i1 as int)) + le64_bytes(enc64(count.val()))));
            }
            vx_i1 += 1;
        }
        proof {
            assert(vals(self.counts@).take(self.counts@.len() as int) =~= vals(self.counts@));
            assert(/*@C12.cm.image*/ bytes@ =~= enc_cm_full(v));
            lemma_enc_vals_len(vals(self.counts@));
        }
        bytes.into_bytes()
    }

    fn deserialize(bytes: &[u8]) -> (r: Result<Self, Error>)
      requires cm_law::<T>(),
      ensures
        /*@C13.cm.accepts*/ valid_cm_image::<T>(bytes@, DEFAULT_UPDATE_SEED) ==> r is Ok,
        /*@C13.cm.view*/ r matches Ok(s) ==> s.img() == dec_cm(T::signed(), bytes@) && s.seed == DEFAULT_UPDATE_SEED,
        /*@C14.cm.rejects*/ r is Ok ==> cm_header_ok(bytes@) && cm_hdr_seed_hash(bytes@) == seed_hash_spec(DEFAULT_UPDATE_SEED),
        /*@C14.cm.wf*/ r matches Ok(s) ==> s.wf(),
        /*@C11.cm.wf_total_zero*/ r matches Ok(s) ==> s.wf_total_zero(),
    {
        proof { axiom_default_seed_hash(); }
        Self::deserialize_with_seed(bytes, DEFAULT_UPDATE_SEED)
    }

    fn deserialize_with_seed(bytes: &[u8], seed: u64) -> (r: Result<Self, Error>)
      requires cm_law::<T>(), seed_hash_spec(seed) != 0,      // the seed is the caller's configuration; the BYTES are arbitrary
      ensures
        /*@C13.cm.accepts*/ valid_cm_image::<T>(bytes@, seed) ==> r is Ok,
        /*@C13.cm.config*/ r matches Ok(s) ==> s.num_hashes == cm_hdr_num_hashes(bytes@) && s.num_buckets == cm_hdr_num_buckets(bytes@) && s.seed_hash == cm_hdr_seed_hash(bytes@) && s.seed == seed,
        /*@C13.cm.total*/ r matches Ok(s) ==> s.total_weight.val() == cm_dec_total(T::signed(), bytes@),
        /*@C13.cm.counts*/ r matches Ok(s) ==> vals(s.counts@) == cm_dec_counts(T::signed(), bytes@),
        /*@C13.cm.view*/ r matches Ok(s) ==> s.img() == dec_cm(T::signed(), bytes@),
        /*@C14.cm.rejects*/ r is Ok ==> cm_header_ok(bytes@) && cm_hdr_seed_hash(bytes@) == seed_hash_spec(seed),
        /*@C14.cm.wf*/ r matches Ok(s) ==> s.wf(),
        /*@C11.cm.wf_total_zero*/ r matches Ok(s) ==> s.wf_total_zero(),
    {
        fn read_value<T: CountMinValue>(
            cursor: &mut SketchSlice<'_>,
            tag: &'static str,
        ) -> (r: Result<T, Error>)
          ensures
            old(cursor).has(8) && T::in_range(dec64(T::signed(), le64_val(old(cursor).at(8)))) ==> r is Ok,
            r matches Ok(v) ==> old(cursor).has(8) && v.val() == dec64(T::signed(), le64_val(old(cursor).at(8))) && final(cursor).advanced(old(cursor), 8),
            final(cursor).data() == old(cursor).data(),
        {
            let mut bs = [0u8; 8];
            cursor.read_exact(&mut bs).vx_io(tag)?;
            T::try_from_bytes(bs)
        }

        let mut cursor = SketchSlice::new(bytes);
        let ghost b = bytes@;
        let preamble_longs = cursor
            .read_u8()
            .vx_io("preamble_longs")?;
        let serial_version = cursor
            .read_u8()
            .vx_io("serial_version")?;
        let family_id = cursor.read_u8().vx_io("family_id")?;
        let flags = cursor.read_u8().vx_io("flags")?;
        proof { assert(1u8 << 0 == 1u8) by (bit_vector); assert((flags & 1 == 1) == (flags & 1 != 0)) by (bit_vector); }
        cursor
            .read_u32_le()
            .vx_io("<unused>")?;

        Family::COUNTMIN.validate_id(family_id)?;
        ensure_serial_version_is(SERIAL_VERSION, serial_version)?;
        ensure_preamble_longs_in(&[PREAMBLE_LONGS_SHORT], preamble_longs)?;
        proof { assert([PREAMBLE_LONGS_SHORT]@.contains(preamble_longs) ==> preamble_longs == 2); assert([PREAMBLE_LONGS_SHORT]@[0] == 2); }

        let num_buckets = cursor
            .read_u32_le()
            .vx_io("num_buckets")?;
        let num_hashes = cursor.read_u8().vx_io("num_hashes")?;
        let seed_hash = cursor
            .read_u16_le()
            .vx_io("seed_hash")?;
        cursor.read_u8().vx_io("unused8")?;

        let expected_seed_hash = compute_seed_hash(seed);
        if seed_hash != expected_seed_hash {
            return Err(Error::deserial(format!(
                "incompatible seed hash: expected {expected_seed_hash}, got {seed_hash}",
            )));
        }

        let entries = entries_for_config_checked(num_hashes, num_buckets)?;
        let mut sketch = Self::make(num_hashes, num_buckets, seed, entries, Ghost((b.len() as int, if flags & 1 != 0 { CM_CONFIG_MAX_EMPTY } else { 0int })));
        if (flags & FLAGS_IS_EMPTY) != 0 {
            proof { assert(vals(sketch.counts@) =~= izeros(entries as int)); }
            return Ok(sketch);
        }

        sketch.total_weight = read_value(&mut cursor, "total_weight")?;
        let mut vx_i1 = 0;
        while vx_i1 < sketch.counts.len()
          invariant vx_i1 <= entries, sketch.counts@.len() == entries, b == bytes@, b.len() >= 24, entries < 0x4000_0000,
            cursor.data() == b, cursor.pos() == 24 + 8 * vx_i1,
            sketch.num_hashes == num_hashes, sketch.num_buckets == num_buckets, sketch.seed == seed, sketch.seed_hash == seed_hash,
            sketch.hash_seeds@ == seeds_spec(seed, num_hashes), sketch.hash_seeds@.len() == num_hashes,
            sketch.total_weight.val() == cm_dec_total(T::signed(), b),
            entries == cm_hdr_entries(b), !cm_hdr_empty(b),
            /*@C13.cm.counts*/ forall|j: int| 0 <= j < vx_i1 ==> sketch.counts@[j].val() == dec_val_at(T::signed(), b, 24, j),
            b.len() >= 24 + 8 * vx_i1,
            /*@C13.cm.accepts*/ valid_cm_image::<T>(b, seed) ==> b.len() >= 24 + 8 * entries,
          decreases entries - vx_i1
        {
            let count = &mut sketch.counts[vx_i1];
            proof {
                if valid_cm_image::<T>(b, seed) { assert(T::in_range(dec_val_at(T::signed(), b, 24, vx_i1 as int))); }
            }
            *count = read_value(&mut cursor, "counts")?;
            vx_i1 += 1;
        }
        proof { assert(vals(sketch.counts@) =~= dec_vals(T::signed(), b, 24, entries as int)); }
        Ok(sketch)
    }

    fn make(num_hashes: u8, num_buckets: u32, seed: u64, entries: usize, Ghost(budget): Ghost<(int, int)>) -> (r: Self)
      requires cm_law::<T>(), num_hashes >= 1, num_buckets >= 3, entries == (num_hashes as int) * (num_buckets as int), entries < 0x4000_0000, seed_hash_spec(seed) != 0,
        /*@C14.cm.alloc_bounded*/ entries * 8 <= 16 * budget.0 + budget.1,
      ensures r.wf(), r.num_hashes == num_hashes, r.num_buckets == num_buckets, r.seed == seed, r.seed_hash == seed_hash_spec(seed),
        /*@C18.cm_fixed_size*/ r.counts@.len() == entries,
        r.total_weight.val() == 0, forall|i: int| 0 <= i < entries ==> #[trigger] r.counts@[i].val() == 0,
    {
        let counts = vx_alloc_vec(T::ZERO, entries, Ghost(budget));
        let seed_hash = compute_seed_hash(seed);
        let hash_seeds = make_hash_seeds(seed, num_hashes);
        CountMinSketch {
            num_hashes,
            num_buckets,
            seed,
            seed_hash,
            total_weight: T::ZERO,
            counts,
            hash_seeds,
        }
    }
}

// =====================================================================================================================
// C11 over both contracts: a verified client that serializes and parses back.  Not real code; it exists so that Verus composes the
// two contracts with lemma L.
// =====================================================================================================================
fn c11_roundtrip_cm<T: CountMinValue>(a: &CountMinSketch<T>) -> (s: CountMinSketch<T>)
  requires a.wf(), a.wf_total_zero(),
  ensures /*@C11.cm.roundtrip*/ s.img() == a.img() && s.seed == a.seed && s.hash_seeds@ == a.hash_seeds@, /*@C11.cm.wf*/ s.wf() && s.wf_total_zero(),
{
    let img = a.serialize();
    proof {
        let v = a.img();
        assert(cm_img_ok(T::signed(), v));
        if v.total == 0 {
            assert(v.counts =~= izeros(v.counts.len() as int));
            lemma_cm_roundtrip_empty(T::signed(), v);
        } else {
            lemma_cm_roundtrip_full(T::signed(), v);
            let b = enc_cm_full(v);
            assert forall|i: int| 0 <= i < cm_hdr_entries(b) implies T::in_range(#[trigger] dec_val_at(T::signed(), b, 24, i)) by {
                assert(dec_vals(T::signed(), b, 24, cm_hdr_entries(b))[i] == v.counts[i]);
            }
        }
    }
    let r = CountMinSketch::<T>::deserialize_with_seed(img.as_slice(), a.seed);
    match r {
        Ok(s) => s,
        Err(_) => { proof { assert(false); } c11_unreachable() }
    }
}
#[verifier::external_body] fn c11_unreachable<T: CountMinValue>() -> CountMinSketch<T> requires false { unreachable!() }

}
fn main(){}
