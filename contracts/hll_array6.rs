#![feature(allocator_api)]
use vstd::prelude::*;
use vstd::arithmetic::power2::*;
verus! {
global size_of usize == 8;

// ================= shims (R4): little-endian 16-bit codecs, std leaves =================
#[verifier::external_body]
fn vx_u16_from_le_bytes(b: [u8; 2]) -> (r: u16)
  ensures r == le16(b[0], b[1])
{ u16::from_le_bytes(b) }
#[verifier::external_body]
fn vx_u16_to_le_bytes(x: u16) -> (r: [u8; 2])
  ensures r[0] == lo8(x), r[1] == hi8(x)
{ x.to_le_bytes() }

spec fn le16(b0: u8, b1: u8) -> u16 { (b0 as u16) | ((b1 as u16) << 8) }
spec fn lo8(x: u16) -> u8 { (x & 0xff) as u8 }
spec fn hi8(x: u16) -> u8 { (x >> 8) as u8 }
spec fn put6(w: u16, sh: u16, v: u8) -> u16 { (w & !(0x3fu16 << sh)) | (((v as u16) & 0x3f) << sh) }
spec fn get6(w: u16, sh: u16) -> u8 { ((w >> sh) & 0x3f) as u8 }

// register i of the packed image = the 6 bits at bit 6i of the little-endian bit stream
spec fn reg6(bytes: Seq<u8>, i: int) -> u8 {
    let sb = 6 * i;
    get6(le16(bytes[sb / 8], bytes[sb / 8 + 1]), (sb % 8) as u16)
}

// ---- bit-vector facts about a 16-bit window ----
proof fn bv_same_field(w: u16, sh: u16, v: u8)
  requires sh < 8, v <= 63
  ensures get6(put6(w, sh, v), sh) == v
{
    assert(sh < 8 && v <= 63 ==> (((((w & !(0x3fu16 << sh)) | (((v as u16) & 0x3f) << sh)) >> sh) & 0x3f) as u8) == v) by (bit_vector);
}
proof fn bv_other_field_same_window(w: u16, sh: u16, shj: u16, v: u8)
  requires sh < 8, shj < 8, shj >= sh + 6 || sh >= shj + 6
  ensures get6(put6(w, sh, v), shj) == get6(w, shj)
{
    assert(sh < 8 && shj < 8 && (shj >= sh + 6 || sh >= shj + 6) ==>
       (((((w & !(0x3fu16 << sh)) | (((v as u16) & 0x3f) << sh)) >> shj) & 0x3f) as u8) == (((w >> shj) & 0x3f) as u8)) by (bit_vector);
}
// window one byte to the right: first byte is hi8 of the written window, second byte b2 untouched
proof fn bv_right_window(w: u16, sh: u16, shj: u16, v: u8, b2: u8)
  requires sh < 8, shj < 8, 8 + shj >= sh + 6
  ensures get6(le16(hi8(put6(w, sh, v)), b2), shj) == get6(le16(hi8(w), b2), shj)
{
    assert(sh < 8 && shj < 8 && 8 + shj >= sh + 6 ==>
      ((((((((w & !(0x3fu16 << sh)) | (((v as u16) & 0x3f) << sh)) >> 8) as u8) as u16) | ((b2 as u16) << 8)) >> shj) & 0x3f) as u8
      == (((((((w >> 8) as u8) as u16) | ((b2 as u16) << 8)) >> shj) & 0x3f) as u8)) by (bit_vector);
}
// window one byte to the left: first byte b0 untouched, second byte is lo8 of the written window
proof fn bv_left_window(w: u16, sh: u16, shj: u16, v: u8, b0: u8)
  requires sh < 8, shj < 8, shj + 6 <= 8 + sh
  ensures get6(le16(b0, lo8(put6(w, sh, v))), shj) == get6(le16(b0, lo8(w)), shj)
{
    assert(sh < 8 && shj < 8 && shj + 6 <= 8 + sh ==>
      (((((b0 as u16) | ((((((w & !(0x3fu16 << sh)) | (((v as u16) & 0x3f) << sh)) & 0xff) as u8) as u16) << 8)) >> shj) & 0x3f) as u8)
      == (((((b0 as u16) | (((((w & 0xff) as u8) as u16)) << 8)) >> shj) & 0x3f) as u8)) by (bit_vector);
}
proof fn bv_split(w: u16)
  ensures le16(lo8(w), hi8(w)) == w
{
    assert(((((w & 0xff) as u8) as u16) | ((((w >> 8) as u8) as u16) << 8)) == w) by (bit_vector);
}
proof fn bv_lo_hi(b0: u8, b1: u8)
  ensures lo8(le16(b0, b1)) == b0, hi8(le16(b0, b1)) == b1
{
    assert(((((b0 as u16) | ((b1 as u16) << 8)) & 0xff) as u8) == b0) by (bit_vector);
    assert(((((b0 as u16) | ((b1 as u16) << 8)) >> 8) as u8) == b1) by (bit_vector);
}

// ---- the array-level lemma: writing window `b` with put6 changes exactly register s ----
proof fn lemma_put6(old_b: Seq<u8>, new_b: Seq<u8>, s: int, v: u8, j: int)
  requires
    0 <= s, 0 <= j, v <= 63,
    (6 * s) / 8 + 1 < old_b.len(), (6 * j) / 8 + 1 < old_b.len(),
    new_b.len() == old_b.len(),
    ({ let b = (6 * s) / 8; let sh = ((6 * s) % 8) as u16; let w = le16(old_b[b], old_b[b + 1]);
       &&& new_b[b] == lo8(put6(w, sh, v))
       &&& new_b[b + 1] == hi8(put6(w, sh, v))
       &&& forall|x: int| 0 <= x < old_b.len() && x != b && x != b + 1 ==> new_b[x] == old_b[x] }),
  ensures reg6(new_b, j) == if j == s { v } else { reg6(old_b, j) }
{
    let b = (6 * s) / 8; let sh = ((6 * s) % 8) as u16; let w = le16(old_b[b], old_b[b + 1]);
    let bj = (6 * j) / 8; let shj = ((6 * j) % 8) as u16;
    let w2 = put6(w, sh, v);
    bv_split(w2);
    bv_lo_hi(old_b[b], old_b[b + 1]);
    if j == s {
        bv_same_field(w, sh, v);
    } else if bj == b {
        // both start in the same byte: offsets differ by exactly 6
        bv_other_field_same_window(w, sh, shj, v);
    } else if bj == b + 1 {
        bv_right_window(w, sh, shj, v, old_b[b + 2]);
    } else if bj == b - 1 {
        bv_left_window(w, sh, shj, v, old_b[b - 1]);
    } else {
    }
}

// ================= coupons (hll/mod.rs) =================
const KEY_BITS_26 : u32 = 26 ;


exec const KEY_MASK_26 : u32 ensures KEY_MASK_26 == 0x3ffffff {
proof {
assert ( ( 1u32 << 26u32 ) - 1 == 0x3ffffff ) by ( bit_vector ) ;
}
( 1 << KEY_BITS_26 ) - 1 }



spec fn cslot(c: u32) -> u32 { c & 0x3ffffff }
spec fn cval(c: u32) -> u8 { (c >> 26) as u8 }

fn get_slot ( coupon : u32 ) -> ( r : u32 ) ensures r == cslot ( coupon ) {
proof {
assert ( coupon & 0x3ffffff == coupon % 0x4000000 && coupon & 0x3ffffff == 0x3ffffff & coupon ) by ( bit_vector ) ;
}
coupon & KEY_MASK_26 }



fn get_value ( coupon : u32 ) -> ( r : u8 ) ensures r == cval ( coupon ) , r <= 63 {
proof {
assert ( ( coupon >> 26 ) <= 63 ) by ( bit_vector ) ;
assert ( coupon >> 26 == coupon / 0x4000000 && ( 1u32 << 26 ) == 0x4000000 ) by ( bit_vector ) ;
}
( coupon >> KEY_BITS_26 ) as u8 }



pub assume_specification<T, A: core::alloc::Allocator> [ Vec::<T, A>::into_boxed_slice ] (v: Vec<T, A>) -> (r: Box<[T], A>)
  ensures r@ == v@;

// ================= estimator (float state; opaque) =================
// The HIP estimator holds only floating-point accumulators.  Its contract here: update() appends the transition
// (old_value, new_value) to a ghost log and touches nothing else (it has no access to the register array).
#[verifier::external_body]
struct HipEstimator { _p: u8 }
impl HipEstimator {
    uninterp spec fn log(&self) -> Seq<(u8, u8)>;
    #[verifier::external_body]
    fn new(lg_config_k: u8) -> (r: Self)
      requires lg_config_k < 32   // `1 << lg_config_k` is an i32 shift (unit hll_api)
      ensures r.log() == Seq::<(u8, u8)>::empty()
    { unimplemented!() }
    #[verifier::external_body]
    fn update(&mut self, lg_config_k: u8, old_value: u8, new_value: u8)
      ensures final(self).log() == old(self).log().push((old_value, new_value))
    { unimplemented!() }
}

// ================= hll/array6.rs (real code + overlay) =================
const VAL_MASK_6 : u16 = 0x3F ;



struct Array6 {
lg_config_k : u8 , bytes : Box < [ u8 ] > , num_zeros : u32 , estimator : HipEstimator , }



proof fn lemma_k(l: u8)
  requires 4 <= l <= 21
  ensures 16 <= pow2(l as nat) <= 0x20_0000, pow2(l as nat) % 4 == 0, (1u32 << l) == pow2(l as nat)
{
    lemma2_to64();
    if l < 21 { lemma_pow2_strictly_increases(l as nat, 21); }
    if l > 4 { lemma_pow2_strictly_increases(4, l as nat); }
    lemma_pow2_adds(2, (l - 2) as nat);
    vstd::bits::lemma_u32_shl_is_mul(1, l as u32);
    assert((1u32 << (l as u32)) == (1u32 << l));
}
proof fn lemma_lbm(n: nat)
  ensures vstd::bits::low_bits_mask(n) == pow2(n) - 1
  decreases n
{
    lemma2_to64();
    vstd::bits::lemma_low_bits_mask_values();
    if n > 0 { lemma_lbm((n - 1) as nat); vstd::bits::lemma_low_bits_mask_unfold(n); lemma_pow2_unfold(n); }
}
proof fn lemma_mask(x: u32, l: u8)
  requires 4 <= l <= 21
  ensures (x & (((1u32 << l) - 1) as u32)) == x % (pow2(l as nat) as u32), (x & (((1u32 << l) - 1) as u32)) < pow2(l as nat),
    ((((1u32 << l) - 1) as u32) & x) == (x & (((1u32 << l) - 1) as u32))
{
    lemma_k(l);
    let m = ((1u32 << l) - 1) as u32;
    assert(m & x == x & m) by (bit_vector);
    vstd::bits::lemma_u32_low_bits_mask_is_mod(x, l as nat);
    lemma_lbm(l as nat);
}

// number of zero registers among the first n
spec fn cnt0(r: Seq<u8>, n: int) -> int decreases n {
    if n <= 0 { 0 } else { cnt0(r, n - 1) + (if r[n - 1] == 0 { 1int } else { 0int }) }
}
proof fn lemma_cnt0_bounds(r: Seq<u8>, n: int, s: int)
  requires 0 <= s < n <= r.len()
  ensures 0 <= cnt0(r, n) <= n, r[s] == 0 ==> cnt0(r, n) >= 1
  decreases n
{
    if n - 1 > s { lemma_cnt0_bounds(r, n - 1, s); }
    else { lemma_cnt0_nonneg(r, n - 1); }
}
proof fn lemma_cnt0_nonneg(r: Seq<u8>, n: int)
  ensures 0 <= cnt0(r, n) <= (if n >= 0 { n } else { 0 })
  decreases n
{
    if n > 0 { lemma_cnt0_nonneg(r, n - 1); }
}
proof fn lemma_cnt0_update(r: Seq<u8>, s: int, v: u8, n: int)
  requires 0 <= s < r.len(), 0 <= n <= r.len(), v != 0
  ensures cnt0(r.update(s, v), n) == cnt0(r, n) - (if s < n && r[s] == 0 { 1int } else { 0int })
  decreases n
{
    if n > 0 { lemma_cnt0_update(r, s, v, n - 1); }
}

proof fn lemma_cnt0_zero(r: Seq<u8>, n: int)
  requires 0 <= n <= r.len(), forall|i: int| 0 <= i < r.len() ==> r[i] == 0
  ensures cnt0(r, n) == n
  decreases n
{
    if n > 0 { lemma_cnt0_zero(r, n - 1); }
}
proof fn lemma_reg6_zero(b: Seq<u8>, i: int)
  requires 0 <= i, (6 * i) / 8 + 1 < b.len(), forall|x: int| 0 <= x < b.len() ==> b[x] == 0
  ensures reg6(b, i) == 0
{
    let sh = ((6 * i) % 8) as u16;
    assert(sh < 8 ==> (((((0u8 as u16) | ((0u8 as u16) << 8)) >> sh) & 0x3f) as u8) == 0) by (bit_vector);
}

proof fn lemma_new(a: Array6)
  requires 4 <= a.lg_config_k <= 21, a.num_zeros == a.k(), a.bytes@.len() == (a.k() * 3) / 4 + 1,
    forall|x: int| 0 <= x < a.bytes@.len() ==> a.bytes@[x] == 0u8
  ensures a.wf(), a.regs() == Seq::new(pow2(a.lg_config_k as nat), |i: int| 0u8)
{
    lemma_k(a.lg_config_k);
    assert forall|i: int| 0 <= i < a.k() implies #[trigger] a.regs()[i] == 0u8 by { lemma_reg6_zero(a.bytes@, i); }
    assert(a.regs() =~= Seq::new(pow2(a.lg_config_k as nat), |i: int| 0u8));
    lemma_cnt0_zero(a.regs(), a.k());
}

fn num_bytes_for_k ( k : u32 ) -> ( r : usize ) requires k <= 0x20_0000 ensures r == ( k * 3 ) / 4 + 1 {
proof {
let k3 = ( k * 3 ) as u32 ;
assert ( ( k3 >> 2 ) == k3 / 4 ) by ( bit_vector ) ;
}
( ( ( k * 3 ) >> 2 ) + 1 ) as usize }


spec fn max8(a: u8, b: u8) -> u8 { if a >= b { a } else { b } }
// the slot a coupon addresses in a sketch with 2^lg registers
spec fn slot_of(c: u32, lg: u8) -> int { (cslot(c) as int) % (pow2(lg as nat) as int) }

impl Array6 {
    spec fn k(&self) -> int { pow2(self.lg_config_k as nat) as int }
    // refinement of the abstract register model of units hll_sketch / hll_union (`lg` is uninterpreted there)
    spec fn lg(&self) -> u8 { self.lg_config_k }
    spec fn shape(&self) -> bool {
        4 <= self.lg_config_k <= 21 && self.bytes@.len() == (self.k() * 3) / 4 + 1
    }
    // the abstract view: 2^lg_k registers
    spec fn regs(&self) -> Seq<u8> {
        Seq::new(self.k() as nat, |i: int| reg6(self.bytes@, i))
    }
    spec fn wf(&self) -> bool {
        &&& self.shape()
        &&& self.num_zeros == cnt0(self.regs(), self.k())
    }

    fn new ( lg_config_k : u8 ) -> ( r : Self ) requires 4 <= lg_config_k <= 21 ensures /*@C02.init_wf*/ r . wf ( ) , r . lg_config_k == lg_config_k ,
/*@C02.init*/ r . regs ( ) == Seq :: new ( pow2 ( lg_config_k as nat ) , | i : int | 0u8 ) ,
/*@C02.init_log*/ r . estimator . log ( ) == Seq :: < ( u8 , u8 ) > :: empty ( ) , {
proof {
lemma_k ( lg_config_k ) ;
}
let k = 1 << lg_config_k ;
let num_bytes = num_bytes_for_k ( k ) ;
proof {
assert forall | a : Array6 | a . lg_config_k == lg_config_k && a . num_zeros == k && a . bytes @ . len ( ) == num_bytes && ( forall | x : int | 0 <= x < a . bytes @ . len ( ) ==> a . bytes @ [ x ] == 0u8 ) implies # [ trigger ] a . wf ( ) && a . regs ( ) == Seq :: new ( pow2 ( lg_config_k as nat ) , | i : int | 0u8 ) by {
lemma_new ( a ) ;
}
}
Self {
lg_config_k , bytes : vec! [ 0u8 ;
num_bytes ] . into_boxed_slice ( ) , num_zeros : k , estimator : HipEstimator :: new ( lg_config_k ) , }
}


    fn get_raw ( & self , slot : u32 ) -> ( r : u8 ) requires self . shape ( ) , slot < self . k ( ) ensures
/*@C02.get_raw*/ r == self . regs ( ) [ slot as int ] , r <= 63 {
proof {
lemma_k ( self . lg_config_k ) ;
}
let start_bit = slot * 6 ;
let byte_idx = ( start_bit >> 3 ) as usize ;
let shift = ( start_bit & 7 ) as u8 ;
proof {
assert ( start_bit >> 3 == start_bit / 8 ) by ( bit_vector ) ;
assert ( start_bit & 7 == start_bit % 8 ) by ( bit_vector ) ;
}
let two_bytes = vx_u16_from_le_bytes ( [ self . bytes [ byte_idx ] , self . bytes [ byte_idx + 1 ] ] ) ;
proof {
assert ( ( ( two_bytes >> shift ) & 0x3f ) <= 63 && ( two_bytes >> shift ) & 0x3f == 0x3f & ( two_bytes >> shift ) ) by ( bit_vector ) ;
}
( ( two_bytes >> shift ) & VAL_MASK_6 ) as u8 }



    fn get ( & self , slot : u32 ) -> ( r : u8 ) requires self . shape ( ) , slot < self . k ( ) ensures
/*@C02.get*/ r == self . regs ( ) [ slot as int ] , r <= 63 {
self . get_raw ( slot ) }



    fn put_raw ( & mut self , slot : u32 , value : u8 ) requires old ( self ) . shape ( ) , slot < old ( self ) . k ( ) , value <= 63 ensures final ( self ) . shape ( ) , final ( self ) . lg_config_k == old ( self ) . lg_config_k , final ( self ) . num_zeros == old ( self ) . num_zeros , final ( self ) . estimator == old ( self ) . estimator ,
/*@C02.put_raw*/ final ( self ) . regs ( ) == old ( self ) . regs ( ) . update ( slot as int , value ) {
proof {
lemma_k ( self . lg_config_k ) ;
}
debug_assert! ( value <= 63 ) ;
let start_bit = slot * 6 ;
let byte_idx = ( start_bit >> 3 ) as usize ;
let shift = ( start_bit & 0x7 ) as u8 ;
proof {
assert ( start_bit >> 3 == start_bit / 8 ) by ( bit_vector ) ;
assert ( start_bit & 7 == start_bit % 8 ) by ( bit_vector ) ;
}
let mut two_bytes = vx_u16_from_le_bytes ( [ self . bytes [ byte_idx ] , self . bytes [ byte_idx + 1 ] ] ) ;
let ghost w = two_bytes ;
two_bytes &= ! ( VAL_MASK_6 << shift ) ;
two_bytes |= ( ( value as u16 ) & VAL_MASK_6 ) << shift ;
let bytes_out = vx_u16_to_le_bytes ( two_bytes ) ;
self . bytes [ byte_idx ] = bytes_out [ 0 ] ;
self . bytes [ byte_idx + 1 ] = bytes_out [ 1 ] ;
proof {
assert ( two_bytes == put6 ( w , shift as u16 , value ) ) ;
let ob = old ( self ) . bytes @ ;
let nb = self . bytes @ ;
assert forall | j : int | 0 <= j < self . k ( ) implies # [ trigger ] self . regs ( ) [ j ] == old ( self ) . regs ( ) . update ( slot as int , value ) [ j ] by {
lemma_put6 ( ob , nb , slot as int , value , j ) ;
}
assert ( self . regs ( ) =~= old ( self ) . regs ( ) . update ( slot as int , value ) ) ;
}
}



    fn update ( & mut self , coupon : u32 ) requires old ( self ) . wf ( ) ensures /*@C02.num_zeros*/ final ( self ) . wf ( ) , final ( self ) . lg_config_k == old ( self ) . lg_config_k ,
/*@C02.regs*/ final ( self ) . regs ( ) == old ( self ) . regs ( ) . update ( slot_of ( coupon , old ( self ) . lg_config_k ) , max8 ( old ( self ) . regs ( ) [ slot_of ( coupon , old ( self ) . lg_config_k ) ] , cval ( coupon ) ) ) ,
/*@C02.log*/ final ( self ) . estimator . log ( ) == ( if cval ( coupon ) > old ( self ) . regs ( ) [ slot_of ( coupon , old ( self ) . lg_config_k ) ] {
old ( self ) . estimator . log ( ) . push ( ( old ( self ) . regs ( ) [ slot_of ( coupon , old ( self ) . lg_config_k ) ] , cval ( coupon ) ) ) }
else {
old ( self ) . estimator . log ( ) }
) , {
proof {
lemma_k ( self . lg_config_k ) ;
lemma_mask ( cslot ( coupon ) , self . lg_config_k ) ;
}
let mask = ( 1 << self . lg_config_k ) - 1 ;
let slot = get_slot ( coupon ) & mask ;
let new_value = get_value ( coupon ) ;
let old_value = self . get_raw ( slot ) ;
proof {
assert ( old ( self ) . regs ( ) . update ( slot as int , old_value ) =~= old ( self ) . regs ( ) ) ;
}
if new_value > old_value {
self . estimator . update ( self . lg_config_k , old_value , new_value ) ;
self . put_raw ( slot , new_value ) ;
proof {
lemma_cnt0_update ( old ( self ) . regs ( ) , slot as int , new_value , self . k ( ) ) ;
lemma_cnt0_bounds ( old ( self ) . regs ( ) , self . k ( ) , slot as int ) ;
}
if old_value == 0 {
self . num_zeros -= 1 ;
}
}
}


}
}
fn main(){}
