use vstd::prelude::*;
use vstd::std_specs::cmp::*;
use vstd::std_specs::ops::*;
use std::hash::Hash;
use core::cmp::Ordering;
verus! {
global size_of usize == 8;

// ================= countmin/value.rs as a Verus trait spec =================
// (private::Sealed dropped; to_f64/from_f64/to_bytes/try_from_bytes are not used by the functions of this unit)
pub open spec fn iabs(v: int) -> int { if v >= 0 { v } else { -v } }
// float leaves of upper_bound: `v as f64`, `x.trunc() as T`, `E / num_buckets as f64`
pub uninterp spec fn cm_to_f64(v: int) -> f64;
pub uninterp spec fn cm_from_f64<T>(x: f64) -> int;
pub uninterp spec fn rel_err_spec(nb: u32) -> f64;
// Rust float arithmetic never traps, and `*` is a function of its operands
#[verifier::external_body] pub proof fn axiom_f64_mul()
  ensures forall|a: f64, b: f64| #[trigger] MulSpec::mul_req(a, b), <f64 as MulSpec>::obeys_mul_spec() {}
// the additive error term of upper_bound: T::from_f64(relative_error() * total_weight.to_f64())
pub open spec fn ub_err<T: CountMinValue>(nb: u32, total: int) -> int { cm_from_f64::<T>(rel_err_spec(nb).mul_spec(cm_to_f64(total))) }
// float leaf: `(v as f64 * d).trunc() as T`
pub uninterp spec fn decay_spec(v: int, d: f64) -> int;

pub trait CountMinValue: Copy + Ord {
    spec fn val(self) -> int;
    spec fn in_range(v: int) -> bool;
    const ZERO: Self;
    const ONE: Self;
    const MAX: Self;
    fn add(self, other: Self) -> (r: Self)
      requires Self::in_range(self.val() + other.val())
      ensures r.val() == self.val() + other.val();
    fn abs(self) -> (r: Self)
      requires Self::in_range(iabs(self.val()))
      ensures r.val() == iabs(self.val());
    // float conversions (`self as f64`, `value.trunc() as T`): uninterpreted functions of the value
    fn to_f64(self) -> (r: f64)
      ensures r == cm_to_f64(self.val());
    fn from_f64(value: f64) -> (r: Self)
      ensures r.val() == cm_from_f64::<Self>(value);
}
pub trait UnsignedCountMinValue: CountMinValue {
    fn halve(self) -> (r: Self)
      ensures r.val() == self.val() / 2;
    fn decay(self, decay: f64) -> (r: Self)
      ensures r.val() == decay_spec(self.val(), decay);
}
spec fn ord_of(a: int, b: int) -> Ordering { if a < b { Ordering::Less } else if a == b { Ordering::Equal } else { Ordering::Greater } }
// what the sealed instances (u8..u64, i8..i64) satisfy: `==`, `<` compare the values; the constants are 0, 1 and the maximum
spec fn cm_law<T: CountMinValue>() -> bool {
    &&& <T as PartialEqSpec>::obeys_eq_spec() && forall|a: T, b: T| #[trigger] a.eq_spec(&b) == (a.val() == b.val())
    &&& <T as PartialOrdSpec>::obeys_partial_cmp_spec() && forall|a: T, b: T| #[trigger] a.partial_cmp_spec(&b) == Some(ord_of(a.val(), b.val()))
    &&& T::ZERO.val() == 0 && T::ONE.val() == 1
    &&& forall|a: T| T::in_range(#[trigger] a.val()) && a.val() <= T::MAX.val()
    // Clone of a Copy counter is the counter (used by `vec![T::ZERO; n]`)
    &&& forall|a: T, b: T| #[trigger] cloned::<T>(a, b) ==> a == b
}
spec fn unsigned_law<T: CountMinValue>() -> bool { forall|a: T| #[trigger] a.val() >= 0 }

// two instances, to show that the trait spec and the laws are satisfiable by the real macro bodies
impl CountMinValue for u64 {
    open spec fn val(self) -> int { self as int }
    open spec fn in_range(v: int) -> bool { 0 <= v <= u64::MAX }
    const ZERO: Self = 0;
    const ONE: Self = 1;
    const MAX: Self = u64::MAX;
    fn add(self, other: Self) -> (r: Self) { self + other }
    fn abs(self) -> (r: Self) { self }
    #[verifier::external_body] fn to_f64(self) -> (r: f64) { self as f64 }
    #[verifier::external_body] fn from_f64(value: f64) -> (r: Self) { value.trunc() as u64 }
}
impl CountMinValue for i64 {
    open spec fn val(self) -> int { self as int }
    open spec fn in_range(v: int) -> bool { i64::MIN <= v <= i64::MAX }
    const ZERO: Self = 0;
    const ONE: Self = 1;
    const MAX: Self = i64::MAX;
    fn add(self, other: Self) -> (r: Self) { self + other }
    fn abs(self) -> (r: Self) { if self >= 0 { self } else { -self } }
    #[verifier::external_body] fn to_f64(self) -> (r: f64) { self as f64 }
    #[verifier::external_body] fn from_f64(value: f64) -> (r: Self) { value.trunc() as i64 }
}
proof fn lemma_law_u64() ensures cm_law::<u64>(), unsigned_law::<u64>() {}
proof fn lemma_law_i64() ensures cm_law::<i64>() {}

// ================= model: history of events =================
spec fn cell(r: int, b: int, n: int) -> int { r * n + b }
// identity of an item = the byte stream its Hash impl feeds the hasher (C16)
pub uninterp spec fn item_key<I>(item: I) -> int;
// murmur3_x64_128(seed, bytes(key)).h1 % nb
// the documented bucket of a row: h1 of MurmurHash3-x64-128(seed, item bytes) modulo the number of buckets (reference derivation, C16)
pub uninterp spec fn murmur_h1_key(seed: u64, key: int) -> u64;
pub open spec fn bucket(key: int, seed: u64, nb: u32) -> int { (murmur_h1_key(seed, key) % (nb as u64)) as int }
// the hasher is a leaf here (its digest is the subject of unit hash_murmur)
#[verifier::external_body] struct MurmurHash3X64128 { _p: u8 }
impl MurmurHash3X64128 {
    uninterp spec fn seed_of(&self) -> u64;
    uninterp spec fn h1(&self) -> u64;
    #[verifier::external_body] fn with_seed(seed: u64) -> (r: Self) ensures r.seed_of() == seed { unimplemented!() }
    #[verifier::external_body] fn finish128(&self) -> (r: (u64, u64)) ensures r.0 == self.h1() { unimplemented!() }
}
// R7 shim for `item.hash(&mut hasher)`: feeding the item to a hasher seeded with s makes its first digest word murmur_h1_key(s, item_key(item))
#[verifier::external_body]
fn vx_hash_item<I: Hash>(item: &I, hasher: &mut MurmurHash3X64128)
  ensures final(hasher).h1() == murmur_h1_key(old(hasher).seed_of(), item_key(*item))
{ unimplemented!() /* item.hash(hasher) */ }


pub enum Ev { Upd(int, int), Halve, Decay(f64) }
spec fn scale(e: Ev, v: int) -> int {
    match e { Ev::Upd(_, _) => v, Ev::Halve => v / 2, Ev::Decay(d) => decay_spec(v, d) }
}
spec fn model_cell(h: Seq<Ev>, seed: u64, b: int, nb: u32) -> int decreases h.len() {
    if h.len() == 0 { 0 } else {
        let p = model_cell(h.drop_last(), seed, b, nb);
        match h.last() { Ev::Upd(k, w) => p + (if bucket(k, seed, nb) == b { w } else { 0 }), e => scale(e, p) }
    }
}
spec fn truth(h: Seq<Ev>, x: int) -> int decreases h.len() {
    if h.len() == 0 { 0 } else {
        let p = truth(h.drop_last(), x);
        match h.last() { Ev::Upd(k, w) => p + (if k == x { w } else { 0 }), e => scale(e, p) }
    }
}
spec fn total(h: Seq<Ev>) -> int decreases h.len() {
    if h.len() == 0 { 0 } else {
        let p = total(h.drop_last());
        match h.last() { Ev::Upd(k, w) => p + iabs(w), e => scale(e, p) }
    }
}
spec fn nonneg(h: Seq<Ev>) -> bool { forall|i: int| 0 <= i < h.len() ==> (#[trigger] h[i] matches Ev::Upd(k, w) ==> w >= 0) }
spec fn upd_only(h: Seq<Ev>) -> bool { forall|i: int| 0 <= i < h.len() ==> #[trigger] h[i] is Upd }

// float leaf assumption: truncating multiplication by a factor in (0, 1] is monotone and keeps 0 <= .
#[verifier::external_body]
proof fn axiom_decay_monotone(a: int, b: int, d: f64)
  requires 0 <= a <= b
  ensures 0 <= decay_spec(a, d) <= decay_spec(b, d)
{}

proof fn lemma_scale_mono(e: Ev, a: int, b: int)
  requires 0 <= a <= b
  ensures 0 <= scale(e, a) <= scale(e, b)
{
    match e { Ev::Decay(d) => { axiom_decay_monotone(a, b, d); } _ => {} }
}
// the one-sided guarantee at the level of the model table
proof fn lemma_one_sided(h: Seq<Ev>, x: int, seed: u64, nb: u32)
  requires nonneg(h)
  ensures 0 <= truth(h, x) <= model_cell(h, seed, bucket(x, seed, nb), nb) <= total(h)
  decreases h.len()
{
    if h.len() > 0 {
        let g = h.drop_last();
        assert forall|i: int| 0 <= i < g.len() implies (#[trigger] g[i] matches Ev::Upd(k, w) ==> w >= 0) by { assert(g[i] == h[i]); }
        lemma_one_sided(g, x, seed, nb);
        let e = h.last();
        assert(h[h.len() - 1] == e);
        match e {
            Ev::Upd(k, w) => {}
            _ => {
                lemma_scale_mono(e, truth(g, x), model_cell(g, seed, bucket(x, seed, nb), nb));
                lemma_scale_mono(e, model_cell(g, seed, bucket(x, seed, nb), nb), total(g));
            }
        }
    }
}
proof fn lemma_push(h: Seq<Ev>, e: Ev)
  ensures h.push(e).drop_last() == h, h.push(e).last() == e
{
    assert(h.push(e).drop_last() =~= h);
}
proof fn lemma_concat_upd(a: Seq<Ev>, b: Seq<Ev>, seed: u64, bk: int, nb: u32)
  requires upd_only(b)
  ensures model_cell(a + b, seed, bk, nb) == model_cell(a, seed, bk, nb) + model_cell(b, seed, bk, nb),
    total(a + b) == total(a) + total(b),
  decreases b.len()
{
    if b.len() == 0 { assert(a + b =~= a); }
    else {
        let b0 = b.drop_last();
        assert forall|i: int| 0 <= i < b0.len() implies #[trigger] b0[i] is Upd by { assert(b0[i] == b[i]); }
        lemma_concat_upd(a, b0, seed, bk, nb);
        assert((a + b).drop_last() =~= a + b0);
        assert((a + b).last() == b.last());
        assert(b[b.len() - 1] is Upd);
    }
}
proof fn lemma_idx_inj(r: int, b: int, r2: int, b2: int, n: int)
  requires 0 <= b < n, 0 <= b2 < n, 0 <= r, 0 <= r2
  ensures (r * n + b == r2 * n + b2) <==> (r == r2 && b == b2)
{
    if r * n + b == r2 * n + b2 {
        if r < r2 { assert(r2 * n >= (r + 1) * n) by (nonlinear_arith) requires r2 >= r + 1, n > 0; assert((r + 1) * n == r * n + n) by (nonlinear_arith); }
        if r2 < r { assert(r * n >= (r2 + 1) * n) by (nonlinear_arith) requires r >= r2 + 1, n > 0; assert((r2 + 1) * n == r2 * n + n) by (nonlinear_arith); }
    }
}
proof fn lemma_cell_inj(r0: int, b0: int, nh: int, nb: int)
  requires 0 <= r0 < nh, 0 <= b0 < nb
  ensures forall|r: int, b: int| 0 <= r < nh && 0 <= b < nb ==> (#[trigger] cell(r, b, nb) == cell(r0, b0, nb) <==> (r == r0 && b == b0))
{
    assert forall|r: int, b: int| 0 <= r < nh && 0 <= b < nb implies (#[trigger] cell(r, b, nb) == cell(r0, b0, nb) <==> (r == r0 && b == b0)) by {
        lemma_idx_inj(r, b, r0, b0, nb);
    }
}
proof fn lemma_cell_bound(r: int, b: int, nh: int, nb: int)
  requires 0 <= r < nh, 0 <= b < nb
  ensures 0 <= cell(r, b, nb) < nh * nb, cell(r, b, nb) < (r + 1) * nb
{
    assert(r * nb + b < (r + 1) * nb) by (nonlinear_arith) requires b < nb;
    assert((r + 1) * nb <= nh * nb) by (nonlinear_arith) requires r + 1 <= nh, nb >= 0;
    assert(r * nb >= 0) by (nonlinear_arith) requires r >= 0, nb >= 0;
}
// every table index is a cell
proof fn lemma_cell_surj(i: int, nh: int, nb: int)
  requires 0 <= i < nh * nb, nb > 0
  ensures 0 <= i / nb < nh, 0 <= i % nb < nb, cell(i / nb, i % nb, nb) == i
{
    vstd::arithmetic::div_mod::lemma_fundamental_div_mod(i, nb);
    vstd::arithmetic::div_mod::lemma_mod_bound(i, nb);
    let q = i / nb;
    assert(nb * q == q * nb) by (nonlinear_arith);
    if q >= nh { assert(q * nb >= nh * nb) by (nonlinear_arith) requires q >= nh, nb > 0; }
    if q < 0 { assert(q * nb <= -nb) by (nonlinear_arith) requires q <= -1, nb > 0; }
}

const DEFAULT_UPDATE_SEED : u64 = 9001 ;



const MAX_TABLE_ENTRIES : usize = 1 << 30 ;





struct CountMinSketch < T : CountMinValue > {
num_hashes : u8 , num_buckets : u32 , seed : u64 , seed_hash : u16 , total_weight : T , counts : Vec < T > , hash_seeds : Vec < u64 > , }





spec fn fits<T: CountMinValue>(c: T, w: T) -> bool { T::in_range(c.val() + w.val()) }
// per-row hash seeds derived from the sketch seed (make_hash_seeds)
pub uninterp spec fn seeds_spec(seed: u64, n: u8) -> Seq<u64>;   // = cm_seeds_spec of contracts/hash_murmur.rs, where make_hash_seeds is verified

impl<T: CountMinValue> CountMinSketch<T> {
    spec fn wf(&self) -> bool {
        &&& cm_law::<T>()
        &&& self.num_buckets >= 3 && self.num_hashes >= 1
        &&& self.hash_seeds@.len() == self.num_hashes
        &&& self.hash_seeds@ == seeds_spec(self.seed, self.num_hashes)
        &&& self.counts@.len() == self.num_hashes as int * self.num_buckets as int
        &&& self.counts@.len() < MAX_TABLE_ENTRIES
    }
    // everything except the counters and the total
    spec fn same_config(&self, o: &Self) -> bool {
        &&& self.num_hashes == o.num_hashes && self.num_buckets == o.num_buckets && self.seed == o.seed && self.seed_hash == o.seed_hash
        &&& self.hash_seeds@ == o.hash_seeds@ && self.counts@.len() == o.counts@.len()
    }
    spec fn cnt(&self, r: int, b: int) -> int { self.counts@[cell(r, b, self.num_buckets as int)].val() }
    // the counter that row r reads for `key`
    spec fn row_val(&self, key: int, r: int) -> int { self.cnt(r, bucket(key, self.hash_seeds@[r], self.num_buckets)) }
    // the table is the model table of the history, the total is the exact sum of |weights|
    spec fn models(&self, h: Seq<Ev>) -> bool {
        &&& self.total_weight.val() == total(h)
        &&& forall|r: int, b: int| 0 <= r < self.num_hashes && 0 <= b < self.num_buckets ==>
              self.counts@[#[trigger] cell(r, b, self.num_buckets as int)].val() == model_cell(h, self.hash_seeds@[r], b, self.num_buckets)
    }

    fn bucket_index < I : Hash > ( & self , item : & I , seed : u64 ) -> ( r : usize ) requires self . num_buckets > 0 , ensures
/*@C08.bucket_formula,C16.cm_bucket*/ r == bucket ( item_key ( * item ) , seed , self . num_buckets ) , r < self . num_buckets , {
let mut hasher = MurmurHash3X64128 :: with_seed ( seed ) ;
vx_hash_item ( item , & mut hasher ) ;
let ( h1 , _ ) = hasher . finish128 ( ) ;
( h1 % self . num_buckets as u64 ) as usize }



    fn make ( num_hashes : u8 , num_buckets : u32 , seed : u64 , entries : usize ) -> ( r : Self ) requires cm_law :: < T > ( ) , num_hashes >= 1 , num_buckets >= 3 , entries == ( num_hashes as int ) * ( num_buckets as int ) , entries < MAX_TABLE_ENTRIES , seed_hash_spec ( seed ) != 0 , ensures r . wf ( ) , r . num_hashes == num_hashes , r . num_buckets == num_buckets , r . seed == seed ,
/*@C18.cm_fixed_size*/ r . counts @ . len ( ) == num_hashes as int * num_buckets as int ,
/*@C08.empty_model*/ r . models ( Seq :: < Ev > :: empty ( ) ) , {
let counts = vec! [ T :: ZERO ;
entries ] ;
let seed_hash = compute_seed_hash ( seed ) ;
let hash_seeds = make_hash_seeds ( seed , num_hashes ) ;
proof {
assert forall | r : int , b : int | 0 <= r < num_hashes && 0 <= b < num_buckets implies counts @ [ # [ trigger ] cell ( r , b , num_buckets as int ) ] . val ( ) == 0 by {
lemma_cell_bound ( r , b , num_hashes as int , num_buckets as int ) ;
}
}
CountMinSketch {
num_hashes , num_buckets , seed , seed_hash , total_weight : T :: ZERO , counts , hash_seeds , }
}





    fn new ( num_hashes : u8 , num_buckets : u32 ) -> ( r : Self ) requires cm_law :: < T > ( ) , seed_hash_spec ( DEFAULT_UPDATE_SEED ) != 0 , ensures r . wf ( ) ,
/*@C08.new_config_validated*/ num_hashes > 0 && num_buckets >= 3 && ( num_hashes as int ) * ( num_buckets as int ) < MAX_TABLE_ENTRIES , r . num_hashes == num_hashes , r . num_buckets == num_buckets , r . seed == DEFAULT_UPDATE_SEED ,
/*@C18.cm_fixed_size*/ r . counts @ . len ( ) == ( num_hashes as int ) * ( num_buckets as int ) ,
/*@C08.empty_model*/ r . models ( Seq :: < Ev > :: empty ( ) ) , {
Self :: with_seed ( num_hashes , num_buckets , DEFAULT_UPDATE_SEED ) }




    fn with_seed ( num_hashes : u8 , num_buckets : u32 , seed : u64 ) -> ( r : Self ) requires cm_law :: < T > ( ) , seed_hash_spec ( seed ) != 0 , ensures r . wf ( ) ,
/*@C08.with_seed_config_validated*/ num_hashes > 0 && num_buckets >= 3 && ( num_hashes as int ) * ( num_buckets as int ) < MAX_TABLE_ENTRIES , r . num_hashes == num_hashes , r . num_buckets == num_buckets , r . seed == seed ,
/*@C18.cm_fixed_size*/ r . counts @ . len ( ) == ( num_hashes as int ) * ( num_buckets as int ) ,
/*@C08.empty_model*/ r . models ( Seq :: < Ev > :: empty ( ) ) , {
let entries = entries_for_config ( num_hashes , num_buckets ) ;
Self :: make ( num_hashes , num_buckets , seed , entries ) }




    fn num_hashes ( & self ) -> ( r : u8 ) ensures r == self . num_hashes , {
self . num_hashes }




    fn num_buckets ( & self ) -> ( r : u32 ) ensures r == self . num_buckets , {
self . num_buckets }




    fn seed ( & self ) -> ( r : u64 ) ensures r == self . seed , {
self . seed }




    fn is_empty ( & self ) -> ( r : bool ) requires cm_law :: < T > ( ) , ensures r == ( self . total_weight . val ( ) == 0 ) , {
self . total_weight == T :: ZERO }





    fn update < I : Hash > ( & mut self , item : I ) requires old ( self ) . wf ( ) , T :: in_range ( old ( self ) . total_weight . val ( ) + 1 ) , forall | i : int | 0 <= i < old ( self ) . counts @ . len ( ) ==> # [ trigger ] fits ( old ( self ) . counts @ [ i ] , T :: ONE ) , ensures final ( self ) . wf ( ) ,
/*@C18.cm_fixed_size*/ final ( self ) . same_config ( old ( self ) ) ,
/*@C08.total_abs*/ final ( self ) . total_weight . val ( ) == old ( self ) . total_weight . val ( ) + 1 ,
/*@C08.table_model*/ forall | h : Seq < Ev > | # [ trigger ] old ( self ) . models ( h ) ==> final ( self ) . models ( h . push ( Ev :: Upd ( item_key ( item ) , 1 ) ) ) , {
self . update_with_weight ( item , T :: ONE ) ;
}





    fn lower_bound < I : Hash > ( & self , item : I ) -> ( r : T ) requires self . wf ( ) , ensures
/*@C08.one_sided*/ forall | h : Seq < Ev > | # [ trigger ] self . models ( h ) && nonneg ( h ) ==> truth ( h , item_key ( item ) ) <= r . val ( ) <= total ( h ) , {
self . estimate ( item ) }





    // float-only formula (e / num_buckets): opaque, ASSUMED only to be a function of num_buckets
    #[verifier::external_body]
    fn relative_error(&self) -> (r: f64)
      ensures r == rel_err_spec(self.num_buckets)
    { unimplemented!() }

    // integer part of upper_bound: the estimate plus the error term; the `add` must fit the counter type
    fn upper_bound < I : Hash > ( & self , item : I ) -> ( r : T ) requires self . wf ( ) ,
/*@C17.cm_upper_bound_fits*/ forall | j : int | 0 <= j < self . num_hashes ==> T :: in_range ( # [ trigger ] self . row_val ( item_key ( item ) , j ) + ub_err :: < T > ( self . num_buckets , self . total_weight . val ( ) ) ) , ensures
/*@C08.upper_bound_is_estimate_plus_error*/ forall | j : int | 0 <= j < self . num_hashes ==> r . val ( ) <= # [ trigger ] self . row_val ( item_key ( item ) , j ) + ub_err :: < T > ( self . num_buckets , self . total_weight . val ( ) ) ,
/*@C08.upper_bound_is_estimate_plus_error*/ exists | j : int | 0 <= j < self . num_hashes && r . val ( ) == # [ trigger ] self . row_val ( item_key ( item ) , j ) + ub_err :: < T > ( self . num_buckets , self . total_weight . val ( ) ) ,
/*@C08.one_sided*/ forall | h : Seq < Ev > | # [ trigger ] self . models ( h ) && nonneg ( h ) ==> truth ( h , item_key ( item ) ) + ub_err :: < T > ( self . num_buckets , total ( h ) ) <= r . val ( ) , {
let estimate = self . estimate ( item ) ;
proof {
axiom_f64_mul ( ) ;
}
let error = T :: from_f64 ( self . relative_error ( ) * self . total_weight . to_f64 ( ) ) ;
estimate . add ( error ) }


    fn total_weight ( & self ) -> ( r : T ) ensures
/*@C08.total_exact*/ forall | h : Seq < Ev > | # [ trigger ] self . models ( h ) ==> r . val ( ) == total ( h ) , {
self . total_weight }





    fn update_with_weight < I : Hash > ( & mut self , item : I , weight : T ) requires old ( self ) . wf ( ) , T :: in_range ( iabs ( weight . val ( ) ) ) , T :: in_range ( old ( self ) . total_weight . val ( ) + iabs ( weight . val ( ) ) ) , forall | i : int | 0 <= i < old ( self ) . counts @ . len ( ) ==> # [ trigger ] fits ( old ( self ) . counts @ [ i ] , weight ) , ensures final ( self ) . wf ( ) ,
/*@C18.cm_fixed_size*/ final ( self ) . same_config ( old ( self ) ) ,
/*@C08.total_abs*/ final ( self ) . total_weight . val ( ) == old ( self ) . total_weight . val ( ) + iabs ( weight . val ( ) ) ,
/*@C08.update_cells*/ forall | r : int , b : int | 0 <= r < old ( self ) . num_hashes && 0 <= b < old ( self ) . num_buckets ==> final ( self ) . counts @ [ # [ trigger ] cell ( r , b , old ( self ) . num_buckets as int ) ] . val ( ) == old ( self ) . counts @ [ cell ( r , b , old ( self ) . num_buckets as int ) ] . val ( ) + ( if b == bucket ( item_key ( item ) , old ( self ) . hash_seeds @ [ r ] , old ( self ) . num_buckets ) {
weight . val ( ) }
else {
0 }
) ,
/*@C08.table_model*/ forall | h : Seq < Ev > | # [ trigger ] old ( self ) . models ( h ) ==> final ( self ) . models ( h . push ( Ev :: Upd ( item_key ( item ) , weight . val ( ) ) ) ) , {
if weight == T :: ZERO {
proof {
assert forall | h : Seq < Ev > | # [ trigger ] old ( self ) . models ( h ) implies self . models ( h . push ( Ev :: Upd ( item_key ( item ) , weight . val ( ) ) ) ) by {
lemma_push ( h , Ev :: Upd ( item_key ( item ) , weight . val ( ) ) ) ;
}
}
return ;
}
let abs_weight = weight . abs ( ) ;
self . total_weight = self . total_weight . add ( abs_weight ) ;
let num_buckets = self . num_buckets as usize ;
let mut vx_i1 = 0 ;
#[verifier::loop_isolation(false)]
while vx_i1 < self . hash_seeds . len ( ) invariant self . wf ( ) , old ( self ) . wf ( ) , vx_i1 <= self . hash_seeds @ . len ( ) , self . same_config ( old ( self ) ) , self . total_weight . val ( ) == old ( self ) . total_weight . val ( ) + iabs ( weight . val ( ) ) , forall | i : int | 0 <= i < old ( self ) . counts @ . len ( ) ==> # [ trigger ] fits ( old ( self ) . counts @ [ i ] , weight ) ,
/*@C08.update_cells*/ forall | r : int , b : int | 0 <= r < self . num_hashes && 0 <= b < self . num_buckets ==> self . counts @ [ # [ trigger ] cell ( r , b , self . num_buckets as int ) ] . val ( ) == old ( self ) . counts @ [ cell ( r , b , self . num_buckets as int ) ] . val ( ) + ( if r < vx_i1 && b == bucket ( item_key ( item ) , self . hash_seeds @ [ r ] , self . num_buckets ) {
weight . val ( ) }
else {
0 }
) , decreases self . hash_seeds @ . len ( ) - vx_i1 {
let row = vx_i1 ;
let seed = & self . hash_seeds [ vx_i1 ] ;
let bucket = self . bucket_index ( & item , * seed ) ;
proof {
lemma_cell_bound ( row as int , bucket as int , self . num_hashes as int , self . num_buckets as int ) ;
}
proof {
let g_i = cell ( row as int , bucket as int , self . num_buckets as int ) ;
if g_i == row * self . num_buckets + bucket {
assert ( fits ( old ( self ) . counts @ [ g_i ] , weight ) ) ;
}
}
let index = row * num_buckets + bucket ;
self . counts [ index ] = self . counts [ index ] . add ( weight ) ;
proof {
lemma_cell_inj ( row as int , bucket as int , self . num_hashes as int , self . num_buckets as int ) ;
}
vx_i1 += 1 ;
}
proof {
assert forall | h : Seq < Ev > | # [ trigger ] old ( self ) . models ( h ) implies self . models ( h . push ( Ev :: Upd ( item_key ( item ) , weight . val ( ) ) ) ) by {
lemma_push ( h , Ev :: Upd ( item_key ( item ) , weight . val ( ) ) ) ;
}
}
}





    fn estimate < I : Hash > ( & self , item : I ) -> ( min : T ) requires self . wf ( ) , ensures
/*@C08.estimate_min*/ forall | r : int | 0 <= r < self . num_hashes ==> min . val ( ) <= # [ trigger ] self . row_val ( item_key ( item ) , r ) ,
/*@C08.estimate_min*/ exists | r : int | 0 <= r < self . num_hashes && min . val ( ) == # [ trigger ] self . row_val ( item_key ( item ) , r ) ,
/*@C08.one_sided*/ forall | h : Seq < Ev > | # [ trigger ] self . models ( h ) && nonneg ( h ) ==> truth ( h , item_key ( item ) ) <= min . val ( ) <= total ( h ) , {
let num_buckets = self . num_buckets as usize ;
let mut min = T :: MAX ;
let mut vx_i1 = 0 ;
#[verifier::loop_isolation(false)]
while vx_i1 < self . hash_seeds . len ( ) invariant self . wf ( ) , vx_i1 <= self . hash_seeds @ . len ( ) ,
/*@C08.estimate_min*/ forall | r : int | 0 <= r < vx_i1 ==> min . val ( ) <= # [ trigger ] self . row_val ( item_key ( item ) , r ) , forall | r : int | 0 <= r < vx_i1 ==> 0 <= # [ trigger ] bucket ( item_key ( item ) , self . hash_seeds @ [ r ] , self . num_buckets ) < self . num_buckets , vx_i1 == 0 ==> min == T :: MAX ,
/*@C08.estimate_min*/ vx_i1 > 0 ==> exists | r : int | 0 <= r < vx_i1 && min . val ( ) == # [ trigger ] self . row_val ( item_key ( item ) , r ) , decreases self . hash_seeds @ . len ( ) - vx_i1 {
let row = vx_i1 ;
let seed = & self . hash_seeds [ vx_i1 ] ;
let bucket = self . bucket_index ( & item , * seed ) ;
proof {
lemma_cell_bound ( row as int , bucket as int , self . num_hashes as int , self . num_buckets as int ) ;
}
let index = row * num_buckets + bucket ;
let value = self . counts [ index ] ;
proof {
if cell ( row as int , bucket as int , self . num_buckets as int ) == row * self . num_buckets + bucket && value . val ( ) == self . row_val ( item_key ( item ) , row as int ) {
}
}
if value < min {
min = value ;
}
vx_i1 += 1 ;
}
proof {
let key = item_key ( item ) ;
let r0 = choose | r : int | 0 <= r < self . num_hashes && min . val ( ) == # [ trigger ] self . row_val ( key , r ) ;
assert forall | h : Seq < Ev > | # [ trigger ] self . models ( h ) && nonneg ( h ) implies truth ( h , key ) <= min . val ( ) <= total ( h ) by {
lemma_one_sided ( h , key , self . hash_seeds @ [ r0 ] , self . num_buckets ) ;
let b0 = bucket ( key , self . hash_seeds @ [ r0 ] , self . num_buckets ) ;
assert ( self . counts @ [ cell ( r0 , b0 , self . num_buckets as int ) ] . val ( ) == model_cell ( h , self . hash_seeds @ [ r0 ] , b0 , self . num_buckets ) ) ;
}
}
min }





    fn merge ( & mut self , other : & CountMinSketch < T > ) requires old ( self ) . wf ( ) , other . wf ( ) , T :: in_range ( old ( self ) . total_weight . val ( ) + other . total_weight . val ( ) ) , forall | i : int | 0 <= i < old ( self ) . counts @ . len ( ) ==> # [ trigger ] fits ( old ( self ) . counts @ [ i ] , other . counts @ [ i ] ) , ensures final ( self ) . wf ( ) ,
/*@C08.merge_compatible*/ old ( self ) . num_hashes == other . num_hashes && old ( self ) . num_buckets == other . num_buckets && old ( self ) . seed == other . seed ,
/*@C18.cm_fixed_size*/ final ( self ) . same_config ( old ( self ) ) ,
/*@C08.merge_cells*/ forall | i : int | 0 <= i < old ( self ) . counts @ . len ( ) ==> # [ trigger ] final ( self ) . counts @ [ i ] . val ( ) == old ( self ) . counts @ [ i ] . val ( ) + other . counts @ [ i ] . val ( ) ,
/*@C08.merge_total*/ final ( self ) . total_weight . val ( ) == old ( self ) . total_weight . val ( ) + other . total_weight . val ( ) ,
/*@C08.merge_model*/ forall | h1 : Seq < Ev > , h2 : Seq < Ev > | # [ trigger ] old ( self ) . models ( h1 ) && # [ trigger ] other . models ( h2 ) && upd_only ( h2 ) ==> final ( self ) . models ( h1 + h2 ) , {
if vx_ptr_eq ( self , other ) {
panic! ( ) ;
}
vx_documented_panic ( self . num_hashes == other . num_hashes ) ;
vx_documented_panic ( self . num_buckets == other . num_buckets ) ;
vx_documented_panic ( self . seed == other . seed ) ;
vx_documented_panic ( self . counts . len ( ) == other . counts . len ( ) ) ;
let counts_len = self . counts . len ( ) ;
let ghost tw0 = self . total_weight ;
#[verifier::loop_isolation(false)]
for i in 0 .. counts_len invariant self . wf ( ) , other . wf ( ) , self . same_config ( old ( self ) ) , self . counts @ . len ( ) == old ( self ) . counts @ . len ( ) , other . counts @ . len ( ) == old ( self ) . counts @ . len ( ) , self . total_weight == tw0 , forall | j : int | 0 <= j < old ( self ) . counts @ . len ( ) ==> # [ trigger ] fits ( old ( self ) . counts @ [ j ] , other . counts @ [ j ] ) ,
/*@C08.merge_cells*/ forall | j : int | 0 <= j < i ==> # [ trigger ] self . counts @ [ j ] . val ( ) == old ( self ) . counts @ [ j ] . val ( ) + other . counts @ [ j ] . val ( ) , forall | j : int | i <= j < self . counts @ . len ( ) ==> # [ trigger ] self . counts @ [ j ] == old ( self ) . counts @ [ j ] , {
proof {
assert ( fits ( old ( self ) . counts @ [ i as int ] , other . counts @ [ i as int ] ) ) ;
}
self . counts [ i ] = self . counts [ i ] . add ( other . counts [ i ] ) ;
}
self . total_weight = self . total_weight . add ( other . total_weight ) ;
proof {
assert forall | h1 : Seq < Ev > , h2 : Seq < Ev > | # [ trigger ] old ( self ) . models ( h1 ) && # [ trigger ] other . models ( h2 ) && upd_only ( h2 ) implies self . models ( h1 + h2 ) by {
assert forall | r : int , b : int | 0 <= r < self . num_hashes && 0 <= b < self . num_buckets implies self . counts @ [ # [ trigger ] cell ( r , b , self . num_buckets as int ) ] . val ( ) == model_cell ( h1 + h2 , self . hash_seeds @ [ r ] , b , self . num_buckets ) by {
lemma_cell_bound ( r , b , self . num_hashes as int , self . num_buckets as int ) ;
lemma_concat_upd ( h1 , h2 , self . hash_seeds @ [ r ] , b , self . num_buckets ) ;
}
lemma_concat_upd ( h1 , h2 , 0 , 0 , self . num_buckets ) ;
}
}
}




}

impl<T: UnsignedCountMinValue> CountMinSketch<T> {
    fn halve ( & mut self ) requires old ( self ) . wf ( ) , ensures final ( self ) . wf ( ) ,
/*@C18.cm_fixed_size*/ final ( self ) . same_config ( old ( self ) ) ,
/*@C08.halve_cells*/ forall | i : int | 0 <= i < old ( self ) . counts @ . len ( ) ==> # [ trigger ] final ( self ) . counts @ [ i ] . val ( ) == old ( self ) . counts @ [ i ] . val ( ) / 2 ,
/*@C08.halve_total*/ final ( self ) . total_weight . val ( ) == old ( self ) . total_weight . val ( ) / 2 ,
/*@C08.halve_model*/ forall | h : Seq < Ev > | # [ trigger ] old ( self ) . models ( h ) ==> final ( self ) . models ( h . push ( Ev :: Halve ) ) , {
let ghost tw0 = self . total_weight ;
let mut vx_i1 = 0 ;
#[verifier::loop_isolation(false)]
while vx_i1 < self . counts . len ( ) invariant self . wf ( ) , self . same_config ( old ( self ) ) , self . total_weight == tw0 , vx_i1 <= self . counts @ . len ( ) ,
/*@C08.halve_cells*/ forall | j : int | 0 <= j < vx_i1 ==> # [ trigger ] self . counts @ [ j ] . val ( ) == old ( self ) . counts @ [ j ] . val ( ) / 2 , forall | j : int | vx_i1 <= j < self . counts @ . len ( ) ==> # [ trigger ] self . counts @ [ j ] == old ( self ) . counts @ [ j ] , decreases self . counts @ . len ( ) - vx_i1 {
let c = & mut self . counts [ vx_i1 ] ;
* c = c . halve ( ) ;
vx_i1 += 1 ;
}
self . total_weight = self . total_weight . halve ( ) ;
proof {
assert forall | h : Seq < Ev > | # [ trigger ] old ( self ) . models ( h ) implies self . models ( h . push ( Ev :: Halve ) ) by {
lemma_push ( h , Ev :: Halve ) ;
assert forall | r : int , b : int | 0 <= r < self . num_hashes && 0 <= b < self . num_buckets implies self . counts @ [ # [ trigger ] cell ( r , b , self . num_buckets as int ) ] . val ( ) == model_cell ( h . push ( Ev :: Halve ) , self . hash_seeds @ [ r ] , b , self . num_buckets ) by {
lemma_cell_bound ( r , b , self . num_hashes as int , self . num_buckets as int ) ;
}
}
}
}





    fn decay ( & mut self , decay : f64 ) requires old ( self ) . wf ( ) , ensures final ( self ) . wf ( ) ,
/*@C08.decay_range_validated*/ decay_ok ( decay ) ,
/*@C18.cm_fixed_size*/ final ( self ) . same_config ( old ( self ) ) ,
/*@C08.decay_cells*/ forall | i : int | 0 <= i < old ( self ) . counts @ . len ( ) ==> # [ trigger ] final ( self ) . counts @ [ i ] . val ( ) == decay_spec ( old ( self ) . counts @ [ i ] . val ( ) , decay ) ,
/*@C08.decay_total*/ final ( self ) . total_weight . val ( ) == decay_spec ( old ( self ) . total_weight . val ( ) , decay ) ,
/*@C08.decay_model*/ forall | h : Seq < Ev > | # [ trigger ] old ( self ) . models ( h ) ==> final ( self ) . models ( h . push ( Ev :: Decay ( decay ) ) ) , {
vx_documented_panic ( vx_decay_in_range ( decay ) ) ;
let ghost tw0 = self . total_weight ;
let mut vx_i1 = 0 ;
#[verifier::loop_isolation(false)]
while vx_i1 < self . counts . len ( ) invariant self . wf ( ) , self . same_config ( old ( self ) ) , self . total_weight == tw0 , vx_i1 <= self . counts @ . len ( ) ,
/*@C08.decay_cells*/ forall | j : int | 0 <= j < vx_i1 ==> # [ trigger ] self . counts @ [ j ] . val ( ) == decay_spec ( old ( self ) . counts @ [ j ] . val ( ) , decay ) , forall | j : int | vx_i1 <= j < self . counts @ . len ( ) ==> # [ trigger ] self . counts @ [ j ] == old ( self ) . counts @ [ j ] , decreases self . counts @ . len ( ) - vx_i1 {
let c = & mut self . counts [ vx_i1 ] ;
* c = c . decay ( decay ) ;
vx_i1 += 1 ;
}
self . total_weight = self . total_weight . decay ( decay ) ;
proof {
assert forall | h : Seq < Ev > | # [ trigger ] old ( self ) . models ( h ) implies self . models ( h . push ( Ev :: Decay ( decay ) ) ) by {
lemma_push ( h , Ev :: Decay ( decay ) ) ;
assert forall | r : int , b : int | 0 <= r < self . num_hashes && 0 <= b < self . num_buckets implies self . counts @ [ # [ trigger ] cell ( r , b , self . num_buckets as int ) ] . val ( ) == model_cell ( h . push ( Ev :: Decay ( decay ) ) , self . hash_seeds @ [ r ] , b , self . num_buckets ) by {
lemma_cell_bound ( r , b , self . num_hashes as int , self . num_buckets as int ) ;
}
}
}
}




}

// hash leaves (C16): contracts define the spec functions
pub uninterp spec fn seed_hash_spec(seed: u64) -> u16;
#[verifier::external_body]
fn compute_seed_hash(seed: u64) -> (r: u16)
  requires seed_hash_spec(seed) != 0,
  ensures r == seed_hash_spec(seed),
{ unimplemented!() }
#[verifier::external_body]
fn make_hash_seeds(seed: u64, num_hashes: u8) -> (r: Vec<u64>)
  ensures r@ == seeds_spec(seed, num_hashes), r@.len() == num_hashes,
{ unimplemented!() }

fn entries_for_config ( num_hashes : u8 , num_buckets : u32 ) -> ( entries : usize ) ensures
/*@C08.config_validated*/ num_hashes > 0 && num_buckets >= 3 && ( num_hashes as int ) * ( num_buckets as int ) < MAX_TABLE_ENTRIES , entries == ( num_hashes as int ) * ( num_buckets as int ) , entries < MAX_TABLE_ENTRIES , {
vx_documented_panic ( num_hashes > 0 ) ;
vx_documented_panic ( num_buckets >= 3 ) ;
proof {
assert ( num_hashes as int * num_buckets as int <= 255 * 0xffff_ffff ) by ( nonlinear_arith ) requires num_hashes <= 255 , num_buckets <= 0xffff_ffff ;
}
let entries = ( num_hashes as usize ) . checked_mul ( num_buckets as usize ) . expect ( "" ) ;
vx_documented_panic ( entries < MAX_TABLE_ENTRIES ) ;
entries }





// `&mut self` and `&other` cannot alias (borrow rules)
#[verifier::external_body]
fn vx_ptr_eq<T: CountMinValue>(a: &CountMinSketch<T>, b: &CountMinSketch<T>) -> (r: bool)
  ensures !r
{ std::ptr::eq(a, b) }


// float comparison leaf of `decay` (R15)
pub uninterp spec fn decay_ok(d: f64) -> bool;
#[verifier::external_body]
fn vx_decay_in_range(decay: f64) -> (r: bool)
  ensures r == decay_ok(decay)
{ decay > 0.0 && decay <= 1.0 }

// R12b: a DOCUMENTED panic (`assert_eq!` on the compatibility of merge partners) is modelled as 'returns only if the condition holds':
// the condition becomes a POSTCONDITION of merge (C08.merge_compatible) instead of a precondition, so weakening the check is noticed
#[verifier::external_body] fn vx_documented_panic(c: bool) ensures c { assert!(c); }

// Finding carrier (C17): upper_bound is documented for every sketch, but estimate + error must fit the counter type, which wf() does
// not give (u8 sketch, total 200: error 181).  The precondition C17.cm_upper_bound_fits of upper_bound is therefore NOT established here.
fn c17_cm_upper_bound_any_state<T: CountMinValue, I: Hash>(s: &CountMinSketch<T>, item: I) -> T
  requires s.wf(), cm_law::<T>()
{ s.upper_bound(item) }

}
fn main(){}
