use vstd::prelude::*;
use vstd::iset::*;
use vstd::arithmetic::power2::*;
use std::cmp::Ordering;
verus! {
global size_of usize == 8;
const EMPTY: u32 = 0xffff_ffff;

// =====================================================================================================================
// Unit cpc_decode: the DECODER side of cpc/compression.rs, reached from CpcSketch::deserialize_with_seed with attacker-chosen
// words.  C14 "malformed bytes never panic" + C17.  The only facts the parser has established when it calls
// `CompressedState::uncompress(lg_k, num_coupons)` (contracts/cpc_codec.rs: C14.cpc.rejects_ranges, C14.cpc.alloc_words) are
//     4 <= lg_k <= 26,  table_data.len() == table_data_words <= u32::MAX,  window_data.len() == window_data_words <= u32::MAX
// and NOTHING about the contents of the words, about table_num_entries or about num_coupons.  `decode_validated` below is
// exactly that; it is the only precondition of `uncompress`, and every callee precondition is derived from it.
// Every place where the real code can panic / over-allocate for such input carries a tagged obligation `C14.cpc.decode.<site>`
// AT THE SITE (an `assert(..)` just before the statement that panics, or the precondition of the callee that panics); those
// that the real code does not guarantee FAIL and are recorded in findings/cpc_decode_findings.json.  Everything else (every
// other index, shift, subtraction, addition, loop termination, table lookup) is PROVED for arbitrary words.
// =====================================================================================================================

// ---------- PairTable by contract (bodies proved in units cpc_pairtable / cpc_codec) ----------
struct PairTable {
lg_size : u8 , num_valid_bits : u8 , num_items : u32 , slots : Vec < u32 > , }

// what PairTable::from_slots needs from the decoded pairs: VERBATIM the clauses C14.cpc.from_slots.{fits,range,distinct} of
// contracts/cpc_codec.rs (where the body of from_slots is verified under them)
#[verifier::opaque]
spec fn from_slots_pre(lg_size: u8, num_items: u32, slots: Seq<u32>) -> bool {
    &&& 4 * num_items <= 3 * pow2(26) && 4 * num_items <= 3 * pow2((5 + lg_size) as nat)
    &&& forall|i: int| 0 <= i < num_items ==> slots[i] != EMPTY && (#[trigger] slots[i] as int) < pow2((6 + lg_size) as nat)
    &&& forall|i: int, j: int| 0 <= i < j < num_items ==> slots[i] != slots[j]
}
// the table invariant and view: definitions VERBATIM from contracts/cpc_pairtable.rs / contracts/cpc_codec.rs (so the contract links are literal)
spec fn probe_at(p0: int, s: int, j: int, size: int) -> int { (p0 + j * s) % size }
spec fn phome(item: u32, nvb: u8, lg: u8) -> int { (item >> ((nvb - lg) as u32)) as int }
spec fn ppos(item: u32, nvb: u8, lg: u8, j: int, size: int) -> int { probe_at(phome(item, nvb, lg), 1, j, size) }
spec fn pocc(ss: Seq<u32>) -> Set<int> { Set::range(0, ss.len() as int).filter(|i: int| ss[i] != EMPTY) }
spec fn pfull_before(ss: Seq<u32>, item: u32, nvb: u8, lg: u8, j: int) -> bool {
    forall|t: int| 0 <= t < j ==> ss[#[trigger] ppos(item, nvb, lg, t, ss.len() as int)] != EMPTY
}
spec fn preach_at(ss: Seq<u32>, nvb: u8, lg: u8, i: int) -> bool {
    exists|j: int| 0 <= j < ss.len() && i == ppos(ss[i], nvb, lg, j, ss.len() as int) && #[trigger] pfull_before(ss, ss[i], nvb, lg, j)
}
spec fn pshape(ss: Seq<u32>, nvb: u8, lg: u8) -> bool { 2 <= lg <= 26 && lg < nvb <= 32 && ss.len() == pow2(lg as nat) }
spec fn ptbl_ok(ss: Seq<u32>, nvb: u8, lg: u8) -> bool {
    &&& pshape(ss, nvb, lg)
    &&& forall|i: int| 0 <= i < ss.len() && ss[i] != EMPTY ==> (#[trigger] ss[i] as int) < pow2(nvb as nat)
    &&& forall|i: int, j: int| 0 <= i < ss.len() && 0 <= j < ss.len() && i != j && ss[i] != EMPTY ==> ss[i] != ss[j]
    &&& forall|i: int| 0 <= i < ss.len() && ss[i] != EMPTY ==> #[trigger] preach_at(ss, nvb, lg, i)
}
spec fn pholds(ss: Seq<u32>, item: u32) -> bool { exists|i: int| 0 <= i < ss.len() && ss[i] == item }
impl PairTable {
    spec fn wf(&self) -> bool {
        &&& ptbl_ok(self.slots@, self.num_valid_bits, self.lg_size)
        &&& self.num_items == pocc(self.slots@).len()
        &&& 4 * self.num_items <= 3 * self.slots@.len()
    }
    // VERBATIM the abstract view of contracts/cpc_codec.rs / contracts/cpc_pairtable.rs (the set of items held)
    spec fn items(&self) -> ISet<u32> { ISet::new(|c: u32| c != EMPTY && pholds(self.slots@, c)) }
    // contract of contracts/cpc_codec.rs (the asserts of the real body are the precondition)
    #[verifier::external_body]
    fn new(lg_size: u8, num_valid_bits: u8) -> (r: Self)
      requires 2 <= lg_size <= 26, lg_size + 1 <= num_valid_bits <= 32
      ensures r.wf(), r.lg_size == lg_size, r.num_valid_bits == num_valid_bits, r.num_items == 0, r.items() =~= ISet::<u32>::empty()
    { unimplemented!() }
    // contract of contracts/cpc_codec.rs, PROVED there on the real body; the three content clauses are folded into from_slots_pre
    #[verifier::external_body]
    fn from_slots(lg_size: u8, num_items: u32, slots: Vec<u32>) -> (r: Self)
      requires 4 <= lg_size <= 26,
        num_items <= slots@.len(),
        /*@C14.cpc.decode.from_slots_pre*/ from_slots_pre(lg_size, num_items, slots@),
      ensures r.wf(), r.num_valid_bits == 6 + lg_size, r.num_items == num_items,
        forall|x: u32| #[trigger] r.items().contains(x) <==> (exists|i: int| 0 <= i < num_items && slots@[i] == x),
    { unimplemented!() }
}

// ---------- cpc/mod.rs: flavor and offset as functions of (lg_k, C): contracts and proofs VERBATIM from contracts/cpc_update.rs ----------
enum Flavor {
Empty , Sparse , Hybrid , Pinned , Sliding , }

spec fn flavor_spec(lg_k: u8, c: u32) -> Flavor {
    let k = pow2(lg_k as nat) as int; let c = c as int;
    if c == 0 { Flavor::Empty } else if 32 * c < 3 * k { Flavor::Sparse } else if 2 * c < k { Flavor::Hybrid } else if 8 * c < 27 * k { Flavor::Pinned } else { Flavor::Sliding }
}
spec fn dco(lg_k: u8, c: u32) -> int { let k = pow2(lg_k as nat) as int; if 8 * (c as int) < 19 * k { 0 } else { (8 * (c as int) - 19 * k) / (8 * k) } }

proof fn lemma_shl_i64(l: u8) requires l <= 29 ensures (1i64 << l) == pow2(l as nat), 1 <= pow2(l as nat) <= 0x2000_0000 {
    lemma2_to64(); if l < 29 { lemma_pow2_strictly_increases(l as nat, 29); } lemma_pow2_pos(l as nat);
    let u = l as u64;
    vstd::bits::lemma_u64_shl_is_mul(1, u);
    assert(u <= 29 ==> (1u64 << u) < 0x4000_0000u64) by (bit_vector);
    assert(l <= 29 ==> (1i64 << l) == ((1u64 << (l as u64)) as i64)) by (bit_vector);
}
proof fn lemma_shr_i64(t: i64, s: u8) requires 0 <= t, s <= 29 ensures (t >> s) == (t as int) / (pow2(s as nat) as int) {
    let u = t as u64; let su = s as u64;
    vstd::bits::lemma_u64_shr_is_div(u, su);
    assert(t >= 0 && s <= 29 ==> (t >> s) == ((t as u64) >> (s as u64)) as i64) by (bit_vector);
}
proof fn lemma_k_bound(l: u8) requires 4 <= l <= 26 ensures 16 <= pow2(l as nat) <= 0x400_0000 {
    lemma2_to64(); if l < 26 { lemma_pow2_strictly_increases(l as nat, 26); } if l > 4 { lemma_pow2_strictly_increases(4, l as nat); }
}
proof fn lemma_shl64(l: u8) requires l <= 26 ensures (1u64 << l) == pow2(l as nat) {
    lemma2_to64(); if l < 26 { lemma_pow2_strictly_increases(l as nat, 26); }
    vstd::bits::lemma_u64_shl_is_mul(1, l as u64);
    assert((1u64 << (l as u64)) == (1u64 << l));
}
proof fn lemma_shl32(l: u8) requires l <= 26 ensures (1u32 << l) == pow2(l as nat), (1usize << l) == pow2(l as nat) {
    lemma2_to64(); if l < 26 { lemma_pow2_strictly_increases(l as nat, 26); }
    vstd::bits::lemma_u32_shl_is_mul(1, l as u32);
    assert((1u32 << (l as u32)) == (1u32 << l));
    vstd::bits::lemma_u64_shl_is_mul(1, l as u64);
    assert(l <= 26 ==> (1usize << l) == (1u64 << (l as u64)) as usize) by (bit_vector);
}

fn determine_flavor(lg_k: u8, num_coupons: u32) -> (r: Flavor)
  requires 4 <= lg_k <= 26
  ensures r == flavor_spec(lg_k, num_coupons)
{
    proof {
        lemma_shl64(lg_k); lemma_k_bound(lg_k);
        let c = num_coupons as u64;
        assert(c <= 0xffff_ffff ==> (c << 1) == c * 2 && (c << 3) == c * 8 && (c << 5) == c * 32) by (bit_vector);
    }
    let k: u64 = 1 << lg_k;
    let c2 = (num_coupons as u64) << 1;
    let c8 = (num_coupons as u64) << 3;
    let c32 = (num_coupons as u64) << 5;
    if num_coupons == 0 {
        Flavor::Empty
    } else if c32 < (3 * k) {
        Flavor::Sparse
    } else if c2 < k {
        Flavor::Hybrid
    } else if c8 < (27 * k) {
        Flavor::Pinned
    } else {
        Flavor::Sliding
    }
}

// C14: total for every (lg_k, C) the parser lets through -- no precondition on C; the value is dco when that fits u8
fn determine_correct_offset(lg_k: u8, num_coupons: u32) -> (r: u8)
  requires 4 <= lg_k <= 26
  ensures dco(lg_k, num_coupons) <= 255 ==> r == dco(lg_k, num_coupons)
{
    proof {
        lemma_shl_i64(lg_k); lemma_shl_i64((lg_k + 3) as u8); lemma_pow2_adds(3, lg_k as nat); lemma2_to64();
        let c = num_coupons as i64;
        assert(0 <= c <= 0xffff_ffff ==> (c << 3) == c * 8) by (bit_vector);
    }
    let k = 1 << lg_k;
    let tmp = ((num_coupons as i64) << 3) - (19 * k);
    if tmp < 0 {
        0
    } else {
        proof { lemma_shr_i64(tmp, (lg_k + 3) as u8); }
        (tmp >> (lg_k + 3)) as u8
    }
}

// ---------- cpc/compression.rs: pseudo phase (selects the decoding table [22] and the column permutation [16]) ----------
spec fn pseudo_phase_spec(lg_k: u8, c: u32) -> int {
    let k = pow2(lg_k as nat) as int; let ci = c as int;
    if 1000 * ci < 2375 * k {
        if 4 * ci < 3 * k { 16 } else if 10 * ci < 11 * k { 17 } else if 100 * ci < 132 * k { 18 } else if 3 * ci < 5 * k { 19 }
        else if 1000 * ci < 1965 * k { 20 } else if 1000 * ci < 2275 * k { 21 } else { 6 }
    } else { ((c >> ((lg_k - 4) as u32)) & 15) as int }
}
fn determine_pseudo_phase(lg_k: u8, num_coupons: u32) -> (r: u8)
  requires 4 <= lg_k <= 26
  ensures r == pseudo_phase_spec(lg_k, num_coupons),
    /*@C14.cpc.decode.phase.table_index*/ r < 22,
    /*@C14.cpc.decode.phase.perm_index*/ 1000 * (num_coupons as int) >= 2375 * pow2(lg_k as nat) ==> r < 16,
{
    proof { lemma_shl64(lg_k); lemma_k_bound(lg_k); }
    let k: u64 = 1 << lg_k;
    let c = num_coupons as u64;
    if 1000 * c < 2375 * k {
        if 4 * c < 3 * k {
            16
        } else if 10 * c < 11 * k {
            16 + 1
        } else if 100 * c < 132 * k {
            16 + 2
        } else if 3 * c < 5 * k {
            16 + 3
        } else if 1000 * c < 1965 * k {
            16 + 4
        } else if 1000 * c < 2275 * k {
            16 + 5
        } else {
            6
        }
    } else {
        debug_assert!(lg_k >= 4);
        let tmp = num_coupons >> (lg_k - 4);
        proof {
            let s8 = (lg_k - 4) as u8; let s32 = (lg_k - 4) as u32;
            assert(s8 <= 22 && s32 == s8 as u32 ==> (num_coupons >> s8) == (num_coupons >> s32)) by (bit_vector);
            let t = num_coupons >> s8;
            assert((t & 15) < 16 && t & 15 == t % 16 && t & 15 == 15 & t) by (bit_vector);
        }
        (tmp & 15) as u8
    }
}

// =====================================================================================================================
// cpc/compression_data.rs: the decoding tables BY CONTRACT.  The real statics (4096 + 22*4096 + 16*56 entries) are not given to the
// solver; each is declared with its real type (so the array LENGTHS are the real ones and every index is checked against them) and an
// initializer `vx_*()` that is an external_body assumption stating the ENTRY RANGES.  The stated facts are checked by enumeration over the
// real tables: findings/check_cpc_decode_tables.rs (+ .output.txt).  The dummy initializers satisfy their own contracts.
//   entry of a decoding table = (code_word_length << 8) | value
// =====================================================================================================================
spec fn dec_entry_ok(e: u16) -> bool { 1 <= (e >> 8) <= 12 }
spec fn llu_entry_ok(e: u16) -> bool { 1 <= (e >> 8) <= 12 && (e & 0xff) <= 64 }
spec fn dec_table_ok(t: Seq<u16>) -> bool { t.len() == 4096 && forall|i: int| 0 <= i < 4096 ==> dec_entry_ok(#[trigger] t[i]) }
spec fn llu_table_ok(t: [u16; 4096]) -> bool { forall|i: int| 0 <= i < 4096 ==> llu_entry_ok(#[trigger] t@[i]) }
spec fn dec_tables_ok(t: [[u16; 4096]; 22]) -> bool { forall|p: int, i: int| 0 <= p < 22 && 0 <= i < 4096 ==> dec_entry_ok(#[trigger] t@[p]@[i]) }
spec fn perms_ok(t: [[u8; 56]; 16]) -> bool { forall|p: int, j: int| 0 <= p < 16 && 0 <= j < 56 ==> (#[trigger] t@[p]@[j]) < 56 }

#[verifier::external_body]
const fn vx_llu_decoding_table() -> (r: [u16; 4096]) ensures llu_table_ok(r) { [0x0100; 4096] }
#[verifier::external_body]
const fn vx_high_entropy_decoding_tables() -> (r: [[u16; 4096]; 22]) ensures dec_tables_ok(r) { [[0x0100; 4096]; 22] }
#[verifier::external_body]
const fn vx_column_permutations_for_decoding() -> (r: [[u8; 56]; 16]) ensures perms_ok(r) { [[0; 56]; 16] }

exec static LENGTH_LIMITED_UNARY_DECODING_TABLE65: [u16; 4096] ensures llu_table_ok(LENGTH_LIMITED_UNARY_DECODING_TABLE65) { vx_llu_decoding_table() }
exec static DECODING_TABLES_FOR_HIGH_ENTROPY_BYTE: [[u16; 4096]; 22] ensures dec_tables_ok(DECODING_TABLES_FOR_HIGH_ENTROPY_BYTE) { vx_high_entropy_decoding_tables() }
exec static COLUMN_PERMUTATIONS_FOR_DECODING: [[u8; 56]; 16] ensures perms_ok(COLUMN_PERMUTATIONS_FOR_DECODING) { vx_column_permutations_for_decoding() }

// =====================================================================================================================
// the bit-buffer leaves, safety contracts for ARBITRARY words (their stream semantics is proved in unit cpc_codec)
//   bits consumed so far = 32 * word_index - bufbits
// =====================================================================================================================
fn maybe_fill_bitbuf(
    bitbuf: &mut u64,
    bufbits: &mut u8,
    words: &[u32],
    word_index: &mut usize,
    minbits: u8,
)
  requires minbits <= 32,
  ensures
    *final(bufbits) >= minbits,
    *old(bufbits) < minbits ==> *final(bufbits) == *old(bufbits) + 32 && *final(word_index) == *old(word_index) + 1 && *final(word_index) <= words@.len(),
    *old(bufbits) >= minbits ==> *final(bufbits) == *old(bufbits) && *final(word_index) == *old(word_index) && *final(bitbuf) == *old(bitbuf),
{
    if *bufbits < minbits {
        // THE unchecked read of the decoder: nothing relates word_index to the number of words for arbitrary contents
        assert(/*@C14.cpc.decode.fill.in_bounds*/ *word_index < words@.len());
        *bitbuf |= (words[*word_index] as u64) << *bufbits;
        *word_index += 1;
        *bufbits += 32;
    }
}

// terminates and stays in range for arbitrary words PROVIDED the fills are in bounds (the only failing site is the one in maybe_fill_bitbuf)
fn read_unary(
    compressed_words: &[u32],
    next_word_index: &mut usize,
    bitbuf: &mut u64,
    bufbits: &mut u8,
) -> (r: u64)
  requires *old(bufbits) <= 63, *old(next_word_index) <= compressed_words@.len() <= 0xffff_ffff,
  ensures *final(bufbits) <= 63, *final(next_word_index) <= compressed_words@.len(),
    /*@C14.cpc.decode.unary.bounded*/ r <= 32 * compressed_words@.len() + 63,
    32 * *final(next_word_index) - *final(bufbits) == 32 * *old(next_word_index) - *old(bufbits) + r + 1,
{
    let mut subtotal = 0u64;
    let ghost c0 = 32 * *next_word_index - *bufbits;
    loop
      invariant *bufbits <= 63, *next_word_index <= compressed_words@.len() <= 0xffff_ffff,
        subtotal == 32 * *next_word_index - *bufbits - c0, c0 >= -63,
        c0 == 32 * *old(next_word_index) - *old(bufbits),
      decreases 32 * (compressed_words@.len() - *next_word_index) + *bufbits
    {
        // ensure 8 bits in bit buffer
        maybe_fill_bitbuf(bitbuf, bufbits, compressed_words, next_word_index, 8);
        // These 8 bits include either all or part of the Unary codeword
        let peek8 = *bitbuf & 0xff;
        let trailing_zeros = peek8.trailing_zeros() as u8;
        if trailing_zeros < 8 {
            *bufbits -= 1 + trailing_zeros;
            *bitbuf >>= 1 + trailing_zeros;
            return subtotal + trailing_zeros as u64;
        }
        // The codeword was partial, so read some more
        subtotal += 8;
        *bufbits -= 8;
        *bitbuf >>= 8;
    }
}

fn floor_log2_of_long(x: u64) -> (r: u8)
  requires x > 0, x <= 0x8000_0000_0000_0000,
  ensures pow2(r as nat) <= x < pow2(r as nat + 1), r <= 63
{
    debug_assert!(x > 0);
    let mut p = 0u8;
    let mut y = 1u64;
    proof { lemma2_to64(); }
    loop
      invariant p <= 63, y == pow2(p as nat), p > 0 ==> pow2((p - 1) as nat) < x, 0 < x <= 0x8000_0000_0000_0000,
      decreases 64 - p
    {
        proof {
            lemma2_to64(); lemma2_to64_rest();
            lemma_pow2_strictly_increases(p as nat, p as nat + 1);
            if p > 0 { lemma_pow2_strictly_increases((p - 1) as nat, p as nat); }
        }
        match u64::cmp(&y, &x) {
            Ordering::Equal => return p,
            Ordering::Greater => return p - 1,
            Ordering::Less => {
                proof {
                    if p >= 63 { assert(pow2(63) == 0x8000_0000_0000_0000); assert(false); }
                    lemma_pow2_unfold(p as nat + 1);
                    assert(y < 0x8000_0000_0000_0000 ==> (y << 1) == y * 2) by (bit_vector);
                    if p < 62 { lemma_pow2_strictly_increases(p as nat + 1, 63); }
                }
                p += 1;
                y <<= 1;
            }
        }
    }
}

proof fn lemma_pow2_increases(a: nat, b: nat) requires a <= b ensures pow2(a) <= pow2(b) { if a < b { lemma_pow2_strictly_increases(a, b); } }

// contract and proof VERBATIM from contracts/cpc_codec.rs: count > 0 (debug_assert; division by zero in release) and k >= count (u64 subtraction)
fn golomb_choose_number_of_base_bits(k: u32, count: u64) -> (r: u8)
  requires /*@C14.cpc.decode.golomb.count_pos*/ count > 0,
    /*@C14.cpc.decode.golomb.k_ge_count*/ k >= count,
  ensures r <= 31, ({ let q = (k as int - count as int) / (count as int); if q == 0 { r == 0 } else { pow2(r as nat) <= q < pow2(r as nat + 1) } })
{
    debug_assert!(k > 0);
    debug_assert!(count > 0);
    let quotient = ((k as u64) - count) / count;
    proof {
        let d = (k as int) - (count as int);
        assert(d / (count as int) <= d) by (nonlinear_arith) requires d >= 0, count >= 1;
        assert(0 <= d / (count as int)) by (nonlinear_arith) requires d >= 0, count >= 1;
    }
    if quotient == 0 {
        0
    } else {
        proof {
            lemma2_to64();
            assert forall|e: nat| e >= 32 implies #[trigger] pow2(e) >= 0x1_0000_0000 by { lemma_pow2_increases(32, e); }
        }
        floor_log2_of_long(quotient)
    }
}

// =====================================================================================================================
// the two table-driven decoders
// =====================================================================================================================
proof fn lemma_peek12(b: u64) ensures (b & 0xfff) < 4096 { assert((b & 0xfff) < 4096) by (bit_vector); }
proof fn lemma_entry(e: u16) requires 1 <= (e >> 8) <= 12 ensures ((e >> 8) as u8) == (e >> 8), (e & 0xff) < 256, ((e & 0xff) as u8) == (e & 0xff) {
    assert((e & 0xff) < 256) by (bit_vector);
}

// Huffman decoder of the window bytes.  decoding_table is one row of DECODING_TABLES_FOR_HIGH_ENTROPY_BYTE (4096 entries, code lengths 1..=12).
#[verifier::spinoff_prover]
fn low_level_uncompress_bytes(
    byte_array: &mut [u8],
    num_bytes_to_decode: u32,
    compressed_words: &[u32],
    num_compressed_words: usize,
    decoding_table: &[u16],
)
  requires old(byte_array)@.len() >= num_bytes_to_decode,
    compressed_words@.len() == num_compressed_words,
    dec_table_ok(decoding_table@),
  ensures final(byte_array)@.len() == old(byte_array)@.len(),
{
    let mut word_index = 0;
    let mut bitbuf = 0;
    let mut bufbits = 0;

    for byte_index in 0..num_bytes_to_decode
      invariant byte_array@.len() == old(byte_array)@.len(), old(byte_array)@.len() >= num_bytes_to_decode,
        compressed_words@.len() == num_compressed_words, dec_table_ok(decoding_table@),
        /*@C14.cpc.decode.bytes.bufbits*/ bufbits <= 43,
        /*@C14.cpc.decode.bytes.word_index*/ word_index <= compressed_words@.len(),
    {
        // ensure 12 bits in bit buffer
        maybe_fill_bitbuf(
            &mut bitbuf,
            &mut bufbits,
            compressed_words,
            &mut word_index,
            12,
        );
        // These 12 bits will include an entire Huffman codeword.
        let peek12 = bitbuf & 0xfff;
        proof { lemma_peek12(bitbuf); }
        let lookup = decoding_table[peek12 as usize];
        proof { lemma_entry(lookup); }
        let code_word_length = (lookup >> 8) as u8;
        let decoded_byte = (lookup & 0xff) as u8;
        byte_array[byte_index as usize] = decoded_byte;
        bitbuf >>= code_word_length;
        bufbits -= code_word_length;
    }

    // Buffer over-run should be impossible unless there is a bug.
    debug_assert!(word_index <= num_compressed_words);
}

// Golomb / length-limited-unary decoder of the (row, column) pairs.
#[verifier::spinoff_prover]
fn low_level_uncompress_pairs(
    pairs: &mut [u32],
    num_pairs_to_decode: u32,
    num_base_bits: u8,
    compressed_words: &[u32],
    num_compressed_words: usize,
)
  requires old(pairs)@.len() >= num_pairs_to_decode,
    num_base_bits <= 31,
    compressed_words@.len() == num_compressed_words, num_compressed_words <= 0xffff_ffff,
  ensures final(pairs)@.len() == old(pairs)@.len(),
{
    let mut word_index = 0;
    let mut bitbuf = 0;
    let mut bufbits = 0;
    proof { assert(num_base_bits <= 31 ==> (1u64 << num_base_bits) >= 1) by (bit_vector); }
    let golomb_lo_mask = (1 << num_base_bits) - 1;
    let mut predicted_row_index = 0u32;
    let mut predicted_col_index = 0u8;

    // for each pair we need to read:
    // x_delta (12-bit length-limited unary)
    // y_delta_hi (unary)
    // y_delta_lo (basebits)

    for pair_index in 0..num_pairs_to_decode
      invariant pairs@.len() == old(pairs)@.len(), old(pairs)@.len() >= num_pairs_to_decode, num_base_bits <= 31,
        compressed_words@.len() == num_compressed_words, num_compressed_words <= 0xffff_ffff,
        /*@C14.cpc.decode.pairs.bufbits*/ bufbits <= 63,
        /*@C14.cpc.decode.pairs.word_index*/ word_index <= compressed_words@.len(),
    {
        // ensure 12 bits in bit buffer
        maybe_fill_bitbuf(
            &mut bitbuf,
            &mut bufbits,
            compressed_words,
            &mut word_index,
            12,
        );
        let peek12 = bitbuf & 0xfff;
        proof { lemma_peek12(bitbuf); }
        let lookup = LENGTH_LIMITED_UNARY_DECODING_TABLE65[peek12 as usize];
        proof { lemma_entry(lookup); }
        let code_word_length = (lookup >> 8) as u8;
        let x_delta = (lookup & 0xff) as u8;
        bitbuf >>= code_word_length;
        bufbits -= code_word_length;

        let golomb_hi = read_unary(compressed_words, &mut word_index, &mut bitbuf, &mut bufbits);
        // ensure num_base_bits in the bit buffer
        maybe_fill_bitbuf(
            &mut bitbuf,
            &mut bufbits,
            compressed_words,
            &mut word_index,
            num_base_bits,
        );
        let golomb_lo = bitbuf & golomb_lo_mask;
        bitbuf >>= num_base_bits;
        bufbits -= num_base_bits;
        let y_delta = ((golomb_hi << num_base_bits) | golomb_lo) as u32;

        // Now that we have x_delta and y_delta, we can compute the pair's row and column
        if y_delta > 0 {
            predicted_col_index = 0;
        }
        // y_delta is any u32 for arbitrary words: the row accumulates without a check against k (or u32)
        assert(/*@C14.cpc.decode.pairs.row_overflow*/ predicted_row_index + y_delta <= u32::MAX);
        let row_index = predicted_row_index + y_delta;
        // x_delta <= 64 by the table, but the column accumulates within a row without a check against 64 (or u8)
        assert(/*@C14.cpc.decode.pairs.col_overflow*/ predicted_col_index + x_delta < 255);
        let col_index = predicted_col_index + x_delta;
        let row_col = (row_index << 6) | (col_index as u32);
        pairs[pair_index as usize] = row_col;
        predicted_row_index = row_index;
        predicted_col_index = col_index + 1;
    }

    debug_assert!(word_index <= num_compressed_words);
}

fn uncompress_surprising_values(
    data: &[u32],
    data_words: usize,
    num_pairs: u32,
    lg_k: u8,
) -> (r: Vec<u32>)
  requires 4 <= lg_k <= 26, data@.len() == data_words, data_words <= 0xffff_ffff,
  ensures r@.len() == num_pairs,
{
    proof { lemma_shl32(lg_k); lemma_k_bound(lg_k); }
    let k = 1 << lg_k;
    // every pair consumes at least 2 bits (x code >= 1 bit by the table, unary >= 1 bit): an honest numSV is at most 16 per word
    assert(/*@C14.cpc.decode.usv.alloc_bounded*/ num_pairs <= 16 * data_words);
    let mut pairs = vec![0; num_pairs as usize];
    assert(/*@C14.cpc.decode.usv.k_plus_pairs*/ pow2(lg_k as nat) + num_pairs <= u32::MAX);
    let num_base_bits = golomb_choose_number_of_base_bits(k + num_pairs, num_pairs as u64);
    low_level_uncompress_pairs(&mut pairs, num_pairs, num_base_bits, data, data_words);
    pairs
}

fn uncompress_sliding_window(
    data: &[u32],
    data_words: usize,
    window: &mut Vec<u8>,
    lg_k: u8,
    num_coupons: u32,
)
  requires 4 <= lg_k <= 26, data@.len() == data_words,
  ensures /*@C13.cpc.decode.window_len*/ final(window)@.len() == pow2(lg_k as nat),
{
    proof { lemma_shl32(lg_k); lemma_k_bound(lg_k); }
    let k = 1 << lg_k;
    // every window byte consumes at least 1 bit (code lengths >= 1 by the table): an honest window of k bytes needs k / 32 words
    assert(/*@C14.cpc.decode.window.alloc_bounded*/ k <= 32 * data_words);
    window.resize(k, 0);
    let pseudo_phase = determine_pseudo_phase(lg_k, num_coupons);
    low_level_uncompress_bytes(
        window,
        k as u32,
        data,
        data_words,
        &DECODING_TABLES_FOR_HIGH_ENTROPY_BYTE[pseudo_phase as usize],
    );
}

// =====================================================================================================================
// the compressed state and the flavor arms
// =====================================================================================================================
struct CompressedState {
table_data : Vec < u32 > , table_data_words : usize , table_num_entries : u32 , window_data : Vec < u32 > , window_data_words : usize , }

struct UncompressedState {
table : PairTable , window : Vec < u8 > , }

// EXACTLY what deserialize_with_seed has validated when it calls `uncompress` (contracts/cpc_codec.rs)
spec fn decode_validated(c: CompressedState, lg_k: u8) -> bool {
    &&& 4 <= lg_k <= 26
    &&& c.table_data@.len() == c.table_data_words && c.table_data_words <= 0xffff_ffff
    &&& c.window_data@.len() == c.window_data_words && c.window_data_words <= 0xffff_ffff
}
// the debug_assert!s of the arms (release: words[0] of an empty vector): flags / word counts fit the flavor.  The parser never compares them.
spec fn flags_fit(c: CompressedState, fl: Flavor) -> bool {
    &&& (fl is Sparse || fl is Hybrid) ==> c.window_data@.len() == 0 && c.table_data@.len() > 0
    &&& (fl is Pinned || fl is Sliding) ==> c.window_data@.len() > 0 && (c.table_num_entries > 0 ==> c.table_data@.len() > 0)
}
// what a caller gets when `uncompress` returns: the part of cpc_codec's ASSUMED contract of `uncompress` that is about shape
spec fn uncompressed_shape(r: UncompressedState, lg_k: u8, fl: Flavor) -> bool {
    &&& /*@C13.cpc.decode.table_wf*/ r.table.wf() && r.table.num_valid_bits == 6 + lg_k
    &&& /*@C13.cpc.decode.window_len*/ r.window@.len() == (if fl is Empty || fl is Sparse { 0 } else { pow2(lg_k as nat) as int })
}

proof fn lemma_col_plus8(p: u32) requires (p & 63) < 56 ensures p + 8 <= u32::MAX, ((p + 8) as u32 & 63) >= 8, ((p + 8) as u32 & 63) == (p & 63) + 8 {
    assert((p & 63) < 56 ==> p <= 0xffff_fff7 && (add(p, 8) & 63) >= 8 && (add(p, 8) & 63) == add(p & 63, 8)) by (bit_vector);
}
proof fn lemma_col63(p: u32) ensures (p & 63) < 64, ((p & 63) as u8) == (p & 63) { assert((p & 63) < 64) by (bit_vector); }
// rotation by offset + 8 of a canonical column < 56 never lands in the window columns [offset, offset + 8)
proof fn lemma_rotate(c: u8, offset: u8) requires c < 56, offset <= 56
  ensures c + (offset + 8) <= 255, ((c + (offset + 8)) as u8 & 63) < 64, !(offset <= ((c + (offset + 8)) as u8 & 63) < offset + 8)
{
    assert(c < 56 && offset <= 56 ==> (add(c, add(offset, 8)) & 63) < 64 && !(offset <= (add(c, add(offset, 8)) & 63) && (add(c, add(offset, 8)) & 63) < add(offset, 8))) by (bit_vector);
}

proof fn lemma_dco_zero(lg_k: u8, c: u32) requires 4 <= lg_k <= 26, 8 * (c as int) < 27 * pow2(lg_k as nat) ensures dco(lg_k, c) == 0 {
    let k = pow2(lg_k as nat) as int; lemma_k_bound(lg_k);
    if 8 * (c as int) >= 19 * k { let t = 8 * (c as int) - 19 * k; assert(t / (8 * k) == 0) by (nonlinear_arith) requires 0 <= t < 8 * k, k > 0; }
}

impl CompressedState {
    // dispatch: REACHED FROM deserialize_with_seed; nothing is known but decode_validated
    fn uncompress(&self, lg_k: u8, num_coupons: u32) -> (r: UncompressedState)
      requires decode_validated(*self, lg_k),
      ensures uncompressed_shape(r, lg_k, flavor_spec(lg_k, num_coupons)),
        flavor_spec(lg_k, num_coupons) is Empty ==> r.table.num_items == 0,
        /*@C13.cpc.decode.sparse_count*/ flavor_spec(lg_k, num_coupons) is Sparse ==> r.table.num_items == self.table_num_entries,
        // the clause unit cpc_codec ASSUMES of `uncompress`: no table entry inside the window columns (pinned: `+= 8` after the column assert;
        // sliding: permutation into [0,56) then rotation by offset + 8; hybrid: columns < 8 go to the window)
        /*@C13.cpc.decode.table_cols*/ dco(lg_k, num_coupons) <= 56 && r.window@.len() != 0 ==> forall|x: u32| r.table.items().contains(x) ==> !(dco(lg_k, num_coupons) <= (x & 63) < dco(lg_k, num_coupons) + 8),
    {
        proof { if 8 * (num_coupons as int) < 27 * pow2(lg_k as nat) { lemma_dco_zero(lg_k, num_coupons); } }
        match determine_flavor(lg_k, num_coupons) {
            Flavor::Empty => UncompressedState {
                table: PairTable::new(2, lg_k + 6),
                window: vec![],
            },
            Flavor::Sparse => self.uncompress_sparse_flavor(lg_k),
            Flavor::Hybrid => self.uncompress_hybrid_flavor(lg_k),
            Flavor::Pinned => self.uncompress_pinned_flavor(lg_k, num_coupons),
            Flavor::Sliding => self.uncompress_sliding_flavor(lg_k, num_coupons),
        }
    }

    // the sparse arm: its body is verified in unit cpc_codec (same obligations: C14.cpc.usv.*, C14.cpc.from_slots.*); by contract here
    #[verifier::external_body]
    fn uncompress_sparse_flavor(&self, lg_k: u8) -> (r: UncompressedState)
      requires decode_validated(*self, lg_k),
        /*@C14.cpc.decode.flags_vs_flavor*/ flags_fit(*self, Flavor::Sparse),
      ensures uncompressed_shape(r, lg_k, Flavor::Sparse), r.table.num_items == self.table_num_entries,
    { unimplemented!() }

    fn uncompress_hybrid_flavor(&self, lg_k: u8) -> (r: UncompressedState)
      requires decode_validated(*self, lg_k),
        /*@C14.cpc.decode.flags_vs_flavor*/ flags_fit(*self, Flavor::Hybrid),
      ensures uncompressed_shape(r, lg_k, Flavor::Hybrid),
        /*@C13.cpc.decode.hybrid.table_cols*/ forall|x: u32| r.table.items().contains(x) ==> (x & 63) >= 8,
    {
        debug_assert!(self.window_data.is_empty());
        debug_assert!(!self.table_data.is_empty());

        let mut pairs = uncompress_surprising_values(
            &self.table_data,
            self.table_data_words,
            self.table_num_entries,
            lg_k,
        );

        // In the hybrid flavor, some of these pairs actually belong in the window, so we will
        // separate them out, moving the "true" pairs to the bottom of the array.
        proof { lemma_shl32(lg_k); lemma_k_bound(lg_k); }
        let k = 1 << lg_k;
        let mut window = vec![0u8; k]; // important: zero the memory
        let mut next_true_pair = 0;
        for i in 0..self.table_num_entries
          invariant pairs@.len() == self.table_num_entries, window@.len() == k, k == pow2(lg_k as nat),
            next_true_pair <= i,
            /*@C13.cpc.decode.hybrid.table_cols*/ forall|j: int| 0 <= j < next_true_pair ==> (#[trigger] pairs@[j] & 63) >= 8,
        {
            let row_col = pairs[i as usize];
            // row (2^26 - 1) with column 63 is the EMPTY marker; the decoder can produce it
            assert(/*@C14.cpc.decode.hybrid.not_empty_marker*/ row_col != u32::MAX);
            assert!(row_col != u32::MAX);
            let col = row_col & 63;
            if col < 8 {
                let row = row_col >> 6;
                // the decoded row is not checked against k
                assert(/*@C14.cpc.decode.hybrid.row_in_window*/ row < k);
                window[row as usize] |= 1 << col; // set the window bit
            } else {
                pairs[next_true_pair as usize] = row_col;
                next_true_pair += 1;
            }
        }

        UncompressedState {
            table: PairTable::from_slots(lg_k, next_true_pair, pairs),
            window,
        }
    }

    fn uncompress_pinned_flavor(&self, lg_k: u8, num_coupons: u32) -> (r: UncompressedState)
      requires decode_validated(*self, lg_k),
        /*@C14.cpc.decode.flags_vs_flavor*/ flags_fit(*self, Flavor::Pinned),
      ensures uncompressed_shape(r, lg_k, Flavor::Pinned),
        /*@C13.cpc.decode.pinned.table_cols*/ forall|x: u32| r.table.items().contains(x) ==> (x & 63) >= 8,
    {
        debug_assert!(!self.window_data.is_empty());

        let mut window = vec![];
        uncompress_sliding_window(
            &self.window_data,
            self.window_data_words,
            &mut window,
            lg_k,
            num_coupons,
        );
        let num_pairs = self.table_num_entries;
        let table = if num_pairs == 0 {
            PairTable::new(2, lg_k + 6)
        } else {
            debug_assert!(!self.table_data.is_empty());
            let mut pairs = uncompress_surprising_values(
                &self.table_data,
                self.table_data_words,
                num_pairs,
                lg_k,
            );
            // undo the compressor's 8-column shift
            for i in 0..num_pairs
              invariant pairs@.len() == num_pairs,
                /*@C13.cpc.decode.pinned.table_cols*/ forall|j: int| 0 <= j < i ==> (#[trigger] pairs@[j] & 63) >= 8,
            {
                let i = i as usize;
                // the decoded column is any value in 0..=255 for arbitrary words
                assert(/*@C14.cpc.decode.pinned.col_lt_56*/ (pairs@[i as int] & 63) < 56);
                assert!((pairs[i] & 63) < 56);
                proof { lemma_col_plus8(pairs@[i as int]); }
                pairs[i] += 8;
            }
            PairTable::from_slots(lg_k, num_pairs, pairs)
        };
        UncompressedState { table, window }
    }

    fn uncompress_sliding_flavor(&self, lg_k: u8, num_coupons: u32) -> (r: UncompressedState)
      requires decode_validated(*self, lg_k),
        /*@C14.cpc.decode.flags_vs_flavor*/ flags_fit(*self, Flavor::Sliding),
        flavor_spec(lg_k, num_coupons) is Sliding,
      ensures uncompressed_shape(r, lg_k, Flavor::Sliding),
        /*@C13.cpc.decode.sliding.table_cols*/ dco(lg_k, num_coupons) <= 56 ==> forall|x: u32| r.table.items().contains(x) ==> !(dco(lg_k, num_coupons) <= (x & 63) < dco(lg_k, num_coupons) + 8),
    {
        debug_assert!(!self.window_data.is_empty());

        let mut window = vec![];
        uncompress_sliding_window(
            &self.window_data,
            self.window_data_words,
            &mut window,
            lg_k,
            num_coupons,
        );
        let num_pairs = self.table_num_entries;
        let table = if num_pairs == 0 {
            PairTable::new(2, lg_k + 6)
        } else {
            debug_assert!(!self.table_data.is_empty());
            let mut pairs = uncompress_surprising_values(
                &self.table_data,
                self.table_data_words,
                num_pairs,
                lg_k,
            );
            let pseudo_phase = determine_pseudo_phase(lg_k, num_coupons);
            proof { lemma_k_bound(lg_k); }
            let permutation = &COLUMN_PERMUTATIONS_FOR_DECODING[pseudo_phase as usize];
            let offset = determine_correct_offset(lg_k, num_coupons);
            // num_coupons is not bounded by the parser: Sliding only says 8 C >= 27 K
            assert(/*@C14.cpc.decode.sliding.offset*/ offset <= 56);
            assert!(offset <= 56);

            for i in 0..num_pairs
              invariant pairs@.len() == num_pairs, offset <= 56, pseudo_phase < 16,
                forall|c: int| 0 <= c < 56 ==> (#[trigger] permutation@[c]) < 56,
                /*@C13.cpc.decode.sliding.table_cols*/ forall|j: int| 0 <= j < i ==> !(offset <= (#[trigger] pairs@[j] & 63) < offset + 8),
            {
                let i = i as usize;
                let row_col = pairs[i];
                let row = row_col >> 6;
                proof { lemma_col63(row_col); }
                let mut col = (row_col & 63) as u8;
                // first undo the permutation
                // the permutation has 56 entries; the decoded column is any value for arbitrary words
                assert(/*@C14.cpc.decode.sliding.perm_index*/ col < 56);
                col = permutation[col as usize];
                // then undo the rotation: old = (new + (offset+8)) mod 64
                proof { lemma_rotate(col, offset); }
                col = (col + (offset + 8)) & 63;
                pairs[i] = (row << 6) | (col as u32);
                proof { assert(col < 64 ==> (((row << 6) | (col as u32)) & 63) == col as u32) by (bit_vector); }
            }

            PairTable::from_slots(lg_k, num_pairs, pairs)
        };
        UncompressedState { table, window }
    }
}

}
fn main(){}
