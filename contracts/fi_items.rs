use vstd::prelude::*;
use std::hash::Hash;
use std::io;
use std::io::Cursor;
use std::io::Read;
use std::string::FromUtf8Error;
verus! {
global size_of usize == 8;

// =====================================================================================================================
// Little-endian byte codecs (same definitions as units fi_codec / hll_codec8): interpreted, the round trip is a lemma
// =====================================================================================================================
spec fn le32_bytes(n: u32) -> Seq<u8> { seq![(n & 0xff) as u8, ((n >> 8) & 0xff) as u8, ((n >> 16) & 0xff) as u8, ((n >> 24) & 0xff) as u8] }
spec fn le64_bytes(n: u64) -> Seq<u8> { le32_bytes((n & 0xffff_ffff) as u32) + le32_bytes((n >> 32) as u32) }
spec fn le32_val(b: Seq<u8>) -> u32 { (b[0] as u32) | ((b[1] as u32) << 8) | ((b[2] as u32) << 16) | ((b[3] as u32) << 24) }
spec fn le64_val(b: Seq<u8>) -> u64 { (le32_val(b.subrange(0, 4)) as u64) | ((le32_val(b.subrange(4, 8)) as u64) << 32) }
proof fn lemma_le32_roundtrip(n: u32) ensures le32_val(le32_bytes(n)) == n, le32_bytes(n).len() == 4 {
    let b0 = (n & 0xff) as u8; let b1 = ((n >> 8) & 0xff) as u8; let b2 = ((n >> 16) & 0xff) as u8; let b3 = ((n >> 24) & 0xff) as u8;
    assert((b0 as u32) | ((b1 as u32) << 8) | ((b2 as u32) << 16) | ((b3 as u32) << 24) == n) by (bit_vector)
      requires b0 == (n & 0xff) as u8, b1 == ((n >> 8) & 0xff) as u8, b2 == ((n >> 16) & 0xff) as u8, b3 == ((n >> 24) & 0xff) as u8;
}
proof fn lemma_le64_roundtrip(n: u64) ensures le64_val(le64_bytes(n)) == n, le64_bytes(n).len() == 8 {
    let lo = (n & 0xffff_ffff) as u32; let hi = (n >> 32) as u32;
    lemma_le32_roundtrip(lo); lemma_le32_roundtrip(hi);
    assert(le64_bytes(n).subrange(0, 4) =~= le32_bytes(lo));
    assert(le64_bytes(n).subrange(4, 8) =~= le32_bytes(hi));
    assert((lo as u64) | ((hi as u64) << 32) == n) by (bit_vector) requires lo == (n & 0xffff_ffff) as u32, hi == (n >> 32) as u32;
}
// i64 travels as its two's complement bit pattern (what i64::to_le_bytes / from_le_bytes do)
spec fn i64_bits(n: i64) -> u64 { if n >= 0 { n as u64 } else { (n + 0x1_0000_0000_0000_0000) as u64 } }
spec fn i64_of_bits(u: u64) -> i64 { if u < 0x8000_0000_0000_0000 { u as i64 } else { (u - 0x1_0000_0000_0000_0000) as i64 } }
proof fn lemma_i64_bits_roundtrip(n: i64) ensures i64_of_bits(i64_bits(n)) == n { }

// std leaves (R4 rewrites of uN::from_le_bytes / n.to_le_bytes())
#[verifier::external_body] fn vx_u32_from_le_bytes(b: [u8; 4]) -> (r: u32) ensures r == le32_val(b@) { u32::from_le_bytes(b) }
#[verifier::external_body] fn vx_u64_from_le_bytes(b: [u8; 8]) -> (r: u64) ensures r == le64_val(b@) { u64::from_le_bytes(b) }
#[verifier::external_body] fn vx_i64_from_le_bytes(b: [u8; 8]) -> (r: i64) ensures r == i64_of_bits(le64_val(b@)) { i64::from_le_bytes(b) }
#[verifier::external_body] fn vx_u32_to_le_bytes(n: u32) -> (r: [u8; 4]) ensures r@ == le32_bytes(n) { n.to_le_bytes() }
#[verifier::external_body] fn vx_u64_to_le_bytes(n: u64) -> (r: [u8; 8]) ensures r@ == le64_bytes(n) { n.to_le_bytes() }
#[verifier::external_body] fn vx_i64_to_le_bytes(n: i64) -> (r: [u8; 8]) ensures r@ == le64_bytes(i64_bits(n)) { n.to_le_bytes() }

// =====================================================================================================================
// String model.  Verus has no byte-level view of str/String: a String is modelled by its UTF-8 bytes, an uninterpreted function.
// Assumed about std: as_bytes / len give those bytes / their number; from_utf8 succeeds exactly on valid UTF-8 and then returns a String
// with those bytes; a String is determined by its bytes and its bytes are valid UTF-8.  chars().count() is NOT specified (it is
// not the byte length).
// =====================================================================================================================
pub uninterp spec fn utf8(s: String) -> Seq<u8>;
pub uninterp spec fn valid_utf8(b: Seq<u8>) -> bool;
spec fn str_of(b: Seq<u8>) -> String { choose|s: String| utf8(s) == b }
#[verifier::external_body] proof fn axiom_utf8(a: String, b: String) ensures valid_utf8(utf8(a)), utf8(a) == utf8(b) ==> a == b {}
pub assume_specification [String::as_bytes] (s: &String) -> (r: &[u8]) ensures r@ == utf8(*s);
pub assume_specification [String::len] (s: &String) -> (r: usize) ensures r == utf8(*s).len(), r <= isize::MAX;
#[verifier::external_type_specification]
#[verifier::external_body]
pub struct ExFromUtf8Error(std::string::FromUtf8Error);
pub assume_specification [String::from_utf8] (v: Vec<u8>) -> (r: Result<String, FromUtf8Error>)
  ensures valid_utf8(v@) ==> (r matches Ok(s) && utf8(s) == v@), !valid_utf8(v@) ==> r is Err;
pub assume_specification<'a> [<std::str::Chars<'a> as std::iter::Iterator>::count] (c: std::str::Chars<'a>) -> usize;
proof fn lemma_str_of(s: String) ensures str_of(utf8(s)) == s { axiom_utf8(str_of(utf8(s)), s); }

// =====================================================================================================================
// error / io shims
// =====================================================================================================================
#[verifier::external_type_specification]
#[verifier::external_body]
pub struct ExIoError(std::io::Error);

struct Error { k: u8 }
trait VxIo<T> { fn vx_io(self, tag: &'static str) -> Result<T, Error>; }
impl<T, E> VxIo<T> for Result<T, E> {
  // R2: `.map_err(|_| Error::insufficient_data(..))` / `.map_err(|_| Error::deserial(..))`: Ok is kept, any error becomes an Error
  #[verifier::external_body]
  fn vx_io(self, tag: &'static str) -> (r: Result<T, Error>)
    ensures self matches Ok(v) ==> r == Ok::<T, Error>(v), self is Err ==> r is Err
  { unimplemented!() }
}

// =====================================================================================================================
// codec/encode.rs, codec/decode.rs (real bodies; same contracts as in unit hll_codec8: the cursor is the bytes not yet consumed)
// =====================================================================================================================
struct SketchBytes {
    bytes: Vec<u8>,
}

impl SketchBytes {
    spec fn view(&self) -> Seq<u8> { self.bytes@ }

    fn write(&mut self, buf: &[u8]) ensures final(self)@ == old(self)@ + buf@ {
        self.bytes.extend_from_slice(buf);
    }

    fn write_u32_le(&mut self, n: u32) ensures final(self)@ == old(self)@ + le32_bytes(n) {
        self.write(&vx_u32_to_le_bytes(n));
    }

    fn write_u64_le(&mut self, n: u64) ensures final(self)@ == old(self)@ + le64_bytes(n) {
        self.write(&vx_u64_to_le_bytes(n));
    }

    fn write_i64_le(&mut self, n: i64) ensures final(self)@ == old(self)@ + le64_bytes(i64_bits(n)) {
        self.write(&vx_i64_to_le_bytes(n));
    }
}

#[verifier::external_body]
struct SketchSlice<'a> {
    slice: Cursor<&'a [u8]>,
}

impl SketchSlice<'_> {
    uninterp spec fn rem(&self) -> Seq<u8>;

    #[verifier::external_body]
    fn read_exact(&mut self, buf: &mut [u8]) -> (r: io::Result<()>)
      ensures
        old(self).rem().len() >= old(buf)@.len() ==> (r is Ok && final(buf)@ == old(self).rem().take(old(buf)@.len() as int) && final(self).rem() == old(self).rem().skip(old(buf)@.len() as int)),
        old(self).rem().len() < old(buf)@.len() ==> r is Err,
        final(buf)@.len() == old(buf)@.len(),
    {
        unimplemented!()
    }

    fn read_u32_le(&mut self) -> (r: io::Result<u32>)
      ensures
        old(self).rem().len() >= 4 ==> (r matches Ok(v) && v == le32_val(old(self).rem().take(4)) && final(self).rem() == old(self).rem().skip(4)),
        old(self).rem().len() < 4 ==> r is Err,
    {
        let mut buf = [0u8; 4];
        self.read_exact(&mut buf)?;
        Ok(vx_u32_from_le_bytes(buf))
    }

    fn read_u64_le(&mut self) -> (r: io::Result<u64>)
      ensures
        old(self).rem().len() >= 8 ==> (r matches Ok(v) && v == le64_val(old(self).rem().take(8)) && final(self).rem() == old(self).rem().skip(8)),
        old(self).rem().len() < 8 ==> r is Err,
    {
        let mut buf = [0u8; 8];
        self.read_exact(&mut buf)?;
        Ok(vx_u64_from_le_bytes(buf))
    }

    fn read_i64_le(&mut self) -> (r: io::Result<i64>)
      ensures
        old(self).rem().len() >= 8 ==> (r matches Ok(v) && v == i64_of_bits(le64_val(old(self).rem().take(8))) && final(self).rem() == old(self).rem().skip(8)),
        old(self).rem().len() < 8 ==> r is Err,
    {
        let mut buf = [0u8; 8];
        self.read_exact(&mut buf)?;
        Ok(vx_i64_from_le_bytes(buf))
    }
}

// C14 allocation contract (R8): `vec![0; len as usize]` in String::deserialize_value, `len` straight from the image: the length prefix
// must have been checked against the bytes that are left before the buffer is allocated
#[verifier::external_body]
fn vx_zeroed_item_bytes_raw(n: usize, cursor: &SketchSlice<'_>) -> (r: Vec<u8>)
  requires /*@C14.fi.string_len_validated*/ n <= cursor.rem().len()
  ensures r@.len() == n
{ vec![0; n] }
// Obligations that FAIL on the current /repo sit in thin verified shims around the offending expression (as in unit fi_codec): the
// failure is a quick definite one in a tiny context and the parser verifies cleanly.  When the parser is repaired (the prefix compared
// with the remaining bytes first) the `requires` moves back to the call site.
fn vx_zeroed_item_bytes(n: usize, cursor: &SketchSlice<'_>) -> (r: Vec<u8>)
  ensures r@.len() == n
{ vx_zeroed_item_bytes_raw(n, cursor) }

// =====================================================================================================================
// FORMAT SPEC (DESIGN.md Appendix A, "Frequent items": after the counters come the items - i64/u64: 8 bytes LE; String: u32 LE BYTE
// length + UTF-8 bytes).  An item codec = (enc, dec, fits); the trait carries the contract every implementation is verified against.
// =====================================================================================================================
trait FrequentItemValue: Sized + Eq + Hash + Clone {
    // the bytes of one item
    spec fn enc(&self) -> Seq<u8>;
    // the item is representable in the format (String: the byte length fits the u32 prefix)
    spec fn fits(&self) -> bool;
    // the item at the head of `rem` and the number of bytes it takes; None: truncated or malformed
    spec fn dec(rem: Seq<u8>) -> Option<(Self, int)>;
    proof fn lemma_dec_wf(rem: Seq<u8>)
      ensures Self::dec(rem) matches Some((x, k)) ==> 0 <= k <= rem.len();
    // the item-level round trip law (holds with any bytes after the item)
    proof fn lemma_item_law(x: Self, tail: Seq<u8>)
      requires x.fits()
      ensures /*@C11.fi.item_law*/ Self::dec(x.enc() + tail) == Some((x, x.enc().len() as int));

    fn serialize_size(item: &Self) -> (r: usize)
      ensures /*@C12.fi.item_size*/ item.fits() ==> r == item.enc().len();
    fn serialize_value(&self, bytes: &mut SketchBytes)
      ensures /*@C12.fi.item*/ self.fits() ==> final(bytes)@ == old(bytes)@ + self.enc();
    fn deserialize_value(cursor: &mut SketchSlice<'_>) -> (r: Result<Self, Error>)
      ensures
        /*@C13.fi.item*/ Self::dec(old(cursor).rem()) matches Some((x, k)) ==> r == Ok::<Self, Error>(x) && final(cursor).rem() == old(cursor).rem().skip(k),
        /*@C14.fi.item*/ Self::dec(old(cursor).rem()) is None ==> r is Err;
}

spec fn enc_str(s: String) -> Seq<u8> { le32_bytes(utf8(s).len() as u32) + utf8(s) }
spec fn dec_str(rem: Seq<u8>) -> Option<(String, int)> {
    if rem.len() < 4 { None } else {
        let n = le32_val(rem.take(4)) as int;
        if rem.len() < 4 + n { None }
        else if !valid_utf8(rem.subrange(4, 4 + n)) { None }
        else { Some((str_of(rem.subrange(4, 4 + n)), 4 + n)) }
    }
}

impl FrequentItemValue for String {
    spec fn enc(&self) -> Seq<u8> { enc_str(*self) }
    spec fn fits(&self) -> bool { utf8(*self).len() <= u32::MAX }
    spec fn dec(rem: Seq<u8>) -> Option<(Self, int)> { dec_str(rem) }
    proof fn lemma_dec_wf(rem: Seq<u8>) { }
    proof fn lemma_item_law(x: Self, tail: Seq<u8>) {
        let n = utf8(x).len() as u32; let e = enc_str(x) + tail;
        lemma_le32_roundtrip(n); axiom_utf8(x, x); lemma_str_of(x);
        assert(e.take(4) =~= le32_bytes(n));
        assert(e.subrange(4, 4 + n) =~= utf8(x));
    }

    fn serialize_size(item: &Self) -> (r: usize)
      ensures /*@C12.fi.string_item*/ r == 4 + utf8(*item).len()
    {
        size_of::<u32>() + item.len()
    }

    fn serialize_value(&self, bytes: &mut SketchBytes)
      ensures /*@C12.fi.string_item*/ utf8(*self).len() <= u32::MAX ==> final(bytes)@ == old(bytes)@ + le32_bytes(utf8(*self).len() as u32) + utf8(*self)
    {
        let bs = self.as_bytes();
        bytes.write_u32_le(bs.len() as u32);
        bytes.write(bs);
        proof { assert(old(bytes)@ + le32_bytes(utf8(*self).len() as u32) + utf8(*self) =~= old(bytes)@ + enc_str(*self)); }
    }

    fn deserialize_value(cursor: &mut SketchSlice<'_>) -> (r: Result<Self, Error>)
      ensures
        /*@C13.fi.string_item*/ dec_str(old(cursor).rem()) matches Some((s, k)) ==> r == Ok::<String, Error>(s) && final(cursor).rem() == old(cursor).rem().skip(k),
        /*@C14.fi.string_item*/ old(cursor).rem().len() < 4 || old(cursor).rem().len() < 4 + le32_val(old(cursor).rem().take(4))
              || !valid_utf8(old(cursor).rem().subrange(4, 4 + le32_val(old(cursor).rem().take(4)))) ==> r is Err,
    {
        let ghost rem0 = cursor.rem();
        let len = cursor.read_u32_le().vx_io("item")?;

        let mut slice = vx_zeroed_item_bytes(len as usize, cursor);
        cursor.read_exact(&mut slice).vx_io("item")?;
        proof {
            assert(rem0.skip(4).take(len as int) =~= rem0.subrange(4, 4 + len));
            assert(rem0.skip(4).skip(len as int) =~= rem0.skip(4 + len));
        }

        proof {
            assert forall|a: String| utf8(a) == slice@ implies a == str_of(slice@) by { axiom_utf8(a, str_of(slice@)); }
        }
        String::from_utf8(slice)
            .vx_io("utf8")
    }
}

impl FrequentItemValue for u64 {
    spec fn enc(&self) -> Seq<u8> { le64_bytes(*self) }
    spec fn fits(&self) -> bool { true }
    spec fn dec(rem: Seq<u8>) -> Option<(Self, int)> { if rem.len() < 8 { None } else { Some((le64_val(rem.take(8)), 8int)) } }
    proof fn lemma_dec_wf(rem: Seq<u8>) { }
    proof fn lemma_item_law(x: Self, tail: Seq<u8>) {
        lemma_le64_roundtrip(x);
        assert((le64_bytes(x) + tail).take(8) =~= le64_bytes(x));
    }

    fn serialize_size(_item: &Self) -> (r: usize)
      ensures /*@C12.fi.u64_item*/ r == 8
    {
        size_of::<u64>()
    }

    fn serialize_value(&self, bytes: &mut SketchBytes)
      ensures /*@C12.fi.u64_item*/ final(bytes)@ == old(bytes)@ + le64_bytes(*self)
    {
        bytes.write_u64_le(*self);
    }

    fn deserialize_value(cursor: &mut SketchSlice<'_>) -> (r: Result<Self, Error>)
      ensures
        /*@C13.fi.u64_item*/ old(cursor).rem().len() >= 8 ==> r == Ok::<u64, Error>(le64_val(old(cursor).rem().take(8))) && final(cursor).rem() == old(cursor).rem().skip(8),
        /*@C14.fi.u64_item*/ old(cursor).rem().len() < 8 ==> r is Err,
    {
        cursor.read_u64_le().vx_io("item")
    }
}

impl FrequentItemValue for i64 {
    spec fn enc(&self) -> Seq<u8> { le64_bytes(i64_bits(*self)) }
    spec fn fits(&self) -> bool { true }
    spec fn dec(rem: Seq<u8>) -> Option<(Self, int)> { if rem.len() < 8 { None } else { Some((i64_of_bits(le64_val(rem.take(8))), 8int)) } }
    proof fn lemma_dec_wf(rem: Seq<u8>) { }
    proof fn lemma_item_law(x: Self, tail: Seq<u8>) {
        lemma_le64_roundtrip(i64_bits(x)); lemma_i64_bits_roundtrip(x);
        assert((le64_bytes(i64_bits(x)) + tail).take(8) =~= le64_bytes(i64_bits(x)));
    }

    fn serialize_size(_item: &Self) -> (r: usize)
      ensures /*@C12.fi.i64_item*/ r == 8
    {
        size_of::<i64>()
    }

    fn serialize_value(&self, bytes: &mut SketchBytes)
      ensures /*@C12.fi.i64_item*/ final(bytes)@ == old(bytes)@ + le64_bytes(i64_bits(*self))
    {
        bytes.write_i64_le(*self);
    }

    fn deserialize_value(cursor: &mut SketchSlice<'_>) -> (r: Result<Self, Error>)
      ensures
        /*@C13.fi.i64_item*/ old(cursor).rem().len() >= 8 ==> r == Ok::<i64, Error>(i64_of_bits(le64_val(old(cursor).rem().take(8)))) && final(cursor).rem() == old(cursor).rem().skip(8),
        /*@C14.fi.i64_item*/ old(cursor).rem().len() < 8 ==> r is Err,
    {
        cursor.read_i64_le().vx_io("item")
    }
}

// =====================================================================================================================
// The LIST codec of FrequentItemsSketch::serialize / deserialize (the closures handed to serialize_inner / deserialize_inner): the items
// one after the other; the reader takes n items from the head of the remaining bytes.  These are the `enc_items` / `dec_items` that
// unit fi_codec leaves uninterpreted, and `item_codec_law` is the law it assumes.
// =====================================================================================================================
spec fn enc_items<T: FrequentItemValue>(s: Seq<T>) -> Seq<u8> decreases s.len() {
    if s.len() == 0 { Seq::empty() } else { enc_items(s.drop_last()) + s.last().enc() }
}
spec fn dec_items<T: FrequentItemValue>(rem: Seq<u8>, n: int) -> Option<Seq<T>> decreases n {
    if n <= 0 { Some(Seq::empty()) } else {
        match T::dec(rem) {
            None => None,
            Some((x, k)) => match dec_items::<T>(rem.skip(k), n - 1) { None => None, Some(t) => Some(seq![x] + t) },
        }
    }
}
spec fn all_fit<T: FrequentItemValue>(s: Seq<T>) -> bool { forall|i: int| 0 <= i < s.len() ==> (#[trigger] s[i]).fits() }
spec fn item_codec_law<T: FrequentItemValue>() -> bool {
    forall|s: Seq<T>| all_fit(s) ==> #[trigger] dec_items::<T>(enc_items(s), s.len() as int) == Some(s)
}
proof fn lemma_enc_front<T: FrequentItemValue>(s: Seq<T>)
  requires s.len() > 0
  ensures enc_items(s) == s[0].enc() + enc_items(s.skip(1))
  decreases s.len()
{
    if s.len() == 1 {
        assert(s.drop_last() =~= Seq::<T>::empty()); assert(s.skip(1) =~= Seq::<T>::empty());
        assert(enc_items(s.drop_last()) =~= Seq::<u8>::empty());
        assert(enc_items(s) =~= s[0].enc() + enc_items(s.skip(1)));
    } else {
        lemma_enc_front(s.drop_last());
        assert(s.skip(1).drop_last() =~= s.drop_last().skip(1));
        assert(s.skip(1).last() == s.last());
        assert(enc_items(s) =~= s[0].enc() + enc_items(s.skip(1)));
    }
}
proof fn lemma_list_roundtrip<T: FrequentItemValue>(s: Seq<T>, tail: Seq<u8>)
  requires all_fit(s)
  ensures dec_items::<T>(enc_items(s) + tail, s.len() as int) == Some(s)
  decreases s.len()
{
    if s.len() > 0 {
        let x = s[0]; let rest = s.skip(1); let t2 = enc_items(rest) + tail;
        lemma_enc_front(s);
        assert(x.fits());
        T::lemma_item_law(x, t2);
        assert(enc_items(s) + tail =~= x.enc() + t2);
        assert((x.enc() + t2).skip(x.enc().len() as int) =~= t2);
        assert(all_fit(rest)) by { assert forall|i: int| 0 <= i < rest.len() implies (#[trigger] rest[i]).fits() by { assert(rest[i] == s[i + 1]); } }
        lemma_list_roundtrip(rest, tail);
        assert(seq![x] + rest =~= s);
    } else {
        assert(s =~= Seq::<T>::empty());
    }
}
// the law unit fi_codec assumes of a generic item codec, for the three item types of the crate
proof fn lemma_item_codec_law_generic<T: FrequentItemValue>() ensures item_codec_law::<T>() {
    assert forall|s: Seq<T>| all_fit(s) implies #[trigger] dec_items::<T>(enc_items(s), s.len() as int) == Some(s) by {
        lemma_list_roundtrip(s, Seq::empty()); assert(enc_items(s) + Seq::<u8>::empty() =~= enc_items(s));
    }
}
proof fn lemma_item_codec_law_string()
  ensures /*@C11.fi.string_items*/ forall|s: Seq<String>| (forall|i: int| 0 <= i < s.len() ==> utf8(#[trigger] s[i]).len() <= u32::MAX) ==> #[trigger] dec_items::<String>(enc_items(s), s.len() as int) == Some(s)
{
    lemma_item_codec_law_generic::<String>();
    assert forall|s: Seq<String>| (forall|i: int| 0 <= i < s.len() ==> utf8(#[trigger] s[i]).len() <= u32::MAX) implies #[trigger] dec_items::<String>(enc_items(s), s.len() as int) == Some(s) by {
        assert(all_fit(s));
    }
}
proof fn lemma_item_codec_law_u64()
  ensures /*@C11.fi.u64_items*/ forall|s: Seq<u64>| #[trigger] dec_items::<u64>(enc_items(s), s.len() as int) == Some(s)
{
    lemma_item_codec_law_generic::<u64>();
    assert forall|s: Seq<u64>| #[trigger] dec_items::<u64>(enc_items(s), s.len() as int) == Some(s) by { assert(all_fit(s)); }
}
proof fn lemma_item_codec_law_i64()
  ensures /*@C11.fi.i64_items*/ forall|s: Seq<i64>| #[trigger] dec_items::<i64>(enc_items(s), s.len() as int) == Some(s)
{
    lemma_item_codec_law_generic::<i64>();
    assert forall|s: Seq<i64>| #[trigger] dec_items::<i64>(enc_items(s), s.len() as int) == Some(s) by { assert(all_fit(s)); }
}

// =====================================================================================================================
// The two closures of FrequentItemsSketch::serialize / deserialize (frequencies/sketch.rs; closures are not extractable): VERBATIM COPIES
// as functions, verified against the list codec from the trait contract alone - they meet the contract unit fi_codec requires of the
// `serialize_items` / `deserialize_items` parameters of serialize_inner / deserialize_inner.
// =====================================================================================================================
fn vx_serialize_items<T: FrequentItemValue>(bytes: &mut SketchBytes, items: &[T])
  requires all_fit(items@)
  ensures /*@C12.fi.items*/ final(bytes)@ == old(bytes)@ + enc_items(items@)
{
    proof { assert(items@.take(0) =~= Seq::<T>::empty()); assert(old(bytes)@ + enc_items(items@.take(0)) =~= old(bytes)@); }
    let mut i = 0;
    while i < items.len()
      invariant i <= items@.len(), all_fit(items@), bytes@ == old(bytes)@ + enc_items(items@.take(i as int)),
      decreases items@.len() - i
    {
        let item = &items[i];
        let ghost b0 = bytes@;
        proof { assert(items@[i as int].fits()); }
        item.serialize_value(bytes);
        proof {
            let a = items@.take(i + 1);
            assert(a.drop_last() =~= items@.take(i as int));
            assert(a.last() == *item);
            assert(bytes@ =~= old(bytes)@ + enc_items(a));
        }
        i += 1;
    }
    proof { assert(items@.take(items@.len() as int) =~= items@); }
}

spec fn prepend<T>(a: Seq<T>, o: Option<Seq<T>>) -> Option<Seq<T>> { match o { None => None, Some(t) => Some(a + t) } }

fn vx_deserialize_items<T: FrequentItemValue>(cursor: SketchSlice<'_>, num_items: usize) -> (r: Result<Vec<T>, Error>)
  ensures
    /*@C13.fi.items*/ r matches Ok(v) ==> dec_items::<T>(cursor.rem(), num_items as int) == Some(v@),
    /*@C14.fi.items*/ r is Err ==> dec_items::<T>(cursor.rem(), num_items as int) is None,
{
    let mut cur = cursor;      // the closure parameter is `mut cursor`
    let ghost rem0 = cur.rem();
    let mut items = Vec::with_capacity(num_items);
    proof { assert(Seq::<T>::empty() + dec_items::<T>(rem0, num_items as int)->0 =~= dec_items::<T>(rem0, num_items as int)->0); }
    for i in 0..num_items
      invariant rem0 == cursor.rem(), dec_items::<T>(rem0, num_items as int) == prepend(items@, dec_items::<T>(cur.rem(), num_items - i)),
    {
        let ghost c0 = cur.rem(); let ghost it0 = items@;
        proof {
            T::lemma_dec_wf(c0);
        }
        let item = T::deserialize_value(&mut cur).vx_io("item")?;
        items.push(item);
        proof {
            let t = dec_items::<T>(cur.rem(), num_items - i - 1);
            if t is Some { assert(it0 + (seq![item] + t->0) =~= it0.push(item) + t->0); }
        }
    }
    proof { assert(items@ + Seq::<T>::empty() =~= items@); }
    Ok(items)
}

}
fn main(){}
