#![feature(allocator_api)]
#![feature(nonzero_internals)]
use vstd::prelude::*;
use std::num::NonZeroU64;
use std::cmp::Ordering;
use vstd::std_specs::ops::*;
use vstd::std_specs::cmp::*;
verus! {
global size_of usize == 8;

// ================= floats stay uninterpreted =================
// Rust float arithmetic never traps (vstd gives + - * / an open precondition)
#[verifier::external_body] pub proof fn axiom_float_total()
  ensures forall|a: f64, b: f64| #[trigger] AddSpec::add_req(a, b), forall|a: f64, b: f64| #[trigger] SubSpec::sub_req(a, b),
          forall|a: f64, b: f64| #[trigger] MulSpec::mul_req(a, b), forall|a: f64, b: f64| #[trigger] DivSpec::div_req(a, b) {}
// f64 comparison operators are functions of their operands
#[verifier::external_body] proof fn axiom_f64_cmp_deterministic() ensures <f64 as PartialOrdSpec>::obeys_partial_cmp_spec() {}
pub uninterp spec fn f_is_nan(x: f64) -> bool;
pub uninterp spec fn f_is_inf(x: f64) -> bool;
spec fn f_lt(a: f64, b: f64) -> bool { a.partial_cmp_spec(&b) == Some(Ordering::Less) }
spec fn f_gt(a: f64, b: f64) -> bool { a.partial_cmp_spec(&b) == Some(Ordering::Greater) }
spec fn f_finite(x: f64) -> bool { !f_is_nan(x) && !f_is_inf(x) }
// IEEE: a comparison with a NaN operand is false
#[verifier::external_body] proof fn axiom_lt_not_nan(a: f64, b: f64) requires f_lt(a, b) ensures !f_is_nan(a), !f_is_nan(b) {}
pub assume_specification [ f64::is_nan ] (x: f64) -> (r: bool) ensures r == f_is_nan(x);
pub assume_specification [ f64::is_infinite ] (x: f64) -> (r: bool) ensures r == f_is_inf(x);
// min / max are functions of their operands (uninterpreted): enough to pin WHICH values the extremes are refreshed from
pub uninterp spec fn f_min(a: f64, b: f64) -> f64;
pub uninterp spec fn f_max(a: f64, b: f64) -> f64;
pub assume_specification [ f64::min ] (a: f64, b: f64) -> (r: f64) ensures r == f_min(a, b);
pub assume_specification [ f64::max ] (a: f64, b: f64) -> (r: f64) ensures r == f_max(a, b);

// the float interpolation of TDigestView::{rank, quantile} is a function of the view (uninterpreted): pins that the wrappers DELEGATE to it
pub uninterp spec fn view_rank_spec(min: f64, max: f64, cs: Seq<Centroid>, w: u64, v: f64) -> Option<f64>;
pub uninterp spec fn view_quantile_spec(min: f64, max: f64, cs: Seq<Centroid>, w: u64, q: f64) -> Option<f64>;
// `(0.0..=1.0).contains(&rank)`: the documented argument range of quantile (floats stay uninterpreted)
pub uninterp spec fn f_in_unit(x: f64) -> bool;
#[verifier::external_body] fn vx_in_unit_interval(rank: &f64) -> (r: bool) ensures r == f_in_unit(*rank) { (0.0..=1.0).contains(rank) }
// R12b: a DOCUMENTED panic (argument validation promised by the API docs: "# Panics" of new / rank / quantile / cdf / pmf) is modelled as
// 'returns only if the condition holds': the condition is a tagged POSTCONDITION (`*_validated`) instead of a precondition, so weakening
// or removing the check is noticed.  The bodies are the original statements.
#[verifier::external_body] fn vx_documented_panic(c: bool) ensures c { assert!(c); }
#[verifier::external_body] fn vx_documented_unreachable() ensures false { panic!() }
// what check_split_points validates (documented for cdf / pmf): not a single NaN, strictly increasing (which excludes NaN for len >= 2)
spec fn sp_valid(s: Seq<f64>) -> bool {
    (s.len() == 1 ==> !f_is_nan(s[0])) && (forall|i: int| 0 <= i < s.len() - 1 ==> f_lt(#[trigger] s[i], s[i + 1]))
}
#[verifier::external_body] fn vx_f64_infinity() -> f64 { f64::INFINITY }
#[verifier::external_body] fn vx_f64_neg_infinity() -> f64 { f64::NEG_INFINITY }
// error.rs: only the fact that an error value is built
struct Error { k: u8 }
impl Error {
    #[verifier::external_body] fn invalid_argument(msg: impl Into<String>) -> Error { Error { k: 1 } }
}

// ================= std leaves =================
pub assume_specification<T, F: FnMut(&T, &T) -> Ordering> [ <[T]>::sort_by ] (s: &mut [T], compare: F)
  ensures final(s)@.len() == old(s)@.len(), final(s)@.to_multiset() == old(s)@.to_multiset();
pub assume_specification<T> [ <[T]>::reverse ] (s: &mut [T])
  ensures final(s)@ == old(s)@.reverse();
// R14: `X.extend(std::mem::take(&mut Y))`
#[verifier::external_body] fn vx_extend_take(b: &mut Vec<Centroid>, c: &mut Vec<Centroid>)
  ensures final(b)@ == old(b)@ + old(c)@, final(c)@ == Seq::<Centroid>::empty()
{ b.extend(std::mem::take(c)) }
// a Vec<Centroid> (16-byte elements) cannot be longer than isize::MAX / 16
#[verifier::external_body] proof fn axiom_centroid_vec_len(v: &Vec<Centroid>) ensures v@.len() <= 0x7ff_ffff_ffff_ffff {}

// a [f64] cannot be longer than isize::MAX / 8
#[verifier::external_body] proof fn axiom_f64_slice_len(s: &[f64]) ensures s@.len() <= 0xfff_ffff_ffff_ffff {}

// scale function K_2 (floats only; no contract)
#[verifier::external_body] fn normalizer(compression: f64, n: f64) -> f64 { compression / (4. * (n / compression).ln() + 24.) }
#[verifier::external_body] fn max(q: f64, normalizer: f64) -> f64 { q * (1. - q) / normalizer }

const DEFAULT_K : u16 = 200 ;


const BUFFER_MULTIPLIER : usize = 4 ;




exec const DEFAULT_WEIGHT : NonZeroU64 ensures DEFAULT_WEIGHT . get ( ) == 1 {
proof {
}
NonZeroU64 :: new ( 1 ) . unwrap ( ) }





#[derive(Debug, Clone, Copy, PartialEq)]
struct Centroid {
mean : f64 , weight : NonZeroU64 , }





struct TDigestMut {
k : u16 , reverse_merge : bool , min : f64 , max : f64 , centroids : Vec < Centroid > , centroids_weight : u64 , centroids_capacity : usize , buffer : Vec < f64 > , }





struct TDigest {
k : u16 , reverse_merge : bool , min : f64 , max : f64 , centroids : Vec < Centroid > , centroids_weight : u64 , }





struct TDigestView < 'a > {
min : f64 , max : f64 , centroids : & 'a [ Centroid ] , centroids_weight : u64 , }





// ================= integer skeleton: weights =================
spec fn wsum(cs: Seq<Centroid>) -> int decreases cs.len() {
    if cs.len() == 0 { 0 } else { wsum(cs.drop_last()) + cs.last().weight.get() }
}
proof fn lemma_wsum_push(cs: Seq<Centroid>, c: Centroid)
  ensures wsum(cs.push(c)) == wsum(cs) + c.weight.get()
{
    assert(cs.push(c).drop_last() =~= cs);
}
proof fn lemma_wsum_append(a: Seq<Centroid>, b: Seq<Centroid>)
  ensures wsum(a + b) == wsum(a) + wsum(b)
  decreases b.len()
{
    if b.len() == 0 { assert(a + b =~= a); }
    else {
        assert((a + b).drop_last() =~= a + b.drop_last());
        lemma_wsum_append(a, b.drop_last());
    }
}
proof fn lemma_wsum_nonneg(a: Seq<Centroid>)
  ensures wsum(a) >= 0
  decreases a.len()
{
    if a.len() > 0 { lemma_wsum_nonneg(a.drop_last()); }
}
proof fn lemma_wsum_remove(a: Seq<Centroid>, j: int)
  requires 0 <= j < a.len()
  ensures wsum(a) == wsum(a.remove(j)) + a[j].weight.get()
{
    let l = a.subrange(0, j); let r = a.subrange(j + 1, a.len() as int);
    assert(a =~= l.push(a[j]) + r);
    assert(a.remove(j) =~= l + r);
    lemma_wsum_append(l.push(a[j]), r);
    lemma_wsum_append(l, r);
    lemma_wsum_push(l, a[j]);
}
proof fn lemma_wsum_update(a: Seq<Centroid>, j: int, c: Centroid)
  requires 0 <= j < a.len()
  ensures wsum(a.update(j, c)) == wsum(a) - a[j].weight.get() + c.weight.get()
{
    lemma_wsum_remove(a, j);
    lemma_wsum_remove(a.update(j, c), j);
    assert(a.update(j, c).remove(j) =~= a.remove(j));
}
proof fn lemma_wsum_elem(a: Seq<Centroid>, j: int)
  requires 0 <= j < a.len()
  ensures a[j].weight.get() <= wsum(a)
{
    lemma_wsum_remove(a, j); lemma_wsum_nonneg(a.remove(j));
}
// the weight sum depends only on the multiset of centroids (sorting keeps it)
proof fn lemma_wsum_perm(a: Seq<Centroid>, b: Seq<Centroid>)
  requires a.to_multiset() == b.to_multiset()
  ensures wsum(a) == wsum(b)
  decreases a.len()
{
    a.to_multiset_ensures(); b.to_multiset_ensures();
    if a.len() == 0 {
        if b.len() > 0 { assert(b.to_multiset().count(b[0]) > 0); assert(a.to_multiset().count(b[0]) == 0); }
    } else {
        let x = a.last();
        assert(a.to_multiset().count(x) > 0) by { assert(a[a.len() - 1] == x); }
        assert(b.contains(x));
        let j = choose|j: int| 0 <= j < b.len() && b[j] == x;
        lemma_wsum_remove(b, j);
        assert(a.drop_last() =~= a.remove(a.len() - 1));
        assert(a.remove(a.len() - 1).to_multiset() =~= a.to_multiset().remove(x));
        assert(b.remove(j).to_multiset() =~= b.to_multiset().remove(x));
        lemma_wsum_perm(a.drop_last(), b.remove(j));
    }
}
proof fn lemma_wsum_reverse(a: Seq<Centroid>)
  ensures wsum(a.reverse()) == wsum(a)
  decreases a.len()
{
    if a.len() > 0 {
        let r = a.reverse();
        assert(r =~= seq![a.last()] + a.drop_last().reverse());
        lemma_wsum_append(seq![a.last()], a.drop_last().reverse());
        lemma_wsum_reverse(a.drop_last());
        lemma_wsum_push(Seq::<Centroid>::empty(), a.last());
        assert(seq![a.last()] =~= Seq::<Centroid>::empty().push(a.last()));
    } else { assert(a.reverse() =~= a); }
}
proof fn lemma_wsum_tail(a: Seq<Centroid>, i: int)
  requires 0 <= i < a.len()
  ensures wsum(a.subrange(i, a.len() as int)) == a[i].weight.get() + wsum(a.subrange(i + 1, a.len() as int))
{
    let t = a.subrange(i, a.len() as int);
    lemma_wsum_remove(t, 0);
    assert(t.remove(0) =~= a.subrange(i + 1, a.len() as int));
}
spec fn cap_of_k(k: u16) -> int { k * 2 + (if k < 30 { 30int } else { 10int }) }

impl Centroid {
    #[verifier::external_body]
    fn add(&mut self, other: Centroid)
      requires old(self).weight.get() + other.weight.get() <= u64::MAX
      ensures final(self).weight.get() == old(self).weight.get() + other.weight.get()
    { unimplemented!() }

    fn weight ( & self ) -> f64 {
self . weight . get ( ) as f64 }




}
#[verifier::external_body]
fn centroid_cmp(a: &Centroid, b: &Centroid) -> Ordering { unimplemented!() }

fn check_split_points ( split_points : & [ f64 ] ) ensures
/*@C10.split_points_validated*/ sp_valid ( split_points @ ) , {
let len = split_points . len ( ) ;
if len == 1 && split_points [ 0 ] . is_nan ( ) {
vx_documented_unreachable ( ) ;
}
let mut vx_n1 = 0 ;
let vx_end1 = len . saturating_sub ( 1 ) ;
while vx_n1 < vx_end1 invariant
/*@C10.split_points_any_length*/ vx_end1 == ( if len == 0 {
0int }
else {
len - 1 }
) , len == split_points @ . len ( ) , vx_n1 <= vx_end1 ,
/*@C10.split_points_validated*/ forall | i : int | 0 <= i < vx_n1 ==> f_lt ( # [ trigger ] split_points @ [ i ] , split_points @ [ i + 1 ] ) , decreases vx_end1 - vx_n1 {
let i = vx_n1 ;
vx_n1 += 1 ;
proof {
axiom_f64_cmp_deterministic ( ) ;
}
if split_points [ i ] < split_points [ i + 1 ] {
continue ;
}
vx_documented_unreachable ( ) ;
}
}





impl Default for TDigestMut {
    fn default ( ) -> ( r : Self ) ensures
/*@C10.default_k*/ r . is_default ( ) {
TDigestMut :: new ( DEFAULT_K ) }


}

impl TDigestMut {
    spec fn cfg_ok(&self) -> bool { self.k >= 10 && self.centroids_capacity == cap_of_k(self.k) }
    spec fn total(&self) -> int { self.centroids_weight + self.buffer@.len() }
    spec fn wf(&self) -> bool {
        &&& self.cfg_ok()
        &&& self.buffer@.len() <= self.centroids_capacity * 4
        &&& wsum(self.centroids@) == self.centroids_weight
        &&& self.total() <= u64::MAX
    }
    spec fn empty(&self) -> bool { self.centroids@.len() == 0 && self.buffer@.len() == 0 }
    spec fn same_cfg(&self, o: &TDigestMut) -> bool { self.k == o.k && self.centroids_capacity == o.centroids_capacity }

    fn make ( k : u16 , reverse_merge : bool , min : f64 , max : f64 , mut centroids : Vec < Centroid > , centroids_weight : u64 , mut buffer : Vec < f64 > , ) -> ( r : Self ) ensures
/*@C10.make.k_validated*/ k >= 10 , r . cfg_ok ( ) , r . k == k , r . centroids @ == centroids @ , r . buffer @ == buffer @ , r . centroids_weight == centroids_weight , r . reverse_merge == reverse_merge , {
vx_documented_panic ( k >= 10 ) ;
assert ( /*@C10.make.k_validated*/ k >= 10 ) ;
let fudge = if k < 30 {
30 }
else {
10 }
;
let centroids_capacity = ( k as usize * 2 ) + fudge ;
centroids . reserve ( centroids_capacity ) ;
buffer . reserve ( centroids_capacity * BUFFER_MULTIPLIER ) ;
TDigestMut {
k , reverse_merge , min , max , centroids , centroids_weight , centroids_capacity , buffer , }
}





    fn update ( & mut self , value : f64 ) requires old ( self ) . wf ( ) , old ( self ) . total ( ) < u64 :: MAX ensures
/*@C10.update_keeps_invariant*/ final ( self ) . wf ( ) , final ( self ) . same_cfg ( old ( self ) ) ,
/*@C10.nonfinite_ignored*/ ! f_finite ( value ) ==> * final ( self ) == * old ( self ) ,
/*@C10.total_weight_counts_finite*/ f_finite ( value ) ==> final ( self ) . total ( ) == old ( self ) . total ( ) + 1 ,
/*@C10.buffer_bound*/ final ( self ) . buffer @ . len ( ) <= final ( self ) . centroids_capacity * 4 , {
if value . is_nan ( ) || value . is_infinite ( ) {
return ;
}
if self . buffer . len ( ) == self . centroids_capacity * BUFFER_MULTIPLIER {
self . compress ( ) ;
}
self . buffer . push ( value ) ;
self . min = self . min . min ( value ) ;
self . max = self . max . max ( value ) ;
}





    fn is_empty ( & self ) -> ( r : bool ) ensures r == ( self . centroids @ . len ( ) == 0 && self . buffer @ . len ( ) == 0 ) {
self . centroids . is_empty ( ) && self . buffer . is_empty ( ) }






    // what `Default::default()` gives (closed: the ensures of a trait method must be visible to every caller)
    pub closed spec fn is_default(&self) -> bool { self.wf() && self.empty() && self.k == 200 && self.total() == 0 }

    // verified in unit td_codec (against the serialized image); here only the integer facts the wrappers need
    #[verifier::external_body]
    fn new(k: u16) -> (r: Self)
      requires k >= 10
      ensures r.wf(), r.empty(), r.k == k, r.total() == 0
    { unimplemented!() }

    fn try_new ( k : u16 ) -> ( r : Result < Self , Error > ) ensures
/*@C10.try_new_k_check*/ r is Ok <==> k >= 10 ,
/*@C10.new_empty*/ r matches Ok ( t ) ==> t . wf ( ) && t . empty ( ) && t . k == k && t . total ( ) == 0 , {
if k < 10 {
return Err ( Error :: invalid_argument ( format! ( "k must be at least 10, got {k}" ) ) ) ;
}
proof {
assert ( wsum ( Seq :: < Centroid > :: empty ( ) ) == 0 ) ;
}
assert ( /*@C17.td.make_k_established*/ k >= 10 ) ;
Ok ( Self :: make ( k , false , vx_f64_infinity ( ) , vx_f64_neg_infinity ( ) , vec! [ ] , 0 , vec! [ ] , ) ) }




    fn k ( & self ) -> ( r : u16 ) ensures
/*@C10.k_getter*/ r == self . k {
self . k }




    fn rank ( & mut self , value : f64 ) -> ( r : Option < f64 > ) requires old ( self ) . wf ( ) , ensures
/*@C10.rank_value_validated*/ ! f_is_nan ( value ) , final ( self ) . wf ( ) , final ( self ) . same_cfg ( old ( self ) ) , final ( self ) . total ( ) == old ( self ) . total ( ) ,
/*@C10.rank_shape*/ r is None <==> old ( self ) . empty ( ) ,
/*@C10.rank_single_value*/ ( ! old ( self ) . empty ( ) && ! f_lt ( value , old ( self ) . min ) && ! f_gt ( value , old ( self ) . max ) && old ( self ) . centroids @ . len ( ) + old ( self ) . buffer @ . len ( ) == 1 ) ==> r == Some ( 0.5f64 ) ,
/*@C10.rank_delegates*/ ( ! old ( self ) . empty ( ) && ! f_lt ( value , old ( self ) . min ) && ! f_gt ( value , old ( self ) . max ) && old ( self ) . centroids @ . len ( ) + old ( self ) . buffer @ . len ( ) != 1 ) ==> r == view_rank_spec ( final ( self ) . min , final ( self ) . max , final ( self ) . centroids @ , final ( self ) . centroids_weight , value ) , {
proof {
axiom_f64_cmp_deterministic ( ) ;
}
vx_documented_panic ( ! value . is_nan ( ) ) ;
if self . is_empty ( ) {
return None ;
}
if value < self . min {
return Some ( 0.0 ) ;
}
if value > self . max {
return Some ( 1.0 ) ;
}
proof {
axiom_centroid_vec_len ( & self . centroids ) ;
}
if self . centroids . len ( ) + self . buffer . len ( ) == 1 {
return Some ( 0.5 ) ;
}
self . view ( ) . rank ( value ) }




    fn quantile ( & mut self , rank : f64 ) -> ( r : Option < f64 > ) requires old ( self ) . wf ( ) , ensures
/*@C10.quantile_rank_validated*/ f_in_unit ( rank ) , final ( self ) . wf ( ) , final ( self ) . same_cfg ( old ( self ) ) , final ( self ) . total ( ) == old ( self ) . total ( ) ,
/*@C10.quantile_shape*/ r is None <==> old ( self ) . empty ( ) ,
/*@C10.quantile_delegates*/ ! old ( self ) . empty ( ) ==> r == view_quantile_spec ( final ( self ) . min , final ( self ) . max , final ( self ) . centroids @ , final ( self ) . centroids_weight , rank ) , {
vx_documented_panic ( vx_in_unit_interval ( & rank ) ) ;
if self . is_empty ( ) {
return None ;
}
self . view ( ) . quantile ( rank ) }




    fn min_value ( & self ) -> ( r : Option < f64 > ) ensures r is None <==> self . empty ( ) , r matches Some ( v ) ==> v == self . min {
if self . is_empty ( ) {
None }
else {
Some ( self . min ) }
}





    fn max_value ( & self ) -> ( r : Option < f64 > ) ensures r is None <==> self . empty ( ) , r matches Some ( v ) ==> v == self . max {
if self . is_empty ( ) {
None }
else {
Some ( self . max ) }
}





    fn total_weight ( & self ) -> ( r : u64 ) requires self . total ( ) <= u64 :: MAX ensures
/*@C10.total_weight*/ r == self . centroids_weight + self . buffer @ . len ( ) {
self . centroids_weight + self . buffer . len ( ) as u64 }





    fn merge ( & mut self , other : & TDigestMut ) requires old ( self ) . wf ( ) , other . wf ( ) , old ( self ) . total ( ) + other . total ( ) <= u64 :: MAX ensures final ( self ) . wf ( ) , final ( self ) . same_cfg ( old ( self ) ) ,
/*@C10.merge_total_weight*/ final ( self ) . total ( ) == old ( self ) . total ( ) + other . total ( ) , {
if other . is_empty ( ) {
proof {
assert ( other . centroids @ =~= Seq :: < Centroid > :: empty ( ) ) ;
}
return ;
}
proof {
axiom_centroid_vec_len ( & self . centroids ) ;
axiom_centroid_vec_len ( & other . centroids ) ;
}
let mut tmp = Vec :: with_capacity ( self . centroids . len ( ) + self . buffer . len ( ) + other . centroids . len ( ) + other . buffer . len ( ) , ) ;
let mut vx_i1 = 0 ;
while vx_i1 < self . buffer . len ( ) invariant vx_i1 <= self . buffer @ . len ( ) , tmp @ . len ( ) == vx_i1 ,
/*@C10.merge_weight_argument*/ wsum ( tmp @ ) == vx_i1 , decreases self . buffer @ . len ( ) - vx_i1 {
let v = self . buffer [ vx_i1 ] ;
let ghost t0 = tmp @ ;
tmp . push ( Centroid {
mean : v , weight : DEFAULT_WEIGHT , }
) ;
proof {
lemma_wsum_push ( t0 , tmp @ . last ( ) ) ;
}
vx_i1 += 1 ;
}
let mut vx_i2 = 0 ;
while vx_i2 < other . buffer . len ( ) invariant vx_i2 <= other . buffer @ . len ( ) , tmp @ . len ( ) == self . buffer @ . len ( ) + vx_i2 ,
/*@C10.merge_weight_argument*/ wsum ( tmp @ ) == self . buffer @ . len ( ) + vx_i2 , decreases other . buffer @ . len ( ) - vx_i2 {
let v = other . buffer [ vx_i2 ] ;
let ghost t0 = tmp @ ;
tmp . push ( Centroid {
mean : v , weight : DEFAULT_WEIGHT , }
) ;
proof {
lemma_wsum_push ( t0 , tmp @ . last ( ) ) ;
}
vx_i2 += 1 ;
}
let mut vx_i3 = 0 ;
while vx_i3 < other . centroids . len ( ) invariant vx_i3 <= other . centroids @ . len ( ) , tmp @ . len ( ) == self . buffer @ . len ( ) + other . buffer @ . len ( ) + vx_i3 ,
/*@C10.merge_weight_argument*/ wsum ( tmp @ ) == self . buffer @ . len ( ) + other . buffer @ . len ( ) + wsum ( other . centroids @ . take ( vx_i3 as int ) ) , decreases other . centroids @ . len ( ) - vx_i3 {
let c = other . centroids [ vx_i3 ] ;
proof {
lemma_wsum_push ( tmp @ , c ) ;
assert ( other . centroids @ . take ( vx_i3 + 1 ) . drop_last ( ) =~= other . centroids @ . take ( vx_i3 as int ) ) ;
}
tmp . push ( c ) ;
vx_i3 += 1 ;
}
proof {
assert ( other . centroids @ . take ( other . centroids @ . len ( ) as int ) =~= other . centroids @ ) ;
}
self . do_merge ( tmp , self . buffer . len ( ) as u64 + other . total_weight ( ) ) }






    fn view ( & mut self ) -> ( r : TDigestView < '_ > ) requires old ( self ) . wf ( ) ensures r . centroids @ == final ( self ) . centroids @ , r . centroids_weight == final ( self ) . centroids_weight , r . min == final ( self ) . min , r . max == final ( self ) . max , old ( self ) . buffer @ . len ( ) == 0 ==> * final ( self ) == * old ( self ) , final ( self ) . wf ( ) , final ( self ) . same_cfg ( old ( self ) ) , final ( self ) . total ( ) == old ( self ) . total ( ) , final ( self ) . buffer @ . len ( ) == 0 , ! old ( self ) . empty ( ) ==> final ( self ) . centroids @ . len ( ) >= 1 , {
self . compress ( ) ;
TDigestView {
min : self . min , max : self . max , centroids : & self . centroids , centroids_weight : self . centroids_weight , }
}





    fn cdf ( & mut self , split_points : & [ f64 ] ) -> ( r : Option < Vec < f64 >> ) requires old ( self ) . wf ( ) , ensures
/*@C10.split_points_validated*/ sp_valid ( split_points @ ) , final ( self ) . wf ( ) , final ( self ) . total ( ) == old ( self ) . total ( ) ,
/*@C10.cdf_shape*/ r is None <==> old ( self ) . empty ( ) ,
/*@C10.cdf_pmf_len*/ r matches Some ( v ) ==> v @ . len ( ) == split_points @ . len ( ) + 1 , {
check_split_points ( split_points ) ;
if self . is_empty ( ) {
return None ;
}
self . view ( ) . cdf ( split_points ) }





    fn pmf ( & mut self , split_points : & [ f64 ] ) -> ( r : Option < Vec < f64 >> ) requires old ( self ) . wf ( ) , ensures
/*@C10.split_points_validated*/ sp_valid ( split_points @ ) , final ( self ) . wf ( ) , final ( self ) . total ( ) == old ( self ) . total ( ) ,
/*@C10.pmf_shape*/ r is None <==> old ( self ) . empty ( ) ,
/*@C10.cdf_pmf_len*/ r matches Some ( v ) ==> v @ . len ( ) == split_points @ . len ( ) + 1 , {
check_split_points ( split_points ) ;
if self . is_empty ( ) {
return None ;
}
self . view ( ) . pmf ( split_points ) }





    fn is_single_value ( & self ) -> ( r : bool ) requires self . total ( ) <= u64 :: MAX ensures r == ( self . total ( ) == 1 ) {
self . total_weight ( ) == 1 }





    fn compress ( & mut self ) requires old ( self ) . wf ( ) ensures final ( self ) . wf ( ) , final ( self ) . same_cfg ( old ( self ) ) ,
/*@C10.compress_keeps_total*/ final ( self ) . total ( ) == old ( self ) . total ( ) ,
/*@C10.compress_empties_buffer*/ final ( self ) . buffer @ . len ( ) == 0 , old ( self ) . buffer @ . len ( ) == 0 ==> * final ( self ) == * old ( self ) , ! old ( self ) . empty ( ) ==> final ( self ) . centroids @ . len ( ) >= 1 , {
if self . buffer . is_empty ( ) {
return ;
}
proof {
axiom_centroid_vec_len ( & self . centroids ) ;
}
let mut tmp = Vec :: with_capacity ( self . buffer . len ( ) + self . centroids . len ( ) ) ;
let mut vx_i1 = 0 ;
while vx_i1 < self . buffer . len ( ) invariant vx_i1 <= self . buffer @ . len ( ) , tmp @ . len ( ) == vx_i1 ,
/*@C10.compress_weight_argument*/ wsum ( tmp @ ) == vx_i1 , decreases self . buffer @ . len ( ) - vx_i1 {
let v = self . buffer [ vx_i1 ] ;
let ghost t0 = tmp @ ;
tmp . push ( Centroid {
mean : v , weight : DEFAULT_WEIGHT , }
) ;
proof {
lemma_wsum_push ( t0 , tmp @ . last ( ) ) ;
}
vx_i1 += 1 ;
}
self . do_merge ( tmp , self . buffer . len ( ) as u64 ) }





    fn do_merge ( & mut self , mut buffer : Vec < Centroid > , weight : u64 ) requires old ( self ) . cfg_ok ( ) , wsum ( old ( self ) . centroids @ ) == old ( self ) . centroids_weight , buffer @ . len ( ) >= 1 , wsum ( buffer @ ) == weight , old ( self ) . centroids_weight + weight <= u64 :: MAX , ensures final ( self ) . cfg_ok ( ) , final ( self ) . same_cfg ( old ( self ) ) ,
/*@C10.centroids_weight_adds*/ final ( self ) . centroids_weight == old ( self ) . centroids_weight + weight ,
/*@C10.weights_conserved*/ wsum ( final ( self ) . centroids @ ) == final ( self ) . centroids_weight ,
/*@C10.buffer_cleared*/ final ( self ) . buffer @ . len ( ) == 0 , 1 <= final ( self ) . centroids @ . len ( ) <= buffer @ . len ( ) + old ( self ) . centroids @ . len ( ) ,
/*@C10.min_is_extreme*/ final ( self ) . min == f_min ( old ( self ) . min , final ( self ) . centroids @ [ 0 ] . mean ) ,
/*@C10.max_is_extreme*/ final ( self ) . max == f_max ( old ( self ) . max , final ( self ) . centroids @ [ final ( self ) . centroids @ . len ( ) - 1 ] . mean ) , {
let ghost b0 = buffer @ ;
let ghost c0 = self . centroids @ ;
proof {
lemma_wsum_append ( b0 , c0 ) ;
}
vx_extend_take ( & mut buffer , & mut self . centroids ) ;
let ghost b1 = buffer @ ;
buffer . sort_by ( centroid_cmp ) ;
proof {
lemma_wsum_perm ( buffer @ , b1 ) ;
}
if self . reverse_merge {
proof {
lemma_wsum_reverse ( buffer @ ) ;
}
buffer . reverse ( ) ;
}
self . centroids_weight += weight ;
let mut num_centroids = 0 ;
let len = buffer . len ( ) ;
proof {
lemma_wsum_push ( Seq :: < Centroid > :: empty ( ) , buffer @ [ 0 ] ) ;
lemma_wsum_tail ( buffer @ , 0 ) ;
assert ( buffer @ . subrange ( 0 , len as int ) =~= buffer @ ) ;
}
self . centroids . push ( buffer [ 0 ] ) ;
num_centroids += 1 ;
let mut current = 1 ;
let mut weight_so_far = 0. ;
while current < len invariant len == buffer @ . len ( ) , 1 <= current <= len , num_centroids == self . centroids @ . len ( ) , 1 <= num_centroids <= current , self . cfg_ok ( ) , self . same_cfg ( old ( self ) ) ,
/*@C10.centroids_weight_adds*/ self . centroids_weight == old ( self ) . centroids_weight + weight , self . buffer == old ( self ) . buffer , self . reverse_merge == old ( self ) . reverse_merge ,
/*@C10.weights_conserved*/ wsum ( self . centroids @ ) + wsum ( buffer @ . subrange ( current as int , len as int ) ) == self . centroids_weight , decreases len - current {
proof {
axiom_float_total ( ) ;
}
let c = buffer [ current ] ;
let proposed_weight = self . centroids [ num_centroids - 1 ] . weight ( ) + c . weight ( ) ;
let mut add_this = false ;
if ( current != 1 ) && ( current != ( len - 1 ) ) {
let centroids_weight = self . centroids_weight as f64 ;
let q0 = weight_so_far / centroids_weight ;
let q2 = ( weight_so_far + proposed_weight ) / centroids_weight ;
let normalizer = normalizer ( 2.0 * self . k as f64 , centroids_weight ) ;
add_this = proposed_weight <= ( centroids_weight * max ( q0 , normalizer ) . min ( max ( q2 , normalizer ) ) ) ;
}
proof {
lemma_wsum_tail ( buffer @ , current as int ) ;
lemma_wsum_nonneg ( buffer @ . subrange ( current + 1 , len as int ) ) ;
lemma_wsum_elem ( self . centroids @ , num_centroids - 1 ) ;
lemma_wsum_remove ( self . centroids @ , num_centroids - 1 ) ;
lemma_wsum_nonneg ( self . centroids @ . remove ( num_centroids - 1 ) ) ;
}
let ghost cs = self . centroids @ ;
if add_this {
self . centroids [ num_centroids - 1 ] . add ( c ) ;
proof {
lemma_wsum_update ( cs , num_centroids - 1 , self . centroids @ [ num_centroids - 1 ] ) ;
assert ( self . centroids @ =~= cs . update ( num_centroids - 1 , self . centroids @ [ num_centroids - 1 ] ) ) ;
}
}
else {
weight_so_far = weight_so_far + self . centroids [ num_centroids - 1 ] . weight ( ) ;
self . centroids . push ( c ) ;
num_centroids += 1 ;
proof {
lemma_wsum_push ( cs , c ) ;
}
}
current += 1 ;
}
proof {
assert ( buffer @ . subrange ( len as int , len as int ) =~= Seq :: < Centroid > :: empty ( ) ) ;
}
if self . reverse_merge {
proof {
lemma_wsum_reverse ( self . centroids @ ) ;
}
self . centroids . reverse ( ) ;
}
self . min = self . min . min ( self . centroids [ 0 ] . mean ) ;
self . max = self . max . max ( self . centroids [ num_centroids - 1 ] . mean ) ;
self . reverse_merge = ! self . reverse_merge ;
self . buffer . clear ( ) ;
}




}


impl TDigest {
    spec fn wf(&self) -> bool { self.k >= 10 && wsum(self.centroids@) == self.centroids_weight }

    fn total_weight ( & self ) -> ( r : u64 ) ensures
/*@C10.total_weight*/ r == self . centroids_weight {
self . centroids_weight }





    fn view ( & self ) -> ( r : TDigestView < '_ > ) ensures r . centroids @ == self . centroids @ , r . centroids_weight == self . centroids_weight , r . min == self . min , r . max == self . max {
TDigestView {
min : self . min , max : self . max , centroids : & self . centroids , centroids_weight : self . centroids_weight , }
}





    fn cdf ( & self , split_points : & [ f64 ] ) -> ( r : Option < Vec < f64 >> ) ensures
/*@C10.split_points_validated*/ sp_valid ( split_points @ ) ,
/*@C10.cdf_shape*/ r is None <==> self . centroids @ . len ( ) == 0 ,
/*@C10.cdf_pmf_len*/ r matches Some ( v ) ==> v @ . len ( ) == split_points @ . len ( ) + 1 , {
self . view ( ) . cdf ( split_points ) }





    fn pmf ( & self , split_points : & [ f64 ] ) -> ( r : Option < Vec < f64 >> ) ensures
/*@C10.split_points_validated*/ sp_valid ( split_points @ ) ,
/*@C10.pmf_shape*/ r is None <==> self . centroids @ . len ( ) == 0 ,
/*@C10.cdf_pmf_len*/ r matches Some ( v ) ==> v @ . len ( ) == split_points @ . len ( ) + 1 , {
self . view ( ) . pmf ( split_points ) }





    fn k ( & self ) -> ( r : u16 ) ensures
/*@C10.k_getter*/ r == self . k {
self . k }




    fn is_empty ( & self ) -> ( r : bool ) ensures
/*@C10.frozen_is_empty*/ r == ( self . centroids @ . len ( ) == 0 ) {
self . centroids . is_empty ( ) }




    fn min_value ( & self ) -> ( r : Option < f64 > ) ensures r is None <==> self . centroids @ . len ( ) == 0 , r matches Some ( v ) ==> v == self . min {
if self . is_empty ( ) {
None }
else {
Some ( self . min ) }
}




    fn max_value ( & self ) -> ( r : Option < f64 > ) ensures r is None <==> self . centroids @ . len ( ) == 0 , r matches Some ( v ) ==> v == self . max {
if self . is_empty ( ) {
None }
else {
Some ( self . max ) }
}




    fn rank ( & self , value : f64 ) -> ( r : Option < f64 > ) ensures
/*@C10.rank_value_validated*/ ! f_is_nan ( value ) ,
/*@C10.rank_shape*/ r is None <==> self . centroids @ . len ( ) == 0 ,
/*@C10.rank_delegates*/ r == view_rank_spec ( self . min , self . max , self . centroids @ , self . centroids_weight , value ) {
vx_documented_panic ( ! value . is_nan ( ) ) ;
self . view ( ) . rank ( value ) }




    fn quantile ( & self , rank : f64 ) -> ( r : Option < f64 > ) ensures
/*@C10.quantile_rank_validated*/ f_in_unit ( rank ) ,
/*@C10.quantile_shape*/ r is None <==> self . centroids @ . len ( ) == 0 ,
/*@C10.quantile_delegates*/ r == view_quantile_spec ( self . min , self . max , self . centroids @ , self . centroids_weight , rank ) {
vx_documented_panic ( vx_in_unit_interval ( & rank ) ) ;
self . view ( ) . quantile ( rank ) }




    fn unfreeze ( self ) -> ( r : TDigestMut ) requires self . wf ( ) ensures r . wf ( ) ,
/*@C10.unfreeze_keeps_total*/ r . total ( ) == self . centroids_weight , r . k == self . k , r . centroids @ == self . centroids @ , {
assert ( /*@C17.td.make_k_established*/ self . k >= 10 ) ;
TDigestMut :: make ( self . k , self . reverse_merge , self . min , self . max , self . centroids , self . centroids_weight , vec! [ ] , ) }




}

impl TDigestView<'_> {
    // float interpolation: opaque; ASSUMED only the None/Some shape (first statements of the real body)
    #[verifier::external_body]
    fn quantile(&self, rank: f64) -> (r: Option<f64>)
      requires f_in_unit(rank)
      ensures r is None <==> self.centroids@.len() == 0, r == view_quantile_spec(self.min, self.max, self.centroids@, self.centroids_weight, rank)
    { unimplemented!() }

    #[verifier::external_body]
    fn rank(&self, value: f64) -> (r: Option<f64>)
      requires !f_is_nan(value)
      ensures r is None <==> self.centroids@.len() == 0, r == view_rank_spec(self.min, self.max, self.centroids@, self.centroids_weight, value)
    { unimplemented!() }

    fn pmf ( & self , split_points : & [ f64 ] ) -> ( r : Option < Vec < f64 >> ) ensures
/*@C10.split_points_validated*/ sp_valid ( split_points @ ) ,
/*@C10.pmf_shape*/ r is None <==> self . centroids @ . len ( ) == 0 ,
/*@C10.cdf_pmf_len*/ r matches Some ( v ) ==> v @ . len ( ) == split_points @ . len ( ) + 1 , {
let mut buckets = self . cdf ( split_points ) ? ;
let mut vx_n1 = buckets . len ( ) ;
let vx_lo1 = 1 ;
while vx_n1 > vx_lo1 invariant buckets @ . len ( ) == split_points @ . len ( ) + 1 , vx_n1 <= buckets @ . len ( ) , vx_lo1 >= 1 , decreases vx_n1 {
vx_n1 -= 1 ;
let i = vx_n1 ;
proof {
axiom_float_total ( ) ;
}
buckets [ i ] = buckets [ i ] - buckets [ i - 1 ] ;
}
Some ( buckets ) }





    fn cdf ( & self , split_points : & [ f64 ] ) -> ( r : Option < Vec < f64 >> ) ensures
/*@C10.split_points_validated*/ sp_valid ( split_points @ ) ,
/*@C10.cdf_shape*/ r is None <==> self . centroids @ . len ( ) == 0 ,
/*@C10.cdf_pmf_len*/ r matches Some ( v ) ==> v @ . len ( ) == split_points @ . len ( ) + 1 , {
check_split_points ( split_points ) ;
if self . centroids . is_empty ( ) {
return None ;
}
proof {
axiom_f64_slice_len ( split_points ) ;
}
let mut ranks = Vec :: with_capacity ( split_points . len ( ) + 1 ) ;
let mut vx_i1 = 0 ;
while vx_i1 < split_points . len ( ) invariant vx_i1 <= split_points @ . len ( ) , ranks @ . len ( ) == vx_i1 , self . centroids @ . len ( ) > 0 , split_points @ . len ( ) == 1 ==> ! f_is_nan ( split_points @ [ 0 ] ) , forall | i : int | 0 <= i < split_points @ . len ( ) - 1 ==> f_lt ( # [ trigger ] split_points @ [ i ] , split_points @ [ i + 1 ] ) , decreases split_points @ . len ( ) - vx_i1 {
let p = split_points [ vx_i1 ] ;
proof {
if split_points @ . len ( ) > 1 {
if vx_i1 + 1 < split_points @ . len ( ) {
axiom_lt_not_nan ( split_points @ [ vx_i1 as int ] , split_points @ [ vx_i1 + 1 ] ) ;
}
else {
axiom_lt_not_nan ( split_points @ [ vx_i1 - 1 ] , split_points @ [ vx_i1 as int ] ) ;
}
}
}
match self . rank ( p ) {
Some ( rank ) => ranks . push ( rank ) , None => unreachable! ( ) , }
vx_i1 += 1 ;
}
ranks . push ( 1.0 ) ;
Some ( ranks ) }




}
}
fn main(){}
